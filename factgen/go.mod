module factgen

go 1.18

// factgen re-reads /repo's sources (go/parser + go/ast, default build tags, non-test files) and
// regenerates LDEval/Generated/Facts.lean: constants, tables and structural facts that the Lean
// model is written against. Obligation modules prove Generated = Expected; a change to the code
// that alters a table breaks an obligation at `lake build`.
package main

import (
	"flag"
	"fmt"
	"go/ast"
	"go/parser"
	"go/token"
	"os"
	"path/filepath"
	"sort"
	"strconv"
	"strings"
)

type pkgFiles struct {
	name  string
	files []*ast.File
	fset  *token.FileSet
}

func loadPkg(dir, name string) *pkgFiles {
	fset := token.NewFileSet()
	p := &pkgFiles{name: name, fset: fset}
	entries, err := os.ReadDir(dir)
	if err != nil {
		fail("cannot read %s: %v", dir, err)
	}
	names := []string{}
	for _, e := range entries {
		n := e.Name()
		if e.IsDir() || !strings.HasSuffix(n, ".go") || strings.HasSuffix(n, "_test.go") {
			continue
		}
		names = append(names, n)
	}
	sort.Strings(names)
	for _, n := range names {
		path := filepath.Join(dir, n)
		src, err := os.ReadFile(path)
		if err != nil {
			fail("read %s: %v", path, err)
		}
		// default build tags: skip files guarded by a positive build tag (verif hooks, easyjson)
		head := string(src)
		if i := strings.Index(head, "package "); i >= 0 {
			head = head[:i]
		}
		if strings.Contains(head, "//go:build") {
			line := head[strings.Index(head, "//go:build"):]
			line = line[:strings.IndexByte(line, '\n')]
			expr := strings.TrimSpace(strings.TrimPrefix(line, "//go:build"))
			if !strings.HasPrefix(expr, "!") {
				continue
			}
		}
		f, err := parser.ParseFile(fset, path, src, parser.ParseComments)
		if err != nil {
			fail("parse %s: %v", path, err)
		}
		p.files = append(p.files, f)
	}
	return p
}

func fail(format string, a ...any) {
	fmt.Fprintf(os.Stderr, "factgen: "+format+"\n", a...)
	os.Exit(1)
}

func (p *pkgFiles) funcs() []*ast.FuncDecl {
	out := []*ast.FuncDecl{}
	for _, f := range p.files {
		for _, d := range f.Decls {
			if fd, ok := d.(*ast.FuncDecl); ok {
				out = append(out, fd)
			}
		}
	}
	return out
}

func (p *pkgFiles) findFunc(name string) *ast.FuncDecl {
	for _, fd := range p.funcs() {
		if fd.Name.Name == name {
			return fd
		}
	}
	return nil
}

func exprStr(e ast.Expr) string {
	switch t := e.(type) {
	case *ast.Ident:
		return t.Name
	case *ast.SelectorExpr:
		return exprStr(t.X) + "." + t.Sel.Name
	case *ast.StarExpr:
		return "*" + exprStr(t.X)
	case *ast.IndexExpr:
		return exprStr(t.X) + "[" + exprStr(t.Index) + "]"
	case *ast.ArrayType:
		return "[]" + exprStr(t.Elt)
	case *ast.MapType:
		return "map[" + exprStr(t.Key) + "]" + exprStr(t.Value)
	case *ast.BasicLit:
		return t.Value
	case *ast.CallExpr:
		return exprStr(t.Fun) + "(…)"
	case *ast.UnaryExpr:
		return t.Op.String() + exprStr(t.X)
	case *ast.ParenExpr:
		return "(" + exprStr(t.X) + ")"
	case *ast.BinaryExpr:
		return exprStr(t.X) + " " + t.Op.String() + " " + exprStr(t.Y)
	case *ast.FuncType:
		return "func"
	case *ast.InterfaceType:
		return "interface"
	case *ast.Ellipsis:
		return "..." + exprStr(t.Elt)
	}
	return fmt.Sprintf("%T", e)
}

// ---------- Lean rendering ----------

func leanStr(s string) string { return strconv.Quote(s) }

func leanStrList(xs []string) string {
	q := make([]string, len(xs))
	for i, x := range xs {
		q[i] = leanStr(x)
	}
	return "[" + strings.Join(q, ", ") + "]"
}

type pair struct{ a, b string }

func leanPairList(xs []pair) string {
	q := make([]string, len(xs))
	for i, x := range xs {
		q[i] = "(" + leanStr(x.a) + ", " + leanStr(x.b) + ")"
	}
	return "[" + strings.Join(q, ", ") + "]"
}

// ---------- extractions ----------

func constValues(p *pkgFiles) map[string]string {
	out := map[string]string{}
	for _, f := range p.files {
		for _, d := range f.Decls {
			gd, ok := d.(*ast.GenDecl)
			if !ok || gd.Tok != token.CONST {
				continue
			}
			for _, s := range gd.Specs {
				vs := s.(*ast.ValueSpec)
				for i, n := range vs.Names {
					if i < len(vs.Values) {
						out[n.Name] = exprStr(vs.Values[i])
					}
				}
			}
		}
	}
	return out
}

func unquote(s string) string {
	if u, err := strconv.Unquote(s); err == nil {
		return u
	}
	return s
}

// switchCases returns, for the first switch statement in fn (optionally the one whose tag matches
// tagSuffix), the list of case expressions in order.
func switchCases(fn *ast.FuncDecl, tagSuffix string) [][]string {
	var res [][]string
	found := false
	ast.Inspect(fn.Body, func(n ast.Node) bool {
		if found {
			return false
		}
		sw, ok := n.(*ast.SwitchStmt)
		if !ok {
			return true
		}
		if tagSuffix != "" && (sw.Tag == nil || !strings.HasSuffix(exprStr(sw.Tag), tagSuffix)) {
			return true
		}
		found = true
		for _, c := range sw.Body.List {
			cc := c.(*ast.CaseClause)
			labels := []string{}
			for _, e := range cc.List {
				labels = append(labels, exprStr(e))
			}
			res = append(res, labels)
		}
		return false
	})
	return res
}

var readerPrimitives = map[string]bool{"String": true, "StringOrNull": true, "Bool": true, "BoolOrNull": true, "Int": true,
	"IntOrNull": true, "Float64": true, "Float64OrNull": true, "Array": true, "ArrayOrNull": true, "Object": true,
	"ObjectOrNull": true, "Any": true, "Null": true, "SkipValue": true}

// readerCallsIn returns the reader-ish calls made directly in a list of statements (not inside
// nested switch statements): the primitive a decoder case uses for its property.
func readerCall(stmts []ast.Stmt) string {
	calls := []string{}
	for _, st := range stmts {
		ast.Inspect(st, func(n ast.Node) bool {
			switch t := n.(type) {
			case *ast.SwitchStmt:
				return false
			case *ast.CallExpr:
				name := exprStr(t.Fun)
				if sel, ok := t.Fun.(*ast.SelectorExpr); ok && readerPrimitives[sel.Sel.Name] {
					if _, isIdent := sel.X.(*ast.Ident); isIdent {
						calls = append(calls, sel.Sel.Name)
						return true
					}
				}
				if strings.HasPrefix(name, "read") {
					calls = append(calls, name)
				} else if strings.HasSuffix(name, ".ReadFromJSONReader") {
					calls = append(calls, "ReadFromJSONReader")
				}
			}
			return true
		})
	}
	if len(calls) == 0 {
		return ""
	}
	return calls[0]
}

// decoderTable: for every switch on a property name inside fn, the (label, reader) pairs, in
// source order; nested switches are reported under "fn/<n>".
func decoderTables(fn *ast.FuncDecl) []struct {
	name  string
	props []pair
} {
	var out []struct {
		name  string
		props []pair
	}
	idx := 0
	ast.Inspect(fn.Body, func(n ast.Node) bool {
		sw, ok := n.(*ast.SwitchStmt)
		if !ok || sw.Tag == nil {
			return true
		}
		tag := exprStr(sw.Tag)
		if c, ok := sw.Tag.(*ast.CallExpr); ok && len(c.Args) == 1 {
			tag = exprStr(c.Args[0])
		}
		if !strings.Contains(tag, "Name") && !strings.Contains(tag, "name") {
			return true
		}
		props := []pair{}
		for _, c := range sw.Body.List {
			cc := c.(*ast.CaseClause)
			for _, e := range cc.List {
				props = append(props, pair{unquote(exprStr(e)), readerCall(cc.Body)})
			}
		}
		name := fn.Name.Name
		if idx > 0 {
			name = fmt.Sprintf("%s/%d", fn.Name.Name, idx)
		}
		idx++
		out = append(out, struct {
			name  string
			props []pair
		}{name, props})
		return true
	})
	return out
}

// encoderProps: property names written by fn through Name("x") (unconditional) and Maybe("x", …)
// or Name inside an if-statement (conditional), in source order.
func encoderProps(fn *ast.FuncDecl) []pair {
	props := []pair{}
	var walk func(n ast.Node, cond bool)
	walk = func(n ast.Node, cond bool) {
		ast.Inspect(n, func(m ast.Node) bool {
			switch t := m.(type) {
			case *ast.IfStmt:
				if t.Init != nil {
					walk(t.Init, cond)
				}
				walk(t.Body, true)
				if t.Else != nil {
					walk(t.Else, true)
				}
				return false
			case *ast.CallExpr:
				if sel, ok := t.Fun.(*ast.SelectorExpr); ok && len(t.Args) >= 1 {
					if lit, ok := t.Args[0].(*ast.BasicLit); ok && lit.Kind == token.STRING {
						switch sel.Sel.Name {
						case "Name":
							props = append(props, pair{unquote(lit.Value), map[bool]string{false: "always", true: "conditional"}[cond]})
						case "Maybe":
							props = append(props, pair{unquote(lit.Value), "conditional"})
						}
					}
				}
				// helper calls that write a named property passed as a string argument
				if id, ok := t.Fun.(*ast.Ident); ok && strings.HasPrefix(id.Name, "write") {
					for _, a := range t.Args {
						if lit, ok := a.(*ast.BasicLit); ok && lit.Kind == token.STRING {
							props = append(props, pair{unquote(lit.Value), map[bool]string{false: "always", true: "conditional"}[cond] + ":" + id.Name})
						}
					}
				}
			}
			return true
		})
	}
	walk(fn.Body, false)
	return props
}

func calleesIn(fn *ast.FuncDecl, interesting map[string]bool) []string {
	seen := map[string]bool{}
	out := []string{}
	ast.Inspect(fn.Body, func(n ast.Node) bool {
		if c, ok := n.(*ast.CallExpr); ok {
			name := exprStr(c.Fun)
			if i := strings.LastIndex(name, "."); i >= 0 {
				name = name[i+1:]
			}
			if interesting[name] && !seen[name] {
				seen[name] = true
				out = append(out, name)
			}
		}
		return true
	})
	return out
}

func recvName(fd *ast.FuncDecl) string {
	if fd.Recv == nil || len(fd.Recv.List) == 0 {
		return ""
	}
	return exprStr(fd.Recv.List[0].Type)
}

func qualName(fd *ast.FuncDecl) string {
	if r := recvName(fd); r != "" {
		return "(" + r + ")." + fd.Name.Name
	}
	return fd.Name.Name
}

// sharedTypes: values of these types are shared between calls/goroutines (evaluator, data model,
// context); evaluationScope and evaluationStack are per-call and deliberately not listed.
var sharedTypes = map[string]bool{"evaluator": true, "FeatureFlag": true, "Segment": true, "Clause": true, "Target": true,
	"SegmentTarget": true, "FlagRule": true, "SegmentRule": true, "VariationOrRollout": true, "Rollout": true,
	"ldmodel.FeatureFlag": true, "ldmodel.Segment": true, "ldmodel.Clause": true, "ldmodel.Target": true,
	"ldmodel.SegmentTarget": true, "ldmodel.FlagRule": true, "ldmodel.SegmentRule": true, "ldmodel.VariationOrRollout": true,
	"ldcontext.Context": true, "Context": true, "Prerequisite": true, "WeightedVariation": true,
	"clausePreprocessedData": true, "targetPreprocessedData": true, "segmentPreprocessedData": true}

func baseType(t string) string {
	t = strings.TrimPrefix(t, "*")
	t = strings.TrimPrefix(t, "[]")
	t = strings.TrimPrefix(t, "*")
	return t
}

// typedPath renders an access path with the root identifier replaced by its declared type and
// index expressions by [], so that renaming a parameter, receiver or loop variable changes nothing.
func typedPath(e ast.Expr, params map[string]string) string {
	switch t := e.(type) {
	case *ast.Ident:
		if ty, ok := params[t.Name]; ok {
			return "(" + ty + ")"
		}
		return t.Name
	case *ast.SelectorExpr:
		return typedPath(t.X, params) + "." + t.Sel.Name
	case *ast.IndexExpr:
		return typedPath(t.X, params) + "[]"
	case *ast.StarExpr:
		return "*" + typedPath(t.X, params)
	case *ast.ParenExpr:
		return typedPath(t.X, params)
	case *ast.CallExpr:
		return typedPath(t.Fun, params) + "()"
	}
	return exprStr(e)
}

func paramTypes(fd *ast.FuncDecl) map[string]string {
	params := map[string]string{}
	add := func(fl *ast.FieldList) {
		if fl == nil {
			return
		}
		for _, f := range fl.List {
			for _, n := range f.Names {
				params[n.Name] = exprStr(f.Type)
			}
		}
	}
	add(fd.Recv)
	add(fd.Type.Params)
	return params
}

func rootIdent(e ast.Expr) string {
	for {
		switch t := e.(type) {
		case *ast.Ident:
			return t.Name
		case *ast.SelectorExpr:
			e = t.X
		case *ast.IndexExpr:
			e = t.X
		case *ast.StarExpr:
			e = t.X
		case *ast.ParenExpr:
			e = t.X
		default:
			return ""
		}
	}
}

// sharedWrites lists, per function, assignments whose left-hand side is reached through a
// parameter/receiver of a shared type by pointer, slice or map (i.e. visible to the caller), or
// through a package-level variable.
func sharedWrites(p *pkgFiles, pkgVars map[string]bool) []string {
	out := []string{}
	for _, fd := range p.funcs() {
		if fd.Body == nil {
			continue
		}
		params := map[string]string{}
		add := func(fl *ast.FieldList) {
			if fl == nil {
				return
			}
			for _, f := range fl.List {
				for _, n := range f.Names {
					params[n.Name] = exprStr(f.Type)
				}
			}
		}
		add(fd.Recv)
		add(fd.Type.Params)
		record := func(lhs ast.Expr) {
			if _, isIdent := lhs.(*ast.Ident); isIdent {
				// plain assignment to a parameter rebinding the local copy is not a shared write,
				// but assignment to a package-level variable is
				if pkgVars[lhs.(*ast.Ident).Name] {
					out = append(out, p.name+"."+qualName(fd)+": "+typedPath(lhs, params))
				}
				return
			}
			root := rootIdent(lhs)
			if root == "" {
				return
			}
			if pkgVars[root] {
				if _, shadow := params[root]; !shadow {
					out = append(out, p.name+"."+qualName(fd)+": "+typedPath(lhs, params))
					return
				}
			}
			t, ok := params[root]
			if !ok {
				return
			}
			visible := strings.HasPrefix(t, "*") || strings.HasPrefix(t, "[]") || strings.HasPrefix(t, "map[")
			// a value receiver/parameter holding slices still shares their elements
			if _, isIdx := lhs.(*ast.IndexExpr); isIdx {
				visible = true
			}
			if containsIndex(lhs) {
				visible = true
			}
			if visible && sharedTypes[baseType(t)] {
				out = append(out, p.name+"."+qualName(fd)+": "+typedPath(lhs, params))
			}
		}
		ast.Inspect(fd.Body, func(n ast.Node) bool {
			switch t := n.(type) {
			case *ast.AssignStmt:
				if t.Tok == token.DEFINE {
					return true
				}
				for _, l := range t.Lhs {
					record(l)
				}
			case *ast.IncDecStmt:
				record(t.X)
			}
			return true
		})
	}
	sort.Strings(out)
	dedup := out[:0]
	for i, x := range out {
		if i == 0 || x != out[i-1] {
			dedup = append(dedup, x)
		}
	}
	return dedup
}

func containsIndex(e ast.Expr) bool {
	found := false
	ast.Inspect(e, func(n ast.Node) bool {
		if _, ok := n.(*ast.IndexExpr); ok {
			found = true
		}
		return true
	})
	return found
}

func packageVars(p *pkgFiles) []string {
	out := []string{}
	for _, f := range p.files {
		for _, d := range f.Decls {
			gd, ok := d.(*ast.GenDecl)
			if !ok || gd.Tok != token.VAR {
				continue
			}
			for _, s := range gd.Specs {
				vs := s.(*ast.ValueSpec)
				for _, n := range vs.Names {
					t := ""
					if vs.Type != nil {
						t = exprStr(vs.Type)
					}
					out = append(out, n.Name+" : "+t)
				}
			}
		}
	}
	sort.Strings(out)
	return out
}

func main() {
	repo := flag.String("repo", "/repo", "")
	outPath := flag.String("out", "", "")
	flag.Parse()
	root := loadPkg(*repo, "evaluation")
	model := loadPkg(filepath.Join(*repo, "ldmodel"), "ldmodel")
	internal := loadPkg(filepath.Join(*repo, "internal"), "internal")

	var b strings.Builder
	w := func(format string, a ...any) { fmt.Fprintf(&b, format, a...) }
	w("/-\n  GENERATED by /verif/factgen from /repo's sources — do not edit. Regenerated on every check run;\n  LDEval/Obligations/*.lean prove that these tables equal the ones the model is written against.\n-/\nnamespace LD.Generated\n\n")

	// --- constants
	rc := constValues(root)
	need := func(m map[string]string, k string) string {
		v, ok := m[k]
		if !ok {
			fail("constant %s not found", k)
		}
		return v
	}
	ls := need(rc, "longScale")
	ls = strings.TrimSuffix(strings.TrimPrefix(ls, "float32(…)"), "")
	// the literal inside float32(…)
	lit := ""
	for _, f := range root.files {
		ast.Inspect(f, func(n ast.Node) bool {
			if vs, ok := n.(*ast.ValueSpec); ok && len(vs.Names) == 1 && vs.Names[0].Name == "longScale" && len(vs.Values) == 1 {
				if c, ok := vs.Values[0].(*ast.CallExpr); ok && exprStr(c.Fun) == "float32" && len(c.Args) == 1 {
					lit = exprStr(c.Args[0])
				}
			}
			return true
		})
	}
	if lit == "" {
		fail("longScale is no longer float32(<literal>)")
	}
	n, err := strconv.ParseUint(lit, 0, 64)
	if err != nil {
		fail("longScale literal %q: %v", lit, err)
	}
	w("def longScaleLiteral : Nat := %d\n", n)
	for _, k := range []string{"initialHashInputBufferSize", "preallocatedPrerequisiteChainSize", "preallocatedSegmentChainSize"} {
		v, err := strconv.ParseUint(need(rc, k), 0, 64)
		if err != nil {
			fail("constant %s: %v", k, err)
		}
		w("def %s : Nat := %d\n", k, v)
	}
	// how many hex characters of the hash are used: hexEncodedChars[:N]
	hexN := ""
	if fn := root.findFunc("computeBucketValue"); fn != nil {
		ast.Inspect(fn.Body, func(n ast.Node) bool {
			if se, ok := n.(*ast.SliceExpr); ok && exprStr(se.X) == "hexEncodedChars" && se.High != nil {
				hexN = exprStr(se.High)
			}
			return true
		})
	}
	if hexN == "" {
		fail("computeBucketValue no longer slices hexEncodedChars[:N]")
	}
	w("def hashHexDigits : Nat := %s\n\n", hexN)

	// --- operators
	mc := constValues(model)
	ops := []pair{}
	opNames := []string{}
	for k := range mc {
		if strings.HasPrefix(k, "Operator") {
			opNames = append(opNames, k)
		}
	}
	sort.Strings(opNames)
	for _, k := range opNames {
		ops = append(ops, pair{k, unquote(mc[k])})
	}
	w("def operatorConstants : List (String × String) := %s\n", leanPairList(ops))
	doOp := root.findFunc("doOp")
	if doOp == nil {
		fail("doOp not found")
	}
	cases := []string{}
	for _, labels := range switchCases(doOp, "") {
		for _, l := range labels {
			name := strings.TrimPrefix(l, "ldmodel.")
			v, ok := mc[name]
			if !ok {
				fail("doOp case %s is not an operator constant", l)
			}
			cases = append(cases, unquote(v))
		}
	}
	w("def doOpCases : List String := %s\n", leanStrList(cases))
	// operators handled before doOp
	special := []string{}
	for _, fn := range []string{"matchAny", "clauseMatchesContext"} {
		fd := root.findFunc(fn)
		if fd == nil {
			fail("%s not found", fn)
		}
		ast.Inspect(fd.Body, func(n ast.Node) bool {
			if be, ok := n.(*ast.BinaryExpr); ok && be.Op == token.EQL && strings.HasSuffix(exprStr(be.X), ".Op") {
				name := strings.TrimPrefix(exprStr(be.Y), "ldmodel.")
				if v, ok := mc[name]; ok {
					special = append(special, fn+":"+unquote(v))
				}
			}
			return true
		})
	}
	w("def specialOperators : List String := %s\n\n", leanStrList(special))

	// --- error types
	errTypes := []string{}
	errKinds := []pair{}
	for _, fd := range root.funcs() {
		if fd.Recv == nil {
			continue
		}
		if fd.Name.Name == "Error" {
			errTypes = append(errTypes, recvName(fd))
		}
		if fd.Name.Name == "errorKind" {
			kind := ""
			ast.Inspect(fd.Body, func(n ast.Node) bool {
				if r, ok := n.(*ast.ReturnStmt); ok && len(r.Results) == 1 {
					kind = strings.TrimPrefix(exprStr(r.Results[0]), "ldreason.")
				}
				return true
			})
			errKinds = append(errKinds, pair{recvName(fd), kind})
		}
	}
	sort.Strings(errTypes)
	sort.Slice(errKinds, func(i, j int) bool { return errKinds[i].a < errKinds[j].a })
	w("def errorTypes : List String := %s\n", leanStrList(errTypes))
	w("def errorKinds : List (String × String) := %s\n", leanPairList(errKinds))
	// fallback kind of errorKindForError
	fb := ""
	if fd := root.findFunc("errorKindForError"); fd != nil {
		var last string
		ast.Inspect(fd.Body, func(n ast.Node) bool {
			if r, ok := n.(*ast.ReturnStmt); ok && len(r.Results) == 1 {
				last = strings.TrimPrefix(exprStr(r.Results[0]), "ldreason.")
			}
			return true
		})
		fb = last
	}
	w("def errorKindFallback : String := %s\n", leanStr(fb))
	// Evaluate's first statement
	first := ""
	for _, fd := range root.funcs() {
		if fd.Name.Name == "Evaluate" && fd.Recv != nil && len(fd.Body.List) > 0 {
			if is, ok := fd.Body.List[0].(*ast.IfStmt); ok {
				ret := ""
				ast.Inspect(is.Body, func(n ast.Node) bool {
					if id, ok := n.(*ast.SelectorExpr); ok && strings.HasPrefix(id.Sel.Name, "EvalError") {
						ret = id.Sel.Name
					}
					return true
				})
				first = typedPath(is.Cond.(*ast.BinaryExpr).X, paramTypes(fd)) + " != nil => " + ret
			}
		}
	}
	w("def evaluateFirstCheck : String := %s\n\n", leanStr(first))

	// --- status priority, reference format
	prio := []pair{}
	if fd := root.findFunc("getBigSegmentsStatusPriority"); fd != nil {
		ast.Inspect(fd.Body, func(n ast.Node) bool {
			if cc, ok := n.(*ast.CaseClause); ok {
				ret := ""
				for _, st := range cc.Body {
					if r, ok := st.(*ast.ReturnStmt); ok && len(r.Results) == 1 {
						ret = exprStr(r.Results[0])
					}
				}
				if cc.List == nil {
					prio = append(prio, pair{"default", ret})
				}
				for _, e := range cc.List {
					prio = append(prio, pair{strings.TrimPrefix(exprStr(e), "ldreason."), ret})
				}
			}
			return true
		})
	}
	w("def statusPriority : List (String × String) := %s\n", leanPairList(prio))
	format := ""
	if fd := root.findFunc("makeBigSegmentRef"); fd != nil {
		ast.Inspect(fd.Body, func(n ast.Node) bool {
			if c, ok := n.(*ast.CallExpr); ok && exprStr(c.Fun) == "fmt.Sprintf" && len(c.Args) > 0 {
				args := []string{}
				for _, a := range c.Args[1:] {
					args = append(args, typedPath(a, paramTypes(fd)))
				}
				format = unquote(exprStr(c.Args[0])) + " <- " + strings.Join(args, ", ")
			}
			return true
		})
	}
	w("def bigSegmentRefFormat : String := %s\n\n", leanStr(format))

	// --- recursion bookkeeping: the stack is passed by value
	stack := []pair{}
	for _, fd := range root.funcs() {
		if fd.Type.Params == nil {
			continue
		}
		for _, f := range fd.Type.Params.List {
			if strings.Contains(exprStr(f.Type), "evaluationStack") {
				for range f.Names {
					stack = append(stack, pair{fd.Name.Name, exprStr(f.Type)})
				}
			}
		}
	}
	sort.Slice(stack, func(i, j int) bool { return stack[i].a < stack[j].a })
	w("def stackParams : List (String × String) := %s\n\n", leanPairList(stack))

	// --- codec tables
	encFns := []string{"marshalFeatureFlagToWriter", "writeTargets", "marshalSegmentToWriter", "writeSegmentTargets",
		"writeVariationOrRolloutProperties", "writeClauses"}
	w("def encoderProps : List (String × List (String × String)) := [\n")
	for i, name := range encFns {
		fd := model.findFunc(name)
		if fd == nil {
			fail("encoder function %s not found", name)
		}
		sep := ","
		if i == len(encFns)-1 {
			sep = ""
		}
		w("  (%s, %s)%s\n", leanStr(name), leanPairList(encoderProps(fd)), sep)
	}
	w("]\n")
	decFns := []string{"readFeatureFlag", "readPrerequisites", "readTargets", "readFlagRules", "readClauses", "readVariationOrRollout",
		"readRollout", "readClientSideAvailability", "readMigration", "readSegment", "readSegmentTargets"}
	w("def decoderProps : List (String × List (String × String)) := [\n")
	rows := []string{}
	for _, name := range decFns {
		fd := model.findFunc(name)
		if fd == nil {
			fail("decoder function %s not found", name)
		}
		tabs := decoderTables(fd)
		if name == "readMigration" && len(tabs) == 0 {
			// readMigration compares the name with == instead of a switch
			lbl := ""
			ast.Inspect(fd.Body, func(n ast.Node) bool {
				if be, ok := n.(*ast.BinaryExpr); ok && be.Op == token.EQL {
					if lit, ok := be.Y.(*ast.BasicLit); ok {
						lbl = unquote(lit.Value)
					}
				}
				return true
			})
			rows = append(rows, fmt.Sprintf("  (%s, %s)", leanStr(name), leanPairList([]pair{{lbl, "Int"}})))
			continue
		}
		for _, t := range tabs {
			rows = append(rows, fmt.Sprintf("  (%s, %s)", leanStr(t.name), leanPairList(t.props)))
		}
	}
	w("%s\n]\n", strings.Join(rows, ",\n"))
	// array/object openers per decoder function (null tolerance)
	openers := []pair{}
	for _, name := range append(decFns, "readStringList", "readValueList") {
		fd := model.findFunc(name)
		if fd == nil {
			continue
		}
		ops := []string{}
		ast.Inspect(fd.Body, func(n ast.Node) bool {
			if c, ok := n.(*ast.CallExpr); ok {
				if sel, ok := c.Fun.(*ast.SelectorExpr); ok {
					switch sel.Sel.Name {
					case "Array", "ArrayOrNull", "Object", "ObjectOrNull":
						if _, isIdent := sel.X.(*ast.Ident); isIdent {
							ops = append(ops, sel.Sel.Name)
						}
					}
				}
			}
			return true
		})
		openers = append(openers, pair{name, strings.Join(ops, " ")})
	}
	w("def decoderOpeners : List (String × String) := %s\n", leanPairList(openers))
	// entry points funnel into the same functions
	core := map[string]bool{"marshalFeatureFlag": true, "marshalFeatureFlagToWriter": true, "marshalSegment": true, "marshalSegmentToWriter": true,
		"unmarshalFeatureFlagFromBytes": true, "unmarshalFeatureFlagFromReader": true, "unmarshalSegmentFromBytes": true,
		"unmarshalSegmentFromReader": true, "readFeatureFlag": true, "readSegment": true, "PreprocessFlag": true, "PreprocessSegment": true}
	entries := []pair{}
	allModel := []*pkgFiles{model}
	ej := loadEasyJSON(filepath.Join(*repo, "ldmodel"))
	if ej != nil {
		allModel = append(allModel, ej)
	}
	for _, p := range allModel {
		for _, fd := range p.funcs() {
			q := qualName(fd)
			isEntry := strings.Contains(q, "Marshal") || strings.Contains(q, "Unmarshal") || strings.HasPrefix(fd.Name.Name, "marshal") || strings.HasPrefix(fd.Name.Name, "unmarshal")
			if !isEntry || fd.Body == nil {
				continue
			}
			entries = append(entries, pair{q, strings.Join(calleesIn(fd, core), " ")})
		}
	}
	sort.Slice(entries, func(i, j int) bool { return entries[i].a < entries[j].a })
	w("def entryPoints : List (String × String) := %s\n\n", leanPairList(entries))

	// --- shared state: package-level variables and writes through shared values
	pv := []string{}
	pvSet := map[string]map[string]bool{}
	for _, p := range []*pkgFiles{root, model, internal} {
		pvSet[p.name] = map[string]bool{}
		for _, v := range packageVars(p) {
			pv = append(pv, p.name+"."+v)
			pvSet[p.name][strings.TrimSpace(strings.SplitN(v, ":", 2)[0])] = true
		}
	}
	w("def packageVars : List String := %s\n", leanStrList(pv))
	writes := []string{}
	for _, p := range []*pkgFiles{root, model, internal} {
		writes = append(writes, sharedWrites(p, pvSet[p.name])...)
	}
	w("def sharedWrites : List String := [\n")
	for i, s := range writes {
		sep := ","
		if i == len(writes)-1 {
			sep = ""
		}
		w("  %s%s\n", leanStr(s), sep)
	}
	w("]\n")
	// evaluator struct fields
	fields := []string{}
	for _, f := range root.files {
		ast.Inspect(f, func(n ast.Node) bool {
			if ts, ok := n.(*ast.TypeSpec); ok && (ts.Name.Name == "evaluator" || ts.Name.Name == "evaluationScope") {
				if st, ok := ts.Type.(*ast.StructType); ok {
					for _, fl := range st.Fields.List {
						for _, nm := range fl.Names {
							fields = append(fields, ts.Name.Name+"."+nm.Name+" : "+exprStr(fl.Type))
						}
					}
				}
			}
			return true
		})
	}
	w("def stateFields : List String := %s\n", leanStrList(fields))
	w("\nend LD.Generated\n")

	if *outPath == "" {
		fmt.Print(b.String())
		return
	}
	old, _ := os.ReadFile(*outPath)
	if string(old) == b.String() {
		return
	}
	os.MkdirAll(filepath.Dir(*outPath), 0o755)
	if err := os.WriteFile(*outPath, []byte(b.String()), 0o644); err != nil {
		fail("write %s: %v", *outPath, err)
	}
}

// loadEasyJSON parses the easyjson-tagged serialization file (guarded by a positive build tag).
func loadEasyJSON(dir string) *pkgFiles {
	path := filepath.Join(dir, "model_serialization_easyjson.go")
	src, err := os.ReadFile(path)
	if err != nil {
		return nil
	}
	fset := token.NewFileSet()
	f, err := parser.ParseFile(fset, path, src, 0)
	if err != nil {
		return nil
	}
	return &pkgFiles{name: "ldmodel", files: []*ast.File{f}, fset: fset}
}

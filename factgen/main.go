// factgen re-reads /repo's sources and regenerates LDEval/Generated/Facts.lean: the constants,
// tables and structural facts that the Lean model is written against. The obligation modules
// (LDEval/Obligations/*.lean) prove Generated = Expected and tie the generated tables to the
// model's own tables, so a change to the code that alters a fact breaks an obligation at
// `lake build`.
//
// The packages are loaded with go/packages (default build tags, non-test files; a second load with
// the easyjson tag for the serialization entry points), type-checked, and built into SSA form
// (golang.org/x/tools/go/ssa). Facts are stated so that behaviour-preserving rewrites leave them
// unchanged: they never mention local variable, parameter or receiver names; tables that the
// language treats as unordered (switch cases on distinct constants) are sorted; codec schemas are
// flattened across helper functions (interprocedurally), so that extracting or inlining a helper
// does not change them; the write set of an evaluation is computed over everything reachable from
// Evaluate in the call graph rather than per function.
//
// A fact that cannot be extracted is emitted as a sentinel (and listed in extractionProblems); only
// the obligations that mention it fail, so only the properties that rely on it are affected.
package main

import (
	"flag"
	"fmt"
	"go/ast"
	"go/constant"
	"go/token"
	"go/types"
	"os"
	"path/filepath"
	"sort"
	"strings"

	"golang.org/x/tools/go/packages"
	"golang.org/x/tools/go/ssa"
	"golang.org/x/tools/go/ssa/ssautil"
)

const modPath = "github.com/launchdarkly/go-server-sdk-evaluation/v3"

type world struct {
	pkgs     map[string]*packages.Package // by import path
	root     *packages.Package
	model    *packages.Package
	internal *packages.Package
	prog     *ssa.Program
	spkgs    map[string]*ssa.Package
	decls    map[*types.Func]*ast.FuncDecl

	rolesCache *roles
	reachCache []*ssa.Function
}

func load(repo string, tags string) (*world, error) {
	cfg := &packages.Config{Mode: packages.LoadAllSyntax, Dir: repo, Tests: false}
	if tags != "" {
		cfg.BuildFlags = []string{"-tags=" + tags}
	}
	pkgs, err := packages.Load(cfg, "./...")
	if err != nil {
		return nil, err
	}
	w := &world{pkgs: map[string]*packages.Package{}, spkgs: map[string]*ssa.Package{}, decls: map[*types.Func]*ast.FuncDecl{}}
	for _, p := range pkgs {
		if len(p.Errors) > 0 {
			return nil, fmt.Errorf("package %s: %v", p.PkgPath, p.Errors[0])
		}
		w.pkgs[p.PkgPath] = p
	}
	w.root, w.model, w.internal = w.pkgs[modPath], w.pkgs[modPath+"/ldmodel"], w.pkgs[modPath+"/internal"]
	if w.root == nil || w.model == nil || w.internal == nil {
		return nil, fmt.Errorf("module packages not found under %s", repo)
	}
	prog, spkgs := ssautil.AllPackages(pkgs, ssa.InstantiateGenerics)
	prog.Build()
	w.prog = prog
	for _, sp := range spkgs {
		if sp != nil {
			w.spkgs[sp.Pkg.Path()] = sp
		}
	}
	for _, p := range []*packages.Package{w.root, w.model, w.internal} {
		for _, f := range p.Syntax {
			for _, d := range f.Decls {
				if fd, ok := d.(*ast.FuncDecl); ok {
					if obj, ok := p.TypesInfo.Defs[fd.Name].(*types.Func); ok {
						w.decls[obj] = fd
					}
				}
			}
		}
	}
	return w, nil
}

func inModule(p *types.Package) bool {
	return p != nil && (p.Path() == modPath || strings.HasPrefix(p.Path(), modPath+"/"))
}

// ---------- Lean rendering ----------

func leanStr(s string) string {
	var b strings.Builder
	b.WriteByte('"')
	for _, r := range s {
		switch {
		case r == '"':
			b.WriteString("\\\"")
		case r == '\\':
			b.WriteString("\\\\")
		case r == '\n':
			b.WriteString("\\n")
		case r == '\t':
			b.WriteString("\\t")
		case r < 0x20 || r == 0x7f:
			fmt.Fprintf(&b, "\\x%02x", r)
		default:
			b.WriteRune(r)
		}
	}
	b.WriteByte('"')
	return b.String()
}

func leanStrList(xs []string) string {
	q := make([]string, len(xs))
	for i, x := range xs {
		q[i] = leanStr(x)
	}
	return "[" + strings.Join(q, ", ") + "]"
}

func leanStrListLines(xs []string) string {
	if len(xs) == 0 {
		return "[]"
	}
	q := make([]string, len(xs))
	for i, x := range xs {
		q[i] = "  " + leanStr(x)
	}
	return "[\n" + strings.Join(q, ",\n") + "\n]"
}

type pair struct{ a, b string }

func leanPairList(xs []pair) string {
	q := make([]string, len(xs))
	for i, x := range xs {
		q[i] = "(" + leanStr(x.a) + ", " + leanStr(x.b) + ")"
	}
	return "[" + strings.Join(q, ", ") + "]"
}

func sortedSet(xs []string) []string {
	sort.Strings(xs)
	out := xs[:0]
	for i, x := range xs {
		if i == 0 || x != xs[i-1] {
			out = append(out, x)
		}
	}
	return out
}

// ---------- output with per-fact failure isolation ----------

type out struct {
	b        strings.Builder
	problems []string
}

func (o *out) w(format string, a ...any) { fmt.Fprintf(&o.b, format, a...) }

// guard runs one extraction; if it panics (extraction failure), the fallback definition is emitted
// instead and the problem is recorded.
func (o *out) guard(name string, fallback string, f func()) {
	mark := o.b.Len()
	defer func() {
		if r := recover(); r != nil {
			s := o.b.String()[:mark]
			o.b.Reset()
			o.b.WriteString(s)
			msg := fmt.Sprintf("%s: %v", name, r)
			o.problems = append(o.problems, msg)
			fmt.Fprintln(os.Stderr, "factgen: could not extract "+msg)
			o.w("%s\n", fallback)
		}
	}()
	f()
}

// guardSoft: like guard, for a fact whose extraction recognises one formulation of something the
// correspondence decides exhaustively anyway (a finite table): when the code is written another
// way the fact is marked "not recognised" instead of failing its obligation.
func (o *out) guardSoft(name string, fallback string, f func()) {
	mark := o.b.Len()
	defer func() {
		if r := recover(); r != nil {
			s := o.b.String()[:mark]
			o.b.Reset()
			o.b.WriteString(s)
			fmt.Fprintf(os.Stderr, "factgen: %s: formulation not recognised (%v)\n", name, r)
			o.w("%s\n", fallback)
		}
	}()
	f()
}

func failf(format string, a ...any) { panic(fmt.Sprintf(format, a...)) }

func natFallback(name string) string { return fmt.Sprintf("def %s : Nat := 0", name) }
func listNatFallback(name string) string {
	return fmt.Sprintf("def %s : List Nat := [0]", name)
}
func strFallback(name string) string {
	return fmt.Sprintf("def %s : String := \"<not extracted>\"", name)
}
func listFallback(name string) string {
	return fmt.Sprintf("def %s : List String := [\"<not extracted>\"]", name)
}
func pairsFallback(name string) string {
	return fmt.Sprintf("def %s : List (String × String) := [(\"<not extracted>\", \"\")]", name)
}

// ---------- small helpers over types / syntax ----------

func (w *world) constOf(p *packages.Package, name string) *types.Const {
	c, _ := p.Types.Scope().Lookup(name).(*types.Const)
	if c == nil {
		failf("constant %s.%s not found", p.Name, name)
	}
	return c
}

func (w *world) natConst(p *packages.Package, name string) uint64 {
	c := w.constOf(p, name)
	v, ok := constant.Uint64Val(constant.ToInt(c.Val()))
	if !ok {
		failf("constant %s is not a natural number: %s", name, c.Val())
	}
	return v
}

func (w *world) funcNamed(p *packages.Package, name string) (*types.Func, *ast.FuncDecl) {
	for obj, fd := range w.decls {
		if obj.Pkg() == p.Types && obj.Name() == name {
			return obj, fd
		}
	}
	return nil, nil
}

// typeStr renders a type relative to the module (package-local names unqualified for the package
// they are printed in is avoided: always qualified by package name).
func typeStr(t types.Type) string {
	return types.TypeString(t, func(p *types.Package) string { return p.Name() })
}

func recvTypeName(f *types.Func) string {
	sig := f.Type().(*types.Signature)
	if sig.Recv() == nil {
		return ""
	}
	t := sig.Recv().Type()
	star := ""
	if p, ok := t.(*types.Pointer); ok {
		t = p.Elem()
		star = "*"
	}
	if n, ok := t.(*types.Named); ok {
		return star + n.Obj().Name()
	}
	return star + typeStr(t)
}

func qualFunc(f *types.Func) string {
	if r := recvTypeName(f); r != "" {
		return "(" + r + ")." + f.Name()
	}
	return f.Name()
}

func main() {
	repo := flag.String("repo", "/repo", "")
	outPath := flag.String("out", "", "")
	flag.Parse()
	abs, _ := filepath.Abs(*repo)
	w, err := load(abs, "")
	if err != nil {
		fmt.Fprintf(os.Stderr, "factgen: cannot load %s: %v\n", abs, err)
		os.Exit(1)
	}
	o := &out{}
	o.w("/-\n  GENERATED by /verif/factgen from /repo's sources — do not edit. Regenerated on every check run;\n  LDEval/Obligations/*.lean prove that these tables equal the ones the model is written against.\n-/\nnamespace LD.Generated\n\n")

	emitConsts(w, o)
	emitOperators(w, o)
	emitErrors(w, o)
	emitStatus(w, o)
	emitCodec(w, o, abs)
	emitState(w, o)

	o.w("\n/-- Facts factgen could not extract from the current sources (each one also appears above as a\nsentinel value, so the obligations that use it fail). -/\n")
	o.w("def extractionProblems : List String := %s\n", leanStrListLines(o.problems))
	o.w("\nend LD.Generated\n")

	text := o.b.String()
	if *outPath == "" {
		fmt.Print(text)
		return
	}
	old, _ := os.ReadFile(*outPath)
	if string(old) == text {
		return
	}
	os.MkdirAll(filepath.Dir(*outPath), 0o755)
	if err := os.WriteFile(*outPath, []byte(text), 0o644); err != nil {
		fmt.Fprintf(os.Stderr, "factgen: write %s: %v\n", *outPath, err)
		os.Exit(1)
	}
}

// ---------- constants ----------

func emitConsts(w *world, o *out) {
	fns := w.moduleFunctions(w.root.PkgPath)
	// functions that turn the hash into a bucket value: the callers of internal.ParseHexUint64
	callsParse := func(fn *ssa.Function) bool {
		for _, blk := range fn.Blocks {
			for _, ins := range blk.Instrs {
				if call, ok := ins.(*ssa.Call); ok {
					if callee := call.Call.StaticCallee(); callee != nil && callee.Name() == "ParseHexUint64" {
						return true
					}
				}
			}
		}
		return false
	}
	o.guard("longScaleValue", natFallback("longScaleValue"), func() {
		// the divisor of the one float32 division in those functions, as the compiler sees it (an
		// exact float32 value; the model rounds its own literal the same way)
		found := map[string]bool{}
		for _, fn := range fns {
			if !callsParse(fn) {
				continue
			}
			for _, blk := range fn.Blocks {
				for _, ins := range blk.Instrs {
					bo, ok := ins.(*ssa.BinOp)
					if !ok || bo.Op != token.QUO {
						continue
					}
					if typeStr(bo.Type()) != "float32" {
						failf("the bucket division is no longer a float32 division (%s)", typeStr(bo.Type()))
					}
					c, ok := bo.Y.(*ssa.Const)
					if !ok || c.Value == nil {
						failf("the divisor of the bucket division is not a constant")
					}
					iv := constant.ToInt(c.Value)
					if iv.Kind() != constant.Int {
						failf("the divisor of the bucket division is not integral: %s", c.Value.ExactString())
					}
					found[iv.ExactString()] = true
				}
			}
		}
		if len(found) != 1 {
			failf("expected one division by a constant in the functions that call ParseHexUint64, found %d", len(found))
		}
		for k := range found {
			o.w("def longScaleValue : Nat := %s\n", k)
		}
	})
	// make([]T, n, <constant>) is an allocation of [cap]T in SSA form ("makeslice"), or a MakeSlice
	constCap := func(ins ssa.Instruction, elem string) (int64, bool) {
		switch t := ins.(type) {
		case *ssa.Alloc:
			if t.Comment != "makeslice" {
				return 0, false
			}
			if arr, ok := t.Type().Underlying().(*types.Pointer).Elem().Underlying().(*types.Array); ok && typeStr(arr.Elem()) == elem {
				return arr.Len(), true
			}
		case *ssa.MakeSlice:
			if sl, ok := t.Type().Underlying().(*types.Slice); ok && typeStr(sl.Elem()) == elem {
				if c, ok := t.Cap.(*ssa.Const); ok && c.Value != nil {
					if v, ok := constant.Int64Val(constant.ToInt(c.Value)); ok {
						return v, true
					}
				}
				failf("a []%s is made with a capacity that is not a constant", elem)
			}
		}
		return 0, false
	}
	// intoField: the made slice is stored into a field of a struct (a buffer object, the chains of
	// the stack), as opposed to being a local scratch slice
	intoField := func(ins ssa.Instruction) bool {
		v, ok := ins.(ssa.Value)
		if !ok || v.Referrers() == nil {
			return false
		}
		work := []ssa.Value{v}
		seen := map[ssa.Value]bool{}
		for len(work) > 0 {
			x := work[len(work)-1]
			work = work[:len(work)-1]
			if seen[x] || x.Referrers() == nil {
				continue
			}
			seen[x] = true
			for _, r := range *x.Referrers() {
				switch t := r.(type) {
				case *ssa.Slice:
					work = append(work, t)
				case *ssa.Store:
					if t.Val == x {
						if _, ok := t.Addr.(*ssa.FieldAddr); ok {
							return true
						}
					}
				}
			}
		}
		return false
	}
	capsOf := func(elem string) []int64 {
		res := []int64{}
		for _, fn := range fns {
			for _, blk := range fn.Blocks {
				for _, ins := range blk.Instrs {
					if n, ok := constCap(ins, elem); ok && intoField(ins) {
						res = append(res, n)
					}
				}
			}
		}
		sort.Slice(res, func(i, j int) bool { return res[i] < res[j] })
		return res
	}
	o.guard("initialHashInputBufferSize", natFallback("initialHashInputBufferSize"), func() {
		// the capacity of the byte buffer(s) the evaluation package makes for the hash input
		caps := capsOf("byte")
		if len(caps) == 0 {
			failf("the evaluation package no longer makes a []byte with a constant capacity")
		}
		for _, c := range caps {
			if c != caps[0] {
				failf("byte buffers of different capacities: %v", caps)
			}
		}
		o.w("def initialHashInputBufferSize : Nat := %d\n", caps[0])
	})
	o.guard("preallocatedChainSizes", listNatFallback("preallocatedChainSizes"), func() {
		// the capacities of the []string chains the evaluation package preallocates
		caps := capsOf("string")
		parts := []string{}
		for _, c := range caps {
			parts = append(parts, fmt.Sprint(c))
		}
		o.w("def preallocatedChainSizes : List Nat := [%s]\n", strings.Join(parts, ", "))
	})
	o.guard("hashHexDigits", natFallback("hashHexDigits"), func() {
		// how many hex characters of the SHA-1 go into the bucket value: the argument of every call
		// to internal.ParseHexUint64 in the evaluation package is a slice x[:N] with constant N
		found := map[string]bool{}
		for _, fn := range w.moduleFunctions(w.root.PkgPath) {
			for _, blk := range fn.Blocks {
				for _, ins := range blk.Instrs {
					call, ok := ins.(*ssa.Call)
					if !ok {
						continue
					}
					callee := call.Call.StaticCallee()
					if callee == nil || callee.Name() != "ParseHexUint64" || len(call.Call.Args) != 1 {
						continue
					}
					sl, ok := call.Call.Args[0].(*ssa.Slice)
					if !ok {
						failf("argument of ParseHexUint64 is not a slice expression")
					}
					hi, ok := sl.High.(*ssa.Const)
					if !ok || (sl.Low != nil && !isZeroConst(sl.Low)) {
						failf("argument of ParseHexUint64 is not x[:<constant>]")
					}
					found[hi.Value.ExactString()] = true
				}
			}
		}
		if len(found) != 1 {
			failf("expected one constant prefix length at the calls to ParseHexUint64, found %d", len(found))
		}
		for k := range found {
			o.w("def hashHexDigits : Nat := %s\n", k)
		}
	})
	o.w("\n")
}

func isZeroConst(v ssa.Value) bool {
	c, ok := v.(*ssa.Const)
	return ok && c.Value != nil && c.Value.ExactString() == "0"
}

// ---------- operators ----------

func emitOperators(w *world, o *out) {
	opConsts := map[*types.Const]string{}
	o.guard("operatorConstants", pairsFallback("operatorConstants"), func() {
		ops := []pair{}
		scope := w.model.Types.Scope()
		for _, name := range scope.Names() {
			c, ok := scope.Lookup(name).(*types.Const)
			if !ok {
				continue
			}
			if n, ok := c.Type().(*types.Named); ok && n.Obj().Name() == "Operator" && c.Val().Kind() == constant.String {
				ops = append(ops, pair{name, constant.StringVal(c.Val())})
				opConsts[c] = constant.StringVal(c.Val())
			}
		}
		sort.Slice(ops, func(i, j int) bool { return ops[i].a < ops[j].a })
		if len(ops) == 0 {
			failf("no constants of type ldmodel.Operator")
		}
		o.w("def operatorConstants : List (String × String) := %s\n", leanPairList(ops))
	})
	o.guard("operatorsDispatched", listFallback("operatorsDispatched"), func() {
		// every operator constant the evaluation package mentions (in a case label or a comparison),
		// wherever the dispatch happens to live
		seen := []string{}
		for _, f := range w.root.Syntax {
			ast.Inspect(f, func(n ast.Node) bool {
				if id, ok := n.(*ast.Ident); ok {
					if c, ok := w.root.TypesInfo.Uses[id].(*types.Const); ok {
						if v, ok := opConsts[c]; ok {
							seen = append(seen, v)
						}
					}
				}
				return true
			})
		}
		// an operator compared as a string literal instead of through its constant
		lits := []string{}
		for _, f := range w.root.Syntax {
			ast.Inspect(f, func(n ast.Node) bool {
				var exprs []ast.Expr
				switch t := n.(type) {
				case *ast.BinaryExpr:
					if t.Op == token.EQL || t.Op == token.NEQ {
						exprs = []ast.Expr{t.X, t.Y}
					}
				case *ast.CaseClause:
					exprs = t.List
				}
				for _, e := range exprs {
					tv, ok := w.root.TypesInfo.Types[e]
					if !ok || tv.Value == nil || tv.Value.Kind() != constant.String {
						continue
					}
					if nt, ok := tv.Type.(*types.Named); ok && nt.Obj().Name() == "Operator" {
						lits = append(lits, constant.StringVal(tv.Value))
					}
				}
				return true
			})
		}
		o.w("def operatorsDispatched : List String := %s\n", leanStrList(sortedSet(append(seen, lits...))))
	})
	o.w("\n")
}

// ---------- error kinds and the context gate ----------

func emitErrors(w *world, o *out) {
	o.guard("errorMessages", pairsFallback("errorMessages"), func() {
		// every error type of the evaluation package, identified by the text of its message (which is
		// what reaches the log) rather than by its unexported name, with the kind(s) its errorKind
		// method can return ("<no errorKind method>" when it has none)
		byType := map[string]*pair{}
		for obj, fd := range w.decls {
			if obj.Pkg() != w.root.Types || recvTypeName(obj) == "" || fd.Body == nil {
				continue
			}
			recv := strings.TrimPrefix(recvTypeName(obj), "*")
			sig := obj.Type().(*types.Signature)
			switch {
			case obj.Name() == "Error" && sig.Params().Len() == 0 && sig.Results().Len() == 1 && typeStr(sig.Results().At(0).Type()) == "string":
				msg := ""
				ast.Inspect(fd.Body, func(n ast.Node) bool {
					if e, ok := n.(ast.Expr); ok && msg == "" {
						if tv, ok := w.root.TypesInfo.Types[e]; ok && tv.Value != nil && tv.Value.Kind() == constant.String {
							msg = constant.StringVal(tv.Value)
							return false
						}
					}
					return true
				})
				if byType[recv] == nil {
					byType[recv] = &pair{"", "<no errorKind method>"}
				}
				byType[recv].a = msg
			case sig.Params().Len() == 0 && sig.Results().Len() == 1 && typeStr(sig.Results().At(0).Type()) == "ldreason.EvalErrorKind":
				if byType[recv] == nil {
					byType[recv] = &pair{"", ""}
				}
				byType[recv].b = strings.Join(returnedConstValues(w.root, fd), "|")
			}
		}
		res := []pair{}
		for _, p := range byType {
			if p.a == "" && p.b != "" {
				p.a = "<not an error type>"
			}
			res = append(res, *p)
		}
		sort.Slice(res, func(i, j int) bool { return res[i].a < res[j].a })
		o.w("def errorMessages : List (String × String) := %s\n", leanPairList(res))
	})
	o.guard("errorKindFallback", strFallback("errorKindFallback"), func() {
		// the kind reported for an error that is not one of the package's own types: every constant
		// errorKindForError can return without asking the error itself (SSA: constant operands of
		// its return instructions, through phis), whatever the shape of the function
		var fn *ssa.Function
		for _, f := range w.moduleFunctions(w.root.PkgPath) {
			// identified by its signature: func(error) ldreason.EvalErrorKind
			if f.Signature.Recv() == nil && f.Parent() == nil && f.Signature.Params().Len() == 1 && f.Signature.Results().Len() == 1 &&
				typeStr(f.Signature.Params().At(0).Type()) == "error" && typeStr(f.Signature.Results().At(0).Type()) == "ldreason.EvalErrorKind" {
				if fn != nil {
					failf("two functions of type func(error) ldreason.EvalErrorKind")
				}
				fn = f
			}
		}
		if fn == nil {
			failf("no function of type func(error) ldreason.EvalErrorKind")
		}
		consts := []string{}
		dynamic := 0
		seen := map[ssa.Value]bool{}
		var visit func(v ssa.Value)
		visit = func(v ssa.Value) {
			if seen[v] {
				return
			}
			seen[v] = true
			switch t := v.(type) {
			case *ssa.Const:
				if t.Value != nil && t.Value.Kind() == constant.String {
					consts = append(consts, constant.StringVal(t.Value))
				} else {
					consts = append(consts, "<non-string constant>")
				}
			case *ssa.Phi:
				for _, e := range t.Edges {
					visit(e)
				}
			case *ssa.Call:
				// an interface method without parameters that returns the kind (the error's own say)
				if t.Call.IsInvoke() && len(t.Call.Args) == 0 && typeStr(t.Call.Method.Type().(*types.Signature).Results().At(0).Type()) == "ldreason.EvalErrorKind" {
					dynamic++
				} else {
					consts = append(consts, "<result of another call>")
				}
			default:
				consts = append(consts, fmt.Sprintf("<%T>", v))
			}
		}
		for _, b := range fn.Blocks {
			for _, ins := range b.Instrs {
				if r, ok := ins.(*ssa.Return); ok {
					for _, res := range r.Results {
						visit(res)
					}
				}
			}
		}
		if dynamic == 0 {
			consts = append(consts, "<never asks the error for its kind>")
		}
		o.w("def errorKindFallback : String := %s\n", leanStr(strings.Join(sortedSet(consts), "|")))
	})
	o.guard("evaluateFirstCheck", strFallback("evaluateFirstCheck"), func() {
		o.w("def evaluateFirstCheck : String := %s\n", leanStr(w.evaluateGate()))
	})
	o.w("\n")
}

func constName(p *packages.Package, e ast.Expr) string {
	var id *ast.Ident
	switch t := e.(type) {
	case *ast.Ident:
		id = t
	case *ast.SelectorExpr:
		id = t.Sel
	}
	if id != nil {
		if c, ok := p.TypesInfo.Uses[id].(*types.Const); ok {
			return c.Name()
		}
	}
	if tv, ok := p.TypesInfo.Types[e]; ok && tv.Value != nil {
		return tv.Value.ExactString()
	}
	return ""
}

// funcBySig: the unique package-level function (no receiver) of the package with this signature.
func (w *world) funcBySig(p *packages.Package, sig string) *ast.FuncDecl {
	var found *ast.FuncDecl
	n := 0
	for obj, fd := range w.decls {
		if obj.Pkg() != p.Types || fd.Recv != nil || fd.Body == nil {
			continue
		}
		s := types.TypeString(obj.Type(), func(q *types.Package) string { return q.Name() })
		// drop parameter names
		if normSig(obj.Type().(*types.Signature)) == sig || s == sig {
			found = fd
			n++
		}
	}
	if n != 1 {
		return nil
	}
	return found
}

func normSig(sig *types.Signature) string {
	ps := []string{}
	for i := 0; i < sig.Params().Len(); i++ {
		ps = append(ps, typeStr(sig.Params().At(i).Type()))
	}
	rs := []string{}
	for i := 0; i < sig.Results().Len(); i++ {
		rs = append(rs, typeStr(sig.Results().At(i).Type()))
	}
	res := "func(" + strings.Join(ps, ", ") + ")"
	switch len(rs) {
	case 0:
	case 1:
		res += " " + rs[0]
	default:
		res += " (" + strings.Join(rs, ", ") + ")"
	}
	return res
}

func returnedConstValues(p *packages.Package, fd *ast.FuncDecl) []string {
	out := []string{}
	ast.Inspect(fd.Body, func(n ast.Node) bool {
		if r, ok := n.(*ast.ReturnStmt); ok && len(r.Results) == 1 {
			if tv, ok := p.TypesInfo.Types[r.Results[0]]; ok && tv.Value != nil && tv.Value.Kind() == constant.String {
				out = append(out, constant.StringVal(tv.Value))
			} else {
				out = append(out, "<not a constant>")
			}
		}
		return true
	})
	return sortedSet(out)
}

func returnedConstNames(p *packages.Package, fd *ast.FuncDecl) []string {
	out := []string{}
	ast.Inspect(fd.Body, func(n ast.Node) bool {
		if r, ok := n.(*ast.ReturnStmt); ok && len(r.Results) == 1 {
			out = append(out, constName(p, r.Results[0]))
		}
		return true
	})
	return sortedSet(out)
}

// evaluateGate describes what (*evaluator).Evaluate does before anything else that could have an
// effect: in SSA form, the first call instruction of the entry block must be Context.Err on the
// context parameter, the entry block must branch on its result being non-nil, and the non-nil branch
// must return a result built from NewEvaluationDetailForError(<constant>, …) without further calls
// to the module.
func (w *world) evaluateGate() string {
	fn := w.method(w.root.PkgPath, w.findRoles().evaluator.Obj().Name(), "Evaluate")
	if fn == nil || len(fn.Blocks) == 0 {
		failf("method Evaluate of the evaluator struct not found")
	}
	entry := fn.Blocks[0]
	var first *ssa.Call
	for _, ins := range entry.Instrs {
		if c, ok := ins.(*ssa.Call); ok {
			first = c
			break
		}
	}
	if first == nil {
		failf("no call in the entry block of Evaluate")
	}
	callee := first.Call.StaticCallee()
	if callee == nil {
		failf("first call of Evaluate is dynamic")
	}
	desc := calleeName(callee)
	ifIns, ok := entry.Instrs[len(entry.Instrs)-1].(*ssa.If)
	if !ok {
		return desc + " (no branch)"
	}
	cond, ok := ifIns.Cond.(*ssa.BinOp)
	if !ok || (cond.X != ssa.Value(first) && cond.Y != ssa.Value(first)) {
		return desc + " (branch not on its result)"
	}
	errBlock := entry.Succs[0]
	if cond.Op == token.EQL {
		errBlock = entry.Succs[1]
	}
	kinds := []string{}
	moduleCalls := []string{}
	seen := map[*ssa.BasicBlock]bool{}
	var visit func(b *ssa.BasicBlock)
	visit = func(b *ssa.BasicBlock) {
		if seen[b] {
			return
		}
		seen[b] = true
		for _, ins := range b.Instrs {
			if c, ok := ins.(*ssa.Call); ok {
				if sc := c.Call.StaticCallee(); sc != nil {
					if sc.Pkg != nil && inModule(sc.Pkg.Pkg) {
						moduleCalls = append(moduleCalls, calleeName(sc))
					}
					for _, a := range c.Call.Args {
						if k, ok := a.(*ssa.Const); ok && k.Value != nil && k.Value.Kind() == constant.String {
							if nt, ok := k.Type().(*types.Named); ok && nt.Obj().Name() == "EvalErrorKind" {
								kinds = append(kinds, constant.StringVal(k.Value))
							}
						}
					}
				} else {
					moduleCalls = append(moduleCalls, "<dynamic call>")
				}
			}
		}
		for _, s := range b.Succs {
			visit(s)
		}
	}
	visit(errBlock)
	res := desc + " != nil => " + strings.Join(sortedSet(kinds), "|")
	if len(moduleCalls) > 0 {
		res += " after " + strings.Join(sortedSet(moduleCalls), ",")
	}
	return res
}

func calleeName(f *ssa.Function) string {
	if f.Signature.Recv() != nil {
		return "(" + typeStr(f.Signature.Recv().Type()) + ")." + f.Name()
	}
	if f.Pkg != nil {
		return f.Pkg.Pkg.Name() + "." + f.Name()
	}
	return f.Name()
}

// ---------- big-segment status priority, reference format ----------

func emitStatus(w *world, o *out) {
	o.guardSoft("statusPriority", "def statusPriority : List (String × String) := [(\"<formulation not recognised>\", \"\")]", func() {
		// identified by its signature: func(ldreason.BigSegmentsStatus) int
		fd := w.funcBySig(w.root, "func(ldreason.BigSegmentsStatus) int")
		if fd == nil {
			failf("no unique function of type func(ldreason.BigSegmentsStatus) int")
		}
		prio := []pair{}
		def := ""
		ast.Inspect(fd.Body, func(n ast.Node) bool {
			cc, ok := n.(*ast.CaseClause)
			if !ok {
				return true
			}
			ret := ""
			for _, st := range cc.Body {
				if r, ok := st.(*ast.ReturnStmt); ok && len(r.Results) == 1 {
					ret = constName(w.root, r.Results[0])
				}
			}
			if cc.List == nil {
				def = ret
			}
			for _, e := range cc.List {
				prio = append(prio, pair{constName(w.root, e), ret})
			}
			return true
		})
		if len(prio) == 0 {
			// an if-chain instead of a switch: `if status == X { return n }`
			for _, st := range fd.Body.List {
				switch t := st.(type) {
				case *ast.IfStmt:
					be, ok := t.Cond.(*ast.BinaryExpr)
					if !ok || be.Op != token.EQL || len(t.Body.List) != 1 {
						failf("unrecognised shape of getBigSegmentsStatusPriority")
					}
					r, ok := t.Body.List[0].(*ast.ReturnStmt)
					if !ok || len(r.Results) != 1 {
						failf("unrecognised shape of getBigSegmentsStatusPriority")
					}
					name := constName(w.root, be.Y)
					if _, isConst := w.root.TypesInfo.Types[be.Y]; !isConst || w.root.TypesInfo.Types[be.Y].Value == nil {
						name = constName(w.root, be.X)
					}
					prio = append(prio, pair{name, constName(w.root, r.Results[0])})
				case *ast.ReturnStmt:
					if len(t.Results) == 1 {
						def = constName(w.root, t.Results[0])
					}
				}
			}
		} else if def == "" {
			// default handled by a return after the switch
			for _, st := range fd.Body.List {
				if r, ok := st.(*ast.ReturnStmt); ok && len(r.Results) == 1 {
					def = constName(w.root, r.Results[0])
				}
			}
		}
		sort.Slice(prio, func(i, j int) bool { return prio[i].a < prio[j].a })
		prio = append(prio, pair{"default", def})
		o.w("def statusPriority : List (String × String) := %s\n", leanPairList(prio))
	})
	o.guard("bigSegmentRefFormat", strFallback("bigSegmentRefFormat"), func() {
		// identified by its signature: func(*ldmodel.Segment) string
		fd := w.funcBySig(w.root, "func(*ldmodel.Segment) string")
		if fd == nil {
			failf("no unique function of type func(*ldmodel.Segment) string")
		}
		format := ""
		ast.Inspect(fd.Body, func(n ast.Node) bool {
			if c, ok := n.(*ast.CallExpr); ok && len(c.Args) > 0 {
				if f, ok := calledFunc(w.root, c); ok && f.FullName() == "fmt.Sprintf" {
					tv := w.root.TypesInfo.Types[c.Args[0]]
					if tv.Value == nil {
						failf("the big-segment reference format is not a constant")
					}
					args := []string{}
					for _, a := range c.Args[1:] {
						args = append(args, typedPath(w.root, a))
					}
					format = constant.StringVal(tv.Value) + " <- " + strings.Join(args, ", ")
				}
			}
			return true
		})
		if format == "" {
			failf("the func(*ldmodel.Segment) string helper no longer calls fmt.Sprintf")
		}
		o.w("def bigSegmentRefFormat : String := %s\n", leanStr(format))
	})
	o.w("\n")
}

func calledFunc(p *packages.Package, c *ast.CallExpr) (*types.Func, bool) {
	var id *ast.Ident
	switch t := c.Fun.(type) {
	case *ast.Ident:
		id = t
	case *ast.SelectorExpr:
		id = t.Sel
	}
	if id == nil {
		return nil, false
	}
	f, ok := p.TypesInfo.Uses[id].(*types.Func)
	return f, ok
}

// typedPath renders an access path with the root identifier replaced by its type, so that renaming
// a parameter, receiver or local changes nothing.
func typedPath(p *packages.Package, e ast.Expr) string {
	switch t := e.(type) {
	case *ast.Ident:
		if obj := p.TypesInfo.Uses[t]; obj != nil {
			if _, isVar := obj.(*types.Var); isVar {
				return "(" + typeStr(obj.Type()) + ")"
			}
		}
		return t.Name
	case *ast.SelectorExpr:
		return typedPath(p, t.X) + "." + t.Sel.Name
	case *ast.IndexExpr:
		return typedPath(p, t.X) + "[]"
	case *ast.StarExpr:
		return "*" + typedPath(p, t.X)
	case *ast.ParenExpr:
		return typedPath(p, t.X)
	case *ast.CallExpr:
		return typedPath(p, t.Fun) + "()"
	}
	return fmt.Sprintf("%T", e)
}


package main

// Flattened schemas of the JSON decoder and encoder of ldmodel, computed interprocedurally: a call
// that passes the reader (or a writer / object state / array state) to another function of the
// package is followed, so that the schema does not depend on how the code is divided into helpers.
//
// Decoder lines:  "<path> : <reader call>"   e.g. "flag/rules[]/rollout/variations : Array"
// Encoder lines:  "<path> : always|conditional"  for every property name written, and
//                 "<path> = Object|Array"        for the container opened at a path.
// Paths are built from property names; "[]" stands for "each element". Lines are sorted.

import (
	"fmt"
	"go/ast"
	"go/constant"
	"go/token"
	"go/types"
	"sort"
	"strings"

	"golang.org/x/tools/go/packages"
	"golang.org/x/tools/go/ssa"
)

const (
	jreaderPath = "github.com/launchdarkly/go-jsonstream/v3/jreader"
	jwriterPath = "github.com/launchdarkly/go-jsonstream/v3/jwriter"
)

func namedFrom(t types.Type, pkgPath, name string) bool {
	if p, ok := t.(*types.Pointer); ok {
		t = p.Elem()
	}
	n, ok := t.(*types.Named)
	return ok && n.Obj().Pkg() != nil && n.Obj().Pkg().Path() == pkgPath && (name == "" || n.Obj().Name() == name)
}

// ---------- decoder ----------

type decWalker struct {
	w     *world
	p     *packages.Package
	lines []string
	known map[string][]string // object path -> property names it dispatches on
	depth int
}

type decFrame struct {
	openers map[types.Object]string // iterator variable -> "Array"/"ArrayOrNull"/"Object"/"ObjectOrNull"
	names   map[types.Object]types.Object
	path    string
	cur     types.Object // the object iterator whose body is being walked (nil outside one)
}

func (d *decWalker) emit(path, what string) { d.lines = append(d.lines, path+" : "+what) }

func (d *decWalker) isReader(e ast.Expr) bool {
	tv, ok := d.p.TypesInfo.Types[e]
	return ok && namedFrom(tv.Type, jreaderPath, "Reader")
}

// readerCallIn: the expression is a call r.M(...) on the reader; returns M.
func (d *decWalker) readerMethod(c *ast.CallExpr) (string, bool) {
	sel, ok := c.Fun.(*ast.SelectorExpr)
	if !ok || !d.isReader(sel.X) {
		return "", false
	}
	return sel.Sel.Name, true
}

func (d *decWalker) passesReader(c *ast.CallExpr) bool {
	for _, a := range c.Args {
		if d.isReader(a) {
			return true
		}
	}
	return false
}

// walkFunc walks a function that receives the reader, at the given path.
func (d *decWalker) walkFunc(fd *ast.FuncDecl, path string) {
	if d.depth > 12 {
		failf("decoder helpers nest too deeply (recursion?) at %s", path)
	}
	d.depth++
	fr := &decFrame{openers: map[types.Object]string{}, names: map[types.Object]types.Object{}, path: path}
	d.walkStmts(fd.Body.List, fr, path)
	d.depth--
}

// nameParam: the parameter of fd that receives the current property name at call c, if any.
func (d *decWalker) nameParam(c *ast.CallExpr, fd *ast.FuncDecl, fr *decFrame) types.Object {
	params := []types.Object{}
	for _, fl := range fd.Type.Params.List {
		for _, nm := range fl.Names {
			params = append(params, d.p.TypesInfo.Defs[nm])
		}
		if len(fl.Names) == 0 {
			params = append(params, nil)
		}
	}
	for i, a := range c.Args {
		if i < len(params) && params[i] != nil && d.isNameOf(a, fr, fr.cur) {
			return params[i]
		}
	}
	return nil
}

func (d *decWalker) walkDispatchHelper(fd *ast.FuncDecl, path string, param, it types.Object) {
	if d.depth > 12 {
		failf("decoder helpers nest too deeply (recursion?) at %s", path)
	}
	d.depth++
	fr := &decFrame{openers: map[types.Object]string{}, names: map[types.Object]types.Object{param: it}, path: path}
	d.walkObjectBody(fd.Body.List, fr, path, it)
	d.depth--
}

func (d *decWalker) walkStmts(stmts []ast.Stmt, fr *decFrame, path string) {
	for _, st := range stmts {
		d.walkStmt(st, fr, path)
	}
}

// iterOf: if the condition is `x.Next()` for a known iterator variable, returns it.
func (d *decWalker) iterOf(cond ast.Expr, fr *decFrame) (types.Object, string, bool) {
	c, ok := cond.(*ast.CallExpr)
	if !ok {
		return nil, "", false
	}
	sel, ok := c.Fun.(*ast.SelectorExpr)
	if !ok || sel.Sel.Name != "Next" {
		return nil, "", false
	}
	id, ok := sel.X.(*ast.Ident)
	if !ok {
		return nil, "", false
	}
	obj := d.p.TypesInfo.Uses[id]
	op, ok := fr.openers[obj]
	return obj, op, ok
}

func (d *decWalker) walkStmt(st ast.Stmt, fr *decFrame, path string) {
	switch t := st.(type) {
	case nil:
	case *ast.BlockStmt:
		d.walkStmts(t.List, fr, path)
	case *ast.ForStmt:
		if t.Init != nil {
			d.walkStmt(t.Init, fr, path)
		}
		if t.Cond != nil {
			if it, opener, ok := d.iterOf(t.Cond, fr); ok {
				if strings.HasPrefix(opener, "Array") {
					d.walkStmts(t.Body.List, fr, path+"[]")
				} else {
					d.walkObjectBody(t.Body.List, fr, path, it)
				}
				return
			}
			d.walkExpr(t.Cond, fr, path)
		}
		d.walkStmts(t.Body.List, fr, path)
		if t.Post != nil {
			d.walkStmt(t.Post, fr, path)
		}
	case *ast.RangeStmt:
		d.walkExpr(t.X, fr, path)
		d.walkStmts(t.Body.List, fr, path)
	case *ast.IfStmt:
		if t.Init != nil {
			d.walkStmt(t.Init, fr, path)
		}
		d.walkExpr(t.Cond, fr, path)
		d.walkStmts(t.Body.List, fr, path)
		if t.Else != nil {
			d.walkStmt(t.Else, fr, path)
		}
	case *ast.SwitchStmt:
		if t.Init != nil {
			d.walkStmt(t.Init, fr, path)
		}
		if t.Tag != nil {
			d.walkExpr(t.Tag, fr, path)
		}
		for _, c := range t.Body.List {
			cc := c.(*ast.CaseClause)
			for _, e := range cc.List {
				d.walkExpr(e, fr, path)
			}
			d.walkStmts(cc.Body, fr, path)
		}
	case *ast.AssignStmt:
		// iterator variables: x := r.Array() / ArrayOrNull() / Object() / ObjectOrNull()
		if len(t.Lhs) == 1 && len(t.Rhs) == 1 {
			if c, ok := t.Rhs[0].(*ast.CallExpr); ok {
				if m, ok := d.readerMethod(c); ok {
					switch m {
					case "Array", "ArrayOrNull", "Object", "ObjectOrNull":
						if id, ok := t.Lhs[0].(*ast.Ident); ok {
							obj := d.p.TypesInfo.Defs[id]
							if obj == nil {
								obj = d.p.TypesInfo.Uses[id]
							}
							fr.openers[obj] = m
							d.emit(path, m)
							return
						}
					}
				}
				// name := obj.Name()
				if sel, ok := c.Fun.(*ast.SelectorExpr); ok && sel.Sel.Name == "Name" {
					if rid, ok := sel.X.(*ast.Ident); ok {
						if _, isIter := fr.openers[d.p.TypesInfo.Uses[rid]]; isIter {
							if id, ok := t.Lhs[0].(*ast.Ident); ok {
								obj := d.p.TypesInfo.Defs[id]
								if obj == nil {
									obj = d.p.TypesInfo.Uses[id]
								}
								fr.names[obj] = d.p.TypesInfo.Uses[rid]
								return
							}
						}
					}
				}
			}
		}
		for _, e := range t.Rhs {
			d.walkExpr(e, fr, path)
		}
		for _, e := range t.Lhs {
			d.walkExpr(e, fr, path)
		}
	case *ast.ExprStmt:
		d.walkExpr(t.X, fr, path)
	case *ast.ReturnStmt:
		for _, e := range t.Results {
			d.walkExpr(e, fr, path)
		}
	case *ast.DeclStmt:
		if gd, ok := t.Decl.(*ast.GenDecl); ok {
			for _, s := range gd.Specs {
				if vs, ok := s.(*ast.ValueSpec); ok {
					for _, e := range vs.Values {
						d.walkExpr(e, fr, path)
					}
				}
			}
		}
	case *ast.IncDecStmt, *ast.BranchStmt, *ast.EmptyStmt:
	case *ast.LabeledStmt:
		d.walkStmt(t.Stmt, fr, path)
	default:
		failf("decoder: unhandled statement %T at %s", st, path)
	}
}

// nameOfIter: is e (possibly wrapped in a conversion) the current property name of iterator `it`?
func (d *decWalker) isNameOf(e ast.Expr, fr *decFrame, it types.Object) bool {
	for {
		switch t := e.(type) {
		case *ast.ParenExpr:
			e = t.X
			continue
		case *ast.CallExpr:
			if tv, ok := d.p.TypesInfo.Types[t.Fun]; ok && tv.IsType() && len(t.Args) == 1 {
				e = t.Args[0]
				continue
			}
			if sel, ok := t.Fun.(*ast.SelectorExpr); ok && sel.Sel.Name == "Name" {
				if id, ok := sel.X.(*ast.Ident); ok {
					return d.p.TypesInfo.Uses[id] == it
				}
			}
			return false
		case *ast.Ident:
			return fr.names[d.p.TypesInfo.Uses[t]] == it
		}
		return false
	}
}

func (d *decWalker) stringConst(e ast.Expr) (string, bool) {
	tv, ok := d.p.TypesInfo.Types[e]
	if !ok || tv.Value == nil || tv.Value.Kind() != constant.String {
		return "", false
	}
	return constant.StringVal(tv.Value), true
}

// walkObjectBody handles the body of `for obj.Next()`: statements that dispatch on the property
// name (switch / if == ) contribute properties; everything else is walked at the object's path.
func (d *decWalker) walkObjectBody(stmts []ast.Stmt, fr *decFrame, path string, it types.Object) {
	if _, ok := d.known[path]; !ok {
		d.known[path] = []string{}
	}
	saved := fr.cur
	fr.cur = it
	defer func() { fr.cur = saved }()
	for i, st := range stmts {
		// guard form: `if name != "x" { continue }` — the rest of the body handles property x
		if ifs, ok := st.(*ast.IfStmt); ok && ifs.Else == nil && ifs.Init == nil && len(ifs.Body.List) == 1 {
			if br, ok := ifs.Body.List[0].(*ast.BranchStmt); ok && br.Tok == token.CONTINUE {
				if be, ok := ifs.Cond.(*ast.BinaryExpr); ok && be.Op == token.NEQ {
					eq := &ast.BinaryExpr{X: be.X, Op: token.EQL, Y: be.Y}
					if name, ok := d.nameComparison(eq, fr, it); ok {
						d.known[path] = append(d.known[path], name)
						d.walkStmts(stmts[i+1:], fr, path+"/"+name)
						return
					}
				}
			}
		}
		switch t := st.(type) {
		case *ast.SwitchStmt:
			if t.Tag != nil && d.isNameOf(t.Tag, fr, it) {
				for _, c := range t.Body.List {
					cc := c.(*ast.CaseClause)
					for _, e := range cc.List {
						name, ok := d.stringConst(e)
						if !ok {
							failf("decoder: non-constant property name at %s", path)
						}
						sub := path + "/" + name
						d.known[path] = append(d.known[path], name)
						before := len(d.lines)
						d.walkStmts(cc.Body, fr, sub)
						if len(d.lines) == before {
							d.emit(sub, "<nothing read>")
						}
					}
					if cc.List == nil {
						d.walkStmts(cc.Body, fr, path+"/<default>")
					}
				}
				continue
			}
			if t.Tag == nil {
				// switch { case name == "x": … }
				handled := false
				for _, c := range t.Body.List {
					cc := c.(*ast.CaseClause)
					for _, e := range cc.List {
						if name, ok := d.nameComparison(e, fr, it); ok {
							handled = true
							d.known[path] = append(d.known[path], name)
							d.walkStmts(cc.Body, fr, path+"/"+name)
						}
					}
				}
				if handled {
					continue
				}
			}
		case *ast.IfStmt:
			if d.walkNameIfChain(t, fr, path, it) {
				continue
			}
		case *ast.AssignStmt:
			// name := obj.Name() handled by walkStmt (records the alias)
		}
		d.walkStmt(st, fr, path)
	}
}

func (d *decWalker) nameComparison(e ast.Expr, fr *decFrame, it types.Object) (string, bool) {
	be, ok := e.(*ast.BinaryExpr)
	if !ok || be.Op != token.EQL {
		return "", false
	}
	if s, ok := d.stringConst(be.Y); ok && d.isNameOf(be.X, fr, it) {
		return s, true
	}
	if s, ok := d.stringConst(be.X); ok && d.isNameOf(be.Y, fr, it) {
		return s, true
	}
	return "", false
}

func (d *decWalker) walkNameIfChain(t *ast.IfStmt, fr *decFrame, path string, it types.Object) bool {
	// the init statement first: `if name := obj.Name(); string(name) == "x" {` introduces the alias
	// the condition then uses
	if t.Init != nil {
		d.walkStmt(t.Init, fr, path)
	}
	name, ok := d.nameComparison(t.Cond, fr, it)
	if !ok {
		// an ordinary if statement (its init has been walked already)
		d.walkExpr(t.Cond, fr, path)
		d.walkStmts(t.Body.List, fr, path)
		if t.Else != nil {
			d.walkStmt(t.Else, fr, path)
		}
		return true
	}
	d.known[path] = append(d.known[path], name)
	d.walkStmts(t.Body.List, fr, path+"/"+name)
	switch e := t.Else.(type) {
	case *ast.IfStmt:
		d.walkNameIfChain(e, fr, path, it)
	case nil:
	default:
		d.walkStmt(e, fr, path+"/<default>")
	}
	return true
}

func (d *decWalker) walkExpr(e ast.Expr, fr *decFrame, path string) {
	if e == nil {
		return
	}
	ast.Inspect(e, func(n ast.Node) bool {
		c, ok := n.(*ast.CallExpr)
		if !ok {
			if fl, ok := n.(*ast.FuncLit); ok {
				d.walkStmts(fl.Body.List, fr, path)
				return false
			}
			return true
		}
		if m, ok := d.readerMethod(c); ok {
			switch m {
			case "Error", "AddError", "ReplaceError", "IsDefined":
			default:
				d.emit(path, m)
			}
			return true
		}
		if d.passesReader(c) {
			if f, ok := calledFunc(d.p, c); ok {
				if fd := d.w.decls[f]; fd != nil && f.Pkg() == d.p.Types {
					// a helper that is handed the current property name dispatches on it on behalf
					// of the object being read: its body is part of that object's body
					if fr.cur != nil {
						if param := d.nameParam(c, fd, fr); param != nil {
							d.walkDispatchHelper(fd, path, param, fr.cur)
							return false
						}
					}
					// arguments first (none of them reads in practice), then the callee's body
					d.walkFunc(fd, path)
					return false
				}
				d.emit(path, "extern "+externName(f))
				return true
			}
			d.emit(path, "extern <dynamic>")
		}
		return true
	})
}

func externName(f *types.Func) string {
	sig := f.Type().(*types.Signature)
	if r := sig.Recv(); r != nil {
		return "(" + typeStr(r.Type()) + ")." + f.Name()
	}
	if f.Pkg() != nil {
		return f.Pkg().Name() + "." + f.Name()
	}
	return f.Name()
}

func (w *world) decoderSchema(entry, rootPath string) ([]string, map[string][]string) {
	fd := w.decls[codecCore(w)[entry]]
	if fd == nil {
		failf("‹%s› not found", entry)
	}
	d := &decWalker{w: w, p: w.model, known: map[string][]string{}}
	d.walkFunc(fd, rootPath)
	for k := range d.known {
		d.known[k] = sortedSet(d.known[k])
	}
	return sortedSet(d.lines), d.known
}

// ---------- encoder ----------

type encWalker struct {
	w      *world
	p      *packages.Package
	lines  []string
	always map[string][]string // container path -> property names written unconditionally
	depth  int
}

// A property is "always" written when nothing between the opening of its enclosing container and
// the Name(…) call is conditional (an if/switch body, code after a conditional early return, or
// Maybe); otherwise "conditional". Conditionality is therefore relative to the container: the
// properties of an object that is itself written only sometimes are not all "conditional".
type encRef struct {
	path   string
	opened int // conditional depth at which the container this value writes into was opened
}

type encFrame struct {
	refs   map[types.Object]encRef // writer-ish variable -> where it writes
	consts map[types.Object]string // string parameter bound to a constant at the call site
	cond   int                     // how many conditions the current statement is under
}

func (e *encWalker) isWriterish(t types.Type) bool {
	return namedFrom(t, jwriterPath, "Writer") || namedFrom(t, jwriterPath, "ObjectState") || namedFrom(t, jwriterPath, "ArrayState")
}

func (e *encWalker) emitKey(path string, cond bool) {
	if cond {
		e.lines = append(e.lines, path+" : conditional")
	} else {
		e.lines = append(e.lines, path+" : always")
	}
}

// refOf evaluates a writer-ish expression, emitting lines for Name/Maybe/Object/Array along the
// way. ok=false if the expression is not rooted at a tracked variable.
func (e *encWalker) refOf(x ast.Expr, fr *encFrame) (encRef, bool) {
	switch t := x.(type) {
	case *ast.ParenExpr:
		return e.refOf(t.X, fr)
	case *ast.UnaryExpr:
		if t.Op == token.AND {
			return e.refOf(t.X, fr)
		}
	case *ast.StarExpr:
		return e.refOf(t.X, fr)
	case *ast.Ident:
		r, ok := fr.refs[e.p.TypesInfo.Uses[t]]
		return r, ok
	case *ast.CallExpr:
		sel, ok := t.Fun.(*ast.SelectorExpr)
		if !ok {
			return encRef{}, false
		}
		tv, ok := e.p.TypesInfo.Types[sel.X]
		if !ok || !e.isWriterish(tv.Type) {
			return encRef{}, false
		}
		base, ok := e.refOf(sel.X, fr)
		if !ok {
			return encRef{}, false
		}
		switch sel.Sel.Name {
		case "Name", "Maybe":
			if len(t.Args) < 1 {
				return encRef{}, false
			}
			name, ok := e.stringOf(t.Args[0], fr)
			if !ok {
				failf("encoder: property name is not a constant at %s", base.path)
			}
			p := base.path + "/" + name
			if _, ok := e.always[base.path]; !ok {
				e.always[base.path] = []string{}
			}
			if !(fr.cond > base.opened || sel.Sel.Name == "Maybe") {
				e.always[base.path] = append(e.always[base.path], name)
			}
			e.emitKey(p, fr.cond > base.opened || sel.Sel.Name == "Maybe")
			return encRef{p, base.opened}, true
		case "Object":
			e.lines = append(e.lines, base.path+" = Object")
			return encRef{base.path, fr.cond}, true
		case "Array":
			e.lines = append(e.lines, base.path+" = Array")
			return encRef{base.path + "[]", fr.cond}, true
		default:
			return base, true
		}
	}
	return encRef{}, false
}

func (e *encWalker) stringOf(x ast.Expr, fr *encFrame) (string, bool) {
	if tv, ok := e.p.TypesInfo.Types[x]; ok && tv.Value != nil && tv.Value.Kind() == constant.String {
		return constant.StringVal(tv.Value), true
	}
	if id, ok := x.(*ast.Ident); ok {
		s, ok := fr.consts[e.p.TypesInfo.Uses[id]]
		return s, ok
	}
	return "", false
}

func (e *encWalker) walkFunc(fd *ast.FuncDecl, fr *encFrame) {
	if e.depth > 12 {
		failf("encoder helpers nest too deeply (recursion?)")
	}
	e.depth++
	e.walkStmts(fd.Body.List, fr)
	e.depth--
}

// endsInJump: the block always leaves the enclosing statement list (return / continue / break).
func endsInJump(b *ast.BlockStmt) bool {
	if b == nil || len(b.List) == 0 {
		return false
	}
	switch t := b.List[len(b.List)-1].(type) {
	case *ast.ReturnStmt:
		return true
	case *ast.BranchStmt:
		return t.Tok == token.CONTINUE || t.Tok == token.BREAK
	}
	return false
}

func (e *encWalker) walkStmts(stmts []ast.Stmt, fr *encFrame) {
	saved := fr.cond
	for _, st := range stmts {
		e.walkStmt(st, fr)
		// code after a conditional early exit is itself conditional
		if ifs, ok := st.(*ast.IfStmt); ok && ifs.Else == nil && endsInJump(ifs.Body) {
			fr.cond++
		}
	}
	fr.cond = saved
}

func (e *encWalker) withCond(fr *encFrame, f func()) {
	fr.cond++
	f()
	fr.cond--
}

func (e *encWalker) walkStmt(st ast.Stmt, fr *encFrame) {
	switch t := st.(type) {
	case nil:
	case *ast.BlockStmt:
		e.walkStmts(t.List, fr)
	case *ast.IfStmt:
		if t.Init != nil {
			e.walkStmt(t.Init, fr)
		}
		e.walkExpr(t.Cond, fr)
		e.withCond(fr, func() {
			e.walkStmts(t.Body.List, fr)
			if t.Else != nil {
				e.walkStmt(t.Else, fr)
			}
		})
	case *ast.SwitchStmt:
		if t.Init != nil {
			e.walkStmt(t.Init, fr)
		}
		e.withCond(fr, func() {
			for _, c := range t.Body.List {
				e.walkStmts(c.(*ast.CaseClause).Body, fr)
			}
		})
	case *ast.ForStmt:
		if t.Init != nil {
			e.walkStmt(t.Init, fr)
		}
		e.walkStmts(t.Body.List, fr)
	case *ast.RangeStmt:
		// array elements: whether a property of an element is "always" written is relative to the
		// element existing, so a loop does not make its body conditional
		e.walkStmts(t.Body.List, fr)
	case *ast.AssignStmt:
		if len(t.Lhs) == len(t.Rhs) {
			for i := range t.Lhs {
				id, isIdent := t.Lhs[i].(*ast.Ident)
				if tv, ok := e.p.TypesInfo.Types[t.Rhs[i]]; ok && isIdent && e.isWriterish(tv.Type) {
					if r, ok := e.refOf(t.Rhs[i], fr); ok {
						obj := e.p.TypesInfo.Defs[id]
						if obj == nil {
							obj = e.p.TypesInfo.Uses[id]
						}
						fr.refs[obj] = r
						continue
					}
				}
				e.walkExpr(t.Rhs[i], fr)
			}
			return
		}
		for _, x := range t.Rhs {
			e.walkExpr(x, fr)
		}
	case *ast.ExprStmt:
		e.walkExpr(t.X, fr)
	case *ast.ReturnStmt:
		for _, x := range t.Results {
			e.walkExpr(x, fr)
		}
	case *ast.DeclStmt, *ast.IncDecStmt, *ast.BranchStmt, *ast.EmptyStmt:
	case *ast.LabeledStmt:
		e.walkStmt(t.Stmt, fr)
	default:
		failf("encoder: unhandled statement %T", st)
	}
}

func (e *encWalker) walkExpr(x ast.Expr, fr *encFrame) {
	if x == nil {
		return
	}
	ast.Inspect(x, func(n ast.Node) bool {
		c, ok := n.(*ast.CallExpr)
		if !ok {
			return true
		}
		// a call chain on a writer-ish value: evaluate it for its lines
		if sel, ok := c.Fun.(*ast.SelectorExpr); ok {
			if tv, ok := e.p.TypesInfo.Types[sel.X]; ok && e.isWriterish(tv.Type) {
				if _, ok := e.refOf(c, fr); ok {
					for _, a := range c.Args {
						e.walkExpr(a, fr)
					}
					return false
				}
			}
		}
		// a call that passes a writer-ish value to a function of the package: follow it
		f, okf := calledFunc(e.p, c)
		if !okf {
			return true
		}
		fd := e.w.decls[f]
		passes := false
		for _, a := range c.Args {
			if tv, ok := e.p.TypesInfo.Types[a]; ok && e.isWriterish(tv.Type) {
				passes = true
			}
		}
		if !passes || fd == nil || f.Pkg() != e.p.Types {
			return true
		}
		sub := &encFrame{refs: map[types.Object]encRef{}, consts: map[types.Object]string{}, cond: fr.cond}
		params := []*ast.Ident{}
		for _, fl := range fd.Type.Params.List {
			params = append(params, fl.Names...)
		}
		for i, a := range c.Args {
			if i >= len(params) {
				break
			}
			pobj := e.p.TypesInfo.Defs[params[i]]
			if tv, ok := e.p.TypesInfo.Types[a]; ok && e.isWriterish(tv.Type) {
				if r, ok := e.refOf(a, fr); ok {
					sub.refs[pobj] = r
				}
			} else if s, ok := e.stringOf(a, fr); ok {
				sub.consts[pobj] = s
			}
		}
		e.walkFunc(fd, sub)
		return false
	})
}

func (w *world) encoderSchema(entry, rootPath string) ([]string, map[string][]string) {
	fd := w.decls[codecCore(w)[entry]]
	if fd == nil {
		failf("‹%s› not found", entry)
	}
	e := &encWalker{w: w, p: w.model, always: map[string][]string{}}
	fr := &encFrame{refs: map[types.Object]encRef{}, consts: map[types.Object]string{}}
	for _, fl := range fd.Type.Params.List {
		for _, nm := range fl.Names {
			obj := w.model.TypesInfo.Defs[nm]
			if e.isWriterish(obj.Type()) {
				fr.refs[obj] = encRef{rootPath, 0}
			}
		}
	}
	e.walkFunc(fd, fr)
	// a key written on both branches of an if (once "always" is impossible there) stays
	// conditional; a key with both an unconditional and a conditional write is "always"
	lines := sortedSet(e.lines)
	always := map[string]bool{}
	for _, l := range lines {
		if strings.HasSuffix(l, " : always") {
			always[strings.TrimSuffix(l, " : always")] = true
		}
	}
	res := []string{}
	for _, l := range lines {
		if strings.HasSuffix(l, " : conditional") && always[strings.TrimSuffix(l, " : conditional")] {
			continue
		}
		res = append(res, l)
	}
	for k := range e.always {
		e.always[k] = sortedSet(e.always[k])
	}
	return res, e.always
}

// ---------- entry points ----------

// codecCore finds the functions every (un)marshalling entry point funnels into, by what they are
// rather than by name: the plain function that reads a flag (segment) from a *jreader.Reader into
// a *FeatureFlag (*Segment), and the innermost plain function that is handed a FeatureFlag
// (Segment) and a *jwriter.Writer. PreprocessFlag / PreprocessSegment are exported API.
func codecCore(w *world) map[string]*types.Func {
	roles := map[string][]*types.Func{}
	paramKinds := func(f *types.Func) (reader, writer bool, item string, ptr bool, n int) {
		sig := f.Type().(*types.Signature)
		n = sig.Params().Len()
		for i := 0; i < n; i++ {
			t := sig.Params().At(i).Type()
			isPtr := false
			if p, ok := t.(*types.Pointer); ok {
				t, isPtr = p.Elem(), true
			}
			switch {
			case namedFrom(t, jreaderPath, "Reader") && isPtr:
				reader = true
			case namedFrom(t, jwriterPath, "Writer") && isPtr:
				writer = true
			case namedFrom(t, w.model.PkgPath, "FeatureFlag"):
				item, ptr = "flag", isPtr
			case namedFrom(t, w.model.PkgPath, "Segment"):
				item, ptr = "segment", isPtr
			}
		}
		return
	}
	for f := range w.decls {
		if f.Pkg() != w.model.Types || f.Type().(*types.Signature).Recv() != nil {
			continue
		}
		reader, writer, item, ptr, n := paramKinds(f)
		if n != 2 || item == "" {
			continue
		}
		if reader && ptr {
			roles[item+"-decoder"] = append(roles[item+"-decoder"], f)
		}
		if writer && !ptr {
			roles[item+"-encoder"] = append(roles[item+"-encoder"], f)
		}
	}
	out := map[string]*types.Func{}
	sp := w.spkgs[w.model.PkgPath]
	reachOf := func(fn *ssa.Function) map[*ssa.Function]bool {
		reach := map[*ssa.Function]bool{}
		var visit func(f *ssa.Function)
		visit = func(f *ssa.Function) {
			if reach[f] {
				return
			}
			reach[f] = true
			for _, b := range f.Blocks {
				for _, ins := range b.Instrs {
					if c, ok := ins.(ssa.CallInstruction); ok {
						if sc := c.Common().StaticCallee(); sc != nil && sc.Pkg == sp {
							visit(sc)
						}
					}
				}
			}
			for _, an := range f.AnonFuncs {
				visit(an)
			}
		}
		visit(fn)
		return reach
	}
	entries := []map[*ssa.Function]bool{}
	for _, fn := range w.moduleFunctions(w.model.PkgPath) {
		if strings.Contains(strings.ToLower(fn.Name()), "marshal") && fn.Synthetic == "" && ast.IsExported(fn.Name()) {
			entries = append(entries, reachOf(fn))
		}
	}
	for role, fs := range roles {
		// the funnel: reached from every entry point that reaches any candidate of this role, and
		// not itself reached from another such candidate (helpers with the same signature)
		kept := []*ssa.Function{}
		for _, f := range fs {
			sf := w.prog.FuncValue(f)
			ok := sf != nil
			for _, e := range entries {
				any := false
				for _, g := range fs {
					if sg := w.prog.FuncValue(g); sg != nil && e[sg] {
						any = true
					}
				}
				if any && !e[sf] {
					ok = false
				}
			}
			if ok {
				kept = append(kept, sf)
			}
		}
		outer := []*ssa.Function{}
		for _, c := range kept {
			inner := false
			for _, d := range kept {
				if d != c && reachOf(d)[c] {
					inner = true
				}
			}
			if !inner {
				outer = append(outer, c)
			}
		}
		if len(outer) != 1 {
			failf("expected one ‹%s› function in ldmodel, found %d", role, len(outer))
		}
		out[role] = outer[0].Object().(*types.Func)
	}
	for _, role := range []string{"flag-decoder", "segment-decoder", "flag-encoder", "segment-encoder"} {
		if out[role] == nil {
			failf("no ‹%s› function found in ldmodel", role)
		}
	}
	for role, name := range map[string]string{"flag-preprocess": "PreprocessFlag", "segment-preprocess": "PreprocessSegment"} {
		f, _ := w.funcNamed(w.model, name)
		if f == nil {
			failf("%s not found", name)
		}
		out[role] = f
	}
	return out
}

// entryPoints: for every function or method of ldmodel whose name says it (un)marshals, which of
// the core codec functions it reaches through static calls inside the package.
func entryPoints(w *world, tagLabel string) []pair {
	core := map[*types.Func]string{}
	for role, f := range codecCore(w) {
		core[f] = "‹" + role + "›"
	}
	sp := w.spkgs[w.model.PkgPath]
	if sp == nil {
		failf("no SSA for ldmodel")
	}
	res := []pair{}
	for _, fn := range w.moduleFunctions(w.model.PkgPath) {
		name := fn.Name()
		l := strings.ToLower(name)
		if !strings.Contains(l, "marshal") || fn.Synthetic != "" || !ast.IsExported(name) {
			continue
		}
		reach := map[*ssa.Function]bool{}
		var visit func(f *ssa.Function)
		visit = func(f *ssa.Function) {
			if reach[f] {
				return
			}
			reach[f] = true
			for _, b := range f.Blocks {
				for _, ins := range b.Instrs {
					if c, ok := ins.(ssa.CallInstruction); ok {
						if sc := c.Common().StaticCallee(); sc != nil && sc.Pkg == sp {
							visit(sc)
						}
					}
				}
			}
			for _, an := range f.AnonFuncs {
				visit(an)
			}
		}
		visit(fn)
		hit := []string{}
		for f := range reach {
			if obj, ok := f.Object().(*types.Func); ok && core[obj] != "" {
				hit = append(hit, core[obj])
			}
		}
		sort.Strings(hit)
		res = append(res, pair{tagLabel + calleeNameShort(fn), strings.Join(hit, " ")})
	}
	sort.Slice(res, func(i, j int) bool { return res[i].a < res[j].a })
	return res
}

func calleeNameShort(f *ssa.Function) string {
	if r := f.Signature.Recv(); r != nil {
		t := r.Type()
		star := ""
		if p, ok := t.(*types.Pointer); ok {
			t = p.Elem()
			star = "*"
		}
		if n, ok := t.(*types.Named); ok {
			return "(" + star + n.Obj().Name() + ")." + f.Name()
		}
	}
	return f.Name()
}

func leanTable(m map[string][]string) string {
	keys := []string{}
	for k := range m {
		keys = append(keys, k)
	}
	sort.Strings(keys)
	rows := []string{}
	for _, k := range keys {
		rows = append(rows, "  ("+leanStr(k)+", "+leanStrList(m[k])+")")
	}
	if len(rows) == 0 {
		return "[]"
	}
	return "[\n" + strings.Join(rows, ",\n") + "\n]"
}

func tableFallback(name string) string {
	return fmt.Sprintf("def %s : List (String × List String) := [(\"<not extracted>\", [])]", name)
}

func emitCodec(w *world, o *out, repo string) {
	for _, s := range []struct{ def, entry, root string }{
		{"flagDecoder", "flag-decoder", "flag"}, {"segmentDecoder", "segment-decoder", "segment"}} {
		s := s
		o.guard(s.def, listFallback(s.def)+"\n"+tableFallback(s.def+"Known"), func() {
			lines, known := w.decoderSchema(s.entry, s.root)
			o.w("def %s : List String := %s\n", s.def, leanStrListLines(lines))
			o.w("def %sKnown : List (String × List String) := %s\n", s.def, leanTable(known))
		})
	}
	for _, s := range []struct{ def, entry, root string }{
		{"flagEncoder", "flag-encoder", "flag"}, {"segmentEncoder", "segment-encoder", "segment"}} {
		s := s
		o.guard(s.def, listFallback(s.def)+"\n"+tableFallback(s.def+"Always"), func() {
			lines, always := w.encoderSchema(s.entry, s.root)
			o.w("def %s : List String := %s\n", s.def, leanStrListLines(lines))
			o.w("def %sAlways : List (String × List String) := %s\n", s.def, leanTable(always))
		})
	}
	o.guard("entryPoints", pairsFallback("entryPoints"), func() {
		eps := entryPoints(w, "")
		ej, err := load(repo, "launchdarkly_easyjson")
		if err != nil {
			failf("easyjson variant does not load: %v", err)
		}
		for _, p := range entryPoints(ej, "easyjson:") {
			if strings.Contains(p.a, "EasyJSON") {
				eps = append(eps, p)
			}
		}
		o.w("def entryPoints : List (String × String) := %s\n", leanPairList(eps))
	})
	o.w("\n")
}

package main

// Shared-state facts, computed over the SSA form of the module:
//
//   evalWrites        every store, map update, append or copy, in any function of the module
//                     reachable from (*evaluator).Evaluate, whose target is not memory allocated by
//                     that same function — described by the type and field written, not by the
//                     function it happens in. This is the complete write set of one evaluation
//                     (calls into other modules are listed separately, not analysed).
//   evalDynamicCalls  the interface methods and named function values an evaluation invokes: the
//                     channels through which it can affect, or be affected by, anything outside
//                     (data provider, big-segment store, logger, prerequisite event recorder).
//   evaluatorWrites   every function of the module that stores into a field of the shared evaluator
//                     object (construction only), and every store to a package-level variable.
//   packageVars, stateFields: the package-level variables and the fields of the evaluator, of the
//                     per-call scope and of the per-call stack.

import (
	"fmt"
	"go/token"
	"go/types"
	"sort"
	"strings"

	"golang.org/x/tools/go/callgraph"
	"golang.org/x/tools/go/callgraph/cha"
	"golang.org/x/tools/go/ssa"
)

// moduleFunctions: all functions (methods, anonymous functions included) of one package.
func (w *world) moduleFunctions(pkgPath string) []*ssa.Function {
	sp := w.spkgs[pkgPath]
	if sp == nil {
		failf("no SSA for %s", pkgPath)
	}
	res := []*ssa.Function{}
	seen := map[*ssa.Function]bool{}
	var add func(f *ssa.Function)
	add = func(f *ssa.Function) {
		if f == nil || seen[f] {
			return
		}
		seen[f] = true
		res = append(res, f)
		for _, an := range f.AnonFuncs {
			add(an)
		}
	}
	for _, m := range sp.Members {
		switch t := m.(type) {
		case *ssa.Function:
			add(t)
		case *ssa.Type:
			for _, ty := range []types.Type{t.Type(), types.NewPointer(t.Type())} {
				ms := w.prog.MethodSets.MethodSet(ty)
				for i := 0; i < ms.Len(); i++ {
					f := w.prog.MethodValue(ms.At(i))
					if f != nil && f.Pkg == sp && f.Synthetic == "" {
						add(f)
					}
				}
			}
		}
	}
	sort.Slice(res, func(i, j int) bool { return res[i].String() < res[j].String() })
	return res
}

func (w *world) method(pkgPath, typeName, method string) *ssa.Function {
	for _, f := range w.moduleFunctions(pkgPath) {
		if f.Name() != method || f.Signature.Recv() == nil {
			continue
		}
		t := f.Signature.Recv().Type()
		if p, ok := t.(*types.Pointer); ok {
			t = p.Elem()
		}
		if n, ok := t.(*types.Named); ok && n.Obj().Name() == typeName {
			return f
		}
	}
	return nil
}

// reachableFromEvaluate: module functions reachable from (*evaluator).Evaluate in the CHA call graph
// (static calls, plus every module method that could be the target of an interface call).
func (w *world) reachableFromEvaluate() []*ssa.Function {
	root := w.method(w.root.PkgPath, "evaluator", "Evaluate")
	if root == nil {
		failf("(*evaluator).Evaluate not found")
	}
	cg := cha.CallGraph(w.prog)
	seen := map[*ssa.Function]bool{}
	var visit func(f *ssa.Function)
	visit = func(f *ssa.Function) {
		if seen[f] {
			return
		}
		seen[f] = true
		for _, an := range f.AnonFuncs {
			visit(an)
		}
		node := cg.Nodes[f]
		if node == nil {
			return
		}
		for _, e := range node.Out {
			callee := e.Callee.Func
			if callee.Pkg != nil && inModule(callee.Pkg.Pkg) {
				visit(callee)
			} else if callee.Pkg == nil && callee.Synthetic != "" {
				// wrappers / bound methods / instantiations: look through them
				if o := callee.Origin(); o != nil && o.Pkg != nil && inModule(o.Pkg.Pkg) {
					visit(callee)
				} else if callee.Object() != nil && inModule(callee.Object().Pkg()) {
					visit(callee)
				}
			}
		}
		_ = callgraph.Edge{}
	}
	visit(root)
	res := []*ssa.Function{}
	for f := range seen {
		res = append(res, f)
	}
	sort.Slice(res, func(i, j int) bool { return res[i].String() < res[j].String() })
	return res
}

// describeAddr walks an address (or slice / map value) back to where it comes from. local=true when
// the memory was allocated by the function itself (Alloc, MakeSlice, MakeMap, composite literal).
func describeAddr(v ssa.Value, depth int) (desc string, local bool) {
	if depth > 40 {
		return "<deep>", false
	}
	switch t := v.(type) {
	case *ssa.Alloc:
		return "local", true
	case *ssa.MakeSlice, *ssa.MakeMap, *ssa.MakeChan, *ssa.MakeClosure, *ssa.MakeInterface:
		return "local", true
	case *ssa.FieldAddr:
		base, loc := describeAddr(t.X, depth+1)
		st := structOf(t.X.Type())
		field := fmt.Sprintf("#%d", t.Field)
		if st != nil {
			field = st.Field(t.Field).Name()
		}
		name := namedStructName(t.X.Type())
		if name != "" {
			return name + "." + field, loc
		}
		return base + "." + field, loc
	case *ssa.Field:
		base, loc := describeAddr(t.X, depth+1)
		st, _ := t.X.Type().Underlying().(*types.Struct)
		field := fmt.Sprintf("#%d", t.Field)
		if st != nil {
			field = st.Field(t.Field).Name()
		}
		if n, ok := t.X.Type().(*types.Named); ok {
			return n.Obj().Name() + "." + field, loc
		}
		return base + "." + field, loc
	case *ssa.IndexAddr:
		base, loc := describeAddr(t.X, depth+1)
		return base + "[]", loc
	case *ssa.Slice:
		return describeAddr(t.X, depth+1)
	case *ssa.UnOp:
		if t.Op == token.MUL {
			// a pointer / slice / map loaded from memory: the thing it points to is not ours even if
			// the variable holding it is, unless that variable is a local that only ever held local
			// allocations (the SSA builder already lifts those to registers, so what is left is shared)
			base, _ := describeAddr(t.X, depth+1)
			return "*" + base, false
		}
		return describeAddr(t.X, depth+1)
	case *ssa.Parameter:
		return "(" + typeStr(t.Type()) + ")", false
	case *ssa.FreeVar:
		return "free(" + typeStr(t.Type()) + ")", false
	case *ssa.Global:
		return "global " + t.Pkg.Pkg.Name() + "." + t.Name(), false
	case *ssa.Phi:
		descs := []string{}
		allLocal := true
		for _, e := range t.Edges {
			if e == ssa.Value(t) {
				continue
			}
			d, l := describeAddr(e, depth+1)
			descs = append(descs, d)
			allLocal = allLocal && l
		}
		return strings.Join(sortedSet(descs), "|"), allLocal
	case *ssa.Call:
		if b, ok := t.Call.Value.(*ssa.Builtin); ok && b.Name() == "append" {
			return describeAddr(t.Call.Args[0], depth+1)
		}
		return "result of call", false
	case *ssa.Extract:
		return "result of call", false
	case *ssa.ChangeType:
		return describeAddr(t.X, depth+1)
	case *ssa.Convert:
		return describeAddr(t.X, depth+1)
	case *ssa.Const:
		return "const", true
	case *ssa.Lookup:
		return describeAddr(t.X, depth+1)
	case *ssa.TypeAssert:
		return "(" + typeStr(t.Type()) + ")", false
	}
	return fmt.Sprintf("<%T>", v), false
}

func structOf(t types.Type) *types.Struct {
	if p, ok := t.Underlying().(*types.Pointer); ok {
		t = p.Elem()
	}
	st, _ := t.Underlying().(*types.Struct)
	return st
}

func namedStructName(t types.Type) string {
	if p, ok := t.Underlying().(*types.Pointer); ok {
		t = p.Elem()
	}
	if n, ok := t.(*types.Named); ok {
		return n.Obj().Name()
	}
	return ""
}

// writesOf lists the non-local writes of one function.
func writesOf(f *ssa.Function) []string {
	res := []string{}
	for _, b := range f.Blocks {
		for _, ins := range b.Instrs {
			switch t := ins.(type) {
			case *ssa.Store:
				if d, local := describeAddr(t.Addr, 0); !local {
					res = append(res, "store "+d)
				}
			case *ssa.MapUpdate:
				if d, local := describeAddr(t.Map, 0); !local {
					res = append(res, "map update "+d)
				}
			case ssa.CallInstruction:
				if bi, ok := t.Common().Value.(*ssa.Builtin); ok {
					switch bi.Name() {
					case "append":
						if d, local := describeAddr(t.Common().Args[0], 0); !local {
							if c, isConst := t.Common().Args[0].(*ssa.Const); !isConst || !c.IsNil() {
								res = append(res, "append "+d)
							}
						}
					case "copy", "delete", "clear":
						if d, local := describeAddr(t.Common().Args[0], 0); !local {
							res = append(res, bi.Name()+" "+d)
						}
					}
				}
			case *ssa.Send:
				res = append(res, "channel send")
			}
			if _, ok := ins.(*ssa.Go); ok {
				res = append(res, "go statement")
			}
		}
	}
	return res
}

func emitState(w *world, o *out) {
	o.guard("packageVars", listFallback("packageVars"), func() {
		pv := []string{}
		for _, p := range []*types.Package{w.root.Types, w.model.Types, w.internal.Types} {
			for _, name := range p.Scope().Names() {
				if v, ok := p.Scope().Lookup(name).(*types.Var); ok {
					pv = append(pv, p.Name()+"."+name+" : "+typeStr(v.Type()))
				}
			}
		}
		o.w("def packageVars : List String := %s\n", leanStrList(sortedSet(pv)))
	})
	o.guard("stateFields", listFallback("stateFields"), func() {
		fields := []string{}
		for _, tn := range []string{"evaluator", "evaluationScope"} {
			obj, ok := w.root.Types.Scope().Lookup(tn).(*types.TypeName)
			if !ok {
				failf("type %s not found", tn)
			}
			st, ok := obj.Type().Underlying().(*types.Struct)
			if !ok {
				failf("%s is not a struct", tn)
			}
			for i := 0; i < st.NumFields(); i++ {
				fields = append(fields, tn+"."+st.Field(i).Name()+" : "+typeStr(st.Field(i).Type()))
			}
		}
		o.w("def stateFields : List String := %s\n", leanStrList(sortedSet(fields)))
	})
	var reach []*ssa.Function
	o.guard("evalWrites", listFallback("evalWrites"), func() {
		reach = w.reachableFromEvaluate()
		writes := []string{}
		for _, f := range reach {
			writes = append(writes, writesOf(f)...)
		}
		o.w("def evalWrites : List String := %s\n", leanStrListLines(sortedSet(writes)))
	})
	o.guard("evalDynamicCalls", listFallback("evalDynamicCalls"), func() {
		if reach == nil {
			reach = w.reachableFromEvaluate()
		}
		calls := []string{}
		for _, f := range reach {
			for _, b := range f.Blocks {
				for _, ins := range b.Instrs {
					ci, ok := ins.(ssa.CallInstruction)
					if !ok {
						continue
					}
					c := ci.Common()
					if c.IsInvoke() {
						calls = append(calls, "invoke "+typeStr(c.Value.Type())+"."+c.Method.Name())
						continue
					}
					if c.StaticCallee() != nil {
						continue
					}
					if _, isBuiltin := c.Value.(*ssa.Builtin); isBuiltin {
						continue
					}
					// a call through a function value: report it when its type is a named function
					// type (part of the API) or when it is loaded from a field
					if n, ok := c.Value.Type().(*types.Named); ok {
						calls = append(calls, "call "+typeStr(n))
					} else if d, local := describeAddr(c.Value, 0); !local && !strings.HasPrefix(d, "(") && !strings.HasPrefix(d, "free(") {
						// not a plain function-typed parameter or captured variable of the caller
						calls = append(calls, "call func value "+d)
					}
				}
			}
		}
		o.w("def evalDynamicCalls : List String := %s\n", leanStrListLines(sortedSet(calls)))
	})
	o.guard("evaluatorWrites", listFallback("evaluatorWrites"), func() {
		res := []string{}
		for _, pkg := range []string{w.root.PkgPath, w.model.PkgPath, w.internal.PkgPath} {
			for _, f := range w.moduleFunctions(pkg) {
				if f.Synthetic != "" && f.Name() == "init" {
					continue
				}
				for _, wr := range writesOf(f) {
					if strings.HasPrefix(wr, "store evaluator.") || strings.Contains(wr, "global ") {
						res = append(res, f.Pkg.Pkg.Name()+"."+calleeNameShort(f)+": "+wr)
					}
				}
			}
		}
		o.w("def evaluatorWrites : List String := %s\n", leanStrListLines(sortedSet(res)))
	})
}

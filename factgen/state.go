package main

// Shared-state facts, computed over the SSA form of the module. They are stated through *roles* and
// *types*, never through the names of unexported types, fields or functions, so that renaming any
// of those changes nothing:
//
//   ‹evaluator›  the concrete struct behind the value NewEvaluatorWithOptions returns
//   ‹scope›      the struct of the evaluation package that holds a *‹evaluator› (the per-call scope)
//   ‹stack›      the struct of the evaluation package whose fields are all []string (the chains)
//
//   evalSharedWrites   every store / map update / append / copy / delete, in any function of the
//                      module reachable from (*‹evaluator›).Evaluate, that goes into memory of a
//                      *shared* type — ‹evaluator›, the data model (FeatureFlag, Segment and every
//                      module type reachable from them through fields), a package-level variable —
//                      or through a parameter whose origin cannot be classified. Expected: none.
//   evalPrivateWrites  the writes of an evaluation into its own per-call state: anything reached
//                      through the ‹scope› or the ‹stack›, described by role and by the *type* of
//                      the field written. This is the complete mutable state of one evaluation
//                      (model: St.cache, St.status, the immutable chains).
//   evalScratchWrites  the remaining non-local writes: scratch objects that a function allocates and
//                      hands to its own helper methods (the hash-input buffer, the time scanner).
//   evalDynamicCalls   the interface methods and named function values an evaluation invokes: the
//                      channels through which it can affect, or be affected by, anything outside.
//   evaluatorWrites    every function of the module that stores into ‹evaluator› (expected: the
//                      apply methods of the EvaluatorOption implementations, during construction).
//   globalWrites       every function of the module that writes a package-level variable, or memory
//                      reached from one, outside package initialisation. Expected: none.
//   evaluatorFieldTypes, scopeFieldTypes, stackFieldTypes: the field types of the three structs.

import (
	"fmt"
	"go/token"
	"go/types"
	"sort"
	"strings"

	"golang.org/x/tools/go/callgraph/cha"
	"golang.org/x/tools/go/ssa"
)

// moduleFunctions: all functions (methods, anonymous functions included) of one package.
func (w *world) moduleFunctions(pkgPath string) []*ssa.Function {
	sp := w.spkgs[pkgPath]
	if sp == nil {
		failf("no SSA for %s", pkgPath)
	}
	res := []*ssa.Function{}
	seen := map[*ssa.Function]bool{}
	var add func(f *ssa.Function)
	add = func(f *ssa.Function) {
		if f == nil || seen[f] {
			return
		}
		seen[f] = true
		res = append(res, f)
		for _, an := range f.AnonFuncs {
			add(an)
		}
	}
	for _, m := range sp.Members {
		switch t := m.(type) {
		case *ssa.Function:
			add(t)
		case *ssa.Type:
			for _, ty := range []types.Type{t.Type(), types.NewPointer(t.Type())} {
				ms := w.prog.MethodSets.MethodSet(ty)
				for i := 0; i < ms.Len(); i++ {
					f := w.prog.MethodValue(ms.At(i))
					if f != nil && f.Pkg == sp && f.Synthetic == "" {
						add(f)
					}
				}
			}
		}
	}
	sort.Slice(res, func(i, j int) bool { return res[i].String() < res[j].String() })
	return res
}

func (w *world) method(pkgPath, typeName, method string) *ssa.Function {
	for _, f := range w.moduleFunctions(pkgPath) {
		if f.Name() != method || f.Signature.Recv() == nil {
			continue
		}
		t := f.Signature.Recv().Type()
		if p, ok := t.(*types.Pointer); ok {
			t = p.Elem()
		}
		if n, ok := t.(*types.Named); ok && n.Obj().Name() == typeName {
			return f
		}
	}
	return nil
}

// ---------- roles ----------

type roles struct {
	evaluator, scope, stack *types.Named
	shared                  map[*types.Named]bool
}

func derefNamed(t types.Type) *types.Named {
	for {
		switch u := t.(type) {
		case *types.Pointer:
			t = u.Elem()
			continue
		case *types.Named:
			return u
		}
		return nil
	}
}

func (w *world) findRoles() *roles {
	if w.rolesCache != nil {
		return w.rolesCache
	}
	r := &roles{shared: map[*types.Named]bool{}}
	// ‹evaluator›: the struct allocated and returned (as an interface) by NewEvaluatorWithOptions
	sp := w.spkgs[w.root.PkgPath]
	ctor := sp.Func("NewEvaluatorWithOptions")
	if ctor == nil {
		failf("NewEvaluatorWithOptions not found")
	}
	for _, b := range ctor.Blocks {
		for _, ins := range b.Instrs {
			if mi, ok := ins.(*ssa.MakeInterface); ok {
				if n := derefNamed(mi.X.Type()); n != nil && n.Obj().Pkg() == w.root.Types {
					if _, isStruct := n.Underlying().(*types.Struct); isStruct {
						r.evaluator = n
					}
				}
			}
		}
	}
	if r.evaluator == nil {
		failf("cannot identify the evaluator struct (what NewEvaluatorWithOptions returns)")
	}
	scope := w.root.Types.Scope()
	for _, name := range scope.Names() {
		tn, ok := scope.Lookup(name).(*types.TypeName)
		if !ok || tn.IsAlias() {
			continue
		}
		n, ok := tn.Type().(*types.Named)
		if !ok {
			continue
		}
		st, ok := n.Underlying().(*types.Struct)
		if !ok || st.NumFields() == 0 || n == r.evaluator {
			continue
		}
		allStrSlices, holdsEvaluator := true, false
		for i := 0; i < st.NumFields(); i++ {
			ft := st.Field(i).Type()
			if typeStr(ft) != "[]string" {
				allStrSlices = false
			}
			if p, ok := ft.(*types.Pointer); ok && p.Elem() == types.Type(r.evaluator) {
				holdsEvaluator = true
			}
		}
		if holdsEvaluator {
			if r.scope != nil {
				failf("two structs hold a pointer to the evaluator: %s and %s", r.scope.Obj().Name(), name)
			}
			r.scope = n
		}
		if allStrSlices && !tn.Exported() {
			if r.stack != nil {
				failf("two candidate chain structs: %s and %s", r.stack.Obj().Name(), name)
			}
			r.stack = n
		}
	}
	if r.scope == nil {
		failf("cannot identify the per-call scope struct (the one holding a pointer to the evaluator)")
	}
	if r.stack == nil {
		failf("cannot identify the struct holding the chains of keys being evaluated")
	}
	// shared types: the evaluator, the data model roots, and every module type reachable from them
	var add func(t types.Type)
	add = func(t types.Type) {
		switch u := t.(type) {
		case *types.Named:
			if u.Obj().Pkg() == nil || !inModule(u.Obj().Pkg()) {
				return
			}
			if r.shared[u] {
				return
			}
			r.shared[u] = true
			add(u.Underlying())
		case *types.Pointer:
			add(u.Elem())
		case *types.Slice:
			add(u.Elem())
		case *types.Array:
			add(u.Elem())
		case *types.Map:
			add(u.Key())
			add(u.Elem())
		case *types.Struct:
			for i := 0; i < u.NumFields(); i++ {
				add(u.Field(i).Type())
			}
		}
	}
	add(r.evaluator)
	for _, root := range []string{"FeatureFlag", "Segment"} {
		tn, ok := w.model.Types.Scope().Lookup(root).(*types.TypeName)
		if !ok {
			failf("ldmodel.%s not found", root)
		}
		add(tn.Type())
	}
	if r.shared[r.scope] || r.shared[r.stack] {
		failf("the per-call scope or stack is reachable from shared data")
	}
	w.rolesCache = r
	return r
}

// roleType renders a type with the three role structs replaced by their role names.
func (r *roles) roleType(t types.Type) string {
	s := typeStr(t)
	for _, p := range []struct {
		n    *types.Named
		role string
	}{{r.evaluator, "‹evaluator›"}, {r.scope, "‹scope›"}, {r.stack, "‹stack›"}} {
		s = strings.ReplaceAll(s, p.n.Obj().Pkg().Name()+"."+p.n.Obj().Name(), p.role)
	}
	return s
}

func (r *roles) roleOf(n *types.Named) string {
	switch n {
	case r.evaluator:
		return "‹evaluator›"
	case r.scope:
		return "‹scope›"
	case r.stack:
		return "‹stack›"
	}
	if n.Obj().Exported() {
		return n.Obj().Pkg().Name() + "." + n.Obj().Name()
	}
	return "‹local object›"
}

// ---------- reachability ----------

// reachableFromEvaluate: module functions reachable from (*‹evaluator›).Evaluate in the CHA call
// graph (static calls, plus every module method that could be the target of an interface call or
// of a call through a function value).
func (w *world) reachableFromEvaluate() []*ssa.Function {
	if w.reachCache != nil {
		return w.reachCache
	}
	r := w.findRoles()
	root := w.method(w.root.PkgPath, r.evaluator.Obj().Name(), "Evaluate")
	if root == nil {
		failf("method Evaluate of the evaluator struct not found")
	}
	cg := cha.CallGraph(w.prog)
	seen := map[*ssa.Function]bool{}
	var visit func(f *ssa.Function)
	visit = func(f *ssa.Function) {
		if seen[f] {
			return
		}
		seen[f] = true
		for _, an := range f.AnonFuncs {
			visit(an)
		}
		node := cg.Nodes[f]
		if node == nil {
			return
		}
		for _, e := range node.Out {
			callee := e.Callee.Func
			switch {
			case callee.Pkg != nil && inModule(callee.Pkg.Pkg):
				visit(callee)
			case callee.Pkg == nil && callee.Synthetic != "":
				// wrappers / bound methods / instantiations of module functions
				if o := callee.Origin(); o != nil && o.Pkg != nil && inModule(o.Pkg.Pkg) {
					visit(callee)
				} else if callee.Object() != nil && inModule(callee.Object().Pkg()) {
					visit(callee)
				}
			}
		}
	}
	visit(root)
	res := []*ssa.Function{}
	for f := range seen {
		res = append(res, f)
	}
	sort.Slice(res, func(i, j int) bool { return res[i].String() < res[j].String() })
	w.reachCache = res
	return res
}

// ---------- where a write goes ----------

type target struct {
	local      bool           // memory allocated by the writing function itself
	containers []*types.Named // named struct types on the access path, outermost first
	fieldType  types.Type     // type of the innermost field on the path (nil if none)
	global     string         // package-level variable at the root, if any
	root       string         // description of the root when it is not a struct path
}

func structNamed(t types.Type) *types.Named {
	if p, ok := t.Underlying().(*types.Pointer); ok {
		t = p.Elem()
	}
	n, _ := t.(*types.Named)
	return n
}

func fieldOf(t types.Type, i int) *types.Var {
	if p, ok := t.Underlying().(*types.Pointer); ok {
		t = p.Elem()
	}
	if st, ok := t.Underlying().(*types.Struct); ok && i < st.NumFields() {
		return st.Field(i)
	}
	return nil
}

// callCtx: while the trace is inside a callee (following what a call returns), the values the
// caller passed for the callee's parameters.
type callCtx struct {
	fn     *ssa.Function
	args   []ssa.Value
	parent *callCtx
}

func (c *callCtx) inside(f *ssa.Function) bool {
	for x := c; x != nil; x = x.parent {
		if x.fn == f {
			return true
		}
	}
	return false
}

func mergeTargets(xs []target) target {
	res := target{local: true}
	for _, x := range xs {
		res.local = res.local && x.local
		res.containers = append(res.containers, x.containers...)
		if x.fieldType != nil {
			res.fieldType = x.fieldType
		}
		if x.global != "" {
			res.global = x.global
		}
		if x.root != "" {
			res.root = x.root
		}
	}
	return res
}

// traceResult: where the idx-th result of a call to a function of the module comes from — every
// return statement of the callee is followed, and the callee's parameters stand for the caller's
// arguments (a helper that returns a slice of its receiver's buffer, or a freshly made one).
func traceResult(call *ssa.Call, idx int, depth int, ctx *callCtx) (target, bool) {
	callee := call.Call.StaticCallee()
	if callee == nil || len(callee.Blocks) == 0 || ctx.inside(callee) || depth > 30 {
		return target{}, false
	}
	inner := &callCtx{fn: callee, args: call.Call.Args, parent: ctx}
	outs := []target{}
	for _, b := range callee.Blocks {
		for _, ins := range b.Instrs {
			if r, ok := ins.(*ssa.Return); ok && idx < len(r.Results) {
				outs = append(outs, traceIn(r.Results[idx], depth+1, inner))
			}
		}
	}
	if len(outs) == 0 {
		return target{}, false
	}
	return mergeTargets(outs), true
}

// trace walks an address, slice or map value back to where it comes from.
func trace(v ssa.Value, depth int) target { return traceIn(v, depth, nil) }

func traceIn(v ssa.Value, depth int, ctx *callCtx) target {
	if depth > 40 {
		return target{root: "<deep>"}
	}
	switch t := v.(type) {
	case *ssa.Alloc, *ssa.MakeSlice, *ssa.MakeMap, *ssa.MakeChan, *ssa.MakeClosure, *ssa.MakeInterface:
		return target{local: true}
	case *ssa.Const:
		return target{local: true}
	case *ssa.FieldAddr:
		tg := traceIn(t.X, depth+1, ctx)
		if n := structNamed(t.X.Type()); n != nil {
			tg.containers = append(tg.containers, n)
		}
		if f := fieldOf(t.X.Type(), t.Field); f != nil && tg.fieldTypeFrozen() {
			tg.fieldType = f.Type()
		}
		return tg
	case *ssa.Field:
		tg := traceIn(t.X, depth+1, ctx)
		if n, ok := t.X.Type().(*types.Named); ok {
			tg.containers = append(tg.containers, n)
		}
		if st, ok := t.X.Type().Underlying().(*types.Struct); ok && t.Field < st.NumFields() {
			tg.fieldType = st.Field(t.Field).Type()
		}
		return tg
	case *ssa.IndexAddr:
		return traceIn(t.X, depth+1, ctx)
	case *ssa.Slice:
		return traceIn(t.X, depth+1, ctx)
	case *ssa.UnOp:
		if t.Op == token.MUL {
			// a pointer / slice / map loaded from memory: what it refers to is not the function's
			// own even if the variable holding it is
			tg := traceIn(t.X, depth+1, ctx)
			tg.local = false
			if len(tg.containers) == 0 && tg.global == "" && tg.root == "" {
				tg.root = "value loaded from a local variable of type " + typeStr(t.Type())
			}
			return tg
		}
		return traceIn(t.X, depth+1, ctx)
	case *ssa.Parameter:
		if ctx != nil && ctx.fn == t.Parent() {
			for i, p := range ctx.fn.Params {
				if p == t && i < len(ctx.args) {
					return traceIn(ctx.args[i], depth+1, ctx.parent)
				}
			}
		}
		tg := target{}
		if n := derefNamed(t.Type()); n != nil {
			if _, isStruct := n.Underlying().(*types.Struct); isStruct {
				tg.containers = []*types.Named{n}
				return tg
			}
		}
		tg.root = "parameter of type " + typeStr(t.Type())
		return tg
	case *ssa.FreeVar:
		tg := target{}
		if n := derefNamed(t.Type()); n != nil {
			tg.containers = []*types.Named{n}
			return tg
		}
		tg.root = "captured variable of type " + typeStr(t.Type())
		return tg
	case *ssa.Global:
		return target{global: t.Pkg.Pkg.Name() + "." + t.Name()}
	case *ssa.Phi:
		res := target{local: true}
		for _, e := range t.Edges {
			if e == ssa.Value(t) {
				continue
			}
			x := traceIn(e, depth+1, ctx)
			res.local = res.local && x.local
			res.containers = append(res.containers, x.containers...)
			if x.fieldType != nil {
				res.fieldType = x.fieldType
			}
			if x.global != "" {
				res.global = x.global
			}
			if x.root != "" {
				res.root = x.root
			}
		}
		return res
	case *ssa.Call:
		if b, ok := t.Call.Value.(*ssa.Builtin); ok && b.Name() == "append" {
			return traceIn(t.Call.Args[0], depth+1, ctx)
		}
		if tg, ok := traceResult(t, 0, depth, ctx); ok {
			return tg
		}
		tg := target{}
		if n := derefNamed(t.Type()); n != nil {
			tg.containers = []*types.Named{n}
			return tg
		}
		tg.root = "result of a call, of type " + typeStr(t.Type())
		return tg
	case *ssa.Extract:
		if c, ok := t.Tuple.(*ssa.Call); ok {
			if tg, ok := traceResult(c, t.Index, depth, ctx); ok {
				return tg
			}
		}
		return target{root: "result of a call, of type " + typeStr(t.Type())}
	case *ssa.ChangeType:
		return traceIn(t.X, depth+1, ctx)
	case *ssa.Convert:
		return traceIn(t.X, depth+1, ctx)
	case *ssa.Lookup:
		return traceIn(t.X, depth+1, ctx)
	case *ssa.TypeAssert:
		tg := target{}
		if n := derefNamed(t.Type()); n != nil {
			tg.containers = []*types.Named{n}
			return tg
		}
		tg.root = "type assertion to " + typeStr(t.Type())
		return tg
	}
	return target{root: fmt.Sprintf("<%T>", v)}
}

func (t *target) fieldTypeFrozen() bool { return true }

type write struct {
	op string
	tg target
}

// writesOf lists the writes of one function that do not go into memory it allocated itself.
func writesOf(f *ssa.Function) []write {
	res := []write{}
	add := func(op string, v ssa.Value) {
		if tg := trace(v, 0); !tg.local {
			res = append(res, write{op, tg})
		}
	}
	for _, b := range f.Blocks {
		for _, ins := range b.Instrs {
			switch t := ins.(type) {
			case *ssa.Store:
				add("store", t.Addr)
			case *ssa.MapUpdate:
				add("map update", t.Map)
			case *ssa.Send:
				res = append(res, write{"channel send", target{root: "channel"}})
			case *ssa.Go:
				res = append(res, write{"go statement", target{root: "goroutine"}})
			case ssa.CallInstruction:
				if bi, ok := t.Common().Value.(*ssa.Builtin); ok {
					switch bi.Name() {
					case "append":
						if c, isConst := t.Common().Args[0].(*ssa.Const); !isConst || !c.IsNil() {
							add("append", t.Common().Args[0])
						}
					case "copy", "delete", "clear":
						add(bi.Name(), t.Common().Args[0])
					}
				}
			}
		}
	}
	return res
}

// classify: shared=true when the write may reach memory visible to other evaluations.
func (r *roles) classify(wr write) (shared bool, desc string) {
	tg := wr.tg
	if tg.global != "" {
		return true, wr.op + " package variable " + tg.global
	}
	for _, n := range tg.containers {
		if r.shared[n] {
			ft := ""
			if tg.fieldType != nil {
				ft = " (field of type " + r.roleType(tg.fieldType) + ")"
			}
			return true, wr.op + " into " + r.roleOf(n) + ft
		}
	}
	if len(tg.containers) == 0 {
		return true, wr.op + " through " + tg.root
	}
	inner := tg.containers[len(tg.containers)-1]
	ft := "?"
	if tg.fieldType != nil {
		ft = r.roleType(tg.fieldType)
	}
	// the per-evaluation state proper (anything reached through the ‹scope› or the ‹stack›) is named
	// by that role; everything else is a scratch object of some function
	for _, n := range tg.containers {
		if n == r.scope || n == r.stack {
			return false, wr.op + " " + r.roleOf(n) + " field of type " + ft
		}
	}
	return false, "scratch: " + wr.op + " " + r.roleOf(inner) + " field of type " + ft
}

func structFieldTypes(r *roles, n *types.Named) []string {
	st := n.Underlying().(*types.Struct)
	res := []string{}
	for i := 0; i < st.NumFields(); i++ {
		res = append(res, r.roleType(st.Field(i).Type()))
	}
	sort.Strings(res)
	return res
}

func emitState(w *world, o *out) {
	var r *roles
	o.guard("evaluatorFieldTypes", listFallback("evaluatorFieldTypes")+"\n"+listFallback("scopeFieldTypes")+"\n"+listFallback("stackFieldTypes"), func() {
		r = w.findRoles()
		o.w("def evaluatorFieldTypes : List String := %s\n", leanStrList(structFieldTypes(r, r.evaluator)))
		o.w("def scopeFieldTypes : List String := %s\n", leanStrList(structFieldTypes(r, r.scope)))
		o.w("def stackFieldTypes : List String := %s\n", leanStrList(structFieldTypes(r, r.stack)))
	})
	o.guard("stackPassing", listFallback("stackPassing"), func() {
		// every way a function of the evaluation package receives, returns or stores the chains
		r = w.findRoles()
		name := r.stack.Obj().Pkg().Name() + "." + r.stack.Obj().Name()
		kinds := []string{}
		for obj := range w.decls {
			if obj.Pkg() != w.root.Types {
				continue
			}
			sig := obj.Type().(*types.Signature)
			for _, tu := range []*types.Tuple{sig.Params(), sig.Results()} {
				for i := 0; i < tu.Len(); i++ {
					if s := typeStr(tu.At(i).Type()); strings.Contains(s, name) {
						kinds = append(kinds, "parameter or result of type "+r.roleType(tu.At(i).Type()))
					}
				}
			}
			if rc := sig.Recv(); rc != nil && strings.Contains(typeStr(rc.Type()), name) {
				kinds = append(kinds, "receiver of type "+r.roleType(rc.Type()))
			}
		}
		for _, tn := range w.root.Types.Scope().Names() {
			t, ok := w.root.Types.Scope().Lookup(tn).(*types.TypeName)
			if !ok {
				continue
			}
			if st, ok := t.Type().Underlying().(*types.Struct); ok {
				for i := 0; i < st.NumFields(); i++ {
					if strings.Contains(typeStr(st.Field(i).Type()), name) {
						kinds = append(kinds, "struct field of type "+r.roleType(st.Field(i).Type()))
					}
				}
			}
		}
		o.w("def stackPassing : List String := %s\n", leanStrList(sortedSet(kinds)))
	})
	o.guard("evalSharedWrites", listFallback("evalSharedWrites")+"\n"+listFallback("evalPrivateWrites")+"\n"+listFallback("evalScratchWrites"), func() {
		r = w.findRoles()
		sharedW, privW := []string{}, []string{}
		for _, f := range w.reachableFromEvaluate() {
			for _, wr := range writesOf(f) {
				if sh, d := r.classify(wr); sh {
					sharedW = append(sharedW, d)
				} else {
					privW = append(privW, d)
				}
			}
		}
		stateW, scratchW := []string{}, []string{}
		for _, d := range privW {
			if strings.HasPrefix(d, "scratch: ") {
				scratchW = append(scratchW, strings.TrimPrefix(d, "scratch: "))
			} else {
				stateW = append(stateW, d)
			}
		}
		o.w("def evalSharedWrites : List String := %s\n", leanStrListLines(sortedSet(sharedW)))
		o.w("def evalPrivateWrites : List String := %s\n", leanStrListLines(sortedSet(stateW)))
		o.w("def evalScratchWrites : List String := %s\n", leanStrListLines(sortedSet(scratchW)))
	})
	o.guard("evalDynamicCalls", listFallback("evalDynamicCalls"), func() {
		r = w.findRoles()
		calls := []string{}
		for _, f := range w.reachableFromEvaluate() {
			for _, b := range f.Blocks {
				for _, ins := range b.Instrs {
					ci, ok := ins.(ssa.CallInstruction)
					if !ok {
						continue
					}
					c := ci.Common()
					if c.IsInvoke() {
						iface := "‹unexported interface›"
						if n, ok := c.Value.Type().(*types.Named); ok && (n.Obj().Exported() || !inModule(n.Obj().Pkg())) {
							iface = typeStr(n)
						}
						sig := c.Method.Type().(*types.Signature)
						calls = append(calls, "invoke "+iface+"."+methodLabel(c.Method, sig))
						continue
					}
					if c.StaticCallee() != nil {
						continue
					}
					if _, isBuiltin := c.Value.(*ssa.Builtin); isBuiltin {
						continue
					}
					// a call through a function value: report it when its type is a named function
					// type (part of the API) or when it is loaded from a struct field or a global
					if n, ok := c.Value.Type().(*types.Named); ok {
						calls = append(calls, "call "+typeStr(n))
					} else if tg := trace(c.Value, 0); !tg.local && (len(tg.containers) > 0 && tg.fieldType != nil || tg.global != "") {
						calls = append(calls, "call function value held in a field or package variable, of type "+typeStr(c.Value.Type()))
					}
				}
			}
		}
		o.w("def evalDynamicCalls : List String := %s\n", leanStrListLines(sortedSet(calls)))
	})
	o.guard("evaluatorWrites", listFallback("evaluatorWrites")+"\n"+listFallback("globalWrites"), func() {
		r = w.findRoles()
		optionIface, _ := w.root.Types.Scope().Lookup("EvaluatorOption").(*types.TypeName)
		evW, glW := []string{}, []string{}
		for _, pkg := range []string{w.root.PkgPath, w.model.PkgPath, w.internal.PkgPath} {
			for _, f := range w.moduleFunctions(pkg) {
				if f.Synthetic != "" {
					continue
				}
				who := f.Pkg.Pkg.Name() + "." + calleeNameShort(f)
				if !ast_IsExportedFunc(f) {
					who = f.Pkg.Pkg.Name() + ".‹unexported function›"
				}
				if rc := f.Signature.Recv(); rc != nil && optionIface != nil {
					if it, ok := optionIface.Type().Underlying().(*types.Interface); ok && types.Implements(rc.Type(), it) {
						// the interface's own (unexported, single) method is named by role, any other
						// method of an implementation by name
						who = "method " + f.Name() + " of an EvaluatorOption implementation"
						for i := 0; i < it.NumMethods(); i++ {
							if it.Method(i).Name() == f.Name() {
								who = "the EvaluatorOption method of an implementation"
							}
						}
					}
				}
				for _, wr := range writesOf(f) {
					if wr.tg.global != "" {
						glW = append(glW, who+": "+wr.op+" "+wr.tg.global)
						continue
					}
					for _, n := range wr.tg.containers {
						if n == r.evaluator {
							ft := "?"
							if wr.tg.fieldType != nil {
								ft = r.roleType(wr.tg.fieldType)
							}
							evW = append(evW, who+": "+wr.op+" field of type "+ft)
						}
					}
				}
			}
		}
		o.w("def evaluatorWrites : List String := %s\n", leanStrListLines(sortedSet(evW)))
		o.w("def globalWrites : List String := %s\n", leanStrListLines(sortedSet(glW)))
	})
}

func methodLabel(m *types.Func, sig *types.Signature) string {
	if m.Exported() {
		return m.Name()
	}
	return "‹unexported method› " + types.TypeString(sig, func(p *types.Package) string { return p.Name() })
}

func ast_IsExportedFunc(f *ssa.Function) bool {
	if f.Signature.Recv() != nil {
		n := derefNamed(f.Signature.Recv().Type())
		return n != nil && n.Obj().Exported() && token.IsExported(f.Name())
	}
	return token.IsExported(f.Name()) && f.Parent() == nil
}

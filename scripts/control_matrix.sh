#!/bin/bash
# control_matrix.sh: runs every check against every stored behaviour-preserving refactoring
# (controls/H*/patch.diff) in parallel sandboxes; every line must be rc=0. Exit 1 otherwise.
set -u
cd /verif
jobs=$(mktemp /tmp/ctljobs.XXXXXX)
for d in controls/*/; do
  id=$(basename "$d")
  for p in $(python3 -c "import json;print(' '.join(c['property_id'] for c in json.load(open('MANIFEST.json'))['checks']))"); do
    echo "$id /verif/$d/patch.diff $p" >> "$jobs"
  done
done
export PAR_OUT=/tmp/vpar-controls; rm -rf "$PAR_OUT"
python3 scripts/par_run.py -j "${PAR_J:-7}" "$jobs" | sort > /tmp/control-matrix.txt
rm -f "$jobs"
bad=$(grep -vc 'rc=0' /tmp/control-matrix.txt)
echo "controls: $(wc -l < /tmp/control-matrix.txt) runs, $bad alarms"
grep -v 'rc=0' /tmp/control-matrix.txt | cut -c1-240
[ "$bad" -eq 0 ]

#!/bin/bash
# sweep.sh <seed>...: runs every claimed check for each seed on the current tree; evidence files are
# restored afterwards (they belong to the registered seed-1 runs).
cd "$(dirname "$0")/.."
cp -r evidence work/evidence.keep
for seed in "$@"; do
  for p in $(python3 -c "import json;print(' '.join(c['property_id'] for c in json.load(open('MANIFEST.json'))['checks']))"); do
    out=$(VERIF_SEED=$seed ./check $p 2>&1); rc=$?
    echo "seed=$seed $p rc=$rc $(echo "$out" | grep -E '^OK|^VIOLATION|HARNESS-ERROR' | head -2 | tr '\n' ' ')"
  done
done
rm -rf evidence; mv work/evidence.keep evidence

#!/bin/bash
# confirm_seed.sh <out-dir> <demo-package-dir> [extra go test flags]: confirms a seeded change in a
# fresh scratch worktree: builds, existing suite unchanged, demo fails with it and passes without.
set -u
out="$1"; pkg="$2"; shift 2
export GOFLAGS=-mod=mod GOPROXY=off GOSUMDB=off GOTOOLCHAIN=local
wt=$(mktemp -d /tmp/confirm-XXXX); rmdir $wt
git -C /repo worktree add -q --detach $wt HEAD || exit 2
trap 'git -C /repo worktree remove --force '$wt' 2>/dev/null; rm -rf '$wt EXIT
cd $wt
git apply "$out/patch.diff" || { echo "RESULT patch-does-not-apply"; exit 1; }
go build ./... && go build -tags verif ./... && go vet ./... >/dev/null 2>&1 || { echo "RESULT build-or-vet-fails"; exit 1; }
fails=$(go test -count=1 -json ./... 2>/dev/null | python3 -c "
import sys,json
f=set()
for l in sys.stdin:
    try: e=json.loads(l)
    except: continue
    if e.get('Test') and e['Action']=='fail': f.add(e['Test'])
print(' '.join(sorted(f)))")
echo "suite failures with patch: [$fails]"
cp "$out"/demo_test.go $pkg/zz_demo_test.go
go test -count=1 "$@" -run 'Demo' ./$pkg > /tmp/confirm-with.log 2>&1; with=$?
git apply -R "$out/patch.diff"
go test -count=1 "$@" -run 'Demo' ./$pkg > /tmp/confirm-without.log 2>&1; without=$?
echo "demo with patch: exit $with ; without patch: exit $without"
exp="TestParseRFC3339TimeUTC TestParseRFC3339TimeUTC/input_string:_[2020-06-09T18:53:52+99:00],_valid:_true"
if [ "$fails" == "$exp" ] && [ $with -ne 0 ] && [ $without -eq 0 ]; then echo "RESULT confirmed"; else echo "RESULT NOT-confirmed"; tail -5 /tmp/confirm-with.log; tail -5 /tmp/confirm-without.log; fi

"""Per-property metadata for ./check: obligation modules, trusted base, assumptions, partial parts."""

TRUSTED_BASE = [
    "Lean 4.33.0 kernel (thorough tier: re-checked by leanchecker); axioms per theorem audited with #print axioms, required to be a subset of {propext, Classical.choice, Quot.sound}; no sorry/admit/native_decide/bv_decide/axioms of ours",
    "the tie: Go harness (generators, dumps, canonicalisation, differ), factgen (go/packages + go/types + x/tools go/ssa and its CHA call graph: fact extractor whose output the obligation modules compare with the tables the model is written against) and the Lean driver's case reader are testing machinery; theorems are about the model, the correspondence run is differential evidence that model = code on the cases it ran, the obligations are structural evidence about all code reachable from Evaluate (calls into other modules are listed, not analysed)",
    "modelled, not verified: go-sdk-common (ldcontext lookup, ldattr.Ref constructors, ldvalue type tests/equality, ldreason constructors), go-semver, Go slices as immutable lists, float32 hardware arithmetic as round-to-nearest-even without overflow/subnormals, amd64 float->int conversion, time.Date/Add/Before/After/UnixMilli as integer arithmetic, strconv.AppendInt, crypto/sha1 as the Lean SHA-1 (tested against Go on every bucketing case, not proved to be FIPS 180-4)",
    "oracle: Go's regexp (RE2) supplies match results to the model",
]

COMMON_ASSUMPTIONS = [
    "DataProvider is a function of the key within one call and may answer any lookup with any item (an item whose own Key differs from the lookup key is allowed and generated) or nil; BigSegmentProvider is a pure function of the key within one call; its status is an arbitrary string (the four constants, anything else, or empty — all modelled and generated)",
    "inputs are valid UTF-8 strings and finite numbers; unparsed ldvalue.Raw values hold valid JSON text (they are modelled and generated in context attributes)",
]

PROPS = {
    "C01": {"obligations": ["Errors", "WriteSet"],
            "claim": "Proof (Lean 4): for every flag, context and store the model terminates (fuel never exhausted), every result satisfies the well-formedness trichotomy, error kinds are only MALFORMED_FLAG / USER_NOT_SPECIFIED, an invalid context consults nothing. Tied to /repo by the differential correspondence (panic/crash isolation, WellFormed evaluated on Go's own results) and the error-table obligation."},
    "C02": {"obligations": ["WriteSet"],
            "claim": "Proof (Lean 4): the stateless spec decides by the first applicable stage (off, first unmet prerequisite, first matching target, first matching rule with its index and id, fallthrough); fixed variation ignores the rollout; the code-shaped model refines the spec (Refine.lean). Tied by correspondence on value/index/reason kind/rule index+id/prerequisite key."},
    "C03": {"obligations": ["WriteSet"],
            "claim": "Proof (Lean 4): target matching is exact key membership for the list's kind, first match in listed order, legacy-only vs context-target iteration with the keyless-user fallback, lookup tables transparent. Tied by correspondence on TARGET_MATCH and index over both flag forms."},
    "C04": {"obligations": ["Operators", "WriteSet"],
            "claim": "Proof (Lean 4): a clause matches iff the context of its kind has the attribute and some (value-or-element, clause value) pair satisfies the typed operator table `Sat`; negation only when the attribute exists; kind clauses; undefined/invalid references are errors of kind MALFORMED_FLAG. RE2 via an oracle filled from Go's regexp. Tied by operator-probe correspondence and the operator-table obligation."},
    "C05": {"obligations": ["WriteSet"],
            "claim": "Proof (Lean 4): regular segment membership = included, else not excluded and first matching rule with the weight threshold (missing rollout kind: no match); segment-match clause = any-of over existing segments with negation (under the data-model hypothesis of the property text for the per-kind lists). Tied by segment-stream correspondence."},
    "C06": {"obligations": ["Consts", "WriteSet"],
            "claim": "Proof (Lean 4): hash-input layout byte-exact as concatenation for every buffer capacity, 15 hex digits without wrap-around, bucket = float32(v)/2^60 in [0,1], zero/err cases, experiments bucket by key. SHA-1 itself is tested against crypto/sha1 on every case (not proved FIPS). Tied by bit-exact unit correspondence (hook) and public-API rollouts."},
    "C07": {"obligations": ["Consts", "WriteSet"],
            "claim": "Proof (Lean 4): the scan returns the first bucket whose single-precision cumulative threshold exceeds b, else the last; always a listed variation; a zero-weight bucket is never chosen by the scan; growing a bucket never moves a context out of it; same for weighted segment rules. Rests on proved monotonicity/idempotence of float32 rounding (soft-float over rationals). Tied by boundary-placed rollouts."},
    "C08": {"obligations": ["WriteSet"],
            "claim": "Proof (Lean 4): inExperiment iff experiment rollout, chosen bucket tracked, context has the kind — on both exits of the selection; IsExperiment iff inExperiment or legacy tracking flags; false for off/target/prerequisite-failed/error. Tied by correspondence on the experiment bits of results and events. A defect on the fallback exit was repaired (fix: b6345ab)."},
    "C09": {"obligations": ["WriteSet"],
            "claim": "Proof (Lean 4): one-step characterisation of the prerequisite loop (met iff exists, on, exact variation), laziness, one event per completed nested evaluation in post-order, error details recorded, every recorded result equals the standalone evaluation of that flag (chain weakening + fuel monotonicity). Tied by correspondence on events, lookups and result."},
    "C10": {"obligations": ["Stack", "WriteSet"],
            "claim": "Proof (Lean 4): termination for every reference graph (pigeonhole on duplicate-free chains), re-entry aborts as MALFORMED_FLAG with no event for aborted frames, a cycle is reported only for a key on the current path (diamonds are not). Tied by graph-shape correspondence to depth 60 with crash/timeout isolation and the stack-by-value obligation."},
    "C11": {"obligations": ["Status", "WriteSet"],
            "claim": "Proof (Lean 4): big-segment membership by provider answer under <key>.g<generation>, missing kind / generation cases, status = worst seen and present only if queried or NOT_CONFIGURED, provider queried at most once per context key. Tied by correspondence on status, query and membership-check logs. A double query through prerequisites was repaired (fix: 68555c1)."},
    "C12": {"obligations": ["WriteSet", "Scratch"],
            "claim": "Proof (Lean 4, thin by design): the evaluator as a state machine returns its state unchanged, so any history answers like a fresh evaluator; the decision never depends on per-call state or on logger/recorder options. The content is the tie: histories against one real evaluator with changing stores compared with fresh evaluators, deep input snapshots, and the write-set obligation."},
    "C13": {"obligations": ["WriteSet", "Scratch"], "race": True, "partial": ["the Go memory model and scheduler are outside the model; a race not observed in the explored schedules is not exhibited"],
            "claim": "PARTIAL. Proof (Lean 4) over an abstract shared-memory trace model: read-only shared data implies no conflicting access and every interleaving gives each thread its sequential observations. Tied by the write-set obligation (no shared writes reachable from Evaluate) and by concurrent runs of the real code under the Go race detector compared with sequential baselines."},
    "C14": {"obligations": ["WriteSet"], "needs_hooks": True,
            "claim": "Proof (Lean 4): every precomputed table/operand is transparent (key sets, typed equality sets incl. mixed types, regex/timestamp/semver operands), hence whole evaluations agree (evaluate_transparent: full observation equality). Tied by running each configuration in four construction forms on the real code and comparing Preprocess* dumps with the model. A zero-time operand defect was repaired (fix: bd47c6e)."},
    "C15": {"obligations": ["CodecTables", "CodecModelTie"],
            "claim": "Proof (Lean 4) on JSON trees: reference write/read round trips (literal vs path by context kind), decoder-range round trip to a fixed point after one step up to dropped empty rollouts, which cannot influence evaluation. Tied by fixed-point/evaluation-equivalence/builders relations on the real codec and decoder-model correspondence. Open finding F5 (negative debugEventsUntilDate) is listed in KNOWN_FINDINGS.txt."},
    "C16": {"obligations": ["CodecTables", "CodecModelTie"], "easyjson": True,
            "claim": "Proof (Lean 4): for every flag/segment value the encoder's tree satisfies the wire-schema predicate (all legacy properties present and typed, lists always arrays). Tied by encoder-model correspondence, the schema predicate evaluated on Go's real output, byte/tree equality of the four encode and decode paths (easyjson build included) and the entry-point obligation. Byte-level JSON writing (go-jsonstream) is tested, not proved."},
    "C17": {"obligations": ["CodecTables", "CodecModelTie"],
            "claim": "Proof (Lean 4) on JSON trees: unknown members ignored, member order irrelevant, omitted = default, null = omission for exactly the listed positions, rollout variations null rejected. Tied by the same relations on the real decoder, decoder-model correspondence on corrupted/duplicated documents, and byte-level robustness runs (never panics, error => zero value, destination untouched). Tokenisation of arbitrary bytes is fuzzed, not proved."},
    "C18": {"obligations": [],
            "claim": "Proof (Lean 4): parse(render s) = the instant s denotes for every valid RFC 3339 stamp (years 0000-9999, offsets to ±99:59, 0-9 fraction digits, both cases), every proper prefix rejected, numeric milliseconds exact, before/after = strict order of instants, string and number forms interchangeable, calendar arithmetic validated for all years. Tied by exact (ns) unit correspondence at all three conversion sites. An overflow after 2262 was repaired (fix: b8e6147)."},
    "C19": {"obligations": ["Errors", "WriteSet"],
            "claim": "Proof (Lean 4): an error result with a logger configured always logged a MALFORMED_FLAG-class line naming the detecting flag; no logger, no lines; the logger option changes nothing else; a clean flag without prerequisites logs nothing; segments never log. Tied by correspondence on canonical log lines over malformations at every nesting position."},
    "C20": {"obligations": ["WriteSet"],
            "claim": "Proof (Lean 4): metadata never read, appended rules after the deciding one ignored, inserted dead rule only shifts the index, value/key/clause order irrelevant (all-of / any-of), unreferenced attributes and kinds invisible to lookups. Tied by seven perturbation relations evaluated oracle-free on the real code plus model agreement. Open finding F6 (clause order vs big-segment status) is listed in KNOWN_FINDINGS.txt."},
}

HOOK_COMMITS = ["000481e", "9f370c6"]

NOT_YET = {}

"""Per-property metadata for ./check: obligation modules, trusted base, assumptions, partial parts."""

TRUSTED_BASE = [
    "Lean 4.33.0 kernel (thorough tier: re-checked by leanchecker); axioms per theorem audited with #print axioms, required to be a subset of {propext, Classical.choice, Quot.sound}; no sorry/admit/native_decide/bv_decide/axioms of ours",
    "the tie: Go harness (generators, dumps, canonicalisation, differ), factgen (go/ast extractor) and the Lean driver's case reader are testing machinery; theorems are about the model, the correspondence run is differential evidence that model = code on the cases it ran",
    "modelled, not verified: go-sdk-common (ldcontext lookup, ldattr.Ref constructors, ldvalue type tests/equality, ldreason constructors), go-semver, Go slices as immutable lists, float32 hardware arithmetic as round-to-nearest-even without overflow/subnormals, amd64 float->int conversion, time.Date/Add/Before/After/UnixMilli as integer arithmetic, strconv.AppendInt, crypto/sha1 as the Lean SHA-1 (tested against Go on every bucketing case, not proved to be FIPS 180-4)",
    "oracle: Go's regexp (RE2) supplies match results to the model",
]

COMMON_ASSUMPTIONS = [
    "DataProvider returns, for a key, the item with that key or nil; BigSegmentProvider is a pure function of the key within one call and returns one of the four status constants",
    "inputs are valid UTF-8 strings and finite numbers; no raw (unparsed) ldvalue values",
]

PROPS = {
    "C01": {"obligations": []},
    "C02": {"obligations": []},
    "C03": {"obligations": []},
    "C04": {"obligations": []},
    "C05": {"obligations": []},
    "C06": {"obligations": []},
    "C07": {"obligations": []},
    "C08": {"obligations": []},
    "C09": {"obligations": []},
    "C10": {"obligations": []},
    "C11": {"obligations": []},
    "C19": {"obligations": []},
}

HOOK_COMMITS = ["000481e", "9f370c6"]

NOT_YET = {}

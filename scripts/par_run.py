#!/usr/bin/env python3
"""par_run.py [-j N] <jobs-file>   — development tool, not registered in MANIFEST.json.

Runs many checks in parallel, each in its own sandbox: a copy of /verif under /tmp/vpar-<pid>-<k>/verif
and a scratch git worktree of /repo under /tmp/vpar-<pid>-<k>/repo (so that two invocations do not
share sandboxes). /repo itself and /verif's evidence
are never touched. One job per line:

    <label> <patch-file or -> <property> [seed] [tier]

Prints one line per job (label, property, rc, first VIOLATION/OK line) and writes the full output
to <outdir>/<label>.<property>.log (outdir = $PAR_OUT or /tmp/vpar-out). Sandboxes and worktrees are
removed at the end.
"""
import os, queue, shutil, subprocess, sys, threading

def sh(cmd, **kw):
    return subprocess.run(cmd, shell=isinstance(cmd, str), stdout=subprocess.PIPE, stderr=subprocess.STDOUT, text=True, **kw)

def main():
    args = sys.argv[1:]
    n = 5
    if args and args[0] == "-j":
        n = int(args[1]); args = args[2:]
    jobs = []
    for line in open(args[0]):
        f = line.split()
        if not f or f[0].startswith("#"):
            continue
        jobs.append({"label": f[0], "patch": f[1], "prop": f[2], "seed": f[3] if len(f) > 3 else "1", "tier": f[4] if len(f) > 4 else "quick"})
    outdir = os.environ.get("PAR_OUT", "/tmp/vpar-out")
    os.makedirs(outdir, exist_ok=True)
    q = queue.Queue()
    for j in jobs:
        q.put(j)
    lock = threading.Lock()
    results = []

    def worker(k):
        base = "/tmp/vpar-%d-%d" % (os.getpid(), k)
        shutil.rmtree(base, ignore_errors=True)
        os.makedirs(base)
        sh(["rsync", "-a", "--exclude", ".git", "--exclude", "work", "--exclude", "replays", "--exclude", "seeded", "/verif/", base + "/verif/"])
        sh(["git", "-C", "/repo", "worktree", "add", "--detach", base + "/repo"])
        try:
            while True:
                try:
                    j = q.get_nowait()
                except queue.Empty:
                    break
                sh("git -C %s/repo checkout -q -- . && git -C %s/repo clean -fdq" % (base, base))
                note = ""
                if j["patch"] != "-":
                    r = sh(["git", "-C", base + "/repo", "apply", j["patch"]])
                    if r.returncode != 0:
                        note = "PATCH-DOES-NOT-APPLY " + r.stdout[:200]
                if note:
                    rc, out = 3, note
                else:
                    env = dict(os.environ, VERIF_REPO=base + "/repo", VERIF_SEED=j["seed"], VERIF_TIER=j["tier"])
                    r = sh([base + "/verif/check", j["prop"], "--tier", j["tier"]], env=env, cwd=base + "/verif")
                    rc, out = r.returncode, r.stdout
                open(os.path.join(outdir, "%s.%s.log" % (j["label"], j["prop"])), "w").write(out)
                first = ""
                for l in out.splitlines():
                    if l.startswith("VIOLATION") or l.startswith("HARNESS-ERROR"):
                        first = l; break
                if not first:
                    for l in out.splitlines():
                        if l.startswith("OK "):
                            first = l
                with lock:
                    results.append((j, rc))
                    print("%s %s seed=%s tier=%s rc=%d %s" % (j["label"], j["prop"], j["seed"], j["tier"], rc, first[:200]), flush=True)
        finally:
            sh(["git", "-C", "/repo", "worktree", "remove", "--force", base + "/repo"])
            shutil.rmtree(base, ignore_errors=True)

    ts = [threading.Thread(target=worker, args=(k,)) for k in range(min(n, len(jobs)))]
    for t in ts: t.start()
    for t in ts: t.join()
    sh(["git", "-C", "/repo", "worktree", "prune"])

if __name__ == "__main__":
    main()

#!/bin/bash
# Runs every claimed check once (quick tier) and prints a one-line summary per property.
cd "$(dirname "$0")/.."
for p in $(python3 -c "import json;print(' '.join(c['property_id'] for c in json.load(open('MANIFEST.json'))['checks']))"); do
  out=$(./check $p "$@" 2>&1); rc=$?
  echo "$p rc=$rc $(echo "$out" | grep -E '^OK|^VIOLATION|^KNOWN-FINDING|HARNESS-ERROR' | head -3 | tr '\n' ' ')"
done

#!/usr/bin/env python3
"""Regenerates /verif/MANIFEST.json from scripts/propmeta.py and properties.jsonl."""
import json, os, sys
ROOT = os.path.dirname(os.path.dirname(os.path.abspath(__file__)))
sys.path.insert(0, os.path.join(ROOT, "scripts"))
import propmeta

props = [json.loads(l) for l in open(os.path.join(ROOT, "properties.jsonl"))]
checks = []
na = []
for p in props:
    pid = p["id"]
    m = propmeta.PROPS.get(pid)
    thm_file = os.path.join(ROOT, "lean", "LDEval", "Properties", pid + ".lean")
    if m is not None and not os.path.exists(thm_file):
        m = dict(m, unclaimed="theorems for this property are not stated yet in lean/LDEval/Properties (correspondence exists); see DESIGN.md section 7")
    if m is None or m.get("unclaimed"):
        na.append({"property_id": pid, "reason": (m or {}).get("unclaimed") or propmeta.NOT_YET.get(pid, "check under construction; see DESIGN.md section 7")})
        continue
    checks.append({
        "property_id": pid,
        "quick_cmd": "./check %s" % pid,
        "thorough_cmd": "./check %s --tier thorough" % pid,
        "evidence_file": "/verif/evidence/%s.json" % pid,
        "replay_cmd_template": "./check %s --replay {path}" % pid,
        "engine": "lean-model+correspondence",
        "level_claimed": {
            "category": "proof",
            "text": m.get("claim", "Lean 4 theorems about the formal model (all inputs, unbounded), tied to /repo by the differential correspondence check and regenerated-fact obligations"),
            "design_ref": "DESIGN.md section 7 (%s)" % pid,
        },
        "level_note": m.get("note", "Theorems are about the hand-written Lean model; model = code is differential evidence on the generated cases plus facts extracted from the type-checked SSA form of the sources and proved equal to the model's tables. Trusted: Lean kernel, standard axioms, harness/factgen/driver, modelled external libraries (see evidence trusted_base)."),
        "technique": m.get("technique", "Lean 4 proof over a model + differential correspondence"),
    })
manifest = {
    "version": 1,
    "setup_cmd": "./setup.sh",
    "hooks": {
        "guard": "verif",
        "enable": "go build -tags verif (harness module /verif/harness with `replace github.com/launchdarkly/go-server-sdk-evaluation/v3 => /repo`)",
        "baseline_off_cmd": "cd /repo && GOFLAGS=-mod=mod GOPROXY=off GOSUMDB=off GOTOOLCHAIN=local go test -vet=off -count=1 ./...",
        "source_commits": propmeta.HOOK_COMMITS,
        "add_only": True,
    },
    "engines": [{
        "name": "lean-model+correspondence", "path": "/verif/lean",
        "serves_properties": [c["property_id"] for c in checks],
        "kind_free_text": "Lean 4 model (LDEval/Model), specs and theorems (LDEval/Spec, Proofs, Properties), obligations over facts regenerated from /repo by factgen; Go differential harness (/verif/harness) drives the real code and the compiled Lean driver on the same cases",
    }],
    "checks": checks,
    "not_applicable": na,
    "notes": "One check per claimed property: ./check <ID>. Fix commits in /repo are recorded in /verif/KNOWN_FINDINGS.txt.",
}
json.dump(manifest, open(os.path.join(ROOT, "MANIFEST.json"), "w"), indent=1)
print("claimed:", [c["property_id"] for c in checks], "not claimed:", [n["property_id"] for n in na])

#!/bin/bash
# try_seed.sh <patch.diff> <PROP> [<PROP>...]: applies a seeded change to /repo, runs the given
# checks, and restores /repo. Prints what each check reported.
set -u
patch="$1"; shift
cd /verif
git -C /repo diff --quiet || { echo "/repo is dirty"; exit 2; }
git -C /repo apply "$patch" || { echo "patch does not apply"; exit 2; }
trap 'git -C /repo checkout -- . ; git -C /repo clean -fdq -- . 2>/dev/null' EXIT
for p in "$@"; do
  out=$(./check $p 2>&1); rc=$?
  echo "== $p rc=$rc"
  echo "$out" | grep -E '^OK|^VIOLATION|^KNOWN-FINDING|HARNESS-ERROR|^  ' | cut -c1-260 | head -12
done

#!/bin/bash
# Build everything the checks need, offline: Lean library (model, spec, proofs, properties,
# obligations), compiled driver, Go harness and factgen.  Nothing is kept under /tmp.
set -e
cd "$(dirname "$0")/.."
export GOFLAGS=-mod=mod GOPROXY=off GOSUMDB=off GOTOOLCHAIN=local
mkdir -p bin work evidence replays
if [ -d factgen ]; then
  (cd factgen && go build -o ../bin/factgen . && ../bin/factgen -repo /repo -out ../lean/LDEval/Generated/Facts.lean)
fi
(cd lean && lake build)
cp /repo/go.sum harness/go.sum
(cd harness && CGO_ENABLED=0 go build -tags verif -o ../bin/harness .)
echo "setup ok"

#!/bin/bash
# seed_matrix.sh [<id-glob>]: runs every stored seeded change (seeded/<id>/patch.diff) against the
# check of the property it breaks — in parallel sandboxes (scripts/par_run.py), never in /repo —
# and records what the check reported in seeded/<id>/detection.txt. Prints one line per seed;
# exit 1 if any seed goes undetected.
set -u
cd /verif
glob="${1:-*}"
jobs=$(mktemp /tmp/seedjobs.XXXXXX)
for d in seeded/$glob/; do
  id=$(basename "$d"); prop=$(python3 -c "import json;print(json.load(open('$d/meta.json'))['breaks_property'])")
  echo "$id /verif/$d/patch.diff $prop" >> "$jobs"
done
export PAR_OUT=/tmp/vpar-seeds; rm -rf "$PAR_OUT"
python3 scripts/par_run.py -j "${PAR_J:-6}" "$jobs" | sort > /tmp/seed-matrix.txt
miss=0
while read -r id prop rest; do
  sed -e 's#/tmp/vpar-[0-9-]*/verif/#/verif/#g' "$PAR_OUT/$id.$prop.log" | grep -E '^OK|^VIOLATION|^KNOWN-FINDING|HARNESS-ERROR|^  ' | cut -c1-400 | head -14 > "seeded/$id/detection.txt"
  if grep -q '^VIOLATION' "seeded/$id/detection.txt"; then echo "$id $prop DETECTED $(grep -m1 -A1 '^VIOLATION' seeded/$id/detection.txt | tr '\n' ' ' | cut -c1-200)"; else echo "$id $prop MISSED"; miss=1; fi
done < /tmp/seed-matrix.txt
rm -rf "$jobs" "$PAR_OUT"
exit $miss

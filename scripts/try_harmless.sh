#!/bin/bash
# try_harmless.sh <patch.diff>: applies a behaviour-preserving refactoring to /repo, runs every
# check, restores /repo and the evidence files. Every check should stay quiet (exit 0); an
# obligation that breaks on a harmless rewrite shows up as "no-failing-input-found".
set -u
cd /verif
git -C /repo diff --quiet || { echo "/repo is dirty"; exit 2; }
git -C /repo apply "$1" || { echo "patch does not apply"; exit 2; }
rm -rf work/evidence.keep; cp -r evidence work/evidence.keep
trap 'git -C /repo checkout -- . ; git -C /repo clean -fdq -- . 2>/dev/null; rm -rf /verif/evidence; mv /verif/work/evidence.keep /verif/evidence' EXIT
./scripts/run_all.sh

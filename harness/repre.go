package main

// Construction form "repre": a value that was preprocessed while it held OTHER operands and keys
// (a clause copied from a built flag, a template that is filled in), then edited to the real ones
// and preprocessed again. Preprocessing recomputes every table from the values it finds, so the
// result is the same as preprocessing the real value once; an implementation that keeps a table
// it finds already filled in evaluates the stale operands.

import (
	"fmt"

	"github.com/launchdarkly/go-sdk-common/v3/ldvalue"
	"github.com/launchdarkly/go-server-sdk-evaluation/v3/ldmodel"
)

// decoyOperands: as many operands as the clause has, valid for its operator, different from them.
func decoyOperands(c *ldmodel.Clause) []ldvalue.Value {
	out := make([]ldvalue.Value, len(c.Values))
	for i := range out {
		switch c.Op {
		case ldmodel.OperatorBefore, ldmodel.OperatorAfter:
			out[i] = ldvalue.String(fmt.Sprintf("1999-01-0%dT00:00:00Z", 1+i%9))
		case ldmodel.OperatorSemVerEqual, ldmodel.OperatorSemVerLessThan, ldmodel.OperatorSemVerGreaterThan:
			out[i] = ldvalue.String(fmt.Sprintf("9.9.%d", i))
		case ldmodel.OperatorMatches:
			out[i] = ldvalue.String(fmt.Sprintf("^decoy-%d$", i))
		default:
			out[i] = ldvalue.String(fmt.Sprintf("decoy-%d", i))
		}
	}
	return out
}

func decoyKeys(n int) []string {
	if n == 0 {
		return nil
	}
	out := make([]string, n)
	for i := range out {
		out[i] = fmt.Sprintf("decoy-key-%d", i)
	}
	return out
}

func swapClauseOperands(cs []ldmodel.Clause, saved *[][]ldvalue.Value, restore bool) {
	for i := range cs {
		if restore {
			cs[i].Values = (*saved)[0]
			*saved = (*saved)[1:]
		} else {
			*saved = append(*saved, cs[i].Values)
			cs[i].Values = decoyOperands(&cs[i])
		}
	}
}

func rePreprocessFlag(f *ldmodel.FeatureFlag) {
	var ops [][]ldvalue.Value
	var keys [][]string
	for i := range f.Rules {
		swapClauseOperands(f.Rules[i].Clauses, &ops, false)
	}
	for _, ts := range [][]ldmodel.Target{f.Targets, f.ContextTargets} {
		for i := range ts {
			keys = append(keys, ts[i].Values)
			ts[i].Values = decoyKeys(len(ts[i].Values))
		}
	}
	ldmodel.PreprocessFlag(f)
	for i := range f.Rules {
		swapClauseOperands(f.Rules[i].Clauses, &ops, true)
	}
	for _, ts := range [][]ldmodel.Target{f.Targets, f.ContextTargets} {
		for i := range ts {
			ts[i].Values = keys[0]
			keys = keys[1:]
		}
	}
	ldmodel.PreprocessFlag(f)
}

func rePreprocessSegment(s *ldmodel.Segment) {
	var ops [][]ldvalue.Value
	for i := range s.Rules {
		swapClauseOperands(s.Rules[i].Clauses, &ops, false)
	}
	inc, exc := s.Included, s.Excluded
	s.Included, s.Excluded = decoyKeys(len(inc)), decoyKeys(len(exc))
	var keys [][]string
	for _, ts := range [][]ldmodel.SegmentTarget{s.IncludedContexts, s.ExcludedContexts} {
		for i := range ts {
			keys = append(keys, ts[i].Values)
			ts[i].Values = decoyKeys(len(ts[i].Values))
		}
	}
	ldmodel.PreprocessSegment(s)
	for i := range s.Rules {
		swapClauseOperands(s.Rules[i].Clauses, &ops, true)
	}
	s.Included, s.Excluded = inc, exc
	for _, ts := range [][]ldmodel.SegmentTarget{s.IncludedContexts, s.ExcludedContexts} {
		for i := range ts {
			ts[i].Values = keys[0]
			keys = keys[1:]
		}
	}
	ldmodel.PreprocessSegment(s)
}

// handForms: the construction forms that do not go through the builders.
var handForms = []string{"pre", "plain", "json", "repre", "partial"}

// Construction form "partial": an item of which only SOME clauses and key lists carry tables — a
// preprocessed flag that got a clause or a target list appended afterwards, a plain flag into which
// a clause of a built flag was copied. Every accessor decides per element whether a table is there.
func partialPreprocessFlag(f *ldmodel.FeatureFlag, w *WFlag) {
	h := hashStr("partial/" + w.Key + fmt.Sprint(len(w.Rules), len(w.Targets)))
	ldmodel.PreprocessFlag(f)
	pick := func(i, j int) bool { return hashStr(fmt.Sprint(h, i, j))&1 == 0 }
	for i := range f.Rules {
		for j := range f.Rules[i].Clauses {
			if pick(i, j) {
				f.Rules[i].Clauses[j] = w.Rules[i].Clauses[j].build() // the plain element
			}
		}
	}
	for i := range f.Targets {
		if pick(-1, i) {
			f.Targets[i] = buildTargets(w.Targets[i : i+1])[0]
		}
	}
	for i := range f.ContextTargets {
		if pick(-2, i) {
			f.ContextTargets[i] = buildTargets(w.CTargets[i : i+1])[0]
		}
	}
}

func partialPreprocessSegment(s *ldmodel.Segment, w *WSegment) {
	h := hashStr("partial/" + w.Key + fmt.Sprint(len(w.Rules), len(w.Inc)))
	pick := func(i, j int) bool { return hashStr(fmt.Sprint(h, i, j))&1 == 0 }
	if pick(-9, 0) {
		// the converse: a plain segment whose rules come from a preprocessed twin
		twin := *s
		twin.Rules = append([]ldmodel.SegmentRule{}, s.Rules...)
		for i := range twin.Rules {
			twin.Rules[i].Clauses = append([]ldmodel.Clause{}, s.Rules[i].Clauses...)
		}
		ldmodel.PreprocessSegment(&twin)
		for i := range s.Rules {
			for j := range s.Rules[i].Clauses {
				if pick(i, j) {
					s.Rules[i].Clauses[j] = twin.Rules[i].Clauses[j]
				}
			}
		}
		return
	}
	ldmodel.PreprocessSegment(s)
	for i := range s.Rules {
		for j := range s.Rules[i].Clauses {
			if pick(i, j) {
				s.Rules[i].Clauses[j] = w.Rules[i].Clauses[j].build()
			}
		}
	}
	for i := range s.IncludedContexts {
		if pick(-1, i) {
			s.IncludedContexts[i] = buildSegTargets(w.IncC[i : i+1])[0]
		}
	}
	for i := range s.ExcludedContexts {
		if pick(-2, i) {
			s.ExcludedContexts[i] = buildSegTargets(w.ExcC[i : i+1])[0]
		}
	}
}

package main

// Special checks for the codec properties C15 (round trip), C16 (schema, path agreement) and
// C17 (decoder robustness and leniency).

import (
	"bufio"
	"encoding/json"
	"fmt"
	"os"
	"reflect"
	"strings"

	"github.com/launchdarkly/go-sdk-common/v3/ldattr"
	"github.com/launchdarkly/go-sdk-common/v3/ldcontext"
	"github.com/launchdarkly/go-sdk-common/v3/ldtime"
	"github.com/launchdarkly/go-sdk-common/v3/ldvalue"
	"github.com/launchdarkly/go-server-sdk-evaluation/v3/ldbuilders"
	"github.com/launchdarkly/go-server-sdk-evaluation/v3/ldmodel"
)

func init() {
	specialChecks["C15"] = checkC15
	specialChecks["C16"] = checkC16
	specialChecks["C17"] = checkC17
}

// ---------- known findings ----------

type knownFinding struct {
	property  string
	id        string
	signature string
	text      string
}

func loadKnownFindings() []knownFinding {
	out := []knownFinding{}
	f, err := os.Open(knownFindingsPath)
	if err != nil {
		return out
	}
	defer f.Close()
	sc := bufio.NewScanner(f)
	for sc.Scan() {
		line := strings.TrimSpace(sc.Text())
		if !strings.HasPrefix(line, "known:") {
			continue
		}
		k := knownFinding{text: line}
		for _, tok := range strings.Fields(line) {
			switch {
			case strings.HasPrefix(tok, "property="):
				k.property = strings.TrimPrefix(tok, "property=")
			case strings.HasPrefix(tok, "id="):
				k.id = strings.TrimPrefix(tok, "id=")
			case strings.HasPrefix(tok, "signature="):
				k.signature = strings.TrimPrefix(tok, "signature=")
			}
		}
		out = append(out, k)
	}
	return out
}

func knownFor(pid, signature string) *knownFinding {
	for _, k := range loadKnownFindings() {
		if k.property == pid && k.signature == signature {
			kk := k
			return &kk
		}
	}
	return nil
}

// ---------- builders ----------

// buildWithBuilders constructs a flag through ldbuilders (only schema-expressible, valid parts).
func buildWithBuilders(w *WFlag) ldmodel.FeatureFlag {
	b := ldbuilders.NewFlagBuilder(w.Key).On(w.On).Salt(w.Salt).Version(w.Meta.Version).Deleted(w.Meta.Deleted).
		TrackEvents(w.Meta.Track).TrackEventsFallthrough(w.TrackFT).ExcludeFromSummaries(w.Excl)
	for _, p := range w.Prereqs {
		b.AddPrerequisite(p.Key, p.V)
	}
	for _, t := range w.Targets {
		b.AddTarget(t.V, t.Vals...)
	}
	for _, t := range w.CTargets {
		b.AddContextTarget(ldcontext.Kind(t.CK), t.V, t.Vals...)
	}
	for i := range w.Rules {
		r := &w.Rules[i]
		rb := ldbuilders.NewRuleBuilder().ID(r.ID).TrackEvents(r.Track)
		if vr, ok := vrWithBuilders(&r.VR); ok && vr.Variation.IsDefined() {
			rb.Variation(vr.Variation.IntValue())
		} else if ok {
			rb.VariationOrRollout(vr)
		} else {
			rb.VariationOrRollout(r.VR.build())
		}
		cls := clausesWithBuilders(r.Clauses)
		rb.Clauses(cls...)
		b.AddRule(rb)
	}
	if vr, ok := vrWithBuilders(&w.FT); ok && vr.Variation.IsDefined() {
		b.FallthroughVariation(vr.Variation.IntValue())
	} else if ok {
		b.Fallthrough(vr)
	} else {
		b.Fallthrough(w.FT.build())
	}
	if len(w.Vars) == 1 && w.Off != nil && *w.Off == 0 && !w.On {
		b.SingleVariation(w.Vars[0].toLD()) // = Variations(v).OffVariation(0).On(false)
	} else {
		if w.Off != nil {
			b.OffVariation(*w.Off)
		}
		b.Variations(jvsToLD(w.Vars)...)
	}
	if w.Meta.CSA.Explicit {
		b.ClientSideUsingEnvironmentID(w.Meta.CSA.Env).ClientSideUsingMobileKey(w.Meta.CSA.Mobile)
	}
	if w.Meta.Debug != "" && w.Meta.Debug != "0" {
		var d uint64
		fmt.Sscan(w.Meta.Debug, &d)
		b.DebugEventsUntilDate(ldtime.UnixMillisecondTime(d))
	}
	if w.Meta.Sampling != nil {
		b.SamplingRatio(*w.Meta.Sampling)
	}
	if w.Meta.Mig != nil {
		mb := ldbuilders.NewMigrationFlagParametersBuilder()
		if w.Meta.Mig.CheckRatio != nil {
			mb.CheckRatio(*w.Meta.Mig.CheckRatio)
		}
		b.MigrationFlagParameters(mb.Build())
	}
	flag := b.Build()
	if hashStr("twice/"+w.Key+fmt.Sprint(len(w.Rules), len(w.Targets)))%3 == 0 {
		// a builder is not used up by Build: building again (for a new version, say) gives an equal
		// value, and leaves the first one as it was
		before := deepDump(&flag)
		again := b.Version(w.Meta.Version).Build()
		if deepDump(&again) != before || deepDump(&flag) != before {
			panic("ldbuilders: a second Build() of the same builder differs from the first or changed it: " + firstDiff(before, deepDump(&again)) + firstDiff(before, deepDump(&flag)))
		}
		flag = again
	}
	// AddTarget cannot give a legacy target list a context kind; the data model can
	patched := false
	for i, t := range w.Targets {
		if t.CK != "" && i < len(flag.Targets) {
			flag.Targets[i].ContextKind = ldcontext.Kind(t.CK)
			patched = true
		}
	}
	if patched {
		ldmodel.PreprocessFlag(&flag)
	}
	return flag
}

// ---- construction through the helper functions of ldbuilders, wherever the wire value is exactly
// what a helper produces (otherwise the plain struct literal is used) ----

func clauseWithBuilders(w *WClause) ldmodel.Clause {
	vals := jvsToLD(w.Vals)
	var cl ldmodel.Clause
	switch {
	case w.Op == "segmentMatch" && w.CK == "" && w.Attr.Ctor == "" && len(w.Vals) > 0 && allStrings(w.Vals):
		keys := make([]string, len(w.Vals))
		for i, v := range w.Vals {
			keys[i] = v.S
		}
		cl = ldbuilders.SegmentMatchClause(keys...)
	case w.Attr.Ctor == "lit" && w.CK == "":
		cl = ldbuilders.Clause(w.Attr.Arg, ldmodel.Operator(w.Op), vals...)
	case w.Attr.Ctor == "lit":
		cl = ldbuilders.ClauseWithKind(ldcontext.Kind(w.CK), w.Attr.Arg, ldmodel.Operator(w.Op), vals...)
	case w.Attr.Ctor == "ref" && w.CK == "":
		cl = ldbuilders.ClauseRef(ldattr.NewRef(w.Attr.Arg), ldmodel.Operator(w.Op), vals...)
	case w.Attr.Ctor == "ref":
		cl = ldbuilders.ClauseRefWithKind(ldcontext.Kind(w.CK), ldattr.NewRef(w.Attr.Arg), ldmodel.Operator(w.Op), vals...)
	default:
		return w.build()
	}
	if w.Neg {
		cl = ldbuilders.Negate(cl)
	}
	return cl
}

func allStrings(vs []JV) bool {
	for _, v := range vs {
		if v.K != 's' {
			return false
		}
	}
	return true
}

func clausesWithBuilders(ws []WClause) []ldmodel.Clause {
	if ws == nil {
		return nil
	}
	out := make([]ldmodel.Clause, len(ws))
	for i := range ws {
		out[i] = clauseWithBuilders(&ws[i])
	}
	return out
}

// vrWithBuilders: ok=false when no helper produces exactly this value.
func vrWithBuilders(w *WVR) (ldmodel.VariationOrRollout, bool) {
	buckets := func() []ldmodel.WeightedVariation {
		out := []ldmodel.WeightedVariation{}
		for _, v := range w.RO.Vars {
			if v.U {
				out = append(out, ldbuilders.BucketUntracked(v.V, v.W))
			} else {
				out = append(out, ldbuilders.Bucket(v.V, v.W))
			}
		}
		return out
	}
	plainRollout := w.RO.CK == "" && w.RO.By.Ctor == "" && len(w.RO.Vars) > 0
	switch {
	case w.V != nil && w.RO.Kind == "" && w.RO.CK == "" && w.RO.By.Ctor == "" && w.RO.Seed == nil && len(w.RO.Vars) == 0:
		return ldbuilders.Variation(*w.V), true
	case w.V == nil && plainRollout && w.RO.Kind == "rollout" && w.RO.Seed == nil:
		return ldbuilders.Rollout(buckets()...), true
	case w.V == nil && plainRollout && w.RO.Kind == "experiment":
		return ldbuilders.Experiment(optInt(w.RO.Seed), buckets()...), true
	}
	return ldmodel.VariationOrRollout{}, false
}

func buildSegmentWithBuilders(w *WSegment) ldmodel.Segment {
	b := ldbuilders.NewSegmentBuilder(w.Key).Version(w.Version).Salt(w.Salt).Included(w.Inc...).Excluded(w.Exc...).
		Unbounded(w.Unb).UnboundedContextKind(ldcontext.Kind(w.UnbK))
	for _, t := range w.IncC {
		b.IncludedContextKind(ldcontext.Kind(t.CK), t.Vals...)
	}
	for _, t := range w.ExcC {
		b.ExcludedContextKind(ldcontext.Kind(t.CK), t.Vals...)
	}
	if w.Gen != nil {
		b.Generation(*w.Gen)
	}
	for i := range w.Rules {
		r := &w.Rules[i]
		rb := ldbuilders.NewSegmentRuleBuilder().ID(r.ID).Clauses(clausesWithBuilders(r.Clauses)...).RolloutContextKind(ldcontext.Kind(r.RCK))
		if r.Weight != nil {
			rb.Weight(*r.Weight)
		}
		if r.By.Ctor == "lit" {
			rb.BucketBy(r.By.Arg)
		} else if r.By.Ctor != "" {
			rb.BucketByRef(r.By.build())
		}
		b.AddRule(rb)
	}
	seg := b.Build()
	if hashStr("twice/"+w.Key+fmt.Sprint(len(w.Rules), len(w.Inc)))%3 == 0 {
		before := deepDump(&seg)
		again := b.Version(w.Version).Build()
		if deepDump(&again) != before || deepDump(&seg) != before {
			panic("ldbuilders: a second Build() of the same segment builder differs from the first or changed it: " + firstDiff(before, deepDump(&again)) + firstDiff(before, deepDump(&seg)))
		}
		seg = again
	}
	return seg
}

// sanitizeForBuilders restricts a generated flag to what the schema can express exactly.
func sanitizeRef(r WRef, ck string) WRef {
	if r.Ctor == "" {
		return r
	}
	name := r.Arg
	if name == "" || r.E != "" {
		name = "a"
	}
	if ck == "" {
		// without a context kind the schema stores a plain attribute name: a literal is kept as it
		// is; a path reference is replaced by the literal name of its first component
		if r.Ctor == "lit" {
			return mkRef("lit", name)
		}
		name = strings.TrimLeft(name, "/")
		if i := strings.IndexByte(name, '/'); i >= 0 {
			name = name[:i]
		}
		if name == "" {
			name = "a"
		}
		return mkRef("lit", name)
	}
	nr := mkRef("ref", name)
	if nr.E != "" {
		return mkRef("ref", "a")
	}
	return nr
}

func clampInt(n int) int {
	const lim = 1 << 53
	if n > lim {
		return lim
	}
	if n < -lim {
		return -lim
	}
	return n
}

func ptrJV(v JV) *JV { return &v }

// hkey: a 64-bit stand-in for a long string used only to count distinct values.
func hkey(s string) string { return fmt.Sprintf("%016x", hashStr(s)) }

// unrawJV: JSON cannot carry an unparsed value; an expressible configuration has the parsed one.
func unrawJV(v *JV) {
	for v.K == 'r' && len(v.A) == 1 {
		*v = v.A[0]
	}
	for i := range v.A {
		unrawJV(&v.A[i])
	}
	for i := range v.O {
		unrawJV(&v.O[i].V)
	}
}

func sanitizeClauses(cs []WClause) {
	for i := range cs {
		for j := range cs[i].Vals {
			unrawJV(&cs[i].Vals[j])
		}
		if cs[i].Op == "segmentMatch" && cs[i].Attr.Ctor != "" {
			cs[i].Attr = sanitizeRef(cs[i].Attr, cs[i].CK) // an attribute on a segmentMatch clause: keep it, but expressible
		}
		if cs[i].Op != "segmentMatch" {
			cs[i].Attr = sanitizeRef(cs[i].Attr, cs[i].CK)
			if cs[i].Attr.Ctor == "" {
				if cs[i].CK == "" {
					cs[i].Attr = mkRef("lit", "a")
				} else {
					cs[i].Attr = mkRef("ref", "a")
				}
			}
		}
	}
}

func sanitizeVR(vr *WVR) {
	if vr.V != nil {
		*vr.V = clampInt(*vr.V)
	}
	vr.RO.By = sanitizeRef(vr.RO.By, vr.RO.CK)
	if vr.RO.Seed != nil {
		*vr.RO.Seed = clampInt(*vr.RO.Seed)
	}
	for i := range vr.RO.Vars {
		vr.RO.Vars[i].V, vr.RO.Vars[i].W = clampInt(vr.RO.Vars[i].V), clampInt(vr.RO.Vars[i].W)
	}
	if len(vr.RO.Vars) == 0 { // a rollout without buckets is not encoded at all
		vr.RO = WRollout{Vars: []WWV{}, By: mkRef("", "")}
	}
}

func sanitizeFlag(f *WFlag) {
	for i := range f.Rules {
		sanitizeClauses(f.Rules[i].Clauses)
		sanitizeVR(&f.Rules[i].VR)
	}
	sanitizeVR(&f.FT)
	if f.Off != nil {
		*f.Off = clampInt(*f.Off)
	}
	for i := range f.Targets {
		f.Targets[i].V = clampInt(f.Targets[i].V)
	}
	for i := range f.CTargets {
		f.CTargets[i].V = clampInt(f.CTargets[i].V)
	}
	if !f.Meta.CSA.Explicit {
		f.Meta.CSA.Mobile = true
	}
	for i := range f.Vars {
		unrawJV(&f.Vars[i])
	}
	// integers beyond 2^53 are outside what the codec can express: go-jsonstream reads integer
	// members through float64 (measured: version 2^63-1 decodes as -2^63, 2^53+1 as 2^53)
	f.Meta.Version = clampInt(f.Meta.Version)
	for i := range f.Prereqs {
		f.Prereqs[i].V = clampInt(f.Prereqs[i].V)
	}
}

func sanitizeSegment(s *WSegment) {
	for i := range s.Rules {
		sanitizeClauses(s.Rules[i].Clauses)
		s.Rules[i].By = sanitizeRef(s.Rules[i].By, s.Rules[i].RCK)
		if s.Rules[i].Weight != nil {
			*s.Rules[i].Weight = clampInt(*s.Rules[i].Weight)
		}
	}
	s.Version = clampInt(s.Version)
	if s.Gen != nil {
		*s.Gen = clampInt(*s.Gen)
	}
}

// ---------- C15 ----------

type relTotals struct {
	pid         string
	evaluations int
	distinct    map[string]bool
	counts      map[string]int
	samples     []any
	dis         []map[string]any
	known       []string
	knownSeen   map[string]bool
}

func newRelTotals(pid string) *relTotals {
	return &relTotals{pid: pid, distinct: map[string]bool{}, counts: map[string]int{}, knownSeen: map[string]bool{}}
}

func (t *relTotals) violation(stream, msg string, payload map[string]any) {
	d := map[string]any{"property": t.pid, "kind": "predicate", "stream": stream, "message": msg}
	for k, v := range payload {
		d[k] = v
	}
	t.dis = append(t.dis, d)
}

func (t *relTotals) sample(x any) {
	if len(t.samples) < 4 && t.evaluations%173 == 1 {
		t.samples = append(t.samples, x)
	}
}

func (t *relTotals) frag(rule string, ut *unitTotals) map[string]any {
	f := map[string]any{"evaluations": t.evaluations, "distinct_nontrivial": len(t.distinct), "rule": rule,
		"samples": t.samples, "distribution": map[string]any{"relation_cases": t.counts}, "disagreements": len(t.dis),
		"known_findings": t.known, "harness_errors": []string{}}
	if ut != nil {
		f["evaluations"] = t.evaluations + ut.evaluations
		f["distinct_nontrivial"] = len(t.distinct) + len(ut.distinct)
		f["x_unit_cases"] = ut.kinds
		f["disagreements"] = len(t.dis) + len(ut.dis)
		f["harness_errors"] = ut.hErrs
		s := t.samples
		for _, x := range ut.samples {
			if len(s) < 6 {
				s = append(s, x)
			}
		}
		f["samples"] = s
	}
	if f["samples"] == nil || len(f["samples"].([]any)) == 0 {
		f["samples"] = []any{map[string]any{"note": "no sample recorded"}}
	}
	return f
}

func errText(err error) string {
	if err == nil {
		return ""
	}
	return " (" + err.Error() + ")"
}

func docText(d JV) string { return string(d.plainJSON()) }

// roundTripFlag checks the fixed-point half of C15 on one accepted document.
func (t *relTotals) roundTripFlag(stream string, doc JV, ec *EvalCase) {
	ser := ldmodel.NewJSONDataModelSerialization()
	data := doc.plainJSON()
	v, err := ser.UnmarshalFeatureFlag(data)
	t.evaluations++
	if err != nil {
		t.counts[stream+"/rejected"]++
		return
	}
	t.counts[stream+"/accepted"]++
	t.distinct[hkey(flagDumpJSON(&v))] = true
	e1, err1 := ser.MarshalFeatureFlag(v)
	if err1 != nil {
		t.violation(stream, "accepted flag cannot be encoded: "+err1.Error(), map[string]any{"doc": docText(doc)})
		return
	}
	v2, err2 := ser.UnmarshalFeatureFlag(e1)
	if err2 != nil {
		t.violation(stream, "re-encoded flag is not accepted: "+err2.Error(), map[string]any{"doc": docText(doc), "encoded": string(e1)})
		return
	}
	e2, _ := ser.MarshalFeatureFlag(v2)
	// fixed point after one step: encode(RT v) = encode v (canonical JSON) and RT(RT v) = RT v
	// (deeply equal). v itself may differ from RT v only in what encode documents as droppable
	// (a rollout without buckets); that this cannot change evaluation is checked below.
	v3, err3 := ser.UnmarshalFeatureFlag(e2)
	d1, d2 := flagDumpJSON(&v2)+deepSuffix(&v2), ""
	if err3 == nil {
		d2 = flagDumpJSON(&v3) + deepSuffix(&v3)
	}
	if !sameJSONBytes(e1, e2) || d1 != d2 {
		// open finding F5: a negative debugEventsUntilDate wraps around and needs two steps
		// (a member may occur twice in a document: the decoder keeps the last one)
		var dv *JV
		for i := range doc.O {
			if doc.O[i].K == "debugEventsUntilDate" {
				dv = &doc.O[i].V
			}
		}
		// signature of the finding: the document's date is negative and the step that fails to be a
		// fixed point (RT v versus RT RT v) differs in that one field only (v itself may differ from
		// RT v also by a dropped bucket-less rollout, which is documented and checked below)
		if dv != nil && dv.K == 'n' && dv.N < 0 && err3 == nil && onlyDebugDiffers(&v2, &v3) {
			if k := knownFor("C15", "debugEventsUntilDate-negative"); k != nil {
				if !t.knownSeen[k.id] {
					t.knownSeen[k.id] = true
					t.known = append(t.known, k.id)
					fmt.Printf("KNOWN-FINDING: property=C15 %s: a negative debugEventsUntilDate (e.g. %v) does not reach a round-trip fixed point after one step\n", k.id, dv.N)
				}
				// the finding is about that one metadata field; everything else still has to hold
				if err3 == nil && onlyDebugDiffers(&v2, &v3) {
					t.flagEvalEquivalence(stream, doc, ec, &v, &v2)
					return
				}
			}
		}
		t.violation(stream, "decode(encode(v)) is not a fixed point after one step", map[string]any{"doc": docText(doc), "encoded1": string(e1), "encoded2": string(e2),
			"v": d1, "rt": d2})
		return
	}
	// the round trip through every decode path — the serialization object, encoding/json into a
	// fresh and into a previously used destination, the streaming reader — is the same value
	pv, pe, pn := decodeFlagPaths(e1)
	for i := range pv {
		if pe[i] != nil {
			t.violation(stream, "re-encoded flag is not accepted by decode path "+pn[i]+": "+pe[i].Error(), map[string]any{"doc": docText(doc), "encoded": string(e1)})
			return
		}
		if di := flagDumpJSON(&pv[i]) + deepSuffix(&pv[i]); di != d1 {
			t.violation(stream, "decode(encode(v)) depends on the decode path: "+pn[0]+" vs "+pn[i], map[string]any{"doc": docText(doc), "encoded1": string(e1),
				"v": d1, "rt": di})
			return
		}
	}
	t.sample(map[string]any{"doc": docText(doc), "canonical": string(e1)})
	t.flagEvalEquivalence(stream, doc, ec, &v, &v2)
}

// flagEvalEquivalence: v and RT(v) evaluate identically — for the case's own context and a handful
// of others, as the document stands and with the early exits removed (flag switched on, no
// prerequisites, no individual targets), so that rules, rollouts and the fallthrough are reached.
func (t *relTotals) flagEvalEquivalence(stream string, doc JV, ec *EvalCase, v, v2 *ldmodel.FeatureFlag) {
	if ec == nil {
		return
	}
	store := buildStore(&ec.Store)
	s1 := newSetup(&ec.Opts, store, ec.BS)
	keys := logKeysFor(ec)
	r := newRng(hashStr(docText(doc)))
	g := &gen{r: r, p: profiles["wellformed"]}
	ctxs := []ldcontext.Context{ec.Ctx.build()}
	for i := 0; i < 4; i++ {
		w := g.context()
		ctxs = append(ctxs, w.build())
	}
	open := func(f *ldmodel.FeatureFlag) *ldmodel.FeatureFlag {
		o := *f
		o.On, o.Prerequisites, o.Targets, o.ContextTargets = true, nil, nil, nil
		return &o
	}
	for _, pair := range [][2]*ldmodel.FeatureFlag{{v, v2}, {open(v), open(v2)}} {
		for _, ctx := range ctxs {
			o1 := s1.evalOnce(pair[0], ctx, ec.Opts.Rec, keys)
			o2 := s1.evalOnce(pair[1], ctx, ec.Opts.Rec, keys)
			t.evaluations++
			if canon(full(&o1)) != canon(full(&o2)) {
				t.violation(stream, "the round-tripped flag evaluates differently from the original", map[string]any{"doc": docText(doc), "case": ec,
					"context": dumpCtx(ctx, ""), "obs1": o1, "obs2": o2})
				return
			}
		}
	}
}

// segmentEvalEquivalence: a probe flag whose only rule is a segmentMatch on the segment gives the
// same observation for v and RT(v), over a handful of contexts (keys drawn from the segment's own
// lists among them).
func (t *relTotals) segmentEvalEquivalence(stream string, doc JV, v, v2 *ldmodel.Segment) {
	r := newRng(hashStr(docText(doc)))
	g := &gen{r: r, p: profiles["segments"]}
	probe := ldmodel.FeatureFlag{Key: "probe", On: true, Variations: []ldvalue.Value{ldvalue.String("out"), ldvalue.String("in")},
		Fallthrough: ldmodel.VariationOrRollout{Variation: ldvalue.NewOptionalInt(0)},
		Rules: []ldmodel.FlagRule{{ID: "in-segment", VariationOrRollout: ldmodel.VariationOrRollout{Variation: ldvalue.NewOptionalInt(1)},
			Clauses: []ldmodel.Clause{{Op: ldmodel.OperatorSegmentMatch, Values: []ldvalue.Value{ldvalue.String(v.Key)}}}}}}
	keys := append(append([]string{}, v.Included...), v.Excluded...)
	for i := 0; i < 6; i++ {
		w := g.context()
		if len(keys) > 0 && i%2 == 0 && w.T == "single" {
			w.C.Key = pick(r, keys)
			w.C.Legacy = w.C.Key == ""
		}
		ctx := w.build()
		var obs [2]WObs
		for j, seg := range []*ldmodel.Segment{v, v2} {
			store := &realStore{flags: map[string]*ldmodel.FeatureFlag{}, segments: map[string]*ldmodel.Segment{v.Key: seg}}
			s := newSetup(&WOpts{Log: true, Rec: true}, store, nil)
			obs[j] = s.evalOnce(&probe, ctx, true, []string{"probe"})
		}
		t.evaluations++
		if canon(full(&obs[0])) != canon(full(&obs[1])) {
			t.violation(stream, "the round-tripped segment evaluates differently from the original", map[string]any{"doc": docText(doc),
				"context": dumpCtx(ctx, ""), "obs1": obs[0], "obs2": obs[1]})
			return
		}
	}
}

func onlyDebugDiffers(a, b *ldmodel.FeatureFlag) bool {
	x, y := *a, *b
	x.DebugEventsUntilDate, y.DebugEventsUntilDate = 0, 0
	return flagDumpJSON(&x) == flagDumpJSON(&y)
}

func (t *relTotals) roundTripSegment(stream string, doc JV) {
	ser := ldmodel.NewJSONDataModelSerialization()
	v, err := ser.UnmarshalSegment(doc.plainJSON())
	t.evaluations++
	if err != nil {
		t.counts[stream+"/rejected"]++
		return
	}
	t.counts[stream+"/accepted"]++
	t.distinct[hkey(segDumpJSON(&v))] = true
	e1, err1 := ser.MarshalSegment(v)
	if err1 != nil {
		t.violation(stream, "accepted segment cannot be encoded", map[string]any{"doc": docText(doc)})
		return
	}
	v2, err2 := ser.UnmarshalSegment(e1)
	if err2 != nil {
		t.violation(stream, "re-encoded segment is not accepted: "+err2.Error(), map[string]any{"doc": docText(doc)})
		return
	}
	e2, _ := ser.MarshalSegment(v2)
	v3, err3 := ser.UnmarshalSegment(e2)
	if !sameJSONBytes(e1, e2) || err3 != nil || segDumpJSON(&v2)+deepSuffix(&v2) != segDumpJSON(&v3)+deepSuffix(&v3) {
		t.violation(stream, "decode(encode(v)) is not a fixed point after one step (segment)", map[string]any{"doc": docText(doc), "encoded1": string(e1), "encoded2": string(e2),
			"v": json.RawMessage(segDumpJSON(&v2)), "rt": json.RawMessage(segDumpJSON(&v3))})
		return
	}
	pv, pe, pn := decodeSegmentPaths(e1)
	for i := range pv {
		if pe[i] != nil {
			t.violation(stream, "re-encoded segment is not accepted by decode path "+pn[i]+": "+pe[i].Error(), map[string]any{"doc": docText(doc), "encoded": string(e1)})
			return
		}
		if segDumpJSON(&pv[i])+deepSuffix(&pv[i]) != segDumpJSON(&v2)+deepSuffix(&v2) {
			t.violation(stream, "decode(encode(v)) depends on the decode path (segment): "+pn[0]+" vs "+pn[i], map[string]any{"doc": docText(doc), "encoded1": string(e1),
				"v": json.RawMessage(segDumpJSON(&v2)), "rt": json.RawMessage(segDumpJSON(&pv[i]))})
			return
		}
	}
	t.segmentEvalEquivalence(stream, doc, &v, &v2)
}

func recovering(t *relTotals, stream string, payload func() map[string]any, f func()) {
	defer func() {
		if r := recover(); r != nil {
			t.violation(stream, fmt.Sprintf("panic: %v", r), payload())
		}
	}()
	f()
}

func checkC15(seed uint64, replayDir, corpusDir string) (map[string]any, int) {
	t := newRelTotals("C15")
	n := 6000 * tierScale()
	base := newRng(seed ^ hashStr("C15"))
	var units []*UnitCase
	for i := 0; i < n; i++ {
		r := base.fork()
		g := &gen{r: r, p: profiles[pick(r, []string{"wellformed", "malformed", "rollouts", "segments"})]}
		ec := g.evalCase(fmt.Sprintf("C15/%d/%d", seed, i))
		if r.chance(1, 15) {
			var sp *WSegment
			if len(ec.Store.Segments) > 0 {
				sp = &ec.Store.Segments[0]
			}
			widenLists(r, &ec.Flag, sp)
		}
		doc := flagDoc(&ec.Flag)
		stream := "docs"
		if r.chance(1, 3) {
			doc = corrupt(r, "flag", doc, g)
			stream = "docs-corrupt"
		}
		if r.chance(1, 12) { // the F5 family and its neighbours
			for j := range doc.O {
				if doc.O[j].K == "debugEventsUntilDate" {
					doc.O[j].V = jNum(pick(r, []float64{-1, -0.5, -1024, -1099511627776, -1e30, 1.9e19, 18446744073709551616, 1e30, 9223372036854775808, 4.5}))
				}
			}
		}
		d := doc
		recovering(t, stream, func() map[string]any { return map[string]any{"doc": docText(d)} }, func() { t.roundTripFlag(stream, d, ec) })
		if i%3 == 0 {
			dd := cloneJV(doc)
			units = append(units, &UnitCase{ID: fmt.Sprintf("C15/dec/%d/%d", seed, i), Kind: "decflag", Doc: &dd})
		}
		if len(ec.Store.Segments) > 0 {
			sdoc := segmentDoc(&ec.Store.Segments[0])
			if r.chance(1, 3) {
				sdoc = corrupt(r, "segment", sdoc, g)
			}
			sd := sdoc
			recovering(t, "segdocs", func() map[string]any { return map[string]any{"doc": docText(sd)} }, func() { t.roundTripSegment("segdocs", sd) })
			if i%3 == 0 {
				dd := cloneJV(sdoc)
				units = append(units, &UnitCase{ID: fmt.Sprintf("C15/decseg/%d/%d", seed, i), Kind: "decseg", Doc: &dd})
			}
		}
		// builders: decode(encode(v)) deeply equal to v
		if i%2 == 0 {
			g2 := &gen{r: r, p: profiles["wellformed"]}
			g2.p.PMalformed = 0
			wf := g2.flag("bf", flagKeyPool, segKeyPool)
			if r.chance(1, 15) {
				widenLists(r, &wf, nil)
			}
			sanitizeFlag(&wf)
			recovering(t, "builders", func() map[string]any { return map[string]any{"flag": wf} }, func() {
				v := buildWithBuilders(&wf)
				ser := ldmodel.NewJSONDataModelSerialization()
				e, err := ser.MarshalFeatureFlag(v)
				t.evaluations++
				t.counts["builders/flags"]++
				if err != nil {
					t.violation("builders", "builder-built flag cannot be encoded", map[string]any{"flag": wf})
					return
				}
				v2, err := ser.UnmarshalFeatureFlag(e)
				if err != nil {
					t.violation("builders", "encoded builder-built flag is rejected: "+err.Error(), map[string]any{"flag": wf, "encoded": string(e)})
					return
				}
				if flagDumpJSON(&v)+builderDeep(&v) != flagDumpJSON(&v2)+builderDeep(&v2) {
					t.violation("builders", "decode(encode(v)) differs from the builder-built v", map[string]any{"flag": wf, "encoded": string(e), "first_difference": firstDiff(builderDeep(&v), builderDeep(&v2)),
						"v": json.RawMessage(flagDumpJSON(&v)), "rt": json.RawMessage(flagDumpJSON(&v2))})
				}
				t.distinct[hkey("b:"+flagDumpJSON(&v))] = true
			})
			ws := g2.segment("bs", segKeyPool)
			if r.chance(1, 15) {
				widenLists(r, nil, &ws)
			}
			sanitizeSegment(&ws)
			recovering(t, "builders", func() map[string]any { return map[string]any{"segment": ws} }, func() {
				v := buildSegmentWithBuilders(&ws)
				ser := ldmodel.NewJSONDataModelSerialization()
				e, _ := ser.MarshalSegment(v)
				v2, err := ser.UnmarshalSegment(e)
				t.evaluations++
				t.counts["builders/segments"]++
				if err != nil {
					t.violation("builders", "encoded builder-built segment is rejected: "+err.Error(), map[string]any{"segment": ws})
					return
				}
				if segDumpJSON(&v)+builderDeep(&v) != segDumpJSON(&v2)+builderDeep(&v2) {
					t.violation("builders", "decode(encode(v)) differs from the builder-built segment", map[string]any{"segment": ws, "encoded": string(e), "first_difference": firstDiff(builderDeep(&v), builderDeep(&v2))})
				}
			})
		}
	}
	ut := newUnitTotals()
	outs := runUnitBatch(units)
	for i := range outs {
		ut.tally("C15", outs[i].c.Kind, &outs[i])
	}
	nv := reportUnitDisagreements("C15", append(t.dis, ut.dis...), replayDir)
	return t.frag("accepted and corrupted flag/segment documents: one-step fixed point of decode∘encode (canonical bytes and deep value dump), evaluation equivalence of v and RT(v) in a generated store/context, builder-built values RT(v)=v; decoder model vs real decoder on the same documents; non-trivial = distinct accepted values", ut), nv
}

// ---------- C16 ----------

func checkC16(seed uint64, replayDir, corpusDir string) (map[string]any, int) {
	t := newRelTotals("C16")
	n := 5000 * tierScale()
	base := newRng(seed ^ hashStr("C16"))
	var units []*UnitCase
	for i := 0; i < n; i++ {
		r := base.fork()
		g := &gen{r: r, p: profiles[pick(r, []string{"wellformed", "malformed", "rollouts", "segments", "targets"})]}
		wf := g.flag("f", flagKeyPool, segKeyPool)
		wf.Form = pick(r, handForms)
		ws := g.segment("s", segKeyPool)
		ws.Form = pick(r, handForms)
		if r.chance(1, 15) {
			widenLists(r, &wf, &ws)
		}
		// any syntactically valid document (not only the encoder's own output): every decode path
		// agrees on whether it is accepted and on the value — unknown properties, any member order,
		// nulls, wrong types, duplicate members
		for _, kd := range []struct {
			kind string
			doc  JV
		}{{"flag", flagDoc(&wf)}, {"segment", segmentDoc(&ws)}} {
			kd := kd
			variant := kd.doc
			switch r.intn(4) {
			case 0:
				variant = insertUnknown(r, kd.kind, variant, g)
			case 1:
				variant = permute(r, kd.kind, variant)
			case 2:
				variant = corrupt(r, kd.kind, variant, g)
			}
			data := variant.plainJSON()
			recovering(t, "paths-any-document", func() map[string]any { return map[string]any{"doc": string(data)} }, func() {
				t.evaluations++
				t.counts["decode-paths/any-document"]++
				var dumps []string
				var errs []error
				var names []string
				if kd.kind == "flag" {
					vals, es, ns := decodeFlagPaths(data)
					for k := range vals {
						dumps = append(dumps, flagDumpJSON(&vals[k])+deepSuffix(&vals[k]))
					}
					errs, names = es, ns
				} else {
					vals, es, ns := decodeSegmentPaths(data)
					for k := range vals {
						dumps = append(dumps, segDumpJSON(&vals[k])+deepSuffix(&vals[k]))
					}
					errs, names = es, ns
				}
				for k := range dumps {
					if (errs[k] == nil) != (errs[0] == nil) {
						t.violation("paths-any-document", fmt.Sprintf("decode paths disagree on whether the document is accepted: %s (%v) vs %s (%v)", names[0], errs[0], names[k], errs[k]), map[string]any{"doc": string(data)})
						return
					}
					if errs[k] == nil && dumps[k] != dumps[0] {
						t.violation("paths-any-document", "decode paths disagree on the value: "+names[0]+" vs "+names[k], map[string]any{"doc": string(data)})
						return
					}
				}
			})
		}
		recovering(t, "paths", func() map[string]any { return map[string]any{"flag": wf} }, func() {
			f := wf.build()
			outs, errs, names := encodeFlagPaths(*f)
			t.evaluations++
			t.counts["encode-paths/flag"]++
			for k := range outs {
				if errs[k] != nil {
					t.violation("paths", names[k]+": encode error "+errs[k].Error(), map[string]any{"flag": wf})
					return
				}
				if !json.Valid(outs[k]) {
					t.violation("paths", names[k]+": output is not syntactically valid JSON", map[string]any{"flag": wf, "out": string(outs[k])})
					return
				}
				if !sameJSONBytes(outs[0], outs[k]) {
					t.violation("paths", "encode paths disagree: "+names[0]+" vs "+names[k], map[string]any{"flag": wf, "a": string(outs[0]), "b": string(outs[k])})
					return
				}
			}
			if msg := ejEncodeAgrees(f, nil, outs[0]); msg != "" {
				t.violation("paths-easyjson", msg, map[string]any{"flag": wf})
			}
			vals, derrs, dnames := decodeFlagPaths(outs[0])
			for k := range vals {
				if derrs[k] != nil {
					t.violation("paths", dnames[k]+": rejects the encoder's own output: "+derrs[k].Error(), map[string]any{"flag": wf})
					return
				}
				if flagDumpJSON(&vals[k])+deepSuffix(&vals[k]) != flagDumpJSON(&vals[0])+deepSuffix(&vals[0]) {
					t.violation("paths", "decode paths disagree: "+dnames[0]+" vs "+dnames[k], map[string]any{"flag": wf})
					return
				}
			}
			if msg := ejDecodeAgrees(outs[0], true, flagDumpJSON(&vals[0])); msg != "" {
				t.violation("paths-easyjson", msg, map[string]any{"flag": wf})
			}
			t.distinct[hkey(string(outs[0]))] = true
			t.sample(map[string]any{"encoded": string(outs[0])})
		})
		recovering(t, "paths", func() map[string]any { return map[string]any{"segment": ws} }, func() {
			s := ws.build()
			outs, errs, names := encodeSegmentPaths(*s)
			t.evaluations++
			t.counts["encode-paths/segment"]++
			for k := range outs {
				if errs[k] != nil || !json.Valid(outs[k]) {
					t.violation("paths", names[k]+": encode error or invalid JSON"+errText(errs[k]), map[string]any{"segment": ws})
					return
				}
				if !sameJSONBytes(outs[0], outs[k]) {
					t.violation("paths", "segment encode paths disagree: "+names[0]+" vs "+names[k], map[string]any{"segment": ws, "a": string(outs[0]), "b": string(outs[k])})
					return
				}
			}
			if msg := ejEncodeAgrees(nil, s, outs[0]); msg != "" {
				t.violation("paths-easyjson", msg, map[string]any{"segment": ws})
			}
			vals, derrs, dnames := decodeSegmentPaths(outs[0])
			for k := range vals {
				if derrs[k] != nil || segDumpJSON(&vals[k])+deepSuffix(&vals[k]) != segDumpJSON(&vals[0])+deepSuffix(&vals[0]) {
					t.violation("paths", "segment decode paths disagree or reject: "+dnames[k], map[string]any{"segment": ws})
					return
				}
			}
			if msg := ejDecodeAgrees(outs[0], false, segDumpJSON(&vals[0])); msg != "" {
				t.violation("paths-easyjson", msg, map[string]any{"segment": ws})
			}
			t.distinct[hkey(string(outs[0]))] = true
		})
		f2, s2 := wf, ws
		units = append(units, &UnitCase{ID: fmt.Sprintf("C16/encflag/%d/%d", seed, i), Kind: "encflag", Flag: &f2},
			&UnitCase{ID: fmt.Sprintf("C16/encseg/%d/%d", seed, i), Kind: "encseg", Segment: &s2})
	}
	ut := newUnitTotals()
	ut.extraCheck = func(o *unitOutcome) string {
		if ok, _ := o.pred["schema"].(bool); !ok {
			return "the encoder's output does not conform to the wire schema (a legacy property is missing, null or of the wrong type)"
		}
		return ""
	}
	if !ejOnly() {
		outs := runUnitBatch(units)
		for i := range outs {
			ut.tally("C16", outs[i].c.Kind, &outs[i])
		}
	}
	nv := reportUnitDisagreements("C16", append(t.dis, ut.dis...), replayDir)
	return t.frag("flag/segment values in plain, preprocessed and decoded form: four encode paths byte/tree-equal and valid JSON, decode paths equal on the encoder's output (easyjson paths in the easyjson build), encoder model tree = real tree, schema predicate evaluated on the real output; non-trivial = distinct encodings", ut), nv
}

// ---------- C17 ----------

func decodeDump(kind string, d JV) (string, bool) {
	ser := ldmodel.NewJSONDataModelSerialization()
	if kind == "flag" {
		v, err := ser.UnmarshalFeatureFlag(d.plainJSON())
		if err != nil {
			return "", false
		}
		return flagDumpJSON(&v) + deepSuffix(&v), true
	}
	v, err := ser.UnmarshalSegment(d.plainJSON())
	if err != nil {
		return "", false
	}
	return segDumpJSON(&v) + deepSuffix(&v), true
}

// deepSuffix: the value as reflect.DeepEqual sees it (nil and empty slices and maps told apart,
// unexported precomputed fields included) — what "deeply equal" means in C15 and C17.
// firstDiff shows where two dumps part (with a little context), for the replay file.
func firstDiff(a, b string) string {
	i := 0
	for i < len(a) && i < len(b) && a[i] == b[i] {
		i++
	}
	if i == len(a) && i == len(b) {
		return ""
	}
	lo := i - 120
	if lo < 0 {
		lo = 0
	}
	cut := func(s string) string {
		hi := i + 120
		if hi > len(s) {
			hi = len(s)
		}
		return s[lo:hi]
	}
	return fmt.Sprintf("at %d: %q vs %q", i, cut(a), cut(b))
}

// builderDeep: the deep dump with empty and nil slices and maps identified. A builder keeps the
// (possibly empty, non-nil) slice it was handed where the decoder leaves nil; JSON cannot express
// that difference, so it is outside "values that the schema can express". Everything else —
// every field, exported or not, at every depth — is compared.
func builderDeep(v any) string {
	d := deepSuffix(v)
	d = strings.ReplaceAll(d, "[len=0:]", "nil")
	return strings.ReplaceAll(d, "map{}", "nil")
}

func deepSuffix(v any) string {
	if os.Getenv("VERIF_NO_DEEP") != "" {
		return ""
	}
	return "\n" + deepDump(v)
}

func checkC17(seed uint64, replayDir, corpusDir string) (map[string]any, int) {
	t := newRelTotals("C17")
	n := 5000 * tierScale()
	base := newRng(seed ^ hashStr("C17"))
	var units []*UnitCase
	ut := newUnitTotals()
	relSeen := map[uint64]bool{}
	// the documents for the model go out in batches (a thorough run makes millions of them)
	flush := func() {
		outs := runUnitBatch(units)
		for i := range outs {
			ut.tally("C17", outs[i].c.Kind, &outs[i])
		}
		units = units[:0]
		if len(relSeen) > 2000000 {
			relSeen = map[uint64]bool{}
		}
	}
	relN := 0
	rel := func(stream, what, kind string, a, b JV) {
		// both documents of the pair also go to the model's decoder (a relation between two
		// decodings holds just as well when both are wrong in the same way)
		for _, d := range []JV{a, b} {
			d := d
			k := "decflag"
			if kind == "segment" {
				k = "decseg"
			}
			h := hashStr(k + string(d.plainJSON()))
			if relSeen[h] {
				continue
			}
			relSeen[h] = true
			relN++
			units = append(units, &UnitCase{ID: fmt.Sprintf("C17/%s/rel/%s/%d", k, stream, relN), Kind: k, Doc: &d})
		}
		recovering(t, stream, func() map[string]any { return map[string]any{"a": docText(a), "b": docText(b), "what": what} }, func() {
			da, oka := decodeDump(kind, a)
			db, okb := decodeDump(kind, b)
			t.evaluations++
			t.counts[stream]++
			if oka != okb || da != db {
				t.violation(stream, "decodings of equivalent documents differ ("+what+")", map[string]any{"a": docText(a), "b": docText(b), "what": what, "accepted": []bool{oka, okb}})
				return
			}
			if oka {
				t.distinct[hkey(stream+da)] = true
			}
			t.sample(map[string]any{"relation": stream, "what": what, "a": docText(a), "b": docText(b)})
		})
	}
	// documents whose top level is not an object, and the empty object
	for i, top := range []JV{jNull(), jArr(), jArr(jObj()), jStr("x"), jStr(""), jNum(0), jNum(1.5), jBool(true), jBool(false), jObj()} {
		d1, d2 := top, top
		units = append(units, &UnitCase{ID: fmt.Sprintf("C17/decflag/top/%d", i), Kind: "decflag", Doc: &d1},
			&UnitCase{ID: fmt.Sprintf("C17/decseg/top/%d", i), Kind: "decseg", Doc: &d2})
	}
	// every member of every object of one fully populated flag and segment document, replaced in turn
	// by null, {}, [], a string, a number, a boolean — and dropped: the decoder's tolerance position
	// by position, enumerated rather than sampled
	for _, kd := range []struct{ kind, text, unit string }{{"flag", richFlagDoc, "decflag"}, {"segment", richSegmentDoc, "decseg"}} {
		full, err := parseTree([]byte(kd.text))
		if err != nil {
			fatalf("rich document does not parse: %v", err)
		}
		count := len(allObjects(kd.kind, &full))
		for oi := 0; oi < count; oi++ {
			nm := len(allObjects(kd.kind, &full)[oi].o.O)
			for mi := 0; mi < nm; mi++ {
				for vi, repl := range []*JV{nil, ptrJV(jNull()), ptrJV(jObj()), ptrJV(jArr()), ptrJV(jStr("x")), ptrJV(jNum(1)), ptrJV(jBool(true))} {
					d := cloneJV(full)
					o := allObjects(kd.kind, &d)[oi].o
					if repl == nil {
						o.O = append(append([]KV{}, o.O[:mi]...), o.O[mi+1:]...)
					} else {
						o.O[mi].V = *repl
					}
					units = append(units, &UnitCase{ID: fmt.Sprintf("C17/%s/enum/%d/%d/%d", kd.unit, oi, mi, vi), Kind: kd.unit, Doc: &d})
					t.evaluations++
					t.counts["enumerated"]++
					if msg := byteRobustness(kd.kind, d.plainJSON()); msg != "" {
						t.violation("bytes", msg, map[string]any{"text": string(d.plainJSON())})
					}
				}
			}
		}
	}
	for i := 0; i < n; i++ {
		if len(units) > 150000 {
			flush()
		}
		r := base.fork()
		g := &gen{r: r, p: profiles[pick(r, []string{"wellformed", "malformed", "rollouts", "segments"})]}
		wf := g.flag("f", flagKeyPool, segKeyPool)
		ws := g.segment("s", segKeyPool)
		if r.chance(1, 20) {
			widenLists(r, &wf, &ws)
		}
		for _, kd := range []struct {
			kind string
			doc  JV
		}{{"flag", flagDoc(&wf)}, {"segment", segmentDoc(&ws)}} {
			doc := kd.doc
			rel("unknown-ignored", "unknown properties inserted", kd.kind, doc, insertUnknown(r, kd.kind, doc, g))
			rel("order-irrelevant", "object members permuted", kd.kind, doc, permute(r, kd.kind, doc))
			if a, b, what, ok := nullVsOmit(r, kd.kind, doc); ok {
				rel("null-is-omission", what, kd.kind, a, b)
			}
			if a, b, what, ok := omitVsDefault(r, kd.kind, doc); ok {
				rel("omitted-is-default", what, kd.kind, a, b)
			}
			// model correspondence on arbitrary (corrupted, duplicated, permuted) documents
			cd := corrupt(r, kd.kind, doc, g)
			if r.bool() {
				cd = insertUnknown(r, kd.kind, cd, g)
			}
			k := "decflag"
			if kd.kind == "segment" {
				k = "decseg"
			}
			units = append(units, &UnitCase{ID: fmt.Sprintf("C17/%s/%d/%d", k, seed, i), Kind: k, Doc: &cd})
			// byte level
			data := doc.plainJSON()
			for j := 0; j < 6; j++ {
				m := mutateBytes(r, data)
				t.evaluations++
				t.counts["bytes"]++
				if msg := byteRobustness(kd.kind, m); msg != "" {
					t.violation("bytes", msg, map[string]any{"bytes_base64": m, "text": string(m)})
				}
			}
		}
	}
	flush()
	nv := reportUnitDisagreements("C17", append(t.dis, ut.dis...), replayDir)
	return t.frag("valid documents under unknown-property insertion, member permutation, null-vs-omission (listed properties at their positions) and omission-vs-default; corrupted/duplicated documents decoded by model and real decoder; mutated/truncated byte strings through every decode path (no panic, error => zero value, destination untouched, accepted => re-encodable); non-trivial = distinct accepted decodings", ut), nv
}

var _ = reflect.DeepEqual

package main

// What the library writes to the process's standard streams or to the standard logger during an
// evaluation. An evaluator has a logger option for its messages; with or without one it has no
// business writing anywhere else, and a fallback to log.Printf would otherwise go unseen (the
// worker's stderr is only read after a crash).

import (
	"bytes"
	"io"
	"log"
	"os"
)

// realStderr is the worker's own stderr (for the watchdog), whatever os.Stderr currently is.
var realStderr = os.Stderr

func captureStd(fn func()) (written string) {
	if os.Getenv("VERIF_NO_STDCAPTURE") != "" {
		fn()
		return ""
	}
	r, w, err := os.Pipe()
	if err != nil {
		fn()
		return ""
	}
	var buf bytes.Buffer
	done := make(chan struct{})
	go func() {
		io.Copy(&buf, r)
		close(done)
	}()
	oldOut, oldErr := os.Stdout, os.Stderr
	oldLogOut, oldFlags, oldPrefix := log.Writer(), log.Flags(), log.Prefix()
	os.Stdout, os.Stderr = w, w
	log.SetOutput(w)
	defer func() {
		os.Stdout, os.Stderr = oldOut, oldErr
		log.SetOutput(oldLogOut)
		log.SetFlags(oldFlags)
		log.SetPrefix(oldPrefix)
		w.Close()
		<-done
		r.Close()
		written = buf.String()
	}()
	fn()
	return ""
}

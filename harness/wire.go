package main

// Wire types: the line protocol shared with the Lean driver (see lean/LDEval/Wire.lean), and the
// conversions between them and the real Go values of /repo (build: wire -> Go, dump: Go -> wire).

import (
	"encoding/json"
	"fmt"
	"math"
	"math/big"
	"reflect"
	"sort"
	"strconv"

	"github.com/launchdarkly/go-sdk-common/v3/ldattr"
	"github.com/launchdarkly/go-sdk-common/v3/ldcontext"
	"github.com/launchdarkly/go-sdk-common/v3/ldtime"
	"github.com/launchdarkly/go-sdk-common/v3/ldvalue"
	"github.com/launchdarkly/go-server-sdk-evaluation/v3/ldmodel"
)

// ---------- JSON values ----------

// JV is a JSON value with an exact number representation.
type JV struct {
	K byte // 'z' null, 'b', 'n', 's', 'a', 'o'
	B bool
	N float64
	S string
	A []JV
	O []KV
}

type KV struct {
	K string
	V JV
}

func jNull() JV         { return JV{K: 'z'} }
func jBool(b bool) JV   { return JV{K: 'b', B: b} }
func jNum(f float64) JV { return JV{K: 'n', N: f} }
func jStr(s string) JV  { return JV{K: 's', S: s} }
func jArr(xs ...JV) JV  { return JV{K: 'a', A: xs} }
func jObj(kvs ...KV) JV { return JV{K: 'o', O: kvs} }

func (v JV) MarshalJSON() ([]byte, error) {
	switch v.K {
	case 0, 'z':
		return []byte("null"), nil
	case 'b':
		return json.Marshal(map[string]bool{"b": v.B})
	case 'n':
		r := new(big.Rat)
		if math.IsNaN(v.N) || math.IsInf(v.N, 0) {
			return nil, fmt.Errorf("non-finite number")
		}
		r.SetFloat64(v.N)
		return json.Marshal(map[string]string{"n": r.Num().String(), "d": r.Denom().String()})
	case 's':
		return json.Marshal(map[string]string{"s": v.S})
	case 'a':
		a := v.A
		if a == nil {
			a = []JV{}
		}
		return json.Marshal(map[string][]JV{"a": a})
	case 'o':
		out := make([][2]any, 0, len(v.O))
		for _, kv := range v.O {
			out = append(out, [2]any{kv.K, kv.V})
		}
		return json.Marshal(map[string]any{"o": out})
	case 'r':
		// an unparsed value (ldvalue.Raw): A[0] is what its text parses to
		return json.Marshal(map[string]JV{"r": v.A[0]})
	}
	return nil, fmt.Errorf("bad JV kind %d", v.K)
}

func (v *JV) UnmarshalJSON(data []byte) error {
	if string(data) == "null" {
		*v = jNull()
		return nil
	}
	var m map[string]json.RawMessage
	if err := json.Unmarshal(data, &m); err != nil {
		return err
	}
	if raw, ok := m["b"]; ok {
		v.K = 'b'
		return json.Unmarshal(raw, &v.B)
	}
	if raw, ok := m["s"]; ok {
		v.K = 's'
		return json.Unmarshal(raw, &v.S)
	}
	if raw, ok := m["n"]; ok {
		var n, d string
		if err := json.Unmarshal(raw, &n); err != nil {
			return err
		}
		if err := json.Unmarshal(m["d"], &d); err != nil {
			return err
		}
		r, ok := new(big.Rat).SetString(n + "/" + d)
		if !ok {
			return fmt.Errorf("bad rational %s/%s", n, d)
		}
		f, _ := r.Float64()
		v.K = 'n'
		v.N = f
		return nil
	}
	if raw, ok := m["r"]; ok {
		v.K = 'r'
		v.A = make([]JV, 1)
		return json.Unmarshal(raw, &v.A[0])
	}
	if raw, ok := m["a"]; ok {
		v.K = 'a'
		return json.Unmarshal(raw, &v.A)
	}
	if raw, ok := m["o"]; ok {
		v.K = 'o'
		var pairs [][2]json.RawMessage
		if err := json.Unmarshal(raw, &pairs); err != nil {
			return err
		}
		for _, p := range pairs {
			var kv KV
			if err := json.Unmarshal(p[0], &kv.K); err != nil {
				return err
			}
			if err := json.Unmarshal(p[1], &kv.V); err != nil {
				return err
			}
			v.O = append(v.O, kv)
		}
		return nil
	}
	return fmt.Errorf("bad JV %s", data)
}

func (v JV) toLD() ldvalue.Value {
	switch v.K {
	case 'b':
		return ldvalue.Bool(v.B)
	case 'n':
		return ldvalue.Float64(v.N)
	case 's':
		return ldvalue.String(v.S)
	case 'a':
		b := ldvalue.ValueArrayBuild()
		for _, x := range v.A {
			b.Add(x.toLD())
		}
		return b.Build().AsValue()
	case 'o':
		b := ldvalue.ValueMapBuild()
		for _, kv := range v.O {
			b.Set(kv.K, kv.V.toLD())
		}
		return b.Build().AsValue()
	case 'r':
		return ldvalue.Raw(json.RawMessage(v.A[0].plainJSON()))
	}
	return ldvalue.Null()
}

func fromLD(v ldvalue.Value) JV {
	switch v.Type() {
	case ldvalue.BoolType:
		return jBool(v.BoolValue())
	case ldvalue.NumberType:
		return jNum(v.Float64Value())
	case ldvalue.StringType:
		return jStr(v.StringValue())
	case ldvalue.ArrayType:
		out := JV{K: 'a', A: []JV{}}
		for i := 0; i < v.Count(); i++ {
			out.A = append(out.A, fromLD(v.GetByIndex(i)))
		}
		return out
	case ldvalue.ObjectType:
		keys := v.Keys(nil)
		sort.Strings(keys)
		out := JV{K: 'o'}
		for _, k := range keys {
			out.O = append(out.O, KV{k, fromLD(v.GetByKey(k))})
		}
		return out
	case ldvalue.RawType:
		return JV{K: 'r', A: []JV{fromLD(ldvalue.Parse(v.AsRaw()))}}
	}
	return jNull()
}

func jvsToLD(vs []JV) []ldvalue.Value {
	if vs == nil {
		return nil
	}
	out := make([]ldvalue.Value, len(vs))
	for i, v := range vs {
		out[i] = v.toLD()
	}
	return out
}

func jvsFromLD(vs []ldvalue.Value) []JV {
	out := make([]JV, len(vs))
	for i, v := range vs {
		out[i] = fromLD(v)
	}
	return out
}

// ---------- attribute references ----------

// WRef: Ctor/Arg say how the harness constructs the Ref through the public API
// ("" = Ref{}, "ref" = NewRef(Arg), "lit" = NewLiteralRef(Arg)); E/R/S/C are the four fields of
// the resulting Go value, read back by reflection, and are what the model receives.
type WRef struct {
	Ctor string   `json:"ctor"`
	Arg  string   `json:"arg"`
	E    string   `json:"e"`
	R    string   `json:"r"`
	S    string   `json:"s"`
	C    []string `json:"c"`
}

func (w WRef) build() ldattr.Ref {
	switch w.Ctor {
	case "ref":
		return ldattr.NewRef(w.Arg)
	case "lit":
		return ldattr.NewLiteralRef(w.Arg)
	}
	return ldattr.Ref{}
}

func dumpRef(r ldattr.Ref, ctor, arg string) WRef {
	v := reflect.ValueOf(r)
	w := WRef{Ctor: ctor, Arg: arg, C: []string{}}
	errF := v.FieldByName("err")
	if !errF.IsNil() {
		switch errF.Elem().Type().Name() {
		case "ErrAttributeEmpty":
			w.E = "empty"
		case "ErrAttributeInvalidEscape":
			w.E = "escape"
		case "ErrAttributeExtraSlash":
			w.E = "slash"
		default:
			panic("unknown ref error " + errF.Elem().Type().Name())
		}
	}
	w.R = v.FieldByName("rawPath").String()
	w.S = v.FieldByName("singlePathComponent").String()
	comps := v.FieldByName("components")
	for i := 0; i < comps.Len(); i++ {
		w.C = append(w.C, comps.Index(i).String())
	}
	return w
}

// refCtorFor finds a public-API construction for a Ref obtained from decoding (for replay).
func refCtorFor(r ldattr.Ref) (string, string) {
	if !r.IsDefined() {
		return "", ""
	}
	raw := r.String()
	cand := ldattr.NewRef(raw)
	if reflect.DeepEqual(cand, r) {
		return "ref", raw
	}
	lit := ldattr.NewLiteralRef(r.Component(0))
	if reflect.DeepEqual(lit, r) {
		return "lit", r.Component(0)
	}
	if r.Err() != nil {
		lit = ldattr.NewLiteralRef(raw)
		if reflect.DeepEqual(lit, r) {
			return "lit", raw
		}
	}
	return "ref", raw
}

func mkRef(ctor, arg string) WRef { return dumpRef(WRef{Ctor: ctor, Arg: arg}.build(), ctor, arg) }

// ---------- contexts ----------

type WSCtx struct {
	Kind  string  `json:"kind"`
	Key   string  `json:"key"`
	Name  *string `json:"name"`
	Anon  bool    `json:"anon"`
	Sec   *string `json:"sec"`
	Attrs []WAttr `json:"attrs"` // [name, JV]
	// Legacy: build through the old user JSON schema (no "kind" property), which alone admits an
	// empty key; the model only sees the resulting context.
	Legacy bool `json:"legacy,omitempty"`
}

// WAttr marshals as the two-element array [name, value].
type WAttr struct {
	K string
	V JV
}

func (a WAttr) MarshalJSON() ([]byte, error) { return json.Marshal([2]any{a.K, a.V}) }

func (a *WAttr) UnmarshalJSON(data []byte) error {
	var p [2]json.RawMessage
	if err := json.Unmarshal(data, &p); err != nil {
		return err
	}
	if err := json.Unmarshal(p[0], &a.K); err != nil {
		return err
	}
	return json.Unmarshal(p[1], &a.V)
}

type WCtx struct {
	T  string  `json:"t"` // invalid | single | multi
	C  *WSCtx  `json:"c,omitempty"`
	Cs []WSCtx `json:"cs,omitempty"`
	// How an invalid context is to be built: "uninit" | "emptykey" | "badkind" | "multidup"
	Inv string `json:"inv,omitempty"`
}

func (w *WSCtx) attrs() []WAttr { return w.Attrs }

func (w *WSCtx) build() ldcontext.Context {
	if w.Sec != nil || w.Legacy {
		// The secondary meta-attribute can only be set by unmarshalling the old user schema.
		m := map[string]any{"key": w.Key, "anonymous": w.Anon}
		if w.Sec != nil {
			m["secondary"] = *w.Sec
		}
		if w.Name != nil {
			m["name"] = *w.Name
		}
		custom := map[string]any{}
		for _, a := range w.attrs() {
			custom[a.K] = json.RawMessage(a.V.toLD().JSONString())
		}
		m["custom"] = custom
		data, _ := json.Marshal(m)
		var c ldcontext.Context
		if err := json.Unmarshal(data, &c); err != nil {
			return c
		}
		return c
	}
	// several ways to the same context: the builder, the plain constructor, a trip through JSON
	how := hashStr(fmt.Sprint("ctx/", w.Kind, "/", w.Key, "/", len(w.Attrs))) % 4
	if how == 1 && len(w.Attrs) == 0 && w.Name == nil && !w.Anon {
		return ldcontext.NewWithKind(ldcontext.Kind(w.Kind), w.Key)
	}
	b := ldcontext.NewBuilder(w.Key).Kind(ldcontext.Kind(w.Kind)).Anonymous(w.Anon)
	if w.Name != nil {
		b.Name(*w.Name)
	}
	for _, a := range w.attrs() {
		b.SetValue(a.K, a.V.toLD())
	}
	c := b.Build()
	if how == 2 && c.Err() == nil && !ctxBuilderOnly {
		if data, err := json.Marshal(c); err == nil {
			var c2 ldcontext.Context
			if json.Unmarshal(data, &c2) == nil && c2.Err() == nil {
				return c2
			}
		}
	}
	return c
}

func (w *WCtx) build() ldcontext.Context {
	switch w.T {
	case "single":
		if hashStr("one/"+w.C.Key)%5 == 0 {
			return ldcontext.NewMulti(w.C.build()) // a multi-kind constructor handed one member
		}
		return w.C.build()
	case "multi":
		mb := ldcontext.NewMultiBuilder()
		for i := range w.Cs {
			mb.Add(w.Cs[i].build())
		}
		return mb.Build()
	}
	switch w.Inv {
	case "emptykey":
		return ldcontext.New("")
	case "badkind":
		return ldcontext.NewWithKind("kind", "k")
	case "multidup":
		return ldcontext.NewMulti(ldcontext.NewWithKind("org", "a"), ldcontext.NewWithKind("org", "b"))
	case "multiempty":
		return ldcontext.NewMulti()
	case "kindmulti":
		return ldcontext.NewWithKind("multi", "k")
	case "badchars":
		return ldcontext.NewWithKind("org!", "k")
	case "multibadmember":
		return ldcontext.NewMulti(ldcontext.New("a"), ldcontext.NewWithKind("org", ""))
	}
	return ldcontext.Context{}
}

func dumpSCtx(c ldcontext.Context) WSCtx {
	w := WSCtx{Kind: string(c.Kind()), Key: c.Key(), Anon: c.Anonymous(), Attrs: []WAttr{}, Legacy: c.Key() == ""}
	if n := c.Name(); n.IsDefined() {
		s := n.StringValue()
		w.Name = &s
	}
	if n := c.Secondary(); n.IsDefined() { //nolint:staticcheck
		s := n.StringValue()
		w.Sec = &s
	}
	names := c.GetOptionalAttributeNames(nil)
	sort.Strings(names)
	for _, n := range names {
		if n == "name" {
			continue
		}
		w.Attrs = append(w.Attrs, WAttr{n, fromLD(c.GetValue(n))})
	}
	return w
}

// dumpCtx describes the context the evaluator will actually see, through ldcontext's public API.
func dumpCtx(c ldcontext.Context, inv string) WCtx {
	if c.Err() != nil {
		return WCtx{T: "invalid", Inv: inv}
	}
	if c.Multiple() {
		w := WCtx{T: "multi"}
		for i := 0; i < c.IndividualContextCount(); i++ {
			w.Cs = append(w.Cs, dumpSCtx(c.IndividualContextByIndex(i)))
		}
		return w
	}
	s := dumpSCtx(c)
	return WCtx{T: "single", C: &s}
}

// ---------- data model ----------

type WPreVal struct {
	Valid bool    `json:"valid"`
	Rx    *string `json:"rx"`
	T     string  `json:"t"`
	SV    []any   `json:"sv"`
}

type WClause struct {
	CK   string    `json:"ck"`
	Attr WRef      `json:"attr"`
	Op   string    `json:"op"`
	Vals []JV      `json:"vals"`
	Neg  bool      `json:"neg"`
	PV   []WPreVal `json:"pv"` // nil -> null
	PM   []JV      `json:"pm"` // nil -> null
}

type WWV struct {
	V int  `json:"v"`
	W int  `json:"w"`
	U bool `json:"u"`
}

type WRollout struct {
	Kind string `json:"kind"`
	CK   string `json:"ck"`
	Vars []WWV  `json:"vars"`
	By   WRef   `json:"by"`
	Seed *int   `json:"seed"`
}

type WVR struct {
	V  *int     `json:"v"`
	RO WRollout `json:"ro"`
}

type WTarget struct {
	CK   string   `json:"ck"`
	Vals []string `json:"vals"`
	V    int      `json:"v"`
	PM   []string `json:"pm"` // nil -> null
}

type WPrereq struct {
	Key string `json:"key"`
	V   int    `json:"v"`
}

type WFlagRule struct {
	VR      WVR       `json:"vr"`
	ID      string    `json:"id"`
	Clauses []WClause `json:"clauses"`
	Track   bool      `json:"track"`
}

type WCSA struct {
	Mobile   bool `json:"mobile"`
	Env      bool `json:"env"`
	Explicit bool `json:"explicit"`
}

type WMig struct {
	CheckRatio *int `json:"checkRatio"`
}

type WFlagMeta struct {
	CSA      WCSA   `json:"csa"`
	Track    bool   `json:"track"`
	Debug    string `json:"debug"`
	Version  int    `json:"version"`
	Deleted  bool   `json:"deleted"`
	Mig      *WMig  `json:"mig"`
	Sampling *int   `json:"sampling"`
}

type WFlag struct {
	// LK: the key under which the data provider returns this flag, when it differs from the flag's
	// own Key field (the DataProvider is application code and may answer any lookup with any item)
	LK       *string     `json:"lk,omitempty"`
	Key      string      `json:"key"`
	On       bool        `json:"on"`
	Prereqs  []WPrereq   `json:"prereqs"`
	Targets  []WTarget   `json:"targets"`
	CTargets []WTarget   `json:"ctargets"`
	Rules    []WFlagRule `json:"rules"`
	FT       WVR         `json:"ft"`
	Off      *int        `json:"off"`
	Vars     []JV        `json:"vars"`
	Salt     string      `json:"salt"`
	TrackFT  bool        `json:"trackFT"`
	Excl     bool        `json:"excl"`
	Meta     WFlagMeta   `json:"meta"`
	// Form: how the Go value is obtained: "plain" (hand-built, no tables), "pre" (hand-built then
	// PreprocessFlag), "json" (encoded then decoded). Not read by the model.
	Form string `json:"form"`
}

type WSegTarget struct {
	CK   string   `json:"ck"`
	Vals []string `json:"vals"`
	PM   []string `json:"pm"`
}

type WSegRule struct {
	ID      string    `json:"id"`
	Clauses []WClause `json:"clauses"`
	Weight  *int      `json:"weight"`
	By      WRef      `json:"by"`
	RCK     string    `json:"rck"`
}

type WSegment struct {
	LK      *string      `json:"lk,omitempty"` // see WFlag.LK
	Key     string       `json:"key"`
	Inc     []string     `json:"inc"`
	Exc     []string     `json:"exc"`
	IncC    []WSegTarget `json:"incC"`
	ExcC    []WSegTarget `json:"excC"`
	Salt    string       `json:"salt"`
	Rules   []WSegRule   `json:"rules"`
	Unb     bool         `json:"unb"`
	UnbK    string       `json:"unbK"`
	Version int          `json:"version"`
	Gen     *int         `json:"gen"`
	Deleted bool         `json:"deleted"`
	IncM    []string     `json:"incM"`
	ExcM    []string     `json:"excM"`
	Form    string       `json:"form"`
}

func (f *WFlag) lookupKey() string {
	if f.LK != nil {
		return *f.LK
	}
	return f.Key
}

func (s *WSegment) lookupKey() string {
	if s.LK != nil {
		return *s.LK
	}
	return s.Key
}

type WStore struct {
	Flags    []WFlag    `json:"flags"`
	Segments []WSegment `json:"segments"`
}

func optInt(p *int) ldvalue.OptionalInt {
	if p == nil {
		return ldvalue.OptionalInt{}
	}
	return ldvalue.NewOptionalInt(*p)
}

func fromOptInt(o ldvalue.OptionalInt) *int {
	if !o.IsDefined() {
		return nil
	}
	v := o.IntValue()
	return &v
}

func (w *WClause) build() ldmodel.Clause {
	return ldmodel.Clause{
		ContextKind: ldcontext.Kind(w.CK), Attribute: w.Attr.build(), Op: ldmodel.Operator(w.Op),
		Values: jvsToLD(w.Vals), Negate: w.Neg,
	}
}

func buildClauses(ws []WClause) []ldmodel.Clause {
	if ws == nil {
		return nil
	}
	out := make([]ldmodel.Clause, len(ws))
	for i := range ws {
		out[i] = ws[i].build()
	}
	return out
}

func (w *WVR) build() ldmodel.VariationOrRollout {
	vr := ldmodel.VariationOrRollout{Variation: optInt(w.V)}
	vr.Rollout = ldmodel.Rollout{
		Kind: ldmodel.RolloutKind(w.RO.Kind), ContextKind: ldcontext.Kind(w.RO.CK),
		BucketBy: w.RO.By.build(), Seed: optInt(w.RO.Seed),
	}
	vr.Rollout.Variations = emptyOrNil[ldmodel.WeightedVariation](fmt.Sprint(w.RO.Kind, w.RO.CK, w.RO.Seed != nil, w.V != nil, "/buckets"))
	for _, v := range w.RO.Vars {
		vr.Rollout.Variations = append(vr.Rollout.Variations,
			ldmodel.WeightedVariation{Variation: v.V, Weight: v.W, Untracked: v.U})
	}
	return vr
}

func cloneStrs(s []string) []string {
	if s == nil {
		return nil
	}
	return append([]string{}, s...)
}

func buildTargets(ws []WTarget) []ldmodel.Target {
	if ws == nil {
		return nil
	}
	out := make([]ldmodel.Target, len(ws))
	for i, t := range ws {
		out[i] = ldmodel.Target{ContextKind: ldcontext.Kind(t.CK), Values: cloneStrs(t.Vals), Variation: t.V}
	}
	return out
}

// emptyOrNil: an empty list of a hand-built value is nil or empty-but-not-nil, decided by a hash
// of where it sits (len(x) == 0 and x == nil are different tests; the model sees no difference).
func emptyOrNil[T any](tag string) []T {
	if hashStr("empty/"+tag)&1 == 0 {
		return nil
	}
	return make([]T, 0)
}

// build constructs the real FeatureFlag in the requested form.
func (w *WFlag) build() *ldmodel.FeatureFlag {
	f := ldmodel.FeatureFlag{
		Key: w.Key, On: w.On, Targets: buildTargets(w.Targets), ContextTargets: buildTargets(w.CTargets),
		Fallthrough: w.FT.build(), OffVariation: optInt(w.Off), Variations: jvsToLD(w.Vars), Salt: w.Salt,
		TrackEvents: w.Meta.Track, TrackEventsFallthrough: w.TrackFT, ExcludeFromSummaries: w.Excl,
		Version: w.Meta.Version, Deleted: w.Meta.Deleted, SamplingRatio: optInt(w.Meta.Sampling),
		ClientSideAvailability: ldmodel.ClientSideAvailability{
			UsingMobileKey: w.Meta.CSA.Mobile, UsingEnvironmentID: w.Meta.CSA.Env, Explicit: w.Meta.CSA.Explicit},
	}
	if w.Meta.Debug != "" {
		d, _ := strconv.ParseUint(w.Meta.Debug, 10, 64)
		f.DebugEventsUntilDate = ldtime.UnixMillisecondTime(d)
	}
	if w.Meta.Mig != nil {
		f.Migration = &ldmodel.MigrationFlagParameters{CheckRatio: optInt(w.Meta.Mig.CheckRatio)}
	}
	f.Prerequisites = emptyOrNil[ldmodel.Prerequisite](w.Key + "/prereqs")
	for _, p := range w.Prereqs {
		f.Prerequisites = append(f.Prerequisites, ldmodel.Prerequisite{Key: p.Key, Variation: p.V})
	}
	f.Rules = emptyOrNil[ldmodel.FlagRule](w.Key + "/rules")
	for i := range w.Rules {
		r := &w.Rules[i]
		f.Rules = append(f.Rules, ldmodel.FlagRule{VariationOrRollout: r.VR.build(), ID: r.ID,
			Clauses: buildClauses(r.Clauses), TrackEvents: r.Track})
	}
	switch w.Form {
	case "pre":
		ldmodel.PreprocessFlag(&f)
	case "repre":
		rePreprocessFlag(&f)
	case "partial":
		partialPreprocessFlag(&f, w)
	case "builder":
		g := buildWithBuilders(w)
		return &g
	case "json":
		data, err := ldmodel.NewJSONDataModelSerialization().MarshalFeatureFlag(f)
		if err != nil {
			panic(err)
		}
		g, err := ldmodel.NewJSONDataModelSerialization().UnmarshalFeatureFlag(data)
		if err != nil {
			panic(fmt.Sprintf("re-decode failed: %v for %s", err, data))
		}
		if sh, ok := shuffleMembers(data, newRng(hashStr(string(data)))); ok {
			if g2, err := ldmodel.NewJSONDataModelSerialization().UnmarshalFeatureFlag(sh); err == nil {
				jsonTwins.Store(&g2, &g)
				return &g2
			}
			panic(fmt.Sprintf("decoding fails after reordering object members: %s", sh))
		}
		return &g
	}
	return &f
}

func buildSegTargets(ws []WSegTarget) []ldmodel.SegmentTarget {
	if ws == nil {
		return nil
	}
	out := make([]ldmodel.SegmentTarget, len(ws))
	for i, t := range ws {
		out[i] = ldmodel.SegmentTarget{ContextKind: ldcontext.Kind(t.CK), Values: cloneStrs(t.Vals)}
	}
	return out
}

func (w *WSegment) build() *ldmodel.Segment {
	s := ldmodel.Segment{
		Key: w.Key, Included: cloneStrs(w.Inc), Excluded: cloneStrs(w.Exc), IncludedContexts: buildSegTargets(w.IncC),
		ExcludedContexts: buildSegTargets(w.ExcC), Salt: w.Salt, Unbounded: w.Unb,
		UnboundedContextKind: ldcontext.Kind(w.UnbK), Version: w.Version, Generation: optInt(w.Gen), Deleted: w.Deleted,
	}
	s.Rules = emptyOrNil[ldmodel.SegmentRule](w.Key + "/segrules")
	for i := range w.Rules {
		r := &w.Rules[i]
		s.Rules = append(s.Rules, ldmodel.SegmentRule{ID: r.ID, Clauses: buildClauses(r.Clauses),
			Weight: optInt(r.Weight), BucketBy: r.By.build(), RolloutContextKind: ldcontext.Kind(r.RCK)})
	}
	switch w.Form {
	case "pre":
		ldmodel.PreprocessSegment(&s)
	case "repre":
		rePreprocessSegment(&s)
	case "partial":
		partialPreprocessSegment(&s, w)
	case "builder":
		g := buildSegmentWithBuilders(w)
		return &g
	case "json":
		data, err := ldmodel.NewJSONDataModelSerialization().MarshalSegment(s)
		if err != nil {
			panic(err)
		}
		g, err := ldmodel.NewJSONDataModelSerialization().UnmarshalSegment(data)
		if err != nil {
			panic(fmt.Sprintf("re-decode failed: %v for %s", err, data))
		}
		if sh, ok := shuffleMembers(data, newRng(hashStr(string(data)))); ok {
			if g2, err := ldmodel.NewJSONDataModelSerialization().UnmarshalSegment(sh); err == nil {
				jsonTwins.Store(&g2, &g)
				return &g2
			}
			panic(fmt.Sprintf("decoding fails after reordering object members: %s", sh))
		}
		return &g
	}
	return &s
}

// ---------- dump (Go -> wire) ----------

func dumpClause(c *ldmodel.Clause) WClause {
	ctor, arg := refCtorFor(c.Attribute)
	w := WClause{CK: string(c.ContextKind), Attr: dumpRef(c.Attribute, ctor, arg), Op: string(c.Op),
		Vals: jvsFromLD(c.Values), Neg: c.Negate}
	hasV, vals, hasM, keys := hookClausePreprocessed(c)
	if hasV {
		w.PV = []WPreVal{}
		for _, p := range vals {
			pv := WPreVal{Valid: p.Valid}
			if p.HasRegexp {
				s := p.Regexp
				pv.Rx = &s
			}
			ns := new(big.Int).Mul(big.NewInt(p.TimeSec), big.NewInt(1000000000))
			ns.Add(ns, big.NewInt(int64(p.TimeNsec)))
			pv.T = ns.String()
			pv.SV = []any{p.Major, p.Minor, p.Patch, p.Prerelease, p.Build}
			w.PV = append(w.PV, pv)
		}
	}
	if hasM {
		w.PM = []JV{}
		for _, k := range keys {
			switch k.Type {
			case ldvalue.BoolType:
				w.PM = append(w.PM, jBool(k.Bool))
			case ldvalue.NumberType:
				w.PM = append(w.PM, jNum(k.Number))
			case ldvalue.StringType:
				w.PM = append(w.PM, jStr(k.String))
			default:
				w.PM = append(w.PM, jNull())
			}
		}
		sort.Slice(w.PM, func(i, j int) bool { return jvLess(w.PM[i], w.PM[j]) })
	}
	return w
}

func jvLess(a, b JV) bool {
	if a.K != b.K {
		return a.K < b.K
	}
	switch a.K {
	case 'b':
		return !a.B && b.B
	case 'n':
		return a.N < b.N
	case 's':
		return a.S < b.S
	}
	return false
}

func dumpClauses(cs []ldmodel.Clause) []WClause {
	out := make([]WClause, len(cs))
	for i := range cs {
		out[i] = dumpClause(&cs[i])
	}
	return out
}

func dumpVR(vr *ldmodel.VariationOrRollout) WVR {
	ctor, arg := refCtorFor(vr.Rollout.BucketBy)
	w := WVR{V: fromOptInt(vr.Variation), RO: WRollout{Kind: string(vr.Rollout.Kind), CK: string(vr.Rollout.ContextKind),
		By: dumpRef(vr.Rollout.BucketBy, ctor, arg), Seed: fromOptInt(vr.Rollout.Seed), Vars: []WWV{}}}
	for _, v := range vr.Rollout.Variations {
		w.RO.Vars = append(w.RO.Vars, WWV{v.Variation, v.Weight, v.Untracked})
	}
	return w
}

func nonNilStrs(s []string) []string {
	if s == nil {
		return []string{}
	}
	return s
}

func dumpTargets(ts []ldmodel.Target) []WTarget {
	out := make([]WTarget, len(ts))
	for i := range ts {
		has, keys := hookTargetMap(&ts[i])
		out[i] = WTarget{CK: string(ts[i].ContextKind), Vals: nonNilStrs(ts[i].Values), V: ts[i].Variation}
		if has {
			out[i].PM = nonNilStrs(keys)
		}
	}
	return out
}

func dumpFlag(f *ldmodel.FeatureFlag, form string) WFlag {
	if tw, ok := jsonTwins.Load(f); ok {
		f = tw.(*ldmodel.FeatureFlag)
	}
	w := WFlag{Key: f.Key, On: f.On, Targets: dumpTargets(f.Targets), CTargets: dumpTargets(f.ContextTargets),
		FT: dumpVR(&f.Fallthrough), Off: fromOptInt(f.OffVariation), Vars: jvsFromLD(f.Variations), Salt: f.Salt,
		TrackFT: f.TrackEventsFallthrough, Excl: f.ExcludeFromSummaries, Form: form,
		Prereqs: []WPrereq{}, Rules: []WFlagRule{},
		Meta: WFlagMeta{CSA: WCSA{f.ClientSideAvailability.UsingMobileKey, f.ClientSideAvailability.UsingEnvironmentID,
			f.ClientSideAvailability.Explicit}, Track: f.TrackEvents,
			Debug: strconv.FormatUint(uint64(f.DebugEventsUntilDate), 10), Version: f.Version, Deleted: f.Deleted,
			Sampling: fromOptInt(f.SamplingRatio)}}
	if f.Migration != nil {
		w.Meta.Mig = &WMig{CheckRatio: fromOptInt(f.Migration.CheckRatio)}
	}
	for _, p := range f.Prerequisites {
		w.Prereqs = append(w.Prereqs, WPrereq{p.Key, p.Variation})
	}
	for i := range f.Rules {
		r := &f.Rules[i]
		w.Rules = append(w.Rules, WFlagRule{VR: dumpVR(&r.VariationOrRollout), ID: r.ID,
			Clauses: dumpClauses(r.Clauses), Track: r.TrackEvents})
	}
	return w
}

func dumpSegTargets(ts []ldmodel.SegmentTarget) []WSegTarget {
	out := make([]WSegTarget, len(ts))
	for i := range ts {
		has, keys := hookSegmentTargetMap(&ts[i])
		out[i] = WSegTarget{CK: string(ts[i].ContextKind), Vals: nonNilStrs(ts[i].Values)}
		if has {
			out[i].PM = nonNilStrs(keys)
		}
	}
	return out
}

func dumpSegment(s *ldmodel.Segment, form string) WSegment {
	if tw, ok := jsonTwins.Load(s); ok {
		s = tw.(*ldmodel.Segment)
	}
	w := WSegment{Key: s.Key, Inc: nonNilStrs(s.Included), Exc: nonNilStrs(s.Excluded),
		IncC: dumpSegTargets(s.IncludedContexts), ExcC: dumpSegTargets(s.ExcludedContexts), Salt: s.Salt,
		Unb: s.Unbounded, UnbK: string(s.UnboundedContextKind), Version: s.Version, Gen: fromOptInt(s.Generation),
		Deleted: s.Deleted, Form: form, Rules: []WSegRule{}}
	hasI, inc, hasE, exc := hookSegmentMaps(s)
	if hasI {
		w.IncM = nonNilStrs(inc)
	}
	if hasE {
		w.ExcM = nonNilStrs(exc)
	}
	for i := range s.Rules {
		r := &s.Rules[i]
		ctor, arg := refCtorFor(r.BucketBy)
		w.Rules = append(w.Rules, WSegRule{ID: r.ID, Clauses: dumpClauses(r.Clauses), Weight: fromOptInt(r.Weight),
			By: dumpRef(r.BucketBy, ctor, arg), RCK: string(r.RolloutContextKind)})
	}
	return w
}

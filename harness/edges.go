package main

// Context keys whose bucket value is exactly 1.0 for the given hash prefix, found by
// `harness mine-edges` (about 2^25 hashes per entry). Data, not oracle: the real code and the model
// both compute what these inputs give.
var minedBucketOne = []minedEdge{
	{Prefix: "edge.salt.", Key: "user-54131421"},
	{Prefix: "edge.salt.", Key: "user-112505205"},
	{Prefix: "edge.salt.", Key: "user-107338868"},
	{Prefix: "edge.salt.", Key: "user-100441615"},
	{Prefix: "edge.s2.", Key: "user-2161363"},
	{Prefix: "edge.s2.", Key: "user-54429365"},
	{Prefix: "edge.s2.", Key: "user-81627543"},
	{Prefix: "edge.s2.", Key: "user-133135935"},
	{Prefix: "f..", Key: "user-1262716"},
	{Prefix: "f..", Key: "user-9429800"},
	{Prefix: "f..", Key: "user-32200615"},
	{Prefix: "f..", Key: "user-50427344"},
	{Prefix: "42.", Key: "user-4672645"},
	{Prefix: "42.", Key: "user-69887576"},
	{Prefix: "42.", Key: "user-106609856"},
	{Prefix: "42.", Key: "user-115637692"},
	{Prefix: "-7.", Key: "user-1530752"},
	{Prefix: "-7.", Key: "user-37066851"},
	{Prefix: "-7.", Key: "user-144032344"},
	{Prefix: "-7.", Key: "user-118734241"},
}

package main

// Relational checks evaluated directly on the real code's behaviour: C14 (construction forms),
// C20 (locality perturbations), C12 (histories against one evaluator).

import (
	"encoding/json"
	"fmt"
	"strings"

	"github.com/launchdarkly/go-sdk-common/v3/ldcontext"
	"github.com/launchdarkly/go-server-sdk-evaluation/v3/ldmodel"
)

func init() {
	specialChecks["C14"] = checkC14
	specialChecks["C20"] = checkC20
	specialChecks["C12"] = checkC12
}

// runVariants executes variants of cases on both sides; returns outcomes grouped like the input.
func runVariants(groups [][]*EvalCase) [][]evalOutcome {
	flat := []*EvalCase{}
	for _, g := range groups {
		flat = append(flat, g...)
	}
	outs := runEvalBatch(flat)
	res := make([][]evalOutcome, len(groups))
	k := 0
	for i, g := range groups {
		res[i] = outs[k : k+len(g)]
		k += len(g)
	}
	return res
}

// modelAgreement records a model-vs-code disagreement on the full projection.
func modelAgreement(t *relTotals, stream string, o *evalOutcome) bool {
	if o.hErr != "" {
		t.violation(stream, "harness error: "+o.hErr, map[string]any{"case": o.c})
		return false
	}
	if o.c.Go == nil || o.model == nil {
		return false
	}
	if o.c.Go.Outcome != "done" {
		t.violation(stream, "evaluation did not complete normally: "+o.c.Go.Outcome+" "+o.c.Go.Panic, map[string]any{"case": o.c})
		return false
	}
	if !o.c.Go.EventsOK {
		t.violation(stream, "a prerequisite event did not carry the evaluated context or the stored prerequisite flag", map[string]any{"case": o.c})
		return false
	}
	if ok, present := o.pred["preOK"].(bool); present && !ok && t.pid == "C14" {
		t.violation(stream, "the preprocessed tables the real code built differ from what preprocessing the same data yields in the model", map[string]any{"case": o.c})
		return false
	}
	if canon(full(o.c.Go)) != canon(full(o.model)) {
		t.dis = append(t.dis, map[string]any{"property": t.pid, "kind": "correspondence", "stream": stream,
			"message": "the real code and the model differ", "go": json.RawMessage(canon(full(o.c.Go))), "model_out": json.RawMessage(canon(full(o.model))), "case": o.c})
		return false
	}
	return true
}

func setForms(c *EvalCase, form string) *EvalCase {
	n := cloneCase(c)
	n.Flag.Form = form
	for i := range n.Store.Flags {
		n.Store.Flags[i].Form = form
	}
	for i := range n.Store.Segments {
		n.Store.Segments[i].Form = form
	}
	n.ID = c.ID + "#" + form
	return n
}

// setMixedForms gives every item of a case its own form: a preprocessed flag over plain segments,
// a plain flag whose prerequisites are preprocessed, and so on.
func setMixedForms(c *EvalCase, r *rng, forms []string, tag string) *EvalCase {
	n := cloneCase(c)
	n.Flag.Form = pick(r, forms)
	for i := range n.Store.Flags {
		n.Store.Flags[i].Form = pick(r, forms)
	}
	for i := range n.Store.Segments {
		n.Store.Segments[i].Form = pick(r, forms)
	}
	n.ID = c.ID + "#" + tag
	return n
}

func sanitizeCase(c *EvalCase) {
	sanitizeFlag(&c.Flag)
	for i := range c.Store.Flags {
		sanitizeFlag(&c.Store.Flags[i])
	}
	for i := range c.Store.Segments {
		sanitizeSegment(&c.Store.Segments[i])
	}
}

// ---------- C14 ----------

func checkC14(seed uint64, replayDir, corpusDir string) (map[string]any, int) {
	t := newRelTotals("C14")
	n := 2500 * tierScale()
	base := newRng(seed ^ hashStr("C14"))
	forms := []string{"plain", "pre", "json", "builder", "repre", "partial"}
	const batch = 500
	for start := 0; start < n; start += batch {
		groups := [][]*EvalCase{}
		for i := start; i < start+batch && i < n; i++ {
			r := base.fork()
			var c *EvalCase
			switch r.intn(5) {
			case 0:
				c = genStream("operators", r, fmt.Sprintf("C14/%d/%d", seed, i))
			case 1:
				c = genStream("dateops", r, fmt.Sprintf("C14/%d/%d", seed, i))
			default:
				c = genStream(pick(r, []string{"wellformed", "segments", "targets", "bigseg", "prereqs", "bucketdense"}), r, fmt.Sprintf("C14/%d/%d", seed, i))
			}
			// the configuration as generated — malformed references, out-of-range integers and all —
			// in the two hand-built forms, which need not be expressible in JSON or by the builders,
			// and with the forms mixed between the items of the case
			raw := cloneCase(c)
			rawG := []*EvalCase{setForms(raw, "plain"), setForms(raw, "pre"), setForms(raw, "repre"), setForms(raw, "partial"),
				setMixedForms(raw, r, []string{"plain", "pre", "repre", "partial"}, "mixed-1"), setMixedForms(raw, r, []string{"plain", "pre", "repre", "partial"}, "mixed-2")}
			sanitizeCase(c)
			g := []*EvalCase{}
			for _, f := range forms {
				g = append(g, setForms(c, f))
			}
			g = append(g, setMixedForms(c, r, forms, "mixed"))
			groups = append(groups, g, rawG)
		}
		for _, outs := range runVariants(groups) {
			okAll := true
			formOf := func(k int) string {
				id := outs[k].c.ID
				return id[strings.LastIndex(id, "#")+1:]
			}
			for k := range outs {
				t.evaluations++
				t.counts["form/"+formOf(k)]++
				if !modelAgreement(t, "forms", &outs[k]) {
					okAll = false
				}
			}
			if !okAll {
				continue
			}
			ref := canon(full(outs[0].c.Go))
			for k := 1; k < len(outs); k++ {
				if canon(full(outs[k].c.Go)) != ref {
					t.violation("forms", "the same configuration evaluates differently in form "+formOf(0)+" and form "+formOf(k),
						map[string]any{"case": outs[0].c, "other": outs[k].c, "go": json.RawMessage(ref), "model_out": json.RawMessage(canon(full(outs[k].c.Go)))})
					break
				}
			}
			if len(outs[0].c.Flag.Rules)+len(outs[0].c.Flag.Targets)+len(outs[0].c.Store.Segments) > 0 {
				t.distinct[caseHash(outs[0].c)] = true
			}
			t.sample(map[string]any{"id": outs[0].c.ID, "result": outs[0].c.Go.Result})
		}
	}
	ut := newUnitTotals()
	runUnitStreams("C14", seed, []unitStream{
		{"preprocess", 6000, func(g *gen, id string) *UnitCase { return g.preprocessUnit(id) }},
		{"clause", 15000, func(g *gen, id string) *UnitCase { return g.clauseUnit(id) }},
		{"accessor", 15000, func(g *gen, id string) *UnitCase { return g.accessorUnit(id) }},
		{"keyaccessor", 15000, func(g *gen, id string) *UnitCase { return g.keyAccessorUnit(id) }},
	}, replayDir, ut)
	nv := reportUnitDisagreements("C14", append(t.dis, ut.dis...), replayDir)
	return t.frag("each configuration in four construction forms (hand-built plain, hand-built + Preprocess*, JSON-decoded, ldbuilders): full observable behaviour compared across forms on the real code and with the model for each; Preprocess* output dumps and preprocessed-vs-plain clause matching compared with the model; non-trivial = distinct configurations with rules, targets or segments", ut), nv
}

// ---------- C20 ----------

func hasKindClause(c *EvalCase) bool {
	chk := func(cs []WClause) bool {
		for _, cl := range cs {
			if cl.Attr.R == "kind" || cl.Attr.R == "/kind" || cl.Attr.S == "kind" {
				// a plain `kind in [...]` that does not list the added kind cannot start to match
				// because of it; anything else (negation, other operators) might
				if cl.Op != "in" || cl.Neg {
					return true
				}
				for _, v := range cl.Vals {
					if v.K != 's' || v.S == "zzkind" {
						return true
					}
				}
			}
		}
		return false
	}
	for _, f := range allFlags(c) {
		for _, r := range f.Rules {
			if chk(r.Clauses) {
				return true
			}
		}
	}
	for _, s := range c.Store.Segments {
		for _, r := range s.Rules {
			if chk(r.Clauses) {
				return true
			}
		}
	}
	return false
}

// ctxIndividuals: the individual contexts of a (valid) context, addressable for modification.
func ctxIndividuals(x *WCtx) []*WSCtx {
	switch x.T {
	case "single":
		return []*WSCtx{x.C}
	case "multi":
		out := []*WSCtx{}
		for i := range x.Cs {
			out = append(out, &x.Cs[i])
		}
		return out
	}
	return nil
}

// mentionsAttr: whether any clause or bucket-by of the evaluated flag, of a stored flag or of a
// stored segment could read the top-level attribute `name` (deliberately generous: any spelling
// of the reference that contains the name counts, so the relation is only evaluated where the
// attribute is certainly unreferenced).
func mentionsAttr(c *EvalCase, name string) bool {
	ref := func(w WRef) bool {
		if strings.Contains(w.R, name) || strings.Contains(w.S, name) || strings.Contains(w.Arg, name) {
			return true
		}
		for _, x := range w.C {
			if x == name {
				return true
			}
		}
		return false
	}
	cls := func(cs []WClause) bool {
		for _, cl := range cs {
			if ref(cl.Attr) {
				return true
			}
		}
		return false
	}
	for _, f := range allFlags(c) {
		for _, r := range f.Rules {
			if cls(r.Clauses) || ref(r.VR.RO.By) {
				return true
			}
		}
		if ref(f.FT.RO.By) {
			return true
		}
	}
	for _, s := range c.Store.Segments {
		for _, r := range s.Rules {
			if cls(r.Clauses) || ref(r.By) {
				return true
			}
		}
	}
	return false
}

func neverMatchRule() WFlagRule {
	return WFlagRule{ID: "dead-rule", VR: WVR{V: ip(0), RO: WRollout{Vars: []WWV{}, By: mkRef("", "")}},
		Clauses: []WClause{{Attr: mkRef("lit", "key"), Op: "in", Vals: []JV{}}}}
}

func shuffled[T any](r *rng, xs []T) []T {
	out := append([]T{}, xs...)
	moved := false
	for i := len(out) - 1; i > 0; i-- {
		j := r.intn(i + 1)
		out[i], out[j] = out[j], out[i]
		moved = moved || i != j
	}
	if !moved && len(out) > 1 {
		// never the identity: rotate by one instead
		out = append(out[1:], out[0])
	}
	return out
}

type perturbation struct {
	name  string
	apply func(r *rng, c *EvalCase) (*EvalCase, bool)
	// compare: "" if the relation holds between base and perturbed observations
	compare func(base, pert *WObs, bc, pc *EvalCase) string
}

func sameFull(a, b *WObs, _, _ *EvalCase) string {
	if canon(full(a)) != canon(full(b)) {
		return "observable behaviour changed"
	}
	return ""
}

func sameResult(a, b *WObs, _, _ *EvalCase) string {
	if canon(a.Result) != canon(b.Result) {
		return "result changed"
	}
	return ""
}

var perturbations = []perturbation{
	{"unreferenced-attribute", func(r *rng, c *EvalCase) (*EvalCase, bool) {
		n := cloneCase(c)
		add := func(s *WSCtx) {
			s.Attrs = append(s.Attrs, WAttr{"zz_unreferenced", pick(r, []JV{jStr("x"), jNum(1), jBool(true), jArr(jStr("a")), jObj(KV{"a", jStr("b")})})})
		}
		switch n.Ctx.T {
		case "single":
			add(n.Ctx.C)
		case "multi":
			add(&n.Ctx.Cs[r.intn(len(n.Ctx.Cs))])
		default:
			return nil, false
		}
		return n, true
	}, sameFull},
	{"remove-unreferenced-attribute", func(r *rng, c *EvalCase) (*EvalCase, bool) {
		// the converse of the addition: drop a custom attribute that nothing in scope names
		// (all entries of that name, so that no shadowed value becomes visible)
		n := cloneCase(c)
		scs := ctxIndividuals(&n.Ctx)
		if len(scs) == 0 {
			return nil, false
		}
		s := scs[r.intn(len(scs))]
		var cands []string
		for _, a := range s.Attrs {
			if !mentionsAttr(c, a.K) {
				cands = append(cands, a.K)
			}
		}
		if len(cands) == 0 {
			return nil, false
		}
		name := cands[r.intn(len(cands))]
		kept := []WAttr{}
		for _, a := range s.Attrs {
			if a.K != name {
				kept = append(kept, a)
			}
		}
		s.Attrs = kept
		return n, true
	}, sameFull},
	{"unreferenced-builtin", func(r *rng, c *EvalCase) (*EvalCase, bool) {
		// the built-in attributes `name` and `anonymous` are ordinary addressable attributes: when
		// nothing in scope names them, setting, changing or clearing them changes nothing
		n := cloneCase(c)
		scs := ctxIndividuals(&n.Ctx)
		if len(scs) == 0 {
			return nil, false
		}
		s := scs[r.intn(len(scs))]
		did := false
		if !mentionsAttr(c, "name") {
			switch {
			case s.Name == nil:
				s.Name = sp(pick(r, []string{"", "zz name", "key", "\u00e9"}))
			case r.intn(2) == 0:
				s.Name = nil
			default:
				s.Name = sp(*s.Name + "x")
			}
			did = true
		}
		if !mentionsAttr(c, "anonymous") && (!did || r.bool()) {
			s.Anon = !s.Anon
			did = true
		}
		return n, did
	}, sameFull},
	{"unreferenced-kind", func(r *rng, c *EvalCase) (*EvalCase, bool) {
		if hasKindClause(c) || c.Ctx.T == "invalid" {
			return nil, false
		}
		n := cloneCase(c)
		extra := WSCtx{Kind: "zzkind", Key: pick(r, keyPool), Attrs: []WAttr{{"a", jStr("a")}}}
		if n.Ctx.T == "single" {
			n.Ctx = WCtx{T: "multi", Cs: []WSCtx{*n.Ctx.C, extra}}
		} else {
			n.Ctx.Cs = append(n.Ctx.Cs, extra)
		}
		return n, true
	}, func(a, b *WObs, ac, bc *EvalCase) string {
		// the big-segment provider is keyed by context key only; nothing may change
		return sameFull(a, b, ac, bc)
	}},
	{"metadata", func(r *rng, c *EvalCase) (*EvalCase, bool) {
		n := cloneCase(c)
		m := &n.Flag.Meta
		m.Version += 1 + r.intn(5)
		m.Deleted = !m.Deleted
		m.Track = !m.Track
		m.CSA = WCSA{Mobile: r.bool(), Env: r.bool(), Explicit: r.bool()}
		m.Debug = fmt.Sprint(1600000000000 + r.intn(1000))
		m.Sampling = ip(r.intn(100))
		m.Mig = &WMig{CheckRatio: ip(r.intn(10))}
		n.Flag.Excl = !n.Flag.Excl
		return n, true
	}, sameFull},
	{"metadata-store", func(r *rng, c *EvalCase) (*EvalCase, bool) {
		// metadata of the flags and segments the evaluation *reaches through the store* (prerequisites,
		// referenced segments): everything that is neither used by evaluation nor reported in a
		// prerequisite event (version, track-events settings and excludeFromSummaries are reported)
		if len(c.Store.Flags)+len(c.Store.Segments) == 0 {
			return nil, false
		}
		n := cloneCase(c)
		for i := range n.Store.Flags {
			m := &n.Store.Flags[i].Meta
			m.Deleted = !m.Deleted
			m.CSA = WCSA{Mobile: r.bool(), Env: r.bool(), Explicit: r.bool()}
			m.Debug = fmt.Sprint(1600000000000 + r.intn(1000))
			m.Sampling = ip(r.intn(100))
			m.Mig = &WMig{CheckRatio: ip(r.intn(10))}
		}
		for i := range n.Store.Segments {
			n.Store.Segments[i].Deleted = !n.Store.Segments[i].Deleted
			n.Store.Segments[i].Version += 1 + r.intn(5)
		}
		return n, true
	}, sameFull},
	{"metadata-store-reported", func(r *rng, c *EvalCase) (*EvalCase, bool) {
		// version, trackEvents and excludeFromSummaries of the flags reached through the store: the
		// version and the exclusion setting are copied into the prerequisite event and nowhere else
		if len(c.Store.Flags) == 0 {
			return nil, false
		}
		n := cloneCase(c)
		for i := range n.Store.Flags {
			n.Store.Flags[i].Meta.Version += 1 + r.intn(5)
			n.Store.Flags[i].Meta.Track = !n.Store.Flags[i].Meta.Track
			n.Store.Flags[i].Excl = !n.Store.Flags[i].Excl
		}
		return n, true
	}, func(a, b *WObs, ac, bc *EvalCase) string {
		blank := func(o *WObs) *WObs {
			cp := *o
			cp.Events = append([]WEvent{}, o.Events...)
			for i := range cp.Events {
				cp.Events[i].Version, cp.Events[i].Excl = 0, false
			}
			return &cp
		}
		if canon(full(blank(a))) != canon(full(blank(b))) {
			return "observable behaviour changed beyond the version and excludeFromSummaries fields of the prerequisite events"
		}
		return ""
	}},
	{"reorder-clause-values", func(r *rng, c *EvalCase) (*EvalCase, bool) {
		n := cloneCase(c)
		changed := false
		for i := range n.Flag.Rules {
			for j := range n.Flag.Rules[i].Clauses {
				cl := &n.Flag.Rules[i].Clauses[j]
				if len(cl.Vals) > 1 && cl.Op != "segmentMatch" {
					cl.Vals = shuffled(r, cl.Vals)
					changed = true
				}
			}
		}
		for i := range n.Flag.Targets {
			if len(n.Flag.Targets[i].Vals) > 1 {
				n.Flag.Targets[i].Vals = shuffled(r, n.Flag.Targets[i].Vals)
				changed = true
			}
		}
		for i := range n.Flag.CTargets {
			if len(n.Flag.CTargets[i].Vals) > 1 {
				n.Flag.CTargets[i].Vals = shuffled(r, n.Flag.CTargets[i].Vals)
				changed = true
			}
		}
		return n, changed
	}, sameFull},
	{"reorder-store-values", func(r *rng, c *EvalCase) (*EvalCase, bool) {
		// the same reordering inside the flags and segments reached through the store: clause
		// values, target keys, included / excluded keys and per-kind key lists
		n := cloneCase(c)
		changed := false
		shuf := func(xs *[]string) {
			if len(*xs) > 1 {
				*xs = shuffled(r, *xs)
				changed = true
			}
		}
		clauses := func(cs []WClause) {
			for j := range cs {
				if len(cs[j].Vals) > 1 && cs[j].Op != "segmentMatch" {
					cs[j].Vals = shuffled(r, cs[j].Vals)
					changed = true
				}
			}
		}
		for fi := range n.Store.Flags {
			f := &n.Store.Flags[fi]
			for i := range f.Rules {
				clauses(f.Rules[i].Clauses)
			}
			for i := range f.Targets {
				shuf(&f.Targets[i].Vals)
			}
			for i := range f.CTargets {
				shuf(&f.CTargets[i].Vals)
			}
		}
		for si := range n.Store.Segments {
			s := &n.Store.Segments[si]
			shuf(&s.Inc)
			shuf(&s.Exc)
			for i := range s.IncC {
				shuf(&s.IncC[i].Vals)
			}
			for i := range s.ExcC {
				shuf(&s.ExcC[i].Vals)
			}
			for i := range s.Rules {
				clauses(s.Rules[i].Clauses)
			}
		}
		return n, changed
	}, sameFull},
	{"reorder-clauses", func(r *rng, c *EvalCase) (*EvalCase, bool) {
		n := cloneCase(c)
		changed := false
		for i := range n.Flag.Rules {
			if len(n.Flag.Rules[i].Clauses) > 1 {
				n.Flag.Rules[i].Clauses = shuffled(r, n.Flag.Rules[i].Clauses)
				changed = true
			}
		}
		return n, changed
	}, func(a, b *WObs, ac, bc *EvalCase) string {
		// only well-formed clauses are covered: if either side reports an error, the claim does
		// not apply. Lookup order naturally follows clause order; compare result and events.
		if isErr(a) && isErr(b) {
			return "" // which malformed clause is met first may legitimately change the message, not the fact
		}
		if isErr(a) != isErr(b) {
			// legitimate only when a malformed clause sits behind one that decides the rule
			for i := range ac.Flag.Rules {
				for _, cl := range ac.Flag.Rules[i].Clauses {
					if cl.Attr.E != "" || (cl.Attr.Ctor == "" && cl.Op != "segmentMatch") || cl.Op == "segmentMatch" {
						return ""
					}
				}
			}
			return "reordering well-formed clauses turned a result into an error (or back)"
		}
		if canon([]any{a.Result, a.Events}) != canon([]any{b.Result, b.Events}) {
			return "result changed"
		}
		sortedSet := func(xs []string) string {
			ys := append([]string{}, xs...)
			sortStrings(ys)
			return canon(ys)
		}
		if sortedSet(a.BSQueries) != sortedSet(b.BSQueries) && canon(a.SegLookups) == canon(b.SegLookups) {
			return "the big-segment store was queried differently although the same segments were looked up"
		}
		return ""
	}},
	{"append-rule", func(r *rng, c *EvalCase) (*EvalCase, bool) {
		n := cloneCase(c)
		g := &gen{r: r, p: profiles["wellformed"]}
		g.ctxKeys = ctxKeysOf(&n.Ctx)
		rule := WFlagRule{ID: "appended", VR: g.vr(len(n.Flag.Vars)), Clauses: []WClause{g.clause(nil)}}
		n.Flag.Rules = append(n.Flag.Rules, rule)
		return n, true
	}, func(a, b *WObs, ac, bc *EvalCase) string {
		if a.Result.Reason.Kind == "FALLTHROUGH" || a.Result.Reason.Kind == "ERROR" {
			// no deciding rule (an error result may stem from the fallthrough's own variation
			// selection): an appended rule may legitimately take over
			return ""
		}
		return sameFull(a, b, ac, bc)
	}},
	{"insert-dead-rule", func(r *rng, c *EvalCase) (*EvalCase, bool) {
		n := cloneCase(c)
		pos := r.intn(len(n.Flag.Rules) + 1)
		if r.bool() {
			pos = 0 // in front of every rule, hence in front of the deciding one whenever there is one
		}
		rules := append([]WFlagRule{}, n.Flag.Rules[:pos]...)
		rules = append(rules, neverMatchRule())
		rules = append(rules, n.Flag.Rules[pos:]...)
		n.Flag.Rules = rules
		n.Tags = append(n.Tags, fmt.Sprintf("deadpos=%d", pos))
		return n, true
	}, func(a, b *WObs, ac, bc *EvalCase) string {
		pos := 0
		for _, tg := range bc.Tags {
			fmt.Sscanf(tg, "deadpos=%d", &pos)
		}
		x, y := *a, *b
		if x.Result.Reason.Kind == "RULE_MATCH" && y.Result.Reason.Kind == "RULE_MATCH" {
			want := x.Result.Reason.RuleIndex
			if want >= pos {
				want++
			}
			if y.Result.Reason.RuleIndex != want {
				return fmt.Sprintf("rule index is %d, expected %d", y.Result.Reason.RuleIndex, want)
			}
			y.Result.Reason.RuleIndex = x.Result.Reason.RuleIndex
		}
		// legacy IsExperiment reads the rule's trackEvents through the index, which shifts consistently
		return sameFull(&x, &y, ac, bc)
	}},
}

func checkC20(seed uint64, replayDir, corpusDir string) (map[string]any, int) {
	t := newRelTotals("C20")
	n := 3000 * tierScale()
	base := newRng(seed ^ hashStr("C20"))
	const batch = 500
	type meta struct{ perts []int }
	for start := 0; start < n; start += batch {
		groups := [][]*EvalCase{}
		metas := []meta{}
		for i := start; i < start+batch && i < n; i++ {
			r := base.fork()
			c := genStream(pick(r, []string{"wellformed", "segments", "targets", "rollouts", "bigseg", "prereqs", "bucketdense", "operators", "dateops"}), r, fmt.Sprintf("C20/%d/%d", seed, i))
			if c.Ctx.T == "invalid" {
				continue
			}
			g := []*EvalCase{c}
			m := meta{}
			for pi, p := range perturbations {
				if pc, ok := p.apply(r, c); ok {
					pc.ID = c.ID + "#" + p.name
					g = append(g, pc)
					m.perts = append(m.perts, pi)
				}
			}
			groups = append(groups, g)
			metas = append(metas, m)
		}
		for gi, outs := range runVariants(groups) {
			okBase := modelAgreement(t, "base", &outs[0])
			t.evaluations++
			if !okBase {
				continue
			}
			for k := 1; k < len(outs); k++ {
				p := perturbations[metas[gi].perts[k-1]]
				t.evaluations++
				t.counts[p.name]++
				if !modelAgreement(t, p.name, &outs[k]) {
					continue
				}
				if msg := p.compare(outs[0].c.Go, outs[k].c.Go, outs[0].c, outs[k].c); msg != "" {
					// open finding F6: clause order decides whether an unbounded segment is reached
					if p.name == "reorder-clauses" && onlyBSSDiffers(outs[0].c.Go, outs[k].c.Go) {
						if kf := knownFor("C20", "clause-order-bigseg-status"); kf != nil {
							if !t.knownSeen[kf.id] {
								t.knownSeen[kf.id] = true
								t.known = append(t.known, kf.id)
								fmt.Printf("KNOWN-FINDING: property=C20 %s: reordering clauses changes only the big-segments status annotation when an unbounded segment sits behind a short-circuited clause\n", kf.id)
							}
							continue
						}
					}
					t.violation(p.name, "perturbation '"+p.name+"' changed the evaluation: "+msg,
						map[string]any{"case": outs[0].c, "other": outs[k].c, "go": json.RawMessage(canon(full(outs[0].c.Go))), "model_out": json.RawMessage(canon(full(outs[k].c.Go)))})
					continue
				}
				t.distinct[p.name+caseHash(outs[k].c)] = true
			}
			t.sample(map[string]any{"id": outs[0].c.ID, "perturbations": len(outs) - 1, "result": outs[0].c.Go.Result})
		}
	}
	nv := reportUnitDisagreements("C20", t.dis, replayDir)
	return t.frag("(configuration, context) pairs x twelve perturbation families (unreferenced attribute added, unreferenced attribute removed, unreferenced built-in name / anonymous changed, unreferenced kind, metadata of the evaluated flag, metadata of stored flags and segments, reported metadata of stored flags modulo the event fields that carry it, value/key order in the evaluated flag and in stored flags and segments, clause order, appended rule, inserted never-matching rule): relation evaluated on the real code's full observable behaviour (oracle-free), model agreement on both sides; non-trivial = distinct perturbed cases on which the relation was evaluated", nil), nv
}

func onlyBSSDiffers(a, b *WObs) bool {
	x, y := *a, *b
	if canon(x.Result.Reason.BSS) == canon(y.Result.Reason.BSS) {
		return false
	}
	x.Result.Reason.BSS, y.Result.Reason.BSS = nil, nil
	if canon([]any{x.Result, x.Events}) != canon([]any{y.Result, y.Events}) {
		return false
	}
	// the finding: the reordering changed WHICH segments were reached before a clause decided the
	// rule (so one side met an unbounded segment the other never looked at). With identical
	// lookups, queries and membership checks a different status is not that finding.
	return canon([]any{a.SegLookups, a.BSQueries, a.MemChecks}) != canon([]any{b.SegLookups, b.BSQueries, b.MemChecks})
}

// ---------- C12 ----------

type mutableStore struct {
	cur *realStore
}

func (m *mutableStore) GetFeatureFlag(k string) *ldmodel.FeatureFlag { return m.cur.GetFeatureFlag(k) }
func (m *mutableStore) GetSegment(k string) *ldmodel.Segment         { return m.cur.GetSegment(k) }

func snapshot(store *realStore, flag *ldmodel.FeatureFlag, ctx ldcontext.Context) string {
	var sb strings.Builder
	sb.WriteString(flagDumpJSON(flag))
	sb.WriteString(capDump(flag)) // every field, exported or not, slices up to their capacity
	keys := []string{}
	for k := range store.flags {
		keys = append(keys, k)
	}
	sortStrings(keys)
	for _, k := range keys {
		sb.WriteString(flagDumpJSON(store.flags[k]))
		sb.WriteString(capDump(store.flags[k]))
	}
	keys = keys[:0]
	for k := range store.segments {
		keys = append(keys, k)
	}
	sortStrings(keys)
	for _, k := range keys {
		sb.WriteString(segDumpJSON(store.segments[k]))
		sb.WriteString(capDump(store.segments[k]))
	}
	sb.WriteString(canon(dumpCtx(ctx, "")))
	sb.WriteString(capDump(ctx))
	return sb.String()
}

func checkC12(seed uint64, replayDir, corpusDir string) (map[string]any, int) {
	t := newRelTotals("C12")
	histories := 400 * tierScale()
	base := newRng(seed ^ hashStr("C12"))
	var modelCases []*EvalCase
	for h := 0; h < histories; h++ {
		r := base.fork()
		// one evaluator for the whole history; option set fixed at construction
		opts := WOpts{Sec: r.bool(), Log: r.bool(), Rec: true, shape: r.next()}
		prov := &WBS{Dflt: WBSAnswer{St: "HEALTHY"}}
		useBS := r.chance(4, 5)
		ms := &mutableStore{cur: &realStore{flags: map[string]*ldmodel.FeatureFlag{}, segments: map[string]*ldmodel.Segment{}}}
		var bsp *WBS
		if useBS {
			bsp = prov
		}
		shared := newSetupWithProvider(&opts, ms, bsp)
		steps := 5 + r.intn(30)
		var prev *EvalCase
		var builtStore *realStore
		var builtFlag *ldmodel.FeatureFlag
		hist := []*EvalCase{}
		for s := 0; s < steps; s++ {
			var c *EvalCase
			samePointers := false
			if prev != nil && r.chance(1, 4) {
				c = cloneCase(prev) // the same call repeated: the very same flag and store objects,
				samePointers = true // sometimes for another context
				if r.bool() {
					gg := &gen{r: r.fork(), p: profiles["wellformed"]}
					c.Ctx = gg.context()
					c.ID = fmt.Sprintf("C12/%d/%d/%d", seed, h, s)
				}
			} else if prev != nil && r.chance(1, 2) {
				// the same flag and context again, but the store has moved on: items replaced by
				// other content under the same key (same or different version), deleted, re-added
				fresh := genStream(pick(r, []string{"bigseg", "segments", "prereqs"}), r.fork(), "x")
				c = cloneCase(prev)
				c.ID = fmt.Sprintf("C12/%d/%d/%d", seed, h, s)
				c.Store = mutateStore(r, &prev.Store, &fresh.Store)
				gg := &gen{r: r.fork(), p: profiles["bigseg"]}
				gg.ctxKeys = ctxKeysOf(&c.Ctx)
				c.BS = gg.bigSegProvider(&c.Ctx, append(append([]WSegment{}, c.Store.Segments...), prev.Store.Segments...))
			} else {
				c = genStream(pick(r, []string{"wellformed", "prereqs", "bigseg", "segments", "malformed", "manykinds", "targets", "graphs", "wide", "operators", "bucketdense", "segarray", "segarray"}), r.fork(), fmt.Sprintf("C12/%d/%d/%d", seed, h, s))
				if prev != nil && r.chance(1, 2) {
					// the next call sees an updated version of the previous store: some items replaced, some deleted
					c.Store = mutateStore(r, &prev.Store, &c.Store)
				}
			}
			c.Opts = opts
			if useBS && c.BS != nil {
				*prov = *c.BS
			} else if useBS {
				*prov = WBS{Dflt: WBSAnswer{St: "HEALTHY"}}
			}
			c.BS = nil
			if useBS {
				cp := *prov
				c.BS = &cp
			}
			hist = append(hist, c)
			prev = c
			func() {
				defer func() {
					if rec := recover(); rec != nil {
						t.violation("history", fmt.Sprintf("panic: %v", rec), map[string]any{"history": hist})
					}
				}()
				store := buildStore(&c.Store)
				flag := c.Flag.build()
				if samePointers && builtStore != nil {
					store, flag = builtStore, builtFlag
				}
				builtStore, builtFlag = store, flag
				ctx := c.Ctx.build()
				ms.cur = store
				before := snapshot(store, flag, ctx)
				keys := logKeysFor(c)
				rec := !r.chance(1, 4) // some calls of a history have no event recorder
				c.Opts.Rec = rec
				o1 := shared.evalOnce(flag, ctx, rec, keys)
				after := snapshot(store, flag, ctx)
				fresh := newSetup(&opts, store, c.BS)
				o2 := fresh.evalOnce(flag, ctx, rec, keys)
				o3 := shared.evalOnce(flag, ctx, rec, keys) // repeated call
				t.evaluations++
				t.counts["steps"]++
				if before != after {
					t.violation("history", "evaluation modified its inputs (flag, segments, context or their precomputed data)", map[string]any{"history": hist})
					return
				}
				if canon(full(&o1)) != canon(full(&o2)) {
					t.violation("history", fmt.Sprintf("after %d earlier calls the evaluator answers differently from a freshly constructed one", s),
						map[string]any{"history": hist, "go": json.RawMessage(canon(full(&o1))), "model_out": json.RawMessage(canon(full(&o2)))})
					return
				}
				if canon(full(&o1)) != canon(full(&o3)) {
					t.violation("history", "repeating the call gives a different answer", map[string]any{"history": hist})
					return
				}
				if s > 0 {
					t.distinct[caseHash(c)] = true
				}
			}()
			{
				mc := cloneCase(c)
				mc.ID = c.ID + "#model"
				modelCases = append(modelCases, mc)
			}
		}
		t.sample(map[string]any{"history_length": steps, "options": opts, "last_case_id": prev.ID})
	}
	// the stateless model answers each call of a history like the real (history-laden) evaluator:
	// every call of every history also goes through the ordinary pipeline
	for _, o := range runEvalBatch(modelCases) {
		oc := o
		t.evaluations++
		modelAgreement(t, "history-model", &oc)
	}
	nv := reportUnitDisagreements("C12", t.dis, replayDir)
	return t.frag("histories of 5-35 calls against ONE evaluator while the store changes between calls (items replaced by other versions, deleted, re-added; repeated calls): each call compared with a freshly constructed evaluator and with its own repetition; deep snapshots (all exported fields + preprocessed tables + context) before/after each call; non-trivial = distinct calls made after at least one earlier call", nil), nv
}

// mutateStore derives the next store from the previous one: keeps some items, replaces some by
// the new generation's items with the same keys, deletes some.
func mutateStore(r *rng, prev, next *WStore) WStore {
	out := WStore{Flags: []WFlag{}, Segments: []WSegment{}}
	newF := map[string]WFlag{}
	for _, f := range next.Flags {
		newF[f.Key] = f
	}
	seen := map[string]bool{}
	for _, f := range prev.Flags {
		switch r.intn(3) {
		case 0: // keep the old version
			out.Flags = append(out.Flags, f)
			seen[f.Key] = true
		case 1: // replace by the new version if there is one
			if nf, ok := newF[f.Key]; ok {
				if r.bool() { // deleted and re-added with the version counter restarted: same key AND version, other content
					nf.Meta.Version = f.Meta.Version
				}
				out.Flags = append(out.Flags, nf)
				seen[f.Key] = true
			}
		}
	}
	for _, f := range next.Flags {
		if !seen[f.Key] && r.bool() {
			out.Flags = append(out.Flags, f)
		}
	}
	newS := map[string]WSegment{}
	for _, s := range next.Segments {
		newS[s.Key] = s
	}
	seenS := map[string]bool{}
	for _, s := range prev.Segments {
		switch r.intn(3) {
		case 0:
			out.Segments = append(out.Segments, s)
			seenS[s.Key] = true
		case 1:
			if ns, ok := newS[s.Key]; ok {
				if r.bool() {
					ns.Version = s.Version
				}
				out.Segments = append(out.Segments, ns)
				seenS[s.Key] = true
			} else if r.bool() {
				// same key and version, only the generation / lists differ
				ns := s
				if ns.Gen != nil {
					ns.Gen = ip(*ns.Gen + 1)
				}
				ns.Inc, ns.Exc = ns.Exc, ns.Inc
				out.Segments = append(out.Segments, ns)
				seenS[s.Key] = true
			}
		}
	}
	for _, s := range next.Segments {
		if !seenS[s.Key] && r.bool() {
			out.Segments = append(out.Segments, s)
		}
	}
	return out
}

func sortStrings(xs []string) {
	for i := 1; i < len(xs); i++ {
		for j := i; j > 0 && xs[j] < xs[j-1]; j-- {
			xs[j], xs[j-1] = xs[j-1], xs[j]
		}
	}
}

package main

// C03 (and the key lists of C05) on keys that are not valid UTF-8. Go strings are byte strings and a
// context built programmatically may carry any bytes as its key; the line protocol and the model
// cannot (JSON would rewrite them), so this is a relation between two runs of the real code:
// membership in a key list is exact equality, hence renaming keys INJECTIVELY — here: some of them
// to byte strings that are invalid UTF-8, among them pairs that any "repair" to U+FFFD would
// identify — cannot change which list holds the context, as long as nothing hashes or parses a key
// (rollouts and rules are stripped from these cases).

import (
	"fmt"
)

var evilKeys = []string{"Jos\xe8", "Jos\xe9", "Jos�", "\xff", "\xfe\xff", "a\xc0\xaf", "caf\xe9-42", "caf�-42", "\xed\xa0\x80", "Jos\xe8\xe9", "\x80"}

var ctxBuilderOnly bool // contexts through the builder only (a JSON round trip would rewrite invalid bytes)

func byteKeyCheck(seed uint64, n int) (int, []map[string]any) {
	ctxBuilderOnly = true
	defer func() { ctxBuilderOnly = false }()
	base := newRng(seed ^ hashStr("C03/bytekeys"))
	var dis []map[string]any
	done := 0
	for i := 0; i < n; i++ {
		r := base.fork()
		c := genStream0(pick(r, []string{"targets", "targets", "segments", "prereqs"}), r.fork(), fmt.Sprintf("C03/bytekeys/%d/%d", seed, i))
		if c.Ctx.T == "invalid" {
			continue
		}
		legacy := false
		eachCtx(&c.Ctx, func(s *WSCtx) { legacy = legacy || s.Legacy || s.Sec != nil })
		if legacy {
			continue
		}
		// nothing may hash or parse a key: fixed variations only, no rules (segments are then unreachable)
		strip := func(f *WFlag) {
			f.Rules = []WFlagRule{}
			zero := 0
			f.FT = WVR{V: &zero, RO: WRollout{Vars: []WWV{}, By: mkRef("", "")}}
			if f.Form == "json" || f.Form == "builder" {
				f.Form = "pre"
			}
		}
		strip(&c.Flag)
		for j := range c.Store.Flags {
			strip(&c.Store.Flags[j])
		}
		c.Store.Segments = []WSegment{}
		c.BS = nil
		// the strings that act as keys, and an injective renaming of some of them
		keys := []string{}
		seen := map[string]bool{}
		add := func(k string) {
			if !seen[k] {
				seen[k] = true
				keys = append(keys, k)
			}
		}
		eachCtx(&c.Ctx, func(s *WSCtx) { add(s.Key) })
		eachTarget(c, func(t *WTarget) {
			for _, v := range t.Vals {
				add(v)
			}
		})
		ren := map[string]string{}
		perm := append([]string{}, evilKeys...)
		for j := len(perm) - 1; j > 0; j-- {
			k := r.intn(j + 1)
			perm[j], perm[k] = perm[k], perm[j]
		}
		for _, k := range keys {
			if len(perm) > 0 && !seen[perm[0]] && k != "" && r.chance(2, 3) {
				ren[k] = perm[0]
				perm = perm[1:]
			}
		}
		if len(ren) == 0 {
			continue
		}
		a := cloneCase(c)
		eachCtx(&a.Ctx, func(s *WSCtx) {
			if v, ok := ren[s.Key]; ok {
				s.Key = v
			}
		})
		eachTarget(a, func(t *WTarget) {
			for j, v := range t.Vals {
				if nv, ok := ren[v]; ok {
					t.Vals[j] = nv
				}
			}
		})
		run := func(x *EvalCase) (out string) {
			defer func() {
				if rec := recover(); rec != nil {
					out = fmt.Sprintf("panic: %v", rec)
				}
			}()
			store := buildStore(&x.Store)
			setup := newSetup(&WOpts{Log: true, Rec: true}, store, nil)
			o := setup.evalOnce(x.Flag.build(), x.Ctx.build(), true, nil)
			o.Logs, o.RawLogs = nil, nil
			return canon([]any{o.Outcome, o.Result, o.Events, o.FlagLookups})
		}
		ra, rb := run(a), run(c)
		done++
		if ra != rb && len(dis) < 5 {
			dis = append(dis, map[string]any{"kind": "predicate", "stream": "bytekeys", "property": "C03",
				"message": "renaming keys injectively to byte strings that are not valid UTF-8 changed the evaluation (key lists are exact string equality)",
				"renaming": fmt.Sprintf("%q", ren), "with_valid_keys": rb, "with_byte_keys": ra, "case_with_valid_keys": c})
		}
	}
	return done, dis
}

func eachCtx(c *WCtx, f func(*WSCtx)) {
	if c.T == "single" && c.C != nil {
		f(c.C)
	}
	for i := range c.Cs {
		f(&c.Cs[i])
	}
}

func eachTarget(c *EvalCase, f func(*WTarget)) {
	visit := func(fl *WFlag) {
		for i := range fl.Targets {
			f(&fl.Targets[i])
		}
		for i := range fl.CTargets {
			f(&fl.CTargets[i])
		}
	}
	visit(&c.Flag)
	for i := range c.Store.Flags {
		visit(&c.Store.Flags[i])
	}
}

package main

import (
	"encoding/json"
	"io"
)

var errEOF = io.EOF

type jsonRaw = json.RawMessage

func jsonMarshal(v any) ([]byte, error)   { return json.Marshal(v) }
func jsonUnmarshal(d []byte, v any) error { return json.Unmarshal(d, v) }

// rng: splitmix64; every random choice in the harness derives from one seeded state.
type rng struct{ s uint64 }

func newRng(seed uint64) *rng { return &rng{s: seed*0x9E3779B97F4A7C15 + 0x1234567} }

func (r *rng) next() uint64 {
	r.s += 0x9E3779B97F4A7C15
	z := r.s
	z = (z ^ (z >> 30)) * 0xBF58476D1CE4E5B9
	z = (z ^ (z >> 27)) * 0x94D049BB133111EB
	return z ^ (z >> 31)
}

func (r *rng) intn(n int) int {
	if n <= 0 {
		return 0
	}
	return int(r.next() % uint64(n))
}

func (r *rng) chance(num, den int) bool { return r.intn(den) < num }
func (r *rng) bool() bool               { return r.next()&1 == 1 }
func (r *rng) fork() *rng               { return &rng{s: r.next()} }

func pick[T any](r *rng, xs []T) T { return xs[r.intn(len(xs))] }

func ip(i int) *int       { return &i }
func sp(s string) *string { return &s }

func bytesReader(b []byte) *bytesRd { return &bytesRd{b: b} }

type bytesRd struct {
	b []byte
	i int
}

func (r *bytesRd) Read(p []byte) (int, error) {
	if r.i >= len(r.b) {
		return 0, errEOF
	}
	n := copy(p, r.b[r.i:])
	r.i += n
	return n, nil
}

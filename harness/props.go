package main

// Per-property correspondence: which streams feed it, which observables are compared (the
// projection of DESIGN.md section 5), which predicates are evaluated directly on Go's outputs, and
// when a case counts as non-trivial for the property.

import (
	"crypto/sha1"
	"encoding/hex"
	"encoding/json"
	"fmt"
	"sort"
	"strconv"
	"strings"
)

type stream struct {
	name  string
	quick int // number of cases in the quick tier
}

type propSpec struct {
	id      string
	streams []stream
	// proj: the observables the property's theorems speak about
	proj func(o *WObs) any
	// goPred: a predicate of the property evaluated directly on the real code's behaviour;
	// returns "" if it holds, else what fails
	goPred func(c *EvalCase, out *evalOutcome) string
	// nontrivial: did the case reach the property's mechanism?
	nontrivial func(c *EvalCase) bool
	rule       string
	// unit streams (exact single-function comparisons) that belong to the property
	units []unitStream
}

func core(o *WObs) []any {
	r := o.Result
	return []any{r.Value, r.Index, r.Reason.Kind, r.Reason.RuleIndex, r.Reason.RuleID, r.Reason.PrereqKey, r.Reason.ErrorKind}
}

func full(o *WObs) any {
	return []any{o.Outcome, o.Result, o.Events, o.Logs, o.FlagLookups, o.SegLookups, o.BSQueries, o.MemChecks}
}

func expBits(o *WObs) any {
	ev := []any{}
	for _, e := range o.Events {
		ev = append(ev, []any{e.Prereq, e.Result.Reason.InExp, e.Result.IsExp})
	}
	return []any{o.Result.Reason.InExp, o.Result.IsExp, ev}
}

func anyClause(f *WFlag, pred func(*WClause) bool) bool {
	for i := range f.Rules {
		for j := range f.Rules[i].Clauses {
			if pred(&f.Rules[i].Clauses[j]) {
				return true
			}
		}
	}
	return false
}

func allFlags(c *EvalCase) []*WFlag {
	out := []*WFlag{&c.Flag}
	for i := range c.Store.Flags {
		out = append(out, &c.Store.Flags[i])
	}
	return out
}

func hasRollout(f *WFlag) bool {
	if f.FT.V == nil && len(f.FT.RO.Vars) > 0 {
		return true
	}
	for _, r := range f.Rules {
		if r.VR.V == nil && len(r.VR.RO.Vars) > 0 {
			return true
		}
	}
	return false
}

func isErr(o *WObs) bool { return o.Result.Reason.Kind == "ERROR" }

var propSpecs = map[string]*propSpec{
	"C01": {
		id:      "C01",
		streams: []stream{{"malformed", 12000}, {"wellformed", 6000}, {"graphs", 1500}, {"prereqs", 3000}, {"bigseg", 3000}, {"operators", 3000}, {"segprobe", 2000}, {"segarray", 1500}, {"manykinds", 1000}, {"wide", 500}, {"bucketedge", 1500}},
		proj: func(o *WObs) any {
			return []any{o.Outcome == "done", o.Result.Index != nil, o.Result.Reason.Kind == "ERROR", o.Result.Reason.ErrorKind}
		},
		goPred: func(c *EvalCase, out *evalOutcome) string {
			g := c.Go
			if g.Outcome != "done" {
				return "evaluation did not complete normally: " + g.Outcome + " " + g.Panic
			}
			if wf, ok := out.pred["wellformed"].(bool); !ok || !wf {
				return "result is not well-formed"
			}
			if ewf, ok := out.pred["eventsWellformed"].(bool); ok && !ewf {
				return "a prerequisite event carries a result that is not well-formed"
			}
			if c.Ctx.T == "invalid" {
				ek := ""
				if g.Result.Reason.ErrorKind != nil {
					ek = *g.Result.Reason.ErrorKind
				}
				if ek != "USER_NOT_SPECIFIED" {
					return "invalid context did not yield USER_NOT_SPECIFIED"
				}
				if len(g.FlagLookups)+len(g.SegLookups)+len(g.BSQueries)+len(g.Events) > 0 {
					return "invalid context consulted the data store"
				}
			}
			return ""
		},
		nontrivial: func(c *EvalCase) bool { return c.Go != nil && (isErr(c.Go) || c.Go.Result.Index == nil) },
		rule:       "malformed/wellformed/graph/prerequisite streams; non-trivial = the real evaluation ended in an error result or a result without index",
	},
	"C02": {
		id:      "C02",
		streams: []stream{{"wellformed", 12000}, {"prereqs", 4000}, {"targets", 3000}, {"wide", 800}, {"operators", 5000}, {"malformed", 3000}, {"bigseg", 2000}},
		proj:    func(o *WObs) any { return core(o) },
		nontrivial: func(c *EvalCase) bool {
			// at least two stages present in the evaluated flag
			n := 0
			if len(c.Flag.Prereqs) > 0 {
				n++
			}
			if len(c.Flag.Targets)+len(c.Flag.CTargets) > 0 {
				n++
			}
			if len(c.Flag.Rules) > 1 {
				n++
			}
			return c.Flag.On && n >= 2
		},
		rule: "wellformed/prereqs/targets streams; non-trivial = flag is on and has at least two of {prerequisites, targets, >1 rules}",
	},
	"C03": {
		units: []unitStream{
			{"keyaccessor", 15000, func(g *gen, id string) *UnitCase { return g.keyAccessorUnit(id) }},
		},
		id:      "C03",
		streams: []stream{{"targets", 15000}, {"wellformed", 4000}, {"wide", 800}, {"manykinds", 3000}},
		proj: func(o *WObs) any {
			if o.Result.Reason.Kind == "TARGET_MATCH" {
				return []any{true, o.Result.Index}
			}
			return []any{false}
		},
		nontrivial: func(c *EvalCase) bool { return c.Go != nil && c.Go.Result.Reason.Kind == "TARGET_MATCH" },
		rule:       "target-list stream over both flag forms; non-trivial = the real result is TARGET_MATCH",
	},
	"C04": {
		id:      "C04",
		streams: []stream{{"operators", 40000}, {"wellformed", 4000}, {"wide", 800}, {"segarray", 2000}},
		proj: func(o *WObs) any {
			return []any{o.Result.Reason.Kind, o.Result.Reason.ErrorKind, o.Result.Reason.RuleIndex}
		},
		nontrivial: func(c *EvalCase) bool { return c.Go != nil && c.Go.Result.Reason.Kind == "RULE_MATCH" },
		rule:       "operator probe flags (every operator x negate x value-pool pairs x addressing x context shape); non-trivial = the probe rule matched",
		units: []unitStream{
			{"clause", 30000, func(g *gen, id string) *UnitCase { return g.clauseUnit(id) }},
			{"semver", 20000, func(g *gen, id string) *UnitCase { return g.semverUnit(id) }},
			{"accessor", 20000, func(g *gen, id string) *UnitCase { return g.accessorUnit(id) }},
		},
	},
	"C05": {
		id:      "C05",
		streams: []stream{{"segments", 15000}, {"segprobe", 8000}, {"bucketdense", 4000}, {"segsplit", 3000}, {"wide", 800}, {"bucketedge", 1500}, {"segarray", 2000}},
		proj: func(o *WObs) any {
			return []any{o.Result.Reason.Kind, o.Result.Reason.ErrorKind, o.Result.Reason.RuleIndex, o.SegLookups}
		},
		nontrivial: func(c *EvalCase) bool { return c.Go != nil && len(c.Go.SegLookups) > 0 },
		rule:       "segment streams; non-trivial = a segment was looked up by the real evaluation",
	},
	"C06": {
		id:      "C06",
		streams: []stream{{"rollouts", 6000}, {"bucketsplit", 6000}, {"bucketdense", 4000}, {"bucketedge", 2000}},
		proj:    func(o *WObs) any { return []any{o.Result.Index, o.Result.Reason.Kind, o.Result.Reason.ErrorKind} },
		nontrivial: func(c *EvalCase) bool {
			for _, f := range allFlags(c) {
				if hasRollout(f) {
					return true
				}
			}
			return false
		},
		rule: "unit bucket/buffer/hex cases compared bit-exactly plus public-API rollouts with adjacent split points; non-trivial = a rollout exists in the configuration",
		units: []unitStream{
			{"bucket", 60000, func(g *gen, id string) *UnitCase { return g.bucketUnit(id) }},
			{"buffer", 10000, func(g *gen, id string) *UnitCase { return g.bufferUnit(id) }},
			{"hex", 10000, func(g *gen, id string) *UnitCase { return g.hexUnit(id) }},
		},
	},
	"C07": {
		id:      "C07",
		streams: []stream{{"bucketsplit", 10000}, {"rollouts", 6000}, {"bucketdense", 3000}, {"segsplit", 3000}, {"wide", 800}, {"bucketedge", 4000}},
		proj:    func(o *WObs) any { return []any{o.Result.Index, o.Result.Reason.Kind, o.Result.Reason.ErrorKind} },
		nontrivial: func(c *EvalCase) bool {
			return hasRollout(&c.Flag)
		},
		rule: "rollouts with split points adjacent to the context's bucket, degenerate weight vectors; non-trivial = the evaluated flag has a rollout",
	},
	"C08": {
		id:      "C08",
		streams: []stream{{"rollouts", 12000}, {"wellformed", 4000}, {"prereqs", 3000}, {"bucketsplit", 3000}, {"bucketedge", 4000}},
		proj:    expBits,
		nontrivial: func(c *EvalCase) bool {
			for _, f := range allFlags(c) {
				if f.FT.RO.Kind == "experiment" {
					return true
				}
				for _, r := range f.Rules {
					if r.VR.RO.Kind == "experiment" {
						return true
					}
				}
			}
			return false
		},
		rule: "experiments x untracked x degenerate weights x contexts with/without the kind x legacy tracking flags; non-trivial = an experiment rollout exists",
	},
	"C09": {
		id:      "C09",
		streams: []stream{{"prereqs", 12000}, {"graphs", 2000}, {"malformed", 3000}, {"wide", 800}, {"bigseg", 3000}, {"manykinds", 1000}, {"bucketdense", 2000}},
		proj:    func(o *WObs) any { return []any{core(o), o.Events, o.FlagLookups} },
		goPred: func(c *EvalCase, out *evalOutcome) string {
			if !c.Go.EventsOK {
				return "an event did not carry the call's context / the store's flag"
			}
			return ""
		},
		nontrivial: func(c *EvalCase) bool { return c.Go != nil && len(c.Go.FlagLookups) > 0 },
		rule:       "prerequisite graphs with fan-out and shared sub-prerequisites; non-trivial = at least one prerequisite lookup happened",
	},
	"C10": {
		id:      "C10",
		streams: []stream{{"graphs", 6000}, {"malformed", 4000}},
		proj: func(o *WObs) any {
			return []any{o.Outcome, o.Result.Reason.Kind, o.Result.Reason.ErrorKind, o.Events, o.FlagLookups, o.SegLookups}
		},
		goPred: func(c *EvalCase, out *evalOutcome) string {
			if c.Go.Outcome == "crash" || c.Go.Outcome == "timeout" {
				return "evaluation did not terminate normally: " + c.Go.Outcome
			}
			return ""
		},
		nontrivial: func(c *EvalCase) bool {
			return c.Go != nil && len(c.Go.FlagLookups)+len(c.Go.SegLookups) > 1
		},
		rule: "reference graphs by shape (self-loops, cycles, diamonds, chains to depth 60); non-trivial = at least two store lookups",
	},
	"C11": {
		id:      "C11",
		streams: []stream{{"bigseg", 15000}, {"manykinds", 3000}, {"malformed", 3000}, {"statuspairs", 504}},
		proj: func(o *WObs) any {
			return []any{o.Result.Reason.BSS, o.BSQueries, o.MemChecks, core(o)}
		},
		goPred: func(c *EvalCase, out *evalOutcome) string {
			seen := map[string]bool{}
			for _, k := range c.Go.BSQueries {
				if seen[k] {
					return "GetMembership called twice for context key " + k
				}
				seen[k] = true
			}
			return ""
		},
		nontrivial: func(c *EvalCase) bool {
			return c.Go != nil && (c.Go.Result.Reason.BSS != nil || len(c.Go.BSQueries) > 0)
		},
		rule: "big and regular segments from rules, nested segments and prerequisites x multi-kind contexts x store outcomes; non-trivial = a status was reported or the provider was queried",
	},
	"C18": {
		id:      "C18",
		streams: []stream{{"dateops", 20000}},
		proj: func(o *WObs) any {
			return []any{o.Result.Reason.Kind, o.Result.Reason.ErrorKind, o.Result.Reason.RuleIndex}
		},
		goPred: func(c *EvalCase, out *evalOutcome) string {
			if c.Go.Outcome != "done" {
				return "before/after evaluation did not complete normally: " + c.Go.Outcome + " " + c.Go.Panic
			}
			return ""
		},
		nontrivial: func(c *EvalCase) bool { return c.Go != nil && c.Go.Result.Reason.Kind == "RULE_MATCH" },
		rule:       "timestamp operands in string (any offset/fraction/case, years 0000-9999, corrupted and truncated) and numeric form on both sides of before/after clauses, plus unit conversions compared as exact nanosecond instants at all three conversion sites; non-trivial = distinct unit values / probe rule matched",
		units: []unitStream{
			{"time", 80000, func(g *gen, id string) *UnitCase { return g.timeUnit(id) }},
		},
	},
	"C19": {
		id:      "C19",
		streams: []stream{{"malformed", 12000}, {"graphs", 2000}, {"wellformed", 2000}, {"bigseg", 3000}, {"prereqs", 3000}, {"segments", 3000}, {"operators", 3000}},
		proj:    func(o *WObs) any { return []any{o.Result.Reason.ErrorKind, o.Logs} },
		goPred: func(c *EvalCase, out *evalOutcome) string {
			g := c.Go
			mal := g.Result.Reason.ErrorKind != nil && *g.Result.Reason.ErrorKind == "MALFORMED_FLAG"
			if mal && c.Opts.Log && len(g.Logs) == 0 {
				return "MALFORMED_FLAG result with a logger configured but nothing was logged"
			}
			if !c.Opts.Log && len(g.Logs) > 0 {
				return "log output without a logger"
			}
			for _, l := range g.Logs {
				if l[0] == "?" {
					return "log line does not name a flag key: " + fmt.Sprint(g.RawLogs)
				}
				if l[1] == "other" {
					return "log line does not say what the problem is: " + fmt.Sprint(g.RawLogs)
				}
			}
			// every line mentions the operands of its problem (the variation index, the attribute
			// reference, the key of the prerequisite or of the segment(s)), as the model's line does
			if out.model != nil && len(out.model.LogOps) == len(g.RawLogs) && canon(out.model.Logs) == canon(g.Logs) {
				for i, line := range g.RawLogs {
					for _, op := range out.model.LogOps[i] {
						want := ""
						switch {
						case strings.HasPrefix(op, "d:"):
							want = " " + op[2:]
						case strings.HasPrefix(op, "q:"):
							want = strconv.Quote(op[2:])
						}
						if want != "" && !strings.Contains(line, want) {
							return fmt.Sprintf("log line %q does not mention %s", line, want)
						}
					}
				}
			}
			return ""
		},
		nontrivial: func(c *EvalCase) bool { return c.Go != nil && len(c.Go.Logs) > 0 },
		rule:       "malformations at every nesting position x logger modes; non-trivial = the real evaluation logged something",
	},
}

// caseHash identifies a case up to its id (for counting distinct cases).
func caseHash(c *EvalCase) string {
	cp := *c
	cp.ID = ""
	cp.Go = nil
	b, _ := json.Marshal(&cp)
	h := sha1.Sum(b)
	return hex.EncodeToString(h[:8])
}

func canon(v any) string {
	b, _ := json.Marshal(v)
	return string(b)
}

// distribution statistics written to evidence
type stats struct {
	reasonKinds map[string]int
	errorKinds  map[string]int
	outcomes    map[string]int
	streams     map[string]int
	ctxShapes   map[string]int
	events      int
	logs        int
	segLookups  int
	bsQueries   int
	// inconsistent data providers: cases generated, and cases in which the evaluation actually
	// received an item whose own key differs from the key it asked for
	aliased     int
	aliasedUsed int
}

func newStats() *stats {
	return &stats{map[string]int{}, map[string]int{}, map[string]int{}, map[string]int{}, map[string]int{}, 0, 0, 0, 0, 0, 0}
}

func (s *stats) add(streamName string, c *EvalCase) {
	s.streams[streamName]++
	s.ctxShapes[c.Ctx.T]++
	aliasedKeys := map[string]bool{}
	for i := range c.Store.Flags {
		if c.Store.Flags[i].LK != nil && *c.Store.Flags[i].LK != c.Store.Flags[i].Key {
			aliasedKeys["f:"+*c.Store.Flags[i].LK] = true
		}
	}
	for i := range c.Store.Segments {
		if c.Store.Segments[i].LK != nil && *c.Store.Segments[i].LK != c.Store.Segments[i].Key {
			aliasedKeys["s:"+*c.Store.Segments[i].LK] = true
		}
	}
	if len(aliasedKeys) > 0 {
		s.aliased++
	}
	if c.Go == nil {
		return
	}
	used := false
	for _, k := range c.Go.FlagLookups {
		used = used || aliasedKeys["f:"+k]
	}
	for _, k := range c.Go.SegLookups {
		used = used || aliasedKeys["s:"+k]
	}
	if used {
		s.aliasedUsed++
	}
	s.outcomes[c.Go.Outcome]++
	s.reasonKinds[c.Go.Result.Reason.Kind]++
	if c.Go.Result.Reason.ErrorKind != nil {
		s.errorKinds[*c.Go.Result.Reason.ErrorKind]++
	}
	s.events += len(c.Go.Events)
	s.logs += len(c.Go.Logs)
	s.segLookups += len(c.Go.SegLookups)
	s.bsQueries += len(c.Go.BSQueries)
}

func (s *stats) toMap() map[string]any {
	return map[string]any{"reason_kinds": s.reasonKinds, "error_kinds": s.errorKinds, "outcomes": s.outcomes,
		"streams": s.streams, "context_shapes": s.ctxShapes, "events": s.events, "log_lines": s.logs,
		"segment_lookups": s.segLookups, "bigseg_queries": s.bsQueries,
		"inconsistent_store_cases": s.aliased, "inconsistent_store_item_served": s.aliasedUsed}
}

func sortedKeys(m map[string]int) []string {
	out := []string{}
	for k := range m {
		out = append(out, k)
	}
	sort.Strings(out)
	return out
}

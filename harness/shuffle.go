package main

// shuffleMembers re-emits a JSON document with the members of every object in a different order.
// Scalars and keys are copied byte for byte (no number or string is re-formatted), so the result
// denotes exactly the same value as the input. Used for the "json" construction form: the real
// code evaluates the decoding of the shuffled document while the model is given the decoding of
// the unshuffled one, so a decoder whose result depends on member order shows up in every
// evaluation-level check, not only in C17's relations.

import (
	"bytes"
	"sync"
)

type rawNode struct {
	raw     []byte // scalar: raw text
	isObj   bool
	isArr   bool
	keys    [][]byte // raw key text including quotes
	members []*rawNode
}

type rawParser struct {
	d   []byte
	pos int
	ok  bool
}

func (p *rawParser) ws() {
	for p.pos < len(p.d) && (p.d[p.pos] == ' ' || p.d[p.pos] == '\n' || p.d[p.pos] == '\t' || p.d[p.pos] == '\r') {
		p.pos++
	}
}

func (p *rawParser) str() []byte {
	start := p.pos
	if p.pos >= len(p.d) || p.d[p.pos] != '"' {
		p.ok = false
		return nil
	}
	p.pos++
	for p.pos < len(p.d) {
		switch p.d[p.pos] {
		case '\\':
			p.pos += 2
		case '"':
			p.pos++
			return p.d[start:p.pos]
		default:
			p.pos++
		}
	}
	p.ok = false
	return nil
}

func (p *rawParser) value(depth int) *rawNode {
	p.ws()
	if !p.ok || p.pos >= len(p.d) || depth > 200 {
		p.ok = false
		return nil
	}
	switch p.d[p.pos] {
	case '{':
		n := &rawNode{isObj: true}
		p.pos++
		p.ws()
		if p.pos < len(p.d) && p.d[p.pos] == '}' {
			p.pos++
			return n
		}
		for p.ok {
			p.ws()
			k := p.str()
			p.ws()
			if !p.ok || p.pos >= len(p.d) || p.d[p.pos] != ':' {
				p.ok = false
				return nil
			}
			p.pos++
			v := p.value(depth + 1)
			if !p.ok {
				return nil
			}
			n.keys = append(n.keys, k)
			n.members = append(n.members, v)
			p.ws()
			if p.pos < len(p.d) && p.d[p.pos] == ',' {
				p.pos++
				continue
			}
			if p.pos < len(p.d) && p.d[p.pos] == '}' {
				p.pos++
				return n
			}
			p.ok = false
		}
		return nil
	case '[':
		n := &rawNode{isArr: true}
		p.pos++
		p.ws()
		if p.pos < len(p.d) && p.d[p.pos] == ']' {
			p.pos++
			return n
		}
		for p.ok {
			v := p.value(depth + 1)
			if !p.ok {
				return nil
			}
			n.members = append(n.members, v)
			p.ws()
			if p.pos < len(p.d) && p.d[p.pos] == ',' {
				p.pos++
				continue
			}
			if p.pos < len(p.d) && p.d[p.pos] == ']' {
				p.pos++
				return n
			}
			p.ok = false
		}
		return nil
	case '"':
		return &rawNode{raw: p.str()}
	default:
		start := p.pos
		for p.pos < len(p.d) && !bytes.ContainsRune([]byte(",]} \n\t\r"), rune(p.d[p.pos])) {
			p.pos++
		}
		if p.pos == start {
			p.ok = false
			return nil
		}
		return &rawNode{raw: p.d[start:p.pos]}
	}
}

func (n *rawNode) emit(b *bytes.Buffer, r *rng) {
	switch {
	case n.isObj:
		// duplicate keys: order matters (last wins), leave such an object alone
		seen := map[string]bool{}
		dup := false
		for _, k := range n.keys {
			if seen[string(k)] {
				dup = true
			}
			seen[string(k)] = true
		}
		idx := make([]int, len(n.keys))
		for i := range idx {
			idx[i] = i
		}
		if !dup {
			for i := len(idx) - 1; i > 0; i-- {
				j := r.intn(i + 1)
				idx[i], idx[j] = idx[j], idx[i]
			}
		}
		b.WriteByte('{')
		for c, i := range idx {
			if c > 0 {
				b.WriteByte(',')
			}
			b.Write(n.keys[i])
			b.WriteByte(':')
			n.members[i].emit(b, r)
		}
		b.WriteByte('}')
	case n.isArr:
		b.WriteByte('[')
		for i, m := range n.members {
			if i > 0 {
				b.WriteByte(',')
			}
			m.emit(b, r)
		}
		b.WriteByte(']')
	default:
		b.Write(n.raw)
	}
}

func shuffleMembers(data []byte, r *rng) ([]byte, bool) {
	p := &rawParser{d: data, ok: true}
	n := p.value(0)
	p.ws()
	if !p.ok || n == nil || p.pos != len(p.d) {
		return nil, false
	}
	var b bytes.Buffer
	n.emit(&b, r)
	return b.Bytes(), true
}

// jsonTwins: for a value decoded from a shuffled document, the value decoded from the unshuffled one
// (what the model is told the real code holds).
var jsonTwins sync.Map

package main

// Greedy structural shrinking of a disagreeing evaluation case: delete one element at a time
// (flags, segments, rules, clauses, values, targets, prerequisites, attributes, buckets, provider
// entries) while the same disagreement persists on both sides.

import "encoding/json"

func cloneCase(c *EvalCase) *EvalCase {
	b, _ := json.Marshal(c)
	out := &EvalCase{}
	_ = json.Unmarshal(b, out)
	out.Go = nil
	return out
}

func shrinkFlagCands(f *WFlag, apply func(func(*WFlag))) {
	for i := range f.Prereqs {
		i := i
		apply(func(g *WFlag) { g.Prereqs = append(append([]WPrereq{}, g.Prereqs[:i]...), g.Prereqs[i+1:]...) })
	}
	for i := range f.Targets {
		i := i
		apply(func(g *WFlag) { g.Targets = append(append([]WTarget{}, g.Targets[:i]...), g.Targets[i+1:]...) })
	}
	for i := range f.CTargets {
		i := i
		apply(func(g *WFlag) { g.CTargets = append(append([]WTarget{}, g.CTargets[:i]...), g.CTargets[i+1:]...) })
	}
	for i := range f.Rules {
		i := i
		apply(func(g *WFlag) { g.Rules = append(append([]WFlagRule{}, g.Rules[:i]...), g.Rules[i+1:]...) })
		for j := range f.Rules[i].Clauses {
			j := j
			apply(func(g *WFlag) {
				cl := g.Rules[i].Clauses
				g.Rules[i].Clauses = append(append([]WClause{}, cl[:j]...), cl[j+1:]...)
			})
			for k := range f.Rules[i].Clauses[j].Vals {
				k := k
				apply(func(g *WFlag) {
					v := g.Rules[i].Clauses[j].Vals
					g.Rules[i].Clauses[j].Vals = append(append([]JV{}, v[:k]...), v[k+1:]...)
				})
			}
		}
		for k := range f.Rules[i].VR.RO.Vars {
			k := k
			apply(func(g *WFlag) {
				v := g.Rules[i].VR.RO.Vars
				g.Rules[i].VR.RO.Vars = append(append([]WWV{}, v[:k]...), v[k+1:]...)
			})
		}
	}
	for k := range f.FT.RO.Vars {
		k := k
		apply(func(g *WFlag) {
			v := g.FT.RO.Vars
			g.FT.RO.Vars = append(append([]WWV{}, v[:k]...), v[k+1:]...)
		})
	}
	if f.Form != "plain" {
		apply(func(g *WFlag) { g.Form = "plain" })
	}
}

func shrinkSegCands(s *WSegment, apply func(func(*WSegment))) {
	for i := range s.Rules {
		i := i
		apply(func(g *WSegment) { g.Rules = append(append([]WSegRule{}, g.Rules[:i]...), g.Rules[i+1:]...) })
		for j := range s.Rules[i].Clauses {
			j := j
			apply(func(g *WSegment) {
				cl := g.Rules[i].Clauses
				g.Rules[i].Clauses = append(append([]WClause{}, cl[:j]...), cl[j+1:]...)
			})
		}
	}
	if len(s.Inc) > 0 {
		apply(func(g *WSegment) { g.Inc = []string{} })
	}
	if len(s.Exc) > 0 {
		apply(func(g *WSegment) { g.Exc = []string{} })
	}
	if len(s.IncC) > 0 {
		apply(func(g *WSegment) { g.IncC = []WSegTarget{} })
	}
	if len(s.ExcC) > 0 {
		apply(func(g *WSegment) { g.ExcC = []WSegTarget{} })
	}
	if s.Form != "plain" {
		apply(func(g *WSegment) { g.Form = "plain" })
	}
}

// candidates returns every case obtained from c by one deletion.
func candidates(c *EvalCase) []*EvalCase {
	out := []*EvalCase{}
	add := func(mut func(*EvalCase)) {
		n := cloneCase(c)
		mut(n)
		out = append(out, n)
	}
	for i := range c.Store.Flags {
		i := i
		add(func(n *EvalCase) {
			n.Store.Flags = append(append([]WFlag{}, n.Store.Flags[:i]...), n.Store.Flags[i+1:]...)
		})
	}
	for i := range c.Store.Segments {
		i := i
		add(func(n *EvalCase) {
			n.Store.Segments = append(append([]WSegment{}, n.Store.Segments[:i]...), n.Store.Segments[i+1:]...)
		})
	}
	shrinkFlagCands(&c.Flag, func(m func(*WFlag)) { add(func(n *EvalCase) { m(&n.Flag) }) })
	if len(c.Store.Flags) <= 6 {
		for i := range c.Store.Flags {
			i := i
			shrinkFlagCands(&c.Store.Flags[i], func(m func(*WFlag)) { add(func(n *EvalCase) { m(&n.Store.Flags[i]) }) })
		}
	}
	if len(c.Store.Segments) <= 6 {
		for i := range c.Store.Segments {
			i := i
			shrinkSegCands(&c.Store.Segments[i], func(m func(*WSegment)) { add(func(n *EvalCase) { m(&n.Store.Segments[i]) }) })
		}
	}
	if c.Ctx.T == "multi" {
		for i := range c.Ctx.Cs {
			i := i
			if len(c.Ctx.Cs) > 2 {
				add(func(n *EvalCase) { n.Ctx.Cs = append(append([]WSCtx{}, n.Ctx.Cs[:i]...), n.Ctx.Cs[i+1:]...) })
			}
			for j := range c.Ctx.Cs[i].Attrs {
				j := j
				add(func(n *EvalCase) {
					a := n.Ctx.Cs[i].Attrs
					n.Ctx.Cs[i].Attrs = append(append([]WAttr{}, a[:j]...), a[j+1:]...)
				})
			}
		}
	}
	if c.Ctx.T == "single" {
		for j := range c.Ctx.C.Attrs {
			j := j
			add(func(n *EvalCase) {
				a := n.Ctx.C.Attrs
				n.Ctx.C.Attrs = append(append([]WAttr{}, a[:j]...), a[j+1:]...)
			})
		}
	}
	if c.BS != nil {
		for i := range c.BS.Table {
			i := i
			add(func(n *EvalCase) { n.BS.Table = append(append([]WBSEntry{}, n.BS.Table[:i]...), n.BS.Table[i+1:]...) })
		}
	}
	if c.Opts.Sec {
		add(func(n *EvalCase) { n.Opts.Sec = false })
	}
	if c.Opts.NilOption {
		add(func(n *EvalCase) { n.Opts.NilOption = false })
	}
	return out
}

func shrinkDisagreement(spec *propSpec, d *disagreement) {
	cur := d
	for round := 0; round < 60; round++ {
		cands := candidates(cur.Case)
		if len(cands) == 0 {
			break
		}
		if len(cands) > 400 {
			cands = cands[:400]
		}
		outs := runEvalBatch(cands)
		var next *disagreement
		for i := range outs {
			if outs[i].hErr != "" {
				continue
			}
			if nd := judge(spec, &outs[i]); nd != nil && nd.Kind == cur.Kind {
				next = nd
				break
			}
		}
		if next == nil {
			break
		}
		next.Stream, next.Seed = d.Stream, d.Seed
		cur = next
		d.Shrunk = true
	}
	if d.Shrunk {
		d.Case, d.GoProj, d.ModProj, d.Message, d.Model = cur.Case, cur.GoProj, cur.ModProj, cur.Message, cur.Model
	}
}

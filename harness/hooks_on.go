//go:build !nohooks

package main

// The hooks of /repo (build tag verif): read-only re-exports of a few unexported functions and
// dumps of the unexported preprocessed tables. Every use by the harness goes through this file;
// hooks_off.go is the fallback used when the hooks no longer compile against /repo's working tree
// (e.g. a private function they call was renamed): the public-API correspondence keeps running and
// only the unit streams that need a hook are reported as no longer checkable.

import (
	"github.com/launchdarkly/go-sdk-common/v3/ldattr"
	"github.com/launchdarkly/go-sdk-common/v3/ldcontext"
	"github.com/launchdarkly/go-sdk-common/v3/ldvalue"
	evaluation "github.com/launchdarkly/go-server-sdk-evaluation/v3"
	"github.com/launchdarkly/go-server-sdk-evaluation/v3/ldmodel"
)

const hooksAvailable = true

type hookPreValue struct {
	Valid      bool
	HasRegexp  bool
	Regexp     string
	TimeSec    int64
	TimeNsec   int
	Major      int
	Minor      int
	Patch      int
	Prerelease string
	Build      string
}

type hookPrimKey struct {
	Type   ldvalue.ValueType
	Bool   bool
	Number float64
	String string
}

type hookBufOp struct {
	Kind byte
	B    byte
	S    string
	I    int
}

func hookComputeBucketValue(sec bool, ctx ldcontext.Context, isExp bool, seed ldvalue.OptionalInt, ck ldcontext.Kind,
	key string, attr ldattr.Ref, salt string) (float32, int, error) {
	return evaluation.VerifComputeBucketValue(sec, ctx, isExp, seed, ck, key, attr, salt)
}

func hookLocalBufferScript(initialCap int, ops []hookBufOp) []byte {
	o := make([]evaluation.VerifBufOp, len(ops))
	for i, x := range ops {
		o[i] = evaluation.VerifBufOp{Kind: x.Kind, B: x.B, S: x.S, I: x.I}
	}
	return evaluation.VerifLocalBufferScript(initialCap, o)
}

func hookParseHexUint64(b []byte) (uint64, bool) { return evaluation.VerifParseHexUint64(b) }

func hookClauseMatchNoSegments(c *ldmodel.Clause, ctx *ldcontext.Context) (bool, error) {
	return evaluation.VerifClauseMatchNoSegments(c, ctx)
}

func hookClausePreprocessed(c *ldmodel.Clause) (bool, []hookPreValue, bool, []hookPrimKey) {
	hasV, vals, hasM, keys := ldmodel.VerifClausePreprocessed(c)
	vs := make([]hookPreValue, len(vals))
	for i, p := range vals {
		vs[i] = hookPreValue{Valid: p.Valid, HasRegexp: p.HasRegexp, Regexp: p.Regexp, TimeSec: p.TimeSec, TimeNsec: p.TimeNsec,
			Major: p.Major, Minor: p.Minor, Patch: p.Patch, Prerelease: p.Prerelease, Build: p.Build}
	}
	ks := make([]hookPrimKey, len(keys))
	for i, k := range keys {
		ks[i] = hookPrimKey{Type: k.Type, Bool: k.Bool, Number: k.Number, String: k.String}
	}
	return hasV, vs, hasM, ks
}

func hookTargetMap(t *ldmodel.Target) (bool, []string) { return ldmodel.VerifTargetMap(t) }

func hookSegmentTargetMap(t *ldmodel.SegmentTarget) (bool, []string) {
	return ldmodel.VerifSegmentTargetMap(t)
}

func hookSegmentMaps(s *ldmodel.Segment) (bool, []string, bool, []string) {
	return ldmodel.VerifSegmentMaps(s)
}

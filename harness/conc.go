package main

// C13: many goroutines share one evaluator and one set of flag/segment values. Run in a harness
// built with -race; every concurrent result must equal the sequential baseline, each recorder
// must see only its own call's events, and the race detector must stay silent.

import (
	"bytes"
	"encoding/json"
	"fmt"
	"os"
	"os/exec"
	"path/filepath"
	"strings"
	"sync"

	"github.com/launchdarkly/go-sdk-common/v3/ldcontext"
	"github.com/launchdarkly/go-sdk-common/v3/ldreason"
	"github.com/launchdarkly/go-sdk-common/v3/ldvalue"
	evaluation "github.com/launchdarkly/go-server-sdk-evaluation/v3"
	"github.com/launchdarkly/go-server-sdk-evaluation/v3/ldmodel"
)

func init() {
	specialChecks["C13"] = checkC13
}

// traffic: what an evaluator asked of its providers and said to its logger, as a multiset (the
// calls of concurrent evaluations interleave, so order means nothing; how often each call was
// made does: a membership remembered across calls, or a log line lost, changes the counts).
type traffic struct {
	mu sync.Mutex
	n  map[string]int
}

func newTraffic() *traffic { return &traffic{n: map[string]int{}} }

func (t *traffic) add(what string) {
	t.mu.Lock()
	t.n[what]++
	t.mu.Unlock()
}

func (t *traffic) snapshot() map[string]int {
	t.mu.Lock()
	defer t.mu.Unlock()
	out := make(map[string]int, len(t.n))
	for k, v := range t.n {
		out[k] = v
	}
	return out
}

// trafficDiff: a - b as a multiset (entries with a zero difference dropped)
func trafficDiff(a, b map[string]int) map[string]int {
	out := map[string]int{}
	for k, v := range a {
		if d := v - b[k]; d != 0 {
			out[k] = d
		}
	}
	for k, v := range b {
		if _, ok := a[k]; !ok && v != 0 {
			out[k] = -v
		}
	}
	return out
}

// thread-safe providers (the harness itself must be race-free)
type pureStore struct {
	flags    map[string]*ldmodel.FeatureFlag
	segments map[string]*ldmodel.Segment
	tr       *traffic
}

func (s *pureStore) GetFeatureFlag(k string) *ldmodel.FeatureFlag {
	s.tr.add("flag " + k)
	return s.flags[k]
}
func (s *pureStore) GetSegment(k string) *ldmodel.Segment {
	s.tr.add("segment " + k)
	return s.segments[k]
}

type pureMembership struct {
	key string
	m   map[string]bool
	tr  *traffic
}

func (m *pureMembership) CheckMembership(ref string) ldvalue.OptionalBool {
	m.tr.add("check " + m.key + " / " + ref)
	if b, ok := m.m[ref]; ok {
		return ldvalue.NewOptionalBool(b)
	}
	return ldvalue.OptionalBool{}
}

type pureAnswer struct {
	m  map[string]bool // nil: no membership object
	st string
}

type pureBS struct {
	table map[string]pureAnswer
	dflt  pureAnswer
	tr    *traffic
}

func (p *pureBS) GetMembership(key string) (evaluation.BigSegmentMembership, ldreason.BigSegmentsStatus) {
	p.tr.add("membership " + key)
	e, ok := p.table[key]
	if !ok {
		e = p.dflt
	}
	if e.m == nil {
		return nil, ldreason.BigSegmentsStatus(e.st)
	}
	return &pureMembership{key: key, m: e.m, tr: p.tr}, ldreason.BigSegmentsStatus(e.st)
}

func mkPureBS(w *WBS, tr *traffic) *pureBS {
	p := &pureBS{table: map[string]pureAnswer{}, tr: tr}
	conv := func(a WBSAnswer) pureAnswer {
		if a.M == nil {
			return pureAnswer{nil, a.St}
		}
		m := map[string]bool{}
		for _, x := range a.M {
			if _, dup := m[x.Ref]; !dup {
				m[x.Ref] = x.In
			}
		}
		return pureAnswer{m, a.St}
	}
	for _, e := range w.Table {
		if _, dup := p.table[e.Key]; dup {
			continue
		}
		p.table[e.Key] = conv(e.A)
	}
	p.dflt = conv(w.Dflt)
	return p
}

type lockedLogger struct{ tr *traffic }

func (l *lockedLogger) Println(values ...interface{}) { l.tr.add("log " + fmt.Sprintln(values...)) }
func (l *lockedLogger) Printf(format string, values ...interface{}) {
	l.tr.add("log " + fmt.Sprintf(format, values...))
}

type concPair struct {
	flag *ldmodel.FeatureFlag
	ctx  ldcontext.Context
}

func evalPair(ev evaluation.Evaluator, p concPair, rec bool) string {
	events := []WEvent{}
	ok := true
	if !rec {
		return canon([]any{dumpResult(ev.Evaluate(p.flag, p.ctx, nil)), events, ok})
	}
	res := ev.Evaluate(p.flag, p.ctx, func(e evaluation.PrerequisiteFlagEvent) {
		w := WEvent{Target: e.TargetFlagKey, Result: dumpResult(e.PrerequisiteResult), Excl: e.ExcludeFromSummaries}
		if e.PrerequisiteFlag != nil {
			w.Prereq, w.Version = e.PrerequisiteFlag.Key, e.PrerequisiteFlag.Version
		}
		if !e.Context.Equal(p.ctx) {
			ok = false
		}
		events = append(events, w)
	})
	return canon([]any{dumpResult(res), events, ok})
}

// concWorkerMain runs the concurrency rounds of one seed; prints MISMATCH lines and statistics.
func concWorkerMain(args []string) {
	var seed uint64 = 1
	rounds := 40
	fmt.Sscan(args[0], &seed)
	fmt.Sscan(args[1], &rounds)
	var proc uint64
	if len(args) > 2 {
		fmt.Sscan(args[2], &proc)
	}
	base := newRng(seed ^ hashStr("C13") ^ (proc * 0x9e3779b97f4a7c15))
	evals, distinct := 0, 0
	for round := 0; round < rounds; round++ {
		r := base.fork()
		streams := []string{"rollouts", "bigseg", "wellformed", "segments", "prereqs", "targets", "manykinds", "targets", "malformed", "graphs", "bucketdense"}
		name := pick(r, streams)
		if round == 0 {
			name = streams[int(proc)%len(streams)] // the cold round of this process
		}
		c := genStream(name, r.fork(), fmt.Sprintf("C13/%d/%d/%d", seed, proc, round))
		if (round+int(proc)/len(streams))%2 == 1 {
			c = concOperandScenario(r.fork(), fmt.Sprintf("C13/%d/%d", seed, round))
		}
		sanitizeCase(c)
		// Two independent builds of the same configuration: the sequential baseline runs on one,
		// the goroutines on the other, so that nothing the library might cache lazily on shared
		// values is already warm when the concurrent phase starts.
		// which options are stated and whether calls carry a recorder varies per round
		withLogger, withSecOpt, withRec := !r.chance(1, 4), c.Opts.Sec || r.bool(), !r.chance(1, 4)
		mk := func() (evaluation.Evaluator, []concPair, *traffic) {
			st := buildStore(&c.Store)
			tr := newTraffic()
			ps := &pureStore{flags: st.flags, segments: st.segments, tr: tr}
			var options []evaluation.EvaluatorOption
			if c.BS != nil {
				options = append(options, evaluation.EvaluatorOptionBigSegmentProvider(mkPureBS(c.BS, tr)))
			}
			if withLogger {
				options = append(options, evaluation.EvaluatorOptionErrorLogger(&lockedLogger{tr}))
			}
			if withSecOpt {
				options = append(options, evaluation.EvaluatorOptionEnableSecondaryKey(c.Opts.Sec))
			}
			e := evaluation.NewEvaluatorWithOptions(ps, options...)
			flags := []*ldmodel.FeatureFlag{c.Flag.build()}
			keys := []string{}
			for k := range st.flags {
				keys = append(keys, k)
			}
			sortStrings(keys)
			for _, k := range keys {
				flags = append(flags, st.flags[k])
			}
			rr := newRng(hashStr(c.ID))
			ctxs := []ldcontext.Context{c.Ctx.build()}
			gg := &gen{r: rr, p: profiles["wellformed"]}
			for i := 0; i < 3; i++ {
				w := gg.context()
				ctxs = append(ctxs, w.build())
			}
			prs := []concPair{}
			for _, f := range flags {
				for _, cx := range ctxs {
					prs = append(prs, concPair{f, cx})
				}
			}
			return e, prs, tr
		}
		evSeq, pairsSeq, trSeq := mk()
		ev, pairs, trConc := mk()
		// The concurrent phase runs FIRST, the sequential baseline afterwards: whatever the library
		// initialises lazily — per value, per evaluator or per process — is initialised by racing
		// goroutines, not by a warm-up. (For per-process state only the first round of a process
		// is cold; checkC13 therefore spreads the rounds over several worker processes.)
		nG := pick(r, []int{4, 8, 16, 32})
		var wg sync.WaitGroup
		var mu sync.Mutex
		mismatch := ""
		done := make([]int, len(pairs)) // how often each pair was evaluated concurrently
		type obsAt struct {
			i   int
			got string
		}
		seenConc := make([][]obsAt, nG)
		start := make(chan struct{})
		for gi := 0; gi < nG; gi++ {
			wg.Add(1)
			gr := r.fork()
			gi := gi
			go func() {
				defer wg.Done()
				defer func() {
					if rec := recover(); rec != nil {
						mu.Lock()
						mismatch = fmt.Sprintf("panic in concurrent evaluation: %v", rec)
						mu.Unlock()
					}
				}()
				<-start
				for it := 0; it < 60; it++ {
					i := gr.intn(len(pairs))
					got := evalPair(ev, pairs[i], withRec)
					seenConc[gi] = append(seenConc[gi], obsAt{i, got})
				}
			}()
		}
		close(start)
		wg.Wait()
		baseline := make([]string, len(pairs))
		baseTraffic := make([]map[string]int, len(pairs))
		for i, p := range pairsSeq {
			before := trSeq.snapshot()
			baseline[i] = evalPair(evSeq, p, withRec)
			baseTraffic[i] = trafficDiff(trSeq.snapshot(), before)
		}
		seen := map[string]bool{}
		for _, b := range baseline {
			seen[b] = true
		}
		distinct += len(seen)
		for _, obs := range seenConc {
			for _, o := range obs {
				done[o.i]++
				if o.got != baseline[o.i] && mismatch == "" {
					mismatch = fmt.Sprintf("pair %d: concurrent %s vs sequential %s", o.i, o.got, baseline[o.i])
				}
			}
		}
		evals += nG * 60
		if mismatch == "" {
			// provider calls and log lines of all concurrent evaluations together: exactly those
			// of the same evaluations made one after the other
			expected := map[string]int{}
			for i, n := range done {
				for k, v := range baseTraffic[i] {
					expected[k] += n * v
				}
			}
			if d := trafficDiff(trConc.snapshot(), expected); len(d) > 0 {
				dj, _ := json.Marshal(d)
				mismatch = fmt.Sprintf("provider calls and log lines of the concurrent evaluations differ from those of the same evaluations in sequence (surplus/deficit per call): %s", dj)
			}
		}
		if mismatch != "" {
			cj, _ := json.Marshal(c)
			fmt.Printf("MISMATCH round=%d %s CASE=%s\n", round, mismatch, cj)
		}
	}
	fmt.Printf("STATS evaluations=%d distinct=%d rounds=%d\n", evals, distinct, rounds)
}

// concOperandScenario: hand-built (un-preprocessed) and preprocessed segments and flags whose rules
// carry operands that need parsing (regex, timestamp, semantic version) and lookup tables, all
// reached by every goroutine: the shapes on which a lazily filled shared cache would race.
func concOperandScenario(r *rng, id string) *EvalCase {
	g := &gen{r: r, p: profiles["wellformed"]}
	c := &EvalCase{ID: id, Kind: "eval", Opts: WOpts{Log: true, Rec: true}}
	c.Store.Flags, c.Store.Segments = []WFlag{}, []WSegment{}
	top := simpleFlag("top", true, 0, 2)
	top.Form = pick(r, handForms)
	// one context that really has the attribute of each of the four operand clauses
	shared := WSCtx{Kind: "user", Key: pick(r, []string{"a", "b", "abc"}), Attrs: []WAttr{}}
	for i := 0; i < 4; i++ {
		g.forceOps = []string{"matches", "before", "after", "semVerEqual", "semVerLessThan", "semVerGreaterThan", "in"}
		oc := g.operatorCase(id)
		cl := oc.Flag.Rules[0].Clauses[0]
		cl.Neg = false
		var firstAttr *WAttr
		if oc.Ctx.T == "single" && len(oc.Ctx.C.Attrs) > 0 {
			firstAttr = &oc.Ctx.C.Attrs[0]
		} else if oc.Ctx.T == "multi" {
			for j := range oc.Ctx.Cs {
				if len(oc.Ctx.Cs[j].Attrs) > 0 && firstAttr == nil {
					firstAttr = &oc.Ctx.Cs[j].Attrs[0]
				}
			}
		}
		name := fmt.Sprintf("op%d", i)
		if firstAttr != nil {
			shared.Attrs = append(shared.Attrs, WAttr{name, firstAttr.V})
		}
		cl.CK = pick(r, []string{"", "", "user"})
		if cl.CK == "" {
			cl.Attr = mkRef("lit", name)
		} else {
			cl.Attr = mkRef("ref", "/"+name)
		}
		seg := simpleSegment(fmt.Sprintf("cs%d", i))
		seg.Form = pick(r, []string{"plain", "plain", "pre", "json"})
		seg.Rules = []WSegRule{{ID: "r", Clauses: []WClause{cl, cl}, By: mkRef("", "")}}
		seg.Inc = []string{"zz", "a"}
		c.Store.Segments = append(c.Store.Segments, seg)
		top.Rules = append(top.Rules, WFlagRule{ID: fmt.Sprintf("r%d", i), VR: WVR{V: ip(1), RO: WRollout{Vars: []WWV{}, By: mkRef("", "")}},
			Clauses: []WClause{segRefRule(seg.Key).Clauses[0], cl}})
		pf := simpleFlag(fmt.Sprintf("pf%d", i), true, 0, 2)
		pf.Form = pick(r, []string{"plain", "pre"})
		pf.Rules = []WFlagRule{{ID: "pr", VR: WVR{V: ip(0), RO: WRollout{Vars: []WWV{}, By: mkRef("", "")}}, Clauses: []WClause{cl}}}
		pf.Targets = []WTarget{{Vals: []string{"a", "b"}, V: 0}}
		c.Store.Flags = append(c.Store.Flags, pf)
		top.Prereqs = append(top.Prereqs, WPrereq{pf.Key, 0})
	}
	c.Ctx = WCtx{T: "single", C: &shared}
	c.Flag = top
	return c
}

func raceEnabledBuild() bool { return raceEnabled }

func checkC13(seed uint64, replayDir, corpusDir string) (map[string]any, int) {
	t := newRelTotals("C13")
	if !raceEnabledBuild() {
		fatalf("C13 must run in the harness built with -race")
	}
	rounds := 400 * tierScale()
	// several worker processes: state the library initialises once per process is cold only in the
	// first round of each
	const procs = 16
	var stdout, stderr bytes.Buffer
	var err error
	for p := 0; p < procs; p++ {
		cmd := exec.Command(os.Args[0], "conc-worker", fmt.Sprint(seed), fmt.Sprint((rounds+procs-1)/procs), fmt.Sprint(p))
		cmd.Env = append(os.Environ(), "GORACE=halt_on_error=0")
		cmd.Stdout, cmd.Stderr = &stdout, &stderr
		if e := cmd.Run(); e != nil && err == nil {
			err = e
		}
	}
	os.MkdirAll(replayDir, 0o755)
	totalRounds := 0
	for _, line := range strings.Split(stdout.String(), "\n") {
		if strings.HasPrefix(line, "MISMATCH") {
			t.violation("concurrent", "a concurrent evaluation differs from the sequential one", map[string]any{"detail": line, "seed": seed})
		}
		if strings.HasPrefix(line, "STATS") {
			var ev, di, ro int
			fmt.Sscanf(line, "STATS evaluations=%d distinct=%d rounds=%d", &ev, &di, &ro)
			t.evaluations += ev
			base := len(t.distinct)
			for i := 0; i < di; i++ {
				t.distinct[fmt.Sprint("d", base+i)] = true
			}
			totalRounds += ro
			t.counts["rounds"] = totalRounds
			t.counts["concurrent_evaluations"] += ev
			t.counts["worker_processes"]++
		}
	}
	if strings.Contains(stderr.String(), "DATA RACE") {
		rep := stderr.String()
		path := filepath.Join(replayDir, "C13-race-report.txt")
		os.WriteFile(path, []byte(rep), 0o644)
		inLib := strings.Contains(rep, "go-server-sdk-evaluation") || strings.Contains(rep, "/repo/")
		short := rep
		if len(short) > 3000 {
			short = short[:3000]
		}
		if inLib {
			t.violation("race", "the race detector reported an unsynchronised access inside the library", map[string]any{"report": short, "seed": seed})
		} else {
			fatalf("race detector fired outside the library (harness bug): %s", short)
		}
	} else if err != nil && (libraryCrash(stderr.String()) || strings.Contains(stderr.String(), "fatal error: concurrent map")) {
		// a Go runtime fatal error (concurrent map access, …) with the library on the stack
		rep := stderr.String()
		if len(rep) > 3000 {
			rep = rep[:3000]
		}
		t.violation("crash", "the process died during concurrent evaluations", map[string]any{"report": rep, "seed": seed})
	} else if err != nil && t.evaluations == 0 {
		fatalf("concurrency worker failed: %v %s", err, stderr.String())
	}
	t.samples = append(t.samples, map[string]any{"rounds": rounds, "goroutines": "4-32", "iterations_per_goroutine": 60})
	nv := reportUnitDisagreements("C13", t.dis, replayDir)
	return t.frag("rounds of 4-32 goroutines x 60 evaluations over one shared evaluator, store, flags (plain/preprocessed/decoded), segments, big-segment provider and contexts, under the Go race detector; every concurrent (result, events) compared with the sequential baseline; non-trivial = distinct baseline behaviours", nil), nv
}

package main

// Type-directed generators for evaluation cases. All randomness derives from one rng.

import (
	"fmt"
	"math"
	"os"
	"strings"
)

var (
	kindPool    = []string{"user", "org", "device", "user", "org", "device", "User", "org.2", "a-b"}
	clauseKinds = []string{"", "", "user", "org", "device", "other", "User", "user", "org", "multi", "kind", "org.2", "a-b"}
	keyPool     = []string{"a", "b", "c", "u1", "u2", "k/1", "ключ", "key.with.dots", strings.Repeat("L", 150),
		"ctl\x01\x1b\x7f", "q\"uo\\te\n\t", "tag\U000E0001\u2028", "nul\x00mid", "100%-off %d %s %v%!", "caf\u00e9", "Key-A"}
	attrNames   = []string{"a", "b", "email", "n", "s", "arr", "obj", "/a~b", "a/b", "d", "v", "é", "obj"}
	segKeyPool  = []string{"s0", "s1", "beta-10%-of-users%s", "s3", "s4", "s5", "s2", "", "S0"}
	flagKeyPool = []string{"f0", "checkout-50%-discount%d", "f2", "f3", "f4", "f5", "f6", "f1", "", "F1"}
	saltPool    = []string{"", "salt", "s2", strings.Repeat("S", 120), "sa.lt", "соль", "s\x00t", "%d.%s"}
	dateStrs    = []string{"2020-01-01T00:00:00Z", "2020-01-01T00:00:00.5Z", "2019-12-31T23:00:00-01:00", "1970-01-01T00:00:00Z", "0001-01-01T00:00:00Z", "9999-12-31T23:59:59.999999999Z", "2020-02-31T00:00:00Z", "2020-01-01t00:00:00z", "2020-01-01T0:00:00Z", "2020-01-01", "not a date", "2020-01-01T00:00:00+99:59",
		"2020-00-10T00:00:00Z", "2020-13-10T00:00:00Z", "2020-01-00T00:00:00Z", "2020-01-32T00:00:00Z", "2020-01-01T24:00:00Z",
		"2020-01-01T23:60:00Z", "2020-01-01T23:59:60Z", "2020-01-01T23:59:61Z", "2020-01-01T00:00:00+01:60", "2020-01-01T00:00:00-24:00", "2020-01-01T00:00:00.Z",
		" 2020-01-01T00:00:00Z", "2020-01-01T00:00:00+00:00\n", "\t2019-12-31T23:00:00-01:00 ", "2020-01-01T00:00:00Z ",
		// instants that leave the years 0000-9999 once the offset is applied
		"0000-01-01T00:00:00+00:01", "0000-01-01T00:00:00+23:59", "9999-12-31T23:59:59-00:01", "9999-12-31T23:59:60-23:59",
		"0000-01-01T00:00:00+99:59", "9999-12-31T23:59:59.999999999-99:59", "0000-01-01T00:00:00Z", "0000-12-31T23:59:60Z"}
	dateNums  = []float64{0, 1577836800000, 1577836800500, 1577833200000, -62135596800000, 253402300799000, 253402300799999, 1.5, -1, 9.3e18}
	verStrs   = []string{"1.0.0", "1.0", "1", "2.0.0", "1.0.0-rc.1", "1.0.0-rc.2", "1.0.0-rc.10", "1.0.0-alpha", "1.0.0+build", "1.2.3-a.b+c.d", "01.0.0", "1.0.0-", "1..0", "v1.0.0", "1.0.0-rc..1", "10.0.0", "1.10.0", "1.2.3.4", " 1.0.0", "1.0.0 ", "1.0.0\n", "+1.0.0"}
	regexStrs = []string{"^a", "b$", "a.*c", ".", "", "(", "[a-", "^(a|b)+$", "\\d+", "ключ", "k/1", "^ab$", "\\Aab\\z", "^a\\.b$", "^[a]$", "ab", "(?i)AB", "a|b",
		"a{2}", "a{1,}b", "\\p{L}+", "\\Qa.b\\E", "[[:alpha:]]+", "(?s)a.b", "(?m)^b$", "x{1001}", "a{2", "\\Qa.b"}
	plainStrs = []string{"", "a", "b", "abc", "ab", "bc", "1", "1.0", "true", "user", "org", "multi", "kind", "ключ", "x y", "xaby", "a.b", "axb",
		"ctl\x01\x1b\x7f", "q\"uo\\te\n", "tag\U000E0001", "ab\n", "a\nb", "aab", "a{2}"}
	numPool      = []float64{0, 1, -1, 2, 2.5, 0.1, 1e10, 9007199254740992, -9007199254740992, 9223372036854775808, -9223372036854775808, 99, 100, 1e-7, 3}
	operatorPool = []string{"in", "endsWith", "startsWith", "matches", "contains", "lessThan", "lessThanOrEqual", "greaterThan", "greaterThanOrEqual", "before", "after", "semVerEqual", "semVerLessThan", "semVerGreaterThan"}
	statusPool   = []string{"HEALTHY", "STALE", "STORE_ERROR", "NOT_CONFIGURED"}
)

// rawEnabled: whether context attributes are sometimes unparsed values (ldvalue.Raw).
var rawEnabled = os.Getenv("VERIF_NO_RAW") == ""

// Profile: generator weights (percentages) for one stream.
type Profile struct {
	Name        string
	PMalformed  int // chance that a given element is made malformed
	PCycle      int // chance of allowing back edges in prerequisite/segment graphs
	PBigSeg     int // chance a segment is unbounded
	PMulti      int // chance of a multi-kind context
	PInvalidCtx int
	PExperiment int
	PRollout    int
	PTargets    int
	PSegClause  int
	PPrereq     int
	PPlainForm  int // chance a flag/segment is hand-built without preprocessing
	MaxFlags    int
	MaxSegs     int
	MaxRules    int
}

var profiles = map[string]Profile{
	"wellformed": {Name: "wellformed", PMalformed: 1, PCycle: 0, PBigSeg: 10, PMulti: 35, PInvalidCtx: 1, PExperiment: 30, PRollout: 40, PTargets: 40, PSegClause: 25, PPrereq: 40, PPlainForm: 30, MaxFlags: 6, MaxSegs: 5, MaxRules: 4},
	"malformed":  {Name: "malformed", PMalformed: 18, PCycle: 30, PBigSeg: 15, PMulti: 35, PInvalidCtx: 6, PExperiment: 30, PRollout: 50, PTargets: 30, PSegClause: 35, PPrereq: 50, PPlainForm: 30, MaxFlags: 6, MaxSegs: 5, MaxRules: 4},
	"bigseg":     {Name: "bigseg", PMalformed: 1, PCycle: 3, PBigSeg: 65, PMulti: 50, PInvalidCtx: 0, PExperiment: 10, PRollout: 20, PTargets: 10, PSegClause: 75, PPrereq: 55, PPlainForm: 30, MaxFlags: 5, MaxSegs: 6, MaxRules: 3},
	"targets":    {Name: "targets", PMalformed: 2, PCycle: 0, PBigSeg: 0, PMulti: 50, PInvalidCtx: 0, PExperiment: 0, PRollout: 10, PTargets: 95, PSegClause: 5, PPrereq: 10, PPlainForm: 50, MaxFlags: 2, MaxSegs: 1, MaxRules: 2},
	"rollouts":   {Name: "rollouts", PMalformed: 3, PCycle: 0, PBigSeg: 0, PMulti: 40, PInvalidCtx: 0, PExperiment: 50, PRollout: 95, PTargets: 5, PSegClause: 10, PPrereq: 25, PPlainForm: 30, MaxFlags: 3, MaxSegs: 2, MaxRules: 2},
	"prereqs":    {Name: "prereqs", PMalformed: 4, PCycle: 8, PBigSeg: 10, PMulti: 30, PInvalidCtx: 0, PExperiment: 20, PRollout: 30, PTargets: 20, PSegClause: 15, PPrereq: 90, PPlainForm: 30, MaxFlags: 7, MaxSegs: 3, MaxRules: 2},
	"segments":   {Name: "segments", PMalformed: 2, PCycle: 5, PBigSeg: 5, PMulti: 45, PInvalidCtx: 0, PExperiment: 5, PRollout: 15, PTargets: 5, PSegClause: 85, PPrereq: 15, PPlainForm: 40, MaxFlags: 2, MaxSegs: 6, MaxRules: 3},
}

type gen struct {
	r *rng
	p Profile
	// per-case context vocabulary so that clauses have a fair chance to match
	ctxKeys []string
	// restrict operator probes to these operators
	forceOps []string
}

func (g *gen) mal() bool { return g.r.chance(g.p.PMalformed, 100) }

func (g *gen) value(depth int) JV {
	r := g.r
	switch r.intn(14) {
	case 0:
		return jNull()
	case 1:
		return jBool(r.bool())
	case 2, 3:
		return jNum(pick(r, numPool))
	case 4, 5, 6:
		return jStr(pick(r, plainStrs))
	case 7:
		return jStr(pick(r, dateStrs))
	case 8:
		return jNum(pick(r, dateNums))
	case 9:
		return jStr(pick(r, verStrs))
	case 10:
		return jStr(pick(r, regexStrs))
	case 11:
		if depth > 1 {
			return jStr("deep")
		}
		n := r.intn(4)
		a := JV{K: 'a', A: []JV{}}
		for i := 0; i < n; i++ {
			a.A = append(a.A, g.value(depth+1))
		}
		return a
	case 12:
		if depth > 2 {
			return jNum(7)
		}
		o := JV{K: 'o'}
		seen := map[string]bool{}
		for i, n := 0, r.intn(3); i < n; i++ {
			k := pick(r, attrNames)
			if !seen[k] {
				seen[k] = true
				o.O = append(o.O, KV{k, g.value(depth + 1)})
			}
		}
		return o
	}
	return jStr(pick(r, keyPool))
}

func (g *gen) sctx(kind string) WSCtx {
	r := g.r
	c := WSCtx{Kind: kind, Key: pick(r, keyPool), Attrs: []WAttr{}}
	if r.chance(1, 3) {
		c.Name = sp(pick(r, plainStrs))
	}
	c.Anon = r.chance(1, 5)
	seen := map[string]bool{}
	for i, n := 0, r.intn(5); i < n; i++ {
		k := pick(r, attrNames)
		if seen[k] {
			continue
		}
		seen[k] = true
		v := g.value(0)
		if v.K == 'z' {
			continue
		}
		if rawEnabled && r.chance(1, 9) {
			// an unparsed value (ldvalue.Raw): whole attribute, or one element of an array
			if v.K == 'a' && len(v.A) > 0 && r.bool() {
				i := r.intn(len(v.A))
				v.A[i] = JV{K: 'r', A: []JV{v.A[i]}}
			} else {
				v = JV{K: 'r', A: []JV{v}}
			}
		}
		c.Attrs = append(c.Attrs, WAttr{k, v})
	}
	if kind == "user" && r.chance(1, 4) {
		c.Sec = sp(pick(r, []string{"sec", "", "x.y", "sec", strings.Repeat("x", 97), strings.Repeat("y", 200)}))
	}
	// old-schema user JSON is the only way to obtain a valid context whose key is the empty string
	if kind == "user" && r.chance(1, 12) {
		c.Legacy = true
		if r.chance(2, 3) {
			c.Key = ""
		}
	}
	return c
}

func (g *gen) context() WCtx {
	r := g.r
	if r.chance(g.p.PInvalidCtx, 100) {
		return WCtx{T: "invalid", Inv: pick(r, []string{"uninit", "emptykey", "badkind", "multidup", "multiempty", "kindmulti", "badchars", "multibadmember"})}
	}
	if r.chance(g.p.PMulti, 100) {
		n := 2 + r.intn(2)
		perm := []string{"user", "org", "device"}
		if r.chance(1, 5) {
			perm = []string{"user", "User", "org.2", "a-b", "org"}
		}
		// random subset of size n
		for i := range perm {
			j := i + r.intn(len(perm)-i)
			perm[i], perm[j] = perm[j], perm[i]
		}
		w := WCtx{T: "multi"}
		for _, k := range perm[:n] {
			w.Cs = append(w.Cs, g.sctx(k))
		}
		if r.chance(1, 3) { // same key across kinds
			for i := range w.Cs {
				w.Cs[i].Key = w.Cs[0].Key
			}
		}
		return w
	}
	kind := "user"
	if r.chance(1, 3) {
		kind = pick(r, kindPool)
	}
	c := g.sctx(kind)
	return WCtx{T: "single", C: &c}
}

func (g *gen) ref(withKind bool) WRef {
	r := g.r
	if g.mal() {
		switch r.intn(4) {
		case 0:
			return mkRef("", "")
		case 1:
			return mkRef("ref", pick(r, []string{"/", "//", "/a//b", "/a~2", "/a~", "/a/", "/usage%d//pct%s"}))
		case 2:
			return mkRef("ref", "")
		default:
			return mkRef("lit", "")
		}
	}
	name := pick(r, attrNames)
	if r.chance(1, 6) {
		name = pick(r, []string{"key", "name", "kind", "anonymous", "key"})
	}
	if !withKind {
		return mkRef("lit", name)
	}
	switch r.intn(8) {
	case 6:
		// three and four components: objects nested in objects
		return mkRef("ref", "/obj/obj/"+pick(r, attrNames))
	case 7:
		esc := strings.NewReplacer("~", "~0", "/", "~1")
		return mkRef("ref", "/"+esc.Replace(name)+"/"+esc.Replace(pick(r, attrNames))+"/"+esc.Replace(pick(r, attrNames))+pick(r, []string{"", "/a"}))
	case 5:
		// a literal attribute name together with a context kind (ldbuilders.ClauseWithKind,
		// SegmentRuleBuilder.BucketBy): a name starting with '/' stays a name
		return mkRef("lit", name)
	case 0:
		return mkRef("ref", "/"+strings.NewReplacer("~", "~0", "/", "~1").Replace(name))
	case 1:
		return mkRef("ref", "/obj/"+pick(r, attrNames))
	case 2:
		return mkRef("ref", "/"+name+"/x")
	}
	return mkRef("ref", name)
}

func (g *gen) clauseValues(op string) []JV {
	r := g.r
	n := 1 + r.intn(3)
	if r.chance(1, 12) {
		n = 0
	}
	out := []JV{}
	for i := 0; i < n; i++ {
		if r.chance(1, 5) {
			out = append(out, g.value(0))
			continue
		}
		switch op {
		case "before", "after":
			if r.bool() {
				out = append(out, jStr(pick(r, dateStrs)))
			} else {
				out = append(out, jNum(pick(r, dateNums)))
			}
		case "semVerEqual", "semVerLessThan", "semVerGreaterThan":
			out = append(out, jStr(pick(r, verStrs)))
		case "matches":
			out = append(out, jStr(pick(r, regexStrs)))
		case "lessThan", "lessThanOrEqual", "greaterThan", "greaterThanOrEqual":
			out = append(out, jNum(pick(r, numPool)))
		case "segmentMatch":
			out = append(out, jStr(pick(r, segKeyPool)))
		default:
			switch r.intn(4) {
			case 0:
				out = append(out, jNum(pick(r, numPool)))
			case 1:
				out = append(out, jBool(r.bool()))
			case 2:
				if len(g.ctxKeys) > 0 {
					out = append(out, jStr(pick(r, g.ctxKeys)))
				} else {
					out = append(out, jStr(pick(r, plainStrs)))
				}
			default:
				out = append(out, jStr(pick(r, plainStrs)))
			}
		}
	}
	return out
}

func (g *gen) clause(segKeys []string) WClause {
	r := g.r
	if len(segKeys) > 0 && r.chance(g.p.PSegClause, 100) {
		c := WClause{Op: "segmentMatch", Neg: r.chance(1, 5), Attr: mkRef("", ""), Vals: []JV{}}
		// the operator is tested before anything else about the clause: a context kind the context
		// may lack, an attribute (valid, missing or malformed) and an empty value list change nothing
		if r.chance(1, 6) {
			c.CK = pick(r, clauseKinds)
		}
		if r.chance(1, 6) {
			c.Attr = g.ref(c.CK != "")
			if r.chance(1, 3) {
				c.Attr = g.refMal()
			}
		}
		n := 1 + r.intn(2)
		if r.chance(1, 8) {
			n = 0
		} else if r.chance(1, 10) {
			n = 3 + r.intn(4)
		}
		for i := 0; i < n; i++ {
			if r.chance(1, 10) {
				c.Vals = append(c.Vals, g.value(0))
			} else if r.chance(1, 8) {
				c.Vals = append(c.Vals, jStr("missing-seg"))
			} else {
				c.Vals = append(c.Vals, jStr(pick(r, segKeys)))
			}
		}
		return c
	}
	op := pick(r, operatorPool)
	if r.chance(2, 5) {
		op = "in"
	}
	if g.mal() {
		op = pick(r, []string{"", "unknownOp", "IN", "segmentmatch"})
	}
	ck := pick(r, clauseKinds)
	c := WClause{CK: ck, Op: op, Neg: r.chance(1, 4), Attr: g.ref(ck != "")}
	if r.chance(1, 10) { // kind clause
		c.Attr = mkRef("lit", "kind")
		if ck != "" {
			c.Attr = mkRef("ref", "kind")
		}
		c.Op = pick(r, []string{"in", "in", "startsWith", "matches", "endsWith", "contains", "lessThan", "semVerEqual"})
		c.Vals = []JV{}
		for i, n := 0, 1+r.intn(3); i < n; i++ {
			c.Vals = append(c.Vals, jStr(pick(r, []string{"user", "org", "device", "multi", "u", "^o", "User", ""})))
		}
		if r.chance(1, 8) {
			c.Vals = append(c.Vals, g.value(0))
		}
		return c
	}
	c.Vals = g.clauseValues(c.Op)
	if c.Vals == nil {
		c.Vals = []JV{}
	}
	return c
}

func (g *gen) weights(n int) []int {
	r := g.r
	out := make([]int, n)
	switch r.intn(6) {
	case 0: // all zero
	case 1: // sums to 100000
		rem := 100000
		for i := 0; i < n-1; i++ {
			out[i] = r.intn(rem + 1)
			rem -= out[i]
		}
		out[n-1] = rem
	case 2: // arbitrary, incl. negative
		for i := range out {
			out[i] = r.intn(120000) - 20000
		}
	case 3: // small
		for i := range out {
			out[i] = r.intn(3)
		}
	case 4: // huge
		for i := range out {
			out[i] = pick(r, []int{0, 100000, 1 << 40, math.MaxInt64, math.MinInt64, 16777217, 33333})
		}
	default:
		for i := range out {
			out[i] = r.intn(60000)
		}
	}
	return out
}

func (g *gen) vr(nVars int) WVR {
	r := g.r
	idx := func() int {
		if g.mal() {
			return pick(r, []int{-1, nVars, nVars + 5, math.MinInt64, math.MaxInt64})
		}
		if nVars == 0 {
			return 0
		}
		return r.intn(nVars)
	}
	w := WVR{RO: WRollout{Vars: []WWV{}, By: mkRef("", "")}}
	hasRollout := r.chance(g.p.PRollout, 100)
	if !hasRollout || r.chance(1, 10) {
		w.V = ip(idx())
	}
	if g.mal() && r.chance(1, 3) {
		w.V = nil // neither variation nor rollout
		return w
	}
	if hasRollout {
		n := 1 + r.intn(4)
		ws := g.weights(n)
		for i := 0; i < n; i++ {
			w.RO.Vars = append(w.RO.Vars, WWV{V: idx(), W: ws[i], U: r.chance(1, 4)})
		}
		if r.chance(g.p.PExperiment, 100) {
			w.RO.Kind = "experiment"
		} else if r.chance(1, 3) {
			w.RO.Kind = pick(r, []string{"rollout", "Experiment", "x"})
		}
		w.RO.CK = pick(r, clauseKinds)
		if r.chance(1, 3) {
			w.RO.Seed = ip(pick(r, []int{0, 1, -7, 61, math.MaxInt64, math.MinInt64}))
		}
		if r.chance(2, 5) {
			w.RO.By = g.ref(w.RO.CK != "")
		}
	}
	return w
}

func (g *gen) strList(pool []string, max int) []string {
	out := []string{}
	for i, n := 0, g.r.intn(max+1); i < n; i++ {
		out = append(out, pick(g.r, pool))
	}
	return out
}

// neighbours: strings that equal k up to letter case, surrounding blanks, Unicode normal form, or
// their last byte (membership in a key list is exact string equality).
func neighbours(k string) []string {
	out := []string{k + " ", " " + k, k + k, strings.ToUpper(k), strings.ToLower(k), strings.Title(k)}
	if len(k) > 0 {
		out = append(out, k[:len(k)-1], k[:len(k)-1]+"~", k+"\x00")
	}
	out = append(out, strings.ReplaceAll(k, "\u00e9", "e\u0301"), strings.ReplaceAll(k, "e\u0301", "\u00e9"), k+"\u0301")
	res := []string{}
	for _, x := range out {
		if x != k {
			res = append(res, x)
		}
	}
	return res
}

func (g *gen) keysBiased(max int) []string {
	pool := keyPool
	if len(g.ctxKeys) > 0 && g.r.chance(2, 3) {
		pool = append(append([]string{}, g.ctxKeys...), "zz", "a")
		if g.r.chance(1, 3) {
			// near misses of the context's own keys, mostly WITHOUT the key itself
			near := []string{}
			for _, k := range g.ctxKeys {
				near = append(near, neighbours(k)...)
			}
			if g.r.bool() {
				pool = near
			} else {
				pool = append(pool, near...)
			}
		}
	}
	out := g.strList(pool, max)
	if g.r.chance(1, 6) {
		// the empty string is what key accessors return for a missing kind: a list naming it
		// must still not match a context that lacks the kind
		out = append(out, "")
	}
	return out
}

func (g *gen) form() string {
	if g.r.chance(g.p.PPlainForm, 100) {
		return "plain"
	}
	if g.r.chance(1, 3) {
		return "json"
	}
	if g.r.chance(1, 4) {
		return "repre"
	}
	if g.r.chance(1, 4) {
		return "partial"
	}
	return "pre"
}

func (g *gen) flag(key string, prereqKeys, segKeys []string) WFlag {
	r := g.r
	nVars := 1 + r.intn(4)
	if g.mal() {
		nVars = 0
	}
	f := WFlag{Key: key, On: !r.chance(1, 7), Salt: pick(r, saltPool), Form: g.form(),
		Prereqs: []WPrereq{}, Targets: []WTarget{}, CTargets: []WTarget{}, Rules: []WFlagRule{}, Vars: []JV{}}
	for i := 0; i < nVars; i++ {
		f.Vars = append(f.Vars, g.value(0))
	}
	idx := func() int {
		if g.mal() {
			return pick(r, []int{-1, nVars, nVars + 3})
		}
		if nVars == 0 {
			return 0
		}
		return r.intn(nVars)
	}
	if !r.chance(1, 5) {
		f.Off = ip(idx())
	}
	if len(prereqKeys) > 0 && r.chance(g.p.PPrereq, 100) {
		for i, n := 0, 1+r.intn(3); i < n; i++ {
			k := pick(r, prereqKeys)
			if r.chance(1, 12) {
				k = "missing-flag"
			}
			f.Prereqs = append(f.Prereqs, WPrereq{k, r.intn(3)})
		}
	}
	if r.chance(g.p.PTargets, 100) {
		for i, n := 0, r.intn(4); i < n; i++ {
			t := WTarget{Vals: g.keysBiased(3), V: idx()}
			if r.chance(1, 6) {
				// the legacy list normally has no context kind, but the schema and the evaluator allow one
				t.CK = pick(r, []string{"user", "org", "device", "other"})
			}
			f.Targets = append(f.Targets, t)
		}
		if r.chance(3, 5) {
			for i, n := 0, 1+r.intn(4); i < n; i++ {
				t := WTarget{CK: pick(r, clauseKinds), Vals: g.keysBiased(3), V: idx()}
				if (t.CK == "" || t.CK == "user") && r.chance(1, 2) {
					t.Vals = []string{}
					if len(f.Targets) > 0 && r.chance(3, 4) {
						t.V = pick(r, f.Targets).V
					}
				}
				f.CTargets = append(f.CTargets, t)
			}
		}
	}
	for i, n := 0, r.intn(g.p.MaxRules+1); i < n; i++ {
		rule := WFlagRule{ID: fmt.Sprintf("r%d", i), VR: g.vr(nVars), Track: r.chance(1, 4), Clauses: []WClause{}}
		if i > 0 && r.chance(1, 6) {
			rule.ID = f.Rules[r.intn(i)].ID // rule ids are not required to be unique
		} else if r.chance(1, 12) {
			rule.ID = ""
		}
		if r.chance(1, 10) {
			rule.ID = ""
		}
		for j, m := 0, r.intn(4); j < m; j++ {
			rule.Clauses = append(rule.Clauses, g.clause(segKeys))
		}
		f.Rules = append(f.Rules, rule)
	}
	f.FT = g.vr(nVars)
	f.TrackFT = r.chance(1, 4)
	f.Excl = r.chance(1, 4)
	f.Meta = WFlagMeta{Version: pick(r, []int{r.intn(100), r.intn(100), r.intn(100), -1, 1 << 31, 9007199254740993, math.MaxInt64}), Track: r.bool(), Debug: "0", Deleted: r.chance(1, 10)}
	if r.chance(1, 4) {
		f.Meta.Debug = fmt.Sprint(1500000000000 + r.intn(1000))
	}
	if r.chance(1, 3) {
		f.Meta.CSA = WCSA{Mobile: r.bool(), Env: r.bool(), Explicit: true}
	} else {
		f.Meta.CSA = WCSA{Mobile: true, Env: r.bool(), Explicit: false}
	}
	if r.chance(1, 6) {
		f.Meta.Sampling = ip(r.intn(10))
	}
	if r.chance(1, 6) {
		f.Meta.Mig = &WMig{}
		if r.bool() {
			f.Meta.Mig.CheckRatio = ip(r.intn(10))
		}
	}
	return f
}

func (g *gen) segTargets() []WSegTarget {
	out := []WSegTarget{}
	for i, n := 0, g.r.intn(3); i < n; i++ {
		// per the data model the per-kind lists never carry the default kind
		out = append(out, WSegTarget{CK: pick(g.r, []string{"org", "device", "other"}), Vals: g.keysBiased(3)})
	}
	return out
}

func (g *gen) segment(key string, segKeys []string) WSegment {
	r := g.r
	s := WSegment{Key: key, Salt: pick(r, saltPool), Form: g.form(), Version: pick(r, []int{r.intn(50), r.intn(50), r.intn(50), -1, 1 << 31, math.MaxInt64}), Deleted: r.chance(1, 10), Rules: []WSegRule{},
		Inc: g.keysBiased(2), Exc: g.keysBiased(2), IncC: g.segTargets(), ExcC: g.segTargets()}
	if r.chance(g.p.PBigSeg, 100) {
		s.Unb = true
		s.UnbK = pick(r, clauseKinds)
		if !r.chance(1, 8) {
			s.Gen = ip(pick(r, []int{1, 2, 0, -1, 7, 1, 2, 1 << 31, 1 << 40, 9007199254740993, math.MaxInt64, math.MinInt64}))
		}
	} else if r.chance(1, 10) {
		s.Gen = ip(1)
		s.UnbK = "org"
	}
	for i, n := 0, r.intn(g.p.MaxRules+1); i < n; i++ {
		rule := WSegRule{ID: fmt.Sprintf("sr%d", i), Clauses: []WClause{}, By: mkRef("", "")}
		for j, m := 0, r.intn(3); j < m; j++ {
			rule.Clauses = append(rule.Clauses, g.clause(segKeys))
		}
		if r.chance(2, 5) {
			rule.Weight = ip(pick(r, []int{0, 1, 50000, 99999, 100000, 100001, -5, 30000, 70000, 1 << 24, 1<<24 + 1, 1 << 40, math.MaxInt64, math.MinInt64}))
			rule.RCK = pick(r, clauseKinds)
			if r.chance(1, 3) {
				rule.By = g.ref(rule.RCK != "")
			}
		}
		s.Rules = append(s.Rules, rule)
	}
	return s
}

func (g *gen) bigSegProvider(ctx *WCtx, segs []WSegment) *WBS {
	r := g.r
	if r.chance(1, 6) {
		return nil
	}
	refs := []string{}
	for _, s := range segs {
		if s.Gen != nil {
			refs = append(refs, fmt.Sprintf("%s.g%d", s.Key, *s.Gen))
			if r.chance(1, 5) {
				refs = append(refs, fmt.Sprintf("%s.g%d", s.Key, *s.Gen+1))
			}
		}
	}
	answer := func() WBSAnswer {
		a := WBSAnswer{St: pick(r, statusPool)}
		if r.chance(2, 3) {
			a.St = "HEALTHY"
		}
		if r.chance(1, 10) {
			// the status is a string chosen by the application's provider: not necessarily one of
			// the four constants, possibly empty
			a.St = pick(r, []string{"", "", "healthy", "BOGUS", "STALE "})
		}
		if r.chance(1, 6) {
			return a // nil membership
		}
		a.M = []WMember{}
		for _, ref := range refs {
			if r.chance(3, 5) {
				a.M = append(a.M, WMember{ref, r.bool()})
			}
		}
		return a
	}
	bs := &WBS{Dflt: answer(), Table: []WBSEntry{}}
	seen := map[string]bool{}
	for _, k := range g.ctxKeys {
		if !seen[k] && r.chance(4, 5) {
			seen[k] = true
			bs.Table = append(bs.Table, WBSEntry{k, answer()})
		}
	}
	return bs
}

func ctxKeysOf(c *WCtx) []string {
	switch c.T {
	case "single":
		return []string{c.C.Key}
	case "multi":
		out := []string{}
		for _, s := range c.Cs {
			out = append(out, s.Key)
		}
		return out
	}
	return nil
}

// evalCase generates one evaluation case for the profile.
func (g *gen) evalCase(id string) *EvalCase {
	r := g.r
	c := &EvalCase{ID: id, Kind: "eval"}
	c.Ctx = g.context()
	g.ctxKeys = ctxKeysOf(&c.Ctx)
	c.Opts = WOpts{Sec: r.chance(1, 3), Log: r.chance(2, 3), Rec: !r.chance(1, 6)}
	if !c.Opts.Log && r.chance(1, 2) {
		c.Opts.LogMode = "nilopt"
	}
	c.Opts.NilOption = r.chance(1, 10)
	if r.chance(1, 6) {
		c.Opts.Shuffle = r.next() | 1
	}

	nSeg := r.intn(g.p.MaxSegs + 1)
	segKeys := segKeyPool[:nSeg]
	for i := 0; i < nSeg; i++ {
		// segment i may reference segments j>i (acyclic) or any (cyclic allowed)
		refKeys := segKeys[i+1:]
		if r.chance(g.p.PCycle, 100) {
			refKeys = segKeys
		}
		c.Store.Segments = append(c.Store.Segments, g.segment(segKeys[i], refKeys))
	}
	nFlag := r.intn(g.p.MaxFlags + 1)
	flagKeys := flagKeyPool[:nFlag]
	for i := 0; i < nFlag; i++ {
		pk := flagKeys[i+1:]
		if r.chance(g.p.PCycle, 100) {
			pk = append([]string{"top"}, flagKeys...)
		}
		c.Store.Flags = append(c.Store.Flags, g.flag(flagKeys[i], pk, segKeys))
	}
	if c.Store.Flags == nil {
		c.Store.Flags = []WFlag{}
	}
	if c.Store.Segments == nil {
		c.Store.Segments = []WSegment{}
	}
	c.Flag = g.flag("top", flagKeys, segKeys)
	if r.chance(1, 8) && nFlag > 0 { // evaluate a flag that is itself in the store
		c.Flag = c.Store.Flags[r.intn(nFlag)]
	}
	c.BS = g.bigSegProvider(&c.Ctx, c.Store.Segments)
	return c
}

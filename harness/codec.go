package main

// Codec cases (C15, C16, C17): documents as JSON trees, the four encode and decode paths of
// ldmodel, relations between decodings of equivalent documents, byte-level robustness.

import (
	"bytes"
	"encoding/json"
	"fmt"
	"math"
	"reflect"
	"sort"
	"strconv"
	"strings"

	"github.com/launchdarkly/go-jsonstream/v3/jreader"
	"github.com/launchdarkly/go-jsonstream/v3/jwriter"
	"github.com/launchdarkly/go-server-sdk-evaluation/v3/ldmodel"
)

// plainJSON renders a JV as ordinary JSON text, preserving member order and duplicates.
func (v JV) plainJSON() []byte {
	var b bytes.Buffer
	v.writePlain(&b)
	return b.Bytes()
}

func (v JV) writePlain(b *bytes.Buffer) {
	switch v.K {
	case 'r':
		v.A[0].writePlain(b)
	case 0, 'z':
		b.WriteString("null")
	case 'b':
		if v.B {
			b.WriteString("true")
		} else {
			b.WriteString("false")
		}
	case 'n':
		// go-jsonstream's tokenizer parses long integer literals with int64 arithmetic and wraps
		// around at 2^63 (outside /repo, outside the model): large magnitudes are written in
		// exponent form, which takes its floating-point path.
		if math.Abs(v.N) >= 1<<53 {
			b.WriteString(strconv.FormatFloat(v.N, 'e', -1, 64))
		} else {
			x, _ := json.Marshal(v.N)
			// an integral value is sometimes written in another spelling of the same number
			// (1.0, 1e0, 10e-1), chosen from the position in the text so that a document always
			// renders the same way
			if v.N == math.Trunc(v.N) && v.N != 0 && !bytes.ContainsAny(x, ".eE") {
				switch (uint64(b.Len())*2654435761 + uint64(int64(v.N))) % 24 {
				case 0:
					x = append(x, ".0"...)
				case 1:
					x = append(x, "e0"...)
				case 2:
					x = append(x, "0e-1"...)
				case 3:
					x = append(x, ".000E+0"...)
				}
			}
			b.Write(x)
		}
	case 's':
		x, _ := json.Marshal(v.S)
		// a character is sometimes written as a \uXXXX escape, a space is sometimes put after the string
		if len(v.S) > 0 && v.S[0] < 0x80 && v.S[0] >= 0x20 && v.S[0] != '"' && v.S[0] != '\\' && x[1] == v.S[0] && (uint64(b.Len())*40503+uint64(len(v.S)))%29 == 0 {
			x = append([]byte(fmt.Sprintf("\"\\u%04x", v.S[0])), x[2:]...)
		}
		b.Write(x)
	case 'a':
		b.WriteByte('[')
		for i, x := range v.A {
			if i > 0 {
				b.WriteByte(',')
			}
			x.writePlain(b)
		}
		b.WriteByte(']')
	case 'o':
		b.WriteByte('{')
		for i, kv := range v.O {
			if i > 0 {
				b.WriteByte(',')
			}
			x, _ := json.Marshal(kv.K)
			if len(kv.K) > 1 && kv.K[1] < 0x80 && kv.K[1] >= 0x20 && kv.K[1] != '"' && kv.K[1] != '\\' && len(x) > 3 && x[1] == kv.K[0] && x[2] == kv.K[1] && (uint64(b.Len())*40503+uint64(len(kv.K)))%31 == 0 {
				// a member name with one character escaped ("k\u0065y")
				x = append(append(append([]byte{}, x[:2]...), []byte(fmt.Sprintf("\\u%04x", kv.K[1]))...), x[3:]...)
			}
			b.Write(x)
			if (uint64(b.Len())*97)%13 == 0 {
				b.WriteString(" \n\t")
			}
			b.WriteByte(':')
			if (uint64(b.Len())*89)%17 == 0 {
				b.WriteByte(' ')
			}
			kv.V.writePlain(b)
		}
		b.WriteByte('}')
	}
}

// jvFromAny converts the result of encoding/json (an independent parser) into a canonical JV
// (object members sorted by key).
func jvFromAny(x any) JV {
	switch t := x.(type) {
	case nil:
		return jNull()
	case bool:
		return jBool(t)
	case float64:
		return jNum(t)
	case string:
		return jStr(t)
	case []any:
		out := JV{K: 'a', A: []JV{}}
		for _, e := range t {
			out.A = append(out.A, jvFromAny(e))
		}
		return out
	case map[string]any:
		keys := make([]string, 0, len(t))
		for k := range t {
			keys = append(keys, k)
		}
		sort.Strings(keys)
		out := JV{K: 'o'}
		for _, k := range keys {
			out.O = append(out.O, KV{k, jvFromAny(t[k])})
		}
		return out
	}
	return jNull()
}

func parseTree(data []byte) (JV, error) {
	var x any
	if err := json.Unmarshal(data, &x); err != nil {
		return JV{}, err
	}
	return jvFromAny(x), nil
}

func (v JV) get(k string) *JV {
	for i := range v.O {
		if v.O[i].K == k {
			return &v.O[i].V
		}
	}
	return nil
}

// ---------- reference documents built from a wire flag (independent of /repo's encoder) ----------

func optIntJV(p *int) JV {
	if p == nil {
		return jNull()
	}
	return jNum(float64(*p))
}

func refDocString(r WRef, ck string) string {
	// what a document author writes: literal name without kind, path with kind
	return r.Arg
}

func clauseDoc(c *WClause) JV {
	o := JV{K: 'o'}
	if c.CK != "" {
		o.O = append(o.O, KV{"contextKind", jStr(c.CK)})
	}
	o.O = append(o.O, KV{"attribute", jStr(c.Attr.Arg)}, KV{"op", jStr(c.Op)})
	vals := JV{K: 'a', A: append([]JV{}, c.Vals...)}
	o.O = append(o.O, KV{"values", vals}, KV{"negate", jBool(c.Neg)})
	return o
}

func vrDoc(o *JV, vr *WVR) {
	if vr.V != nil {
		o.O = append(o.O, KV{"variation", jNum(float64(*vr.V))})
	}
	if len(vr.RO.Vars) > 0 || vr.RO.Kind != "" {
		ro := JV{K: 'o'}
		if vr.RO.Kind != "" {
			ro.O = append(ro.O, KV{"kind", jStr(vr.RO.Kind)})
		}
		if vr.RO.CK != "" {
			ro.O = append(ro.O, KV{"contextKind", jStr(vr.RO.CK)})
		}
		vars := JV{K: 'a', A: []JV{}}
		for _, w := range vr.RO.Vars {
			wo := jObj(KV{"variation", jNum(float64(w.V))}, KV{"weight", jNum(float64(w.W))})
			if w.U {
				wo.O = append(wo.O, KV{"untracked", jBool(true)})
			}
			vars.A = append(vars.A, wo)
		}
		ro.O = append(ro.O, KV{"variations", vars})
		if vr.RO.Seed != nil {
			ro.O = append(ro.O, KV{"seed", jNum(float64(*vr.RO.Seed))})
		}
		if vr.RO.By.Arg != "" {
			ro.O = append(ro.O, KV{"bucketBy", jStr(vr.RO.By.Arg)})
		} else if hashStr(fmt.Sprint("by/", vr.RO.Kind, len(vr.RO.Vars), vr.RO.CK))%6 == 0 {
			ro.O = append(ro.O, KV{"bucketBy", jStr("")})
		}
		o.O = append(o.O, KV{"rollout", ro})
	}
}

func strsJV(xs []string) JV {
	out := JV{K: 'a', A: []JV{}}
	for _, s := range xs {
		out.A = append(out.A, jStr(s))
	}
	return out
}

func targetsDoc(ts []WTarget) JV {
	out := JV{K: 'a', A: []JV{}}
	for _, t := range ts {
		o := JV{K: 'o'}
		if t.CK != "" {
			o.O = append(o.O, KV{"contextKind", jStr(t.CK)})
		}
		o.O = append(o.O, KV{"variation", jNum(float64(t.V))}, KV{"values", strsJV(t.Vals)})
		out.A = append(out.A, o)
	}
	return out
}

func flagDoc(w *WFlag) JV {
	o := JV{K: 'o'}
	o.O = append(o.O, KV{"key", jStr(w.Key)}, KV{"on", jBool(w.On)})
	pr := JV{K: 'a', A: []JV{}}
	for _, p := range w.Prereqs {
		pr.A = append(pr.A, jObj(KV{"key", jStr(p.Key)}, KV{"variation", jNum(float64(p.V))}))
	}
	o.O = append(o.O, KV{"prerequisites", pr}, KV{"targets", targetsDoc(w.Targets)}, KV{"contextTargets", targetsDoc(w.CTargets)})
	rules := JV{K: 'a', A: []JV{}}
	for i := range w.Rules {
		r := &w.Rules[i]
		ro := JV{K: 'o'}
		vrDoc(&ro, &r.VR)
		if r.ID != "" {
			ro.O = append(ro.O, KV{"id", jStr(r.ID)})
		}
		cl := JV{K: 'a', A: []JV{}}
		for j := range r.Clauses {
			cl.A = append(cl.A, clauseDoc(&r.Clauses[j]))
		}
		ro.O = append(ro.O, KV{"clauses", cl}, KV{"trackEvents", jBool(r.Track)})
		rules.A = append(rules.A, ro)
	}
	ft := JV{K: 'o'}
	vrDoc(&ft, &w.FT)
	o.O = append(o.O, KV{"rules", rules}, KV{"fallthrough", ft}, KV{"offVariation", optIntJV(w.Off)},
		KV{"variations", JV{K: 'a', A: append([]JV{}, w.Vars...)}})
	if w.Meta.CSA.Explicit {
		o.O = append(o.O, KV{"clientSideAvailability", jObj(KV{"usingMobileKey", jBool(w.Meta.CSA.Mobile)}, KV{"usingEnvironmentId", jBool(w.Meta.CSA.Env)})})
	}
	// the deprecated clientSide normally mirrors usingEnvironmentId; when the newer object is present
	// (and therefore decides), one document in three contradicts it
	legacyClientSide := w.Meta.CSA.Env
	if w.Meta.CSA.Explicit && hashStr(w.Key+w.Salt)%3 == 0 {
		legacyClientSide = !legacyClientSide
	}
	o.O = append(o.O, KV{"clientSide", jBool(legacyClientSide)}, KV{"salt", jStr(w.Salt)}, KV{"trackEvents", jBool(w.Meta.Track)},
		KV{"trackEventsFallthrough", jBool(w.TrackFT)})
	if w.Meta.Debug != "" && w.Meta.Debug != "0" {
		var d float64
		fmt.Sscan(w.Meta.Debug, &d)
		o.O = append(o.O, KV{"debugEventsUntilDate", jNum(d)})
	} else {
		o.O = append(o.O, KV{"debugEventsUntilDate", jNull()})
	}
	o.O = append(o.O, KV{"version", jNum(float64(w.Meta.Version))}, KV{"deleted", jBool(w.Meta.Deleted)})
	if w.Meta.Mig != nil {
		m := JV{K: 'o'}
		if w.Meta.Mig.CheckRatio != nil {
			m.O = append(m.O, KV{"checkRatio", jNum(float64(*w.Meta.Mig.CheckRatio))})
		}
		o.O = append(o.O, KV{"migration", m})
	}
	if w.Meta.Sampling != nil {
		o.O = append(o.O, KV{"samplingRatio", jNum(float64(*w.Meta.Sampling))})
	}
	if w.Excl {
		o.O = append(o.O, KV{"excludeFromSummaries", jBool(true)})
	}
	return o
}

func segTargetsDoc(ts []WSegTarget) JV {
	out := JV{K: 'a', A: []JV{}}
	for _, t := range ts {
		o := JV{K: 'o'}
		if t.CK != "" {
			o.O = append(o.O, KV{"contextKind", jStr(t.CK)})
		}
		o.O = append(o.O, KV{"values", strsJV(t.Vals)})
		out.A = append(out.A, o)
	}
	return out
}

func segmentDoc(w *WSegment) JV {
	o := JV{K: 'o'}
	o.O = append(o.O, KV{"key", jStr(w.Key)}, KV{"included", strsJV(w.Inc)}, KV{"excluded", strsJV(w.Exc)},
		KV{"includedContexts", segTargetsDoc(w.IncC)}, KV{"excludedContexts", segTargetsDoc(w.ExcC)}, KV{"salt", jStr(w.Salt)})
	rules := JV{K: 'a', A: []JV{}}
	for i := range w.Rules {
		r := &w.Rules[i]
		ro := jObj(KV{"id", jStr(r.ID)})
		cl := JV{K: 'a', A: []JV{}}
		for j := range r.Clauses {
			cl.A = append(cl.A, clauseDoc(&r.Clauses[j]))
		}
		ro.O = append(ro.O, KV{"clauses", cl})
		if r.Weight != nil {
			ro.O = append(ro.O, KV{"weight", jNum(float64(*r.Weight))})
		}
		if r.By.Arg != "" {
			ro.O = append(ro.O, KV{"bucketBy", jStr(r.By.Arg)})
		} else if hashStr(fmt.Sprint("by/", r.ID, len(r.Clauses), r.RCK))%6 == 0 {
			ro.O = append(ro.O, KV{"bucketBy", jStr("")})
		}
		if r.RCK != "" {
			ro.O = append(ro.O, KV{"rolloutContextKind", jStr(r.RCK)})
		}
		rules.A = append(rules.A, ro)
	}
	o.O = append(o.O, KV{"rules", rules})
	if w.Unb {
		o.O = append(o.O, KV{"unbounded", jBool(true)})
	}
	if w.UnbK != "" {
		o.O = append(o.O, KV{"unboundedContextKind", jStr(w.UnbK)})
	}
	o.O = append(o.O, KV{"version", jNum(float64(w.Version))}, KV{"generation", optIntJV(w.Gen)}, KV{"deleted", jBool(w.Deleted)})
	return o
}

// ---------- typed walk over a document ----------

type objVisit func(objType string, o *JV)

func walkClauses(a *JV, visit objVisit) {
	if a == nil || a.K != 'a' {
		return
	}
	for i := range a.A {
		if a.A[i].K == 'o' {
			visit("clause", &a.A[i])
		}
	}
}

func walkVR(o *JV, visit objVisit) {
	if ro := o.get("rollout"); ro != nil && ro.K == 'o' {
		visit("rollout", ro)
		if vs := ro.get("variations"); vs != nil && vs.K == 'a' {
			for i := range vs.A {
				if vs.A[i].K == 'o' {
					visit("wv", &vs.A[i])
				}
			}
		}
	}
}

func walkDoc(kind string, d *JV, visit objVisit) {
	if d.K != 'o' {
		return
	}
	visit(kind, d)
	each := func(name, t string, f func(*JV)) {
		for i := range d.O {
			if d.O[i].K == name && d.O[i].V.K == 'a' {
				for j := range d.O[i].V.A {
					if d.O[i].V.A[j].K == 'o' {
						visit(t, &d.O[i].V.A[j])
						if f != nil {
							f(&d.O[i].V.A[j])
						}
					}
				}
			}
		}
	}
	if kind == "flag" {
		each("prerequisites", "prereq", nil)
		each("targets", "target", nil)
		each("contextTargets", "target", nil)
		each("rules", "rule", func(r *JV) { walkVR(r, visit); walkClauses(r.get("clauses"), visit) })
		if ft := d.get("fallthrough"); ft != nil && ft.K == 'o' {
			visit("fallthrough", ft)
			walkVR(ft, visit)
		}
		if c := d.get("clientSideAvailability"); c != nil && c.K == 'o' {
			visit("csa", c)
		}
		if c := d.get("migration"); c != nil && c.K == 'o' {
			visit("migration", c)
		}
	} else {
		each("includedContexts", "segtarget", nil)
		each("excludedContexts", "segtarget", nil)
		each("rules", "segrule", func(r *JV) { walkClauses(r.get("clauses"), visit) })
	}
}

// properties whose explicit null means the same as omission, per object type (property C17)
var nullable = map[string][]string{
	"flag":        {"prerequisites", "targets", "contextTargets", "rules", "variations", "offVariation", "debugEventsUntilDate", "clientSideAvailability"},
	"target":      {"values"},
	"rule":        {"clauses", "variation", "rollout"},
	"fallthrough": {"variation", "rollout"},
	"rollout":     {"seed", "bucketBy"},
	"clause":      {"values", "attribute"},
	"segment":     {"included", "excluded", "includedContexts", "excludedContexts", "rules", "generation"},
	"segtarget":   {"values"},
	"segrule":     {"clauses", "weight", "bucketBy"},
}

// known property names per object type (anything else is "unknown" to the decoder)
var knownProps = map[string][]string{
	"flag":        {"key", "on", "prerequisites", "targets", "contextTargets", "rules", "fallthrough", "offVariation", "variations", "clientSideAvailability", "clientSide", "salt", "trackEvents", "trackEventsFallthrough", "debugEventsUntilDate", "version", "deleted", "excludeFromSummaries", "samplingRatio", "migration"},
	"prereq":      {"key", "variation"},
	"target":      {"contextKind", "values", "variation"},
	"rule":        {"id", "variation", "rollout", "clauses", "trackEvents"},
	"fallthrough": {"variation", "rollout"},
	"rollout":     {"kind", "contextKind", "variations", "bucketBy", "seed"},
	"wv":          {"variation", "weight", "untracked"},
	"clause":      {"contextKind", "attribute", "op", "values", "negate"},
	"csa":         {"usingEnvironmentId", "usingMobileKey"},
	"migration":   {"checkRatio"},
	"segment":     {"key", "version", "generation", "deleted", "included", "excluded", "includedContexts", "excludedContexts", "rules", "salt", "unbounded", "unboundedContextKind"},
	"segtarget":   {"contextKind", "values"},
	"segrule":     {"id", "clauses", "weight", "bucketBy", "rolloutContextKind"},
}

func cloneJV(v JV) JV {
	out := v
	if v.A != nil {
		out.A = make([]JV, len(v.A))
		for i := range v.A {
			out.A[i] = cloneJV(v.A[i])
		}
	}
	if v.O != nil {
		out.O = make([]KV, len(v.O))
		for i := range v.O {
			out.O[i] = KV{v.O[i].K, cloneJV(v.O[i].V)}
		}
	}
	return out
}

type objRef struct {
	t string
	o *JV
}

func allObjects(kind string, d *JV) []objRef {
	out := []objRef{}
	walkDoc(kind, d, func(t string, o *JV) { out = append(out, objRef{t, o}) })
	return out
}

func hasDupKeys(o *JV) bool {
	seen := map[string]bool{}
	for _, kv := range o.O {
		if seen[kv.K] {
			return true
		}
		seen[kv.K] = true
	}
	return false
}

// ---------- mutations with a known relation ----------

// insertUnknown adds properties the decoder does not know, at several depths.
func insertUnknown(r *rng, kind string, d JV, g *gen) JV {
	out := cloneJV(d)
	n := 1 + r.intn(4)
	for i := 0; i < n; i++ {
		objs := allObjects(kind, &out) // re-collected: an insertion moves nested objects
		o := pick(r, objs)
		name := pick(r, []string{"zzUnknown", "_extra", "newProperty", "Key", "ON", "values2"})
		if r.chance(1, 2) {
			// a name that is known — but to another kind of object (a decoder shared between two
			// object types would read it): only where this object type does not know it
			types := []string{"flag", "prereq", "target", "rule", "rollout", "wv", "clause", "csa", "migration", "segment", "segtarget", "segrule"}
			cand := pick(r, knownProps[pick(r, types)])
			known := false
			for _, k := range knownProps[o.t] {
				known = known || k == cand
			}
			if !known && len(knownProps[o.t]) > 0 {
				name = cand
			}
		}
		val := g.value(0)
		pos := r.intn(len(o.o.O) + 1)
		no := make([]KV, 0, len(o.o.O)+1)
		no = append(no, o.o.O[:pos]...)
		no = append(no, KV{name, val})
		no = append(no, o.o.O[pos:]...)
		o.o.O = no
	}
	return out
}

// permute shuffles members of objects (only meaningful without duplicate keys).
func permute(r *rng, kind string, d JV) JV {
	out := cloneJV(d)
	for _, o := range allObjects(kind, &out) {
		if r.chance(2, 3) {
			for i := len(o.o.O) - 1; i > 0; i-- {
				j := r.intn(i + 1)
				o.o.O[i], o.o.O[j] = o.o.O[j], o.o.O[i]
			}
		}
	}
	return out
}

// nullVsOmit returns two documents: one with a nullable property set to null, one with it removed.
func nullVsOmit(r *rng, kind string, d JV) (JV, JV, string, bool) {
	a, b := cloneJV(d), cloneJV(d)
	oa, ob := allObjects(kind, &a), allObjects(kind, &b)
	cands := []int{}
	for i, o := range oa {
		if len(nullable[o.t]) > 0 {
			cands = append(cands, i)
		}
	}
	if len(cands) == 0 {
		return a, b, "", false
	}
	i := pick(r, cands)
	name := pick(r, nullable[oa[i].t])
	// a: null (replace or add); b: removed
	found := false
	for j := range oa[i].o.O {
		if oa[i].o.O[j].K == name {
			oa[i].o.O[j].V = jNull()
			found = true
		}
	}
	if !found {
		oa[i].o.O = append(oa[i].o.O, KV{name, jNull()})
	}
	kept := ob[i].o.O[:0]
	for _, kv := range ob[i].o.O {
		if kv.K != name {
			kept = append(kept, kv)
		}
	}
	ob[i].o.O = kept
	return a, b, oa[i].t + "." + name, true
}

var defaults = map[string]map[string]JV{
	"flag": {"key": jStr(""), "on": jBool(false), "prerequisites": jArr(), "targets": jArr(), "contextTargets": jArr(),
		"rules": jArr(), "fallthrough": jObj(), "offVariation": jNull(), "variations": jArr(), "clientSide": jBool(false),
		"salt": jStr(""), "trackEvents": jBool(false), "trackEventsFallthrough": jBool(false), "debugEventsUntilDate": jNull(),
		"version": jNum(0), "deleted": jBool(false), "excludeFromSummaries": jBool(false)},
	"prereq":      {"key": jStr(""), "variation": jNum(0)},
	"csa":         {"usingEnvironmentId": jBool(false), "usingMobileKey": jBool(false)},
	"fallthrough": {"variation": jNull(), "rollout": jNull()},
	"target":      {"contextKind": jStr(""), "values": jArr(), "variation": jNum(0)},
	"rule":        {"id": jStr(""), "clauses": jArr(), "trackEvents": jBool(false), "variation": jNull(), "rollout": jNull()},
	"rollout":     {"kind": jStr(""), "contextKind": jStr(""), "seed": jNull(), "bucketBy": jNull()},
	"wv":          {"variation": jNum(0), "weight": jNum(0), "untracked": jBool(false)},
	"clause":      {"contextKind": jStr(""), "attribute": jStr(""), "op": jStr(""), "values": jArr(), "negate": jBool(false)},
	"segment":     {"key": jStr(""), "version": jNum(0), "generation": jNull(), "deleted": jBool(false), "included": jArr(), "excluded": jArr(), "includedContexts": jArr(), "excludedContexts": jArr(), "rules": jArr(), "salt": jStr(""), "unbounded": jBool(false), "unboundedContextKind": jStr("")},
	"segtarget":   {"contextKind": jStr(""), "values": jArr()},
	"segrule":     {"id": jStr(""), "clauses": jArr(), "weight": jNull(), "bucketBy": jNull(), "rolloutContextKind": jStr("")},
}

// omitVsDefault: a property removed vs. the same property with its default value.
func omitVsDefault(r *rng, kind string, d JV) (JV, JV, string, bool) {
	a, b := cloneJV(d), cloneJV(d)
	oa, ob := allObjects(kind, &a), allObjects(kind, &b)
	cands := []int{}
	for i, o := range oa {
		if len(defaults[o.t]) > 0 {
			cands = append(cands, i)
		}
	}
	if len(cands) == 0 {
		return a, b, "", false
	}
	i := pick(r, cands)
	names := []string{}
	for k := range defaults[oa[i].t] {
		names = append(names, k)
	}
	sort.Strings(names)
	// one property, or (one time in three) several at once — up to all of them, which leaves an
	// object with no defaultable member at all (e.g. "clientSideAvailability": {})
	chosen := []string{pick(r, names)}
	if r.chance(1, 3) {
		chosen = chosen[:0]
		all := r.chance(1, 2)
		for _, n := range names {
			if all || r.bool() {
				chosen = append(chosen, n)
			}
		}
		if len(chosen) == 0 {
			chosen = []string{pick(r, names)}
		}
	}
	isChosen := map[string]bool{}
	for _, n := range chosen {
		isChosen[n] = true
	}
	// remove from both, then add the defaults to b
	for _, x := range []*JV{oa[i].o, ob[i].o} {
		kept := x.O[:0]
		for _, kv := range x.O {
			if !isChosen[kv.K] {
				kept = append(kept, kv)
			}
		}
		x.O = kept
	}
	for _, n := range chosen {
		dv := cloneJV(defaults[oa[i].t][n])
		if n == "bucketBy" && r.bool() {
			dv = jStr("") // the empty string, which LaunchDarkly has been known to send, is "not set" too
		}
		ob[i].o.O = append(ob[i].o.O, KV{n, dv})
	}
	name := strings.Join(chosen, "+")
	return a, b, oa[i].t + "." + name, true
}

// corrupt makes structurally arbitrary changes (no expected relation except model = code).
func corrupt(r *rng, kind string, d JV, g *gen) JV {
	out := cloneJV(d)
	for i, n := 0, 1+r.intn(3); i < n; i++ {
		objs := allObjects(kind, &out)
		o := pick(r, objs)
		if len(o.o.O) == 0 {
			continue
		}
		j := r.intn(len(o.o.O))
		// one time in four: an element of a list-valued member of this object (string lists, value
		// lists and lists of objects alike) is replaced by, or gets as a neighbour, a value of
		// another JSON type
		if r.chance(1, 4) {
			lists := []int{}
			for k := range o.o.O {
				if o.o.O[k].V.K == 'a' {
					lists = append(lists, k)
				}
			}
			if len(lists) > 0 {
				k := pick(r, lists)
				arr := append([]JV{}, o.o.O[k].V.A...)
				bad := pick(r, []JV{jNull(), jNum(1), jNum(-0.5), jStr("x"), jStr(""), jBool(true), jArr(), jObj()})
				if len(arr) > 0 && r.bool() {
					arr[r.intn(len(arr))] = bad
				} else {
					p := r.intn(len(arr) + 1)
					arr = append(arr[:p], append([]JV{bad}, arr[p:]...)...)
				}
				o.o.O[k].V = JV{K: 'a', A: arr}
				continue
			}
		}
		switch r.intn(6) {
		case 0: // drop
			o.o.O = append(append([]KV{}, o.o.O[:j]...), o.o.O[j+1:]...)
		case 1: // null
			o.o.O[j].V = jNull()
		case 2: // wrong type / arbitrary value
			o.o.O[j].V = g.value(0)
		case 3: // duplicate (possibly with another value)
			kv := KV{o.o.O[j].K, cloneJV(o.o.O[j].V)}
			if r.bool() {
				kv.V = g.value(0)
			}
			o.o.O = append(append([]KV{}, o.o.O...), kv)
		case 4: // numeric oddities
			o.o.O[j].V = jNum(pick(r, []float64{1.5, -1, -0.5, 1e30, -1e30, 9223372036854775808, 18446744073709551616, 4294967296.5, -1024, 0}))
		case 5: // rename to a known name of this object type
			if ks := knownProps[o.t]; len(ks) > 0 {
				o.o.O[j].K = pick(r, ks)
			}
		}
	}
	return out
}

// ---------- the real decode / encode paths ----------

func decodeFlagPaths(data []byte) (vals []ldmodel.FeatureFlag, errs []error, names []string) {
	ser := ldmodel.NewJSONDataModelSerialization()
	f1, e1 := ser.UnmarshalFeatureFlag(data)
	var f2 ldmodel.FeatureFlag
	e2 := json.Unmarshal(data, &f2)
	rd := jreader.NewReader(data)
	f3 := ldmodel.UnmarshalFeatureFlagFromJSONReader(&rd)
	e3 := rd.Error()
	if e3 == nil {
		e3 = rd.RequireEOF()
	}
	// encoding/json into a destination that has been decoded into before (a variable reused in a
	// loop, an element of a slice decoded twice): the result must not depend on what it held
	f4 := usedFlagDestination()
	e4 := json.Unmarshal(data, &f4)
	if e4 != nil {
		f4 = f2 // on error the destination keeps its old content; nothing to compare
	}
	vals = []ldmodel.FeatureFlag{f1, f2, f3, f4}
	errs = []error{e1, e2, e3, e4}
	names = []string{"serialization", "encoding/json", "jreader", "encoding/json into a previously used destination"}
	// the reader entry point in its documented use: items embedded in a larger document, read one
	// after the other through the same reader (only for documents that are complete on their own)
	if e3 == nil && json.Valid(data) {
		items := embeddedItems(data, func(r *jreader.Reader) any { return ldmodel.UnmarshalFeatureFlagFromJSONReader(r) })
		for i, it := range items {
			f, ok := it.(ldmodel.FeatureFlag)
			if !ok {
				vals, errs, names = append(vals, ldmodel.FeatureFlag{}), append(errs, it.(error)), append(names, fmt.Sprintf("jreader, item %d of an enclosing document", i))
				continue
			}
			vals, errs, names = append(vals, f), append(errs, nil), append(names, fmt.Sprintf("jreader, item %d of an enclosing document", i))
		}
	}
	return vals, errs, names
}

// embeddedItems decodes the same document three times from inside one enclosing document
// ({"pre":…, "items":[doc, doc], "more":{"x":doc}, "post":…}) with one reader.
func embeddedItems(doc []byte, read func(r *jreader.Reader) any) []any {
	var b bytes.Buffer
	b.WriteString(`{"pre":[1,{"x":null},"s"],"items":[`)
	b.Write(doc)
	b.WriteString(`,`)
	b.Write(doc)
	b.WriteString(`],"more":{"unknown":true,"x":`)
	b.Write(doc)
	b.WriteString(`},"post":"y"}`)
	rd := jreader.NewReader(b.Bytes())
	out := []any{}
	for obj := rd.Object(); obj.Next(); {
		switch string(obj.Name()) {
		case "items":
			for arr := rd.Array(); arr.Next(); {
				out = append(out, read(&rd))
			}
		case "more":
			for o2 := rd.Object(); o2.Next(); {
				if string(o2.Name()) == "x" {
					out = append(out, read(&rd))
				} else {
					_ = rd.SkipValue()
				}
			}
		default:
			_ = rd.SkipValue()
		}
	}
	if err := rd.Error(); err != nil {
		out = append(out, fmt.Errorf("reading the enclosing document failed: %v", err))
	} else if err := rd.RequireEOF(); err != nil {
		out = append(out, fmt.Errorf("enclosing document not consumed to its end: %v", err))
	} else if len(out) != 3 {
		out = append(out, fmt.Errorf("%d items read from the enclosing document instead of 3", len(out)))
	}
	return out
}

const richFlagDoc = `{"key":"old","version":41,"on":true,"salt":"old-salt","prerequisites":[{"key":"p","variation":1}],` +
	`"targets":[{"variation":1,"values":["old-a","old-b"]}],"contextTargets":[{"contextKind":"org","variation":0,"values":["old-org"]}],` +
	`"rules":[{"id":"old-rule","variation":1,"trackEvents":true,"clauses":[{"contextKind":"user","attribute":"/a/b","op":"in","values":["x",1,true],"negate":true}]},` +
	`{"id":"old-rule-2","rollout":{"kind":"experiment","seed":7,"contextKind":"org","bucketBy":"/k","variations":[{"variation":0,"weight":100000,"untracked":true}]},"clauses":[]}],` +
	`"fallthrough":{"rollout":{"variations":[{"variation":1,"weight":50000},{"variation":0,"weight":50000}]}},"offVariation":1,` +
	`"variations":["old0","old1",{"o":1},[1,2]],"clientSideAvailability":{"usingMobileKey":true,"usingEnvironmentId":true},"clientSide":true,` +
	`"trackEvents":true,"trackEventsFallthrough":true,"debugEventsUntilDate":1600000000000,"deleted":true,"samplingRatio":3,` +
	`"excludeFromSummaries":true,"migration":{"checkRatio":5}}`

const richSegmentDoc = `{"key":"old-seg","version":9,"generation":4,"deleted":true,"included":["a1","a2"],"excluded":["x1"],` +
	`"includedContexts":[{"contextKind":"org","values":["o1"]}],"excludedContexts":[{"contextKind":"device","values":["d1"]}],` +
	`"salt":"old-salt","unbounded":true,"unboundedContextKind":"org",` +
	`"rules":[{"id":"sr","clauses":[{"attribute":"email","op":"endsWith","values":["@x"],"negate":false}],"weight":30000,"bucketBy":"email","rolloutContextKind":"org"}]}`

func usedFlagDestination() ldmodel.FeatureFlag {
	var f ldmodel.FeatureFlag
	if err := json.Unmarshal([]byte(richFlagDoc), &f); err != nil {
		panic("harness: richFlagDoc does not decode: " + err.Error())
	}
	return f
}

func usedSegmentDestination() ldmodel.Segment {
	var s ldmodel.Segment
	if err := json.Unmarshal([]byte(richSegmentDoc), &s); err != nil {
		panic("harness: richSegmentDoc does not decode: " + err.Error())
	}
	return s
}

func decodeSegmentPaths(data []byte) (vals []ldmodel.Segment, errs []error, names []string) {
	ser := ldmodel.NewJSONDataModelSerialization()
	f1, e1 := ser.UnmarshalSegment(data)
	var f2 ldmodel.Segment
	e2 := json.Unmarshal(data, &f2)
	rd := jreader.NewReader(data)
	f3 := ldmodel.UnmarshalSegmentFromJSONReader(&rd)
	e3 := rd.Error()
	if e3 == nil {
		e3 = rd.RequireEOF()
	}
	f4 := usedSegmentDestination()
	e4 := json.Unmarshal(data, &f4)
	if e4 != nil {
		f4 = f2 // on error the destination keeps its old content; nothing to compare
	}
	vals = []ldmodel.Segment{f1, f2, f3, f4}
	errs = []error{e1, e2, e3, e4}
	names = []string{"serialization", "encoding/json", "jreader", "encoding/json into a previously used destination"}
	if e3 == nil && json.Valid(data) {
		items := embeddedItems(data, func(r *jreader.Reader) any { return ldmodel.UnmarshalSegmentFromJSONReader(r) })
		for i, it := range items {
			s, ok := it.(ldmodel.Segment)
			if !ok {
				vals, errs, names = append(vals, ldmodel.Segment{}), append(errs, it.(error)), append(names, fmt.Sprintf("jreader, item %d of an enclosing document", i))
				continue
			}
			vals, errs, names = append(vals, s), append(errs, nil), append(names, fmt.Sprintf("jreader, item %d of an enclosing document", i))
		}
	}
	return vals, errs, names
}

func encodeFlagPaths(f ldmodel.FeatureFlag) (outs [][]byte, errs []error, names []string) {
	ser := ldmodel.NewJSONDataModelSerialization()
	b1, e1 := ser.MarshalFeatureFlag(f)
	b2, e2 := json.Marshal(f)
	w := jwriter.NewWriter()
	ldmodel.MarshalFeatureFlagToJSONWriter(f, &w)
	b3, e3 := w.Bytes(), w.Error()
	b4, e4 := f.MarshalJSON()
	w2 := jwriter.NewWriter()
	arr := w2.Array()
	ldmodel.MarshalFeatureFlagToJSONWriter(f, &w2)
	ldmodel.MarshalFeatureFlagToJSONWriter(f, &w2)
	arr.End()
	b5, e5 := secondOfTwo(w2.Bytes(), w2.Error())
	outs = [][]byte{b1, b2, b3, b4, b5}
	errs = []error{e1, e2, e3, e4, e5}
	names = []string{"serialization", "encoding/json", "jwriter", "MarshalJSON", "jwriter, second of two values in one array"}
	if bad := checkKept(outs, names); bad != nil {
		outs, errs, names = append(outs, nil), append(errs, bad), append(names, "results of the previous encode calls")
	}
	return outs, errs, names
}

// Results of earlier encode calls, kept (with a private copy) until the next call: an encoder that
// hands out a buffer it will reuse corrupts what an earlier caller still holds.
var (
	keptEncoded [][]byte
	keptCopies  [][]byte
	keptNames   []string
)

// checkKept reports the first earlier result that no longer has the content it was returned with,
// then remembers the new results.
func checkKept(outs [][]byte, names []string) error {
	var bad error
	for i := range keptEncoded {
		if !bytes.Equal(keptEncoded[i], keptCopies[i]) && bad == nil {
			bad = fmt.Errorf("the result an earlier call returned through %q was overwritten by a later encode", keptNames[i])
		}
	}
	keptEncoded, keptCopies, keptNames = nil, nil, nil
	for i, o := range outs {
		if o != nil {
			keptEncoded = append(keptEncoded, o)
			keptCopies = append(keptCopies, append([]byte{}, o...))
			keptNames = append(keptNames, names[i])
		}
	}
	return bad
}

// secondOfTwo takes the JSON text of an array of two values and returns the text of the second
// (an error if the text is not such an array, or if the two elements differ).
func secondOfTwo(data []byte, err error) ([]byte, error) {
	if err != nil {
		return nil, err
	}
	var items []json.RawMessage
	if e := json.Unmarshal(data, &items); e != nil {
		return nil, fmt.Errorf("two values written into one array do not form valid JSON: %v", e)
	}
	if len(items) != 2 {
		return nil, fmt.Errorf("two values written into one array produced %d elements", len(items))
	}
	if !sameJSONBytes(items[0], items[1]) {
		return nil, fmt.Errorf("the same value written twice into one writer gave two different texts")
	}
	return items[1], nil
}

func encodeSegmentPaths(f ldmodel.Segment) (outs [][]byte, errs []error, names []string) {
	ser := ldmodel.NewJSONDataModelSerialization()
	b1, e1 := ser.MarshalSegment(f)
	b2, e2 := json.Marshal(f)
	w := jwriter.NewWriter()
	ldmodel.MarshalSegmentToJSONWriter(f, &w)
	b3, e3 := w.Bytes(), w.Error()
	b4, e4 := f.MarshalJSON()
	w2 := jwriter.NewWriter()
	arr := w2.Array()
	ldmodel.MarshalSegmentToJSONWriter(f, &w2)
	ldmodel.MarshalSegmentToJSONWriter(f, &w2)
	arr.End()
	b5, e5 := secondOfTwo(w2.Bytes(), w2.Error())
	outs = [][]byte{b1, b2, b3, b4, b5}
	errs = []error{e1, e2, e3, e4, e5}
	names = []string{"serialization", "encoding/json", "jwriter", "MarshalJSON", "jwriter, second of two values in one array"}
	if bad := checkKept(outs, names); bad != nil {
		outs, errs, names = append(outs, nil), append(errs, bad), append(names, "results of the previous encode calls")
	}
	return outs, errs, names
}

// encoding/json re-indents / escapes HTML differently from the raw writer; compare compacted,
// unescaped forms.
func sameJSONBytes(a, b []byte) bool {
	if bytes.Equal(a, b) {
		return true
	}
	// the same members (every occurrence of a repeated one) with the same exact numbers; not a
	// comparison of encoding/json trees, which keep one of two members with the same name and
	// round large integers
	ta, _, ea := jsonTokens(a)
	tb, _, eb := jsonTokens(b)
	return ea == nil && eb == nil && canonTokens(ta) == canonTokens(tb)
}

func flagDumpJSON(f *ldmodel.FeatureFlag) string {
	return canon(normalizeDump(toGenericAny(dumpFlag(f, ""))))
}
func segDumpJSON(s *ldmodel.Segment) string {
	return canon(normalizeDump(toGenericAny(dumpSegment(s, ""))))
}

func toGenericAny(v any) any {
	b, _ := json.Marshal(v)
	var x any
	_ = json.Unmarshal(b, &x)
	return x
}

// normalizeDump removes harness-only fields and orders set-valued tables.
func normalizeDump(x any) any {
	switch t := x.(type) {
	case map[string]any:
		out := map[string]any{}
		for k, v := range t {
			if k == "ctor" || k == "arg" || k == "form" {
				continue
			}
			nv := normalizeDump(v)
			if k == "pm" || k == "incM" || k == "excM" {
				if arr, ok := nv.([]any); ok {
					strs := []string{}
					seen := map[string]bool{}
					for _, e := range arr {
						s := canon(e)
						if !seen[s] {
							seen[s] = true
							strs = append(strs, s)
						}
					}
					sort.Strings(strs)
					na := []any{}
					for _, s := range strs {
						var e any
						_ = json.Unmarshal([]byte(s), &e)
						na = append(na, e)
					}
					nv = na
				}
			}
			out[k] = nv
		}
		return out
	case []any:
		out := make([]any, len(t))
		for i := range t {
			out[i] = normalizeDump(t[i])
		}
		return out
	}
	return x
}

// ---------- unit-case kinds for the model correspondence ----------

func (c *UnitCase) runCodec() bool {
	if (c.Kind == "decflag" || c.Kind == "decseg") && c.Doc == nil {
		n := jNull() // a document that is the JSON value null travels as a nil pointer
		c.Doc = &n
	}
	switch c.Kind {
	case "decflag":
		data := c.Doc.plainJSON()
		f, err := ldmodel.NewJSONDataModelSerialization().UnmarshalFeatureFlag(data)
		if err != nil {
			c.Go = map[string]any{"ok": false, "flag": nil}
			c.Rx = [][3]any{}
			return true
		}
		d := dumpFlag(&f, "")
		c.Rx = regexOracleFor([]*WFlag{&d}, nil, &WCtx{T: "invalid"})
		c.Go = map[string]any{"ok": true, "flag": toGenericAny(d)}
		return true
	case "decseg":
		data := c.Doc.plainJSON()
		s, err := ldmodel.NewJSONDataModelSerialization().UnmarshalSegment(data)
		if err != nil {
			c.Go = map[string]any{"ok": false, "segment": nil}
			c.Rx = [][3]any{}
			return true
		}
		d := dumpSegment(&s, "")
		c.Rx = regexOracleFor(nil, []*WSegment{&d}, &WCtx{T: "invalid"})
		c.Go = map[string]any{"ok": true, "segment": toGenericAny(d)}
		return true
	case "encflag":
		f := c.Flag.build()
		d := dumpFlag(f, c.Flag.Form)
		c.Flag = &d
		data, err := ldmodel.NewJSONDataModelSerialization().MarshalFeatureFlag(*f)
		if err != nil {
			c.Go = map[string]any{"panic": "marshal error " + err.Error()}
			return true
		}
		t, perr := parseTree(data)
		if perr != nil {
			c.Go = map[string]any{"panic": "output is not valid JSON: " + perr.Error()}
			return true
		}
		if _, dup, _ := jsonTokens(data); dup != "" {
			c.Go = map[string]any{"panic": "output has two members named " + dup + " in one object"}
			return true
		}
		c.GoTree = &t
		c.Go = map[string]any{"tree": toGenericAny(t)}
		return true
	case "encseg":
		s := c.Segment.build()
		d := dumpSegment(s, c.Segment.Form)
		c.Segment = &d
		data, err := ldmodel.NewJSONDataModelSerialization().MarshalSegment(*s)
		if err != nil {
			c.Go = map[string]any{"panic": "marshal error " + err.Error()}
			return true
		}
		t, perr := parseTree(data)
		if perr != nil {
			c.Go = map[string]any{"panic": "output is not valid JSON: " + perr.Error()}
			return true
		}
		if _, dup, _ := jsonTokens(data); dup != "" {
			c.Go = map[string]any{"panic": "output has two members named " + dup + " in one object"}
			return true
		}
		c.GoTree = &t
		c.Go = map[string]any{"tree": toGenericAny(t)}
		return true
	}
	return false
}

// ---------- byte-level robustness ----------

func mutateBytes(r *rng, data []byte) []byte {
	out := append([]byte{}, data...)
	if len(out) == 0 {
		return out
	}
	for i, n := 0, 1+r.intn(3); i < n; i++ {
		p := r.intn(len(out))
		switch r.intn(7) {
		case 6:
			// a complete document followed by something else
			out = append(out, pick(r, []string{"x", "null", "{}", " 1", ",", "]", "}", "\n\"a\"", "\x00", " \t\n true"})...)
		case 0:
			out = out[:p] // truncate
		case 1:
			out[p] = byte(r.intn(256))
		case 2:
			out = append(out[:p], out[p+1:]...)
		case 3:
			ins := pick(r, []string{"{", "}", "[", "]", ",", ":", "\"", "null", "1e999", "-", "\\u12", "\x00", "\xff", "true", "0.0.1"})
			out = append(out[:p], append([]byte(ins), out[p:]...)...)
		case 4:
			if p+2 < len(out) {
				out[p], out[p+1] = out[p+1], out[p]
			}
		case 5:
			out = append(out, out[p:]...)
		}
		if len(out) == 0 {
			return out
		}
	}
	return out
}

// byteRobustness checks C17's byte-level clause on one input. Returns "" or what failed.
func byteRobustness(kind string, data []byte) (msg string) {
	defer func() {
		if r := recover(); r != nil {
			msg = fmt.Sprintf("decoder panicked: %v", r)
		}
	}()
	if kind == "flag" {
		vals, errs, names := decodeFlagPaths(data)
		for i := range vals {
			if errs[i] != nil && i != 2 { // the reader-function path has no error/zero-value contract
				if i == 0 && !reflect.DeepEqual(vals[i], ldmodel.FeatureFlag{}) {
					return names[i] + ": error returned together with a non-zero value"
				}
			}
			if errs[i] == nil {
				out, err := json.Marshal(vals[i])
				if err != nil || !json.Valid(out) {
					return names[i] + ": accepted value cannot be encoded again"
				}
			}
		}
		// the encoding/json hook must leave its destination untouched on error
		dest := ldmodel.FeatureFlag{Key: "sentinel", Version: 77, On: true}
		before := flagDumpJSON(&dest)
		if err := dest.UnmarshalJSON(data); err != nil && flagDumpJSON(&dest) != before {
			return "UnmarshalJSON modified its destination although it returned an error"
		}
		// the same with a destination whose every list, optional and nested object is populated
		// (a hook that decodes in place would reset or append to those before failing)
		rich := usedFlagDestination()
		richBefore := capDump(&rich)
		if err := rich.UnmarshalJSON(data); err != nil && capDump(&rich) != richBefore {
			return "UnmarshalJSON modified a populated destination although it returned an error"
		}
		rich2 := usedFlagDestination()
		if err := json.Unmarshal(data, &rich2); err != nil && capDump(&rich2) != richBefore {
			return "json.Unmarshal modified a populated destination although it returned an error"
		}
	} else {
		vals, errs, names := decodeSegmentPaths(data)
		for i := range vals {
			if errs[i] != nil && i == 0 && !reflect.DeepEqual(vals[i], ldmodel.Segment{}) {
				return names[i] + ": error returned together with a non-zero value"
			}
			if errs[i] == nil {
				out, err := json.Marshal(vals[i])
				if err != nil || !json.Valid(out) {
					return names[i] + ": accepted value cannot be encoded again"
				}
			}
		}
		dest := ldmodel.Segment{Key: "sentinel", Version: 77}
		before := segDumpJSON(&dest)
		if err := dest.UnmarshalJSON(data); err != nil && segDumpJSON(&dest) != before {
			return "UnmarshalJSON modified its destination although it returned an error"
		}
		rich := usedSegmentDestination()
		richBefore := capDump(&rich)
		if err := rich.UnmarshalJSON(data); err != nil && capDump(&rich) != richBefore {
			return "UnmarshalJSON modified a populated destination although it returned an error"
		}
		rich2 := usedSegmentDestination()
		if err := json.Unmarshal(data, &rich2); err != nil && capDump(&rich2) != richBefore {
			return "json.Unmarshal modified a populated destination although it returned an error"
		}
	}
	return ""
}

var _ = math.Inf
var _ = strings.Contains

package main

// Running one evaluation case against the real evaluator of /repo, observing every side channel.

import (
	"fmt"
	"regexp"
	"sort"
	"strings"

	"github.com/launchdarkly/go-sdk-common/v3/ldcontext"
	"github.com/launchdarkly/go-sdk-common/v3/ldreason"
	"github.com/launchdarkly/go-sdk-common/v3/ldvalue"
	evaluation "github.com/launchdarkly/go-server-sdk-evaluation/v3"
	"github.com/launchdarkly/go-server-sdk-evaluation/v3/ldmodel"
)

type WOpts struct {
	Sec bool `json:"sec"`
	Log bool `json:"log"`
	// LogMode: "" or "on" per Log; "nilopt" = EvaluatorOptionErrorLogger(nil) passed; "none" = no option.
	LogMode string `json:"logMode,omitempty"`
	Rec     bool   `json:"rec"`
	// NilOption: a nil EvaluatorOption is included in the option list.
	NilOption bool `json:"nilOption,omitempty"`
	// Shuffle (non-zero): the option list is built in a random order with nil entries anywhere and
	// with overridden duplicates first — a decoy logger, a decoy big-segment provider, the opposite
	// secondary-key setting — each followed later by the option that counts (documented behaviour:
	// options are applied in order, nil entries are skipped, the last one of a kind wins). An
	// evaluation that touches a decoy is reported as not having completed normally.
	Shuffle uint64 `json:"shuffle,omitempty"`
	// shape (not on the wire; set by the worker from the case id): which Go shape the logger and
	// the big-segment provider handed to the library have (implkinds.go)
	shape uint64
}

type decoyBS struct{ hits *[]string }

func (d decoyBS) GetMembership(key string) (evaluation.BigSegmentMembership, ldreason.BigSegmentsStatus) {
	*d.hits = append(*d.hits, "decoy big-segment provider queried for "+key)
	return nil, ldreason.BigSegmentsStoreError
}

type decoyLogger struct{ hits *[]string }

func (d decoyLogger) Println(values ...interface{}) {
	*d.hits = append(*d.hits, "decoy logger received "+fmt.Sprintln(values...))
}
func (d decoyLogger) Printf(format string, values ...interface{}) {
	*d.hits = append(*d.hits, "decoy logger received "+fmt.Sprintf(format, values...))
}

type WMember struct {
	Ref string
	In  bool
}

func (m WMember) MarshalJSON() ([]byte, error) { return jsonMarshal([2]any{m.Ref, m.In}) }
func (m *WMember) UnmarshalJSON(d []byte) error {
	var p [2]any
	if err := jsonUnmarshal(d, &p); err != nil {
		return err
	}
	m.Ref, _ = p[0].(string)
	m.In, _ = p[1].(bool)
	return nil
}

type WBSAnswer struct {
	M  []WMember `json:"m"` // nil -> null -> nil membership
	St string    `json:"st"`
}

type WBSEntry struct {
	Key string
	A   WBSAnswer
}

func (e WBSEntry) MarshalJSON() ([]byte, error) { return jsonMarshal([2]any{e.Key, e.A}) }
func (e *WBSEntry) UnmarshalJSON(d []byte) error {
	var p [2]jsonRaw
	if err := jsonUnmarshal(d, &p); err != nil {
		return err
	}
	if err := jsonUnmarshal(p[0], &e.Key); err != nil {
		return err
	}
	return jsonUnmarshal(p[1], &e.A)
}

type WBS struct {
	Table []WBSEntry `json:"table"`
	Dflt  WBSAnswer  `json:"dflt"`
}

type WReason struct {
	Kind      string  `json:"kind"`
	RuleIndex int     `json:"ruleIndex"`
	RuleID    string  `json:"ruleId"`
	PrereqKey string  `json:"prereqKey"`
	ErrorKind *string `json:"errorKind"`
	InExp     bool    `json:"inExp"`
	BSS       *string `json:"bss"`
}

type WResult struct {
	Value  JV      `json:"value"`
	Index  *int    `json:"index"`
	Reason WReason `json:"reason"`
	IsExp  bool    `json:"isExp"`
}

type WEvent struct {
	Target  string  `json:"target"`
	Prereq  string  `json:"prereq"`
	Version int     `json:"version"`
	Result  WResult `json:"result"`
	Excl    bool    `json:"excl"`
}

type WObs struct {
	Outcome     string      `json:"outcome"` // done | panic | crash | timeout | oof (model only)
	Result      WResult     `json:"result"`
	Events      []WEvent    `json:"events"`
	Logs        [][2]string `json:"logs"`
	FlagLookups []string    `json:"flagLookups"`
	SegLookups  []string    `json:"segLookups"`
	BSQueries   []string    `json:"bsQueries"`
	MemChecks   [][2]string `json:"memChecks"`
	// Go-side only:
	Panic    string   `json:"panic,omitempty"`
	EventsOK bool     `json:"eventsOK"` // every event carried the call's context and the store's flag pointer
	RawLogs  []string `json:"rawLogs,omitempty"`
	// LogOps (model side only): for each log line, what it must mention besides the flag key
	LogOps [][]string `json:"logOps,omitempty"`
}

type EvalCase struct {
	ID    string   `json:"id"`
	Kind  string   `json:"kind"`
	Opts  WOpts    `json:"opts"`
	Store WStore   `json:"store"`
	Flag  WFlag    `json:"flag"`
	Ctx   WCtx     `json:"ctx"`
	BS    *WBS     `json:"bs"`
	Rx    [][3]any `json:"rx"`
	Go    *WObs    `json:"go,omitempty"`
	Tags  []string `json:"tags,omitempty"`
}

// ---------- realised case ----------

type realStore struct {
	flags       map[string]*ldmodel.FeatureFlag
	segments    map[string]*ldmodel.Segment
	flagLookups []string
	segLookups  []string
}

func (s *realStore) GetFeatureFlag(key string) *ldmodel.FeatureFlag {
	s.flagLookups = append(s.flagLookups, key)
	return s.flags[key]
}

func (s *realStore) GetSegment(key string) *ldmodel.Segment {
	s.segLookups = append(s.segLookups, key)
	return s.segments[key]
}

type realMembership struct {
	key    string
	m      map[string]bool
	checks *[][2]string
}

func (m *realMembership) CheckMembership(ref string) ldvalue.OptionalBool {
	*m.checks = append(*m.checks, [2]string{m.key, ref})
	if b, ok := m.m[ref]; ok {
		return ldvalue.NewOptionalBool(b)
	}
	return ldvalue.OptionalBool{}
}

type realBS struct {
	w       *WBS
	queries []string
	checks  [][2]string
}

func (p *realBS) GetMembership(key string) (evaluation.BigSegmentMembership, ldreason.BigSegmentsStatus) {
	p.queries = append(p.queries, key)
	a := p.w.Dflt
	for _, e := range p.w.Table {
		if e.Key == key {
			a = e.A
			break
		}
	}
	if a.M == nil {
		return nil, ldreason.BigSegmentsStatus(a.St)
	}
	m := &realMembership{key: key, m: map[string]bool{}, checks: &p.checks}
	for _, x := range a.M {
		if _, dup := m.m[x.Ref]; !dup {
			m.m[x.Ref] = x.In
		}
	}
	return m, ldreason.BigSegmentsStatus(a.St)
}

type captureLogger struct{ lines []string }

func (l *captureLogger) Println(values ...interface{}) {
	l.lines = append(l.lines, fmt.Sprintln(values...))
}
func (l *captureLogger) Printf(format string, values ...interface{}) {
	l.lines = append(l.lines, fmt.Sprintf(format, values...))
}

func buildStore(w *WStore) *realStore {
	s := &realStore{flags: map[string]*ldmodel.FeatureFlag{}, segments: map[string]*ldmodel.Segment{}}
	for i := range w.Flags {
		if _, dup := s.flags[w.Flags[i].lookupKey()]; !dup {
			s.flags[w.Flags[i].lookupKey()] = w.Flags[i].build()
		}
	}
	for i := range w.Segments {
		if _, dup := s.segments[w.Segments[i].lookupKey()]; !dup {
			s.segments[w.Segments[i].lookupKey()] = w.Segments[i].build()
		}
	}
	return s
}

func dumpReason(r ldreason.EvaluationReason) WReason {
	w := WReason{Kind: string(r.GetKind()), RuleIndex: r.GetRuleIndex(), RuleID: r.GetRuleID(),
		PrereqKey: r.GetPrerequisiteKey(), InExp: r.IsInExperiment()}
	if r.GetKind() == ldreason.EvalReasonError {
		s := string(r.GetErrorKind())
		w.ErrorKind = &s
	}
	if st := r.GetBigSegmentsStatus(); st != "" {
		s := string(st)
		w.BSS = &s
	}
	return w
}

func dumpResult(r evaluation.Result) WResult {
	return WResult{Value: fromLD(r.Detail.Value), Index: fromOptInt(r.Detail.VariationIndex),
		Reason: dumpReason(r.Detail.Reason), IsExp: r.IsExperiment}
}

func classifyLog(msg string) string {
	switch {
	case strings.Contains(msg, "prerequisite relationship"):
		return "prereq-cycle"
	case strings.Contains(msg, "caused a circular reference"):
		return "seg-cycle"
	case strings.Contains(msg, "nonexistent variation index"):
		return "variation"
	case strings.Contains(msg, "did not specify an attribute"):
		return "attr-missing"
	case strings.Contains(msg, "invalid attribute reference"):
		return "attr-invalid"
	case strings.Contains(msg, "with no variations"):
		return "rollout"
	}
	return "other"
}

// canonLog reduces a log line to (flag key it names, class of problem).
func canonLog(line string, keys []string) [2]string {
	best := ""
	found := false
	rest := line
	for _, k := range keys {
		prefix := fmt.Sprintf("Invalid flag configuration detected in flag %q: ", k)
		if strings.HasPrefix(line, prefix) && (!found || len(k) > len(best)) {
			best, found, rest = k, true, line[len(prefix):]
		}
	}
	if !found {
		return [2]string{"?", classifyLog(line)}
	}
	return [2]string{best, classifyLog(rest)}
}

// evalSetup is a fully built, reusable evaluation environment (used by eval cases, histories and
// the concurrency check).
type evalSetup struct {
	decoyHits []string
	store     *realStore
	ms        *mutableStore // when set, the evaluator's DataProvider is this indirection
	bs        *realBS
	log       *captureLogger
	ev        evaluation.Evaluator
	reenter   bool // the recorder evaluates the prerequisite it is told about, on the same evaluator
}

func (s *evalSetup) cur() *realStore {
	if s.ms != nil {
		return s.ms.cur
	}
	return s.store
}

func newSetup(opts *WOpts, store *realStore, bs *WBS) *evalSetup {
	return newSetupGeneric(opts, store, nil, bs)
}

// newSetupWithProvider builds an evaluator whose store can be swapped between calls.
func newSetupWithProvider(opts *WOpts, ms *mutableStore, bs *WBS) *evalSetup {
	return newSetupGeneric(opts, nil, ms, bs)
}

func newSetupGeneric(opts *WOpts, store *realStore, ms *mutableStore, bs *WBS) *evalSetup {
	s := &evalSetup{store: store, ms: ms}
	var options []evaluation.EvaluatorOption
	if opts.NilOption {
		options = append(options, nil)
	}
	if bs != nil {
		s.bs = &realBS{w: bs}
		options = append(options, evaluation.EvaluatorOptionBigSegmentProvider(bsShape(opts.shape, s.bs)))
	}
	switch {
	case opts.Log:
		s.log = &captureLogger{}
		options = append(options, evaluation.EvaluatorOptionErrorLogger(loggerShape(opts.shape, s.log)))
	case opts.LogMode == "nilopt":
		options = append(options, evaluation.EvaluatorOptionErrorLogger(nil))
	}
	if opts.Sec || len(options) > 0 {
		options = append(options, evaluation.EvaluatorOptionEnableSecondaryKey(opts.Sec))
	}
	var dp evaluation.DataProvider = store
	if ms != nil {
		dp = ms
	}
	if opts.Shuffle != 0 {
		r := newRng(opts.Shuffle)
		// the options that count, in random order; an absent provider / logger may be stated explicitly
		final := []evaluation.EvaluatorOption{evaluation.EvaluatorOptionEnableSecondaryKey(opts.Sec)}
		bsStated, logStated := true, true
		if s.bs != nil {
			final = append(final, evaluation.EvaluatorOptionBigSegmentProvider(bsShape(opts.shape, s.bs)))
		} else if r.bool() {
			final = append(final, evaluation.EvaluatorOptionBigSegmentProvider(nil))
		} else {
			bsStated = false
		}
		if s.log != nil {
			final = append(final, evaluation.EvaluatorOptionErrorLogger(loggerShape(opts.shape, s.log)))
		} else if r.bool() || opts.LogMode == "nilopt" {
			final = append(final, evaluation.EvaluatorOptionErrorLogger(nil))
		} else {
			logStated = false
		}
		for i := len(final) - 1; i > 0; i-- {
			j := r.intn(i + 1)
			final[i], final[j] = final[j], final[i]
		}
		// overridden duplicates in front
		decoys := []evaluation.EvaluatorOption{}
		if r.bool() {
			decoys = append(decoys, evaluation.EvaluatorOptionEnableSecondaryKey(!opts.Sec))
		}
		if bsStated && r.bool() { // a decoy only where a later option of the same kind overrides it
			decoys = append(decoys, evaluation.EvaluatorOptionBigSegmentProvider(decoyBS{&s.decoyHits}))
		}
		if logStated && r.bool() {
			decoys = append(decoys, evaluation.EvaluatorOptionErrorLogger(decoyLogger{&s.decoyHits}))
		}
		options = append(decoys, final...)
		// nil entries at arbitrary positions
		for i, n := 0, r.intn(3); i < n; i++ {
			p := r.intn(len(options) + 1)
			options = append(options[:p], append([]evaluation.EvaluatorOption{nil}, options[p:]...)...)
		}
	}
	if len(options) == 0 {
		// nothing configured: the plain constructor (all defaults)
		s.ev = evaluation.NewEvaluator(dp)
	} else {
		s.ev = evaluation.NewEvaluatorWithOptions(dp, options...)
	}
	return s
}

// evalOnce runs one Evaluate call and collects the observation. Side-channel logs of the setup
// are reset first.
func (s *evalSetup) evalOnce(flag *ldmodel.FeatureFlag, ctx ldcontext.Context, rec bool, logKeys []string) (obs WObs) {
	s.cur().flagLookups, s.cur().segLookups = nil, nil
	if s.bs != nil {
		s.bs.queries, s.bs.checks = nil, nil
	}
	if s.log != nil {
		s.log.lines = nil
	}
	obs = WObs{Outcome: "done", Events: []WEvent{}, Logs: [][2]string{}, EventsOK: true}
	sinkLogger, sinkBS = s.log, s.bs
	s.decoyHits = nil
	defer func() {
		if len(s.decoyHits) > 0 && obs.Outcome == "done" {
			obs.Outcome, obs.Panic = "panic", "an option that a later option of the same kind overrides was used: "+s.decoyHits[0]
		}
	}()
	var recorder evaluation.PrerequisiteFlagEventRecorder
	if rec {
		recorder = func(e evaluation.PrerequisiteFlagEvent) {
			w := WEvent{Target: e.TargetFlagKey, Result: dumpResult(e.PrerequisiteResult), Excl: e.ExcludeFromSummaries}
			if e.PrerequisiteFlag != nil {
				w.Prereq, w.Version = e.PrerequisiteFlag.Key, e.PrerequisiteFlag.Version
				// the flag the store returned for one of the keys looked up so far (not merely
				// some flag of the store, nor an equal-looking one of an earlier store)
				held := false
				for _, lk := range s.cur().flagLookups {
					if sf, ok := s.cur().flags[lk]; ok && sf == e.PrerequisiteFlag {
						held = true
					}
				}
				if !held {
					obs.EventsOK = false
				}
			} else {
				obs.EventsOK = false
			}
			if !e.Context.Equal(ctx) {
				obs.EventsOK = false
			}
			obs.Events = append(obs.Events, w)
			if s.reenter && e.PrerequisiteFlag != nil {
				// the recorder runs synchronously inside Evaluate: it may itself evaluate — here the
				// prerequisite it was told about, on the SAME evaluator. The outer evaluation must not
				// notice (its side channels are restored below), and the answer must be the event's own
				// result up to the big-segments status (`C09.edge_result_is_standalone`).
				nFL, nSL := len(s.cur().flagLookups), len(s.cur().segLookups)
				nQ, nC, nL := 0, 0, 0
				if s.bs != nil {
					nQ, nC = len(s.bs.queries), len(s.bs.checks)
				}
				if s.log != nil {
					nL = len(s.log.lines)
				}
				inner := dumpResult(s.ev.Evaluate(e.PrerequisiteFlag, ctx, nil))
				s.cur().flagLookups, s.cur().segLookups = s.cur().flagLookups[:nFL], s.cur().segLookups[:nSL]
				if s.bs != nil {
					s.bs.queries, s.bs.checks = s.bs.queries[:nQ], s.bs.checks[:nC]
				}
				if s.log != nil {
					s.log.lines = s.log.lines[:nL]
				}
				a, b := inner, w.Result
				a.Reason.BSS, b.Reason.BSS = nil, nil
				if canon(a) != canon(b) {
					obs.EventsOK = false
				}
			}
		}
	}
	defer func() {
		if r := recover(); r != nil {
			obs.Outcome = "panic"
			obs.Panic = fmt.Sprint(r)
		}
		obs.FlagLookups = nonNilStrs(s.cur().flagLookups)
		obs.SegLookups = nonNilStrs(s.cur().segLookups)
		obs.BSQueries, obs.MemChecks = []string{}, [][2]string{}
		if s.bs != nil {
			obs.BSQueries = nonNilStrs(s.bs.queries)
			if s.bs.checks != nil {
				obs.MemChecks = s.bs.checks
			}
		}
		if s.log != nil {
			for _, l := range s.log.lines {
				obs.Logs = append(obs.Logs, canonLog(l, logKeys))
				obs.RawLogs = append(obs.RawLogs, l)
			}
		}
	}()
	var res evaluation.Result
	written := captureStd(func() { res = s.ev.Evaluate(flag, ctx, recorder) })
	obs.Result = dumpResult(res)
	if written != "" {
		obs.Outcome, obs.Panic = "panic", "the evaluation wrote to the standard streams or the standard logger: "+written
	}
	return obs
}

func logKeysFor(c *EvalCase) []string {
	keys := []string{c.Flag.Key}
	for _, f := range c.Store.Flags {
		keys = append(keys, f.Key)
	}
	return keys
}

// runEval builds the real values of a case, fills the derived wire fields (reference fields,
// preprocessed tables, regex oracle) from them, and runs the real evaluator.
func runEval(c *EvalCase) {
	store := buildStore(&c.Store)
	flag := c.Flag.build()
	// when the store holds this very configuration under the flag's key, evaluate the store's own
	// object half of the time (the flag handed to Evaluate and the flag a lookup returns are then
	// one pointer: a self-reference test or a memo by identity sees the difference)
	if sf, ok := store.flags[c.Flag.Key]; ok && hashStr("same/"+c.ID)&1 == 0 {
		for i := range c.Store.Flags {
			if c.Store.Flags[i].lookupKey() == c.Flag.Key {
				if canon(c.Store.Flags[i]) == canon(c.Flag) {
					flag = sf
				}
				break
			}
		}
	}
	ctx := c.Ctx.build()
	// the model must see exactly what Go holds
	form := c.Flag.Form
	c.Flag = dumpFlag(flag, form)
	seenF, seenS := map[string]bool{}, map[string]bool{}
	for i := range c.Store.Flags {
		k, lk := c.Store.Flags[i].lookupKey(), c.Store.Flags[i].LK
		if !seenF[k] {
			seenF[k] = true
			c.Store.Flags[i] = dumpFlag(store.flags[k], c.Store.Flags[i].Form)
			c.Store.Flags[i].LK = lk
		}
	}
	for i := range c.Store.Segments {
		k, lk := c.Store.Segments[i].lookupKey(), c.Store.Segments[i].LK
		if !seenS[k] {
			seenS[k] = true
			c.Store.Segments[i] = dumpSegment(store.segments[k], c.Store.Segments[i].Form)
			c.Store.Segments[i].LK = lk
		}
	}
	c.Ctx = dumpCtx(ctx, c.Ctx.Inv)
	c.Rx = regexOracle(c)
	c.Opts.shape = hashStr("shape/" + c.ID)
	setup := newSetup(&c.Opts, store, c.BS)
	setup.reenter = hashStr("reenter/"+c.ID)%8 == 0
	obs := setup.evalOnce(flag, ctx, c.Opts.Rec, logKeysFor(c))
	c.Go = &obs
}

// ---------- regex oracle ----------

func jvStrings(v JV, out *[]string) {
	switch v.K {
	case 's':
		*out = append(*out, v.S)
	case 'a', 'r':
		for _, x := range v.A {
			jvStrings(x, out)
		}
	case 'o':
		for _, kv := range v.O {
			jvStrings(kv.V, out)
		}
	}
}

func ctxStrings(c *WCtx) []string {
	out := []string{""}
	add := func(s *WSCtx) {
		out = append(out, s.Kind, s.Key)
		if s.Name != nil {
			out = append(out, *s.Name)
		}
		for _, a := range s.Attrs {
			jvStrings(a.V, &out)
		}
	}
	switch c.T {
	case "single":
		add(c.C)
	case "multi":
		out = append(out, "multi")
		for i := range c.Cs {
			add(&c.Cs[i])
		}
	}
	return out
}

func clausePatterns(cs []WClause, out map[string]bool) {
	for _, c := range cs {
		if c.Op == "matches" {
			for _, v := range c.Vals {
				if v.K == 'r' && len(v.A) == 1 {
					v = v.A[0] // an unparsed operand: the oracle answers for its text all the same
				}
				if v.K == 's' {
					out[v.S] = true
				}
			}
		}
	}
}

// regexOracle asks Go's regexp package directly (not through /repo) about every pattern of a
// `matches` clause against every string reachable in the context.
func regexOracleFor(flags []*WFlag, segs []*WSegment, ctx *WCtx) [][3]any {
	pats := map[string]bool{}
	for _, f := range flags {
		for _, r := range f.Rules {
			clausePatterns(r.Clauses, pats)
		}
	}
	for _, s := range segs {
		for _, r := range s.Rules {
			clausePatterns(r.Clauses, pats)
		}
	}
	if len(pats) == 0 {
		return [][3]any{}
	}
	subjects := ctxStrings(ctx)
	sort.Strings(subjects)
	plist := []string{}
	for p := range pats {
		plist = append(plist, p)
	}
	sort.Strings(plist)
	out := [][3]any{}
	for _, p := range plist {
		re, err := regexp.Compile(p)
		last := "\x00"
		for _, s := range subjects {
			if s == last {
				continue
			}
			last = s
			if err != nil {
				out = append(out, [3]any{p, s, nil})
			} else {
				out = append(out, [3]any{p, s, re.MatchString(s)})
			}
		}
	}
	return out
}

func regexOracle(c *EvalCase) [][3]any {
	flags := []*WFlag{&c.Flag}
	for i := range c.Store.Flags {
		flags = append(flags, &c.Store.Flags[i])
	}
	segs := []*WSegment{}
	for i := range c.Store.Segments {
		segs = append(segs, &c.Store.Segments[i])
	}
	return regexOracleFor(flags, segs, &c.Ctx)
}

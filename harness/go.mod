module verifharness

go 1.18

require (
	github.com/launchdarkly/go-jsonstream/v3 v3.1.0
	github.com/launchdarkly/go-sdk-common/v3 v3.1.0
	github.com/launchdarkly/go-semver v1.0.3
	github.com/launchdarkly/go-server-sdk-evaluation/v3 v3.0.0
	github.com/mailru/easyjson v0.7.7
)

require (
	github.com/josharian/intern v1.0.0 // indirect
	golang.org/x/exp v0.0.0-20220823124025-807a23277127 // indirect
)

replace github.com/launchdarkly/go-server-sdk-evaluation/v3 => /repo

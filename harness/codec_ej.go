//go:build launchdarkly_easyjson

package main

import (
	"github.com/launchdarkly/go-server-sdk-evaluation/v3/ldmodel"
	"github.com/mailru/easyjson/jlexer"
	ejwriter "github.com/mailru/easyjson/jwriter"
)

// With the easyjson build tag: the easyjson hooks must produce the same JSON and decode to the
// same value as the other paths.
func ejEncodeAgrees(f *ldmodel.FeatureFlag, s *ldmodel.Segment, reference []byte) string {
	w := ejwriter.Writer{}
	if f != nil {
		f.MarshalEasyJSON(&w)
	} else {
		s.MarshalEasyJSON(&w)
	}
	out, err := w.BuildBytes()
	if err != nil {
		return "easyjson encode error: " + err.Error()
	}
	if !sameJSONBytes(out, reference) {
		return "easyjson encode path disagrees with the serialization object"
	}
	return ""
}

func ejDecodeAgrees(data []byte, isFlag bool, referenceDump string) string {
	l := jlexer.Lexer{Data: data}
	if isFlag {
		var f ldmodel.FeatureFlag
		f.UnmarshalEasyJSON(&l)
		if l.Error() != nil {
			return "easyjson decode path rejects the encoder's output: " + l.Error().Error()
		}
		if flagDumpJSON(&f) != referenceDump {
			return "easyjson decode path yields a different flag"
		}
		used := usedFlagDestination()
		l2 := jlexer.Lexer{Data: data}
		used.UnmarshalEasyJSON(&l2)
		if l2.Error() == nil && flagDumpJSON(&used) != referenceDump {
			return "easyjson decode into a previously used destination yields a different flag"
		}
		return ""
	}
	var s ldmodel.Segment
	s.UnmarshalEasyJSON(&l)
	if l.Error() != nil {
		return "easyjson decode path rejects the encoder's output: " + l.Error().Error()
	}
	if segDumpJSON(&s) != referenceDump {
		return "easyjson decode path yields a different segment"
	}
	usedS := usedSegmentDestination()
	l2 := jlexer.Lexer{Data: data}
	usedS.UnmarshalEasyJSON(&l2)
	if l2.Error() == nil && segDumpJSON(&usedS) != referenceDump {
		return "easyjson decode into a previously used destination yields a different segment"
	}
	return ""
}

func ejOnly() bool { return true }

//go:build !launchdarkly_easyjson

package main

import "github.com/launchdarkly/go-server-sdk-evaluation/v3/ldmodel"

// Without the easyjson build tag the easyjson hooks do not exist; these checks are no-ops.
func ejEncodeAgrees(f *ldmodel.FeatureFlag, s *ldmodel.Segment, reference []byte) string { return "" }
func ejDecodeAgrees(data []byte, isFlag bool, referenceDump string) string               { return "" }
func ejOnly() bool                                                                       { return false }

package main

// The logger and the big-segment provider handed to the library come in several Go shapes. The
// interfaces only ask for methods; a user's logger may be a pointer, a struct value, a field-less
// struct (whose value is its type's zero value), a named integer or function type. All of them
// forward to the setup's capture objects through a package-level sink (workers evaluate one case
// at a time), so what the evaluation logs or asks is observed whatever the shape.

import (
	"github.com/launchdarkly/go-sdk-common/v3/ldlog"
	"github.com/launchdarkly/go-sdk-common/v3/ldreason"
	evaluation "github.com/launchdarkly/go-server-sdk-evaluation/v3"
)

var (
	sinkLogger *captureLogger
	sinkBS     *realBS
)

type emptyStructLogger struct{}

func (emptyStructLogger) Println(v ...interface{})          { sinkLogger.Println(v...) }
func (emptyStructLogger) Printf(f string, v ...interface{}) { sinkLogger.Printf(f, v...) }

type intLogger int

func (intLogger) Println(v ...interface{})          { sinkLogger.Println(v...) }
func (intLogger) Printf(f string, v ...interface{}) { sinkLogger.Printf(f, v...) }

type funcLogger func()

func (funcLogger) Println(v ...interface{})          { sinkLogger.Println(v...) }
func (funcLogger) Printf(f string, v ...interface{}) { sinkLogger.Printf(f, v...) }

type valueLogger struct{ to *captureLogger }

func (l valueLogger) Println(v ...interface{})          { l.to.Println(v...) }
func (l valueLogger) Printf(f string, v ...interface{}) { l.to.Printf(f, v...) }

// loggerShape wraps the capture logger; shape 0 is the capture logger itself.
func loggerShape(shape uint64, to *captureLogger) ldlog.BaseLogger {
	switch shape % 5 {
	case 1:
		return emptyStructLogger{}
	case 2:
		return intLogger(0)
	case 3:
		return funcLogger(nil)
	case 4:
		return valueLogger{to}
	}
	return to
}

type emptyStructBS struct{}

func (emptyStructBS) GetMembership(key string) (evaluation.BigSegmentMembership, ldreason.BigSegmentsStatus) {
	return sinkBS.GetMembership(key)
}

type valueBS struct{ to *realBS }

func (p valueBS) GetMembership(key string) (evaluation.BigSegmentMembership, ldreason.BigSegmentsStatus) {
	return p.to.GetMembership(key)
}

func bsShape(shape uint64, to *realBS) evaluation.BigSegmentProvider {
	switch (shape / 5) % 3 {
	case 1:
		return emptyStructBS{}
	case 2:
		return valueBS{to}
	}
	return to
}

package main

// Checks that are not a plain per-case projection comparison (unit streams, relations, histories,
// concurrency, codec) register here.

var specialChecks = map[string]func(seed uint64, replayDir, corpusDir string) (map[string]any, int){}

var specialReplays = map[string]func(data []byte, file string) int{}

package main

// The correspondence pipeline: run cases on the real code in isolated worker processes, pipe the
// same cases to the Lean driver, compare the two behaviours under a property's projection.

import (
	"bufio"
	"bytes"
	"encoding/json"
	"fmt"
	"io"
	"os"
	"os/exec"
	"runtime"
	"runtime/debug"
	"strings"
	"sync"
	"time"
)

var driverPath = envOr("VERIF_DRIVER", "/verif/lean/.lake/build/bin/ldeval-driver")

func envOr(k, d string) string {
	if v := os.Getenv(k); v != "" {
		return v
	}
	return d
}

func nWorkers() int {
	n := runtime.NumCPU()
	if n > 16 {
		n = 16
	}
	if n < 1 {
		n = 1
	}
	return n
}

// ---------- generic line-oriented case ----------

// Case is any line of the protocol: it has an id and a kind; eval cases carry more.
type Case interface {
	caseID() string
	run() // execute against the real code, filling the Go-side observation
}

func (c *EvalCase) caseID() string { return c.ID }
func (c *EvalCase) run()           { runEval(c) }

// ---------- worker (child process) ----------

// workerMain reads case lines from stdin, runs each against the real code, writes it back.
// A per-case watchdog exits the process if a case hangs; a fatal error (stack overflow, out of
// memory) kills the process: the parent then knows which case was in flight.
func workerMain() {
	debug.SetMaxStack(64 << 20)
	in := bufio.NewReaderSize(os.Stdin, 1<<20)
	out := bufio.NewWriterSize(os.Stdout, 1<<20)
	timeout := 20 * time.Second
	for {
		line, err := in.ReadBytes('\n')
		if len(bytes.TrimSpace(line)) > 0 {
			c, perr := parseCase(line)
			if perr != nil {
				fmt.Fprintf(out, "{\"harnessError\":%q}\n", perr.Error())
			} else {
				done := make(chan struct{})
				go func() {
					select {
					case <-done:
					case <-time.After(timeout):
						fmt.Fprintf(realStderr, "WATCHDOG timeout on case %s\n", c.caseID())
						os.Exit(3)
					}
				}()
				c.run()
				close(done)
				b, merr := json.Marshal(c)
				if merr != nil {
					fmt.Fprintf(out, "{\"id\":%q,\"harnessError\":%q}\n", c.caseID(), merr.Error())
				} else {
					out.Write(b)
					out.WriteByte('\n')
				}
			}
			out.Flush()
		}
		if err != nil {
			return
		}
	}
}

func parseCase(line []byte) (Case, error) {
	var head struct {
		Kind string `json:"kind"`
	}
	if err := json.Unmarshal(line, &head); err != nil {
		return nil, err
	}
	switch head.Kind {
	case "eval":
		c := &EvalCase{}
		return c, json.Unmarshal(line, c)
	default:
		c := &UnitCase{}
		return c, json.Unmarshal(line, c)
	}
}

// runIsolated runs the cases in worker subprocesses and returns the completed lines by index.
// A case that kills or hangs its worker gets outcome "crash"/"timeout".
type isoResult struct {
	line    []byte
	failure string // "" | "crash" | "timeout"
	stderr  string
}

func runIsolated(lines [][]byte) []isoResult {
	results := make([]isoResult, len(lines))
	n := nWorkers()
	if len(lines) < n*4 {
		n = 1 + len(lines)/8
	}
	var wg sync.WaitGroup
	chunk := (len(lines) + n - 1) / n
	for w := 0; w < n; w++ {
		lo, hi := w*chunk, (w+1)*chunk
		if hi > len(lines) {
			hi = len(lines)
		}
		if lo >= hi {
			continue
		}
		wg.Add(1)
		go func(lo, hi int) {
			defer wg.Done()
			pos := lo
			for pos < hi {
				pos = runWorkerOnce(lines, results, pos, hi)
			}
		}(lo, hi)
	}
	wg.Wait()
	// A worker that died or hung may have been the victim of the machine rather than of the case
	// (memory pressure, a stalled scheduler when many checks run at once): every such case is run
	// again, alone, in a fresh worker, and only a second failure is believed.
	reruns := 0
	for i := range results {
		if results[i].failure == "" {
			continue
		}
		// (a change that makes hundreds of cases crash is established by the first few; each
		// re-run of a runaway recursion costs seconds)
		if reruns++; reruns > 12 {
			continue
		}
		again := make([]isoResult, 1)
		runWorkerOnce([][]byte{lines[i]}, again, 0, 1)
		if again[0].failure == "" && again[0].line != nil {
			// ...unless the first failure was a Go panic or fatal error with the library on the
			// stack: that is the library's doing even if it does not recur (map order, timing)
			if libraryCrash(results[i].stderr) {
				results[i].stderr = "(did not recur when the case was re-run alone) " + results[i].stderr
				continue
			}
			transientWorkerFailures++
			results[i] = again[0]
		}
	}
	return results
}

func libraryCrash(stderr string) bool {
	if !strings.Contains(stderr, "panic:") && !strings.Contains(stderr, "fatal error:") {
		return false
	}
	if strings.Contains(stderr, "out of memory") || strings.Contains(stderr, "cannot allocate memory") {
		return false
	}
	return strings.Contains(stderr, "go-server-sdk-evaluation") || strings.Contains(stderr, "stack overflow")
}

// transientWorkerFailures: cases whose worker failed once and completed when re-run alone.
var transientWorkerFailures int

// runWorkerOnce feeds lines[pos:hi] to one worker; returns the next position to process (after a
// crash, the position after the crashing case).
func runWorkerOnce(lines [][]byte, results []isoResult, pos, hi int) int {
	cmd := exec.Command(os.Args[0], "worker")
	cmd.Env = append(os.Environ(), "GOMEMLIMIT=2GiB")
	stdin, _ := cmd.StdinPipe()
	stdout, _ := cmd.StdoutPipe()
	var stderr bytes.Buffer
	cmd.Stderr = &stderr
	if err := cmd.Start(); err != nil {
		fatalf("cannot start worker: %v", err)
	}
	go func() {
		w := bufio.NewWriterSize(stdin, 1<<20)
		for i := pos; i < hi; i++ {
			w.Write(lines[i])
			w.WriteByte('\n')
			if (i-pos)%64 == 63 {
				w.Flush()
			}
		}
		w.Flush()
		stdin.Close()
	}()
	rd := bufio.NewReaderSize(stdout, 1<<20)
	cur := pos
	for cur < hi {
		line, err := rd.ReadBytes('\n')
		if len(bytes.TrimSpace(line)) > 0 {
			results[cur].line = bytes.TrimSpace(line)
			cur++
		}
		if err != nil {
			break
		}
	}
	io.Copy(io.Discard, rd)
	err := cmd.Wait()
	if cur < hi {
		// the worker died while processing lines[cur]
		f := "crash"
		if ee, ok := err.(*exec.ExitError); ok && ee.ExitCode() == 3 {
			f = "timeout"
		}
		msg := stderr.String()
		if len(msg) > 3000 {
			msg = msg[:3000]
		}
		results[cur].failure = f
		results[cur].stderr = msg
		results[cur].line = lines[cur]
		cur++
	}
	return cur
}

// ---------- Lean driver ----------

// runDriver pipes the lines to parallel instances of the compiled Lean driver.
func runDriver(lines [][]byte) []map[string]any {
	out := make([]map[string]any, len(lines))
	if _, err := os.Stat(driverPath); err != nil {
		fatalf("Lean driver not built: %s", driverPath)
	}
	n := nWorkers()
	if len(lines) < n*4 {
		n = 1 + len(lines)/8
	}
	chunk := (len(lines) + n - 1) / n
	var wg sync.WaitGroup
	for w := 0; w < n; w++ {
		lo, hi := w*chunk, (w+1)*chunk
		if hi > len(lines) {
			hi = len(lines)
		}
		if lo >= hi {
			continue
		}
		wg.Add(1)
		go func(lo, hi int) {
			defer wg.Done()
			cmd := exec.Command(driverPath)
			stdin, _ := cmd.StdinPipe()
			stdout, _ := cmd.StdoutPipe()
			var stderr bytes.Buffer
			cmd.Stderr = &stderr
			if err := cmd.Start(); err != nil {
				fatalf("cannot start driver: %v", err)
			}
			go func() {
				w := bufio.NewWriterSize(stdin, 1<<20)
				for i := lo; i < hi; i++ {
					w.Write(lines[i])
					w.WriteByte('\n')
				}
				w.Flush()
				stdin.Close()
			}()
			rd := bufio.NewReaderSize(stdout, 1<<20)
			for i := lo; i < hi; i++ {
				line, err := rd.ReadBytes('\n')
				if len(bytes.TrimSpace(line)) == 0 {
					out[i] = map[string]any{"harnessError": fmt.Sprintf("driver produced no answer (%v) stderr=%s", err, stderr.String())}
					continue
				}
				var m map[string]any
				dec := json.NewDecoder(bytes.NewReader(line))
				dec.UseNumber() // integers beyond 2^53 (versions, generations, seeds) stay exact
				if jerr := dec.Decode(&m); jerr != nil {
					m = map[string]any{"harnessError": "driver answer unparsable: " + jerr.Error()}
				}
				out[i] = m
			}
			io.Copy(io.Discard, rd)
			cmd.Wait()
		}(lo, hi)
	}
	wg.Wait()
	return out
}

func fatalf(format string, a ...any) {
	fmt.Fprintf(os.Stderr, "HARNESS-ERROR: "+format+"\n", a...)
	os.Exit(2)
}

// ---------- executing a batch of eval cases on both sides ----------

type evalOutcome struct {
	c     *EvalCase
	model *WObs
	pred  map[string]any
	hErr  string // harness error (not a violation)
}

func runEvalBatch(cases []*EvalCase) []evalOutcome {
	lines := make([][]byte, len(cases))
	for i, c := range cases {
		b, err := json.Marshal(c)
		if err != nil {
			fatalf("marshal case: %v", err)
		}
		lines[i] = b
	}
	iso := runIsolated(lines)
	outs := make([]evalOutcome, len(cases))
	dlines := make([][]byte, len(cases))
	for i := range iso {
		done := &EvalCase{}
		if iso[i].failure != "" {
			// Go crashed or hung on this case: complete the derived fields in-process is not
			// possible safely; keep the generated case and mark the outcome.
			*done = *cases[i]
			fillDerivedNoRun(done)
			done.Go = &WObs{Outcome: iso[i].failure, Panic: iso[i].stderr}
		} else if err := json.Unmarshal(iso[i].line, done); err != nil || done.Go == nil {
			outs[i].hErr = fmt.Sprintf("worker output unparsable: %v: %.300s", err, iso[i].line)
			*done = *cases[i]
		}
		outs[i].c = done
		b, _ := json.Marshal(done)
		dlines[i] = b
	}
	ans := runDriver(dlines)
	for i, a := range ans {
		if e, ok := a["harnessError"]; ok {
			outs[i].hErr = fmt.Sprint(e)
			continue
		}
		ob, _ := json.Marshal(a["out"])
		m := &WObs{}
		if err := json.Unmarshal(ob, m); err != nil {
			outs[i].hErr = "model output unparsable: " + err.Error()
			continue
		}
		outs[i].model = m
		if p, ok := a["pred"].(map[string]any); ok {
			outs[i].pred = p
		}
	}
	return outs
}

// fillDerivedNoRun fills reference fields/tables/oracle without evaluating (used when the real
// evaluation crashed the worker; building values does not run the evaluator).
func fillDerivedNoRun(c *EvalCase) {
	defer func() { recover() }()
	store := buildStore(&c.Store)
	flag := c.Flag.build()
	ctx := c.Ctx.build()
	c.Flag = dumpFlag(flag, c.Flag.Form)
	seenF, seenS := map[string]bool{}, map[string]bool{}
	for i := range c.Store.Flags {
		k, lk := c.Store.Flags[i].lookupKey(), c.Store.Flags[i].LK
		if !seenF[k] {
			seenF[k] = true
			c.Store.Flags[i] = dumpFlag(store.flags[k], c.Store.Flags[i].Form)
			c.Store.Flags[i].LK = lk
		}
	}
	for i := range c.Store.Segments {
		k, lk := c.Store.Segments[i].lookupKey(), c.Store.Segments[i].LK
		if !seenS[k] {
			seenS[k] = true
			c.Store.Segments[i] = dumpSegment(store.segments[k], c.Store.Segments[i].Form)
			c.Store.Segments[i].LK = lk
		}
	}
	c.Ctx = dumpCtx(ctx, c.Ctx.Inv)
	c.Rx = regexOracle(c)
}

// arch32: the numeric and string timestamp conversion of the library, run in a 32-bit build
// (GOARCH=386: `int` has 32 bits). It reads one JSON value per line and prints the instant the
// library makes of it. The harness compares the answers with those of its own 64-bit build: the
// properties do not depend on the platform's word size, and nothing else in the machinery would
// notice a conversion that goes through `int`.
package main

import (
	"bufio"
	"fmt"
	"os"

	"github.com/launchdarkly/go-sdk-common/v3/ldvalue"
	"github.com/launchdarkly/go-server-sdk-evaluation/v3/ldmodel"
)

func main() {
	in := bufio.NewScanner(os.Stdin)
	in.Buffer(make([]byte, 1<<20), 1<<24)
	out := bufio.NewWriter(os.Stdout)
	defer out.Flush()
	for in.Scan() {
		v := ldvalue.Parse(in.Bytes())
		t, ok := ldmodel.TypeConversions.ValueToTimestamp(v)
		if !ok {
			fmt.Fprintln(out, "none")
			continue
		}
		fmt.Fprintf(out, "%d %d\n", t.Unix(), t.Nanosecond())
	}
}

package main

// Word-size independence of the timestamp conversions (C18): the same operands through the
// library in this (64-bit) process and in a 32-bit build of a small helper (arch32/main.go).

import (
	"bufio"
	"bytes"
	"fmt"
	"os"
	"os/exec"
	"strings"

	"github.com/launchdarkly/go-server-sdk-evaluation/v3/ldmodel"
)

// arch32Check returns (cases compared, disagreements as violation details, note when skipped).
func arch32Check(seed uint64, n int) (int, []map[string]any, string) {
	bin := os.Getenv("VERIF_ARCH32")
	if bin == "" {
		return 0, nil, "no 32-bit helper was built"
	}
	base := newRng(seed ^ hashStr("C18/arch32"))
	var lines [][]byte
	var vals []JV
	for i := 0; i < n; i++ {
		g := &gen{r: base.fork(), p: profiles["wellformed"]}
		u := g.timeUnit(fmt.Sprintf("C18/arch32/%d", i))
		if u.V == nil || (u.V.K != 's' && u.V.K != 'n') {
			continue
		}
		if u.V.K == 'n' && (u.V.N < -62167219200000 || u.V.N > 253402300799999) {
			continue // outside years 0000-9999: float -> int64 is implementation-defined out of range
		}
		vals = append(vals, *u.V)
		lines = append(lines, []byte(u.V.toLD().JSONString()))
	}
	for _, ms := range dateNums {
		if ms < -62167219200000 || ms > 253402300799999 {
			continue
		}
		v := jNum(ms)
		vals = append(vals, v)
		lines = append(lines, []byte(v.toLD().JSONString()))
	}
	cmd := exec.Command(bin)
	cmd.Stdin = bytes.NewReader(append(bytes.Join(lines, []byte("\n")), '\n'))
	var stdout, stderr bytes.Buffer
	cmd.Stdout, cmd.Stderr = &stdout, &stderr
	if err := cmd.Run(); err != nil {
		return 0, nil, "the 32-bit helper does not run here: " + err.Error() + " " + strings.TrimSpace(stderr.String())
	}
	sc := bufio.NewScanner(&stdout)
	var dis []map[string]any
	i := 0
	for sc.Scan() && i < len(vals) {
		want := "none"
		if t, ok := ldmodel.TypeConversions.ValueToTimestamp(vals[i].toLD()); ok {
			want = fmt.Sprintf("%d %d", t.Unix(), t.Nanosecond())
		}
		if got := strings.TrimSpace(sc.Text()); got != want && len(dis) < 5 {
			dis = append(dis, map[string]any{"kind": "predicate", "stream": "arch32", "property": "C18",
				"message": "the timestamp conversion depends on the platform's word size",
				"operand": string(lines[i]), "instant_64bit_build": want, "instant_32bit_build": got})
		}
		i++
	}
	if i != len(vals) {
		return i, dis, fmt.Sprintf("the 32-bit helper answered %d of %d operands", i, len(vals))
	}
	return i, dis, ""
}

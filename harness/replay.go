package main

// Replay of relation / history / codec violations recorded by the special checks.

import (
	"encoding/json"
	"fmt"

	"github.com/launchdarkly/go-server-sdk-evaluation/v3/ldmodel"
)

func init() {
	for _, p := range []string{"C12", "C13", "C14", "C15", "C16", "C17", "C20"} {
		pid := p
		specialReplays[pid] = func(data []byte, file string) int { return genericReplay(pid, data, file) }
	}
}

func genericReplay(pid string, data []byte, file string) int {
	var d map[string]json.RawMessage
	if err := json.Unmarshal(data, &d); err != nil {
		fatalf("replay file unreadable: %v", err)
	}
	str := func(k string) string {
		var s string
		_ = json.Unmarshal(d[k], &s)
		return s
	}
	report := func(bad bool, msg string) int {
		if bad {
			fmt.Printf("VIOLATION property=%s replay=%s\n  %s\n", pid, file, msg)
			return 1
		}
		fmt.Printf("replay of %s: the recorded violation does not occur on the current tree\n", file)
		return 0
	}
	switch {
	case d["history"] != nil:
		var hist []*EvalCase
		if err := json.Unmarshal(d["history"], &hist); err != nil || len(hist) == 0 {
			fatalf("bad history: %v", err)
		}
		opts := hist[0].Opts
		ms := &mutableStore{cur: &realStore{flags: map[string]*ldmodel.FeatureFlag{}, segments: map[string]*ldmodel.Segment{}}}
		prov := &WBS{Dflt: WBSAnswer{St: "HEALTHY"}}
		var bsp *WBS
		if hist[0].BS != nil {
			bsp = prov
		}
		shared := newSetupWithProvider(&opts, ms, bsp)
		for i, c := range hist {
			if c.BS != nil {
				*prov = *c.BS
			}
			store := buildStore(&c.Store)
			flag := c.Flag.build()
			ctx := c.Ctx.build()
			ms.cur = store
			before := snapshot(store, flag, ctx)
			o1 := shared.evalOnce(flag, ctx, true, logKeysFor(c))
			after := snapshot(store, flag, ctx)
			o2 := newSetup(&opts, store, c.BS).evalOnce(flag, ctx, true, logKeysFor(c))
			if before != after {
				return report(true, fmt.Sprintf("step %d: evaluation modified its inputs", i))
			}
			if canon(full(&o1)) != canon(full(&o2)) {
				return report(true, fmt.Sprintf("step %d: evaluator with history differs from a fresh one\n  history=%s\n  fresh=%s", i, canon(full(&o1)), canon(full(&o2))))
			}
		}
		return report(false, "")
	case d["case"] != nil && d["other"] != nil:
		var a, b *EvalCase
		_ = json.Unmarshal(d["case"], &a)
		_ = json.Unmarshal(d["other"], &b)
		a.Go, b.Go = nil, nil
		outs := runEvalBatch([]*EvalCase{a, b})
		if outs[0].hErr != "" || outs[1].hErr != "" {
			fatalf("%s %s", outs[0].hErr, outs[1].hErr)
		}
		stream := str("stream")
		for _, p := range perturbations {
			if p.name == stream {
				msg := p.compare(outs[0].c.Go, outs[1].c.Go, outs[0].c, outs[1].c)
				return report(msg != "", "perturbation '"+stream+"': "+msg)
			}
		}
		return report(canon(full(outs[0].c.Go)) != canon(full(outs[1].c.Go)), "the two forms/variants evaluate differently")
	case d["a"] != nil && d["b"] != nil:
		kind := "flag"
		var a, b JV
		ta, _ := parseTree([]byte(str("a")))
		if ta.get("included") != nil || ta.get("includedContexts") != nil || ta.get("unbounded") != nil {
			kind = "segment"
		}
		a, _ = parseOrdered([]byte(str("a")))
		b, _ = parseOrdered([]byte(str("b")))
		da, oka := decodeDump(kind, a)
		db, okb := decodeDump(kind, b)
		return report(oka != okb || da != db, "decodings of the two equivalent documents differ")
	case d["doc"] != nil:
		doc, err := parseOrdered([]byte(str("doc")))
		if err != nil {
			fatalf("bad doc: %v", err)
		}
		t := newRelTotals(pid)
		if doc.get("included") != nil || doc.get("includedContexts") != nil {
			t.roundTripSegment("replay", doc)
		} else {
			t.roundTripFlag("replay", doc, nil)
		}
		return report(len(t.dis) > 0, "round trip of the recorded document is not a fixed point after one step")
	}
	fmt.Printf("replay of %s: this violation is replayed by re-running the check with the recorded seed: VERIF_SEED=%s ./check %s\n", file, string(d["seed"]), pid)
	return 0
}

// parseOrdered parses JSON text into a JV preserving member order and duplicates.
func parseOrdered(data []byte) (JV, error) {
	dec := json.NewDecoder(bytesReader(data))
	dec.UseNumber()
	v, err := parseOrderedValue(dec)
	return v, err
}

func parseOrderedValue(dec *json.Decoder) (JV, error) {
	tok, err := dec.Token()
	if err != nil {
		return JV{}, err
	}
	switch t := tok.(type) {
	case json.Delim:
		if t == '{' {
			out := JV{K: 'o'}
			for dec.More() {
				kt, err := dec.Token()
				if err != nil {
					return JV{}, err
				}
				v, err := parseOrderedValue(dec)
				if err != nil {
					return JV{}, err
				}
				out.O = append(out.O, KV{kt.(string), v})
			}
			_, err := dec.Token()
			return out, err
		}
		out := JV{K: 'a', A: []JV{}}
		for dec.More() {
			v, err := parseOrderedValue(dec)
			if err != nil {
				return JV{}, err
			}
			out.A = append(out.A, v)
		}
		_, err := dec.Token()
		return out, err
	case bool:
		return jBool(t), nil
	case json.Number:
		f, _ := t.Float64()
		return jNum(f), nil
	case string:
		return jStr(t), nil
	}
	return jNull(), nil
}

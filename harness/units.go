package main

// Unit cases: single functions with exact outputs (bucket value bits, LocalBuffer contents, hex
// parser, timestamp conversion, semantic versions, clause matcher, Preprocess* dumps).

import (
	"encoding/hex"
	"fmt"
	"math"
	"math/big"
	"regexp"
	"strconv"
	"time"

	"github.com/launchdarkly/go-sdk-common/v3/ldcontext"
	"github.com/launchdarkly/go-semver"
	"github.com/launchdarkly/go-server-sdk-evaluation/v3/ldmodel"
)

type BufOp struct {
	K string `json:"k"`
	B int    `json:"b,omitempty"`
	S string `json:"s,omitempty"`
	I int    `json:"i,omitempty"`
}

type UnitCase struct {
	ID   string `json:"id"`
	Kind string `json:"kind"`
	// bucket
	Sec   bool   `json:"sec,omitempty"`
	Ctx   *WCtx  `json:"ctx,omitempty"`
	IsExp bool   `json:"isExp,omitempty"`
	Seed  *int   `json:"seed,omitempty"`
	CK    string `json:"ck,omitempty"`
	Key   string `json:"key,omitempty"`
	Attr  *WRef  `json:"attr,omitempty"`
	Salt  string `json:"salt,omitempty"`
	// buffer
	Cap int     `json:"cap,omitempty"`
	Ops []BufOp `json:"ops,omitempty"`
	// hex
	Hex string `json:"hex,omitempty"`
	// time
	V *JV `json:"v,omitempty"`
	// semver
	A string `json:"a,omitempty"`
	B string `json:"b,omitempty"`
	// keyaccessor
	Which string   `json:"which,omitempty"`
	Mode  string   `json:"mode,omitempty"`
	Vals  []string `json:"vals"`
	PM    []string `json:"pm"`
	Probe string   `json:"probe"`
	// clause / accessor
	Idx    int      `json:"idx,omitempty"`
	Nil    bool     `json:"nil,omitempty"`
	Clause *WClause `json:"clause,omitempty"`
	Rx     [][3]any `json:"rx,omitempty"`
	// preprocess
	Flag    *WFlag    `json:"flag,omitempty"`
	Segment *WSegment `json:"segment,omitempty"`
	// codec
	Doc    *JV `json:"doc,omitempty"`
	GoTree *JV `json:"goTree,omitempty"`

	Go map[string]any `json:"go,omitempty"`
}

func (c *UnitCase) caseID() string { return c.ID }

func timeNS(t time.Time) string {
	ns := new(big.Int).Mul(big.NewInt(t.Unix()), big.NewInt(1000000000))
	ns.Add(ns, big.NewInt(int64(t.Nanosecond())))
	return ns.String()
}

func semverDump(v semver.Version, ok bool) any {
	if !ok {
		return nil
	}
	return []any{v.GetMajor(), v.GetMinor(), v.GetPatch(), v.GetPrerelease(), v.GetBuild()}
}

func (c *UnitCase) run() {
	defer func() {
		if r := recover(); r != nil {
			c.Go = map[string]any{"panic": fmt.Sprint(r)}
		}
	}()
	if c.runCodec() {
		return
	}
	switch c.Kind {
	case "bucket":
		ctx := c.Ctx.build()
		d := dumpCtx(ctx, c.Ctx.Inv)
		c.Ctx = &d
		attr := c.Attr.build()
		ra := dumpRef(attr, c.Attr.Ctor, c.Attr.Arg)
		c.Attr = &ra
		v, fail, err := hookComputeBucketValue(c.Sec, ctx, c.IsExp, optInt(c.Seed), ldcontext.Kind(c.CK), c.Key, attr, c.Salt)
		if err != nil {
			c.Go = map[string]any{"err": true, "bits": 0, "fail": 1}
		} else {
			c.Go = map[string]any{"err": false, "bits": math.Float32bits(v), "fail": fail}
		}
	case "buffer":
		ops := make([]hookBufOp, len(c.Ops))
		for i, o := range c.Ops {
			ops[i] = hookBufOp{Kind: o.K[0], B: byte(o.B), S: o.S, I: o.I}
		}
		data := hookLocalBufferScript(c.Cap, ops)
		c.Go = map[string]any{"data": hex.EncodeToString(data)}
	case "hex":
		b, _ := hex.DecodeString(c.Hex)
		v, ok := hookParseHexUint64(b)
		c.Go = map[string]any{"ok": ok, "v": strconv.FormatUint(v, 10)}
	case "time":
		if c.V == nil {
			n := jNull()
			c.V = &n
		}
		// both conversion sites: the context side and (through a preprocessed and a plain clause)
		// the clause side must agree with each other; report the context-side value and flag any
		// disagreement between the three.
		t1, ok1 := ldmodel.TypeConversions.ValueToTimestamp(c.V.toLD())
		plain := ldmodel.Clause{Op: ldmodel.OperatorBefore, Values: jvsToLD([]JV{*c.V})}
		t2, ok2 := ldmodel.EvaluatorAccessors.ClauseGetValueAsTimestamp(&plain, 0)
		f := ldmodel.FeatureFlag{Rules: []ldmodel.FlagRule{{Clauses: []ldmodel.Clause{plain}}}}
		ldmodel.PreprocessFlag(&f)
		t3, ok3 := ldmodel.EvaluatorAccessors.ClauseGetValueAsTimestamp(&f.Rules[0].Clauses[0], 0)
		out := map[string]any{"t": nil}
		if ok1 {
			out["t"] = timeNS(t1)
		}
		if ok1 != ok2 || ok1 != ok3 || (ok1 && (!t1.Equal(t2) || !t1.Equal(t3))) {
			out["sitesDisagree"] = fmt.Sprintf("ctx=(%v,%v) clausePlain=(%v,%v) clausePre=(%v,%v)", t1, ok1, t2, ok2, t3, ok3)
		}
		c.Go = out
	case "semver":
		a, ea := semver.ParseAs(c.A, semver.ParseModeAllowMissingMinorAndPatch)
		b, eb := semver.ParseAs(c.B, semver.ParseModeAllowMissingMinorAndPatch)
		out := map[string]any{"a": semverDump(a, ea == nil), "b": semverDump(b, eb == nil), "cmp": nil}
		if ea == nil && eb == nil {
			out["cmp"] = a.ComparePrecedence(b)
		}
		c.Go = out
	case "clause":
		ctx := c.Ctx.build()
		d := dumpCtx(ctx, c.Ctx.Inv)
		c.Ctx = &d
		cl := c.Clause.build()
		if c.Flag != nil && (c.Flag.Form == "pre" || c.Flag.Form == "repre") { // reuse Form as "preprocess this clause"
			f := ldmodel.FeatureFlag{Rules: []ldmodel.FlagRule{{Clauses: []ldmodel.Clause{cl}}}}
			if c.Flag.Form == "repre" {
				rePreprocessFlag(&f) // preprocessed with other operands first, then with these
			} else {
				ldmodel.PreprocessFlag(&f)
			}
			cl = f.Rules[0].Clauses[0]
		}
		dc := dumpClause(&cl)
		c.Clause = &dc
		wf := &WFlag{Rules: []WFlagRule{{Clauses: []WClause{dc}}}}
		c.Rx = regexOracleFor([]*WFlag{wf}, nil, c.Ctx)
		m, err := hookClauseMatchNoSegments(&cl, &ctx)
		if err != nil {
			c.Go = map[string]any{"match": false, "err": classifyLog(err.Error())}
		} else {
			c.Go = map[string]any{"match": m, "err": nil}
		}
	case "keyaccessor":
		// the four key accessors with an arbitrary probe key, on a list that is plain, preprocessed,
		// preprocessed twice, changed after preprocessing, or changed and preprocessed again
		vals := cloneStrs(c.Vals)
		if vals == nil {
			vals = []string{}
		}
		mutate := func(xs []string) []string {
			out := append([]string{}, xs...)
			if len(out) > 0 {
				out = out[1:]
			}
			return append(out, "added-later")
		}
		var found bool
		var has bool
		var pm []string
		switch c.Which {
		case "target", "ctarget":
			f := ldmodel.FeatureFlag{}
			if c.Which == "target" {
				f.Targets = []ldmodel.Target{{Values: vals, Variation: 1}}
			} else {
				f.ContextTargets = []ldmodel.Target{{ContextKind: "org", Values: vals, Variation: 1}}
			}
			tp := func() *ldmodel.Target {
				if c.Which == "target" {
					return &f.Targets[0]
				}
				return &f.ContextTargets[0]
			}
			switch c.Mode {
			case "pre":
				ldmodel.PreprocessFlag(&f)
			case "pre2":
				ldmodel.PreprocessFlag(&f)
				ldmodel.PreprocessFlag(&f)
			case "premut":
				ldmodel.PreprocessFlag(&f)
				tp().Values = mutate(tp().Values)
			case "premutpre":
				ldmodel.PreprocessFlag(&f)
				tp().Values = mutate(tp().Values)
				ldmodel.PreprocessFlag(&f)
			}
			c.Vals = nonNilStrs(tp().Values)
			has, pm = hookTargetMap(tp())
			t := tp()
			if c.Nil {
				t = nil
			}
			found = ldmodel.EvaluatorAccessors.TargetFindKey(t, c.Probe)
		default:
			s := ldmodel.Segment{}
			get := func() *[]string { return &s.Included }
			switch c.Which {
			case "exc":
				get = func() *[]string { return &s.Excluded }
			case "segtarget":
				s.IncludedContexts = []ldmodel.SegmentTarget{{ContextKind: "org", Values: vals}}
				get = func() *[]string { return &s.IncludedContexts[0].Values }
			}
			*get() = vals
			switch c.Mode {
			case "pre":
				ldmodel.PreprocessSegment(&s)
			case "pre2":
				ldmodel.PreprocessSegment(&s)
				ldmodel.PreprocessSegment(&s)
			case "premut":
				ldmodel.PreprocessSegment(&s)
				*get() = mutate(*get())
			case "premutpre":
				ldmodel.PreprocessSegment(&s)
				*get() = mutate(*get())
				ldmodel.PreprocessSegment(&s)
			}
			c.Vals = nonNilStrs(*get())
			hasI, inc, hasE, exc := hookSegmentMaps(&s)
			sp := &s
			if c.Nil {
				sp = nil
			}
			switch c.Which {
			case "inc":
				has, pm = hasI, inc
				found = ldmodel.EvaluatorAccessors.SegmentFindKeyInIncluded(sp, c.Probe)
			case "exc":
				has, pm = hasE, exc
				found = ldmodel.EvaluatorAccessors.SegmentFindKeyInExcluded(sp, c.Probe)
			default:
				has, pm = hookSegmentTargetMap(&s.IncludedContexts[0])
				st := &s.IncludedContexts[0]
				if c.Nil {
					st = nil
				}
				found = ldmodel.EvaluatorAccessors.SegmentTargetFindKey(st, c.Probe)
			}
		}
		c.PM = nil
		if has {
			c.PM = nonNilStrs(pm)
		}
		c.Go = map[string]any{"found": found}
	case "accessor":
		// the exported accessors, called the way any caller may: nil clause, negative and
		// out-of-range indexes, operators that do not match the kind of value asked for
		cl := c.Clause.build()
		if c.Flag != nil && c.Flag.Form == "pre" {
			f := ldmodel.FeatureFlag{Rules: []ldmodel.FlagRule{{Clauses: []ldmodel.Clause{cl}}}}
			ldmodel.PreprocessFlag(&f)
			cl = f.Rules[0].Clauses[0]
		}
		dc := dumpClause(&cl)
		c.Clause = &dc
		c.Rx = [][3]any{}
		seenP := map[string]bool{}
		for _, v := range dc.Vals {
			if v.K == 's' && !seenP[v.S] {
				seenP[v.S] = true
				if _, err := regexp.Compile(v.S); err != nil {
					c.Rx = append(c.Rx, [3]any{v.S, "", nil})
				} else {
					c.Rx = append(c.Rx, [3]any{v.S, "", false})
				}
			}
		}
		p := &cl
		if c.Nil {
			p = nil
		}
		if c.V == nil {
			n := jNull()
			c.V = &n
		}
		out := map[string]any{"find": ldmodel.EvaluatorAccessors.ClauseFindValue(p, c.V.toLD()), "rx": nil, "t": nil}
		if r := ldmodel.EvaluatorAccessors.ClauseGetValueAsRegexp(p, c.Idx); r != nil {
			out["rx"] = r.String()
		}
		sv, okv := ldmodel.EvaluatorAccessors.ClauseGetValueAsSemanticVersion(p, c.Idx)
		out["sv"] = semverDump(sv, okv)
		if t, ok := ldmodel.EvaluatorAccessors.ClauseGetValueAsTimestamp(p, c.Idx); ok {
			out["t"] = timeNS(t)
		}
		c.Go = out
	case "preflag":
		c.Flag.Form = "plain"
		f := c.Flag.build()
		plain := dumpFlag(f, "plain")
		ldmodel.PreprocessFlag(f)
		c.Go = toGeneric(dumpFlag(f, "plain"))
		c.Flag = &plain
		c.Rx = regexOracleFor([]*WFlag{c.Flag}, nil, &WCtx{T: "invalid"})
	case "presegment":
		c.Segment.Form = "plain"
		s := c.Segment.build()
		plain := dumpSegment(s, "plain")
		ldmodel.PreprocessSegment(s)
		c.Go = toGeneric(dumpSegment(s, "plain"))
		c.Segment = &plain
		c.Rx = regexOracleFor(nil, []*WSegment{c.Segment}, &WCtx{T: "invalid"})
	default:
		c.Go = map[string]any{"panic": "unknown unit kind " + c.Kind}
	}
}

func toGeneric(v any) map[string]any {
	b, _ := jsonMarshal(v)
	var m map[string]any
	_ = jsonUnmarshal(b, &m)
	return m
}

package main

// Generators and the runner for unit cases.

import (
	"encoding/hex"
	"encoding/json"
	"fmt"
	"math"
	"strings"
)

type unitOutcome struct {
	c    *UnitCase
	out  map[string]any
	pred map[string]any
	hErr string
}

// runUnitBatch executes unit cases on the real code (isolated) and on the model.
func runUnitBatch(cases []*UnitCase) []unitOutcome {
	lines := make([][]byte, len(cases))
	for i, c := range cases {
		b, err := json.Marshal(c)
		if err != nil {
			fatalf("marshal unit case: %v", err)
		}
		lines[i] = b
	}
	iso := runIsolated(lines)
	outs := make([]unitOutcome, len(cases))
	dlines := make([][]byte, len(cases))
	for i := range iso {
		done := &UnitCase{}
		if iso[i].failure != "" {
			*done = *cases[i]
			done.Go = map[string]any{"panic": iso[i].failure + ": " + iso[i].stderr}
		} else if err := json.Unmarshal(iso[i].line, done); err != nil {
			outs[i].hErr = fmt.Sprintf("worker output unparsable: %v", err)
			*done = *cases[i]
		}
		outs[i].c = done
		b, _ := json.Marshal(done)
		dlines[i] = b
	}
	ans := runDriver(dlines)
	for i, a := range ans {
		if e, ok := a["harnessError"]; ok {
			outs[i].hErr = fmt.Sprint(e)
			continue
		}
		if m, ok := a["out"].(map[string]any); ok {
			outs[i].out = m
		}
		if p, ok := a["pred"].(map[string]any); ok {
			outs[i].pred = p
		}
	}
	return outs
}

// unitAgree compares Go's and the model's outputs of a unit case.
func unitAgree(o *unitOutcome) (bool, string, string) {
	g := canon(normalizeDump(toGenericAny(o.c.Go)))
	m := canon(normalizeDump(toGenericAny(o.out)))
	return g == m, g, m
}

// ---------- generators ----------

func (g *gen) bucketUnit(id string) *UnitCase {
	r := g.r
	c := &UnitCase{ID: id, Kind: "bucket", Sec: r.chance(1, 2), IsExp: r.chance(1, 3)}
	ctx := g.context()
	if ctx.T == "invalid" {
		s := g.sctx("user")
		ctx = WCtx{T: "single", C: &s}
	}
	// attribute values that matter for bucketing: ints at the edges, integer-valued floats, strings of all lengths
	special := []JV{jNum(9007199254740992), jNum(-9007199254740992), jNum(9007199254740993), jNum(9223372036854775807),
		jNum(-9223372036854775808), jNum(9223372036854775808), jNum(3.0), jNum(3.5), jNum(-0.0), jNum(1e18), jNum(1e19), jNum(-1e19),
		jStr(strings.Repeat("x", 97)), jStr(strings.Repeat("y", 98)), jStr(strings.Repeat("z", 99)), jStr(strings.Repeat("é", 50)),
		jStr(strings.Repeat("w", 199)), jStr(strings.Repeat("v", 1000)), jStr(""), jBool(true), jArr(jStr("a")), jObj(KV{"a", jNum(1)})}
	addAttr := func(s *WSCtx) {
		if r.chance(2, 3) {
			s.Attrs = append(s.Attrs, WAttr{"battr", pick(r, special)})
		}
	}
	switch ctx.T {
	case "single":
		addAttr(ctx.C)
	case "multi":
		for i := range ctx.Cs {
			addAttr(&ctx.Cs[i])
		}
	}
	c.Ctx = &ctx
	c.CK = pick(r, []string{"", "user", "org", "device", "other"})
	c.Key = pick(r, []string{"flag", "f", "", strings.Repeat("k", 95), strings.Repeat("K", 100), "ключ", "a.b"})
	c.Salt = pick(r, saltPool)
	if r.chance(1, 3) {
		c.Seed = ip(pick(r, []int{0, 1, -1, 61, 123456789, math.MaxInt64, math.MinInt64, 99999999999}))
	}
	var a WRef
	switch r.intn(8) {
	case 0:
		a = mkRef("", "")
	case 1:
		a = g.refMal()
	case 2, 3:
		if c.CK == "" {
			a = mkRef("lit", "battr")
		} else {
			a = mkRef("ref", "/battr")
		}
	case 4:
		a = mkRef("lit", pick(r, []string{"key", "name", "kind", "anonymous"}))
	default:
		a = g.ref(c.CK != "")
	}
	c.Attr = &a
	return c
}

func (g *gen) bufferUnit(id string) *UnitCase {
	r := g.r
	c := &UnitCase{ID: id, Kind: "buffer", Cap: pick(r, []int{0, 1, 2, 5, 20, 99, 100, 101, 200})}
	total := 0
	for i, n := 0, 1+r.intn(8); i < n; i++ {
		switch r.intn(4) {
		case 0:
			c.Ops = append(c.Ops, BufOp{K: "b", B: r.intn(256)})
			total++
		case 1:
			l := pick(r, []int{0, 1, 3, 50, 99, 100, 101, 150, 300})
			c.Ops = append(c.Ops, BufOp{K: "s", S: strings.Repeat(string(rune('a'+r.intn(26))), l)})
			total += l
		case 2:
			c.Ops = append(c.Ops, BufOp{K: "i", I: pick(r, []int{0, 7, -7, 1234567890, math.MaxInt64, math.MinInt64, 100, -100})})
		case 3:
			c.Ops = append(c.Ops, BufOp{K: "a", S: pick(r, []string{"", ".", "é", "abc", strings.Repeat("q", 120)})})
		}
	}
	return c
}

func (g *gen) hexUnit(id string) *UnitCase {
	r := g.r
	n := pick(r, []int{0, 1, 2, 8, 14, 15, 16, 17, 20, 40})
	digits := "0123456789abcdefABCDEF"
	var sb strings.Builder
	for i := 0; i < n; i++ {
		sb.WriteByte(digits[r.intn(len(digits))])
	}
	s := sb.String()
	if r.chance(1, 6) && n > 0 {
		p := r.intn(n)
		s = s[:p] + string([]byte{pick(r, []byte{'g', 'G', ' ', '/', ':', '@', '`', 0, 0xff, 'x'})}) + s[p+1:]
	}
	return &UnitCase{ID: id, Kind: "hex", Hex: hex.EncodeToString([]byte(s))}
}

func randTimestamp(r *rng) string {
	year := pick(r, []int{0, 1, 4, 100, 400, 1582, 1600, 1900, 1969, 1970, 1999, 2000, 2020, 2024, 2038, 2100, 2262, 2263, 2400, 9999, r.intn(10000)})
	month := 1 + r.intn(12)
	day := 1 + r.intn(31)
	if r.chance(2, 3) && day > 28 {
		day = 28
	}
	hour, min, sec := r.intn(24), r.intn(60), r.intn(60)
	if r.chance(1, 30) {
		sec = 60
	}
	offH, offM := -1, -1
	if r.chance(1, 7) {
		// exactly one field on, or one step outside, a limit of its range
		switch r.intn(7) {
		case 0:
			month = pick(r, []int{0, 1, 12, 13})
		case 1:
			day = pick(r, []int{0, 1, 28, 29, 30, 31, 32})
		case 2:
			hour = pick(r, []int{0, 23, 24})
		case 3:
			min = pick(r, []int{0, 59, 60})
		case 4:
			sec = pick(r, []int{0, 59, 60, 61})
		case 5:
			offH = pick(r, []int{0, 23, 24, 99})
		case 6:
			offM = pick(r, []int{0, 59, 60})
		}
	}
	s := fmt.Sprintf("%04d-%02d-%02d", year, month, day)
	if r.chance(1, 12) {
		s += "t"
	} else {
		s += "T"
	}
	if hour < 10 && r.chance(1, 6) {
		s += fmt.Sprintf("%d", hour)
	} else {
		s += fmt.Sprintf("%02d", hour)
	}
	s += fmt.Sprintf(":%02d:%02d", min, sec)
	if r.chance(1, 2) {
		n := 1 + r.intn(9)
		if r.chance(1, 12) {
			n = pick(r, []int{0, 1, 9, 10, 12}) // no digit after the point; more digits than nanoseconds
		}
		s += "."
		for i := 0; i < n; i++ {
			s += string(rune('0' + r.intn(10)))
		}
	}
	switch r.intn(5) {
	case 0:
		s += "Z"
	case 1:
		s += "z"
	default:
		sign := "+"
		if r.bool() {
			sign = "-"
		}
		oh := pick(r, []int{0, 1, 5, 12, 14, 23, 24, 99, r.intn(100)})
		om := r.intn(60)
		if r.chance(1, 14) {
			// other ways of writing an offset, none of them RFC 3339
			return s + sign + pick(r, []string{"0100", "01", "1:00", "001:00", "01:0", "01:000", "01:00:00", "01.00", "00:00Z", ":00", "01:"})
		}
		if r.chance(1, 14) {
			return s + "Z" + sign + "01:00"
		}
		if offH >= 0 {
			oh = offH
		}
		if offM >= 0 {
			om = offM
		}
		s += fmt.Sprintf("%s%02d:%02d", sign, oh, om)
	}
	return s
}

func corruptString(r *rng, s string) string {
	if len(s) == 0 {
		return s
	}
	p := r.intn(len(s))
	switch r.intn(6) {
	case 5:
		// surrounding whitespace (a parser that trims in one place and not in another)
		ws := pick(r, []string{" ", "\n", "\t", "\r\n", "\u00a0"})
		if r.bool() {
			return ws + s
		}
		return s + ws
	case 0:
		return s[:p] // truncate
	case 1:
		return s[:p] + s[p+1:]
	case 2:
		return s[:p] + pick(r, []string{"x", " ", ":", "-", "é", "\x00", "9", "T", "+"}) + s[p+1:]
	case 3:
		return s[:p] + pick(r, []string{"0", "00", ".", "Z"}) + s[p:]
	}
	return s + pick(r, []string{"Z", "junk", "+01", "+01:0", ":00"})
}

func (g *gen) timeUnit(id string) *UnitCase {
	r := g.r
	var v JV
	switch r.intn(10) {
	case 0, 1, 2, 3:
		v = jStr(randTimestamp(r))
	case 4, 5:
		v = jStr(corruptString(r, randTimestamp(r)))
	case 6:
		v = jStr(pick(r, dateStrs))
	case 7:
		v = jNum(pick(r, dateNums))
	case 8:
		// numeric epoch milliseconds across the whole range incl. after 2262 and negative
		v = jNum(math.Floor((float64(r.next()%(1<<53))/float64(uint64(1)<<53)*2 - 1) * 3e14))
		if r.chance(1, 4) {
			v = jNum(pick(r, []float64{253402300799000, 253402300799999.5, -62135596800000, -62167219200000, 9223372036854.775, 9223372036854776, 9.3e18, 1e300, -1e300, 0.999, -0.999}))
		}
	default:
		v = g.value(0)
	}
	return &UnitCase{ID: id, Kind: "time", V: &v}
}

func (g *gen) semverUnit(id string) *UnitCase {
	r := g.r
	mk := func() string {
		if r.chance(1, 3) {
			return pick(r, verStrs)
		}
		num := func() string {
			return pick(r, []string{"0", "1", "2", "10", "007", "99999999999999999999", "9223372036854775807", "9223372036854775808", "", "1a"})
		}
		s := num()
		if r.chance(4, 5) {
			s += "." + num()
			if r.chance(4, 5) {
				s += "." + num()
			}
		}
		if r.chance(1, 2) {
			s += "-" + pick(r, []string{"rc", "rc.1", "rc.01", "1", "1.2.3", "alpha-1", "a.b.c", "", "a..b", "é", "rc.10", "rc.9", "0", "-"})
		}
		if r.chance(1, 4) {
			s += "+" + pick(r, []string{"build", "001", "a.b", "", "a..b", "é"})
		}
		return s
	}
	return &UnitCase{ID: id, Kind: "semver", A: mk(), B: mk()}
}

func (g *gen) clauseUnit(id string) *UnitCase {
	ec := g.operatorCase(id)
	c := &UnitCase{ID: id, Kind: "clause", Ctx: &ec.Ctx, Clause: &ec.Flag.Rules[0].Clauses[0]}
	if g.r.bool() {
		c.Flag = &WFlag{Form: pick(g.r, []string{"pre", "pre", "repre"})}
	}
	return c
}

// accessorUnit: a clause (plain or preprocessed) probed through the exported accessors with an
// arbitrary index (in range, one past the end, far out, negative), sometimes a nil clause.
func (g *gen) accessorUnit(id string) *UnitCase {
	ec := g.operatorCase(id)
	cl := ec.Flag.Rules[0].Clauses[0]
	r := g.r
	// mixed value kinds regardless of the operator
	if r.chance(1, 3) {
		cl.Vals = append(cl.Vals, jStr(pick(r, dateStrs)), jStr(pick(r, verStrs)), jStr(pick(r, regexStrs)), jNum(pick(r, dateNums)))
	}
	n := len(cl.Vals)
	idx := pick(r, []int{0, 0, 1, n - 1, n, n + 1, -1, -2, 1 << 30, -(1 << 30), r.intn(n + 2)})
	probe := g.value(0)
	if n > 0 && r.chance(1, 2) {
		probe = cl.Vals[r.intn(n)]
	}
	c := &UnitCase{ID: id, Kind: "accessor", Clause: &cl, Idx: idx, Nil: r.chance(1, 25), V: &probe}
	if r.bool() {
		c.Flag = &WFlag{Form: "pre"}
	}
	return c
}

// keyAccessorUnit: a key list (0 to 40 keys, with duplicates and the empty string) probed through the
// exported key accessors with keys in it, next to it, removed from it and never in it.
func (g *gen) keyAccessorUnit(id string) *UnitCase {
	r := g.r
	n := pick(r, []int{0, 1, 1, 2, 3, 5, 9, 17, 40})
	vals := []string{}
	for i := 0; i < n; i++ {
		if r.chance(1, 3) {
			vals = append(vals, pick(r, keyPool))
		} else {
			vals = append(vals, fmt.Sprintf("k%d", r.intn(n+3)))
		}
	}
	probe := pick(r, append([]string{"", "added-later", "absent", "k0", "k1"}, vals...))
	if len(vals) > 0 && r.chance(1, 4) {
		probe = pick(r, neighbours(pick(r, vals))) // a near miss of a listed key
	}
	return &UnitCase{ID: id, Kind: "keyaccessor", Which: pick(r, []string{"target", "ctarget", "inc", "exc", "segtarget"}),
		Mode: pick(r, []string{"plain", "pre", "pre", "pre2", "premut", "premutpre"}), Vals: vals, Probe: probe, Nil: r.chance(1, 25)}
}

func (g *gen) preprocessUnit(id string) *UnitCase {
	if g.r.chance(1, 3) {
		s := g.segment("s", segKeyPool)
		return &UnitCase{ID: id, Kind: "presegment", Segment: &s}
	}
	f := g.flag("f", flagKeyPool, segKeyPool)
	return &UnitCase{ID: id, Kind: "preflag", Flag: &f}
}

type unitStream struct {
	name  string
	quick int
	gen   func(g *gen, id string) *UnitCase
}

// runUnitStreams runs unit streams for a property and reports disagreements as violations.
// hookUnitKinds: unit streams that call the real code through a hook of /repo (build tag verif).
var hookUnitKinds = map[string]bool{"bucket": true, "buffer": true, "hex": true, "clause": true, "preprocess": true, "keyaccessor": true}

// skippedHookStreams: streams not run because the hooks do not compile (fallback build).
var skippedHookStreams []string

func runUnitStreams(pid string, seed uint64, streams []unitStream, replayDir string, tot *unitTotals) {
	for _, s := range streams {
		if !hooksAvailable && hookUnitKinds[s.name] {
			skippedHookStreams = append(skippedHookStreams, pid+"/"+s.name)
			continue
		}
		count := s.quick * tierScale()
		base := newRng(seed ^ hashStr(pid+"/unit/"+s.name))
		const batch = 20000
		for start := 0; start < count; start += batch {
			n := batch
			if start+n > count {
				n = count - start
			}
			cases := make([]*UnitCase, n)
			for i := 0; i < n; i++ {
				g := &gen{r: base.fork(), p: profiles["wellformed"]}
				cases[i] = s.gen(g, fmt.Sprintf("%s/%s/%d/%d", pid, s.name, seed, start+i))
			}
			outs := runUnitBatch(cases)
			for i := range outs {
				tot.tally(pid, s.name, &outs[i])
			}
		}
	}
}

type unitTotals struct {
	evaluations int
	distinct    map[string]bool
	kinds       map[string]int
	samples     []any
	hErrs       []string
	dis         []map[string]any
	extraCheck  func(o *unitOutcome) string
	nontrivial  func(o *unitOutcome) bool
}

func newUnitTotals() *unitTotals {
	return &unitTotals{distinct: map[string]bool{}, kinds: map[string]int{}}
}

func (t *unitTotals) tally(pid, stream string, o *unitOutcome) {
	t.evaluations++
	t.kinds[stream]++
	if o.hErr != "" {
		if len(t.hErrs) < 10 {
			t.hErrs = append(t.hErrs, o.c.ID+": "+o.hErr)
		}
		return
	}
	if t.nontrivial == nil || t.nontrivial(o) {
		cp := *o.c
		cp.ID = ""
		t.distinct[canon(cp.Go)+"|"+canon(cp.V)+canon(cp.Ops)+cp.Hex+cp.A+cp.B+canon(cp.Doc)+canon(cp.Attr)+canon(cp.Clause)+canon(cp.Ctx)+cp.Key+cp.Salt] = true
	}
	if len(t.samples) < 4 && t.evaluations%211 == 1 {
		t.samples = append(t.samples, map[string]any{"id": o.c.ID, "kind": o.c.Kind, "go": o.c.Go, "model": o.out})
	}
	if _, isPanic := o.c.Go["panic"]; isPanic {
		t.dis = append(t.dis, map[string]any{"property": pid, "kind": "predicate", "stream": stream, "message": "the real code panicked or crashed: " + fmt.Sprint(o.c.Go["panic"]), "case": o.c})
		return
	}
	if t.extraCheck != nil {
		if msg := t.extraCheck(o); msg != "" {
			t.dis = append(t.dis, map[string]any{"property": pid, "kind": "predicate", "stream": stream, "message": msg, "case": o.c, "model": o.out})
			return
		}
	}
	if ok, gs, ms := unitAgree(o); !ok {
		t.dis = append(t.dis, map[string]any{"property": pid, "kind": "correspondence", "stream": stream,
			"message": "the real code and the model differ on a unit case", "go": json.RawMessage(gs), "model_out": json.RawMessage(ms), "case": o.c})
	}
}

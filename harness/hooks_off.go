//go:build nohooks

package main

// Fallback when /repo's hooks (build tag verif) do not compile against the working tree: see
// hooks_on.go. Nothing here touches /repo's unexported code; the unit streams listed in
// hookUnitKinds are skipped and reported, the dumps carry no preprocessed tables (the model then
// preprocesses by itself, which C14 proves equivalent).

import (
	"errors"

	"github.com/launchdarkly/go-sdk-common/v3/ldattr"
	"github.com/launchdarkly/go-sdk-common/v3/ldcontext"
	"github.com/launchdarkly/go-sdk-common/v3/ldvalue"
	"github.com/launchdarkly/go-server-sdk-evaluation/v3/ldmodel"
)

const hooksAvailable = false

type hookPreValue struct {
	Valid      bool
	HasRegexp  bool
	Regexp     string
	TimeSec    int64
	TimeNsec   int
	Major      int
	Minor      int
	Patch      int
	Prerelease string
	Build      string
}

type hookPrimKey struct {
	Type   ldvalue.ValueType
	Bool   bool
	Number float64
	String string
}

type hookBufOp struct {
	Kind byte
	B    byte
	S    string
	I    int
}

var errNoHooks = errors.New("hooks unavailable")

func hookComputeBucketValue(sec bool, ctx ldcontext.Context, isExp bool, seed ldvalue.OptionalInt, ck ldcontext.Kind,
	key string, attr ldattr.Ref, salt string) (float32, int, error) {
	return 0, 0, errNoHooks
}

func hookLocalBufferScript(initialCap int, ops []hookBufOp) []byte { return nil }

func hookParseHexUint64(b []byte) (uint64, bool) { return 0, false }

func hookClauseMatchNoSegments(c *ldmodel.Clause, ctx *ldcontext.Context) (bool, error) {
	return false, errNoHooks
}

func hookClausePreprocessed(c *ldmodel.Clause) (bool, []hookPreValue, bool, []hookPrimKey) {
	return false, nil, false, nil
}

func hookTargetMap(t *ldmodel.Target) (bool, []string) { return false, nil }

func hookSegmentTargetMap(t *ldmodel.SegmentTarget) (bool, []string) { return false, nil }

func hookSegmentMaps(s *ldmodel.Segment) (bool, []string, bool, []string) {
	return false, nil, false, nil
}

package main

// mine-edges: a development tool (not run by any check). It searches context keys whose bucket
// value is exactly 1.0 — the top 2^-25 of the hash space, where float32(hash)/float32(2^60-1)
// rounds up to one — for a few fixed (flag key, salt) and seed prefixes, and prints them as JSON
// lines for corpus/bucket-edges.jsonl. No generator can reach these by sampling; the stream
// "bucketedge" builds its cases around them. The search replicates the hash layout only to find
// candidates: what the real code and the model make of each candidate is decided by running them.

import (
	"crypto/sha1"
	"encoding/hex"
	"encoding/json"
	"fmt"
	"os"
	"strconv"
	"sync"
)

type minedEdge struct {
	Prefix string `json:"prefix"` // "<flag or segment key>.<salt>." or "<seed>."
	Key    string `json:"key"`    // context key
	Bucket string `json:"bucket"` // what the search computed (informative)
}

func mineEdgesMain(args []string) {
	perPrefix := 4
	if len(args) > 0 {
		fmt.Sscan(args[0], &perPrefix)
	}
	prefixes := []string{"edge.salt.", "edge.s2.", "f..", "42.", "-7."}
	enc := json.NewEncoder(os.Stdout)
	for _, p := range prefixes {
		var mu sync.Mutex
		found := 0
		var wg sync.WaitGroup
		for w := 0; w < 16; w++ {
			wg.Add(1)
			go func(w int) {
				defer wg.Done()
				buf := make([]byte, 0, 64)
				hexb := make([]byte, 40)
				for i := uint64(w); ; i += 16 {
					if i%(1<<16) < 16 {
						mu.Lock()
						done := found >= perPrefix
						mu.Unlock()
						if done {
							return
						}
					}
					buf = append(buf[:0], p...)
					buf = append(buf, "user-"...)
					buf = strconv.AppendUint(buf, i, 10)
					sum := sha1.Sum(buf)
					if sum[0] != 0xff || sum[1] != 0xff || sum[2] != 0xff {
						continue
					}
					hex.Encode(hexb, sum[:])
					v, _ := strconv.ParseUint(string(hexb[:15]), 16, 64)
					b := float32(v) / float32(0xFFFFFFFFFFFFFFF)
					if b >= 1 {
						mu.Lock()
						if found < perPrefix {
							found++
							enc.Encode(minedEdge{Prefix: p, Key: "user-" + strconv.FormatUint(i, 10), Bucket: strconv.FormatFloat(float64(b), 'g', -1, 32)})
						}
						mu.Unlock()
					}
				}
			}(w)
		}
		wg.Wait()
	}
}

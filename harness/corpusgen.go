package main

// corpus-gen: writes the hand-made regression/boundary corpus (the witnesses of the repaired
// defects F1-F4 and a few boundary shapes) as case lines under /verif/corpus.

import (
	"encoding/json"
	"fmt"
	"os"
	"path/filepath"
)

func noRollout() WRollout { return WRollout{Vars: []WWV{}, By: mkRef("", "")} }

func corpusCases() map[string][]*EvalCase {
	out := map[string][]*EvalCase{}
	user := func(key string, attrs ...WAttr) WCtx {
		s := WSCtx{Kind: "user", Key: key, Attrs: append([]WAttr{}, attrs...)}
		return WCtx{T: "single", C: &s}
	}
	base := func(id string, f WFlag, ctx WCtx) *EvalCase {
		c := &EvalCase{ID: id, Kind: "eval", Opts: WOpts{Log: true, Rec: true}, Flag: f, Ctx: ctx}
		c.Store.Flags, c.Store.Segments = []WFlag{}, []WSegment{}
		return c
	}
	// F1: experiment, context lacks the experiment's kind, all weights zero, last bucket tracked
	for _, where := range []string{"fallthrough", "rule"} {
		f := simpleFlag("f1", true, 0, 2)
		vr := WVR{RO: WRollout{Kind: "experiment", CK: "org", By: mkRef("", ""), Vars: []WWV{{V: 0, W: 0}, {V: 1, W: 0}}}}
		if where == "fallthrough" {
			f.FT = vr
		} else {
			f.Rules = []WFlagRule{{ID: "r", VR: vr, Clauses: []WClause{}}}
		}
		out["C08-F1"] = append(out["C08-F1"], base("corpus/F1/"+where, f, user("u")))
	}
	// F2: the first big-segment reference happens inside a prerequisite
	{
		seg := simpleSegment("big")
		seg.Unb, seg.UnbK, seg.Gen = true, "user", ip(1)
		pre := simpleFlag("pre", true, 0, 2)
		pre.Rules = []WFlagRule{{ID: "r", VR: WVR{V: ip(0), RO: noRollout()}, Clauses: []WClause{segRefRule("big").Clauses[0]}}}
		top := simpleFlag("top", true, 0, 2)
		top.Prereqs = []WPrereq{{"pre", 0}}
		top.Rules = []WFlagRule{{ID: "r", VR: WVR{V: ip(1), RO: noRollout()}, Clauses: []WClause{segRefRule("big").Clauses[0]}}}
		c := base("corpus/F2", top, user("u"))
		c.Store.Flags = []WFlag{pre}
		c.Store.Segments = []WSegment{seg}
		c.BS = &WBS{Dflt: WBSAnswer{St: "HEALTHY", M: []WMember{{"big.g1", true}}}, Table: []WBSEntry{}}
		out["C11-F2"] = append(out["C11-F2"], c)
	}
	// F3: the zero time.Time as a timestamp operand, in every form
	for _, form := range []string{"plain", "pre", "json"} {
		f := simpleFlag("f3", true, 0, 2)
		f.Form = form
		f.Rules = []WFlagRule{{ID: "r", VR: WVR{V: ip(1), RO: noRollout()},
			Clauses: []WClause{{Attr: mkRef("lit", "d"), Op: "after", Vals: []JV{jStr("0001-01-01T00:00:00Z")}}}}}
		out["C18-F3"] = append(out["C18-F3"], base("corpus/F3/"+form, f, user("u", WAttr{"d", jStr("2020-01-01T00:00:00Z")})))
	}
	// F4: numeric epoch milliseconds after 2262 (year-9999 sentinel) on either side
	for i, vals := range [][2]JV{{jNum(253402300799000), jStr("2020-01-01T00:00:00Z")}, {jStr("9999-12-31T23:59:59Z"), jNum(1577836800000)},
		{jNum(253402300799000), jNum(253402300798999)}} {
		f := simpleFlag("f4", true, 0, 2)
		f.Form = []string{"plain", "pre", "json"}[i%3]
		f.Rules = []WFlagRule{{ID: "r", VR: WVR{V: ip(1), RO: noRollout()},
			Clauses: []WClause{{Attr: mkRef("lit", "d"), Op: "before", Vals: []JV{vals[0]}}}}}
		out["C18-F4"] = append(out["C18-F4"], base(fmt.Sprintf("corpus/F4/%d", i), f, user("u", WAttr{"d", vals[1]})))
	}
	// boundary: bucket 0 (missing kind) against a zero-weight first bucket ('<' vs '<=')
	{
		f := simpleFlag("b0", true, 0, 3)
		f.FT = WVR{RO: WRollout{CK: "org", By: mkRef("", ""), Vars: []WWV{{V: 0, W: 0}, {V: 1, W: 50000}, {V: 2, W: 50000}}}}
		out["C07-bucket0"] = append(out["C07-bucket0"], base("corpus/bucket0", f, user("u")))
	}
	// boundary: prerequisite chain deeper than the preallocated 20 with a cycle at the end
	{
		top := simpleFlag("top", true, 0, 2)
		top.Prereqs = []WPrereq{{"g0", 0}}
		c := base("corpus/deepcycle", top, user("u"))
		for i := 0; i < 25; i++ {
			f := simpleFlag(fmt.Sprintf("g%d", i), true, 0, 2)
			next := fmt.Sprintf("g%d", i+1)
			if i == 24 {
				next = "g22"
			}
			f.Prereqs = []WPrereq{{next, 0}}
			c.Store.Flags = append(c.Store.Flags, f)
		}
		out["C10-deepcycle"] = append(out["C10-deepcycle"], c)
	}
	return out
}

func corpusGenMain(dir string) {
	os.MkdirAll(dir, 0o755)
	for name, cases := range corpusCases() {
		f, err := os.Create(filepath.Join(dir, name+".jsonl"))
		if err != nil {
			fatalf("%v", err)
		}
		for _, c := range cases {
			b, _ := json.Marshal(c)
			f.Write(b)
			f.WriteString("\n")
		}
		f.Close()
	}
}

package main

// An order- and duplicate-preserving reading of JSON text, for comparing the outputs of the encode
// paths: a tree built by encoding/json keeps the last of two members with the same name, sorts
// nothing but loses the order once canonicalised, and rounds integers beyond 2^53.

import (
	"bytes"
	"encoding/json"
	"fmt"
	"math/big"
	"sort"
	"strings"
)

// jsonTokens returns the token stream of a JSON text (strings unescaped, numbers as exact
// rationals) and the name of the first member that occurs twice in one object ("" if none).
func jsonTokens(data []byte) (toks []string, dup string, err error) {
	dec := json.NewDecoder(bytes.NewReader(data))
	dec.UseNumber()
	type frame struct {
		obj   bool
		key   bool // next string token in an object is a member name
		names map[string]bool
	}
	var stack []*frame
	top := func() *frame {
		if len(stack) == 0 {
			return nil
		}
		return stack[len(stack)-1]
	}
	valueDone := func() {
		if f := top(); f != nil && f.obj {
			f.key = true
		}
	}
	for {
		tok, e := dec.Token()
		if e != nil {
			if e.Error() == "EOF" {
				break
			}
			return nil, "", e
		}
		switch t := tok.(type) {
		case json.Delim:
			toks = append(toks, string(t))
			switch t {
			case '{':
				stack = append(stack, &frame{obj: true, key: true, names: map[string]bool{}})
			case '[':
				stack = append(stack, &frame{})
			default:
				stack = stack[:len(stack)-1]
				valueDone()
			}
		case string:
			if f := top(); f != nil && f.obj && f.key {
				if f.names[t] && dup == "" {
					dup = t
				}
				f.names[t] = true
				f.key = false
				toks = append(toks, "k:"+t)
				continue
			}
			toks = append(toks, "s:"+t)
			valueDone()
		case json.Number:
			r, ok := new(big.Rat).SetString(string(t))
			if !ok {
				return nil, "", fmt.Errorf("unreadable number %q", string(t))
			}
			toks = append(toks, "n:"+r.RatString())
			valueDone()
		case bool:
			toks = append(toks, fmt.Sprint(t))
			valueDone()
		case nil:
			toks = append(toks, "null")
			valueDone()
		}
	}
	if dec.More() {
		return nil, "", fmt.Errorf("trailing data")
	}
	return toks, dup, nil
}

// canonTokens renders a token stream with the members of every object sorted by name (the order
// of the members of a JSON *value* of a variation or clause is the iteration order of a Go map);
// members with the same name keep their relative order, so duplicates stay visible.
func canonTokens(toks []string) string {
	pos := 0
	var value func() string
	value = func() string {
		t := toks[pos]
		pos++
		switch t {
		case "{":
			type member struct{ k, v string }
			ms := []member{}
			for toks[pos] != "}" {
				k := toks[pos]
				pos++
				ms = append(ms, member{k, value()})
			}
			pos++
			sort.SliceStable(ms, func(i, j int) bool { return ms[i].k < ms[j].k })
			var b strings.Builder
			b.WriteString("{")
			for _, m := range ms {
				fmt.Fprintf(&b, "%q=%s;", m.k, m.v)
			}
			b.WriteString("}")
			return b.String()
		case "[":
			var b strings.Builder
			b.WriteString("[")
			for toks[pos] != "]" {
				b.WriteString(value())
				b.WriteString(",")
			}
			pos++
			b.WriteString("]")
			return b.String()
		}
		return fmt.Sprintf("%q", t)
	}
	if len(toks) == 0 {
		return ""
	}
	return value()
}

package main

import (
	"bufio"
	"encoding/json"
	"flag"
	"fmt"
	"os"
	"path/filepath"
	"sort"
	"strings"
	"time"
)

var knownFindingsPath = "/verif/KNOWN_FINDINGS.txt"

func main() {
	if len(os.Args) < 2 {
		fmt.Fprintln(os.Stderr, "usage: harness worker | check | replay | gen")
		os.Exit(2)
	}
	switch os.Args[1] {
	case "worker":
		workerMain()
	case "check":
		checkMain(os.Args[2:])
	case "replay":
		replayMain(os.Args[2:])
	case "corpus-gen":
		corpusGenMain(os.Args[2])
	case "mine-edges":
		mineEdgesMain(os.Args[2:])
		return
	case "conc-worker":
		concWorkerMain(os.Args[2:])
	default:
		fmt.Fprintln(os.Stderr, "unknown command", os.Args[1])
		os.Exit(2)
	}
}

type disagreement struct {
	Property string    `json:"property"`
	Kind     string    `json:"kind"` // correspondence | predicate
	Stream   string    `json:"stream"`
	Seed     uint64    `json:"seed"`
	Message  string    `json:"message"`
	GoProj   any       `json:"go_projection,omitempty"`
	ModProj  any       `json:"model_projection,omitempty"`
	Model    *WObs     `json:"model,omitempty"`
	Case     *EvalCase `json:"case"`
	Replay   string    `json:"replay_cmd"`
	Shrunk   bool      `json:"shrunk"`
}

// judge compares one executed case under a property. Returns nil if fine.
func judge(spec *propSpec, out *evalOutcome) *disagreement {
	c := out.c
	if c.Go == nil || out.model == nil {
		return nil
	}
	if spec.goPred != nil {
		if msg := spec.goPred(c, out); msg != "" {
			return &disagreement{Property: spec.id, Kind: "predicate", Message: msg, Case: c, Model: out.model}
		}
	}
	if c.Go.Outcome != "done" {
		// the real code did not return from this evaluation (panic, crash, hang) or used an option
		// that a later one overrides: there is nothing to compare the model's observation with, and
		// the model does evaluate this input — the correspondence is broken for every property
		// whose stream contains the case, not only for C01
		msg := c.Go.Panic
		if len(msg) > 300 {
			msg = msg[:300]
		}
		return &disagreement{Property: spec.id, Kind: "correspondence",
			Message: "the real code did not complete the evaluation (" + c.Go.Outcome + ": " + msg + ") where the model evaluates normally",
			GoProj:  c.Go.Outcome, ModProj: out.model.Outcome, Case: c, Model: out.model}
	}
	gp, mp := spec.proj(c.Go), spec.proj(out.model)
	if canon(gp) != canon(mp) {
		return &disagreement{Property: spec.id, Kind: "correspondence", Message: "the real code and the model differ on the property's observables",
			GoProj: gp, ModProj: mp, Case: c, Model: out.model}
	}
	return nil
}

type runTotals struct {
	evaluations int
	nontrivial  map[string]bool
	st          *stats
	samples     []any
	hErrs       []string
	dis         []*disagreement
}

func tierScale() int {
	if os.Getenv("VERIF_TIER") == "thorough" {
		return 10
	}
	return 1
}

func runStream(spec *propSpec, s stream, seed uint64, count int, tot *runTotals) {
	const batch = 3000
	base := newRng(seed ^ hashStr(spec.id+"/"+s.name))
	for start := 0; start < count; start += batch {
		n := batch
		if start+n > count {
			n = count - start
		}
		cases := make([]*EvalCase, n)
		for i := 0; i < n; i++ {
			cases[i] = genStream(s.name, base.fork(), fmt.Sprintf("%s/%s/%d/%d", spec.id, s.name, seed, start+i))
		}
		outs := runEvalBatch(cases)
		for i := range outs {
			tallyOutcome(spec, s.name, seed, &outs[i], tot)
		}
	}
}

func tallyOutcome(spec *propSpec, streamName string, seed uint64, o *evalOutcome, tot *runTotals) {
	tot.evaluations++
	if o.hErr != "" {
		if len(tot.hErrs) < 10 {
			tot.hErrs = append(tot.hErrs, o.c.ID+": "+o.hErr)
		}
		return
	}
	tot.st.add(streamName, o.c)
	if spec.nontrivial == nil || spec.nontrivial(o.c) {
		tot.nontrivial[caseHash(o.c)] = true
	}
	if len(tot.samples) < 3 && tot.evaluations%97 == 1 {
		tot.samples = append(tot.samples, sampleOf(o.c))
	}
	if d := judge(spec, o); d != nil {
		d.Stream, d.Seed = streamName, seed
		tot.dis = append(tot.dis, d)
	}
}

func sampleOf(c *EvalCase) any {
	return map[string]any{"id": c.ID, "flag": c.Flag, "context": c.Ctx, "store_flags": len(c.Store.Flags),
		"store_segments": len(c.Store.Segments), "go_result": c.Go.Result, "go_events": len(c.Go.Events), "go_logs": c.Go.Logs}
}

func hashStr(s string) uint64 {
	var h uint64 = 1469598103934665603
	for i := 0; i < len(s); i++ {
		h ^= uint64(s[i])
		h *= 1099511628211
	}
	return h
}

func loadCorpus(dir, prop string) []*EvalCase {
	out := []*EvalCase{}
	files, _ := filepath.Glob(filepath.Join(dir, "*.jsonl"))
	sort.Strings(files)
	for _, f := range files {
		base := filepath.Base(f)
		if !(strings.HasPrefix(base, "all") || strings.HasPrefix(base, prop)) {
			continue
		}
		fh, err := os.Open(f)
		if err != nil {
			continue
		}
		sc := bufio.NewScanner(fh)
		sc.Buffer(make([]byte, 1<<20), 64<<20)
		n := 0
		for sc.Scan() {
			line := strings.TrimSpace(sc.Text())
			if line == "" || strings.HasPrefix(line, "#") {
				continue
			}
			c := &EvalCase{}
			if err := json.Unmarshal([]byte(line), c); err != nil || c.Kind != "eval" {
				continue
			}
			c.Go = nil
			if c.ID == "" {
				c.ID = fmt.Sprintf("corpus/%s/%d", base, n)
			}
			n++
			out = append(out, c)
		}
		fh.Close()
	}
	return out
}

func checkMain(args []string) {
	fs := flag.NewFlagSet("check", flag.ExitOnError)
	prop := fs.String("prop", "", "property id")
	seedF := fs.Uint64("seed", 1, "seed")
	evOut := fs.String("evidence-out", "", "where to write the harness part of the evidence")
	replayDir := fs.String("replay-dir", "/verif/replays", "")
	corpusDir := fs.String("corpus", "/verif/corpus", "")
	knownF := fs.String("known", "/verif/KNOWN_FINDINGS.txt", "")
	fs.Parse(args)
	knownFindingsPath = *knownF
	start := time.Now()
	var frag map[string]any
	var nViol int
	if spec, ok := propSpecs[*prop]; ok {
		frag, nViol = checkEvalProp(spec, *seedF, *replayDir, *corpusDir)
	} else if fn, ok := specialChecks[*prop]; ok {
		frag, nViol = fn(*seedF, *replayDir, *corpusDir)
	} else {
		fatalf("no correspondence defined for property %s", *prop)
	}
	frag["wall_s"] = time.Since(start).Seconds()
	frag["violations"] = nViol
	frag["hooks_available"] = hooksAvailable
	if transientWorkerFailures > 0 {
		frag["transient_worker_failures_rerun_ok"] = transientWorkerFailures
	}
	if len(skippedHookStreams) > 0 {
		frag["hook_streams_skipped"] = skippedHookStreams
	}
	if *evOut != "" {
		b, _ := json.MarshalIndent(frag, "", " ")
		os.MkdirAll(filepath.Dir(*evOut), 0o755)
		if err := os.WriteFile(*evOut, b, 0o644); err != nil {
			fatalf("write evidence fragment: %v", err)
		}
	}
	if he, ok := frag["harness_errors"].([]string); ok && len(he) > 0 {
		fmt.Fprintf(os.Stderr, "HARNESS-ERROR: %d cases could not be judged, first: %s\n", len(he), he[0])
		os.Exit(2)
	}
	if nViol > 0 {
		os.Exit(1)
	}
}

func checkEvalProp(spec *propSpec, seed uint64, replayDir, corpusDir string) (map[string]any, int) {
	tot := &runTotals{nontrivial: map[string]bool{}, st: newStats()}
	// corpus first
	corpus := loadCorpus(corpusDir, spec.id)
	if len(corpus) > 0 {
		outs := runEvalBatch(corpus)
		for i := range outs {
			tallyOutcome(spec, "corpus", seed, &outs[i], tot)
		}
	}
	for _, s := range spec.streams {
		runStream(spec, s, seed, s.quick*tierScale(), tot)
	}
	nViol := reportDisagreements(spec, tot.dis, replayDir)
	frag := map[string]any{
		"evaluations": tot.evaluations, "distinct_nontrivial": len(tot.nontrivial), "rule": spec.rule,
		"samples": tot.samples, "distribution": tot.st.toMap(), "corpus_cases": len(corpus),
		"harness_errors": tot.hErrs, "disagreements": len(tot.dis),
	}
	if len(spec.units) > 0 {
		ut := newUnitTotals()
		runUnitStreams(spec.id, seed, spec.units, replayDir, ut)
		nViol += reportUnitDisagreements(spec.id, ut.dis, replayDir)
		frag["evaluations"] = tot.evaluations + ut.evaluations
		frag["distinct_nontrivial"] = len(tot.nontrivial) + len(ut.distinct)
		frag["x_unit_cases"] = ut.kinds
		frag["disagreements"] = len(tot.dis) + len(ut.dis)
		frag["harness_errors"] = append(tot.hErrs, ut.hErrs...)
		for _, sm := range ut.samples {
			if len(tot.samples) < 6 {
				tot.samples = append(tot.samples, sm)
			}
		}
		frag["samples"] = tot.samples
	}
	if spec.id == "C03" {
		// key lists on keys that are not valid UTF-8 (a relation between two runs of the real code)
		n, dis := byteKeyCheck(seed, 4000*tierScale())
		nViol += reportUnitDisagreements(spec.id, dis, replayDir)
		frag["x_byte_key_cases"] = n
		if ev, ok := frag["evaluations"].(int); ok {
			frag["evaluations"] = ev + n
		}
	}
	if spec.id == "C18" {
		// the same conversions in a 32-bit build of the library
		n, dis, note := arch32Check(seed, 20000*tierScale())
		nViol += reportUnitDisagreements(spec.id, dis, replayDir)
		frag["x_arch32_operands_compared"] = n
		if note != "" {
			frag["x_arch32_note"] = note
		}
		if ev, ok := frag["evaluations"].(int); ok {
			frag["evaluations"] = ev + n
		}
	}
	return frag, nViol
}

// reportDisagreements shrinks, writes replay files and prints VIOLATION lines.
func reportDisagreements(spec *propSpec, dis []*disagreement, replayDir string) int {
	if len(dis) == 0 {
		return 0
	}
	os.MkdirAll(replayDir, 0o755)
	// report at most 3 distinct ones (by message + projection shape), shrunk
	seen := map[string]bool{}
	n := 0
	for _, d := range dis {
		key := d.Kind + "|" + d.Message + "|" + canon(d.GoProj)
		if seen[key] {
			continue
		}
		seen[key] = true
		if n >= 3 {
			break
		}
		shrinkDisagreement(spec, d)
		path := filepath.Join(replayDir, fmt.Sprintf("%s-%s-%d.json", spec.id, d.Kind, n))
		d.Replay = fmt.Sprintf("./check %s --replay %s", spec.id, path)
		b, merr := json.MarshalIndent(d, "", " ")
		if merr != nil {
			// a detail that does not marshal (an embedded raw message that is not JSON): keep its text
			b, _ = json.MarshalIndent(map[string]any{"marshal_error": merr.Error(), "detail": fmt.Sprintf("%+v", d)}, "", " ")
		}
		os.WriteFile(path, b, 0o644)
		fmt.Printf("VIOLATION property=%s replay=%s\n", spec.id, path)
		fmt.Printf("  %s: %s\n  go=%s\n  model=%s\n", d.Kind, d.Message, canon(d.GoProj), canon(d.ModProj))
		n++
	}
	fmt.Printf("  (%d disagreeing cases in total)\n", len(dis))
	return n
}

// reportUnitDisagreements writes replay files and prints VIOLATION lines for unit/relation cases.
func reportUnitDisagreements(pid string, dis []map[string]any, replayDir string) int {
	if len(dis) == 0 {
		return 0
	}
	os.MkdirAll(replayDir, 0o755)
	seen := map[string]bool{}
	n := 0
	for _, d := range dis {
		key := fmt.Sprint(d["kind"], "|", d["stream"], "|", d["message"])
		if seen[key] || n >= 3 {
			continue
		}
		seen[key] = true
		path := filepath.Join(replayDir, fmt.Sprintf("%s-%s-%s-%d.json", pid, d["kind"], d["stream"], n))
		d["replay_cmd"] = fmt.Sprintf("./check %s --replay %s", pid, path)
		b, merr := json.MarshalIndent(d, "", " ")
		if merr != nil {
			// a detail that does not marshal (an embedded raw message that is not JSON): keep its text
			b, _ = json.MarshalIndent(map[string]any{"marshal_error": merr.Error(), "detail": fmt.Sprintf("%+v", d)}, "", " ")
		}
		os.WriteFile(path, b, 0o644)
		fmt.Printf("VIOLATION property=%s replay=%s\n  %s (%s): %s\n", pid, path, d["kind"], d["stream"], d["message"])
		if g, ok := d["go"]; ok {
			gs, ms := canon(g), canon(d["model_out"])
			if len(gs) > 600 {
				gs = gs[:600] + "…"
			}
			if len(ms) > 600 {
				ms = ms[:600] + "…"
			}
			fmt.Printf("  go=%s\n  model=%s\n", gs, ms)
		}
		n++
	}
	fmt.Printf("  (%d disagreeing cases in total)\n", len(dis))
	return n
}

func replayMain(args []string) {
	fs := flag.NewFlagSet("replay", flag.ExitOnError)
	prop := fs.String("prop", "", "property id")
	file := fs.String("file", "", "replay file")
	fs.Parse(args)
	b, err := os.ReadFile(*file)
	if err != nil {
		fatalf("read replay: %v", err)
	}
	if fn, ok := specialReplays[*prop]; ok {
		os.Exit(fn(b, *file))
	}
	var head struct {
		Case struct {
			Kind string `json:"kind"`
		} `json:"case"`
	}
	_ = json.Unmarshal(b, &head)
	if head.Case.Kind != "" && head.Case.Kind != "eval" {
		var ud struct {
			Case *UnitCase `json:"case"`
		}
		if err := json.Unmarshal(b, &ud); err != nil || ud.Case == nil {
			fatalf("replay file unreadable: %v", err)
		}
		ud.Case.Go = nil
		outs := runUnitBatch([]*UnitCase{ud.Case})
		if outs[0].hErr != "" {
			fatalf("%s", outs[0].hErr)
		}
		if ok, gs, ms := unitAgree(&outs[0]); !ok {
			fmt.Printf("VIOLATION property=%s replay=%s\n  go=%s\n  model=%s\n", *prop, *file, gs, ms)
			os.Exit(1)
		}
		fmt.Printf("replay of %s: real code and model agree on the current tree\n", *file)
		return
	}
	var d disagreement
	if err := json.Unmarshal(b, &d); err != nil || d.Case == nil {
		fatalf("replay file is not an evaluation disagreement: %v", err)
	}
	spec, ok := propSpecs[*prop]
	if !ok {
		fatalf("no correspondence for %s", *prop)
	}
	d.Case.Go = nil
	outs := runEvalBatch([]*EvalCase{d.Case})
	if outs[0].hErr != "" {
		fatalf("%s", outs[0].hErr)
	}
	if nd := judge(spec, &outs[0]); nd != nil {
		fmt.Printf("VIOLATION property=%s replay=%s\n  %s: %s\n  go=%s\n  model=%s\n", spec.id, *file, nd.Kind, nd.Message, canon(nd.GoProj), canon(nd.ModProj))
		os.Exit(1)
	}
	fmt.Printf("replay of %s: the property's observables agree on the current tree\n", *file)
}

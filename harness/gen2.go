package main

// Special streams: reference graphs by shape, operator probes, rollouts with split points placed
// next to the context's bucket.

import (
	"fmt"
	"math"
	"os"
	"sort"
	"strings"

	"github.com/launchdarkly/go-sdk-common/v3/ldattr"
	"github.com/launchdarkly/go-sdk-common/v3/ldcontext"
	"github.com/launchdarkly/go-sdk-common/v3/ldvalue"
)

func simpleFlag(key string, on bool, serve int, nVars int) WFlag {
	f := WFlag{Key: key, On: on, Form: "pre", Off: ip(0), Salt: "s",
		Prereqs: []WPrereq{}, Targets: []WTarget{}, CTargets: []WTarget{}, Rules: []WFlagRule{}, Vars: []JV{},
		FT: WVR{V: ip(serve), RO: WRollout{Vars: []WWV{}, By: mkRef("", "")}}}
	for i := 0; i < nVars; i++ {
		f.Vars = append(f.Vars, jStr(fmt.Sprintf("v%d", i)))
	}
	f.Meta.Debug = "0"
	f.Meta.CSA.Mobile = true
	return f
}

func simpleSegment(key string) WSegment {
	return WSegment{Key: key, Form: "pre", Salt: "s", Inc: []string{}, Exc: []string{}, IncC: []WSegTarget{}, ExcC: []WSegTarget{}, Rules: []WSegRule{}}
}

func segRefRule(keys ...string) WSegRule {
	c := WClause{Op: "segmentMatch", Attr: mkRef("", ""), Vals: []JV{}}
	for _, k := range keys {
		c.Vals = append(c.Vals, jStr(k))
	}
	return WSegRule{ID: "r", Clauses: []WClause{c}, By: mkRef("", "")}
}

// graphCase builds prerequisite and segment reference graphs by shape.
func (g *gen) graphCase(id string) *EvalCase {
	r := g.r
	c := &EvalCase{ID: id, Kind: "eval", Opts: WOpts{Log: r.chance(3, 4), Rec: !r.chance(1, 8)}}
	sc := WSCtx{Kind: "user", Key: "u", Attrs: []WAttr{}}
	c.Ctx = WCtx{T: "single", C: &sc}
	c.Store.Flags, c.Store.Segments = []WFlag{}, []WSegment{}
	top := simpleFlag("top", true, 0, 2)
	depthPool := []int{1, 2, 3, 5, 18, 19, 20, 21, 22, 25, 40, 60}
	fk := func(i int) string { return fmt.Sprintf("g%d", i) }
	sk := func(i int) string { return fmt.Sprintf("sg%d", i) }
	shape := r.intn(16)
	tag := ""
	switch shape {
	case 0, 1: // chain of prerequisites, all met, optionally the last one unmet/off/missing
		d := pick(r, depthPool)
		tag = fmt.Sprintf("prereq-chain-%d", d)
		top.Prereqs = []WPrereq{{fk(0), 0}}
		for i := 0; i < d; i++ {
			f := simpleFlag(fk(i), true, 0, 2)
			if i+1 < d {
				f.Prereqs = []WPrereq{{fk(i + 1), 0}}
			} else {
				switch r.intn(4) {
				case 0:
					f.On = false
				case 1:
					f.FT.V = ip(1)
				case 2:
					f.Prereqs = []WPrereq{{"missing", 0}}
				}
			}
			c.Store.Flags = append(c.Store.Flags, f)
		}
	case 2: // prerequisite cycle of length k entered after a lead-in chain of length l
		k := pick(r, []int{1, 2, 3, 5, 19, 20, 21, 25})
		l := pick(r, []int{0, 1, 2, 18, 19, 20, 21})
		tag = fmt.Sprintf("prereq-cycle-%d-after-%d", k, l)
		top.Prereqs = []WPrereq{{fk(0), 0}}
		n := l + k
		for i := 0; i < n; i++ {
			f := simpleFlag(fk(i), true, 0, 2)
			next := i + 1
			if i == n-1 {
				next = l // back edge to the start of the cycle
			}
			f.Prereqs = []WPrereq{{fk(next), 0}}
			c.Store.Flags = append(c.Store.Flags, f)
		}
		if r.chance(1, 4) { // cycle through the top flag itself
			c.Store.Flags[n-1].Prereqs = []WPrereq{{"top", 0}}
			tag += "-via-top"
		}
		if r.chance(1, 4) { // make the cycle unreachable: a flag before it is off / unmet
			j := r.intn(n)
			c.Store.Flags[j].On = false
			tag += "-cut"
		}
	case 12, 13: // below a lead-in chain, a flag whose first prerequisite walks through segments and whose second shares a key with one of them
		l := pick(r, []int{0, 1, 17, 18, 19, 20, 21, 25, 30})
		tag = fmt.Sprintf("prereq-then-segments-after-%d", l)
		top.Prereqs = []WPrereq{{fk(0), 0}}
		for i := 0; i < l; i++ {
			f := simpleFlag(fk(i), true, 0, 2)
			f.Prereqs = []WPrereq{{fk(i + 1), 0}}
			c.Store.Flags = append(c.Store.Flags, f)
		}
		shared := pick(r, []string{"beta-testers", sk(0), "gate"})
		deep := simpleFlag(fk(l), true, 0, 2)
		deep.Prereqs = []WPrereq{{"gate", 0}, {shared, 0}}
		gate := simpleFlag("gate", true, 0, 2)
		gate.Rules = []WFlagRule{{ID: "g", VR: WVR{V: ip(0), RO: WRollout{Vars: []WWV{}, By: mkRef("", "")}},
			Clauses: []WClause{segRefRule(shared, sk(1)).Clauses[0]}}}
		sameKey := simpleFlag(shared, true, 0, 2)
		if shared == "gate" {
			sameKey = gate
		}
		if r.chance(1, 3) {
			sameKey.Prereqs = []WPrereq{{fk(l), 0}} // a real cycle back to the deep flag
		}
		s0 := simpleSegment(shared)
		s0.Rules = []WSegRule{segRefRule(sk(1))}
		s1 := simpleSegment(sk(1))
		if r.bool() {
			s1.Inc = []string{"a", "b"}
		}
		c.Store.Flags = append(c.Store.Flags, deep, gate)
		if shared != "gate" {
			c.Store.Flags = append(c.Store.Flags, sameKey)
		}
		c.Store.Segments = append(c.Store.Segments, s0, s1)
	case 3, 4: // diamond below a lead-in chain: a and b both require c
		l := pick(r, []int{0, 1, 17, 18, 19, 20, 21, 30})
		tag = fmt.Sprintf("prereq-diamond-after-%d", l)
		top.Prereqs = []WPrereq{{fk(0), 0}}
		for i := 0; i < l; i++ {
			f := simpleFlag(fk(i), true, 0, 2)
			f.Prereqs = []WPrereq{{fk(i + 1), 0}}
			c.Store.Flags = append(c.Store.Flags, f)
		}
		root := simpleFlag(fk(l), true, 0, 2)
		root.Prereqs = []WPrereq{{"da", 0}, {"db", 0}}
		a := simpleFlag("da", true, 0, 2)
		a.Prereqs = []WPrereq{{"dc", 0}}
		b := simpleFlag("db", true, 0, 2)
		b.Prereqs = []WPrereq{{"dc", 0}, {"da", 0}}
		cc := simpleFlag("dc", true, 0, 2)
		if r.chance(1, 3) {
			cc.Prereqs = []WPrereq{{"dd", 0}}
			c.Store.Flags = append(c.Store.Flags, simpleFlag("dd", true, 0, 2))
		}
		c.Store.Flags = append(c.Store.Flags, root, a, b, cc)
	case 5: // fan-out with shared sub-prerequisites and one failure in the middle
		tag = "prereq-fanout"
		n := 2 + r.intn(4)
		for i := 0; i < n; i++ {
			top.Prereqs = append(top.Prereqs, WPrereq{fk(i % 3), 0})
			f := simpleFlag(fk(i), true, 0, 2)
			if r.chance(1, 3) {
				f.FT.V = ip(1)
			}
			if i+1 < n {
				f.Prereqs = []WPrereq{{fk(i + 1), r.intn(2)}}
			}
			c.Store.Flags = append(c.Store.Flags, f)
		}
	case 6, 7: // chain of nested segments
		d := pick(r, depthPool)
		tag = fmt.Sprintf("segment-chain-%d", d)
		top.Rules = []WFlagRule{{ID: "r", VR: WVR{V: ip(1), RO: WRollout{Vars: []WWV{}, By: mkRef("", "")}},
			Clauses: []WClause{segRefRule(sk(0)).Clauses[0]}}}
		for i := 0; i < d; i++ {
			s := simpleSegment(sk(i))
			if i+1 < d {
				s.Rules = []WSegRule{segRefRule(sk(i + 1))}
			} else if r.bool() {
				s.Inc = []string{"u"}
			}
			c.Store.Segments = append(c.Store.Segments, s)
		}
	case 8: // segment cycle of length k after lead-in l
		k := pick(r, []int{1, 2, 3, 19, 20, 21, 25})
		l := pick(r, []int{0, 1, 18, 19, 20, 21})
		tag = fmt.Sprintf("segment-cycle-%d-after-%d", k, l)
		top.Rules = []WFlagRule{{ID: "r", VR: WVR{V: ip(1), RO: WRollout{Vars: []WWV{}, By: mkRef("", "")}},
			Clauses: []WClause{segRefRule(sk(0)).Clauses[0]}}}
		n := l + k
		for i := 0; i < n; i++ {
			s := simpleSegment(sk(i))
			next := i + 1
			if i == n-1 {
				next = l
			}
			s.Rules = []WSegRule{segRefRule(sk(next))}
			c.Store.Segments = append(c.Store.Segments, s)
		}
		if r.chance(1, 4) {
			c.Store.Segments[r.intn(n)].Inc = []string{"u"} // membership decided before the cycle
			tag += "-cut"
		}
	case 9, 10: // segment diamond after lead-in
		l := pick(r, []int{0, 1, 18, 19, 20, 21, 30})
		tag = fmt.Sprintf("segment-diamond-after-%d", l)
		top.Rules = []WFlagRule{{ID: "r", VR: WVR{V: ip(1), RO: WRollout{Vars: []WWV{}, By: mkRef("", "")}},
			Clauses: []WClause{segRefRule(sk(0)).Clauses[0]}}}
		for i := 0; i < l; i++ {
			s := simpleSegment(sk(i))
			s.Rules = []WSegRule{segRefRule(sk(i + 1))}
			c.Store.Segments = append(c.Store.Segments, s)
		}
		root := simpleSegment(sk(l))
		root.Rules = []WSegRule{segRefRule("xa", "xb"), segRefRule("xb")}
		a := simpleSegment("xa")
		a.Rules = []WSegRule{segRefRule("xc")}
		b := simpleSegment("xb")
		b.Rules = []WSegRule{segRefRule("xc", "xa")}
		cc := simpleSegment("xc")
		if r.bool() {
			cc.Inc = []string{"u"}
		}
		c.Store.Segments = append(c.Store.Segments, root, a, b, cc)
	case 14, 15: // a deep prerequisite chain whose bottom flag walks a deep segment chain; the nodes are
		// ordinary generated flags (targets, rules, rollouts) and the context a generated one
		d1, d2 := pick(r, depthPool), pick(r, depthPool)
		tag = fmt.Sprintf("prereq-chain-%d-into-segment-chain-%d", d1, d2)
		gg := &gen{r: r.fork(), p: profiles["wellformed"]}
		c.Ctx = gg.context()
		if c.Ctx.T == "invalid" {
			c.Ctx = WCtx{T: "single", C: &sc}
		}
		gg.ctxKeys = ctxKeysOf(&c.Ctx)
		top.Prereqs = []WPrereq{{fk(0), 0}}
		for i := 0; i < d1; i++ {
			f := gg.flag(fk(i), nil, nil)
			f.On, f.Prereqs, f.Targets, f.CTargets = true, []WPrereq{}, []WTarget{}, []WTarget{}
			// whatever the node's own rules do, it serves variation 0 when nothing matches
			f.Vars = []JV{jStr("v0"), jStr("v1"), jStr("v2"), jStr("v3")}
			f.FT = WVR{V: ip(0), RO: WRollout{Vars: []WWV{}, By: mkRef("", "")}}
			if i+1 < d1 {
				f.Prereqs = []WPrereq{{fk(i + 1), 0}}
			} else {
				f.Rules = append([]WFlagRule{{ID: "into-segments", VR: WVR{V: ip(0), RO: WRollout{Vars: []WWV{}, By: mkRef("", "")}},
					Clauses: segRefRule(sk(0)).Clauses}}, f.Rules...)
			}
			c.Store.Flags = append(c.Store.Flags, f)
		}
		for i := 0; i < d2; i++ {
			sg := simpleSegment(sk(i))
			if i+1 < d2 {
				sg.Rules = []WSegRule{segRefRule(sk(i + 1))}
			} else if r.bool() {
				sg.Rules = []WSegRule{{ID: "all", Clauses: []WClause{}, By: mkRef("", "")}}
			} else if r.bool() {
				sg.Rules = []WSegRule{segRefRule(sk(0))} // closes a cycle at the bottom
			}
			c.Store.Segments = append(c.Store.Segments, sg)
		}
	default: // prerequisite whose rule consults a segment cycle; and a malformed prerequisite
		tag = "mixed"
		top.Prereqs = []WPrereq{{fk(0), 0}, {fk(1), 0}}
		f0 := simpleFlag(fk(0), true, 0, 2)
		f1 := simpleFlag(fk(1), true, 0, 2)
		f1.Rules = []WFlagRule{{ID: "r", VR: WVR{V: ip(0), RO: WRollout{Vars: []WWV{}, By: mkRef("", "")}},
			Clauses: []WClause{segRefRule(sk(0)).Clauses[0]}}}
		s0 := simpleSegment(sk(0))
		s0.Rules = []WSegRule{segRefRule(sk(1))}
		s1 := simpleSegment(sk(1))
		if r.bool() {
			s1.Rules = []WSegRule{segRefRule(sk(0))}
		}
		if r.chance(1, 3) {
			f0.FT.V = ip(7) // bad variation in a prerequisite: recorded, prerequisite unmet
		}
		c.Store.Flags = append(c.Store.Flags, f0, f1)
		c.Store.Segments = append(c.Store.Segments, s0, s1)
	}
	if strings.Contains(tag, "-via-top") {
		// the evaluated flag is also what the store returns for its key: a cycle through it
		c.Store.Flags = append(c.Store.Flags, top)
	}
	if len(c.Store.Segments) > 0 && r.chance(1, 3) {
		// some or all of the segments are big segments whose membership the store does not decide
		// (no entry for the segment, or no membership at all): their rules are consulted like those
		// of any other segment, so chains, diamonds and cycles run through them just the same
		all := r.bool()
		for i := range c.Store.Segments {
			if all || r.bool() {
				s := &c.Store.Segments[i]
				s.Unb, s.UnbK, s.Gen = true, pick(r, []string{"", "user"}), ip(1+r.intn(2))
			}
		}
		ans := WBSAnswer{St: pick(r, []string{"HEALTHY", "HEALTHY", "STALE"})}
		if r.bool() {
			ans.M = []WMember{} // a membership that says nothing about any segment
		}
		c.BS = &WBS{Dflt: ans, Table: []WBSEntry{}}
		tag += "-bigseg"
	}
	c.Flag = top
	c.Tags = []string{tag}
	return c
}

// operatorCase: a one-rule probe flag around one clause.
func (g *gen) operatorCase(id string) *EvalCase {
	r := g.r
	c := &EvalCase{ID: id, Kind: "eval", Opts: WOpts{Log: true, Rec: true}}
	c.Store.Flags, c.Store.Segments = []WFlag{}, []WSegment{}
	op := pick(r, operatorPool)
	if r.chance(1, 20) {
		op = pick(r, []string{"", "unknown", "In"})
	}
	if len(g.forceOps) > 0 {
		op = pick(r, g.forceOps)
	}
	// value pairs biased toward the operator's own domain so that it is frequently satisfied
	var pool []JV
	switch op {
	case "before", "after":
		for _, s := range dateStrs {
			pool = append(pool, jStr(s))
		}
		for _, n := range dateNums {
			pool = append(pool, jNum(n))
		}
	case "semVerEqual", "semVerLessThan", "semVerGreaterThan":
		for _, s := range verStrs {
			pool = append(pool, jStr(s))
		}
	case "matches":
		for _, s := range regexStrs {
			pool = append(pool, jStr(s))
		}
		for _, s := range plainStrs {
			pool = append(pool, jStr(s))
		}
	case "lessThan", "lessThanOrEqual", "greaterThan", "greaterThanOrEqual":
		for _, n := range numPool {
			pool = append(pool, jNum(n))
		}
	default:
		for _, s := range plainStrs {
			pool = append(pool, jStr(s))
		}
		for _, n := range numPool[:6] {
			pool = append(pool, jNum(n))
		}
		pool = append(pool, jBool(true), jBool(false))
	}
	val := func() JV {
		if r.chance(1, 6) {
			return g.value(0)
		}
		return pick(r, pool)
	}
	attrName := pick(r, []string{"a", "b", "/a~b", "a/b"})
	ck := pick(r, []string{"", "", "user", "org"})
	cl := WClause{CK: ck, Op: op, Neg: r.chance(1, 3), Vals: []JV{}}
	switch {
	case r.chance(1, 25):
		cl.Attr = g.refMal()
	case ck == "":
		cl.Attr = mkRef("lit", attrName)
	case r.chance(1, 3):
		cl.Attr = mkRef("ref", "/obj/"+attrName)
	default:
		cl.Attr = mkRef("ref", "/"+escapeRef(attrName))
	}
	for i, n := 0, 1+r.intn(3); i < n; i++ {
		cl.Vals = append(cl.Vals, val())
	}
	if r.chance(1, 15) {
		cl.Vals = []JV{}
	}
	// context
	mk := func(kind string) WSCtx {
		s := WSCtx{Kind: kind, Key: pick(r, []string{"a", "b", "abc"}), Attrs: []WAttr{}}
		if r.chance(5, 6) {
			v := val()
			if r.chance(1, 4) { // array attribute
				v = jArr(val(), val())
				if r.chance(1, 5) {
					v = jArr()
				}
			}
			if v.K != 'z' {
				s.Attrs = append(s.Attrs, WAttr{attrName, v})
				s.Attrs = append(s.Attrs, WAttr{"obj", jObj(KV{attrName, v})})
			}
		}
		return s
	}
	if r.chance(1, 3) {
		c.Ctx = WCtx{T: "multi", Cs: []WSCtx{mk("org"), mk("user")}}
	} else {
		s := mk(pick(r, []string{"user", "user", "org"}))
		c.Ctx = WCtx{T: "single", C: &s}
	}
	if r.chance(1, 12) { // kind clause
		cl.Attr = mkRef("lit", "kind")
		cl.Vals = []JV{jStr(pick(r, []string{"user", "org", "multi", "us", "^o"}))}
	}
	if r.chance(1, 12) { // built-in attributes
		nm := pick(r, []string{"key", "name", "anonymous"})
		if ck == "" {
			cl.Attr = mkRef("lit", nm)
		} else {
			cl.Attr = mkRef("ref", "/"+nm)
		}
	}
	f := simpleFlag("probe", true, 0, 2)
	f.Form = pick(r, handForms)
	f.Rules = []WFlagRule{{ID: "probe-rule", VR: WVR{V: ip(1), RO: WRollout{Vars: []WWV{}, By: mkRef("", "")}}, Clauses: []WClause{cl}}}
	c.Flag = f
	c.Tags = []string{"op:" + op}
	return c
}

func escapeRef(s string) string {
	out := ""
	for _, ch := range s {
		switch ch {
		case '~':
			out += "~0"
		case '/':
			out += "~1"
		default:
			out += string(ch)
		}
	}
	return out
}

func (g *gen) refMal() WRef {
	switch g.r.intn(4) {
	case 0:
		return mkRef("", "")
	case 1:
		return mkRef("ref", pick(g.r, []string{"/", "//", "/a//b", "/a~2", "/a~", "/a/"}))
	case 2:
		return mkRef("ref", "")
	}
	return mkRef("lit", "")
}

// aliasEnabled: set VERIF_NO_ALIAS=1 to generate only key-consistent stores.
var aliasEnabled = os.Getenv("VERIF_NO_ALIAS") == ""

// bucketOf asks the real code (through the hook) for the context's bucket; used only to *place*
// split points, never as an expected value.
func bucketOf(sec bool, ctx ldcontext.Context, isExp bool, seed *int, ck, key string, by ldattr.Ref, salt string) float64 {
	defer func() { recover() }()
	v, _, err := hookComputeBucketValue(sec, ctx, isExp, func() ldvalue.OptionalInt { return optInt(seed) }(), ldcontext.Kind(ck), key, by, salt)
	if err != nil {
		return 0
	}
	return float64(v)
}

// wideCase: one list of the configuration blown up far beyond the sizes the other streams use (a
// fast path that exists only above some size, a fixed-size scratch table, an index kept in a narrow
// integer), with the element that decides the outcome placed first, last, or nowhere.
func (g *gen) wideCase(id string) *EvalCase {
	r := g.r
	c := &EvalCase{ID: id, Kind: "eval", Opts: WOpts{Log: true, Rec: true}}
	c.Store.Flags, c.Store.Segments = []WFlag{}, []WSegment{}
	sc := g.sctx("user")
	sc.Sec, sc.Legacy = nil, false
	sc.Key = "the-key"
	c.Ctx = WCtx{T: "single", C: &sc}
	if r.chance(1, 4) {
		c.Ctx = WCtx{T: "multi", Cs: []WSCtx{sc, g.sctx("org")}}
	}
	n := pick(r, []int{8, 9, 16, 17, 32, 33, 63, 64, 65, 127, 128, 129, 255, 256, 257, 512, 1024, 1025, 4096, 5000})
	pos := pick(r, []int{0, n - 1, n / 2, -1}) // where the deciding element sits; -1 = absent
	f := simpleFlag("wide", true, 0, 3)
	f.Form = pick(r, []string{"pre", "plain", "json", "builder"})
	keys := func() []string {
		out := make([]string, n)
		for i := range out {
			out[i] = fmt.Sprintf("k%05d", i)
		}
		if pos >= 0 {
			out[pos] = sc.Key
		}
		return out
	}
	switch r.intn(15) {
	case 7: // an array attribute with many elements, the one that satisfies the clause at pos
		m := n
		if m > 257 {
			m = 257
		}
		arr := make([]JV, m)
		for i := range arr {
			arr[i] = jStr(fmt.Sprintf("e%05d", i))
		}
		p := pos
		if p >= m {
			p = m - 1
		}
		if p >= 0 {
			arr[p] = jStr("wanted")
		}
		sc.Attrs = append(sc.Attrs, WAttr{"arr", JV{K: 'a', A: arr}})
		c.Ctx = WCtx{T: "single", C: &sc}
		f.Rules = []WFlagRule{{ID: "wide-array", Clauses: []WClause{{Attr: mkRef("lit", "arr"), Op: pick(r, []string{"in", "endsWith", "matches"}), Vals: []JV{jStr("x"), jStr("wanted")}, Neg: r.chance(1, 6)}},
			VR: WVR{V: ip(1), RO: WRollout{Vars: []WWV{}, By: mkRef("", "")}}}}
	case 8: // one segmentMatch clause naming many segments, the one containing the context at pos
		m := n
		if m > 129 {
			m = 129
		}
		vals := []JV{}
		for i := 0; i < m; i++ {
			sg := simpleSegment(fmt.Sprintf("ws%04d", i))
			if i == pos || (pos >= m && i == m-1) {
				sg.Inc = []string{sc.Key}
			}
			if i%3 == 0 {
				continue // named but not in the store
			}
			c.Store.Segments = append(c.Store.Segments, sg)
			vals = append(vals, jStr(sg.Key))
		}
		f.Rules = []WFlagRule{{ID: "wide-segments", Clauses: []WClause{{Attr: mkRef("", ""), Op: "segmentMatch", Vals: vals}},
			VR: WVR{V: ip(1), RO: WRollout{Vars: []WWV{}, By: mkRef("", "")}}}}
	case 9: // many clauses in one rule (all must hold), the failing one at pos
		m := n
		if m > 129 {
			m = 129
		}
		cls := []WClause{}
		for i := 0; i < m; i++ {
			cl := WClause{Attr: mkRef("lit", "key"), Op: "in", Vals: []JV{jStr(sc.Key)}}
			if i == pos {
				cl.Vals = []JV{jStr("someone-else")}
			}
			cls = append(cls, cl)
		}
		f.Rules = []WFlagRule{{ID: "wide-clauses", Clauses: cls, VR: WVR{V: ip(1), RO: WRollout{Vars: []WWV{}, By: mkRef("", "")}}}}
	case 10: // many segment rules, the matching one at pos
		m := n
		if m > 257 {
			m = 257
		}
		sg := simpleSegment("wide-rules")
		sg.Form = pick(r, handForms)
		for i := 0; i < m; i++ {
			k := fmt.Sprintf("k%05d", i)
			if i == pos || (pos >= m && i == m-1) {
				k = sc.Key
			}
			sg.Rules = append(sg.Rules, WSegRule{ID: fmt.Sprintf("sr%d", i), Clauses: []WClause{{Attr: mkRef("lit", "key"), Op: "in", Vals: []JV{jStr(k)}}}, By: mkRef("", "")})
		}
		c.Store.Segments = []WSegment{sg}
		f.Rules = []WFlagRule{{ID: "in-seg", Clauses: []WClause{{Attr: mkRef("", ""), Op: "segmentMatch", Vals: []JV{jStr(sg.Key)}}},
			VR: WVR{V: ip(1), RO: WRollout{Vars: []WWV{}, By: mkRef("", "")}}}}
	case 11: // many per-kind lists in a segment / many context target lists, the holding one at pos
		m := n
		if m > 129 {
			m = 129
		}
		mk := func(i int) []string {
			if i == pos || (pos >= m && i == m-1) {
				return []string{"x", sc.Key}
			}
			return []string{fmt.Sprintf("k%05d", i)}
		}
		if r.bool() {
			sg := simpleSegment("wide-lists")
			sg.Form = pick(r, handForms)
			for i := 0; i < m; i++ {
				t := WSegTarget{CK: pick(r, []string{"org", "device", "other"}), Vals: mk(i)}
				if i == pos || (pos >= m && i == m-1) {
					t.CK = "org"
				}
				if r.bool() {
					sg.IncC = append(sg.IncC, t)
				} else {
					sg.ExcC = append(sg.ExcC, t)
				}
			}
			sg.Rules = []WSegRule{{ID: "all", Clauses: []WClause{}, By: mkRef("", "")}}
			c.Store.Segments = []WSegment{sg}
			c.Ctx = WCtx{T: "multi", Cs: []WSCtx{sc, {Kind: "org", Key: sc.Key, Attrs: []WAttr{}}}}
			f.Rules = []WFlagRule{{ID: "in-seg", Clauses: []WClause{{Attr: mkRef("", ""), Op: "segmentMatch", Vals: []JV{jStr(sg.Key)}}},
				VR: WVR{V: ip(1), RO: WRollout{Vars: []WWV{}, By: mkRef("", "")}}}}
		} else {
			for i := 0; i < m; i++ {
				f.CTargets = append(f.CTargets, WTarget{CK: pick(r, []string{"org", "device", "user"}), Vals: mk(i), V: i % 3})
			}
		}
	case 12: // many legacy target lists behind one user placeholder
		m := n
		if m > 129 {
			m = 129
		}
		for i := 0; i < m; i++ {
			vals := []string{fmt.Sprintf("k%05d", i)}
			if i == pos || (pos >= m && i == m-1) {
				vals = append(vals, sc.Key)
			}
			f.Targets = append(f.Targets, WTarget{Vals: vals, V: i % 3})
			if r.chance(1, 3) {
				f.CTargets = append(f.CTargets, WTarget{CK: "user", Vals: []string{}, V: i % 3})
			}
		}
	case 13: // a context with many attributes, the referenced one last
		m := n
		if m > 257 {
			m = 257
		}
		for i := 0; i < m; i++ {
			sc.Attrs = append(sc.Attrs, WAttr{fmt.Sprintf("x%04d", i), jNum(float64(i))})
		}
		sc.Attrs = append(sc.Attrs, WAttr{"wanted", jStr("yes")})
		c.Ctx = WCtx{T: "single", C: &sc}
		f.Rules = []WFlagRule{{ID: "wide-attrs", Clauses: []WClause{{Attr: mkRef("lit", "wanted"), Op: "in", Vals: []JV{jStr("yes")}}},
			VR: WVR{V: ip(1), RO: WRollout{Vars: []WWV{}, By: mkRef("", "")}}}}
	case 14: // a long rollout reached with a bucket-by attribute whose rendering is long
		sc.Attrs = append(sc.Attrs, WAttr{"bk", jStr(strings.Repeat("b", n))})
		c.Ctx = WCtx{T: "single", C: &sc}
		ro := WRollout{Vars: []WWV{{V: 0, W: 50000}, {V: 1, W: 50000}}, By: mkRef("lit", "bk")}
		f.FT = WVR{RO: ro}
	case 0: // clause values
		vals := make([]JV, n)
		for i := range vals {
			switch r.intn(4) {
			case 0:
				vals[i] = jNum(float64(i))
			case 1:
				vals[i] = jBool(i%2 == 0)
			default:
				vals[i] = jStr(fmt.Sprintf("v%05d", i))
			}
		}
		if r.chance(1, 5) {
			vals[r.intn(n)] = jObj(KV{"not", jStr("primitive")}) // spoils the equality table
		}
		if pos >= 0 {
			vals[pos] = jStr(sc.Key)
		}
		op := pick(r, []string{"in", "in", "startsWith", "matches", "contains"})
		f.Rules = []WFlagRule{{ID: "wide-values", Clauses: []WClause{{Attr: mkRef("lit", "key"), Op: op, Vals: vals, Neg: r.chance(1, 5)}},
			VR: WVR{V: ip(1), RO: WRollout{Vars: []WWV{}, By: mkRef("", "")}}}}
	case 1: // target keys
		f.Targets = []WTarget{{Vals: keys(), V: 1}}
		if r.bool() {
			f.CTargets = []WTarget{{CK: "org", Vals: []string{"nobody"}, V: 2}, {CK: "user", Vals: []string{}, V: 1}}
		}
	case 2: // many rules: the matching one far down (rule index beyond one digit / one byte)
		for i := 0; i < n; i++ {
			k := fmt.Sprintf("k%05d", i)
			if i == pos {
				k = sc.Key
			}
			f.Rules = append(f.Rules, WFlagRule{ID: fmt.Sprintf("r%d", i), Clauses: []WClause{{Attr: mkRef("lit", "key"), Op: "in", Vals: []JV{jStr(k)}}},
				VR: WVR{V: ip(i % 3), RO: WRollout{Vars: []WWV{}, By: mkRef("", "")}}})
		}
	case 3: // many buckets
		ro := WRollout{Vars: []WWV{}, By: mkRef("", "")}
		rest := 100000
		for i := 0; i < n; i++ {
			w := rest / (n - i)
			if i == n-1 {
				w = rest
			}
			ro.Vars = append(ro.Vars, WWV{V: i % 3, W: w, U: r.chance(1, 9)})
			rest -= w
		}
		if r.chance(1, 3) {
			ro.Kind = "experiment"
		}
		f.FT = WVR{RO: ro}
	case 4: // many variations, index far out
		f.Vars = []JV{}
		for i := 0; i < n; i++ {
			f.Vars = append(f.Vars, jStr(fmt.Sprintf("var%d", i)))
		}
		idx := n - 1
		if pos < 0 {
			idx = n // one past the end
		}
		f.FT = WVR{V: ip(idx), RO: WRollout{Vars: []WWV{}, By: mkRef("", "")}}
		f.Off = ip(n / 2)
	case 5: // many prerequisites: the unmet one far down
		lim := n
		if lim > 65 {
			lim = 65
		}
		for i := 0; i < lim; i++ {
			pf := simpleFlag(fmt.Sprintf("p%04d", i), true, 1, 2)
			if i == pos || (pos >= lim && i == lim-1) {
				pf.FT = WVR{V: ip(0), RO: WRollout{Vars: []WWV{}, By: mkRef("", "")}}
			}
			c.Store.Flags = append(c.Store.Flags, pf)
			f.Prereqs = append(f.Prereqs, WPrereq{pf.Key, 1})
		}
	default: // segment lists
		s := simpleSegment("wide-seg")
		s.Form = pick(r, handForms)
		switch r.intn(3) {
		case 0:
			s.Inc = keys()
		case 1:
			s.Exc = keys()
			s.Rules = []WSegRule{{ID: "all", Clauses: []WClause{}, By: mkRef("", "")}}
		default:
			s.IncC = []WSegTarget{{CK: "org", Vals: keys()}}
			if c.Ctx.T == "multi" {
				c.Ctx.Cs[1].Key = sc.Key
			}
		}
		c.Store.Segments = []WSegment{s}
		f.Rules = []WFlagRule{{ID: "in-seg", Clauses: []WClause{{Attr: mkRef("", ""), Op: "segmentMatch", Vals: []JV{jStr(s.Key)}}},
			VR: WVR{V: ip(1), RO: WRollout{Vars: []WWV{}, By: mkRef("", "")}}}}
	}
	c.Flag = f
	c.Tags = []string{"wide"}
	return c
}

// manyKindsCase: a multi-kind context with many kinds (more than any fixed-size per-evaluation table
// would hold), an unbounded segment or two for each kind, and a flag that walks through all of them.
func (g *gen) manyKindsCase(id string) *EvalCase {
	r := g.r
	c := &EvalCase{ID: id, Kind: "eval", Opts: WOpts{Log: r.chance(2, 3), Rec: true}}
	all := []string{"user", "org", "device", "team", "tenant", "app", "region", "cluster", "shard",
		"account", "zone", "workspace", "Vendor", "_x"}
	for i := range all {
		j := i + r.intn(len(all)-i)
		all[i], all[j] = all[j], all[i]
	}
	kinds := all[:4+r.intn(5)]
	if r.chance(1, 3) {
		// more kinds than any small fixed-size per-evaluation index would hold (9..14)
		kinds = all[:9+r.intn(len(all)-8)]
	}
	ctx := WCtx{T: "multi"}
	for _, k := range kinds {
		sc := g.sctx(k)
		sc.Sec, sc.Legacy = nil, false
		sc.Key = "key-" + k
		if r.chance(1, 6) {
			sc.Key = "shared-key"
		}
		ctx.Cs = append(ctx.Cs, sc)
	}
	c.Ctx = ctx
	c.Store.Flags, c.Store.Segments = []WFlag{}, []WSegment{}
	f := simpleFlag("flag", true, 0, 3)
	f.Form = pick(r, handForms)
	order := append([]string{}, kinds...)
	if r.chance(1, 2) { // revisit the kinds a second time, in another order
		for i := len(kinds) - 1; i >= 0; i-- {
			order = append(order, kinds[i])
		}
	}
	for i, k := range order {
		s := simpleSegment(fmt.Sprintf("seg-%s-%d", k, i))
		s.Unb, s.UnbK = true, k
		if k == "user" && r.chance(1, 2) {
			s.UnbK = ""
		}
		if !r.chance(1, 10) {
			s.Gen = ip(1 + r.intn(3))
		}
		s.Form = pick(r, handForms)
		c.Store.Segments = append(c.Store.Segments, s)
		cl := WClause{Attr: mkRef("", ""), Op: "segmentMatch", Vals: []JV{jStr(s.Key)}}
		if r.chance(1, 3) && len(f.Rules) > 0 {
			// several clauses in one rule (all must match: a non-match ends the rule early)
			f.Rules[len(f.Rules)-1].Clauses = append(f.Rules[len(f.Rules)-1].Clauses, cl)
		} else {
			f.Rules = append(f.Rules, WFlagRule{ID: fmt.Sprintf("r%d", i), Clauses: []WClause{cl},
				VR: WVR{V: ip(1), RO: WRollout{Vars: []WWV{}, By: mkRef("", "")}}})
		}
	}
	if r.chance(1, 2) {
		// target lists on some of the kinds — also those that sort last among the context's kinds —
		// in the three shapes of anyTargetMatchVariation: context targets only, legacy targets only,
		// and a context target of kind user with no values that delegates to the legacy list
		sorted := append([]string{}, kinds...)
		sort.Strings(sorted)
		cands := []string{sorted[len(sorted)-1], sorted[len(sorted)-1], pick(r, kinds), pick(r, kinds)}
		hasUser := false
		for _, k := range kinds {
			hasUser = hasUser || k == "user"
		}
		tk := pick(r, cands)
		keyOf := func(k string) string {
			for _, sc := range ctx.Cs {
				if sc.Kind == k {
					return sc.Key
				}
			}
			return "nobody"
		}
		vals := []string{"someone-else", keyOf(tk)}
		if r.chance(1, 4) {
			vals = []string{"someone-else"}
		}
		switch {
		case hasUser && r.chance(1, 3):
			f.Targets = []WTarget{{CK: "", Vals: []string{"x", keyOf("user")}, V: 2}}
			if r.chance(1, 2) {
				f.CTargets = []WTarget{{CK: pick(r, []string{"", "user"}), Vals: []string{}, V: 2}}
			}
		default:
			f.CTargets = []WTarget{{CK: "nokind", Vals: []string{keyOf(tk)}, V: 0}, {CK: tk, Vals: vals, V: 2}}
		}
	}
	c.Flag = f
	g.ctxKeys = ctxKeysOf(&c.Ctx)
	c.BS = g.bigSegProvider(&c.Ctx, c.Store.Segments)
	if c.BS != nil && r.chance(2, 3) {
		// mostly "not a member", so that the evaluation keeps walking
		for i := range c.BS.Table {
			for j := range c.BS.Table[i].A.M {
				c.BS.Table[i].A.M[j].In = false
			}
		}
		for j := range c.BS.Dflt.M {
			c.BS.Dflt.M[j].In = false
		}
	}
	c.Tags = []string{"manykinds"}
	return c
}

// segArrayCase: data that was never preprocessed (hand-built structs) meets array-valued context
// attributes: every element is tested against every clause value, in a flag rule and in a segment
// rule, with the operators that have precomputed operands (regex, dates, versions, key sets).
func (g *gen) segArrayCase(id string) *EvalCase {
	r := g.r
	c := &EvalCase{ID: id, Kind: "eval", Opts: WOpts{Log: r.chance(2, 3), Rec: true}}
	type opv struct {
		op   string
		vals []JV
		elem []JV
	}
	o := pick(r, []opv{
		{"in", []JV{jStr("b"), jStr("c"), jNum(3)}, []JV{jStr("a"), jStr("b"), jNum(3), jStr("z")}},
		{"matches", []JV{jStr("^a+$"), jStr("b.c")}, []JV{jStr("x"), jStr("aaa"), jStr("bxc")}},
		{"before", []JV{jStr("2020-01-01T00:00:00Z"), jNum(1500000000000)}, []JV{jNum(1600000000000), jStr("2019-06-01T00:00:00Z"), jNum(1)}},
		{"after", []JV{jNum(1500000000000)}, []JV{jNum(1), jStr("2021-01-01T00:00:00+01:00")}},
		{"semVerGreaterThan", []JV{jStr("2.0.0"), jStr("1.5")}, []JV{jStr("1.0.0"), jStr("2.1.0"), jStr("x")}},
		{"startsWith", []JV{jStr("ab"), jStr("q")}, []JV{jStr("xab"), jStr("abc")}},
	})
	n := 2 + r.intn(len(o.elem)-1)
	arr := append([]JV{}, o.elem[:n]...)
	if r.bool() {
		arr = shuffled(r, arr)
	}
	sc := g.sctx("user")
	sc.Attrs = append([]WAttr{{"tags", jArr(arr...)}}, sc.Attrs...)
	if r.chance(1, 5) {
		sc.Attrs[0].V = arr[0] // scalar: the comparison case
	}
	c.Ctx = WCtx{T: "single", C: &sc}
	cl := WClause{Attr: mkRef("ref", "tags"), Op: o.op, Vals: o.vals, Neg: r.chance(1, 4)}
	seg := simpleSegment("seg-array")
	seg.Form = pick(r, []string{"plain", "plain", "pre", "json"})
	seg.Rules = []WSegRule{{ID: "sr", Clauses: []WClause{cl}, By: mkRef("", "")}}
	f := simpleFlag("flag", true, 0, 3)
	f.Form = pick(r, []string{"plain", "plain", "pre", "json"})
	f.Rules = []WFlagRule{}
	if r.bool() {
		f.Rules = append(f.Rules, WFlagRule{ID: "direct", Clauses: []WClause{cl, {Attr: mkRef("ref", "tags"), Op: "in", Vals: []JV{jStr("never")}}},
			VR: WVR{V: ip(2), RO: WRollout{Vars: []WWV{}, By: mkRef("", "")}}})
	}
	f.Rules = append(f.Rules, WFlagRule{ID: "via-segment", Clauses: []WClause{{Attr: mkRef("", ""), Op: "segmentMatch", Vals: []JV{jStr(seg.Key)}}},
		VR: WVR{V: ip(1), RO: WRollout{Vars: []WWV{}, By: mkRef("", "")}}})
	c.Flag = f
	c.Store.Flags, c.Store.Segments = []WFlag{}, []WSegment{seg}
	c.Tags = []string{"segarray"}
	return c
}

// nearThreshold searches candidate context keys for one whose bucket, in units of 1/100000, is as
// close as possible to an integer: the inputs on which the exact shape of the single-precision
// threshold arithmetic (divide the weight, or multiply the bucket; accumulate in float32 or in int)
// decides the outcome. bucketFn is the real bucket computation, used only to *place* the case.
func nearThreshold(r *rng, tries int, bucketFn func(key string) float64) (string, float64) {
	bestKey, bestB, bestD := "", 0.0, 2.0
	for i := 0; i < tries; i++ {
		key := fmt.Sprintf("user-%d", r.intn(1<<30))
		b := bucketFn(key)
		x := b * 100000
		d := math.Abs(x - math.Round(x))
		if b > 0 && d < bestD {
			bestKey, bestB, bestD = key, b, d
		}
	}
	return bestKey, bestB
}

// segSplitCase: a segment rule whose weight sits next to the context's bucket for that segment
// (same idea as bucketSplitCase, for the `bucket < weight/100000` test of segment rules), reached
// through a segmentMatch clause of the evaluated flag.
func (g *gen) segSplitCase(id string) *EvalCase {
	r := g.r
	c := &EvalCase{ID: id, Kind: "eval", Opts: WOpts{Log: true, Rec: true, Sec: r.chance(1, 4)}}
	c.Store.Flags = []WFlag{}
	seg := simpleSegment(pick(r, []string{"seg", "s0", "beta-testers", "сегмент-" + fmt.Sprint(r.intn(50))}))
	seg.Salt = pick(r, []string{"salty", "salt", "", "s2", strings.Repeat("S", 120)})
	seg.Form = pick(r, handForms)
	rule := WSegRule{ID: "r0", Clauses: []WClause{}, By: mkRef("", ""), RCK: pick(r, []string{"", "", "user", "org"})}
	kind := "user"
	if rule.RCK == "org" {
		kind = "org"
	}
	sc := g.sctx(kind)
	sc.Sec, sc.Legacy = nil, false
	if r.chance(1, 5) {
		sc.Sec = sp("sec")
		sc.Kind = "user"
		if rule.RCK == "org" {
			rule.RCK = ""
		}
	}
	// half of the time the rule buckets by an attribute (string or integer) instead of the key: the
	// searched value then goes into that attribute
	byAttr := ""
	if r.bool() {
		byAttr = pick(r, []string{"bk", "n", "email"})
		if rule.RCK == "" {
			rule.By = mkRef("lit", byAttr)
		} else {
			rule.By = mkRef("ref", "/"+byAttr)
		}
	}
	intAttr := byAttr != "" && r.bool()
	setProbe := func(key string) {
		if byAttr == "" {
			sc.Key = key
			return
		}
		v := jStr(key)
		if intAttr {
			var n float64
			fmt.Sscanf(key, "user-%f", &n)
			v = jNum(n)
		}
		attrs := []WAttr{}
		for _, a := range sc.Attrs {
			if a.K != byAttr {
				attrs = append(attrs, a)
			}
		}
		sc.Attrs = append(attrs, WAttr{byAttr, v})
	}
	bucketFn := func(key string) float64 {
		setProbe(key)
		ctx := WCtx{T: "single", C: &sc}
		return bucketOf(c.Opts.Sec, ctx.build(), false, nil, rule.RCK, seg.Key, rule.By.build(), seg.Salt)
	}
	tries := 1
	if r.chance(3, 4) {
		tries = 150
	}
	key, b := nearThreshold(r, tries, bucketFn)
	setProbe(key)
	w := int(math.Round(b*100000)) + pick(r, []int{0, 0, 0, 0, 1, -1, 2})
	if r.chance(1, 12) {
		w = pick(r, []int{0, -1, 100000, 100001, -100000})
	}
	rule.Weight = &w
	if r.chance(1, 3) && byAttr == "" {
		rule.Clauses = []WClause{{Attr: mkRef("lit", "key"), Op: "in", Vals: []JV{jStr(key)}}}
	}
	seg.Rules = []WSegRule{rule}
	if r.chance(1, 4) {
		// a second weighted rule behind the first one
		w2 := w + pick(r, []int{1, -1, 50000})
		seg.Rules = append(seg.Rules, WSegRule{ID: "r1", Clauses: []WClause{}, By: mkRef("", ""), RCK: rule.RCK, Weight: &w2})
	}
	c.Store.Segments = []WSegment{seg}
	f := simpleFlag("flag", true, 0, 3)
	f.Form = pick(r, handForms)
	f.Rules = []WFlagRule{{ID: "in-segment", Clauses: []WClause{{Attr: mkRef("", ""), Op: "segmentMatch", Vals: []JV{jStr(seg.Key)}, Neg: r.chance(1, 6)}},
		VR: WVR{V: ip(1), RO: WRollout{Vars: []WWV{}, By: mkRef("", "")}}}}
	c.Flag = f
	c.Ctx = WCtx{T: "single", C: &sc}
	if r.chance(1, 5) {
		other := g.sctx("device")
		c.Ctx = WCtx{T: "multi", Cs: []WSCtx{sc, other}}
	}
	c.Tags = []string{"segsplit"}
	return c
}

// bucketSplitCase: a rollout whose cumulative thresholds sit next to the context's bucket.
func (g *gen) bucketSplitCase(id string) *EvalCase {
	r := g.r
	c := &EvalCase{ID: id, Kind: "eval", Opts: WOpts{Log: true, Rec: true, Sec: r.chance(1, 3)}}
	c.Store.Flags, c.Store.Segments = []WFlag{}, []WSegment{}
	c.Ctx = g.context()
	if c.Ctx.T == "invalid" {
		s := g.sctx("user")
		c.Ctx = WCtx{T: "single", C: &s}
	}
	f := simpleFlag(pick(r, []string{"flag", "f", "длинный-ключ-флага-" + fmt.Sprint(r.intn(100))}), true, 0, 4)
	f.Salt = pick(r, saltPool)
	f.Form = pick(r, handForms)
	ro := WRollout{Vars: []WWV{}, By: mkRef("", ""), CK: pick(r, []string{"", "user", "org", "device"})}
	if r.chance(1, 3) {
		ro.Kind = "experiment"
	}
	if r.chance(1, 3) {
		ro.Seed = ip(pick(r, []int{0, 1, -7, 61, 123456789, math.MaxInt64, math.MinInt64}))
	}
	if r.chance(1, 2) {
		name := pick(r, []string{"a", "b", "n", "s", "key", "name", "email"})
		if ro.CK == "" {
			ro.By = mkRef("lit", name)
		} else {
			ro.By = mkRef("ref", pick(r, []string{name, "/" + name, "/obj/" + name}))
		}
	}
	if c.Ctx.T == "single" && c.Ctx.C.Sec == nil && !c.Ctx.C.Legacy && r.chance(1, 3) {
		// pick a key whose bucket lies as close as possible to a multiple of 1/100000
		key, _ := nearThreshold(r, 100, func(key string) float64 {
			c.Ctx.C.Key = key
			return bucketOf(c.Opts.Sec, c.Ctx.build(), ro.Kind == "experiment", ro.Seed, ro.CK, f.Key, ro.By.build(), f.Salt)
		})
		if key != "" {
			c.Ctx.C.Key = key
		}
	}
	b := bucketOf(c.Opts.Sec, c.Ctx.build(), ro.Kind == "experiment", ro.Seed, ro.CK, f.Key, ro.By.build(), f.Salt)
	base := int(math.Floor(b * 100000))
	n := 2 + r.intn(3)
	// choose where the boundary next to b falls
	k := r.intn(n)
	ws := make([]int, n)
	target := base + pick(r, []int{-1, 0, 0, 1, 1, 2})
	if target < 0 {
		target = 0
	}
	rem := target
	for i := 0; i < k; i++ {
		ws[i] = r.intn(rem + 1)
		if r.chance(1, 4) {
			ws[i] = 0
		}
		rem -= ws[i]
	}
	ws[k] = rem
	rest := 100000 - target
	for i := k + 1; i < n; i++ {
		if i == n-1 && r.chance(2, 3) {
			ws[i] = rest
		} else {
			ws[i] = r.intn(rest/2 + 1)
			rest -= ws[i]
		}
	}
	for i := 0; i < n; i++ {
		ro.Vars = append(ro.Vars, WWV{V: i % 4, W: ws[i], U: r.chance(1, 4)})
	}
	if r.chance(1, 6) { // degenerate vectors
		for i := range ro.Vars {
			ro.Vars[i].W = pick(r, []int{0, 0, -1, -100000})
		}
	}
	vr := WVR{RO: ro}
	if r.chance(1, 12) {
		vr.V = ip(r.intn(4)) // a fixed variation ignores the rollout
	}
	if r.bool() {
		f.FT = vr
	} else {
		f.Rules = []WFlagRule{{ID: "r0", VR: vr, Clauses: []WClause{}, Track: r.chance(1, 3)}}
	}
	f.TrackFT = r.chance(1, 3)
	c.Flag = f
	c.Tags = []string{"bucketsplit"}
	return c
}

// bucketDenseCase: several bucket computations inside ONE evaluation — weighted segment rules
// (nested and sibling), flag rollouts behind them, prerequisites with rollouts — over a small pool
// of salts, kinds and bucket-by attributes, so that computations with equal parameters but
// different keys meet in one evaluation.
func (g *gen) bucketDenseCase(id string) *EvalCase {
	r := g.r
	c := &EvalCase{ID: id, Kind: "eval", Opts: WOpts{Log: true, Rec: true, Sec: r.chance(1, 4)}}
	c.Store.Flags, c.Store.Segments = []WFlag{}, []WSegment{}
	c.Ctx = g.context()
	if c.Ctx.T == "invalid" {
		s := g.sctx("user")
		c.Ctx = WCtx{T: "single", C: &s}
	}
	salts := []string{"salt", "salt", "s2"}
	kinds := []string{"", "", "user", "org"}
	by := func(ck string) WRef {
		if r.chance(2, 3) {
			return mkRef("", "")
		}
		if ck == "" {
			return mkRef("lit", pick(r, []string{"a", "key", "n"}))
		}
		return mkRef("ref", pick(r, []string{"a", "key", "n"}))
	}
	weight := func() int { return pick(r, []int{100000, 100000, 50000, 30000, 70000, 0, 99999}) }
	nSeg := 2 + r.intn(3)
	for i := 0; i < nSeg; i++ {
		s := simpleSegment(fmt.Sprintf("w%d", i))
		s.Salt = pick(r, salts)
		s.Form = g.form()
		for j, m := 0, 1+r.intn(2); j < m; j++ {
			ck := pick(r, kinds)
			rule := WSegRule{ID: fmt.Sprintf("r%d", j), Clauses: []WClause{}, Weight: ip(weight()), RCK: ck, By: by(ck)}
			if i+1 < nSeg && r.chance(1, 3) {
				rule.Clauses = append(rule.Clauses, segRefRule(fmt.Sprintf("w%d", i+1)).Clauses[0])
			}
			s.Rules = append(s.Rules, rule)
		}
		c.Store.Segments = append(c.Store.Segments, s)
	}
	rollout := func() WVR {
		ck := pick(r, kinds)
		ro := WRollout{CK: ck, By: by(ck), Vars: []WWV{{V: 0, W: 50000}, {V: 1, W: 50000}}}
		if r.chance(1, 4) {
			ro.Kind = "experiment"
		}
		if r.chance(1, 5) {
			ro.Seed = ip(pick(r, []int{1, 61}))
		}
		return WVR{RO: ro}
	}
	mkFlag := func(key string) WFlag {
		f := simpleFlag(key, true, 0, 2)
		f.Salt = pick(r, salts)
		f.Form = g.form()
		for i, n := 0, r.intn(3); i < n; i++ {
			cl := segRefRule(fmt.Sprintf("w%d", r.intn(nSeg))).Clauses[0]
			cl.Neg = r.chance(1, 3)
			vr := rollout()
			if r.chance(1, 3) {
				vr = WVR{V: ip(r.intn(2)), RO: WRollout{Vars: []WWV{}, By: mkRef("", "")}}
			}
			f.Rules = append(f.Rules, WFlagRule{ID: fmt.Sprintf("r%d", i), VR: vr, Clauses: []WClause{cl}})
		}
		f.FT = rollout()
		return f
	}
	top := mkFlag("top")
	for i, n := 0, r.intn(3); i < n; i++ {
		pf := mkFlag(fmt.Sprintf("p%d", i))
		c.Store.Flags = append(c.Store.Flags, pf)
		top.Prereqs = append(top.Prereqs, WPrereq{pf.Key, r.intn(2)})
	}
	if r.chance(1, 3) {
		// a flag and a segment with the same key AND the same salt (flags and segments are separate
		// namespaces, but their hash inputs then coincide unless a seed is used): every bucket
		// computation of the flag has a twin in the segment
		s := &c.Store.Segments[r.intn(len(c.Store.Segments))]
		old := s.Key
		s.Key, s.Salt = top.Key, top.Salt
		lk := old
		s.LK = &lk // still found under the key the clauses use
		for i := range s.Rules {
			if r.bool() {
				s.Rules[i].RCK, s.Rules[i].By = top.FT.RO.CK, top.FT.RO.By
			}
		}
		if r.chance(2, 3) {
			top.FT.RO.Seed = ip(pick(r, []int{1, 61, 0}))
			top.FT.RO.Kind = pick(r, []string{"rollout", "", "experiment"})
		}
	}
	c.Flag = top
	c.Tags = []string{"bucketdense"}
	return c
}

// genStream produces the i-th case of a stream.
// aliasStore makes the data provider "inconsistent" the way application code may be: some items are
// returned for a lookup key that differs from their own Key field (the item keeps being found by
// the references that used its old key, but the key it carries — which is what the evaluator puts
// on its cycle-detection chains, in events, in big-segment references and in hash inputs — is a
// different one, possibly that of another item).
func aliasStore(c *EvalCase, r *rng) {
	if len(c.Store.Flags)+len(c.Store.Segments) == 0 {
		return
	}
	own := func(old string, others []string) string {
		switch r.intn(4) {
		case 0:
			if len(others) > 0 {
				return others[r.intn(len(others))] // collide with another item's key
			}
		case 1:
			return c.Flag.Key // collide with the evaluated flag's key
		case 2:
			return ""
		}
		return old + "-v2"
	}
	fk := []string{}
	for _, f := range c.Store.Flags {
		fk = append(fk, f.Key)
	}
	for i := range c.Store.Flags {
		if r.chance(1, 2) {
			lk := c.Store.Flags[i].lookupKey()
			c.Store.Flags[i].LK = &lk
			c.Store.Flags[i].Key = own(c.Store.Flags[i].Key, fk)
		}
	}
	sk := []string{}
	for _, s := range c.Store.Segments {
		sk = append(sk, s.Key)
	}
	for i := range c.Store.Segments {
		if r.chance(1, 2) {
			lk := c.Store.Segments[i].lookupKey()
			c.Store.Segments[i].LK = &lk
			c.Store.Segments[i].Key = own(c.Store.Segments[i].Key, sk)
		}
	}
	c.Tags = append(c.Tags, "aliased-store")
}

// aliasStreams: streams in which one case in eight gets an inconsistent data provider.
var aliasStreams = map[string]bool{"graphs": true, "malformed": true, "prereqs": true, "segments": true, "bigseg": true, "wellformed": true}

func genStream(name string, r *rng, id string) *EvalCase {
	c := genStream0(name, r, id)
	if aliasStreams[name] && aliasEnabled && r.chance(1, 8) {
		aliasStore(c, r)
	}
	if len(c.Store.Flags) > 0 && r.chance(1, 3) {
		alignPrerequisites(c, r)
	}
	if rawEnabled && r.chance(1, 10) {
		rawifyData(c, r)
	}
	if r.chance(1, 8) {
		// tombstones: a deleted flag or segment is data like any other as far as evaluation goes
		// (the SDK filters them out before they reach the evaluator, or does not)
		if r.bool() {
			c.Flag.Meta.Deleted = true
		}
		for i := range c.Store.Flags {
			if r.chance(1, 3) {
				c.Store.Flags[i].Meta.Deleted = true
			}
		}
		for i := range c.Store.Segments {
			if r.chance(1, 3) {
				c.Store.Segments[i].Deleted = true
			}
		}
	}
	if r.chance(1, 8) {
		// the store also holds the evaluated flag itself, under its own key (the worker then hands
		// the store's object to Evaluate half of the time)
		held := false
		for i := range c.Store.Flags {
			held = held || c.Store.Flags[i].lookupKey() == c.Flag.Key
		}
		if !held {
			cp := cloneCase(c).Flag
			c.Store.Flags = append(c.Store.Flags, cp)
		}
	}
	return c
}

// alignPrerequisites rewrites required variations so that prerequisites are often *met*, and in
// particular met by the value a flag serves when it is off or when its own prerequisites fail:
// the required index is drawn from what the prerequisite flag can serve (its off variation, its
// fallthrough, its rules' fixed variations). A prerequisite that is off never satisfies, whatever
// it serves; a flag that is on and serves its off variation because ITS prerequisite failed does.
// Sometimes no recorder is installed, and shared prerequisites are referred to twice.
func alignPrerequisites(c *EvalCase, r *rng) {
	byKey := map[string]*WFlag{}
	for i := range c.Store.Flags {
		f := &c.Store.Flags[i]
		if _, dup := byKey[f.lookupKey()]; !dup {
			byKey[f.lookupKey()] = f
		}
	}
	fix := func(f *WFlag, top bool) {
		for i := range f.Prereqs {
			p, ok := byKey[f.Prereqs[i].Key]
			if !ok || r.chance(1, 4) {
				continue
			}
			cands := []int{}
			if p.Off != nil {
				cands = append(cands, *p.Off, *p.Off)
			}
			if p.FT.V != nil {
				cands = append(cands, *p.FT.V)
			}
			for _, ru := range p.Rules {
				if ru.VR.V != nil {
					cands = append(cands, *ru.VR.V)
				}
			}
			if len(cands) > 0 {
				f.Prereqs[i].V = pick(r, cands)
			}
		}
		if top && len(f.Prereqs) > 0 && len(f.Prereqs) < 4 && r.chance(1, 3) {
			// the same prerequisite once more, wanting another (or the same) variation (only in the
			// evaluated flag: repeated at every level of a deep chain the work would double per level)
			again := f.Prereqs[r.intn(len(f.Prereqs))]
			if r.bool() {
				again.V = r.intn(3)
			}
			f.Prereqs = append(f.Prereqs, again)
		}
	}
	fix(&c.Flag, true)
	for i := range c.Store.Flags {
		fix(&c.Store.Flags[i], false)
	}
	if r.chance(1, 3) {
		c.Opts.Rec = false
	}
}

func genStream0(name string, r *rng, id string) *EvalCase {
	g := &gen{r: r}
	switch name {
	case "graphs":
		g.p = profiles["malformed"]
		return g.graphCase(id)
	case "operators":
		g.p = profiles["wellformed"]
		return g.operatorCase(id)
	case "statuspairs":
		g.p = profiles["bigseg"]
		return g.statusPairsCase(id)
	case "bucketedge":
		g.p = profiles["rollouts"]
		return g.bucketEdgeCase(id)
	case "bucketsplit":
		g.p = profiles["rollouts"]
		return g.bucketSplitCase(id)
	case "bucketdense":
		g.p = profiles["rollouts"]
		return g.bucketDenseCase(id)
	case "segsplit":
		g.p = profiles["segments"]
		return g.segSplitCase(id)
	case "manykinds":
		g.p = profiles["bigseg"]
		return g.manyKindsCase(id)
	case "segarray":
		g.p = profiles["segments"]
		return g.segArrayCase(id)
	case "wide":
		g.p = profiles["wellformed"]
		return g.wideCase(id)
	case "dateops":
		g.p = profiles["wellformed"]
		g.forceOps = []string{"before", "after"}
		c := g.operatorCase(id)
		// random well-formed timestamps on both sides, in both representations
		cl := &c.Flag.Rules[0].Clauses[0]
		tv := func() JV {
			if r.bool() {
				return jStr(randTimestamp(r))
			}
			return jNum(math.Floor((float64(r.next()%(1<<53))/float64(uint64(1)<<53)*2 - 1) * 3e14))
		}
		if r.chance(2, 3) {
			cl.Vals = []JV{tv()}
			set := func(s *WSCtx) {
				for i := range s.Attrs {
					if s.Attrs[i].V.K != 'o' {
						s.Attrs[i].V = tv()
					}
				}
			}
			if c.Ctx.T == "single" {
				set(c.Ctx.C)
			} else {
				for i := range c.Ctx.Cs {
					set(&c.Ctx.Cs[i])
				}
			}
		}
		return c
	case "segprobe":
		g.p = profiles["segments"]
		g.p.MaxFlags = 0
		g.p.PSegClause = 100
		g.p.MaxRules = 2
		return g.evalCase(id)
	}
	p, ok := profiles[name]
	if !ok {
		fatalf("unknown stream %s", name)
	}
	g.p = p
	c := g.evalCase(id)
	c.Tags = append(c.Tags, name)
	return c
}

// bucketEdgeCase: bucket values on the edges that sampling does not reach.
//   - bucket == 1.0 exactly (a mined context key, see edges.go): no cumulative threshold is above
//     it, so the last bucket's fallback decides; rollouts that reach 100 % before their last
//     bucket, that never reach it, experiments with an untracked tail, a weighted segment rule of
//     100 % (which such a context does NOT match);
//   - a bucket value exactly equal to a cumulative threshold that is the float32 sum of several
//     terms, chosen among splits on which the running float32 sum differs from the correctly
//     rounded quotient (where the order and precision of the additions is observable).
func (g *gen) bucketEdgeCase(id string) *EvalCase {
	r := g.r
	c := &EvalCase{ID: id, Kind: "eval", Opts: WOpts{Log: true, Rec: true}}
	c.Store.Flags, c.Store.Segments = []WFlag{}, []WSegment{}
	c.Tags = []string{"bucketedge"}
	if r.bool() {
		e := pick(r, minedBucketOne)
		f := simpleFlag("edge", true, 0, 4)
		f.Form = pick(r, handForms)
		ro := WRollout{Vars: []WWV{}, By: mkRef("", ""), CK: pick(r, []string{"", "", "user"})}
		parts := strings.Split(e.Prefix, ".")
		segKey, segSalt := "", ""
		if len(parts) == 2 { // "<seed>."
			var sd int
			fmt.Sscan(parts[0], &sd)
			ro.Seed = ip(sd)
			f.Key, f.Salt = pick(r, []string{"edge", "other"}), pick(r, saltPool)
		} else {
			f.Key, f.Salt = parts[0], parts[1]
			segKey, segSalt = parts[0], parts[1]
		}
		sc := WSCtx{Kind: "user", Key: e.Key, Attrs: []WAttr{}}
		if r.chance(1, 4) {
			// the mined string as the bucket-by attribute instead of the key
			sc.Key = pick(r, keyPool)
			sc.Attrs = []WAttr{{"bk", jStr(e.Key)}}
			if ro.CK == "" {
				ro.By = mkRef("lit", "bk")
			} else {
				ro.By = mkRef("ref", "/bk")
			}
		}
		c.Ctx = WCtx{T: "single", C: &sc}
		if r.chance(1, 4) {
			c.Ctx = WCtx{T: "multi", Cs: []WSCtx{sc, {Kind: "org", Key: "o", Attrs: []WAttr{}}}}
		}
		shape := pick(r, [][]int{{100000, 0}, {50000, 50000, 0}, {0, 60000, 40000, 0}, {100000}, {99999, 1}, {1, 99999},
			{50000, 40000}, {30000, 30000, 30000, 10000}, {0, 0}, {100000, 0, 0}, {33333, 33333, 33334}, {100001}, {60000, 50000}})
		for i, w := range shape {
			ro.Vars = append(ro.Vars, WWV{V: i % 4, W: w, U: r.chance(1, 4)})
		}
		if r.chance(1, 3) {
			ro.Kind = "experiment"
			ro.Vars[len(ro.Vars)-1].U = r.bool()
		}
		vr := WVR{RO: ro}
		if segKey != "" && r.chance(1, 3) {
			// a weighted segment rule over the same key and salt: 100 % does not include bucket 1.0
			seg := simpleSegment(segKey)
			seg.Salt = segSalt
			seg.Form = pick(r, handForms)
			seg.Rules = []WSegRule{{ID: "w", Clauses: []WClause{}, Weight: ip(pick(r, []int{100000, 99999, 100001, 0})), By: ro.By, RCK: ro.CK}}
			c.Store.Segments = append(c.Store.Segments, seg)
			f.Rules = append(f.Rules, WFlagRule{ID: "seg", VR: WVR{V: ip(3), RO: WRollout{Vars: []WWV{}, By: mkRef("", "")}}, Clauses: segRefRule(segKey).Clauses})
		}
		if r.bool() {
			f.FT = vr
		} else {
			f.Rules = append(f.Rules, WFlagRule{ID: "r0", VR: vr, Clauses: []WClause{}, Track: r.chance(1, 3)})
		}
		f.TrackFT = r.chance(1, 3)
		c.Flag = f
		return c
	}
	// a context whose bucket is exactly float32(w)/100000 for some integer w…
	f := simpleFlag(pick(r, []string{"flag", "f", "edge"}), true, 0, 4)
	f.Salt = pick(r, saltPool)
	f.Form = pick(r, handForms)
	ro := WRollout{Vars: []WWV{}, By: mkRef("", ""), CK: ""}
	if r.chance(1, 3) {
		ro.Kind = "experiment"
	}
	sc := WSCtx{Kind: "user", Key: "", Attrs: []WAttr{}}
	c.Ctx = WCtx{T: "single", C: &sc}
	w, b32 := 0, float32(0)
	for try := 0; try < 3000; try++ {
		sc.Key = fmt.Sprintf("user-%d", r.intn(1<<30))
		b := float32(bucketOf(false, c.Ctx.build(), ro.Kind == "experiment", nil, "", f.Key, ro.By.build(), f.Salt))
		cand := int(math.Round(float64(b) * 100000))
		if cand >= 2 && float32(cand)/100000 == b {
			w, b32 = cand, b
			break
		}
	}
	// …and a split of w into several terms whose float32 running sum is NOT the correctly rounded
	// quotient (if one is found among a few hundred), so that the boundary next to the bucket is
	// sensitive to how the sum is formed
	n := 2 + r.intn(3)
	best := []int{w}
	for try := 0; try < 400 && w >= n; try++ {
		ws := make([]int, n)
		rem := w
		for i := 0; i < n-1; i++ {
			ws[i] = r.intn(rem + 1)
			rem -= ws[i]
		}
		ws[n-1] = rem
		var sum float32
		for _, x := range ws {
			sum += float32(x) / 100000
		}
		best = ws
		if sum != b32 {
			break
		}
	}
	k := len(best)
	rest := 100000 - w
	for i, x := range best {
		ro.Vars = append(ro.Vars, WWV{V: i % 4, W: x, U: r.chance(1, 5)})
	}
	if rest > 0 {
		ro.Vars = append(ro.Vars, WWV{V: k % 4, W: rest, U: r.chance(1, 3)})
	}
	if r.chance(1, 4) {
		ro.Vars = append(ro.Vars, WWV{V: (k + 1) % 4, W: 0, U: r.bool()})
	}
	vr := WVR{RO: ro}
	if r.bool() {
		f.FT = vr
	} else {
		f.Rules = []WFlagRule{{ID: "r0", VR: vr, Clauses: []WClause{}, Track: r.chance(1, 3)}}
	}
	f.TrackFT = r.chance(1, 3)
	c.Flag = f
	return c
}

// widenLists blows one string list of a flag and of a segment up to a length on or next to a
// power of two (block sizes of buffered readers, pooled scratch slices, unrolled loops).
func widenLists(r *rng, f *WFlag, s *WSegment) {
	n := pick(r, []int{63, 64, 65, 127, 128, 129, 255, 256, 257, 384, 512, 1023, 1024, 1025, 2048})
	if r.chance(1, 6) {
		// and far beyond: growth steps of append, chunked readers and writers, "large value" paths
		n = pick(r, []int{3000, 3584, 3585, 4095, 4096, 4097, 5000, 6000, 8191, 8192, 8704, 8705, 9000, 9216, 10000, 12000, 16384, 20000})
	}
	keys := make([]string, n)
	for i := range keys {
		keys[i] = fmt.Sprintf("w%05d", i)
	}
	if f != nil {
		switch r.intn(3) {
		case 0:
			f.Targets = append(f.Targets, WTarget{Vals: keys, V: 0})
		case 1:
			f.CTargets = append(f.CTargets, WTarget{CK: "org", Vals: keys, V: 0})
		default:
			if len(f.Rules) > 0 && len(f.Rules[0].Clauses) > 0 && f.Rules[0].Clauses[0].Op != "segmentMatch" {
				vs := make([]JV, n)
				for i := range vs {
					vs[i] = jStr(keys[i])
				}
				f.Rules[0].Clauses[0].Vals = vs
			} else {
				f.Targets = append(f.Targets, WTarget{Vals: keys, V: 0})
			}
		}
	}
	if s != nil {
		switch r.intn(3) {
		case 0:
			s.Inc = keys
		case 1:
			s.Exc = keys
		default:
			s.IncC = append(s.IncC, WSegTarget{CK: "org", Vals: keys})
		}
	}
}

// statusPairsCase: every ordered pair and triple of provider statuses — the four constants, the
// empty status and a foreign string — merged by ONE evaluation: a multi-kind context whose members
// have distinct keys, one unbounded segment per member, the provider answering each key with its
// own status. The index of the case (the last component of its id) enumerates the combinations,
// so that a run of a few hundred cases is exhaustive; how the implementation phrases "the more
// problematic status wins, the later one on ties" does not matter to this check.
func (g *gen) statusPairsCase(id string) *EvalCase {
	r := g.r
	statuses := []string{"", "HEALTHY", "STALE", "STORE_ERROR", "NOT_CONFIGURED", "weird-status"}
	idx := r.intn(6*6 + 6*6*6)
	if i := strings.LastIndex(id, "/"); i >= 0 {
		var n int
		if _, err := fmt.Sscan(id[i+1:], &n); err == nil {
			idx = n % (6*6 + 6*6*6)
		}
	}
	var combo []string
	if idx < 36 {
		combo = []string{statuses[idx/6], statuses[idx%6]}
	} else {
		j := idx - 36
		combo = []string{statuses[j/36], statuses[(j/6)%6], statuses[j%6]}
	}
	c := &EvalCase{ID: id, Kind: "eval", Opts: WOpts{Log: true, Rec: true}}
	c.Store.Flags, c.Store.Segments = []WFlag{}, []WSegment{}
	kinds := []string{"user", "org", "device"}[:len(combo)]
	ctx := WCtx{T: "multi"}
	f := simpleFlag("flag", true, 0, 2)
	f.Form = pick(r, handForms)
	bs := &WBS{Table: []WBSEntry{}, Dflt: WBSAnswer{St: "HEALTHY"}}
	for i, k := range kinds {
		ctx.Cs = append(ctx.Cs, WSCtx{Kind: k, Key: "key-" + k, Attrs: []WAttr{}})
		s := simpleSegment("big-" + k)
		s.Unb, s.UnbK, s.Gen = true, k, ip(1+i)
		s.Form = pick(r, handForms)
		c.Store.Segments = append(c.Store.Segments, s)
		f.Rules = append(f.Rules, WFlagRule{ID: fmt.Sprintf("r%d", i), VR: WVR{V: ip(1), RO: WRollout{Vars: []WWV{}, By: mkRef("", "")}},
			Clauses: []WClause{{Attr: mkRef("", ""), Op: "segmentMatch", Vals: []JV{jStr(s.Key)}}}})
		ans := WBSAnswer{St: combo[i]}
		if r.bool() {
			ans.M = []WMember{} // a membership object that contains nothing
		}
		bs.Table = append(bs.Table, WBSEntry{Key: "key-" + k, A: ans})
	}
	c.Ctx = ctx
	c.Flag = f
	c.BS = bs
	c.Tags = []string{"statuspairs"}
	return c
}

// rawifyData turns one clause operand or one variation of the case's flags and segments into an
// unparsed value (ldvalue.Raw): hand-built configurations may hold them as well as contexts.
func rawifyData(c *EvalCase, r *rng) {
	wrap := func(v *JV) {
		if v.K != 'r' && v.K != 'z' {
			*v = JV{K: 'r', A: []JV{*v}}
		}
	}
	var clauses []*WClause
	var vars []*JV
	visit := func(f *WFlag) {
		for i := range f.Rules {
			for j := range f.Rules[i].Clauses {
				clauses = append(clauses, &f.Rules[i].Clauses[j])
			}
		}
		for i := range f.Vars {
			vars = append(vars, &f.Vars[i])
		}
	}
	visit(&c.Flag)
	for i := range c.Store.Flags {
		visit(&c.Store.Flags[i])
	}
	for i := range c.Store.Segments {
		for j := range c.Store.Segments[i].Rules {
			for k := range c.Store.Segments[i].Rules[j].Clauses {
				clauses = append(clauses, &c.Store.Segments[i].Rules[j].Clauses[k])
			}
		}
	}
	if len(clauses) > 0 && r.chance(2, 3) {
		cl := clauses[r.intn(len(clauses))]
		if len(cl.Vals) > 0 {
			wrap(&cl.Vals[r.intn(len(cl.Vals))])
			return
		}
	}
	if len(vars) > 0 {
		wrap(vars[r.intn(len(vars))])
	}
}

package main

// capDump prints a value with everything reachable from it: unexported fields, the contents behind
// pointers, maps in key order — and, for slices, the whole backing array up to its *capacity*, not
// only up to the length. A write into the spare capacity of a slice that belongs to a shared flag
// (an `append` on an alias of it) changes neither the length nor any element below it and is
// invisible to DeepEqual and to a JSON dump; it is visible here.

import (
	"fmt"
	"reflect"
	"sort"
	"strings"
)

func capDump(x any) string {
	var b strings.Builder
	capDumpValue(&b, reflect.ValueOf(x), 0)
	return b.String()
}

// deepDump is capDump without capacities and spare elements: two values have the same deepDump
// exactly when reflect.DeepEqual holds for them (compiled regular expressions by their text).
func deepDump(x any) string {
	var b strings.Builder
	capDumpValue(&b, reflect.ValueOf(x), deepOnly)
	return b.String()
}

// depth values from deepOnly upwards mean "without capacities"
const deepOnly = 1000

func capDumpValue(b *strings.Builder, v reflect.Value, depth int) {
	if depth%deepOnly > 24 {
		b.WriteString("<deep>")
		return
	}
	if !v.IsValid() {
		b.WriteString("<invalid>")
		return
	}
	switch v.Kind() {
	case reflect.Bool:
		fmt.Fprintf(b, "%v", v.Bool())
	case reflect.Int, reflect.Int8, reflect.Int16, reflect.Int32, reflect.Int64:
		fmt.Fprintf(b, "%d", v.Int())
	case reflect.Uint, reflect.Uint8, reflect.Uint16, reflect.Uint32, reflect.Uint64, reflect.Uintptr:
		fmt.Fprintf(b, "%d", v.Uint())
	case reflect.Float32, reflect.Float64:
		fmt.Fprintf(b, "%x", v.Float())
	case reflect.String:
		fmt.Fprintf(b, "%q", v.String())
	case reflect.Ptr:
		if v.IsNil() {
			b.WriteString("nil")
			return
		}
		t := v.Type().Elem()
		if t.PkgPath() == "regexp" || t.PkgPath() == "time" && t.Name() == "Location" {
			// compiled programs and time zones are not ours; identify them by their text
			if f := v.Elem().FieldByName("expr"); f.IsValid() {
				fmt.Fprintf(b, "&regexp(%q)", f.String())
			} else if f := v.Elem().FieldByName("name"); f.IsValid() {
				fmt.Fprintf(b, "&location(%q)", f.String())
			} else {
				b.WriteString("&" + t.String())
			}
			return
		}
		b.WriteString("&")
		capDumpValue(b, v.Elem(), depth+1)
	case reflect.Interface:
		if v.IsNil() {
			b.WriteString("nil")
			return
		}
		b.WriteString(v.Elem().Type().String() + ":")
		capDumpValue(b, v.Elem(), depth+1)
	case reflect.Struct:
		b.WriteString(v.Type().Name() + "{")
		for i := 0; i < v.NumField(); i++ {
			if i > 0 {
				b.WriteString(",")
			}
			b.WriteString(v.Type().Field(i).Name + ":")
			capDumpValue(b, v.Field(i), depth+1)
		}
		b.WriteString("}")
	case reflect.Array:
		b.WriteString("[")
		for i := 0; i < v.Len(); i++ {
			if i > 0 {
				b.WriteString(",")
			}
			capDumpValue(b, v.Index(i), depth+1)
		}
		b.WriteString("]")
	case reflect.Slice:
		if v.IsNil() {
			b.WriteString("nil")
			return
		}
		if v.Type().Elem().Kind() == reflect.Uint8 {
			// byte slices: contents up to the length (spare capacity of scratch buffers is not shared state)
			fmt.Fprintf(b, "bytes(%x)", v.Bytes())
			return
		}
		full := v.Slice(0, v.Cap())
		if depth >= deepOnly {
			fmt.Fprintf(b, "[len=%d:", v.Len())
			full = v
		} else {
			fmt.Fprintf(b, "[len=%d cap=%d:", v.Len(), v.Cap())
		}
		for i := 0; i < full.Len(); i++ {
			if i == v.Len() {
				b.WriteString(" | spare:")
			}
			if i > 0 {
				b.WriteString(",")
			}
			capDumpValue(b, full.Index(i), depth+1)
		}
		b.WriteString("]")
	case reflect.Map:
		if v.IsNil() {
			b.WriteString("nil")
			return
		}
		entries := []string{}
		it := v.MapRange()
		for it.Next() {
			var e strings.Builder
			capDumpValue(&e, it.Key(), depth+1)
			e.WriteString("=>")
			capDumpValue(&e, it.Value(), depth+1)
			entries = append(entries, e.String())
		}
		sort.Strings(entries)
		b.WriteString("map{" + strings.Join(entries, ",") + "}")
	case reflect.Func, reflect.Chan, reflect.UnsafePointer:
		if v.IsNil() {
			b.WriteString("nil")
		} else {
			b.WriteString("<" + v.Kind().String() + ">")
		}
	default:
		b.WriteString("<" + v.Kind().String() + ">")
	}
}

import LDEval.Model.SoftF32
import Mathlib.Tactic.Linarith
import Mathlib.Tactic.SplitIfs
import Mathlib.Algebra.Order.Ring.Rat
import Mathlib.Tactic.Ring
import Mathlib.Tactic.NormNum
import Mathlib.Tactic.Positivity
import Mathlib.Algebra.Order.Field.Basic
import Mathlib.Algebra.Order.Field.Power

namespace LD.SoftF32

/-! ### roundHalfEven -/

theorem floor_le' (q : Rat) : (q.floor : Rat) ≤ q := Rat.floor_le q

theorem lt_floor_add_one' (q : Rat) : q < (q.floor : Rat) + 1 := by
  have := Rat.lt_floor_add_one q
  push_cast at this
  exact this

theorem floor_le_roundHalfEven (q : Rat) : q.floor ≤ roundHalfEven q := by
  unfold roundHalfEven
  simp only
  split_ifs <;> omega

theorem roundHalfEven_le_floor_add_one (q : Rat) : roundHalfEven q ≤ q.floor + 1 := by
  unfold roundHalfEven
  simp only
  split_ifs <;> omega

theorem roundHalfEven_mono {a b : Rat} (h : a ≤ b) : roundHalfEven a ≤ roundHalfEven b := by
  have hf : a.floor ≤ b.floor := Rat.floor_monotone h
  rcases Int.lt_or_eq_of_le hf with hlt | heq
  · have h1 := roundHalfEven_le_floor_add_one a
    have h2 := floor_le_roundHalfEven b
    omega
  · unfold roundHalfEven
    simp only
    rw [← heq]
    split_ifs <;> first | omega | (exfalso; linarith)

theorem roundHalfEven_intCast (n : Int) : roundHalfEven (n : Rat) = n := by
  unfold roundHalfEven
  simp only [Rat.floor_intCast]
  rw [if_pos]
  norm_num

/-- Anything strictly within 1/2 of an integer rounds to that integer. -/
theorem roundHalfEven_eq_of_near {q : Rat} {n : Int} (h1 : (n : Rat) - 1/2 < q)
    (h2 : q < (n : Rat) + 1/2) : roundHalfEven q = n := by
  have hf1 := floor_le' q
  have hf2 := lt_floor_add_one' q
  have hA : n - 1 ≤ q.floor := by
    have : ((n - 1 : Int) : Rat) < ((q.floor + 1 : Int) : Rat) := by push_cast; linarith
    have := Int.cast_lt.mp this
    omega
  have hB : q.floor ≤ n := by
    have : ((q.floor : Int) : Rat) < ((n + 1 : Int) : Rat) := by push_cast; linarith
    have := Int.cast_lt.mp this
    omega
  have hC : q.floor = n ∨ q.floor = n - 1 := by omega
  unfold roundHalfEven
  simp only
  rcases hC with hC | hC
  · rw [hC]
    rw [if_pos]
    linarith
  · rw [hC]
    have : ¬ (q - ((n - 1 : Int) : Rat) < 1/2) := by push_cast; linarith
    rw [if_neg this, if_pos]
    · ring
    · push_cast; linarith

theorem roundHalfEven_neg (a : Rat) : roundHalfEven (-a) = -roundHalfEven a := by
  have hf1 := floor_le' a
  have hf2 := lt_floor_add_one' a
  have hg1 := floor_le' (-a)
  have hg2 := lt_floor_add_one' (-a)
  have hA : a.floor ≤ -(-a).floor := by
    have : ((a.floor : Int) : Rat) ≤ ((-(-a).floor : Int) : Rat) := by push_cast; linarith
    exact Int.cast_le.mp this
  have hB : -(-a).floor ≤ a.floor + 1 := by
    have : ((-(-a).floor - 1 : Int) : Rat) < ((a.floor + 1 : Int) : Rat) := by push_cast; linarith
    have := Int.cast_lt.mp this
    omega
  have hC : (-a).floor = -a.floor ∨ (-a).floor = -a.floor - 1 := by omega
  unfold roundHalfEven
  simp only
  rcases hC with hC | hC
  · rw [hC]
    have e1 : a = a.floor := by
      have : ((-a).floor : Rat) = -(a.floor : Rat) := by rw [hC]; push_cast; ring
      linarith
    have : a - (a.floor : Rat) = 0 := by linarith
    rw [this]
    have : -a - ((-a.floor : Int) : Rat) = 0 := by push_cast; linarith
    rw [this]
    norm_num
  · rw [hC]
    have hc : (((-a.floor - 1 : Int)) : Rat) = -(a.floor : Rat) - 1 := by push_cast; ring
    rw [hc]
    split_ifs <;> first | omega | (exfalso; linarith)

/-! ### pow2 -/

theorem pow2_eq_zpow (e : Int) : pow2 e = (2 : Rat) ^ e := by
  unfold pow2
  split_ifs with h
  · have : e = (e.toNat : Int) := by omega
    conv_rhs => rw [this]
    rw [zpow_natCast]
    push_cast
    rfl
  · have : e = -((-e).toNat : Int) := by omega
    conv_rhs => rw [this]
    rw [zpow_neg, zpow_natCast]
    push_cast
    rw [one_div]

theorem pow2_pos (e : Int) : 0 < pow2 e := by
  rw [pow2_eq_zpow]; positivity

theorem pow2_ne_zero (e : Int) : pow2 e ≠ 0 := (pow2_pos e).ne'

theorem pow2_add (a b : Int) : pow2 (a + b) = pow2 a * pow2 b := by
  simp only [pow2_eq_zpow]
  exact zpow_add₀ (by norm_num) a b

theorem pow2_sub (a b : Int) : pow2 (a - b) = pow2 a / pow2 b := by
  simp only [pow2_eq_zpow]
  exact zpow_sub₀ (by norm_num) a b

theorem pow2_lt_pow2 {a b : Int} (h : a < b) : pow2 a < pow2 b := by
  simp only [pow2_eq_zpow]
  exact zpow_lt_zpow_right₀ (by norm_num) h

theorem pow2_le_pow2 {a b : Int} (h : a ≤ b) : pow2 a ≤ pow2 b := by
  simp only [pow2_eq_zpow]
  exact zpow_le_zpow_right₀ (by norm_num) h

theorem pow2_lt_pow2_iff {a b : Int} : pow2 a < pow2 b ↔ a < b := by
  constructor
  · intro h
    by_contra hn
    exact absurd (pow2_le_pow2 (not_lt.mp hn)) (not_le.mpr h)
  · exact pow2_lt_pow2

theorem pow2_zero : pow2 0 = 1 := by rw [pow2_eq_zpow]; norm_num

theorem pow2_succ (e : Int) : pow2 (e + 1) = 2 * pow2 e := by
  rw [pow2_add, mul_comm]; congr 1

theorem pow2_natCast (n : Nat) : pow2 (n : Int) = (2 : Rat) ^ n := by
  rw [pow2_eq_zpow, zpow_natCast]

/-! ### ilog2 -/

theorem ilog2_spec {q : Rat} (hq : 0 < q) : pow2 (ilog2 q) ≤ q ∧ q < pow2 (ilog2 q + 1) := by
  have hnum : 0 < q.num := Rat.num_pos.mpr hq
  have hden : 0 < q.den := q.den_pos
  have hqe : q = (q.num.toNat : Rat) / (q.den : Rat) := by
    have h1 : ((q.num.toNat : Nat) : Rat) = ((q.num : Int) : Rat) := by
      have : ((q.num.toNat : Nat) : Int) = q.num := Int.toNat_of_nonneg hnum.le
      rw [← this]; push_cast; rfl
    rw [h1]
    exact (Rat.num_div_den q).symm
  have hn0 : q.num.toNat ≠ 0 := by omega
  have hd0 : q.den ≠ 0 := by omega
  have ha1 : ((2 : Rat) ^ q.num.toNat.log2) ≤ (q.num.toNat : Rat) := by
    exact_mod_cast Nat.log2_self_le hn0
  have ha2 : (q.num.toNat : Rat) < (2 : Rat) ^ (q.num.toNat.log2 + 1) := by
    exact_mod_cast (Nat.lt_log2_self (n := q.num.toNat))
  have hb1 : ((2 : Rat) ^ q.den.log2) ≤ (q.den : Rat) := by
    exact_mod_cast Nat.log2_self_le hd0
  have hb2 : (q.den : Rat) < (2 : Rat) ^ (q.den.log2 + 1) := by
    exact_mod_cast (Nat.lt_log2_self (n := q.den))
  have hdq : (0 : Rat) < (q.den : Rat) := by exact_mod_cast hden
  -- abbreviations
  generalize hA : q.num.toNat.log2 = A at *
  generalize hB : q.den.log2 = B at *
  generalize hN : (q.num.toNat : Rat) = N at *
  generalize hD : (q.den : Rat) = D at *
  have hlow : pow2 ((A : Int) - (B : Int) - 1) < q := by
    have : pow2 ((A : Int) - (B : Int) - 1) = (2 : Rat) ^ A / (2 : Rat) ^ (B + 1) := by
      have : (A : Int) - (B : Int) - 1 = (A : Int) - ((B + 1 : Nat) : Int) := by push_cast; ring
      rw [this, pow2_sub, pow2_natCast, pow2_natCast]
    rw [this, hqe]
    rw [div_lt_div_iff₀ (by positivity) hdq]
    calc (2 : Rat) ^ A * D < (2 : Rat) ^ A * (2 : Rat) ^ (B + 1) := by
          apply mul_lt_mul_of_pos_left hb2; positivity
      _ ≤ N * (2 : Rat) ^ (B + 1) := by
          apply mul_le_mul_of_nonneg_right ha1; positivity
  have hhigh : q < pow2 ((A : Int) - (B : Int) + 1) := by
    have : pow2 ((A : Int) - (B : Int) + 1) = (2 : Rat) ^ (A + 1) / (2 : Rat) ^ B := by
      have : (A : Int) - (B : Int) + 1 = ((A + 1 : Nat) : Int) - (B : Int) := by push_cast; ring
      rw [this, pow2_sub, pow2_natCast, pow2_natCast]
    rw [this, hqe]
    rw [div_lt_div_iff₀ hdq (by positivity)]
    calc N * (2 : Rat) ^ B < (2 : Rat) ^ (A + 1) * (2 : Rat) ^ B := by
          apply mul_lt_mul_of_pos_right ha2; positivity
      _ ≤ (2 : Rat) ^ (A + 1) * D := by
          apply mul_le_mul_of_nonneg_left hb1; positivity
  unfold ilog2
  rw [if_neg (not_le.mpr hq)]
  simp only [hA, hB]
  split_ifs with hc
  · exact ⟨hc, hhigh⟩
  · refine ⟨hlow.le, ?_⟩
    have : (A : Int) - (B : Int) - 1 + 1 = (A : Int) - (B : Int) := by ring
    rw [this]
    exact not_le.mp hc

/-- Uniqueness of the binade. -/
theorem ilog2_unique {q : Rat} {e : Int} (h1 : pow2 e ≤ q) (h2 : q < pow2 (e + 1)) :
    ilog2 q = e := by
  have hq : 0 < q := lt_of_lt_of_le (pow2_pos e) h1
  obtain ⟨s1, s2⟩ := ilog2_spec hq
  have a1 : ilog2 q < e + 1 := pow2_lt_pow2_iff.mp (lt_of_le_of_lt s1 h2)
  have a2 : e < ilog2 q + 1 := pow2_lt_pow2_iff.mp (lt_of_le_of_lt h1 s2)
  omega


/-! ### rnd -/

theorem absIf_eq (x : Rat) : (if x < 0 then -x else x) = |x| := by
  split_ifs with h
  · exact (abs_of_neg h).symm
  · exact (abs_of_nonneg (not_lt.mp h)).symm

theorem rnd_zero : rnd 0 = 0 := by
  unfold rnd; simp

theorem rnd_def_ne {x : Rat} (hx : x ≠ 0) :
    rnd x = (roundHalfEven (x / pow2 (ilog2 |x| - 23)) : Rat) * pow2 (ilog2 |x| - 23) := by
  unfold rnd
  rw [if_neg hx, absIf_eq]

theorem rnd_neg (x : Rat) : rnd (-x) = -rnd x := by
  by_cases hx : x = 0
  · subst hx; simp [rnd_zero]
  · have hnx : -x ≠ 0 := neg_ne_zero.mpr hx
    rw [rnd_def_ne hx, rnd_def_ne hnx, abs_neg, neg_div, roundHalfEven_neg]
    push_cast
    ring

/-- The candidate rounding of `x` in binade `e`. -/
theorem rnd_of_binade {x : Rat} {e : Int} (h1 : pow2 e ≤ x) (h2 : x < pow2 (e + 1)) :
    rnd x = (roundHalfEven (x / pow2 (e - 23)) : Rat) * pow2 (e - 23) := by
  have hq : 0 < x := lt_of_lt_of_le (pow2_pos e) h1
  rw [rnd_def_ne hq.ne', abs_of_pos hq, ilog2_unique h1 h2]

theorem pow2_div_pow2_sub (e : Int) (k : Nat) :
    pow2 e / pow2 (e - k) = (((2 : Int) ^ k : Int) : Rat) := by
  rw [← pow2_sub]
  have : e - (e - (k : Int)) = (k : Int) := by ring
  rw [this, pow2_natCast]
  push_cast
  rfl

theorem intpow_mul_pow2_sub (e : Int) (k : Nat) :
    (((2 : Int) ^ k : Int) : Rat) * pow2 (e - k) = pow2 e := by
  rw [← pow2_div_pow2_sub e k]
  exact div_mul_cancel₀ _ (pow2_ne_zero _)

theorem rnd_pow2 (e : Int) : rnd (pow2 e) = pow2 e := by
  rw [rnd_of_binade (le_refl _) (pow2_lt_pow2 (by omega : e < e + 1))]
  have := pow2_div_pow2_sub e 23
  norm_num at this
  rw [this]
  have h2 := roundHalfEven_intCast 8388608
  norm_num at h2
  rw [h2]
  have h3 := intpow_mul_pow2_sub e 23
  norm_num at h3
  exact h3

/-- `rnd` on a *closed* binade `[2^e, 2^(e+1)]` is rounding to a multiple of `2^(e-23)`. -/
theorem rnd_of_binade_closed {x : Rat} {e : Int} (h1 : pow2 e ≤ x) (h2 : x ≤ pow2 (e + 1)) :
    rnd x = (roundHalfEven (x / pow2 (e - 23)) : Rat) * pow2 (e - 23) := by
  rcases lt_or_eq_of_le h2 with h | h
  · exact rnd_of_binade h1 h
  · rw [h, rnd_pow2]
    have e1 : e - 23 = (e + 1) - ((24 : Nat) : Int) := by push_cast; ring
    rw [e1, pow2_div_pow2_sub, roundHalfEven_intCast, intpow_mul_pow2_sub]

theorem roundHalfEven_binade_bounds {x : Rat} {e : Int} (h1 : pow2 e ≤ x) (h2 : x ≤ pow2 (e + 1)) :
    (2 : Int) ^ 23 ≤ roundHalfEven (x / pow2 (e - 23)) ∧
      roundHalfEven (x / pow2 (e - 23)) ≤ (2 : Int) ^ 24 := by
  have hp : 0 < pow2 (e - 23) := pow2_pos _
  constructor
  · have : pow2 e / pow2 (e - 23) ≤ x / pow2 (e - 23) := div_le_div_of_nonneg_right h1 hp.le
    have hm := roundHalfEven_mono this
    have := pow2_div_pow2_sub e 23
    rw [Nat.cast_ofNat] at this
    rw [this, roundHalfEven_intCast] at hm
    exact hm
  · have : x / pow2 (e - 23) ≤ pow2 (e + 1) / pow2 (e - 23) := div_le_div_of_nonneg_right h2 hp.le
    have hm := roundHalfEven_mono this
    have e1 : e - 23 = (e + 1) - ((24 : Nat) : Int) := by push_cast; ring
    rw [e1, pow2_div_pow2_sub, roundHalfEven_intCast] at hm
    rw [e1]
    exact hm

theorem rnd_binade_bounds {x : Rat} {e : Int} (h1 : pow2 e ≤ x) (h2 : x ≤ pow2 (e + 1)) :
    pow2 e ≤ rnd x ∧ rnd x ≤ pow2 (e + 1) := by
  obtain ⟨b1, b2⟩ := roundHalfEven_binade_bounds h1 h2
  rw [rnd_of_binade_closed h1 h2]
  have hp : 0 < pow2 (e - 23) := pow2_pos _
  constructor
  · have := intpow_mul_pow2_sub e 23
    rw [← this]
    apply mul_le_mul_of_nonneg_right _ hp.le
    exact_mod_cast b1
  · have e1 : e - 23 = (e + 1) - ((24 : Nat) : Int) := by push_cast; ring
    have := intpow_mul_pow2_sub (e + 1) 24
    rw [← this, ← e1]
    apply mul_le_mul_of_nonneg_right _ hp.le
    exact_mod_cast b2

theorem rnd_pos {x : Rat} (h : 0 < x) : 0 < rnd x := by
  obtain ⟨s1, s2⟩ := ilog2_spec h
  exact lt_of_lt_of_le (pow2_pos _) (rnd_binade_bounds s1 s2.le).1

theorem rnd_mono_pos {x y : Rat} (hx : 0 < x) (h : x ≤ y) : rnd x ≤ rnd y := by
  have hy : 0 < y := lt_of_lt_of_le hx h
  obtain ⟨x1, x2⟩ := ilog2_spec hx
  obtain ⟨y1, y2⟩ := ilog2_spec hy
  have hle : ilog2 x ≤ ilog2 y := by
    have : ilog2 x < ilog2 y + 1 := pow2_lt_pow2_iff.mp (lt_of_le_of_lt (le_trans x1 h) y2)
    omega
  rcases Int.lt_or_eq_of_le hle with hlt | heq
  · calc rnd x ≤ pow2 (ilog2 x + 1) := (rnd_binade_bounds x1 x2.le).2
      _ ≤ pow2 (ilog2 y) := pow2_le_pow2 (by omega)
      _ ≤ rnd y := (rnd_binade_bounds y1 y2.le).1
  · rw [rnd_of_binade x1 x2, rnd_of_binade y1 y2, heq]
    have hp : 0 < pow2 (ilog2 y - 23) := pow2_pos _
    apply mul_le_mul_of_nonneg_right _ hp.le
    have := roundHalfEven_mono (div_le_div_of_nonneg_right h hp.le)
    exact_mod_cast this

theorem rnd_nonneg {x : Rat} (h : 0 ≤ x) : 0 ≤ rnd x := by
  rcases lt_or_eq_of_le h with h | h
  · exact (rnd_pos h).le
  · rw [← h, rnd_zero]

theorem rnd_nonpos {x : Rat} (h : x ≤ 0) : rnd x ≤ 0 := by
  have := rnd_nonneg (neg_nonneg.mpr h)
  rw [rnd_neg] at this
  linarith

theorem rnd_mono {x y : Rat} (h : x ≤ y) : rnd x ≤ rnd y := by
  rcases lt_trichotomy x 0 with hx | hx | hx
  · rcases le_or_gt 0 y with hy | hy
    · exact le_trans (rnd_nonpos hx.le) (rnd_nonneg hy)
    · have := rnd_mono_pos (neg_pos.mpr hy) (neg_le_neg h)
      rw [rnd_neg, rnd_neg] at this
      linarith
  · subst hx
    rw [rnd_zero]; exact rnd_nonneg h
  · exact rnd_mono_pos hx h

theorem rnd_idem (x : Rat) : rnd (rnd x) = rnd x := by
  have pos : ∀ x : Rat, 0 < x → rnd (rnd x) = rnd x := by
    intro x hx
    obtain ⟨s1, s2⟩ := ilog2_spec hx
    obtain ⟨b1, b2⟩ := rnd_binade_bounds s1 s2.le
    rw [rnd_of_binade_closed b1 b2]
    rw [rnd_of_binade_closed s1 s2.le]
    rw [mul_div_assoc, div_self (pow2_ne_zero _), mul_one, roundHalfEven_intCast]
  rcases lt_trichotomy x 0 with hx | hx | hx
  · have := pos (-x) (neg_pos.mpr hx)
    rw [rnd_neg, rnd_neg] at this
    linarith
  · subst hx; rw [rnd_zero, rnd_zero]
  · exact pos x hx

theorem rnd_le_pow2 {x : Rat} {e : Int} (h : x ≤ pow2 e) : rnd x ≤ pow2 e := by
  have := rnd_mono h
  rwa [rnd_pow2] at this

theorem rnd_ge_pow2 {x : Rat} {e : Int} (h : pow2 e ≤ x) : pow2 e ≤ rnd x := by
  have := rnd_mono h
  rwa [rnd_pow2] at this

theorem rnd_mul_pow2 (x : Rat) (k : Int) : rnd (x * pow2 k) = rnd x * pow2 k := by
  have pos : ∀ x : Rat, 0 < x → rnd (x * pow2 k) = rnd x * pow2 k := by
    intro x hx
    obtain ⟨s1, s2⟩ := ilog2_spec hx
    have hk : 0 < pow2 k := pow2_pos k
    have t1 : pow2 (ilog2 x + k) ≤ x * pow2 k := by
      rw [pow2_add]; exact mul_le_mul_of_nonneg_right s1 hk.le
    have t2 : x * pow2 k < pow2 (ilog2 x + k + 1) := by
      have : ilog2 x + k + 1 = (ilog2 x + 1) + k := by ring
      rw [this, pow2_add]; exact mul_lt_mul_of_pos_right s2 hk
    rw [rnd_of_binade t1 t2, rnd_of_binade s1 s2]
    have e1 : ilog2 x + k - 23 = (ilog2 x - 23) + k := by ring
    rw [e1, pow2_add]
    have : x * pow2 k / (pow2 (ilog2 x - 23) * pow2 k) = x / pow2 (ilog2 x - 23) := by
      rw [mul_div_mul_right _ _ hk.ne']
    rw [this]
    ring
  rcases lt_trichotomy x 0 with hx | hx | hx
  · have := pos (-x) (neg_pos.mpr hx)
    rw [neg_mul, rnd_neg, rnd_neg] at this
    linarith
  · subst hx; rw [zero_mul, rnd_zero, zero_mul]
  · exact pos x hx

/-! ### Concrete facts used by the evaluator proofs -/

theorem longScale_eq : ofInt 0xFFFFFFFFFFFFFFF = pow2 60 := by
  unfold ofInt
  have h1 : pow2 59 ≤ ((0xFFFFFFFFFFFFFFF : Int) : Rat) := by
    rw [pow2_eq_zpow]; norm_num
  have h2 : ((0xFFFFFFFFFFFFFFF : Int) : Rat) < pow2 (59 + 1) := by
    rw [pow2_eq_zpow]; norm_num
  rw [rnd_of_binade h1 h2]
  have h3 : roundHalfEven (((0xFFFFFFFFFFFFFFF : Int) : Rat) / pow2 (59 - 23)) = (2 : Int) ^ 24 := by
    apply roundHalfEven_eq_of_near
    · rw [pow2_eq_zpow]; norm_num
    · rw [pow2_eq_zpow]; norm_num
  rw [h3]
  simp only [pow2_eq_zpow]
  norm_num

theorem add_zero_right (s : Rat) (hs : rnd s = s) : add s (div (ofInt 0) 100000) = s := by
  unfold add div ofInt
  simp [rnd_zero, hs]


end LD.SoftF32

#print axioms LD.SoftF32.roundHalfEven_mono
#print axioms LD.SoftF32.roundHalfEven_intCast
#print axioms LD.SoftF32.roundHalfEven_neg
#print axioms LD.SoftF32.pow2_pos
#print axioms LD.SoftF32.pow2_add
#print axioms LD.SoftF32.pow2_lt_pow2
#print axioms LD.SoftF32.ilog2_spec
#print axioms LD.SoftF32.rnd_zero
#print axioms LD.SoftF32.rnd_neg
#print axioms LD.SoftF32.rnd_mono
#print axioms LD.SoftF32.rnd_idem
#print axioms LD.SoftF32.rnd_nonneg
#print axioms LD.SoftF32.rnd_pow2
#print axioms LD.SoftF32.rnd_mul_pow2
#print axioms LD.SoftF32.rnd_le_pow2
#print axioms LD.SoftF32.rnd_ge_pow2
#print axioms LD.SoftF32.longScale_eq
#print axioms LD.SoftF32.add_zero_right

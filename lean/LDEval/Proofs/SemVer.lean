/-
  LDEval.Proofs.SemVer — the model of go-semver (LDEval.Model.SemVer) against the Semantic
  Versioning 2.0.0 vocabulary of LDEval.Spec.SemVerSpec.
-/
import LDEval.Spec.SemVerSpec

namespace LD.SemVerM
open LD.Scan

/-! ### Strings and bytes -/

theorem toList_loop (l : List UInt8) (n : Nat) : ∀ (i : Nat) (r : List UInt8), l.length - i = n →
    ByteArray.toList.loop ⟨l.toArray⟩ i r = r.reverse ++ l.drop i := by
  induction n with
  | zero =>
    intro i r h
    rw [ByteArray.toList.loop.eq_1]
    have : ¬ (i < (ByteArray.mk l.toArray).size) := by simp [ByteArray.size]; omega
    rw [if_neg this, List.drop_eq_nil_of_le (by omega)]; simp
  | succ n ih =>
    intro i r h
    rw [ByteArray.toList.loop.eq_1]
    have hi : i < l.length := by omega
    have : (i < (ByteArray.mk l.toArray).size) := by simp [ByteArray.size]; omega
    rw [if_pos this, ih (i+1) _ (by omega), List.drop_eq_getElem_cons hi]
    simp [ByteArray.get!, hi]

theorem toByteArray_toList (l : List UInt8) : l.toByteArray.toList = l := by
  have h : l.toByteArray = ⟨l.toArray⟩ := by
    have := @List.data_toByteArray l
    cases hb : l.toByteArray with
    | mk d => rw [hb] at this; simp at this; rw [this]
  rw [h, ByteArray.toList, toList_loop l _ 0 [] rfl]; simp

/-- Every byte is a non-NUL ASCII byte (what `readUntil` can pass over or stop at). -/
def Ascii (s : List UInt8) : Prop := ∀ b ∈ s, (b == 0 || b > 127) = false

theorem ascii_le {b : UInt8} (h : (b == 0 || b > 127) = false) : b ≤ 127 := by
  simp only [Bool.or_eq_false_iff, gt_iff_lt, decide_eq_false_iff_not, UInt8.not_lt] at h
  exact h.2

theorem Ascii.nil : Ascii [] := by intro b hb; cases hb
theorem Ascii.cons {b : UInt8} {s : List UInt8} (hb : (b == 0 || b > 127) = false) (hs : Ascii s) :
    Ascii (b :: s) := by
  intro x hx; rcases List.mem_cons.mp hx with rfl | hx
  · exact hb
  · exact hs x hx
theorem Ascii.head {b : UInt8} {s : List UInt8} (h : Ascii (b :: s)) :
    (b == 0 || b > 127) = false := h b (by simp)
theorem Ascii.tail {b : UInt8} {s : List UInt8} (h : Ascii (b :: s)) : Ascii s :=
  fun x hx => h x (by simp [hx])
theorem Ascii.append {s t : List UInt8} (hs : Ascii s) (ht : Ascii t) : Ascii (s ++ t) := by
  intro x hx; rcases List.mem_append.mp hx with hx | hx
  · exact hs x hx
  · exact ht x hx

/-- `str` followed by the UTF-8 view is the identity on ASCII bytes. -/
theorem str_toUTF8 (bs : List UInt8) (h : ∀ b ∈ bs, b ≤ 127) : (str bs).toUTF8.toList = bs := by
  have : (str bs).toUTF8 = bs.toByteArray := by
    simp only [str, String.toUTF8, String.ofList, List.utf8Encode]
    congr 1
    induction bs with
    | nil => rfl
    | cons b bs ih =>
      have hb : b.toNat ≤ 127 := by
        have := h b (by simp); rwa [UInt8.le_iff_toNat_le] at this
      simp only [List.map_cons, List.flatMap_cons, ih (fun x hx => h x (by simp [hx]))]
      have : String.utf8EncodeChar (Char.ofNat b.toNat) = [b] := by
        have hv : (Char.ofNat b.toNat).val.toNat = b.toNat := by
          rw [Char.ofNat, dif_pos (by left; omega)]; simp [Char.ofNatAux]
        simp [String.utf8EncodeChar, hv, hb]
      rw [this]; rfl
  rw [this, toByteArray_toList]

theorem str_toUTF8_ascii (bs : List UInt8) (h : Ascii bs) : (str bs).toUTF8.toList = bs :=
  str_toUTF8 bs (fun b hb => ascii_le (h b hb))

theorem str_nil : str [] = "" := rfl

theorem str_eq_empty_iff (bs : List UInt8) : str bs = "" ↔ bs = [] := by
  constructor
  · intro h
    rw [← String.ofList_nil, str, String.ofList_inj] at h
    simpa using h
  · rintro rfl; rfl

theorem empty_toUTF8 : ("" : String).toUTF8.toList = [] := by
  have := str_toUTF8 [] (by simp); rwa [str_nil] at this

/-! ### Byte classes -/

theorem isDigit_iff (b : UInt8) : isDigit b = true ↔ 48 ≤ b.toNat ∧ b.toNat ≤ 57 := by
  simp [isDigit, UInt8.le_iff_toNat_le]

theorem isAlnumOrHyphen_iff (b : UInt8) : isAlnumOrHyphen b = true ↔
    (48 ≤ b.toNat ∧ b.toNat ≤ 57) ∨ (97 ≤ b.toNat ∧ b.toNat ≤ 122) ∨ (65 ≤ b.toNat ∧ b.toNat ≤ 90) ∨
      b.toNat = 45 := by
  simp only [isAlnumOrHyphen, Bool.or_eq_true, Bool.and_eq_true, decide_eq_true_eq,
    UInt8.le_iff_toNat_le, beq_iff_eq, or_assoc]
  have h45 : b = 45 ↔ b.toNat = 45 := by
    constructor
    · rintro rfl; rfl
    · intro h; exact UInt8.toNat_inj.mp (by simpa using h)
  rw [h45]; rfl

theorem beq_lit_false {b : UInt8} {k : UInt8} (h : b.toNat ≠ k.toNat) : (b == k) = false := by
  rw [beq_eq_false_iff_ne]; intro e; exact h (by rw [e])

theorem asciiNZ_of_toNat {b : UInt8} (h0 : b.toNat ≠ 0) (h1 : b.toNat ≤ 127) :
    (b == 0 || b > 127) = false := by
  simp only [Bool.or_eq_false_iff, gt_iff_lt, decide_eq_false_iff_not, UInt8.not_lt]
  refine ⟨beq_lit_false (by simpa using h0), ?_⟩
  rw [UInt8.le_iff_toNat_le]; simpa using h1

theorem c_hyphen : c '-' = 45 := by decide
theorem c_plus : c '+' = 43 := by decide
theorem c_dot : c '.' = 46 := by decide

theorem alnum_ascii {b : UInt8} (h : isAlnumOrHyphen b = true) : (b == 0 || b > 127) = false := by
  rw [isAlnumOrHyphen_iff] at h; apply asciiNZ_of_toNat <;> omega

theorem alnum_not_dot {b : UInt8} (h : isAlnumOrHyphen b = true) : isDot b = false := by
  rw [isAlnumOrHyphen_iff] at h; simp only [isDot, c_dot]; apply beq_lit_false; simp; omega

theorem alnum_not_plus {b : UInt8} (h : isAlnumOrHyphen b = true) : isPlus b = false := by
  rw [isAlnumOrHyphen_iff] at h; simp only [isPlus, c_plus]; apply beq_lit_false; simp; omega

theorem digit_alnum {b : UInt8} (h : isDigit b = true) : isAlnumOrHyphen b = true := by
  rw [isDigit_iff] at h; rw [isAlnumOrHyphen_iff]; omega

theorem digit_not_dhp {b : UInt8} (h : isDigit b = true) : isDotOrHyphenOrPlus b = false := by
  rw [isDigit_iff] at h
  simp only [isDotOrHyphenOrPlus, c_dot, c_hyphen, c_plus, Bool.or_eq_false_iff]
  refine ⟨⟨?_, ?_⟩, ?_⟩ <;> apply beq_lit_false <;> simp <;> omega

theorem digit_not_hp {b : UInt8} (h : isDigit b = true) : isHyphenOrPlus b = false := by
  rw [isDigit_iff] at h
  simp only [isHyphenOrPlus, c_hyphen, c_plus, Bool.or_eq_false_iff]
  refine ⟨?_, ?_⟩ <;> apply beq_lit_false <;> simp <;> omega

/-! ### readUntil -/

/-- Passing over `s` (ASCII, no terminator inside) up to the terminator `t`. -/
theorem readUntil_term {p : UInt8 → Bool} (s : List UInt8) (hs : Ascii s)
    (hp : ∀ b ∈ s, p b = false) (t : UInt8) (rest : List UInt8) (ht : p t = true)
    (hta : (t == 0 || t > 127) = false) :
    readUntil p (s ++ t :: rest) = (s, .ch t, rest) := by
  induction s with
  | nil => simp only [List.nil_append, readUntil]; rw [hta]; simp [ht]
  | cons d ds ih =>
    simp only [List.cons_append, readUntil]
    rw [hs.head, hp d (by simp), ih hs.tail (fun b hb => hp b (by simp [hb]))]; simp

theorem readUntil_eof {p : UInt8 → Bool} (s : List UInt8) (hs : Ascii s)
    (hp : ∀ b ∈ s, p b = false) : readUntil p s = (s, .eof, []) := by
  induction s with
  | nil => rfl
  | cons d ds ih =>
    simp only [readUntil]
    rw [hs.head, hp d (by simp), ih hs.tail (fun b hb => hp b (by simp [hb]))]; simp

/-! ### Numbers -/

theorem wrapI64_id {x : Int} (h0 : 0 ≤ x) (h1 : x < 2 ^ 63) : wrapI64 x = x := by
  unfold wrapI64; omega

theorem digitsVal_ge (ds : List UInt8) (acc : Nat) : acc ≤ digitsVal ds acc := by
  induction ds generalizing acc with
  | nil => exact Nat.le_refl _
  | cons d ds ih => simp only [digitsVal]; have := ih (acc * 10 + (d.toNat - 48)); omega

theorem digitsVal_append (a b : List UInt8) (acc : Nat) :
    digitsVal (a ++ b) acc = digitsVal b (digitsVal a acc) := by
  induction a generalizing acc with
  | nil => rfl
  | cons x a ih => simp only [List.cons_append, digitsVal, ih]

theorem numLoop_digits (ds : List UInt8) (hds : ds.all isDigit = true) (acc : Nat)
    (hb : digitsVal ds acc < 2 ^ 63) : numLoop ds (acc : Int) = some ((digitsVal ds acc : Nat) : Int) := by
  induction ds generalizing acc with
  | nil => rfl
  | cons d ds ih =>
    simp only [List.all_cons, Bool.and_eq_true] at hds
    simp only [numLoop, hds.1, Bool.not_true, Bool.false_eq_true, ↓reduceIte, digitsVal] at hb ⊢
    have hge := digitsVal_ge ds (acc * 10 + (d.toNat - 48))
    have hcast : (acc : Int) * 10 + ((d.toNat - 48 : Nat) : Int) = ((acc * 10 + (d.toNat - 48) : Nat) : Int) := by
      simp [Int.natCast_add, Int.natCast_mul]
    rw [hcast, wrapI64_id (by omega) (by omega)]
    exact ih hds.2 _ hb

theorem numLoop_nondigit (ds : List UInt8) (hds : ds.all isDigit = false) (acc : Int) :
    numLoop ds acc = none := by
  induction ds generalizing acc with
  | nil => simp at hds
  | cons d ds ih =>
    simp only [numLoop]
    cases hd : isDigit d with
    | false => simp
    | true =>
      simp only [List.all_cons, hd, Bool.true_and] at hds
      simp [ih hds]

/-- A digit string without a leading zero (or just `"0"`) whose value fits. -/
theorem parseNum_digits (ds : List UInt8) (hne : ds ≠ []) (hds : ds.all isDigit = true)
    (hz : ds.length > 1 → ds.head? ≠ some 48) (hb : digitsVal ds 0 < 2 ^ 63) :
    parseNum ds = some ((digitsVal ds 0 : Nat) : Int) := by
  cases ds with
  | nil => exact absurd rfl hne
  | cons d rest =>
    have h1 : (d == 48 && !rest.isEmpty) = false := by
      cases rest with
      | nil => simp
      | cons e rest =>
        have := hz (by simp)
        simp only [List.head?_cons, ne_eq, Option.some.injEq] at this
        simp [this]
    simp only [parseNum, h1, Bool.false_eq_true, ↓reduceIte]
    exact numLoop_digits _ hds 0 hb

theorem parseNum_nondigit (ds : List UInt8) (hds : ds.all isDigit = false) : parseNum ds = none := by
  cases ds with
  | nil => rfl
  | cons d rest =>
    simp only [parseNum, numLoop_nondigit _ hds]; split <;> rfl

theorem digitByte_toNat (n : Nat) (h : n < 10) : (UInt8.ofNat (48 + n)).toNat = 48 + n := by
  simp only [UInt8.toNat_ofNat']; omega

theorem numBytes_all_digit (n : Nat) : (numBytes n).all isDigit = true := by
  induction n using Nat.strongRecOn with
  | _ n ih =>
    rw [numBytes]; split
    · simp only [List.all_cons, List.all_nil, Bool.and_true]
      rw [isDigit_iff, digitByte_toNat n (by omega)]; omega
    · simp only [List.all_append, ih (n / 10) (by omega), List.all_cons, List.all_nil, Bool.and_true,
        Bool.true_and]
      rw [isDigit_iff, digitByte_toNat _ (by omega)]; omega

theorem numBytes_ne_nil (n : Nat) : numBytes n ≠ [] := by
  rw [numBytes]; split <;> simp

theorem digitsVal_numBytes (n : Nat) : digitsVal (numBytes n) 0 = n := by
  induction n using Nat.strongRecOn with
  | _ n ih =>
    rw [numBytes]; split
    · simp only [digitsVal]; rw [digitByte_toNat n (by omega)]; omega
    · simp only [digitsVal_append, ih (n / 10) (by omega), digitsVal]
      rw [digitByte_toNat _ (by omega)]; omega

theorem numBytes_head (n : Nat) (hn : 0 < n) : (numBytes n).head? ≠ some 48 := by
  induction n using Nat.strongRecOn with
  | _ n ih =>
    rw [numBytes]; split
    · simp only [List.head?_cons, ne_eq, Option.some.injEq]
      intro e; have := congrArg UInt8.toNat e
      rw [digitByte_toNat n (by omega)] at this; simp at this; omega
    · have := ih (n / 10) (by omega) (by omega)
      have hne := numBytes_ne_nil (n / 10)
      cases hq : numBytes (n / 10) with
      | nil => exact absurd hq hne
      | cons x xs => rw [hq] at this; simpa using this

theorem numBytes_length (n : Nat) (h : (numBytes n).length > 1) : 0 < n := by
  rcases Nat.eq_zero_or_pos n with rfl | h0
  · rw [numBytes] at h; simp at h
  · exact h0

theorem parseNum_numBytes (n : Nat) (h : n < 2 ^ 63) : parseNum (numBytes n) = some (n : Int) := by
  have := parseNum_digits (numBytes n) (numBytes_ne_nil n) (numBytes_all_digit n)
    (fun hl => numBytes_head n (numBytes_length n hl)) (by rw [digitsVal_numBytes]; exact h)
  rw [this, digitsVal_numBytes]

theorem leading_zero_rejected (d : UInt8) (rest : List UInt8) : parseNum (48 :: d :: rest) = none := by
  simp [parseNum]


/-! ### Components -/

theorem digits_ascii {s : List UInt8} (h : s.all isDigit = true) : Ascii s := by
  intro b hb; exact alnum_ascii (digit_alnum (List.all_eq_true.mp h b hb))

/-- What the scanner reports after a component: the terminator and the remaining input. -/
def splitTerm : List UInt8 → Term × List UInt8
  | [] => (.eof, [])
  | t :: r => (.ch t, r)

/-- `T` is empty or starts with a terminator of `p`. -/
def StartsWithTerm (p : UInt8 → Bool) (T : List UInt8) : Prop :=
  T = [] ∨ ∃ t r, T = t :: r ∧ p t = true ∧ (t == 0 || t > 127) = false

theorem component_numBytes {p : UInt8 → Bool} (hnd : ∀ b, isDigit b = true → p b = false)
    (n : Nat) (hn : n < 2 ^ 63) (T : List UInt8) (hT : StartsWithTerm p T) :
    component p (numBytes n ++ T) = some ((n : Int), (splitTerm T).1, (splitTerm T).2) := by
  have hd := numBytes_all_digit n
  have hp : ∀ b ∈ numBytes n, p b = false := fun b hb => hnd b (List.all_eq_true.mp hd b hb)
  rcases hT with rfl | ⟨t, r, rfl, ht, hta⟩
  · simp only [component, List.append_nil, readUntil_eof _ (digits_ascii hd) hp,
      parseNum_numBytes n hn, splitTerm]
    rfl
  · simp only [component, readUntil_term _ (digits_ascii hd) hp t r ht hta,
      parseNum_numBytes n hn, splitTerm]
    rfl

/-- A component that does not start with a digit is rejected (empty, or a stray character). -/
theorem component_nondigit (p : UInt8 → Bool) (inp : List UInt8)
    (h : ∀ b, inp.head? = some b → isDigit b = false) : component p inp = none := by
  cases inp with
  | nil => rfl
  | cons b rest =>
    have hb := h b rfl
    simp only [component, readUntil]
    by_cases h1 : (b == 0 || b > 127) = true
    · simp [h1]
    · by_cases h2 : p b = true
      · simp [h1, h2, parseNum]
      · simp only [h1, h2, Bool.false_eq_true, ↓reduceIte]
        split
        · rfl
        · rw [parseNum_nondigit _ (by simp [hb])]

/-! ### Identifier sections -/

theorem joinDots_cons_cons (x y : List UInt8) (l : List (List UInt8)) :
    joinDots (x :: y :: l) = x ++ 46 :: joinDots (y :: l) := rfl

theorem joinDots_mem {nr : Bool} (l : List (List UInt8)) (hok : ∀ s ∈ l, IdentOK nr s) :
    ∀ b ∈ joinDots l, isAlnumOrHyphen b = true ∨ b = 46 := by
  induction l with
  | nil => intro b hb; cases hb
  | cons x l ih =>
    cases l with
    | nil => intro b hb; exact Or.inl ((hok x (by simp)).2.1 b hb)
    | cons y l =>
      intro b hb
      rw [joinDots_cons_cons] at hb
      rcases List.mem_append.mp hb with hb | hb
      · exact Or.inl ((hok x (by simp)).2.1 b hb)
      · rcases List.mem_cons.mp hb with rfl | hb
        · exact Or.inr rfl
        · exact ih (fun s hs => hok s (by simp [hs])) b hb

theorem dot_ascii : ((46 : UInt8) == 0 || (46 : UInt8) > 127) = false := by decide

theorem joinDots_ascii {nr : Bool} (l : List (List UInt8)) (hok : ∀ s ∈ l, IdentOK nr s) :
    Ascii (joinDots l) := by
  intro b hb
  rcases joinDots_mem l hok b hb with h | rfl
  · exact alnum_ascii h
  · exact dot_ascii

theorem joinDots_not_plus {nr : Bool} (l : List (List UInt8)) (hok : ∀ s ∈ l, IdentOK nr s) :
    ∀ b ∈ joinDots l, isPlus b = false := by
  intro b hb
  rcases joinDots_mem l hok b hb with h | rfl
  · exact alnum_not_plus h
  · decide

theorem joinDots_ne_nil {nr : Bool} (l : List (List UInt8)) (hok : ∀ s ∈ l, IdentOK nr s)
    (hne : l ≠ []) : joinDots l ≠ [] := by
  cases l with
  | nil => exact absurd rfl hne
  | cons x l =>
    have hx := (hok x (by simp)).1
    cases l with
    | nil => exact hx
    | cons y l => rw [joinDots_cons_cons]; cases x <;> simp at hx ⊢

theorem joinDots_length {nr : Bool} (l : List (List UInt8)) (hok : ∀ s ∈ l, IdentOK nr s) :
    l.length ≤ (joinDots l).length := by
  induction l with
  | nil => simp
  | cons x l ih =>
    have hx : 0 < x.length := List.length_pos_iff.mpr (hok x (by simp)).1
    cases l with
    | nil => simp only [joinDots, List.length_cons, List.length_nil]; omega
    | cons y l =>
      have := ih (fun s hs => hok s (by simp [hs]))
      rw [joinDots_cons_cons]; simp only [List.length_append, List.length_cons] at this ⊢; omega

/-- Reading the first identifier of a dot-joined list. -/
theorem readUntil_joinDots {nr : Bool} (x : List UInt8) (l : List (List UInt8))
    (hx : IdentOK nr x) :
    readUntil isDot (joinDots (x :: l)) =
      (x, (if l.isEmpty then Term.eof else Term.ch 46), joinDots l) := by
  have ha : Ascii x := fun b hb => alnum_ascii (hx.2.1 b hb)
  have hp : ∀ b ∈ x, isDot b = false := fun b hb => alnum_not_dot (hx.2.1 b hb)
  cases l with
  | nil => simp only [joinDots, readUntil_eof x ha hp]; rfl
  | cons y l =>
    rw [joinDots_cons_cons, readUntil_term x ha hp 46 _ (by decide) dot_ascii]; rfl

theorem validateLoop_joinDots (nr : Bool) (l : List (List UInt8)) (hok : ∀ s ∈ l, IdentOK nr s)
    (hne : l ≠ []) (fuel : Nat) (hf : l.length ≤ fuel) :
    validateLoop nr fuel (joinDots l) = true := by
  induction l generalizing fuel with
  | nil => exact absurd rfl hne
  | cons x l ih =>
    cases fuel with
    | zero => simp at hf
    | succ fuel =>
      have hx := hok x (by simp)
      have hxe : x.isEmpty = false := by cases x <;> simp at hx ⊢; exact absurd rfl hx.1
      have hxa : x.all isAlnumOrHyphen = true := List.all_eq_true.mpr hx.2.1
      have hnum : (nr && decide (x.length > 1) && x.all isDigit && x.head? == some 48) = false := by
        cases hnr : nr with
        | false => simp
        | true =>
          by_cases h1 : x.length > 1
          · cases h2 : x.all isDigit with
            | false => simp
            | true =>
              have := hx.2.2 hnr h2 h1
              simp [h1, this]
          · simp [h1]
      simp only [validateLoop, readUntil_joinDots x l hx, hxe, hxa, hnum]
      cases l with
      | nil => simp
      | cons y l =>
        simp only [List.isEmpty_cons, Bool.false_eq_true, ↓reduceIte]
        have := ih (fun s hs => hok s (by simp [hs])) (by simp) fuel
          (by simp only [List.length_cons] at hf ⊢; omega)
        simp [this]

theorem validatePrerelease_joinDots (l : List (List UInt8)) (hok : ∀ s ∈ l, IdentOK true s)
    (hne : l ≠ []) : validatePrerelease (joinDots l) = true :=
  validateLoop_joinDots true l hok hne _ (by have := joinDots_length l hok; omega)

theorem validateBuild_joinDots (l : List (List UInt8)) (hok : ∀ s ∈ l, IdentOK false s)
    (hne : l ≠ []) : validateBuild (joinDots l) = true :=
  validateLoop_joinDots false l hok hne _ (by have := joinDots_length l hok; omega)


/-! ### The tail: `[-prerelease][+build]` -/

theorem is_eof (ch : Char) : Term.is .eof ch = false := rfl
theorem is_ch (b : UInt8) (ch : Char) : Term.is (.ch b) ch = (b == c ch) := by
  simp only [Term.is, c]
  by_cases h : b = UInt8.ofNat ch.toNat
  · subst h; simp
  · have : (Term.ch b) ≠ Term.ch (UInt8.ofNat ch.toNat) := by
      intro e; exact h (Term.ch.inj e)
    rw [beq_eq_false_iff_ne.mpr this, beq_eq_false_iff_ne.mpr h]

theorem isEmpty_false {α} {l : List α} (h : l ≠ []) : l.isEmpty = false := by
  cases l with
  | nil => exact absurd rfl h
  | cons => rfl

theorem splitTerm_cons (t : UInt8) (r : List UInt8) : splitTerm (t :: r) = (.ch t, r) := rfl
theorem is_46_dot : (Term.ch 46).is '.' = true := by decide

theorem is_43_plus : (Term.ch 43).is '+' = true := by decide
theorem is_43_hyphen : (Term.ch 43).is '-' = false := by decide
theorem is_45_hyphen : (Term.ch 45).is '-' = true := by decide

theorem parseTail_render (M m q : Int) (pre build : List (List UInt8))
    (hpre : ∀ s ∈ pre, IdentOK true s) (hbuild : ∀ s ∈ build, IdentOK false s) :
    parseTail { major := M, minor := m, patch := q }
        (splitTerm (optSection 45 pre ++ optSection 43 build)).1
        (splitTerm (optSection 45 pre ++ optSection 43 build)).2 =
      some { major := M, minor := m, patch := q, prerelease := str (joinDots pre),
             build := str (joinDots build) } := by
  have hnt : ∀ b ∈ joinDots build, noTerm b = false := fun _ _ => rfl
  cases hp : pre with
  | nil =>
    cases hb : build with
    | nil => simp [optSection, splitTerm, parseTail, is_eof, joinDots, str_nil]
    | cons y ys =>
      have hne : build ≠ [] := by rw [hb]; simp
      have h1 := isEmpty_false (joinDots_ne_nil build hbuild hne)
      have h2 := validateBuild_joinDots build hbuild hne
      have hr := readUntil_eof _ (joinDots_ascii _ hbuild) hnt
      rw [hb] at h1 h2 hr
      simp [optSection, splitTerm, parseTail, is_43_plus, is_43_hyphen, hr, h1, h2, joinDots,
        str_nil]
  | cons x xs =>
    have hne : pre ≠ [] := by rw [hp]; simp
    have h1 := isEmpty_false (joinDots_ne_nil pre hpre hne)
    have h2 := validatePrerelease_joinDots pre hpre hne
    cases hb : build with
    | nil =>
      have hr := readUntil_eof _ (joinDots_ascii _ hpre) (joinDots_not_plus _ hpre)
      rw [hp] at h1 h2 hr
      simp [optSection, splitTerm, parseTail, is_45_hyphen, is_eof, hr, h1, h2, joinDots, str_nil]
    | cons y ys =>
      have hr := readUntil_term _ (joinDots_ascii _ hpre) (joinDots_not_plus _ hpre) 43
        (joinDots build) (by decide) (by decide)
      have hne' : build ≠ [] := by rw [hb]; simp
      have h3 := isEmpty_false (joinDots_ne_nil build hbuild hne')
      have h4 := validateBuild_joinDots build hbuild hne'
      have hr' := readUntil_eof _ (joinDots_ascii _ hbuild) hnt
      rw [hp, hb] at hr
      rw [hb] at h3 h4 hr'
      rw [hp] at h1 h2
      simp [optSection, splitTerm, parseTail, is_45_hyphen, is_43_plus, hr, h1, h2, hr', h3, h4]

/-- The tail is empty or starts with `-` or `+`. -/
theorem tail_head (pre build : List (List UInt8)) :
    optSection 45 pre ++ optSection 43 build = [] ∨
    ∃ t r, optSection 45 pre ++ optSection 43 build = t :: r ∧ (t = 45 ∨ t = 43) := by
  cases pre with
  | nil =>
    cases build with
    | nil => left; rfl
    | cons y ys => right; exact ⟨43, _, rfl, Or.inr rfl⟩
  | cons x xs => right; exact ⟨45, _, rfl, Or.inl rfl⟩

theorem tail_startsWith_dhp (pre build) :
    StartsWithTerm isDotOrHyphenOrPlus (optSection 45 pre ++ optSection 43 build) := by
  rcases tail_head pre build with h | ⟨t, r, h, ht⟩
  · exact Or.inl h
  · right; refine ⟨t, r, h, ?_⟩; rcases ht with rfl | rfl <;> decide

theorem tail_startsWith_hp (pre build) :
    StartsWithTerm isHyphenOrPlus (optSection 45 pre ++ optSection 43 build) := by
  rcases tail_head pre build with h | ⟨t, r, h, ht⟩
  · exact Or.inl h
  · right; refine ⟨t, r, h, ?_⟩; rcases ht with rfl | rfl <;> decide

theorem tail_not_dot (pre build) :
    (splitTerm (optSection 45 pre ++ optSection 43 build)).1.is '.' = false := by
  rcases tail_head pre build with h | ⟨t, r, h, ht⟩
  · rw [h]; rfl
  · rw [h]; simp only [splitTerm, is_ch]; rcases ht with rfl | rfl <;> decide

/-- **Theorem 1.** Every well-formed version string — minor and patch optionally omitted —
parses to its components (omitted minor / patch read as 0). -/
theorem parse_render (p : Parts) (h : p.Valid) :
    parseBytes p.render =
      some { major := p.major, minor := p.minor.getD 0, patch := p.patch.getD 0,
             prerelease := str (joinDots p.pre), build := str (joinDots p.build) } := by
  obtain ⟨hpm, hM, hm, hq, hpre, hbuild⟩ := h
  have hT1 := tail_startsWith_dhp p.pre p.build
  have hT2 := tail_startsWith_hp p.pre p.build
  cases hmin : p.minor with
  | none =>
    have hpat : p.patch = none := by
      cases hpp : p.patch with
      | none => rfl
      | some q => rw [hpp, hmin] at hpm; exact absurd (hpm rfl) (by simp)
    simp only [Parts.render, hmin, hpat, dotNum, List.append_nil, List.append_assoc, parseBytes,
      component_numBytes (fun b => digit_not_dhp) p.major hM _ hT1, tail_not_dot,
      Bool.false_eq_true, ↓reduceIte, Option.getD_none]
    exact parseTail_render _ 0 0 _ _ hpre hbuild
  | some m =>
    have hm' := hm m hmin
    have hS1 : ∀ X : List UInt8, StartsWithTerm isDotOrHyphenOrPlus (46 :: X) :=
      fun X => Or.inr ⟨46, X, rfl, by decide, by decide⟩
    cases hpat : p.patch with
    | none =>
      simp only [Parts.render, hmin, hpat, dotNum, List.append_nil, List.append_assoc,
        List.cons_append, parseBytes,
        component_numBytes (fun b => digit_not_dhp) p.major hM _ (hS1 _), splitTerm_cons,
        is_46_dot, component_numBytes (fun b => digit_not_dhp) m hm' _ hT1, tail_not_dot,
        Option.getD_none, Option.getD_some, ↓reduceIte, Bool.false_eq_true]
      exact parseTail_render _ _ 0 _ _ hpre hbuild
    | some q =>
      have hq' := hq q hpat
      simp only [Parts.render, hmin, hpat, dotNum, List.append_assoc,
        List.cons_append, parseBytes,
        component_numBytes (fun b => digit_not_dhp) p.major hM _ (hS1 _), splitTerm_cons,
        is_46_dot, component_numBytes (fun b => digit_not_dhp) m hm' _ (hS1 _),
        component_numBytes (fun b => digit_not_hp) q hq' _ hT2,
        Option.getD_some, ↓reduceIte]
      exact parseTail_render _ _ _ _ _ hpre hbuild


/-! ### Three-way comparators -/

/-- A three-way result. -/
def Tri (x : Int) : Prop := x = -1 ∨ x = 0 ∨ x = 1

/-- A three-way comparator that is antisymmetric and transitive (a total preorder). -/
structure IsCmp {α : Type} (f : α → α → Int) : Prop where
  antisymm : ∀ a b, f a b = - f b a
  trans : ∀ a b c, f a b ≤ 0 → f b c ≤ 0 → f a c ≤ 0

namespace IsCmp
variable {α : Type} {f : α → α → Int} (h : IsCmp f)
include h

theorem refl (a : α) : f a a = 0 := by have := h.antisymm a a; omega

theorem eq_trans {a b c : α} (h1 : f a b = 0) (h2 : f b c = 0) : f a c = 0 := by
  have t1 := h.trans a b c (by omega) (by omega)
  have t2 := h.trans c b a (by have := h.antisymm c b; omega) (by have := h.antisymm b a; omega)
  have := h.antisymm a c; omega

theorem lt_le {a b c : α} (h1 : f a b < 0) (h2 : f b c ≤ 0) : f a c < 0 := by
  have t1 := h.trans a b c (by omega) h2
  have t2 : f a c ≠ 0 := by
    intro e
    have := h.trans b c a h2 (by have := h.antisymm c a; omega)
    have := h.antisymm a b; omega
  omega

theorem le_lt {a b c : α} (h1 : f a b ≤ 0) (h2 : f b c < 0) : f a c < 0 := by
  have t1 := h.trans a b c h1 (by omega)
  have t2 : f a c ≠ 0 := by
    intro e
    have := h.trans c a b (by have := h.antisymm c a; omega) h1
    have := h.antisymm b c; omega
  omega

end IsCmp

/-- `d`, unless it is 0, then `r` (lexicographic combination). -/
def thenCmp (d r : Int) : Int := if d != 0 then d else r

theorem thenCmp_neg (d r : Int) : thenCmp (-d) (-r) = - thenCmp d r := by
  unfold thenCmp; by_cases h : d = 0 <;> simp [h]

theorem thenCmp_tri {d r : Int} (hd : Tri d) (hr : Tri r) : Tri (thenCmp d r) := by
  unfold thenCmp; split
  · exact hd
  · exact hr

theorem IsCmp.andThen {α : Type} {f g : α → α → Int} (hf : IsCmp f) (hg : IsCmp g) :
    IsCmp (fun a b => thenCmp (f a b) (g a b)) where
  antisymm a b := by
    show thenCmp (f a b) (g a b) = - thenCmp (f b a) (g b a)
    rw [hf.antisymm a b, hg.antisymm a b, thenCmp_neg]
  trans a b c := by
    show thenCmp (f a b) (g a b) ≤ 0 → thenCmp (f b c) (g b c) ≤ 0 → thenCmp (f a c) (g a c) ≤ 0
    unfold thenCmp
    intro h1 h2
    by_cases e1 : f a b = 0
    · by_cases e2 : f b c = 0
      · have e3 := hf.eq_trans e1 e2
        simp only [e1, e2, e3, bne_self_eq_false, Bool.false_eq_true, ↓reduceIte] at h1 h2 ⊢
        exact hg.trans a b c h1 h2
      · simp only [e1, bne_self_eq_false, Bool.false_eq_true, ↓reduceIte] at h1
        simp only [bne_iff_ne, ne_eq, e2, not_false_eq_true, ↓reduceIte] at h2
        have := hf.le_lt (a := a) (b := b) (c := c) (by omega) (by omega)
        have e3 : f a c ≠ 0 := by omega
        simp only [bne_iff_ne, ne_eq, e3, not_false_eq_true, ↓reduceIte]; omega
    · simp only [bne_iff_ne, ne_eq, e1, not_false_eq_true, ↓reduceIte] at h1
      have h2' : f b c ≤ 0 := by
        by_cases e2 : f b c = 0
        · omega
        · simpa [e2] using h2
      have := hf.lt_le (a := a) (b := b) (c := c) (by omega) h2'
      have e3 : f a c ≠ 0 := by omega
      simp only [bne_iff_ne, ne_eq, e3, not_false_eq_true, ↓reduceIte]; omega

theorem IsCmp.comap {α β : Type} {f : α → α → Int} (hf : IsCmp f) (k : β → α) :
    IsCmp (fun a b => f (k a) (k b)) where
  antisymm _ _ := hf.antisymm _ _
  trans _ _ _ := hf.trans _ _ _

/-- Lexicographic comparison of lists; a proper prefix is smaller. -/
def lexList {α : Type} (f : α → α → Int) : List α → List α → Int
  | [], [] => 0
  | [], _ :: _ => -1
  | _ :: _, [] => 1
  | x :: xs, y :: ys => thenCmp (f x y) (lexList f xs ys)

theorem lexList_tri {α : Type} {f : α → α → Int} (hf : ∀ a b, Tri (f a b)) (a b : List α) :
    Tri (lexList f a b) := by
  induction a generalizing b with
  | nil => cases b <;> simp [lexList, Tri]
  | cons x xs ih =>
    cases b with
    | nil => simp [lexList, Tri]
    | cons y ys => exact thenCmp_tri (hf x y) (ih ys)

theorem lexList_antisymm {α : Type} {f : α → α → Int} (hf : ∀ a b, f a b = - f b a)
    (a b : List α) : lexList f a b = - lexList f b a := by
  induction a generalizing b with
  | nil => cases b <;> simp [lexList]
  | cons x xs ih =>
    cases b with
    | nil => simp [lexList]
    | cons y ys => simp only [lexList]; rw [hf x y, ih ys, thenCmp_neg]

theorem lexList_refl {α : Type} {f : α → α → Int} (hf : ∀ a, f a a = 0) (a : List α) :
    lexList f a a = 0 := by
  induction a with
  | nil => rfl
  | cons x xs ih => simp [lexList, thenCmp, hf x, ih]

theorem IsCmp.lex {α : Type} {f : α → α → Int} (hf : IsCmp f) : IsCmp (lexList f) where
  antisymm := lexList_antisymm hf.antisymm
  trans a := by
    induction a with
    | nil =>
      intro b c h1 h2
      cases c with
      | nil => simp [lexList]
      | cons => simp [lexList]
    | cons x xs ih =>
      intro b c h1 h2
      cases b with
      | nil => simp [lexList] at h1
      | cons y ys =>
        cases c with
        | nil => simp [lexList] at h2
        | cons z zs =>
          -- the head comparator combined with the (inductively transitive) tail
          simp only [lexList, thenCmp] at h1 h2 ⊢
          by_cases e1 : f x y = 0
          · by_cases e2 : f y z = 0
            · have e3 := hf.eq_trans e1 e2
              simp only [e1, e2, e3, bne_self_eq_false, Bool.false_eq_true, ↓reduceIte] at h1 h2 ⊢
              exact ih ys zs h1 h2
            · simp only [bne_iff_ne, ne_eq, e2, not_false_eq_true, ↓reduceIte] at h2
              have := hf.le_lt (a := x) (b := y) (c := z) (by omega) (by omega)
              have e3 : f x z ≠ 0 := by omega
              simp only [bne_iff_ne, ne_eq, e3, not_false_eq_true, ↓reduceIte]; omega
          · simp only [bne_iff_ne, ne_eq, e1, not_false_eq_true, ↓reduceIte] at h1
            have h2' : f y z ≤ 0 := by
              by_cases e2 : f y z = 0
              · omega
              · simpa [e2] using h2
            have := hf.lt_le (a := x) (b := y) (c := z) (by omega) h2'
            have e3 : f x z ≠ 0 := by omega
            simp only [bne_iff_ne, ne_eq, e3, not_false_eq_true, ↓reduceIte]; omega


/-! ### The model's comparators -/

theorem cmpInt_tri (a b : Int) : Tri (cmpInt a b) := by
  unfold cmpInt Tri; split
  · simp
  · split <;> simp

theorem isCmp_cmpInt : IsCmp cmpInt where
  antisymm a b := by unfold cmpInt; split <;> split <;> (try split) <;> (try split) <;> omega
  trans a b c := by
    unfold cmpInt; intro h1 h2
    split at h1 <;> split at h2 <;> (try split at h1) <;> (try split at h2) <;> split <;>
      (try split) <;> omega

theorem cmpInt_ne_zero (a b : Int) : (cmpInt a b != 0) = (a != b) := by
  unfold cmpInt
  by_cases h : a = b
  · subst h; simp
  · have : (a != b) = true := by simpa using h
    rw [this]; split
    · rfl
    · split
      · rfl
      · omega

/-- Three-way comparison of bytes. -/
def cmpByte (a b : UInt8) : Int := if a < b then -1 else if a > b then 1 else 0

theorem cmpByte_tri (a b : UInt8) : Tri (cmpByte a b) := by
  unfold cmpByte Tri; split
  · simp
  · split <;> simp

theorem cmpByte_eq (a b : UInt8) : cmpByte a b = cmpInt a.toNat b.toNat := by
  unfold cmpByte cmpInt
  simp only [UInt8.lt_iff_toNat_lt, gt_iff_lt, Int.ofNat_lt]

theorem isCmp_cmpByte : IsCmp cmpByte := by
  have := isCmp_cmpInt.comap (fun b : UInt8 => (b.toNat : Int))
  have e : cmpByte = fun a b => cmpInt ((fun b : UInt8 => (b.toNat : Int)) a)
      ((fun b : UInt8 => (b.toNat : Int)) b) := by
    funext a b; exact cmpByte_eq a b
  rw [e]; exact this

theorem lexCmp_eq (a b : List UInt8) : lexCmp a b = lexList cmpByte a b := by
  induction a generalizing b with
  | nil => cases b <;> rfl
  | cons x xs ih =>
    cases b with
    | nil => rfl
    | cons y ys =>
      simp only [lexCmp, lexList, thenCmp, cmpByte, ih ys]
      split
      · rfl
      · split
        · rfl
        · rfl

theorem isCmp_lexCmp : IsCmp lexCmp := by
  have : lexCmp = lexList cmpByte := by funext a b; exact lexCmp_eq a b
  rw [this]; exact isCmp_cmpByte.lex

theorem lexCmp_tri (a b : List UInt8) : Tri (lexCmp a b) := by
  rw [lexCmp_eq]; exact lexList_tri cmpByte_tri a b

theorem lexCmp_antisymm (a b : List UInt8) : lexCmp a b = - lexCmp b a := isCmp_lexCmp.antisymm a b

theorem cmpIdent_tri (a b : List UInt8) : Tri (cmpIdent a b) := by
  unfold cmpIdent
  cases parseNum a <;> cases parseNum b
  · exact lexCmp_tri a b
  · simp [Tri]
  · simp [Tri]
  · exact cmpInt_tri _ _

theorem cmpIdent_antisymm (a b : List UInt8) : cmpIdent a b = - cmpIdent b a := by
  unfold cmpIdent
  cases parseNum a <;> cases parseNum b
  · exact lexCmp_antisymm a b
  · rfl
  · rfl
  · exact isCmp_cmpInt.antisymm _ _

theorem cmpIdent_trans (a b c : List UInt8) (h1 : cmpIdent a b ≤ 0) (h2 : cmpIdent b c ≤ 0) :
    cmpIdent a c ≤ 0 := by
  unfold cmpIdent at h1 h2 ⊢
  cases ha : parseNum a <;> cases hb : parseNum b <;> cases hc : parseNum c <;>
    simp only [ha, hb, hc] at h1 h2 ⊢ <;>
    first
      | omega
      | exact isCmp_lexCmp.trans a b c h1 h2
      | exact isCmp_cmpInt.trans _ _ _ h1 h2

theorem isCmp_cmpIdent : IsCmp cmpIdent := ⟨cmpIdent_antisymm, cmpIdent_trans⟩

/-! ### The prerelease loop as a comparison of identifier lists -/

/-- The identifiers `cmpPreLoop` reads from one side (with the loop's fuel). -/
def identsF : Nat → List UInt8 → List (List UInt8)
  | 0, _ => []
  | fuel + 1, s =>
    if s.isEmpty then [] else (readUntil isDot s).1 :: identsF fuel (readUntil isDot s).2.2

theorem cmpPreLoop_eq (fuel : Nat) (a b : List UInt8) :
    cmpPreLoop fuel a b = lexList cmpIdent (identsF fuel a) (identsF fuel b) := by
  induction fuel generalizing a b with
  | zero => rfl
  | succ fuel ih =>
    simp only [cmpPreLoop, identsF]
    cases ha : a.isEmpty <;> cases hb : b.isEmpty <;>
      simp only [Bool.false_eq_true, ↓reduceIte, lexList, thenCmp, ih]

theorem cmpPreLoop_tri (fuel : Nat) (a b : List UInt8) : Tri (cmpPreLoop fuel a b) := by
  rw [cmpPreLoop_eq]; exact lexList_tri cmpIdent_tri _ _

theorem cmpPreLoop_antisymm (fuel : Nat) (a b : List UInt8) :
    cmpPreLoop fuel a b = - cmpPreLoop fuel b a := by
  rw [cmpPreLoop_eq, cmpPreLoop_eq]; exact lexList_antisymm cmpIdent_antisymm _ _

theorem cmpPreLoop_refl (fuel : Nat) (a : List UInt8) : cmpPreLoop fuel a a = 0 := by
  rw [cmpPreLoop_eq]; exact lexList_refl isCmp_cmpIdent.refl _

/-! ### `compare` as a lexicographic combination -/

/-- The prerelease step of `compare`. -/
def preCmp (x y : String) : Int :=
  if x == "" && y == "" then 0
  else if x == "" then 1
  else if y == "" then -1
  else cmpPreLoop (x.toUTF8.toList.length + y.toUTF8.toList.length + 1) x.toUTF8.toList
    y.toUTF8.toList

theorem compare_eq (v o : SemVer) :
    compare v o = thenCmp (cmpInt v.major o.major) (thenCmp (cmpInt v.minor o.minor)
      (thenCmp (cmpInt v.patch o.patch) (preCmp v.prerelease o.prerelease))) := by
  unfold compare thenCmp preCmp
  simp only [cmpInt_ne_zero]

theorem preCmp_tri (x y : String) : Tri (preCmp x y) := by
  unfold preCmp
  split
  · simp [Tri]
  · split
    · simp [Tri]
    · split
      · simp [Tri]
      · exact cmpPreLoop_tri _ _ _

theorem preCmp_antisymm (x y : String) : preCmp x y = - preCmp y x := by
  unfold preCmp
  by_cases hx : x = "" <;> by_cases hy : y = "" <;> simp [hx, hy]
  rw [Nat.add_comm y.toByteArray.toList.length]; exact cmpPreLoop_antisymm _ _ _

theorem preCmp_refl (x : String) : preCmp x x = 0 := by
  have := preCmp_antisymm x x; omega

/-- **3a.** -/
theorem compare_refl (v : SemVer) : compare v v = 0 := by
  rw [compare_eq]; simp [thenCmp, isCmp_cmpInt.refl, preCmp_refl]

/-- **3b.** -/
theorem compare_antisymm (a b : SemVer) : compare a b = - compare b a := by
  rw [compare_eq, compare_eq, isCmp_cmpInt.antisymm a.major, isCmp_cmpInt.antisymm a.minor,
    isCmp_cmpInt.antisymm a.patch, preCmp_antisymm a.prerelease]
  simp only [thenCmp_neg]

/-- **3c.** Build metadata is ignored. -/
theorem compare_build_ignored (a b : SemVer) (x : String) :
    compare { a with build := x } b = compare a b := rfl

theorem compare_build_ignored_right (a b : SemVer) (x : String) :
    compare a { b with build := x } = compare a b := rfl

/-- **3d.** A version with a prerelease part is lower than the same version without. -/
theorem prerelease_lower (v : SemVer) (h : v.prerelease ≠ "") :
    compare v { v with prerelease := "" } = -1 := by
  rw [compare_eq]; simp [thenCmp, isCmp_cmpInt.refl, preCmp, h]

/-- **3e.** -/
theorem compare_range (a b : SemVer) : compare a b = -1 ∨ compare a b = 0 ∨ compare a b = 1 := by
  rw [compare_eq]
  exact thenCmp_tri (cmpInt_tri _ _) (thenCmp_tri (cmpInt_tri _ _)
    (thenCmp_tri (cmpInt_tri _ _) (preCmp_tri _ _)))


/-! ### The general shape of a `readUntil` result -/

/-- What `readUntil` does on an arbitrary input: it passes over non-NUL ASCII bytes that are not
terminators, and stops at the end, at (and consuming) a terminator, or in front of a NUL /
non-ASCII byte. -/
theorem readUntil_shape (p : UInt8 → Bool) (s : List UInt8) :
    Ascii (readUntil p s).1 ∧ (∀ b ∈ (readUntil p s).1, p b = false) ∧
    match (readUntil p s).2.1 with
    | .eof => (readUntil p s).2.2 = [] ∧ s = (readUntil p s).1
    | .ch t => s = (readUntil p s).1 ++ t :: (readUntil p s).2.2 ∧ p t = true ∧
        (t == 0 || t > 127) = false
    | .nonAscii => s = (readUntil p s).1 ++ (readUntil p s).2.2 ∧
        ∃ b rest, (readUntil p s).2.2 = b :: rest ∧ (b == 0 || b > 127) = true := by
  induction s with
  | nil => exact ⟨Ascii.nil, by simp [readUntil], by simp [readUntil]⟩
  | cons x xs ih =>
    by_cases h1 : (x == 0 || x > 127) = true
    · have e : readUntil p (x :: xs) = ([], .nonAscii, x :: xs) := by simp only [readUntil, h1]; rfl
      rw [e]; exact ⟨Ascii.nil, by simp, by simp, x, xs, rfl, h1⟩
    · have h1' : (x == 0 || x > 127) = false := by simpa using h1
      by_cases h2 : p x = true
      · have e : readUntil p (x :: xs) = ([], .ch x, xs) := by
          simp only [readUntil, h1', h2]; rfl
        rw [e]; exact ⟨Ascii.nil, by simp, by simp, h2, h1'⟩
      · have h2' : p x = false := by simpa using h2
        have e : readUntil p (x :: xs) =
            (x :: (readUntil p xs).1, (readUntil p xs).2.1, (readUntil p xs).2.2) := by
          simp only [readUntil, h1', h2']; rfl
        rw [e]
        obtain ⟨i1, i2, i3⟩ := ih
        refine ⟨Ascii.cons h1' i1, ?_, ?_⟩
        · intro b hb; rcases List.mem_cons.mp hb with rfl | hb
          · exact h2'
          · exact i2 b hb
        · show match (readUntil p xs).2.1 with
            | .eof => _
            | .ch t => _
            | .nonAscii => _
          cases ht : (readUntil p xs).2.1 with
          | eof => rw [ht] at i3; simp only at i3 ⊢; exact ⟨i3.1, by rw [← i3.2]⟩
          | ch t =>
            rw [ht] at i3; simp only at i3 ⊢
            exact ⟨by rw [List.cons_append, ← i3.1], i3.2⟩
          | nonAscii =>
            rw [ht] at i3; simp only at i3 ⊢
            exact ⟨by rw [List.cons_append, ← i3.1], i3.2⟩

/-- On ASCII input `readUntil` never reports `nonAscii`. -/
theorem readUntil_ascii (p : UInt8 → Bool) (s : List UInt8) (hs : Ascii s) :
    ((readUntil p s).2.1 = .eof ∧ (readUntil p s).2.2 = [] ∧ s = (readUntil p s).1) ∨
    (∃ t, (readUntil p s).2.1 = .ch t ∧ s = (readUntil p s).1 ++ t :: (readUntil p s).2.2) := by
  have h := (readUntil_shape p s).2.2
  cases ht : (readUntil p s).2.1 with
  | eof => rw [ht] at h; exact Or.inl ⟨rfl, h.1, h.2⟩
  | ch t => rw [ht] at h; exact Or.inr ⟨t, rfl, h.1⟩
  | nonAscii =>
    rw [ht] at h
    obtain ⟨e, b, rest, hb, hbad⟩ := h
    have : b ∈ s := by rw [e, hb]; simp
    rw [hs b this] at hbad; cases hbad

theorem readUntil_rest_ascii (p : UInt8 → Bool) (s : List UInt8) (hs : Ascii s) :
    Ascii (readUntil p s).2.2 := by
  rcases readUntil_ascii p s hs with ⟨_, h, _⟩ | ⟨t, _, h⟩
  · rw [h]; exact Ascii.nil
  · intro b hb; exact hs b (by rw [h]; simp [hb])

theorem readUntil_rest_length (p : UInt8 → Bool) (s : List UInt8) (hs : Ascii s) (hne : s ≠ []) :
    (readUntil p s).2.2.length < s.length := by
  rcases readUntil_ascii p s hs with ⟨_, h, _⟩ | ⟨t, _, h⟩
  · rw [h]; exact List.length_pos_iff.mpr hne
  · have := congrArg List.length h
    simp only [List.length_append, List.length_cons] at this; omega

/-! ### Fuel independence on ASCII input -/

theorem identsF_fuel (n : Nat) : ∀ (s : List UInt8), Ascii s → s.length ≤ n → ∀ f g, n ≤ f → n ≤ g →
    identsF f s = identsF g s := by
  induction n with
  | zero =>
    intro s _ hl f g _ _
    have : s = [] := List.length_eq_zero_iff.mp (by omega)
    subst this
    cases f <;> cases g <;> simp [identsF]
  | succ n ih =>
    intro s hs hl f g hf hg
    obtain ⟨f, rfl⟩ : ∃ f', f = f' + 1 := ⟨f - 1, by omega⟩
    obtain ⟨g, rfl⟩ : ∃ g', g = g' + 1 := ⟨g - 1, by omega⟩
    simp only [identsF]
    cases he : s.isEmpty with
    | true => rfl
    | false =>
      have hne : s ≠ [] := by intro e; rw [e] at he; cases he
      have := readUntil_rest_length isDot s hs hne
      simp only [Bool.false_eq_true, ↓reduceIte]
      rw [ih _ (readUntil_rest_ascii isDot s hs) (by omega) f g (by omega) (by omega)]

/-- The identifiers of an (ASCII) prerelease string as the comparison loop sees them. -/
def identsOf (s : List UInt8) : List (List UInt8) := identsF s.length s

theorem cmpPreLoop_identsOf (a b : List UInt8) (ha : Ascii a) (hb : Ascii b) :
    cmpPreLoop (a.length + b.length + 1) a b = lexList cmpIdent (identsOf a) (identsOf b) := by
  rw [cmpPreLoop_eq, identsOf, identsOf,
    identsF_fuel a.length a ha (Nat.le_refl _) _ a.length (by omega) (Nat.le_refl _),
    identsF_fuel b.length b hb (Nat.le_refl _) _ b.length (by omega) (Nat.le_refl _)]

/-! ### 3f. Transitivity -/

/-- The prerelease string consists of non-NUL ASCII characters (true of every parsed version,
`parseBytes_preAscii`). -/
def PreAscii (v : SemVer) : Prop := Ascii v.prerelease.toUTF8.toList

theorem isCmp_preCmp :
    IsCmp (fun a b : {x : String // Ascii x.toUTF8.toList} => preCmp a.1 b.1) where
  antisymm a b := preCmp_antisymm a.1 b.1
  trans := by
    rintro ⟨x, hx⟩ ⟨y, hy⟩ ⟨z, hz⟩
    show preCmp x y ≤ 0 → preCmp y z ≤ 0 → preCmp x z ≤ 0
    unfold preCmp
    cases ex : (x == "") <;> cases ey : (y == "") <;> cases ez : (z == "") <;>
      simp only [Bool.and_self, Bool.and_true, Bool.and_false,
        ↓reduceIte, Bool.false_eq_true] <;>
      try omega
    rw [cmpPreLoop_identsOf _ _ hx hy, cmpPreLoop_identsOf _ _ hy hz, cmpPreLoop_identsOf _ _ hx hz]
    exact isCmp_cmpIdent.lex.trans _ _ _

theorem isCmp_compare : IsCmp (fun a b : {v : SemVer // PreAscii v} => compare a.1 b.1) := by
  have e : (fun a b : {v : SemVer // PreAscii v} => compare a.1 b.1) =
      (fun a b => thenCmp (cmpInt a.1.major b.1.major) (thenCmp (cmpInt a.1.minor b.1.minor)
        (thenCmp (cmpInt a.1.patch b.1.patch) (preCmp a.1.prerelease b.1.prerelease)))) := by
    funext a b; exact compare_eq a.1 b.1
  rw [e]
  exact (isCmp_cmpInt.comap (fun a : {v : SemVer // PreAscii v} => a.1.major)).andThen
    ((isCmp_cmpInt.comap (fun a : {v : SemVer // PreAscii v} => a.1.minor)).andThen
      ((isCmp_cmpInt.comap (fun a : {v : SemVer // PreAscii v} => a.1.patch)).andThen
        (isCmp_preCmp.comap (fun a : {v : SemVer // PreAscii v} => ⟨a.1.prerelease, a.2⟩))))

/-- **3f.** `compare · · ≤ 0` is transitive on versions whose prerelease string is ASCII. -/
theorem compare_trans (a b c : SemVer) (ha : PreAscii a) (hb : PreAscii b) (hc : PreAscii c)
    (h1 : compare a b ≤ 0) (h2 : compare b c ≤ 0) : compare a c ≤ 0 :=
  isCmp_compare.trans ⟨a, ha⟩ ⟨b, hb⟩ ⟨c, hc⟩ h1 h2

/-- Strict version: `<` then `≤` is `<`. -/
theorem compare_lt_of_lt_of_le (a b c : SemVer) (ha : PreAscii a) (hb : PreAscii b)
    (hc : PreAscii c) (h1 : compare a b = -1) (h2 : compare b c ≤ 0) : compare a c = -1 := by
  have := isCmp_compare.lt_le (a := ⟨a, ha⟩) (b := ⟨b, hb⟩) (c := ⟨c, hc⟩) (by show compare a b < 0; omega) h2
  have : compare a c < 0 := this
  rcases compare_range a c with h | h | h <;> omega

theorem compare_lt_of_le_of_lt (a b c : SemVer) (ha : PreAscii a) (hb : PreAscii b)
    (hc : PreAscii c) (h1 : compare a b ≤ 0) (h2 : compare b c = -1) : compare a c = -1 := by
  have := isCmp_compare.le_lt (a := ⟨a, ha⟩) (b := ⟨b, hb⟩) (c := ⟨c, hc⟩) h1 (by show compare b c < 0; omega)
  have : compare a c < 0 := this
  rcases compare_range a c with h | h | h <;> omega

/-- Versions of equal precedence are interchangeable. -/
theorem compare_eq_trans (a b c : SemVer) (ha : PreAscii a) (hb : PreAscii b) (hc : PreAscii c)
    (h1 : compare a b = 0) (h2 : compare b c = 0) : compare a c = 0 :=
  isCmp_compare.eq_trans (a := ⟨a, ha⟩) (b := ⟨b, hb⟩) (c := ⟨c, hc⟩) h1 h2


/-! ### What a successful parse guarantees about the prerelease string -/

theorem validateLoop_bytes (nr : Bool) (fuel : Nat) (s : List UInt8)
    (h : validateLoop nr fuel s = true) : ∀ b ∈ s, isAlnumOrHyphen b = true ∨ b = 46 := by
  induction fuel generalizing s with
  | zero => simp [validateLoop] at h
  | succ fuel ih =>
    have sh := readUntil_shape isDot s
    simp only [validateLoop] at h
    split at h
    · cases h
    · rename_i hna
      split at h
      · cases h
      · rename_i hal
        have hal' : ∀ b ∈ (readUntil isDot s).1, isAlnumOrHyphen b = true := by
          simpa using hal
        split at h
        · cases h
        · split at h
          · rename_i heof
            have heof' : (readUntil isDot s).2.1 = .eof := by simpa using heof
            have h3 := sh.2.2; rw [heof'] at h3
            intro b hb; rw [h3.2] at hb; exact Or.inl (hal' b hb)
          · rename_i hne
            have hrec := ih _ h
            cases ht : (readUntil isDot s).2.1 with
            | eof => rw [ht] at hne; simp at hne
            | nonAscii => rw [ht] at hna; simp at hna
            | ch t =>
              have h3 := sh.2.2; rw [ht] at h3
              obtain ⟨e, hdot, _⟩ := h3
              have ht46 : t = 46 := by simpa [isDot, c_dot] using hdot
              intro b hb; rw [e] at hb
              rcases List.mem_append.mp hb with hb | hb
              · exact Or.inl (hal' b hb)
              · rcases List.mem_cons.mp hb with rfl | hb
                · exact Or.inr ht46
                · exact hrec b hb

theorem validatePrerelease_ascii (s : List UInt8) (h : validatePrerelease s = true) : Ascii s := by
  intro b hb
  rcases validateLoop_bytes _ _ s h b hb with h | rfl
  · exact alnum_ascii h
  · exact dot_ascii

theorem parseTail_prerelease (v0 v : SemVer) (t : Term) (r : List UInt8)
    (h : parseTail v0 t r = some v) :
    v.prerelease = v0.prerelease ∨
      ∃ bs, bs ≠ [] ∧ validatePrerelease bs = true ∧ v.prerelease = str bs := by
  have stage2 : ∀ (v' : SemVer) (term : Term) (rest : List UInt8),
      (if term.is '+' = true then
        if ((readUntil noTerm rest).1.isEmpty || (readUntil noTerm rest).2.1 == Term.nonAscii ||
            !validateBuild (readUntil noTerm rest).1) = true then none
        else some { v' with build := str (readUntil noTerm rest).1 }
      else some v') = some v → v.prerelease = v'.prerelease := by
    intro v' term rest h
    split at h
    · split at h
      · cases h
      · cases h; rfl
    · cases h; rfl
  by_cases h1 : t.is '-' = true
  · simp only [parseTail, h1, ↓reduceIte] at h
    split at h
    · cases h
    · rename_i v' term rest hc
      rw [stage2 v' term rest h]
      split at hc
      · cases hc
      · rename_i hcond
        simp only [Bool.or_eq_true, not_or, Bool.not_eq_true, Bool.not_eq_eq_eq_not,
          Bool.not_true] at hcond
        have hne : (readUntil isPlus r).1 ≠ [] := by
          intro e; rw [e] at hcond; simp at hcond
        have hv : validatePrerelease (readUntil isPlus r).1 = true := by
          have := hcond.2; simpa using this
        right; refine ⟨_, hne, hv, ?_⟩
        cases hc; rfl
  · simp only [parseTail, h1, Bool.false_eq_true, ↓reduceIte] at h
    left; exact stage2 v0 t r h

/-- The prerelease string of a parsed version is empty, or the `str` of a non-empty byte string
accepted by `validatePrerelease`. -/
theorem parseBytes_prerelease (inp : List UInt8) (v : SemVer) (h : parseBytes inp = some v) :
    v.prerelease = "" ∨ ∃ bs, bs ≠ [] ∧ validatePrerelease bs = true ∧ v.prerelease = str bs := by
  unfold parseBytes at h
  split at h
  · cases h
  · split at h
    · split at h
      · cases h
      · split at h
        · split at h
          · cases h
          · exact parseTail_prerelease _ _ _ _ h
        · exact parseTail_prerelease _ _ _ _ h
    · exact parseTail_prerelease _ _ _ _ h

theorem parseBytes_preAscii (inp : List UInt8) (v : SemVer) (h : parseBytes inp = some v) :
    PreAscii v := by
  rcases parseBytes_prerelease inp v h with e | ⟨bs, _, hv, e⟩
  · unfold PreAscii; rw [e, empty_toUTF8]; exact Ascii.nil
  · unfold PreAscii; rw [e, str_toUTF8_ascii _ (validatePrerelease_ascii bs hv)]
    exact validatePrerelease_ascii bs hv

/-- **3f** for parsed versions. -/
theorem compare_trans_parsed (x y z : List UInt8) (a b c : SemVer)
    (ha : parseBytes x = some a) (hb : parseBytes y = some b) (hc : parseBytes z = some c)
    (h1 : compare a b ≤ 0) (h2 : compare b c ≤ 0) : compare a c ≤ 0 :=
  compare_trans a b c (parseBytes_preAscii x a ha) (parseBytes_preAscii y b hb)
    (parseBytes_preAscii z c hc) h1 h2


/-! ### 2. Rejections -/

/-- `T` is empty or starts with something that is not a digit. -/
def NoDigitHead (T : List UInt8) : Prop := ∀ b, T.head? = some b → isDigit b = false

theorem dot_startsWith (X : List UInt8) : StartsWithTerm isDotOrHyphenOrPlus (46 :: X) :=
  Or.inr ⟨46, X, rfl, by decide, by decide⟩

/-- **Empty (or non-numeric) component.** A version string whose major, minor or patch component
is missing — `""`, `".1"`, `"1."`, `"1..0"`, `"1.2."`, `"1.2.-rc"` … — or starts with a non-digit
(`"v1.0.0"`, `"-1"`, `" 1"`) is rejected. -/
theorem empty_component_rejected (M m : Nat) (hM : M < 2 ^ 63) (hm : m < 2 ^ 63)
    (T : List UInt8) (hT : NoDigitHead T) :
    parseBytes T = none ∧
    parseBytes (numBytes M ++ 46 :: T) = none ∧
    parseBytes (numBytes M ++ 46 :: (numBytes m ++ 46 :: T)) = none := by
  refine ⟨?_, ?_, ?_⟩
  · simp only [parseBytes, component_nondigit _ T hT]
  · simp only [parseBytes, component_numBytes (fun b => digit_not_dhp) M hM _ (dot_startsWith _),
      splitTerm_cons, is_46_dot, ↓reduceIte, component_nondigit _ T hT]
  · simp only [parseBytes, component_numBytes (fun b => digit_not_dhp) M hM _ (dot_startsWith _),
      component_numBytes (fun b => digit_not_dhp) m hm _ (dot_startsWith _),
      splitTerm_cons, is_46_dot, ↓reduceIte, component_nondigit _ T hT]

/-- A numeric component with a leading zero (`"01.0.0"`, and likewise further on). -/
theorem component_leading_zero (p : UInt8 → Bool) (d : UInt8) (hd : isDigit d = true)
    (hp0 : p 48 = false) (hpd : p d = false) (rest : List UInt8) :
    component p (48 :: d :: rest) = none := by
  have a0 : ((48 : UInt8) == 0 || (48 : UInt8) > 127) = false := by decide
  have ad := alnum_ascii (digit_alnum hd)
  simp only [component, readUntil, a0, hp0, ad, hpd, Bool.false_eq_true, ↓reduceIte]
  split
  · rfl
  · rw [leading_zero_rejected]

theorem leading_zero_major_rejected (d : UInt8) (hd : isDigit d = true) (rest : List UInt8) :
    parseBytes (48 :: d :: rest) = none := by
  simp only [parseBytes, component_leading_zero _ d hd (by decide) (digit_not_dhp hd)]

theorem leading_zero_minor_rejected (M : Nat) (hM : M < 2 ^ 63) (d : UInt8) (hd : isDigit d = true)
    (rest : List UInt8) : parseBytes (numBytes M ++ 46 :: 48 :: d :: rest) = none := by
  simp only [parseBytes, component_numBytes (fun b => digit_not_dhp) M hM _ (dot_startsWith _),
    splitTerm_cons, is_46_dot, ↓reduceIte,
    component_leading_zero _ d hd (by decide) (digit_not_dhp hd)]

theorem leading_zero_patch_rejected (M m : Nat) (hM : M < 2 ^ 63) (hm : m < 2 ^ 63) (d : UInt8)
    (hd : isDigit d = true) (rest : List UInt8) :
    parseBytes (numBytes M ++ 46 :: (numBytes m ++ 46 :: 48 :: d :: rest)) = none := by
  simp only [parseBytes, component_numBytes (fun b => digit_not_dhp) M hM _ (dot_startsWith _),
    component_numBytes (fun b => digit_not_dhp) m hm _ (dot_startsWith _),
    splitTerm_cons, is_46_dot, ↓reduceIte,
    component_leading_zero _ d hd (by decide) (digit_not_hp hd)]

/-- Passing over a prefix that contains no terminator. -/
theorem readUntil_pass {p : UInt8 → Bool} (s : List UInt8) (hs : Ascii s)
    (hp : ∀ b ∈ s, p b = false) (X : List UInt8) :
    readUntil p (s ++ X) = (s ++ (readUntil p X).1, (readUntil p X).2.1, (readUntil p X).2.2) := by
  induction s with
  | nil => rfl
  | cons d ds ih =>
    simp only [List.cons_append, readUntil]
    rw [hs.head, hp d (by simp), ih hs.tail (fun b hb => hp b (by simp [hb]))]; simp

/-- **A fourth numeric component** (`"1.2.3.4"`): the patch component runs up to `-`, `+` or the
end, so it contains the dot and is not a number. -/
theorem fourth_component_rejected (M m q : Nat) (hM : M < 2 ^ 63) (hm : m < 2 ^ 63)
    (T : List UInt8) :
    parseBytes (numBytes M ++ 46 :: (numBytes m ++ 46 :: (numBytes q ++ 46 :: T))) = none := by
  have hd := numBytes_all_digit q
  have hr := readUntil_pass (p := isHyphenOrPlus) (numBytes q) (digits_ascii hd)
    (fun b hb => digit_not_hp (List.all_eq_true.mp hd b hb)) (46 :: T)
  have h46 : readUntil isHyphenOrPlus (46 :: T) =
      (46 :: (readUntil isHyphenOrPlus T).1, (readUntil isHyphenOrPlus T).2.1,
        (readUntil isHyphenOrPlus T).2.2) := by
    simp only [readUntil]
    rw [dot_ascii, show isHyphenOrPlus 46 = false by decide]; rfl
  have hc : component isHyphenOrPlus (numBytes q ++ 46 :: T) = none := by
    simp only [component, hr, h46]
    split
    · rfl
    · rw [parseNum_nondigit]
      simp only [List.all_append, List.all_cons, Bool.and_eq_false_iff]
      right; left; decide
  simp only [parseBytes, component_numBytes (fun b => digit_not_dhp) M hM _ (dot_startsWith _),
    component_numBytes (fun b => digit_not_dhp) m hm _ (dot_startsWith _),
    splitTerm_cons, is_46_dot, ↓reduceIte, hc]

/-! #### NUL and non-ASCII bytes -/

theorem readUntil_rest_nonascii (p : UInt8 → Bool) (s : List UInt8) (hs : ¬ Ascii s)
    (ht : (readUntil p s).2.1 ≠ .nonAscii) :
    ¬ Ascii (readUntil p s).2.2 ∧ ∃ t, (readUntil p s).2.1 = .ch t ∧ p t = true := by
  obtain ⟨h1, _, h3⟩ := readUntil_shape p s
  cases hterm : (readUntil p s).2.1 with
  | eof => rw [hterm] at h3; exact absurd (h3.2 ▸ h1) hs
  | nonAscii => exact absurd hterm ht
  | ch t =>
    rw [hterm] at h3
    refine ⟨?_, t, rfl, h3.2.1⟩
    intro hr; apply hs; rw [h3.1]
    exact h1.append (Ascii.cons h3.2.2 hr)

theorem component_nonascii (p : UInt8 → Bool) (inp : List UInt8) (hs : ¬ Ascii inp)
    (n : Int) (t : Term) (r : List UInt8) (h : component p inp = some (n, t, r)) :
    ¬ Ascii r ∧ ∃ ch, t = .ch ch ∧ p ch = true := by
  simp only [component] at h
  split at h
  · cases h
  · rename_i hna
    have hna' : (readUntil p inp).2.1 ≠ .nonAscii := by simpa using hna
    split at h
    · cases h
      exact readUntil_rest_nonascii p inp hs hna'
    · cases h

theorem parseTail_nonascii (v : SemVer) (ch : UInt8) (hch : ch = 45 ∨ ch = 43) (r : List UInt8)
    (hr : ¬ Ascii r) : parseTail v (.ch ch) r = none := by
  -- the build stage on a rest that contains a bad byte
  have stage2 : ∀ (v' : SemVer) (rest : List UInt8), ¬ Ascii rest →
      (if ((readUntil noTerm rest).1.isEmpty || (readUntil noTerm rest).2.1 == Term.nonAscii ||
            !validateBuild (readUntil noTerm rest).1) = true then none
        else some { v' with build := str (readUntil noTerm rest).1 }) = none := by
    intro v' rest hrest
    have : (readUntil noTerm rest).2.1 = .nonAscii := by
      apply Classical.byContradiction; intro hne
      obtain ⟨_, t, _, ht⟩ := readUntil_rest_nonascii noTerm rest hrest hne
      cases ht
    simp [this]
  rcases hch with rfl | rfl
  · simp only [parseTail, is_45_hyphen, ↓reduceIte]
    by_cases hna : (readUntil isPlus r).2.1 = .nonAscii
    · simp [hna]
    · obtain ⟨hrest, t, ht, hp⟩ := readUntil_rest_nonascii isPlus r hr hna
      have ht43 : t = 43 := by simpa [isPlus, c_plus] using hp
      subst ht43
      split
      · rfl
      · rename_i v' term rest heq
        split at heq
        · cases heq
        · cases heq
          simp only [ht, is_43_plus, ↓reduceIte]
          exact stage2 { v with prerelease := str (readUntil isPlus r).1 } _ hrest
  · simp only [parseTail, is_43_hyphen, Bool.false_eq_true, ↓reduceIte, is_43_plus]
    exact stage2 _ _ hr

theorem not_dot_of_dhp {ch : UInt8} (h : isDotOrHyphenOrPlus ch = true)
    (hd : (Term.ch ch).is '.' = false) : ch = 45 ∨ ch = 43 := by
  simp only [isDotOrHyphenOrPlus, c_dot, c_hyphen, c_plus, Bool.or_eq_true, beq_iff_eq] at h
  simp only [is_ch, c_dot, beq_eq_false_iff_ne] at hd
  rcases h with (h | h) | h
  · exact absurd h hd
  · exact Or.inl h
  · exact Or.inr h

/-- **NUL / non-ASCII bytes.** An input containing a NUL byte or a byte above 127 anywhere is
rejected (so every parsed version string is pure ASCII). -/
theorem nonascii_rejected (inp : List UInt8) (h : ¬ Ascii inp) : parseBytes inp = none := by
  unfold parseBytes
  split
  · rfl
  · rename_i major t1 r1 h1
    obtain ⟨hr1, c1, rfl, hp1⟩ := component_nonascii _ inp h _ _ _ h1
    by_cases hd1 : (Term.ch c1).is '.' = true
    · simp only [hd1, ↓reduceIte]
      split
      · rfl
      · rename_i minor t2 r2 h2
        obtain ⟨hr2, c2, rfl, hp2⟩ := component_nonascii _ r1 hr1 _ _ _ h2
        by_cases hd2 : (Term.ch c2).is '.' = true
        · simp only [hd2, ↓reduceIte]
          split
          · rfl
          · rename_i patch t3 r3 h3
            obtain ⟨hr3, c3, rfl, hp3⟩ := component_nonascii _ r2 hr2 _ _ _ h3
            have : c3 = 45 ∨ c3 = 43 := by
              simpa [isHyphenOrPlus, c_hyphen, c_plus] using hp3
            exact parseTail_nonascii _ c3 this r3 hr3
        · simp only [hd2, Bool.false_eq_true, ↓reduceIte]
          exact parseTail_nonascii _ c2 (not_dot_of_dhp hp2 (by simpa using hd2)) r2 hr2
    · simp only [hd1, Bool.false_eq_true, ↓reduceIte]
      exact parseTail_nonascii _ c1 (not_dot_of_dhp hp1 (by simpa using hd1)) r1 hr1

/-- Every byte of an accepted version string is a non-NUL ASCII byte. -/
theorem parseBytes_ascii (inp : List UInt8) (v : SemVer) (h : parseBytes inp = some v) :
    Ascii inp := by
  apply Classical.byContradiction; intro hn
  rw [nonascii_rejected inp hn] at h; cases h


/-! ### 4. Agreement with the §11 specification -/

/-- Numeric prerelease identifiers fit Go's `int` (go-semver converts them with wrapping
arithmetic; see `compare_spec_unbounded_counterexample`). -/
def Parts.PreBounded (p : Parts) : Prop :=
  ∀ s ∈ p.pre, s.all isDigit = true → digitsVal s 0 < 2 ^ 63

theorem cmpInt_natCast (a b : Nat) : cmpInt (a : Int) (b : Int) = Spec.cmpNat a b := by
  unfold cmpInt Spec.cmpNat
  simp only [Int.ofNat_lt, gt_iff_lt]

theorem lexCmp_spec (a b : List UInt8) : lexCmp a b = Spec.lex a b := by
  induction a generalizing b with
  | nil => cases b <;> rfl
  | cons x xs ih =>
    cases b with
    | nil => rfl
    | cons y ys =>
      simp only [lexCmp, Spec.lex, ih ys, UInt8.lt_iff_toNat_lt, gt_iff_lt]

/-- What `parseNum` makes of a well-formed prerelease identifier. -/
theorem parseNum_ident (x : List UInt8) (hx : IdentOK true x)
    (hb : x.all isDigit = true → digitsVal x 0 < 2 ^ 63) :
    parseNum x = if x.all isDigit then some ((digitsVal x 0 : Nat) : Int) else none := by
  cases hd : x.all isDigit with
  | true => exact parseNum_digits x hx.1 hd (hx.2.2 rfl hd) (hb hd)
  | false => exact parseNum_nondigit x hd

theorem cmpIdent_spec (x y : List UInt8) (hx : IdentOK true x) (hy : IdentOK true y)
    (hbx : x.all isDigit = true → digitsVal x 0 < 2 ^ 63)
    (hby : y.all isDigit = true → digitsVal y 0 < 2 ^ 63) :
    cmpIdent x y = Spec.cmpIdent x y := by
  unfold cmpIdent Spec.cmpIdent Spec.isNumeric Spec.numVal
  rw [parseNum_ident x hx hbx, parseNum_ident y hy hby]
  cases x.all isDigit <;> cases y.all isDigit <;>
    simp only [Bool.false_eq_true, ↓reduceIte]
  · exact lexCmp_spec x y
  · exact cmpInt_natCast _ _

theorem cmpPreLoop_joinDots (l1 l2 : List (List UInt8)) (h1 : ∀ s ∈ l1, IdentOK true s)
    (h2 : ∀ s ∈ l2, IdentOK true s)
    (b1 : ∀ s ∈ l1, s.all isDigit = true → digitsVal s 0 < 2 ^ 63)
    (b2 : ∀ s ∈ l2, s.all isDigit = true → digitsVal s 0 < 2 ^ 63)
    (fuel : Nat) (hf : l1.length + 1 ≤ fuel) :
    cmpPreLoop fuel (joinDots l1) (joinDots l2) = Spec.cmpPre l1 l2 := by
  induction l1 generalizing l2 fuel with
  | nil =>
    obtain ⟨fuel, rfl⟩ : ∃ f', fuel = f' + 1 := ⟨fuel - 1, by simp at hf; omega⟩
    cases l2 with
    | nil => simp [cmpPreLoop, joinDots, Spec.cmpPre]
    | cons y ys =>
      have := isEmpty_false (joinDots_ne_nil (y :: ys) h2 (by simp))
      simp [cmpPreLoop, joinDots, Spec.cmpPre, this]
  | cons x xs ih =>
    obtain ⟨fuel, rfl⟩ : ∃ f', fuel = f' + 1 := ⟨fuel - 1, by simp at hf; omega⟩
    have e1 := isEmpty_false (joinDots_ne_nil (x :: xs) h1 (by simp))
    cases l2 with
    | nil => simp [cmpPreLoop, joinDots, Spec.cmpPre, e1]
    | cons y ys =>
      have e2 := isEmpty_false (joinDots_ne_nil (y :: ys) h2 (by simp))
      have hx := h1 x (by simp)
      have hy := h2 y (by simp)
      simp only [cmpPreLoop, e1, e2, Bool.false_eq_true, ↓reduceIte, readUntil_joinDots x xs hx,
        readUntil_joinDots y ys hy, Spec.cmpPre,
        cmpIdent_spec x y hx hy (b1 x (by simp)) (b2 y (by simp))]
      rw [ih ys (fun s hs => h1 s (by simp [hs])) (fun s hs => h2 s (by simp [hs]))
        (fun s hs => b1 s (by simp [hs])) (fun s hs => b2 s (by simp [hs])) fuel
        (by simp only [List.length_cons] at hf; omega)]
      simp only [bne_iff_ne, ne_eq]

/-- Prerelease lists: the model's loop on the rendered strings is the §11.4 comparison. -/
theorem cmpPre_spec (l1 l2 : List (List UInt8)) (h1 : ∀ s ∈ l1, IdentOK true s)
    (h2 : ∀ s ∈ l2, IdentOK true s)
    (b1 : ∀ s ∈ l1, s.all isDigit = true → digitsVal s 0 < 2 ^ 63)
    (b2 : ∀ s ∈ l2, s.all isDigit = true → digitsVal s 0 < 2 ^ 63) :
    cmpPreLoop ((joinDots l1).length + (joinDots l2).length + 1) (joinDots l1) (joinDots l2) =
      Spec.cmpPre l1 l2 :=
  cmpPreLoop_joinDots l1 l2 h1 h2 b1 b2 _ (by have := joinDots_length l1 h1; omega)

theorem str_joinDots_beq (l : List (List UInt8)) (h : ∀ s ∈ l, IdentOK true s) :
    (str (joinDots l) == "") = l.isEmpty := by
  cases l with
  | nil => rfl
  | cons x xs =>
    have : str (joinDots (x :: xs)) ≠ "" := by
      intro e; exact joinDots_ne_nil (x :: xs) h (by simp) ((str_eq_empty_iff _).mp e)
    simpa using this

theorem preCmp_spec (l1 l2 : List (List UInt8)) (h1 : ∀ s ∈ l1, IdentOK true s)
    (h2 : ∀ s ∈ l2, IdentOK true s)
    (b1 : ∀ s ∈ l1, s.all isDigit = true → digitsVal s 0 < 2 ^ 63)
    (b2 : ∀ s ∈ l2, s.all isDigit = true → digitsVal s 0 < 2 ^ 63) :
    preCmp (str (joinDots l1)) (str (joinDots l2)) =
      match l1, l2 with
      | [], [] => 0
      | [], _ :: _ => 1
      | _ :: _, [] => -1
      | x :: xs, y :: ys => Spec.cmpPre (x :: xs) (y :: ys) := by
  unfold preCmp
  rw [str_joinDots_beq l1 h1, str_joinDots_beq l2 h2,
    str_toUTF8_ascii _ (joinDots_ascii l1 h1), str_toUTF8_ascii _ (joinDots_ascii l2 h2)]
  cases l1 with
  | nil => cases l2 <;> simp
  | cons x xs =>
    cases l2 with
    | nil => simp
    | cons y ys =>
      simp only [List.isEmpty_cons, Bool.and_self, Bool.false_eq_true, ↓reduceIte]
      exact cmpPre_spec _ _ h1 h2 b1 b2

theorem cmpNat_ne_zero (a b : Nat) : (Spec.cmpNat a b != 0) = (decide (a ≠ b)) := by
  unfold Spec.cmpNat
  by_cases h : a = b
  · subst h; simp
  · have : decide (a ≠ b) = true := by simpa using h
    rw [this]; split
    · rfl
    · split
      · rfl
      · omega

theorem Spec.compare_eq (a b : Parts) :
    Spec.compare a b = thenCmp (Spec.cmpNat a.major b.major)
      (thenCmp (Spec.cmpNat (a.minor.getD 0) (b.minor.getD 0))
        (thenCmp (Spec.cmpNat (a.patch.getD 0) (b.patch.getD 0))
          (match a.pre, b.pre with
            | [], [] => 0
            | [], _ :: _ => 1
            | _ :: _, [] => -1
            | x :: xs, y :: ys => Spec.cmpPre (x :: xs) (y :: ys)))) := by
  unfold Spec.compare thenCmp
  simp only [cmpNat_ne_zero, decide_eq_true_eq]
  rfl

/-- **Theorem 4 (corrected).** On well-formed version strings whose numeric prerelease
identifiers fit Go's `int`, `compare` on the parsed values is the §11 precedence. -/
theorem compare_spec_corrected (p q : Parts) (hp : p.Valid) (hq : q.Valid)
    (bp : p.PreBounded) (bq : q.PreBounded) (vp vq : SemVer)
    (h1 : parseBytes p.render = some vp) (h2 : parseBytes q.render = some vq) :
    compare vp vq = Spec.compare p q := by
  rw [parse_render p hp] at h1; rw [parse_render q hq] at h2
  cases h1; cases h2
  rw [compare_eq, Spec.compare_eq]
  simp only [cmpInt_natCast, preCmp_spec p.pre q.pre hp.2.2.2.2.1 hq.2.2.2.2.1 bp bq]

/-- Releases (no prerelease part) need no extra hypothesis. -/
theorem compare_spec_release (p q : Parts) (hp : p.Valid) (hq : q.Valid)
    (ep : p.pre = []) (eq : q.pre = []) (vp vq : SemVer)
    (h1 : parseBytes p.render = some vp) (h2 : parseBytes q.render = some vq) :
    compare vp vq = Spec.compare p q :=
  compare_spec_corrected p q hp hq (by intro s hs; rw [ep] at hs; cases hs)
    (by intro s hs; rw [eq] at hs; cases hs) vp vq h1 h2


/-! ### `Spec.compare` decides the declarative order `precLt` -/

theorem cmpNat_tri (a b : Nat) : Tri (Spec.cmpNat a b) := by
  unfold Spec.cmpNat Tri; split
  · simp
  · split <;> simp

theorem cmpNat_lt_iff (a b : Nat) : Spec.cmpNat a b = -1 ↔ a < b := by
  unfold Spec.cmpNat; split
  · simp [*]
  · split <;> simp [*]

theorem cmpNat_eq_iff (a b : Nat) : Spec.cmpNat a b = 0 ↔ a = b := by
  unfold Spec.cmpNat; split
  · simp; omega
  · split
    · simp; omega
    · simp; omega

theorem spec_lex_tri (a b : List UInt8) : Tri (Spec.lex a b) := by
  rw [← lexCmp_spec]; exact lexCmp_tri a b

theorem spec_lex_eq_iff (a b : List UInt8) : Spec.lex a b = 0 ↔ a = b := by
  induction a generalizing b with
  | nil => cases b <;> simp [Spec.lex]
  | cons x xs ih =>
    cases b with
    | nil => simp [Spec.lex]
    | cons y ys =>
      simp only [Spec.lex]
      split
      · simp only [List.cons.injEq]
        constructor
        · intro h; omega
        · rintro ⟨rfl, _⟩; omega
      · split
        · simp only [List.cons.injEq]
          constructor
          · intro h; omega
          · rintro ⟨rfl, _⟩; omega
        · have : x = y := UInt8.toNat_inj.mp (by omega)
          simp [ih ys, this]

theorem spec_cmpIdent_tri (a b : List UInt8) : Tri (Spec.cmpIdent a b) := by
  unfold Spec.cmpIdent
  split
  · split
    · exact cmpNat_tri _ _
    · simp [Tri]
  · split
    · simp [Tri]
    · exact spec_lex_tri a b

theorem spec_cmpIdent_lt_iff (a b : List UInt8) : Spec.cmpIdent a b = -1 ↔ identLt a b := by
  unfold Spec.cmpIdent identLt
  cases Spec.isNumeric a <;> cases Spec.isNumeric b <;> simp [cmpNat_lt_iff]

theorem spec_cmpIdent_eq_iff (a b : List UInt8) : Spec.cmpIdent a b = 0 ↔ identEq a b := by
  unfold Spec.cmpIdent identEq
  cases Spec.isNumeric a <;> cases Spec.isNumeric b <;> simp [cmpNat_eq_iff, spec_lex_eq_iff]

theorem spec_cmpPre_lt_iff (a b : List (List UInt8)) : Spec.cmpPre a b = -1 ↔ preLt a b := by
  constructor
  · induction a generalizing b with
    | nil =>
      cases b with
      | nil => simp [Spec.cmpPre]
      | cons y ys => intro _; exact preLt.nil y ys
    | cons x xs ih =>
      cases b with
      | nil => simp [Spec.cmpPre]
      | cons y ys =>
        simp only [Spec.cmpPre]
        split
        · intro h; exact preLt.head _ _ _ _ ((spec_cmpIdent_lt_iff x y).mp h)
        · rename_i h0
          have h0' : Spec.cmpIdent x y = 0 := by simpa using h0
          intro h; exact preLt.tail _ _ _ _ ((spec_cmpIdent_eq_iff x y).mp h0') (ih ys h)
  · intro h
    induction h with
    | nil y ys => rfl
    | head x xs y ys hlt =>
      have := (spec_cmpIdent_lt_iff x y).mpr hlt
      simp [Spec.cmpPre, this]
    | tail x xs y ys heq _ ih =>
      have := (spec_cmpIdent_eq_iff x y).mpr heq
      simp [Spec.cmpPre, this, ih]

/-- `Spec.compare` returns −1 exactly when `a` precedes `b` in the declarative §11 order. -/
theorem spec_compare_lt_iff (a b : Parts) : Spec.compare a b = -1 ↔ precLt a b := by
  unfold Spec.compare precLt Parts.triple
  by_cases h1 : a.major = b.major
  · by_cases h2 : a.minor.getD 0 = b.minor.getD 0
    · by_cases h3 : a.patch.getD 0 = b.patch.getD 0
      · simp only [h1, h2, h3, ne_eq, not_true_eq_false, ↓reduceIte, Nat.lt_irrefl, false_or,
          true_and, and_false]
        cases ha : a.pre with
        | nil => cases hb : b.pre <;> simp
        | cons x xs =>
          cases hb : b.pre with
          | nil => simp
          | cons y ys => simp [spec_cmpPre_lt_iff]
      · simp only [h1, h2, h3, ne_eq, not_true_eq_false, not_false_eq_true, ↓reduceIte,
          cmpNat_lt_iff, Nat.lt_irrefl, false_or, true_and, and_false]
        simp [h3]
    · simp only [h1, h2, ne_eq, not_true_eq_false, not_false_eq_true, ↓reduceIte, cmpNat_lt_iff,
        Nat.lt_irrefl, false_or, true_and, false_and]
      simp [h2]
  · simp only [h1, ne_eq, not_false_eq_true, ↓reduceIte, cmpNat_lt_iff, false_and]
    simp [h1]

/-- `Spec.compare` is three-valued. -/
theorem spec_compare_tri (a b : Parts) : Tri (Spec.compare a b) := by
  rw [Spec.compare_eq]
  refine thenCmp_tri (cmpNat_tri _ _) (thenCmp_tri (cmpNat_tri _ _) (thenCmp_tri (cmpNat_tri _ _) ?_))
  cases a.pre with
  | nil => cases b.pre <;> simp [Tri]
  | cons x xs =>
    cases b.pre with
    | nil => simp [Tri]
    | cons y ys =>
      have : ∀ l1 l2, Tri (Spec.cmpPre l1 l2) := by
        intro l1
        induction l1 with
        | nil => intro l2; cases l2 <;> simp [Spec.cmpPre, Tri]
        | cons u us ih =>
          intro l2
          cases l2 with
          | nil => simp [Spec.cmpPre, Tri]
          | cons w ws =>
            simp only [Spec.cmpPre]; split
            · exact spec_cmpIdent_tri u w
            · exact ih ws
      exact this _ _


/-! #### Empty prerelease / build sections -/

/-- The numeric core `M[.m[.p]]` of a version. -/
def Parts.core (p : Parts) : List UInt8 := numBytes p.major ++ dotNum p.minor ++ dotNum p.patch

/-- `T` is empty or starts with `-` or `+`. -/
def TailLike (T : List UInt8) : Prop := T = [] ∨ ∃ t r, T = t :: r ∧ (t = 45 ∨ t = 43)

/-- After a valid numeric core the parser hands the rest to `parseTail`. -/
theorem parseBytes_core (p : Parts) (h : p.Valid) (T : List UInt8) (hT : TailLike T) :
    parseBytes (p.core ++ T) =
      parseTail { major := p.major, minor := p.minor.getD 0, patch := p.patch.getD 0 }
        (splitTerm T).1 (splitTerm T).2 := by
  obtain ⟨hpm, hM, hm, hq, _, _⟩ := h
  have hT1 : StartsWithTerm isDotOrHyphenOrPlus T := by
    rcases hT with h | ⟨t, r, h, ht⟩
    · exact Or.inl h
    · right; refine ⟨t, r, h, ?_⟩; rcases ht with rfl | rfl <;> decide
  have hT2 : StartsWithTerm isHyphenOrPlus T := by
    rcases hT with h | ⟨t, r, h, ht⟩
    · exact Or.inl h
    · right; refine ⟨t, r, h, ?_⟩; rcases ht with rfl | rfl <;> decide
  have hnd : (splitTerm T).1.is '.' = false := by
    rcases hT with h | ⟨t, r, h, ht⟩
    · rw [h]; rfl
    · rw [h]; simp only [splitTerm, is_ch]; rcases ht with rfl | rfl <;> decide
  cases hmin : p.minor with
  | none =>
    have hpat : p.patch = none := by
      cases hpp : p.patch with
      | none => rfl
      | some q => rw [hpp, hmin] at hpm; exact absurd (hpm rfl) (by simp)
    simp only [Parts.core, hmin, hpat, dotNum, List.append_nil, parseBytes,
      component_numBytes (fun b => digit_not_dhp) p.major hM _ hT1, hnd,
      Bool.false_eq_true, ↓reduceIte, Option.getD_none]
    rfl
  | some m =>
    have hm' := hm m hmin
    cases hpat : p.patch with
    | none =>
      simp only [Parts.core, hmin, hpat, dotNum, List.append_nil, List.append_assoc,
        List.cons_append, parseBytes,
        component_numBytes (fun b => digit_not_dhp) p.major hM _ (dot_startsWith _),
        splitTerm_cons, is_46_dot, component_numBytes (fun b => digit_not_dhp) m hm' _ hT1, hnd,
        Option.getD_none, Option.getD_some, ↓reduceIte, Bool.false_eq_true]
      rfl
    | some q =>
      have hq' := hq q hpat
      simp only [Parts.core, hmin, hpat, dotNum, List.append_assoc,
        List.cons_append, parseBytes,
        component_numBytes (fun b => digit_not_dhp) p.major hM _ (dot_startsWith _),
        splitTerm_cons, is_46_dot,
        component_numBytes (fun b => digit_not_dhp) m hm' _ (dot_startsWith _),
        component_numBytes (fun b => digit_not_hp) q hq' _ hT2,
        Option.getD_some, ↓reduceIte]

/-- **Empty prerelease** (`"1.0.0-"`, `"1.0.0-+build"`). -/
theorem empty_prerelease_rejected (p : Parts) (h : p.Valid) (T : List UInt8)
    (hT : T = [] ∨ ∃ r, T = 43 :: r) : parseBytes (p.core ++ 45 :: T) = none := by
  rw [parseBytes_core p h _ (Or.inr ⟨45, T, rfl, Or.inl rfl⟩), splitTerm_cons]
  rcases hT with rfl | ⟨r, rfl⟩
  · simp [parseTail, is_45_hyphen, readUntil]
  · have : readUntil isPlus (43 :: r) = ([], .ch 43, r) := by
      simp only [readUntil]; rw [show ((43 : UInt8) == 0 || (43 : UInt8) > 127) = false by decide,
        show isPlus 43 = true by decide]; rfl
    simp [parseTail, is_45_hyphen, this]

/-- **Empty build metadata** directly after the core (`"1.0.0+"`). -/
theorem empty_build_rejected (p : Parts) (h : p.Valid) : parseBytes (p.core ++ [43]) = none := by
  rw [parseBytes_core p h _ (Or.inr ⟨43, [], rfl, Or.inr rfl⟩), splitTerm_cons]
  simp [parseTail, is_43_hyphen, is_43_plus, readUntil]

/-- **An ill-formed prerelease section** — an empty identifier (`"1.0.0-rc..1"`, a trailing
dot), a character outside `[0-9A-Za-z-]`, a numeric identifier with a leading zero: whatever
`validatePrerelease` refuses — is rejected. -/
theorem bad_prerelease_rejected (p : Parts) (h : p.Valid) (X T : List UInt8)
    (hX : validatePrerelease X = false) (hXp : ∀ b ∈ X, isPlus b = false) (hXa : Ascii X)
    (hT : T = [] ∨ ∃ r, T = 43 :: r) : parseBytes (p.core ++ 45 :: (X ++ T)) = none := by
  rw [parseBytes_core p h _ (Or.inr ⟨45, _, rfl, Or.inl rfl⟩), splitTerm_cons]
  rcases hT with rfl | ⟨r, rfl⟩
  · simp [parseTail, is_45_hyphen, readUntil_eof X hXa hXp, hX]
  · simp [parseTail, is_45_hyphen, readUntil_term X hXa hXp 43 r (by decide) (by decide), hX]

theorem validatePrerelease_empty_ident (A B : List UInt8) (hA : Ascii A)
    (hAd : ∀ b ∈ A, isDot b = false) :
    validatePrerelease (A ++ 46 :: 46 :: B) = false := by
  have h1 := readUntil_term (p := isDot) A hA hAd 46 (46 :: B) (by decide) dot_ascii
  have h2 : readUntil isDot (46 :: B) = ([], .ch 46, B) := by
    simp only [readUntil]; rw [dot_ascii, show isDot 46 = true by decide]; rfl
  unfold validatePrerelease
  simp only [List.length_append, List.length_cons, validateLoop, h1, h2]
  simp


/-! ### 5. Non-vacuity: concrete strings evaluated on the model -/

namespace Examples

/-- ASCII string literal to bytes (reducible by `decide`, unlike `String.toUTF8`). -/
def b (s : String) : List UInt8 := s.toList.map (fun ch => UInt8.ofNat ch.toNat)

/-- Parse both operands and compare; `none` when either fails to parse. -/
def cmpB (x y : List UInt8) : Option Int :=
  match parseBytes x, parseBytes y with
  | some v, some w => some (compare v w)
  | _, _ => none

example : b "1.0.0-rc.1+build.5" =
    [49, 46, 48, 46, 48, 45, 114, 99, 46, 49, 43, 98, 117, 105, 108, 100, 46, 53] := by decide

-- the chain of semver.org §11.4
example : cmpB (b "1.0.0-alpha") (b "1.0.0-alpha.1") = some (-1) := by decide +kernel
example : cmpB (b "1.0.0-alpha.1") (b "1.0.0-alpha.beta") = some (-1) := by decide +kernel
example : cmpB (b "1.0.0-alpha.beta") (b "1.0.0-beta") = some (-1) := by decide +kernel
example : cmpB (b "1.0.0-beta") (b "1.0.0-beta.2") = some (-1) := by decide +kernel
example : cmpB (b "1.0.0-beta.2") (b "1.0.0-beta.11") = some (-1) := by decide +kernel
example : cmpB (b "1.0.0-beta.11") (b "1.0.0-rc.1") = some (-1) := by decide +kernel
example : cmpB (b "1.0.0-rc.1") (b "1.0.0") = some (-1) := by decide +kernel
-- and backwards
example : cmpB (b "1.0.0") (b "1.0.0-rc.1") = some 1 := by decide +kernel
example : cmpB (b "1.0.0-beta.11") (b "1.0.0-beta.2") = some 1 := by decide +kernel
-- §11.2
example : cmpB (b "1.0.0") (b "2.0.0") = some (-1) := by decide +kernel
example : cmpB (b "2.0.0") (b "2.1.0") = some (-1) := by decide +kernel
example : cmpB (b "2.1.0") (b "2.1.1") = some (-1) := by decide +kernel
example : cmpB (b "2.1.1") (b "2.10.0") = some (-1) := by decide +kernel
-- minor / patch may be omitted
example : cmpB (b "2") (b "2.0.0") = some 0 := by decide +kernel
example : cmpB (b "2.0") (b "2.0.0") = some 0 := by decide +kernel
example : cmpB (b "2") (b "2.0.1") = some (-1) := by decide +kernel
example : cmpB (b "2-rc.1") (b "2.0.0") = some (-1) := by decide +kernel
example : cmpB (b "2.1-rc.1+x") (b "2.1.0-rc.1") = some 0 := by decide +kernel
-- build metadata is ignored
example : cmpB (b "1.0.0+build.1") (b "1.0.0+build.2") = some 0 := by decide +kernel
example : cmpB (b "1.0.0-alpha+001") (b "1.0.0-alpha+exp.sha.5114f85") = some 0 := by
  decide +kernel
example : cmpB (b "1.0.0+20130313144700") (b "1.0.0") = some 0 := by decide +kernel
-- components
example : (parseBytes (b "1.22.333-rc.1+build.5")).map (fun v => (v.major, v.minor, v.patch)) =
    some (1, 22, 333) := by decide +kernel
example : parseBytes (b "1.22.333-rc.1+build.5") =
    some { major := 1, minor := 22, patch := 333, prerelease := "rc.1", build := "build.5" } := by
  decide +kernel

-- rejected inputs
example : parseBytes (b "") = none := by decide
example : parseBytes (b "v1.0.0") = none := by decide
example : parseBytes (b "01.0.0") = none := by decide
example : parseBytes (b "1.00.0") = none := by decide
example : parseBytes (b "1.0.0-") = none := by decide
example : parseBytes (b "1..0") = none := by decide
example : parseBytes (b "1.") = none := by decide
example : parseBytes (b "1.0.") = none := by decide
example : parseBytes (b "1.0.0-rc..1") = none := by decide
example : parseBytes (b "1.0.0-rc.") = none := by decide
example : parseBytes (b "1.0.0-01") = none := by decide
example : parseBytes (b "1.2.3.4") = none := by decide
example : parseBytes (b "1.0.0+") = none := by decide
example : parseBytes (b "1.0.0+a..b") = none := by decide
example : parseBytes (b "1.0.0-a_b") = none := by decide
example : parseBytes (b "1.0.0 ") = none := by decide
example : parseBytes (b " 1.0.0") = none := by decide
example : parseBytes (b "-1.0.0") = none := by decide
/-- "1.0.0-é" (UTF-8 bytes C3 A9). -/
example : parseBytes (b "1.0.0-" ++ [0xC3, 0xA9]) = none := by decide
example : parseBytes ([0xC3, 0xA9] ++ b "1.0.0") = none := by decide
example : parseBytes (b "1.0.0+" ++ [0xC3, 0xA9]) = none := by decide
-- a leading zero is fine in build metadata, not in a numeric prerelease identifier
example : (parseBytes (b "1.0.0+001")).isSome = true := by decide
example : (parseBytes (b "1.0.0-0")).isSome = true := by decide
example : (parseBytes (b "1.0.0-0a")).isSome = true := by decide


-- the specification side: rendering, validity and `Spec.compare` on structured versions
def pAlpha1 : Parts := { major := 1, minor := some 0, patch := some 0, pre := [b "alpha", b "1"] }
def pAlphaBeta : Parts :=
  { major := 1, minor := some 0, patch := some 0, pre := [b "alpha", b "beta"] }
def pRc1Build : Parts := { major := 1, minor := some 22, patch := some 333, pre := [b "rc", b "1"],
                           build := [b "build", b "5"] }
def pShort : Parts := { major := 2, pre := [b "rc", b "1"] }
example : pAlpha1.Valid := by decide
example : pRc1Build.Valid := by decide
example : pShort.Valid := by decide
example : pAlpha1.render = b "1.0.0-alpha.1" := by decide +kernel
example : pRc1Build.render = b "1.22.333-rc.1+build.5" := by decide +kernel
example : pShort.render = b "2-rc.1" := by decide +kernel
example : Spec.compare pAlpha1 pAlphaBeta = -1 := by decide
example : Spec.compare pShort { major := 2, minor := some 0, patch := some 0 } = -1 := by decide
example : ¬ ({ major := 1, patch := some 0 } : Parts).Valid := by decide
example : ¬ ({ major := 1, pre := [b "01"] } : Parts).Valid := by decide
example : ({ major := 1, build := [b "01"] } : Parts).Valid := by decide
example : ¬ ({ major := 1, pre := [[]] } : Parts).Valid := by decide
example : ¬ ({ major := 1, pre := [b "a.b"] } : Parts).Valid := by decide

-- Go `int` wrap-around: why `Parts.Valid` bounds the numbers
example : (parseBytes (b "9223372036854775807")).map (·.major) = some 9223372036854775807 := by
  decide +kernel
example : (parseBytes (b "9223372036854775808")).map (·.major) = some (-9223372036854775808) := by
  decide +kernel
example : cmpB (b "9223372036854775808.0.0") (b "1.0.0") = some (-1) := by decide +kernel
example : cmpB (b "18446744073709551617.0.0") (b "1.0.0") = some 0 := by decide +kernel

def pBig : Parts :=
  { major := 1, minor := some 0, patch := some 0, pre := [b "9223372036854775808"] }
def pOne : Parts := { major := 1, minor := some 0, patch := some 0, pre := [b "1"] }

/-- `compare_spec` without the bound on numeric prerelease identifiers is false: go-semver
converts them with wrapping `int` arithmetic, so `1.0.0-9223372036854775808` (2^63) parses, and
compares *below* `1.0.0-1`, whereas §11.4.1 orders it above. -/
theorem compare_spec_unbounded_counterexample :
    pBig.Valid ∧ pOne.Valid ∧
    (∃ vp vq, parseBytes pBig.render = some vp ∧ parseBytes pOne.render = some vq ∧
      compare vp vq = -1) ∧
    Spec.compare pBig pOne = 1 := by
  have h1 : pBig.Valid := by decide
  have h2 : pOne.Valid := by decide
  refine ⟨h1, h2, ⟨_, _, parse_render pBig h1, parse_render pOne h2, ?_⟩, ?_⟩
  · decide +kernel
  · decide +kernel

end Examples


end LD.SemVerM

/-! ### Audit -/

#print axioms LD.SemVerM.parse_render
#print axioms LD.SemVerM.leading_zero_rejected
#print axioms LD.SemVerM.empty_component_rejected
#print axioms LD.SemVerM.fourth_component_rejected
#print axioms LD.SemVerM.empty_prerelease_rejected
#print axioms LD.SemVerM.empty_build_rejected
#print axioms LD.SemVerM.bad_prerelease_rejected
#print axioms LD.SemVerM.nonascii_rejected
#print axioms LD.SemVerM.compare_refl
#print axioms LD.SemVerM.compare_antisymm
#print axioms LD.SemVerM.compare_build_ignored
#print axioms LD.SemVerM.prerelease_lower
#print axioms LD.SemVerM.compare_range
#print axioms LD.SemVerM.compare_trans
#print axioms LD.SemVerM.compare_trans_parsed
#print axioms LD.SemVerM.parseBytes_preAscii
#print axioms LD.SemVerM.cmpPre_spec
#print axioms LD.SemVerM.compare_spec_corrected
#print axioms LD.SemVerM.compare_spec_release
#print axioms LD.SemVerM.spec_compare_lt_iff
#print axioms LD.SemVerM.Examples.compare_spec_unbounded_counterexample

/-
  LDEval.Proofs.AuditReason — theorem audit, C01 #2: the fields of an evaluation reason are coherent
  with its kind and with the flag (RULE_MATCH names an existing rule and carries its id,
  PREREQUISITE_FAILED names a listed prerequisite, `errorKind` is present exactly for ERROR, the other
  kinds carry no rule index / rule id / prerequisite key).

  Proved on the stateless specification (`Spec.evalFlag`) and transported to `evaluate` through
  `evaluate_detail_spec`; the same statement is obtained for the result carried by every recorded
  prerequisite event (relative to the prerequisite flag).
-/
import LDEval.Proofs.Total
import LDEval.Proofs.Refine
import LDEval.Proofs.Prereq

namespace LD

/-- The fields of reason `r` fit its kind and the flag `f` it was computed for.  (The big-segments
status is not constrained: it is orthogonal to the kind, see C11.) -/
structure ReasonCoherent (f : Flag) (r : Reason) : Prop where
  /-- RULE_MATCH: a non-negative index of an existing rule, and that rule's id. -/
  ruleMatch : r.kind = .ruleMatch →
    0 ≤ r.ruleIndex ∧ ∃ rule, f.rules[r.ruleIndex.toNat]? = some rule ∧ r.ruleId = rule.id
  /-- PREREQUISITE_FAILED: the key of a listed prerequisite. -/
  prereqFailed : r.kind = .prereqFailed → ∃ p ∈ f.prerequisites, p.key = r.prereqKey
  /-- `errorKind` is present exactly for ERROR. -/
  error : r.kind = .error ↔ r.errorKind.isSome = true
  /-- Every kind other than RULE_MATCH has the "absent" rule index −1 and an empty rule id. -/
  noRule : r.kind ≠ .ruleMatch → r.ruleIndex = -1 ∧ r.ruleId = ""
  /-- Every kind other than PREREQUISITE_FAILED has an empty prerequisite key. -/
  noPrereq : r.kind ≠ .prereqFailed → r.prereqKey = ""
  /-- `inExperiment` is only ever set on FALLTHROUGH and RULE_MATCH. -/
  inExp : r.inExperiment = true → r.kind = .fallthrough ∨ r.kind = .ruleMatch

/-- Coherence only looks at six fields (not at the big-segments status). -/
theorem ReasonCoherent.of_fields {f : Flag} {r r' : Reason} (h : ReasonCoherent f r)
    (h1 : r'.kind = r.kind) (h2 : r'.ruleIndex = r.ruleIndex) (h3 : r'.ruleId = r.ruleId)
    (h4 : r'.prereqKey = r.prereqKey) (h5 : r'.errorKind = r.errorKind)
    (h6 : r'.inExperiment = r.inExperiment) : ReasonCoherent f r' := by
  constructor
  · rw [h1, h2, h3]; exact h.ruleMatch
  · rw [h1, h4]; exact h.prereqFailed
  · rw [h1, h5]; exact h.error
  · rw [h1, h2, h3]; exact h.noRule
  · rw [h1, h4]; exact h.noPrereq
  · rw [h1, h6]; exact h.inExp

theorem coh_error (f : Flag) (k : ErrKind) : ReasonCoherent f (Reason.error k) := by
  constructor <;> simp [Reason.error]

theorem coh_off (f : Flag) : ReasonCoherent f Reason.off := by
  constructor <;> simp [Reason.off]

theorem coh_fallthrough (f : Flag) : ReasonCoherent f Reason.fallthrough := by
  constructor <;> simp [Reason.fallthrough]

theorem coh_targetMatch (f : Flag) : ReasonCoherent f Reason.targetMatch := by
  constructor <;> simp [Reason.targetMatch]

theorem coh_prereqFailed (f : Flag) (p : Prereq) (hp : p ∈ f.prerequisites) :
    ReasonCoherent f (Reason.prereqFailed p.key) := by
  constructor <;> simp [Reason.prereqFailed]
  exact ⟨p, hp, rfl⟩

theorem coh_ruleMatch (f : Flag) (i : Nat) (rule : FlagRule) (h : f.rules[i]? = some rule) :
    ReasonCoherent f (Reason.ruleMatch i rule.id) := by
  constructor <;> simp [Reason.ruleMatch]
  exact ⟨rule, h, rfl⟩

theorem coh_toExperiment {f : Flag} {r : Reason} (h : ReasonCoherent f r) :
    ReasonCoherent f r.toExperiment := by
  unfold Reason.toExperiment
  split
  · rename_i hk
    exact ⟨h.ruleMatch, h.prereqFailed, h.error, h.noRule, h.noPrereq, fun _ => Or.inl hk⟩
  · rename_i hk
    exact ⟨h.ruleMatch, h.prereqFailed, h.error, h.noRule, h.noPrereq, fun _ => Or.inr hk⟩
  · exact h

theorem coh_spec_getVariation {f : Flag} (i : Int) {r : Reason} (h : ReasonCoherent f r) :
    ReasonCoherent f (Spec.getVariation f i r).reason := by
  unfold Spec.getVariation
  split
  · exact coh_error f _
  · exact h

theorem coh_spec_getOffValue {f : Flag} {r : Reason} (h : ReasonCoherent f r) :
    ReasonCoherent f (Spec.getOffValue f r).reason := by
  unfold Spec.getOffValue
  split
  · exact h
  · exact coh_spec_getVariation _ h

theorem coh_spec_getValueForVR (env : Env) {f : Flag} (vr : VariationOrRollout) {r : Reason}
    (h : ReasonCoherent f r) : ReasonCoherent f (Spec.getValueForVR env f vr r).reason := by
  unfold Spec.getValueForVR
  split
  · exact coh_error f _
  · apply coh_spec_getVariation
    split
    · exact coh_toExperiment h
    · exact h

/-- A failed prerequisite loop names one of the prerequisites it was given. -/
theorem spec_prereqLoop_failed {rec : Spec.FlagRec} {env : Env} {chain : List String} :
    ∀ {ps : List Prereq} {k : String}, Spec.prereqLoop rec env chain ps = .failed k →
      ∃ p ∈ ps, p.key = k := by
  intro ps
  induction ps with
  | nil => intro k h; simp [Spec.prereqLoop] at h
  | cons p ps ih =>
    intro k h
    unfold Spec.prereqLoop at h
    split at h
    · cases h; exact ⟨p, List.mem_cons_self, rfl⟩
    · split at h
      · cases h
      · split at h
        · cases h
        · split at h
          · cases h
          · split at h
            · obtain ⟨q, hq, hk⟩ := ih h
              exact ⟨q, List.mem_cons_of_mem _ hq, hk⟩
            · cases h; exact ⟨p, List.mem_cons_self, rfl⟩

theorem spec_checkPrereqs_failed {rec : Spec.FlagRec} {env : Env} {f : Flag} {chain : List String}
    {k : String} (h : Spec.checkPrereqs rec env f chain = .failed k) :
    ∃ p ∈ f.prerequisites, p.key = k := by
  unfold Spec.checkPrereqs at h
  split at h
  · cases h
  · exact spec_prereqLoop_failed h

/-- The rule loop reports the POSITION of the matching rule in `f.rules` (the loop counter starts at
the number of rules already skipped). -/
theorem coh_spec_rulesLoop {seg : Spec.SegRec} {env : Env} {f : Flag} :
    ∀ (rs : List FlagRule) (i : Nat), (∀ j rule, rs[j]? = some rule → f.rules[i + j]? = some rule) →
      ∀ {d ok}, Spec.rulesLoop seg env f rs i = some (d, ok) → ReasonCoherent f d.reason := by
  intro rs
  induction rs with
  | nil =>
    intro i _ d ok h
    simp only [Spec.rulesLoop, Option.some.injEq, Prod.mk.injEq] at h
    rw [← h.1]
    exact coh_spec_getValueForVR env _ (coh_fallthrough f)
  | cons r rs ih =>
    intro i hpos d ok h
    unfold Spec.rulesLoop at h
    split at h
    · simp only [Option.some.injEq, Prod.mk.injEq] at h
      rw [← h.1]; exact coh_error f _
    · cases h
    · simp only [Option.some.injEq, Prod.mk.injEq] at h
      rw [← h.1]
      apply coh_spec_getValueForVR
      exact coh_ruleMatch f i r (by simpa using hpos 0 r (by simp))
    · refine ih (i + 1) ?_ h
      intro j rule hj
      have := hpos (j + 1) rule (by simpa using hj)
      rwa [show i + 1 + j = i + (j + 1) by omega]

theorem coh_spec_evalBody {rec : Spec.FlagRec} {seg : Spec.SegRec} {env : Env} {f : Flag}
    {chain : List String} {d : Detail} {ok : Bool}
    (h : Spec.evalBody rec seg env f chain = some (d, ok)) : ReasonCoherent f d.reason := by
  unfold Spec.evalBody at h
  split at h
  · simp only [Option.some.injEq, Prod.mk.injEq] at h
    rw [← h.1]; exact coh_spec_getOffValue (coh_off f)
  · split at h
    · cases h
    · simp only [Option.some.injEq, Prod.mk.injEq] at h
      rw [← h.1]; exact coh_error f _
    · rename_i k hk
      simp only [Option.some.injEq, Prod.mk.injEq] at h
      rw [← h.1]
      obtain ⟨p, hp, rfl⟩ := spec_checkPrereqs_failed hk
      exact coh_spec_getOffValue (coh_prereqFailed f p hp)
    · split at h
      · simp only [Option.some.injEq, Prod.mk.injEq] at h
        rw [← h.1]; exact coh_spec_getVariation _ (coh_targetMatch f)
      · exact coh_spec_rulesLoop f.rules 0 (by intro j rule hj; simpa using hj) h

/-- Reason coherence of every completed evaluation of the specification, at every nesting depth. -/
theorem coh_spec_evalFlag {sf n : Nat} {env : Env} {f : Flag} {chain : List String} {d : Detail}
    {ok : Bool} (h : Spec.evalFlag sf n env f chain = some (d, ok)) : ReasonCoherent f d.reason := by
  cases n with
  | zero => simp [Spec.evalFlag] at h
  | succ n => exact coh_spec_evalBody h

/-- For a valid context the specification, run with the fuel `evaluate` hands out, completes. -/
theorem evaluate_spec_exists (env : Env) (f : Flag) (h : env.ctx ≠ .invalid) :
    ∃ d ok, Spec.evalFlag (segFuel env.store) (flagFuel env.store) env f [] = some (d, ok) := by
  cases hs : Spec.evalFlag (segFuel env.store) (flagFuel env.store) env f [] with
  | none =>
    have h1 := evaluate_oof_spec env f h hs
    rw [evaluate_total env f] at h1
    cases h1
  | some p => exact ⟨p.1, p.2, rfl⟩

/-- C01 #2 for the entry point. -/
theorem evaluate_reason_coherent (env : Env) (f : Flag) :
    ReasonCoherent f (evaluate env f).result.detail.reason := by
  by_cases hc : env.ctx = .invalid
  · rw [(evaluate_invalid f hc).2]
    exact coh_error f _
  · obtain ⟨d, ok, hs⟩ := evaluate_spec_exists env f hc
    obtain ⟨-, -, -, h1, h2, h3, h4, h5, h6⟩ := evaluate_detail_spec env f hc d ok hs
    exact (coh_spec_evalFlag hs).of_fields h1 h2 h3 h4 h5 h6

/-- The same for the result carried by each prerequisite event, relative to the prerequisite flag
`pf` the store returned (whose own key is the event's `prereqKey`). -/
theorem evaluate_events_reason_coherent (env : Env) (f : Flag) :
    ∀ e ∈ (evaluate env f).events, ∃ pf ∈ env.store.flags.map (·.2),
      e.prereqKey = pf.key ∧ ReasonCoherent pf e.result.detail.reason ∧
      e.result.isExperiment = isExperimentResult pf e.result.detail.reason := by
  intro e he
  obtain ⟨f', pf, p, d, -, -, hfind, rfl, hs⟩ := evaluate_events_ok env f e he
  exact ⟨pf, (findFlag_key hfind).2, rfl, coh_spec_evalFlag hs, rfl⟩

end LD

#print axioms LD.evaluate_reason_coherent
#print axioms LD.evaluate_events_reason_coherent

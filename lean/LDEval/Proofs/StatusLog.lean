/-
  Finer frame for the status and log properties (C11, C19).

  `Reach` (Proofs/Reach.lean) over-approximates the status merge after a prerequisite by
  `updateStatus old st.status` for an *arbitrary* `old`.  That is enough for monotonicity, but not
  for "the reported status is one that was actually seen".  Here the primitives are split into the
  segment-level ones (`SPrim`: lookups, NOT_CONFIGURED, provider query, membership check) and the
  flag-level ones (`FPrim`: flag lookup, log line, event), and it is shown that the merge is the
  identity in the model (the prerequisite's scope starts from the enclosing status, and the status
  PRIORITY never decreases — `computeUpdatedBigSegmentsStatus old new` returns `new` unless `old` has
  a strictly higher priority; this also covers a prerequisite whose last provider answer was `""`
  and so made a priority-0 status disappear again), so a whole evaluation is a sequence of
  `Prim0 = SPrim ∪ FPrim` steps.
-/
import LDEval.Proofs.Reach
import LDEval.Proofs.EvalWF

namespace LD

/-- The primitive updates evaluator_segment.go makes. -/
inductive SPrim (env : Env) : St → St → Prop
  | segLookup (st : St) (k : String) :
      SPrim env st { st with segLookups := st.segLookups ++ [k] }
  | setNotConfigured (st : St) :
      SPrim env st { st with status := some .notConfigured }
  | query (st : St) (key : String) (p : BSProvider) :
      env.bs = some p → st.cache.lookup key = none →
      SPrim env st { st with
        bsQueries := st.bsQueries ++ [key]
        cache := st.cache ++ [(key, (p.get key).membership)]
        status := updateStatus st.status (p.get key).status }
  | memCheck (st : St) (key ref : String) :
      SPrim env st { st with memChecks := st.memChecks ++ [(key, ref)] }

/-- The primitive updates evaluator.go makes itself (besides the status merge, see below). -/
inductive FPrim (env : Env) : St → St → Prop
  | flagLookup (st : St) (k : String) :
      FPrim env st { st with flagLookups := st.flagLookups ++ [k] }
  | log (st : St) (l : LogLine) : env.opts.logger = true →
      FPrim env st { st with logs := st.logs ++ [l] }
  | event (st : St) (e : Event) : env.opts.recorder = true →
      FPrim env st { st with events := st.events ++ [e] }

inductive Prim0 (env : Env) : St → St → Prop
  | seg {a b : St} : SPrim env a b → Prim0 env a b
  | flag {a b : St} : FPrim env a b → Prim0 env a b

/-- Reflexive-transitive closure of a step relation. -/
inductive Star (P : St → St → Prop) : St → St → Prop
  | refl (st : St) : Star P st st
  | step {a b c : St} : Star P a b → P b c → Star P a c

theorem Star.single {P : St → St → Prop} {a b : St} (h : P a b) : Star P a b :=
  .step (.refl a) h

theorem Star.trans {P : St → St → Prop} {a b c : St} (h1 : Star P a b) (h2 : Star P b c) :
    Star P a c := by
  induction h2 with
  | refl => exact h1
  | step _ hp ih => exact .step ih hp

theorem Star.mono {P Q : St → St → Prop} (hPQ : ∀ a b, P a b → Q a b) {a b : St}
    (h : Star P a b) : Star Q a b := by
  induction h with
  | refl => exact .refl _
  | step _ hp ih => exact .step ih (hPQ _ _ hp)

theorem Star.invariant {P : St → St → Prop} {I : St → Prop} (hI : ∀ a b, P a b → I a → I b)
    {a b : St} (h : Star P a b) (ha : I a) : I b := by
  induction h with
  | refl => exact ha
  | step _ hp ih => exact hI _ _ hp ih

theorem SPrim.toPrim {env : Env} {a b : St} (h : SPrim env a b) : Prim env a b := by
  cases h with
  | segLookup k => exact .segLookup _ k
  | setNotConfigured => exact .setNotConfigured _
  | query key p h1 h2 => exact .query _ key p h1 h2
  | memCheck key ref => exact .memCheck _ key ref

theorem FPrim.toPrim {env : Env} {a b : St} (h : FPrim env a b) : Prim env a b := by
  cases h with
  | flagLookup k => exact .flagLookup _ k
  | log l h => exact .log _ l h
  | event e h => exact .event _ e h

theorem Prim0.toPrim {env : Env} {a b : St} (h : Prim0 env a b) : Prim env a b := by
  cases h with
  | seg h => exact h.toPrim
  | flag h => exact h.toPrim

theorem Star.toReach {env : Env} {a b : St} (h : Star (Prim0 env) a b) : Reach env a b := by
  induction h with
  | refl => exact .refl _
  | step _ hp ih => exact .step ih hp.toPrim

theorem Star.lift {env : Env} {a b : St} (h : Star (SPrim env) a b) : Star (Prim0 env) a b :=
  h.mono (fun _ _ hp => .seg hp)

/-- The status merge is the identity when the old status is not worse than the new one. -/
theorem updateStatus_of_rank_le {old new : Option Status}
    (h : statusRank old ≤ statusRank new) : updateStatus old new = new := by
  cases old with
  | none => cases new <;> rfl
  | some o =>
    cases new with
    | none => simp [statusRank] at h
    | some n =>
      simp only [statusRank] at h
      simp only [updateStatus]
      rw [if_neg (by omega)]

/-! ### evaluator_segment.go only makes `SPrim` updates -/

/-- What the parametric lemmas assume about the open recursion. -/
abbrev SegRecS (env : Env) (rec : SegRec) : Prop :=
  ∀ seg chain st, Star (SPrim env) st (rec seg chain st).2

theorem segMatchValues_sreach {rec : SegRec} {env : Env} (hrec : SegRecS env rec)
    (negate : Bool) (chain : List String) :
    ∀ vs st, Star (SPrim env) st (segMatchValues rec env negate chain vs st).2 := by
  intro vs
  induction vs with
  | nil => intro st; exact .refl _
  | cons v vs ih =>
    intro st
    cases v with
    | str k =>
      unfold segMatchValues
      simp only
      have h1 : Star (SPrim env) st { st with segLookups := st.segLookups ++ [k] } :=
        .single (.segLookup st k)
      split
      · exact h1.trans (ih _)
      · rename_i seg _
        have h2 := hrec seg chain { st with segLookups := st.segLookups ++ [k] }
        split
        · rename_i st2 heq; rw [heq] at h2; exact h1.trans h2
        · rename_i st2 heq; rw [heq] at h2; exact (h1.trans h2).trans (ih _)
        · rename_i e st2 heq; rw [heq] at h2; exact h1.trans h2
        · rename_i st2 heq; rw [heq] at h2; exact h1.trans h2
    | null => unfold segMatchValues; exact ih st
    | bool b => unfold segMatchValues; exact ih st
    | num q => unfold segMatchValues; exact ih st
    | arr xs => unfold segMatchValues; exact ih st
    | obj kvs => unfold segMatchValues; exact ih st
    | raw w => unfold segMatchValues; exact ih st

theorem clauseMatch_sreach {rec : SegRec} {env : Env} (hrec : SegRecS env rec)
    (chain : List String) (c : Clause) (st : St) :
    Star (SPrim env) st (clauseMatch rec env chain c st).2 := by
  unfold clauseMatch
  split
  · exact segMatchValues_sreach hrec _ _ _ _
  · exact .refl _

theorem clausesMatch_sreach {rec : SegRec} {env : Env} (hrec : SegRecS env rec)
    (chain : List String) : ∀ cs st, Star (SPrim env) st (clausesMatch rec env chain cs st).2 := by
  intro cs
  induction cs with
  | nil => intro st; exact .refl _
  | cons c cs ih =>
    intro st
    unfold clausesMatch
    have h1 := clauseMatch_sreach hrec chain c st
    split
    · rename_i st1 heq; rw [heq] at h1; exact h1.trans (ih _)
    · exact h1

theorem segRuleMatch_sreach {rec : SegRec} {env : Env} (hrec : SegRecS env rec)
    (chain : List String) (key salt : String) (r : SegmentRule) (st : St) :
    Star (SPrim env) st (segRuleMatch rec env chain key salt r st).2 := by
  unfold segRuleMatch
  have h1 := clausesMatch_sreach hrec chain r.clauses st
  split
  · rename_i st1 heq
    rw [heq] at h1
    split
    · exact h1
    · split
      · exact h1
      · split <;> exact h1
  · rename_i st1 heq; rw [heq] at h1; exact h1
  · exact h1

theorem segRules_sreach {rec : SegRec} {env : Env} (hrec : SegRecS env rec)
    (chain : List String) (s : Segment) :
    ∀ rules st, Star (SPrim env) st (segRules rec env chain s rules st).2 := by
  intro rules
  induction rules with
  | nil => intro st; exact .refl _
  | cons r rs ih =>
    intro st
    unfold segRules
    have h1 := segRuleMatch_sreach hrec chain s.key s.salt r st
    split
    · rename_i st1 heq; rw [heq] at h1; exact h1
    · rename_i st1 heq; rw [heq] at h1; exact h1.trans (ih _)
    · rename_i e st1 heq; rw [heq] at h1; exact h1
    · rename_i st1 heq; rw [heq] at h1; exact h1

theorem bigSegMembership_sreach (env : Env) (key : String) (st : St) :
    Star (SPrim env) st (bigSegMembership env key st).2 := by
  unfold bigSegMembership
  split
  · exact .refl _
  · rename_i hnone
    split
    · exact .single (.setNotConfigured st)
    · rename_i p hp
      exact .single (.query st key p hp hnone)

theorem segBody_sreach {rec : SegRec} {env : Env} (hrec : SegRecS env rec)
    (s : Segment) (chain : List String) (st : St) :
    Star (SPrim env) st (segBody rec env s chain st).2 := by
  unfold segBody
  split
  · exact .refl _
  · simp only
    split
    · split
      · exact .single (.setNotConfigured st)
      · split
        · exact .refl _
        · rename_i key _
          have h1 := bigSegMembership_sreach env key st
          generalize bigSegMembership env key st = r at h1
          obtain ⟨m, st1⟩ := r
          simp only at h1 ⊢
          split
          · exact h1.trans (segRules_sreach hrec _ _ _ _)
          · have h2 : Star (SPrim env) st
                { st1 with memChecks := st1.memChecks ++ [(key, bigSegmentRef s)] } :=
              .step h1 (.memCheck st1 key (bigSegmentRef s))
            split
            · exact h2
            · exact h2.trans (segRules_sreach hrec _ _ _ _)
    · split
      · exact .refl _
      · exact segRules_sreach hrec _ _ _ _

theorem segContains_sreach (n : Nat) (env : Env) :
    ∀ s chain st, Star (SPrim env) st (segContains n env s chain st).2 := by
  induction n with
  | zero => intro s chain st; exact .refl _
  | succ n ih =>
    intro s chain st
    show Star (SPrim env) st (segBody (segContains n env) env s chain st).2
    exact segBody_sreach ih s chain st


/-! ### evaluator.go makes `Prim0` updates only: the status merge is the identity -/

theorem clausesMatch_freach {rec : SegRec} {env : Env} (hrec : SegRecS env rec)
    (chain : List String) (cs : List Clause) (st : St) :
    Star (Prim0 env) st (clausesMatch rec env chain cs st).2 :=
  (clausesMatch_sreach hrec chain cs st).lift


theorem logErr_freach (env : Env) (flagKey : String) (e : EvalErr) (st : St) :
    Star (Prim0 env) st (logErr env flagKey e st) := by
  unfold logErr
  split
  · rename_i h; exact .single (.flag (.log st _ h))
  · exact .refl _

theorem getVariation_freach (env : Env) (f : Flag) (index : Int) (reason : Reason) (st : St) :
    Star (Prim0 env) st (getVariation env f index reason st).2 := by
  unfold getVariation
  split
  · exact logErr_freach _ _ _ _
  · exact .refl _

theorem getOffValue_freach (env : Env) (f : Flag) (reason : Reason) (st : St) :
    Star (Prim0 env) st (getOffValue env f reason st).2 := by
  unfold getOffValue
  split
  · exact .refl _
  · exact getVariation_freach _ _ _ _ _

theorem getValueForVR_freach (env : Env) (f : Flag) (vr : VariationOrRollout) (reason : Reason)
    (st : St) : Star (Prim0 env) st (getValueForVR env f vr reason st).2 := by
  unfold getValueForVR
  split
  · exact logErr_freach _ _ _ _
  · exact getVariation_freach _ _ _ _ _

/-- What the parametric lemmas assume about the open prerequisite recursion. -/
abbrev FlagRecF (env : Env) (rec : FlagRec) : Prop :=
  ∀ f chain st, Star (Prim0 env) st (rec f chain st).2

theorem prereqLoop_freach {rec : FlagRec} {env : Env} (hrec : FlagRecF env rec)
    (f : Flag) (chain : List String) :
    ∀ ps st, Star (Prim0 env) st (prereqLoop rec env f chain ps st).2 := by
  intro ps
  induction ps with
  | nil => intro st; exact .refl _
  | cons p ps ih =>
    intro st
    unfold prereqLoop
    simp only
    have h1 : Star (Prim0 env) st { st with flagLookups := st.flagLookups ++ [p.key] } :=
      .single (.flag (.flagLookup st p.key))
    split
    · exact h1
    · rename_i pf _
      split
      · exact h1.trans (logErr_freach _ _ _ _)
      · have h2 := hrec pf chain { st with flagLookups := st.flagLookups ++ [p.key] }
        split
        · rename_i st2 heq; rw [heq] at h2; exact h1.trans h2
        · rename_i d ok st2 heq
          rw [heq] at h2
          have h3 : Star (Prim0 env) st
              { st2 with status := updateStatus st.status st2.status } := by
            have hprio : statusPriority st.status ≤ statusPriority st2.status :=
              reach_status_priority (h1.trans h2).toReach
            rw [updateStatus_of_priority_le hprio]
            exact h1.trans h2
          split
          · exact h3
          · split
            · split
              · rename_i hr
                exact .step h3 (.flag (.event _ _ hr))
              · exact h3
            · split
              · rename_i hr
                exact (Star.step h3 (.flag (.event _ _ hr))).trans (ih _)
              · exact h3.trans (ih _)

theorem checkPrereqs_freach {rec : FlagRec} {env : Env} (hrec : FlagRecF env rec)
    (f : Flag) (chain : List String) (st : St) :
    Star (Prim0 env) st (checkPrereqs rec env f chain st).2 := by
  unfold checkPrereqs
  split
  · exact .refl _
  · exact prereqLoop_freach hrec _ _ _ _

theorem rulesLoop_freach {seg : SegRec} {env : Env} (hseg : SegRecS env seg) (f : Flag) :
    ∀ rules i st, Star (Prim0 env) st (rulesLoop seg env f rules i st).2 := by
  intro rules
  induction rules with
  | nil =>
    intro i st
    unfold rulesLoop
    exact getValueForVR_freach _ _ _ _ _
  | cons r rs ih =>
    intro i st
    unfold rulesLoop
    have h1 := clausesMatch_freach hseg [] r.clauses st
    split
    · rename_i e st1 heq; rw [heq] at h1; exact h1.trans (logErr_freach _ _ _ _)
    · rename_i st1 heq; rw [heq] at h1; exact h1
    · rename_i st1 heq; rw [heq] at h1
      exact h1.trans (getValueForVR_freach _ _ _ _ _)
    · rename_i st1 heq; rw [heq] at h1; exact h1.trans (ih _ _)

theorem evalBody_freach {rec : FlagRec} {seg : SegRec} {env : Env} (hrec : FlagRecF env rec)
    (hseg : SegRecS env seg) (f : Flag) (chain : List String) (st : St) :
    Star (Prim0 env) st (evalBody rec seg env f chain st).2 := by
  unfold evalBody
  split
  · exact getOffValue_freach _ _ _ _
  · have h1 := checkPrereqs_freach hrec f chain st
    split
    · rename_i st1 heq; rw [heq] at h1; exact h1
    · rename_i st1 heq; rw [heq] at h1; exact h1
    · rename_i k st1 heq; rw [heq] at h1
      exact h1.trans (getOffValue_freach _ _ _ _)
    · rename_i st1 heq; rw [heq] at h1
      split
      · exact h1.trans (getVariation_freach _ _ _ _ _)
      · exact h1.trans (rulesLoop_freach hseg _ _ _ _)

theorem evalFlag_freach (sf n : Nat) (env : Env) :
    ∀ f chain st, Star (Prim0 env) st (evalFlag sf n env f chain st).2 := by
  induction n with
  | zero => intro f chain st; exact .refl _
  | succ n ih =>
    intro f chain st
    show Star (Prim0 env) st (evalBody (evalFlag sf n env) (segContains sf env) env f chain st).2
    exact evalBody_freach ih (segContains_sreach sf env) f chain st


/-! ### The reasons the evaluator builds

A predicate that holds of the six reason constructors the evaluator uses and is preserved by
`toExperiment` holds of the reason of every detail `evalFlag` returns. -/

structure ReasonInv (Q : Reason → Prop) : Prop where
  off : Q .off
  prereqFailed : ∀ k, Q (.prereqFailed k)
  targetMatch : Q .targetMatch
  fallthrough : Q .fallthrough
  ruleMatch : ∀ (i : Nat) id, Q (.ruleMatch i id)
  toExperiment : ∀ r, Q r → Q r.toExperiment
  error : ∀ k, Q (.error k)

section ReasonInv
variable {Q : Reason → Prop} (hQ : ReasonInv Q)
include hQ

theorem getVariation_reasonInv (env : Env) (f : Flag) (i : Int) (r : Reason) (st : St)
    (hr : Q r) : Q (getVariation env f i r st).1.reason := by
  unfold getVariation
  split
  · exact hQ.error _
  · exact hr

theorem getOffValue_reasonInv (env : Env) (f : Flag) (r : Reason) (st : St) (hr : Q r) :
    Q (getOffValue env f r st).1.reason := by
  unfold getOffValue
  split
  · exact hr
  · exact getVariation_reasonInv hQ _ _ _ _ _ hr

theorem getValueForVR_reasonInv (env : Env) (f : Flag) (vr : VariationOrRollout) (r : Reason)
    (st : St) (hr : Q r) : Q (getValueForVR env f vr r st).1.reason := by
  unfold getValueForVR
  split
  · exact hQ.error _
  · apply getVariation_reasonInv hQ
    split
    · exact hQ.toExperiment _ hr
    · exact hr

theorem rulesLoop_reasonInv {seg : SegRec} {env : Env} {f : Flag} :
    ∀ {rules i st d ok st'}, rulesLoop seg env f rules i st = (.done d ok, st') → Q d.reason := by
  intro rules
  induction rules with
  | nil =>
    intro i st d ok st' h
    unfold rulesLoop at h
    simp only [Prod.mk.injEq, FlagOut.done.injEq] at h
    rw [← h.1.1]
    exact getValueForVR_reasonInv hQ _ _ _ _ _ hQ.fallthrough
  | cons r rs ih =>
    intro i st d ok st' h
    unfold rulesLoop at h
    split at h
    · simp only [Prod.mk.injEq, FlagOut.done.injEq] at h
      rw [← h.1.1]; exact hQ.error _
    · simp at h
    · simp only [Prod.mk.injEq, FlagOut.done.injEq] at h
      rw [← h.1.1]
      exact getValueForVR_reasonInv hQ _ _ _ _ _ (hQ.ruleMatch _ _)
    · exact ih h

theorem evalBody_reasonInv {rec : FlagRec} {seg : SegRec} {env : Env} {f : Flag}
    {chain : List String} {st : St} {d : Detail} {ok : Bool} {st' : St}
    (h : evalBody rec seg env f chain st = (.done d ok, st')) : Q d.reason := by
  unfold evalBody at h
  split at h
  · simp only [Prod.mk.injEq, FlagOut.done.injEq] at h
    rw [← h.1.1]
    exact getOffValue_reasonInv hQ _ _ _ _ hQ.off
  · split at h
    · simp at h
    · simp only [Prod.mk.injEq, FlagOut.done.injEq] at h
      rw [← h.1.1]; exact hQ.error _
    · simp only [Prod.mk.injEq, FlagOut.done.injEq] at h
      rw [← h.1.1]
      exact getOffValue_reasonInv hQ _ _ _ _ (hQ.prereqFailed _)
    · split at h
      · simp only [Prod.mk.injEq, FlagOut.done.injEq] at h
        rw [← h.1.1]
        exact getVariation_reasonInv hQ _ _ _ _ _ hQ.targetMatch
      · exact rulesLoop_reasonInv hQ h

theorem evalFlag_reasonInv {sf n : Nat} {env : Env} {f : Flag} {chain : List String}
    {st : St} {d : Detail} {ok : Bool} {st' : St}
    (h : evalFlag sf n env f chain st = (.done d ok, st')) : Q d.reason := by
  cases n with
  | zero => simp [evalFlag] at h
  | succ n => exact evalBody_reasonInv hQ h

end ReasonInv

/-- Every reason the evaluator builds has no big-segments status (`evaluate` adds it). -/
theorem reasonInv_status : ReasonInv (fun r => r.bigSegmentsStatus = none) where
  off := rfl
  prereqFailed _ := rfl
  targetMatch := rfl
  fallthrough := rfl
  ruleMatch _ _ := rfl
  toExperiment r hr := by
    unfold Reason.toExperiment
    split <;> exact hr
  error _ := rfl

/-- An error kind is present exactly on ERROR reasons. -/
theorem reasonInv_errorKind : ReasonInv (fun r => r.kind = .error ↔ r.errorKind.isSome) where
  off := by decide
  prereqFailed _ := by simp [Reason.prereqFailed]
  targetMatch := by decide
  fallthrough := by decide
  ruleMatch _ _ := by simp [Reason.ruleMatch]
  toExperiment r hr := by
    unfold Reason.toExperiment
    split <;> exact hr
  error _ := by simp [Reason.error]

theorem evalFlag_status {sf n : Nat} {env : Env} {f : Flag} {chain : List String}
    {st : St} {d : Detail} {ok : Bool} {st' : St}
    (h : evalFlag sf n env f chain st = (.done d ok, st')) :
    d.reason.bigSegmentsStatus = none :=
  evalFlag_reasonInv reasonInv_status h

/-- Bridge to `evaluate` (finer than `evaluate_reach`): the side channels are those of a state
reached from the empty state by `Prim0` steps, and the reason's big-segments status is exactly that
state's status. -/
theorem evaluate_reach0 (env : Env) (f : Flag) :
    ∃ st, Star (Prim0 env) {} st ∧ (evaluate env f).events = st.events ∧
      (evaluate env f).logs = st.logs ∧ (evaluate env f).flagLookups = st.flagLookups ∧
      (evaluate env f).segLookups = st.segLookups ∧ (evaluate env f).bsQueries = st.bsQueries ∧
      (evaluate env f).memChecks = st.memChecks ∧
      (evaluate env f).result.detail.reason.bigSegmentsStatus = st.status := by
  unfold evaluate
  split
  · exact ⟨{}, .refl _, rfl, rfl, rfl, rfl, rfl, rfl, rfl⟩
  · have h := evalFlag_freach (segFuel env.store) (flagFuel env.store) env f [] {}
    have hs : ∀ d ok st', evalFlag (segFuel env.store) (flagFuel env.store) env f [] {} =
        (.done d ok, st') → d.reason.bigSegmentsStatus = none := fun _ _ _ h => evalFlag_status h
    generalize evalFlag (segFuel env.store) (flagFuel env.store) env f [] {} = r at h hs
    obtain ⟨out, st⟩ := r
    refine ⟨st, h, rfl, rfl, rfl, rfl, rfl, rfl, ?_⟩
    simp only
    cases hst : st.status with
    | some s => rfl
    | none =>
      simp only
      cases out with
      | oof => rfl
      | done d ok => exact hs d ok st rfl


/-! ### Status invariants

A provider may answer any status string, `""` included (`BSAnswer.status = none`), so the status can
disappear again (HEALTHY, then `""`).  The unconditional invariants are therefore stated with
`statusPriority`; the older "once set it stays set" forms hold for providers that never answer `""`
(`AnswersNonEmpty`, implied by `AnswersFourConstants`). -/

theorem updateStatus_some_right_isSome (old : Option Status) (s : Status) :
    (updateStatus old (some s)).isSome := by
  cases old with
  | none => rfl
  | some o => simp only [updateStatus]; split <;> rfl

theorem updateStatus_cases (old new : Option Status) :
    updateStatus old new = new ∨ updateStatus old new = old := by
  rw [updateStatus_eq]
  split
  · right; rfl
  · left; rfl

theorem updateStatus_some_cases (old : Option Status) (s : Status) :
    updateStatus old (some s) = some s ∨ updateStatus old (some s) = old :=
  updateStatus_cases old (some s)

theorem statusRank_zero {s : Option Status} (h : statusRank s ≤ 0) : s = none := by
  cases s with
  | none => rfl
  | some s => simp [statusRank] at h

theorem statusPriority_le_statusRank (s : Option Status) : statusPriority s ≤ statusRank s := by
  cases s with
  | none => exact Nat.le_refl _
  | some s => exact Nat.le_succ _

/-- (b) The status has at least the priority of every status the provider returned. -/
theorem reach_status_ge_queried {env : Env} {st : St} (h : Reach env {} st) :
    ∀ k ∈ st.bsQueries, ∃ p, env.bs = some p ∧
      statusPriority (p.get k).status ≤ statusPriority st.status := by
  refine Reach.invariant (I := fun st => ∀ k ∈ st.bsQueries, ∃ p, env.bs = some p ∧
      statusPriority (p.get k).status ≤ statusPriority st.status) ?_ h ?_
  · intro a b hp ha
    have hr := hp.status_priority
    cases hp with
    | query key p hbs _ =>
      intro k hk
      change k ∈ a.bsQueries ++ [key] at hk
      rcases List.mem_append.1 hk with hk | hk
      · obtain ⟨q, hq1, hq2⟩ := ha k hk
        exact ⟨q, hq1, Nat.le_trans hq2 hr⟩
      · rw [List.mem_singleton] at hk
        subst hk
        exact ⟨p, hbs, statusPriority_updateStatus_right _ _⟩
    | _ =>
      intro k hk
      obtain ⟨q, hq1, hq2⟩ := ha k hk
      exact ⟨q, hq1, Nat.le_trans hq2 hr⟩
  · intro k hk; cases hk

/-- (b) for a provider that never answers `""`, in the older rank form (`none` strictly below every
status): in particular the status is then present as soon as there was a query. -/
theorem reach_status_rank_ge_queried {env : Env} (hne : AnswersNonEmpty env) {st : St}
    (h : Reach env {} st) :
    ∀ k ∈ st.bsQueries, ∃ p, env.bs = some p ∧
      statusRank (p.get k).status ≤ statusRank st.status := by
  refine Reach.invariant (I := fun st => ∀ k ∈ st.bsQueries, ∃ p, env.bs = some p ∧
      statusRank (p.get k).status ≤ statusRank st.status) ?_ h ?_
  · intro a b hp ha
    have hr := hp.status_rank hne
    cases hp with
    | query key p hbs _ =>
      intro k hk
      change k ∈ a.bsQueries ++ [key] at hk
      rcases List.mem_append.1 hk with hk | hk
      · obtain ⟨q, hq1, hq2⟩ := ha k hk
        exact ⟨q, hq1, Nat.le_trans hq2 hr⟩
      · rw [List.mem_singleton] at hk
        subst hk
        exact ⟨p, hbs, statusRank_updateStatus_right _ _⟩
    | _ =>
      intro k hk
      obtain ⟨q, hq1, hq2⟩ := ha k hk
      exact ⟨q, hq1, Nat.le_trans hq2 hr⟩
  · intro k hk; cases hk

/-- (a) No status ⇒ every status the provider returned had priority 0 (HEALTHY, an unknown string,
or `""`).  The provider MAY have been queried: HEALTHY followed by `""` leaves no status. -/
theorem reach_status_none_priority {env : Env} {st : St} (h : Reach env {} st)
    (hs : st.status = none) :
    ∀ k ∈ st.bsQueries, ∃ p, env.bs = some p ∧ statusPriority (p.get k).status = 0 := by
  intro k hk
  obtain ⟨p, hp, hle⟩ := reach_status_ge_queried h k hk
  rw [hs] at hle
  exact ⟨p, hp, Nat.le_zero.1 hle⟩

/-- (a) for a provider that never answers `""`: no status ⇒ the provider was never queried. -/
theorem reach_status_none_queries {env : Env} (hne : AnswersNonEmpty env) {st : St}
    (h : Reach env {} st) (hs : st.status = none) : st.bsQueries = [] := by
  cases hq : st.bsQueries with
  | nil => rfl
  | cons k ks =>
    obtain ⟨p, hp, hle⟩ := reach_status_rank_ge_queried hne h k (by rw [hq]; exact List.mem_cons_self)
    have hsome := hne p hp k
    rw [hs] at hle
    rw [statusRank_zero hle] at hsome
    cases hsome

/-- For a provider that never answers `""`: the membership cache is non-empty only if a status has
been set. -/
theorem reach_cache_status {env : Env} (hne : AnswersNonEmpty env) {st : St}
    (h : Reach env {} st) : st.cache = [] ∨ st.status.isSome := by
  refine Reach.invariant (I := fun st => st.cache = [] ∨ st.status.isSome) ?_ h (.inl rfl)
  intro a b hp ha
  cases hp with
  | query key p hbs _ =>
    right
    show (updateStatus a.status (p.get key).status).isSome
    have := hne p hbs key
    cases hs : (p.get key).status with
    | none => rw [hs] at this; cases this
    | some s => exact updateStatus_some_right_isSome _ _
  | setNotConfigured => exact .inr rfl
  | mergeStatus old =>
    rcases ha with ha | ha
    · exact .inl ha
    · exact .inr (reach_status_some hne (env := env) (.single (.mergeStatus a old)) ha)
  | _ => exact ha

/-- "The status is the worst one actually seen, the LAST one among equally bad ones": nothing was
seen and there is no status; or NOT_CONFIGURED; or the status is the one the provider returned for a
queried key `k`, no earlier answer has a higher priority and every later answer has a strictly
lower one.  (An answer `""` that is reported is `status = none` with the third alternative: the
status disappeared.) -/
def StatusSeen (env : Env) (status : Option Status) (queries : List String) : Prop :=
  (status = none ∧ queries = []) ∨ status = some .notConfigured ∨
    ∃ p pre k post, env.bs = some p ∧ queries = pre ++ k :: post ∧ status = (p.get k).status ∧
      (∀ k' ∈ pre, statusPriority (p.get k').status ≤ statusPriority status) ∧
      (∀ k' ∈ post, statusPriority (p.get k').status < statusPriority status)

/-- The weaker, older reading of `StatusSeen`: nothing, NOT_CONFIGURED, or what the provider
returned for one of the queried keys. -/
theorem StatusSeen.weaken {env : Env} {status : Option Status} {queries : List String}
    (h : StatusSeen env status queries) :
    status = none ∨ status = some .notConfigured ∨
      ∃ p k, env.bs = some p ∧ k ∈ queries ∧ status = (p.get k).status := by
  rcases h with ⟨h, _⟩ | h | ⟨p, pre, k, post, hp, hq, hs, _, _⟩
  · exact .inl h
  · exact .inr (.inl h)
  · exact .inr (.inr ⟨p, k, hp, by rw [hq]; simp, hs⟩)

/-- (c) -/
theorem star_status_seen {env : Env} {st : St} (h : Star (Prim0 env) {} st) :
    StatusSeen env st.status st.bsQueries := by
  refine (Star.invariant
    (I := fun st => Reach env {} st ∧ StatusSeen env st.status st.bsQueries) ?_ h
    ⟨.refl _, .inl ⟨rfl, rfl⟩⟩).2
  intro a b hp ⟨hreach, ha⟩
  refine ⟨.step hreach hp.toPrim, ?_⟩
  cases hp with
  | flag hf => cases hf <;> exact ha
  | seg hs =>
    cases hs with
    | segLookup => exact ha
    | memCheck => exact ha
    | setNotConfigured => exact .inr (.inl rfl)
    | query key p hbs _ =>
      show StatusSeen env (updateStatus a.status (p.get key).status) (a.bsQueries ++ [key])
      by_cases hgt : statusPriority (p.get key).status < statusPriority a.status
      · rw [updateStatus_of_priority_gt hgt]
        rcases ha with ⟨hn, _⟩ | ha | ⟨q, pre, k, post, hq, hsplit, hs, hpre, hpost⟩
        · rw [hn] at hgt; exact absurd hgt (Nat.not_lt_zero _)
        · exact .inr (.inl ha)
        · have hqp : q = p := by rw [hq] at hbs; exact Option.some.inj hbs
          subst hqp
          refine .inr (.inr ⟨q, pre, k, post ++ [key], hq, ?_, hs, hpre, ?_⟩)
          · rw [hsplit, List.append_assoc]; rfl
          · intro k' hk'
            rcases List.mem_append.1 hk' with hk' | hk'
            · exact hpost k' hk'
            · rw [List.mem_singleton] at hk'; subst hk'; exact hgt
      · have hle : statusPriority a.status ≤ statusPriority (p.get key).status := Nat.le_of_not_lt hgt
        rw [updateStatus_of_priority_le hle]
        rcases ha with ⟨_, hq⟩ | ha | _
        · refine .inr (.inr ⟨p, [], key, [], hbs, by rw [hq], rfl, ?_, ?_⟩) <;>
            (intro k' hk'; cases hk')
        · rw [ha] at hle
          exact .inr (.inl (eq_notConfigured_of_statusPriority hle))
        · refine .inr (.inr ⟨p, a.bsQueries, key, [], hbs, rfl, rfl, ?_, ?_⟩)
          · intro k' hk'
            obtain ⟨q, hq, hle'⟩ := reach_status_ge_queried hreach k' hk'
            have hqp : q = p := by rw [hq] at hbs; exact Option.some.inj hbs
            subst hqp
            exact Nat.le_trans hle' hle
          · intro k' hk'; cases hk'

/-- (d) Without a provider the only status there can be is NOT_CONFIGURED. -/
theorem star_no_provider_status {env : Env} {st : St} (hbs : env.bs = none)
    (h : Star (Prim0 env) {} st) : st.status = none ∨ st.status = some .notConfigured := by
  rcases star_status_seen h with ⟨h1, _⟩ | h1 | ⟨p, _, _, _, hp, _⟩
  · exact .inl h1
  · exact .inr h1
  · rw [hbs] at hp; cases hp

/-- The status the provider returns for `k` (`none` = `""`, also when there is no provider). -/
def answerOf (env : Env) (k : String) : Option Status :=
  match env.bs with
  | some p => (p.get k).status
  | none => none

/-- `computeUpdatedBigSegmentsStatus` folded over a sequence of answers, starting from `""`. -/
def foldStatus (l : List (Option Status)) : Option Status := l.foldl updateStatus none

/-- The exact value: unless NOT_CONFIGURED was recorded (no provider, no generation, or an answer
NOT_CONFIGURED), the status is Go's `computeUpdatedBigSegmentsStatus` folded over the provider's
answers in the order of the queries. -/
theorem star_status_fold {env : Env} {st : St} (h : Star (Prim0 env) {} st) :
    st.status = some .notConfigured ∨
      st.status = foldStatus (st.bsQueries.map (answerOf env)) := by
  refine Star.invariant (I := fun st => st.status = some .notConfigured ∨
      st.status = foldStatus (st.bsQueries.map (answerOf env))) ?_ h (.inr rfl)
  intro a b hp ha
  cases hp with
  | flag hf => cases hf <;> exact ha
  | seg hs =>
    cases hs with
    | segLookup => exact ha
    | memCheck => exact ha
    | setNotConfigured => exact .inl rfl
    | query key p hbs _ =>
      show updateStatus a.status (p.get key).status = _ ∨
        updateStatus a.status (p.get key).status = foldStatus ((a.bsQueries ++ [key]).map (answerOf env))
      rcases ha with ha | ha
      · rw [ha]; exact .inl (updateStatus_notConfigured_left _)
      · right
        rw [ha]
        simp [foldStatus, List.foldl_append, answerOf, hbs]

/-- The fold picks the maximal priority. -/
theorem statusPriority_foldStatus_ge (l : List (Option Status)) :
    ∀ x ∈ l, statusPriority x ≤ statusPriority (foldStatus l) := by
  suffices H : ∀ (l : List (Option Status)) (init : Option Status),
      statusPriority init ≤ statusPriority (l.foldl updateStatus init) ∧
      ∀ x ∈ l, statusPriority x ≤ statusPriority (l.foldl updateStatus init) from (H l none).2
  intro l
  induction l with
  | nil => intro init; exact ⟨Nat.le_refl _, fun x hx => by cases hx⟩
  | cons y ys ih =>
    intro init
    obtain ⟨h1, h2⟩ := ih (updateStatus init y)
    refine ⟨Nat.le_trans (statusPriority_updateStatus_left _ _) h1, ?_⟩
    intro x hx
    rcases List.mem_cons.1 hx with hx | hx
    · subst hx; exact Nat.le_trans (statusPriority_updateStatus_right _ _) h1
    · exact h2 x hx


/-! ### Logs: segments never log; the four flag-level sites log on the spot -/

theorem SPrim.frame {env : Env} {a b : St} (h : SPrim env a b) :
    b.logs = a.logs ∧ b.flagLookups = a.flagLookups ∧ b.events = a.events := by
  cases h <;> exact ⟨rfl, rfl, rfl⟩

/-- evaluator_segment.go writes no log line, looks up no flag and records no event. -/
theorem star_sprim_frame {env : Env} {a b : St} (h : Star (SPrim env) a b) :
    b.logs = a.logs ∧ b.flagLookups = a.flagLookups ∧ b.events = a.events := by
  refine Star.invariant
    (I := fun st => st.logs = a.logs ∧ st.flagLookups = a.flagLookups ∧ st.events = a.events)
    ?_ h ⟨rfl, rfl, rfl⟩
  intro x y hp hx
  obtain ⟨h1, h2, h3⟩ := hp.frame
  exact ⟨h1.trans hx.1, h2.trans hx.2.1, h3.trans hx.2.2⟩

theorem segContains_logs (n : Nat) (env : Env) (s : Segment) (chain : List String) (st : St) :
    (segContains n env s chain st).2.logs = st.logs :=
  (star_sprim_frame (segContains_sreach n env s chain st)).1

theorem logErr_logs {env : Env} (h : env.opts.logger = true) (k : String) (e : EvalErr) (st : St) :
    (logErr env k e st).logs = st.logs ++ [⟨k, e⟩] := by
  simp [logErr, h]

theorem logErr_flagLookups (env : Env) (k : String) (e : EvalErr) (st : St) :
    (logErr env k e st).flagLookups = st.flagLookups := by
  unfold logErr; split <;> rfl

/-- A value-selection site (`getVariation`, `getOffValue`, `getValueForVR`): an error detail is
logged on the spot under the flag's own key with a MALFORMED_FLAG-class error; any other detail
leaves the state alone. -/
def LocalSite (env : Env) (f : Flag) (st : St) (p : Detail × St) : Prop :=
  (p.1.reason.kind = .error → ∃ e, e.kind = .malformedFlag ∧ p.2 = logErr env f.key e st) ∧
  (p.1.reason.kind ≠ .error → p.2 = st)

theorem getVariation_site (env : Env) (f : Flag) (i : Int) (r : Reason) (st : St)
    (hr : r.kind ≠ .error) : LocalSite env f st (getVariation env f i r st) := by
  unfold getVariation
  split
  · exact ⟨fun _ => ⟨.badVariation i, rfl, rfl⟩, fun h => (h rfl).elim⟩
  · exact ⟨fun h => absurd h hr, fun _ => rfl⟩

/-- The bad-index case, explicitly: the line is `⟨f.key, badVariation i⟩`. -/
theorem getVariation_bad_index (env : Env) (f : Flag) (i : Int) (r : Reason) (st : St)
    (h : i < 0 ∨ i ≥ f.variations.length) :
    getVariation env f i r st =
      (Detail.forError .malformedFlag, logErr env f.key (.badVariation i) st) := by
  unfold getVariation
  rw [if_pos h]

theorem getOffValue_site (env : Env) (f : Flag) (r : Reason) (st : St)
    (hr : r.kind ≠ .error) : LocalSite env f st (getOffValue env f r st) := by
  unfold getOffValue
  split
  · exact ⟨fun h => absurd h hr, fun _ => rfl⟩
  · exact getVariation_site _ _ _ _ _ hr

theorem toExperiment_kind (r : Reason) : r.toExperiment.kind = r.kind := by
  unfold Reason.toExperiment
  split <;> rfl

theorem getValueForVR_site (env : Env) (f : Flag) (vr : VariationOrRollout) (r : Reason) (st : St)
    (hr : r.kind ≠ .error) : LocalSite env f st (getValueForVR env f vr r st) := by
  unfold getValueForVR
  split
  · rename_i e he
    exact ⟨fun _ => ⟨e, variationOrRollout_err_kind he, rfl⟩, fun h => (h rfl).elim⟩
  · apply getVariation_site
    split
    · rw [toExperiment_kind]; exact hr
    · exact hr

/-- The selection-error case, explicitly: the line is `⟨f.key, e⟩` with `e` the error. -/
theorem getValueForVR_error (env : Env) (f : Flag) (vr : VariationOrRollout) (r : Reason) (st : St)
    (e : EvalErr) (h : variationOrRollout env vr f.key f.salt = .error e) :
    getValueForVR env f vr r st = (Detail.forError e.kind, logErr env f.key e st) := by
  unfold getValueForVR
  rw [h]

/-- The rule loop: `st1` is the state after rule matching (which never logs); an error result is
the log line `⟨f.key, e⟩` appended to it, anything else leaves it as it is. -/
theorem rulesLoop_site {sf : Nat} {env : Env} {f : Flag} :
    ∀ {rules i st d ok st'}, rulesLoop (segContains sf env) env f rules i st = (.done d ok, st') →
      ∃ st1, st1.logs = st.logs ∧ st1.flagLookups = st.flagLookups ∧
        ((d.reason.kind = .error ∨ ok = false) →
          ∃ e, e.kind = .malformedFlag ∧ st' = logErr env f.key e st1) ∧
        (d.reason.kind ≠ .error → st' = st1) := by
  intro rules
  induction rules with
  | nil =>
    intro i st d ok st' h
    unfold rulesLoop at h
    simp only [Prod.mk.injEq, FlagOut.done.injEq] at h
    obtain ⟨⟨rfl, rfl⟩, rfl⟩ := h
    have hs := getValueForVR_site env f f.fallthrough .fallthrough st (by decide)
    refine ⟨st, rfl, rfl, ?_, hs.2⟩
    intro herr
    rcases herr with he | he
    · exact hs.1 he
    · cases he
  | cons r rs ih =>
    intro i st d ok st' h
    unfold rulesLoop at h
    have hc := star_sprim_frame (clausesMatch_sreach (segContains_sreach sf env) [] r.clauses st)
    split at h
    · rename_i e st1 heq
      rw [heq] at hc
      simp only [Prod.mk.injEq, FlagOut.done.injEq] at h
      obtain ⟨⟨rfl, rfl⟩, rfl⟩ := h
      exact ⟨st1, hc.1, hc.2.1, fun _ => ⟨e, flag_clauses_err_kind heq, rfl⟩, fun h => (h rfl).elim⟩
    · simp at h
    · rename_i st1 heq
      rw [heq] at hc
      simp only [Prod.mk.injEq, FlagOut.done.injEq] at h
      obtain ⟨⟨rfl, rfl⟩, rfl⟩ := h
      have hs := getValueForVR_site env f r.vr (.ruleMatch i r.id) st1 (by simp [Reason.ruleMatch])
      refine ⟨st1, hc.1, hc.2.1, ?_, hs.2⟩
      intro herr
      rcases herr with he | he
      · exact hs.1 he
      · cases he
    · rename_i st1 heq
      rw [heq] at hc
      obtain ⟨st2, h1, h2, h3⟩ := ih h
      exact ⟨st2, h1.trans hc.1, h2.trans hc.2.1, h3⟩

/-- The line names (by its OWN key) a flag that the store `s` returned for one of the lookup keys
`ks`.  For a store that files every flag under its own key this is just `key ∈ ks`
(`NamesLookedUp.of_consistent`). -/
def NamesLookedUp (s : Store) (key : String) (ks : List String) : Prop :=
  ∃ k ∈ ks, ∃ pf, s.findFlag k = some pf ∧ key = pf.key

theorem NamesLookedUp.mono {s : Store} {key : String} {ks ks' : List String}
    (h : ∀ k ∈ ks, k ∈ ks') (hn : NamesLookedUp s key ks) : NamesLookedUp s key ks' := by
  obtain ⟨k, hk, pf, hf, he⟩ := hn
  exact ⟨k, h k hk, pf, hf, he⟩

theorem NamesLookedUp.of_consistent {s : Store} (hs : StoreConsistent s) {key : String}
    {ks : List String} (hn : NamesLookedUp s key ks) : key ∈ ks := by
  obtain ⟨k, hk, pf, hf, he⟩ := hn
  have : k = pf.key := hs.1 _ (Store.mem_of_findFlag hf)
  rw [he, ← this]; exact hk

/-- The call wrote a diagnosing line: the last log line is new, its error is of the
MALFORMED_FLAG class, and it names `key` — or, when the evaluation was aborted (`ok = false`),
possibly one of the (prerequisite) flags the store returned for a lookup made during the call
(named by that flag's own key, which need not be the lookup key). -/
def Diag (s : Store) (key : String) (ok : Bool) (st st' : St) : Prop :=
  ∃ l, st'.logs.getLast? = some l ∧ st.logs.length < st'.logs.length ∧
    l.err.kind = .malformedFlag ∧
    (l.flagKey = key ∨
      (ok = false ∧ NamesLookedUp s l.flagKey (st'.flagLookups.drop st.flagLookups.length)))

theorem diag_logErr {env : Env} (hl : env.opts.logger = true) {key : String} {e : EvalErr}
    {a b : St} {ok : Bool} (he : e.kind = .malformedFlag) (hlen : a.logs.length ≤ b.logs.length) :
    Diag env.store key ok a (logErr env key e b) := by
  refine ⟨⟨key, e⟩, ?_, ?_, he, .inl rfl⟩
  · rw [logErr_logs hl]; exact List.getLast?_concat
  · rw [logErr_logs hl, List.length_append]
    simp only [List.length_cons, List.length_nil]
    omega

theorem mem_drop_of_le {α : Type} {x : α} {l : List α} {n m : Nat} (h : n ≤ m)
    (hx : x ∈ l.drop m) : x ∈ l.drop n := by
  have : l.drop m = (l.drop n).drop (m - n) := by
    rw [List.drop_drop]; congr 1; omega
  rw [this] at hx
  exact List.mem_of_mem_drop hx

theorem Diag.weaken {s : Store} {key : String} {ok : Bool} {a b c : St}
    (h1 : a.logs.length ≤ b.logs.length) (h2 : a.flagLookups.length ≤ b.flagLookups.length)
    (h : Diag s key ok b c) : Diag s key ok a c := by
  obtain ⟨l, hl1, hl2, hl3, hl4⟩ := h
  refine ⟨l, hl1, by omega, hl3, ?_⟩
  rcases hl4 with hl4 | ⟨hok, hl4⟩
  · exact .inl hl4
  · exact .inr ⟨hok, hl4.mono fun k hk => mem_drop_of_le h2 hk⟩

/-- What the parametric lemmas assume about the open prerequisite recursion. -/
abbrev FlagRecDiag (s : Store) (rec : FlagRec) : Prop :=
  ∀ pf chain st d ok st', rec pf chain st = (.done d ok, st') →
    (d.reason.kind = .error ∨ ok = false) → Diag s pf.key ok st st'

/-- The returned flag sits in the store under the lookup key (its own key may differ). -/
theorem findFlag_key_sl {s : Store} {k : String} {pf : Flag} (h : s.findFlag k = some pf) :
    (k, pf) ∈ s.flags :=
  Store.mem_of_findFlag h


theorem prereqLoop_diag {rec : FlagRec} {env : Env} (hl : env.opts.logger = true)
    (hrec : FlagRecDiag env.store rec) (hreach : FlagRecF env rec) (f : Flag)
    (chain : List String) :
    ∀ ps st st', prereqLoop rec env f chain ps st = (.malformed, st') →
      Diag env.store f.key false st st' := by
  intro ps
  induction ps with
  | nil => intro st st' h; simp [prereqLoop] at h
  | cons p ps ih =>
    intro st st' h
    unfold prereqLoop at h
    simp only at h
    split at h
    · simp at h
    · rename_i pf hfind
      split at h
      · -- prerequisite cycle: logged on the spot under the dependent flag's key
        simp only [Prod.mk.injEq, true_and] at h
        subst h
        exact diag_logErr hl (a := st) (b := { st with flagLookups := st.flagLookups ++ [p.key] })
          rfl (Nat.le_refl _)
      · have h2 := hreach pf chain { st with flagLookups := st.flagLookups ++ [p.key] }
        split at h
        · simp at h
        · rename_i d ok st2 heq
          rw [heq] at h2
          have hfl : (st.flagLookups ++ [p.key]) <+: st2.flagLookups :=
            reach_flagLookups_prefix h2.toReach
          have hlg : st.logs <+: st2.logs :=
            reach_logs_prefix (a := { st with flagLookups := st.flagLookups ++ [p.key] }) h2.toReach
          cases ok with
          | false =>
            simp only [Bool.not_false, if_true, Prod.mk.injEq, true_and] at h
            subst h
            obtain ⟨l, hl1, hl2, hl3, hl4⟩ := hrec pf chain _ d false st2 heq (.inr rfl)
            refine ⟨l, hl1, hl2, hl3, .inr ⟨rfl, ?_⟩⟩
            show NamesLookedUp env.store l.flagKey (st2.flagLookups.drop st.flagLookups.length)
            rcases hl4 with hl4 | ⟨_, hl4⟩
            · obtain ⟨t, ht⟩ := hfl
              refine ⟨p.key, ?_, pf, hfind, hl4⟩
              rw [← ht, List.append_assoc, List.drop_left]
              exact List.mem_cons_self
            · refine hl4.mono fun k hk => mem_drop_of_le ?_ hk
              show st.flagLookups.length ≤ (st.flagLookups ++ [p.key]).length
              rw [List.length_append]; omega
          | true =>
            simp only [Bool.not_true, Bool.false_eq_true, if_false] at h
            split at h
            · simp at h
            · have hd := ih _ _ h
              refine hd.weaken ?_ ?_
              · have : st.logs.length ≤ st2.logs.length := hlg.length_le
                split <;> exact this
              · have : st.flagLookups.length ≤ st2.flagLookups.length := by
                  have := hfl.length_le
                  rw [List.length_append] at this; omega
                split <;> exact this

theorem checkPrereqs_diag {rec : FlagRec} {env : Env} (hl : env.opts.logger = true)
    (hrec : FlagRecDiag env.store rec) (hreach : FlagRecF env rec) {f : Flag}
    {chain : List String}
    {st st' : St} (h : checkPrereqs rec env f chain st = (.malformed, st')) :
    Diag env.store f.key false st st' := by
  unfold checkPrereqs at h
  split at h
  · simp at h
  · exact prereqLoop_diag hl hrec hreach f _ _ _ _ h

theorem evalBody_diag {rec : FlagRec} {sf : Nat} {env : Env} (hl : env.opts.logger = true)
    (hrec : FlagRecDiag env.store rec) (hreach : FlagRecF env rec) {f : Flag}
    {chain : List String}
    {st : St} {d : Detail} {ok : Bool} {st' : St}
    (h : evalBody rec (segContains sf env) env f chain st = (.done d ok, st'))
    (herr : d.reason.kind = .error ∨ ok = false) : Diag env.store f.key ok st st' := by
  unfold evalBody at h
  split at h
  · simp only [Prod.mk.injEq, FlagOut.done.injEq] at h
    obtain ⟨⟨rfl, rfl⟩, rfl⟩ := h
    have hs := getOffValue_site env f .off st (by decide)
    rcases herr with he | he
    · obtain ⟨e, hk, hst⟩ := hs.1 he
      rw [hst]; exact diag_logErr hl hk (Nat.le_refl _)
    · cases he
  · have hp := checkPrereqs_freach hreach f chain st
    split at h
    · simp at h
    · rename_i st1 heq
      simp only [Prod.mk.injEq, FlagOut.done.injEq] at h
      obtain ⟨⟨rfl, rfl⟩, rfl⟩ := h
      exact checkPrereqs_diag hl hrec hreach heq
    · rename_i k st1 heq
      rw [heq] at hp
      have hlen : st.logs.length ≤ st1.logs.length := (reach_logs_prefix hp.toReach).length_le
      simp only [Prod.mk.injEq, FlagOut.done.injEq] at h
      obtain ⟨⟨rfl, rfl⟩, rfl⟩ := h
      have hs := getOffValue_site env f (.prereqFailed k) st1 (by simp [Reason.prereqFailed])
      rcases herr with he | he
      · obtain ⟨e, hk, hst⟩ := hs.1 he
        rw [hst]; exact diag_logErr hl hk hlen
      · cases he
    · rename_i st1 heq
      rw [heq] at hp
      have hlen : st.logs.length ≤ st1.logs.length := (reach_logs_prefix hp.toReach).length_le
      split at h
      · rename_i v _
        simp only [Prod.mk.injEq, FlagOut.done.injEq] at h
        obtain ⟨⟨rfl, rfl⟩, rfl⟩ := h
        have hs := getVariation_site env f v .targetMatch st1 (by decide)
        rcases herr with he | he
        · obtain ⟨e, hk, hst⟩ := hs.1 he
          rw [hst]; exact diag_logErr hl hk hlen
        · cases he
      · obtain ⟨st2, h1, _, h3, _⟩ := rulesLoop_site h
        obtain ⟨e, hk, hst⟩ := h3 herr
        rw [hst]
        exact diag_logErr hl hk (by rw [h1]; exact hlen)

/-- C19 core: whenever `evalFlag` returns an error detail (or aborts), and a logger is configured,
the call wrote a diagnosing line (`Diag`). -/
theorem evalFlag_diag (sf : Nat) {env : Env} (hl : env.opts.logger = true) :
    ∀ n, FlagRecDiag env.store (evalFlag sf n env) := by
  intro n
  induction n with
  | zero => intro pf chain st d ok st' h; simp [evalFlag] at h
  | succ n ih =>
    intro pf chain st d ok st' h herr
    exact evalBody_diag hl ih (evalFlag_freach sf n env) h herr

/-- A non-error result writes nothing on the flag's own path: whatever was logged was logged while
evaluating the prerequisites. -/
theorem evalBody_silent {rec : FlagRec} {sf : Nat} {env : Env} {f : Flag} {chain : List String}
    {st : St} {d : Detail} {ok : Bool} {st' : St}
    (h : evalBody rec (segContains sf env) env f chain st = (.done d ok, st'))
    (hne : d.reason.kind ≠ .error) :
    st'.logs = if f.on then (checkPrereqs rec env f chain st).2.logs else st.logs := by
  unfold evalBody at h
  split at h
  · rename_i hon
    simp only [Prod.mk.injEq, FlagOut.done.injEq] at h
    obtain ⟨⟨rfl, rfl⟩, rfl⟩ := h
    have hs := getOffValue_site env f .off st (by decide)
    rw [hs.2 hne]
    simp only [Bool.not_eq_true'] at hon
    simp [hon]
  · rename_i hon
    have hon' : f.on = true := by simpa using hon
    rw [if_pos hon']
    split at h
    · simp at h
    · simp only [Prod.mk.injEq, FlagOut.done.injEq] at h
      obtain ⟨⟨rfl, rfl⟩, rfl⟩ := h
      exact (hne rfl).elim
    · rename_i k st1 heq
      simp only [Prod.mk.injEq, FlagOut.done.injEq] at h
      obtain ⟨⟨rfl, rfl⟩, rfl⟩ := h
      have hs := getOffValue_site env f (.prereqFailed k) st1 (by simp [Reason.prereqFailed])
      rw [hs.2 hne, heq]
    · rename_i st1 heq
      split at h
      · rename_i v _
        simp only [Prod.mk.injEq, FlagOut.done.injEq] at h
        obtain ⟨⟨rfl, rfl⟩, rfl⟩ := h
        have hs := getVariation_site env f v .targetMatch st1 (by decide)
        rw [hs.2 hne, heq]
      · obtain ⟨st2, h1, _, _, h4⟩ := rulesLoop_site h
        rw [h4 hne, h1, heq]


/-! ### `evaluate` = `finish` ∘ `evalFlag` for valid contexts -/

/-- The tail of `evaluate`: package the outcome of `evalFlag` and its final state. -/
def finish (f : Flag) (out : FlagOut) (st : St) : Obs :=
  let (outcome, d) : Outcome × Detail :=
    match out with
    | .done d _ => (.done, d)
    | .oof => (.outOfFuel, Detail.forError .exception)
  let d := match st.status with
    | some s => { d with reason := { d.reason with bigSegmentsStatus := some s } }
    | none => d
  { outcome := outcome, result := ⟨d, isExperimentResult f d.reason⟩,
    events := st.events, logs := st.logs, flagLookups := st.flagLookups,
    segLookups := st.segLookups, bsQueries := st.bsQueries, memChecks := st.memChecks }

theorem evaluate_eq_finish (env : Env) (f : Flag) (h : env.ctx ≠ .invalid) :
    evaluate env f =
      finish f (evalFlag (segFuel env.store) (flagFuel env.store) env f [] {}).1
        (evalFlag (segFuel env.store) (flagFuel env.store) env f [] {}).2 := by
  unfold evaluate finish
  split
  · contradiction
  · rfl

theorem finish_logs (f : Flag) (out : FlagOut) (st : St) : (finish f out st).logs = st.logs := by
  cases out <;> rfl

theorem finish_flagLookups (f : Flag) (out : FlagOut) (st : St) :
    (finish f out st).flagLookups = st.flagLookups := by
  cases out <;> rfl

theorem finish_errorKind_done (f : Flag) (d : Detail) (ok : Bool) (st : St) :
    (finish f (.done d ok) st).result.detail.reason.errorKind = d.reason.errorKind := by
  unfold finish
  cases st.status <;> rfl

theorem finish_errorKind_oof (f : Flag) (st : St) :
    (finish f .oof st).result.detail.reason.errorKind = some .exception := by
  unfold finish
  cases st.status <;> rfl

/-- Forget the log. -/
def St.noLogs (st : St) : St := { st with logs := [] }

/-- `finish` does not look at the log. -/
theorem finish_congr (f : Flag) (out : FlagOut) {st st' : St} (h : st'.noLogs = st.noLogs) :
    (finish f out st').outcome = (finish f out st).outcome ∧
    (finish f out st').result = (finish f out st).result ∧
    (finish f out st').events = (finish f out st).events ∧
    (finish f out st').flagLookups = (finish f out st).flagLookups ∧
    (finish f out st').segLookups = (finish f out st).segLookups ∧
    (finish f out st').bsQueries = (finish f out st).bsQueries ∧
    (finish f out st').memChecks = (finish f out st).memChecks := by
  have h1 : st'.status = st.status :=
    congrArg (a₁ := st'.noLogs) (a₂ := st.noLogs) St.status h
  have h2 : st'.events = st.events :=
    congrArg (a₁ := st'.noLogs) (a₂ := st.noLogs) St.events h
  have h3 : st'.flagLookups = st.flagLookups :=
    congrArg (a₁ := st'.noLogs) (a₂ := st.noLogs) St.flagLookups h
  have h4 : st'.segLookups = st.segLookups :=
    congrArg (a₁ := st'.noLogs) (a₂ := st.noLogs) St.segLookups h
  have h5 : st'.bsQueries = st.bsQueries :=
    congrArg (a₁ := st'.noLogs) (a₂ := st.noLogs) St.bsQueries h
  have h6 : st'.memChecks = st.memChecks :=
    congrArg (a₁ := st'.noLogs) (a₂ := st.noLogs) St.memChecks h
  unfold finish
  simp only [h1, h2, h3, h4, h5, h6, and_self]

end LD

#print axioms LD.evalFlag_freach
#print axioms LD.evaluate_reach0
#print axioms LD.star_status_seen
#print axioms LD.reach_status_ge_queried
#print axioms LD.star_status_fold
#print axioms LD.reach_status_none_queries
#print axioms LD.evalFlag_diag
#print axioms LD.evalBody_silent
#print axioms LD.finish_congr

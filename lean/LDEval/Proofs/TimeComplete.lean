/-
  LDEval.Proofs.TimeComplete — the COMPLETENESS direction of the RFC 3339 parser model: whatever
  `parseBytes` accepts is the rendering of a valid `Stamp` followed by bytes the parser never looks
  at, and the result is the instant that stamp denotes.  With soundness (`parse_render`, here
  extended to trailing bytes) this characterises the accepted language exactly.
-/
import LDEval.Proofs.Time

namespace LD.Time
open LD.Scan

/-- Trailing bytes the parser never looks at: anything after `Z`/`z`; after a `±hh:mm` offset only
bytes starting with a NUL or non-ASCII byte (the minutes field is read up to end of input or the
first such byte). -/
def Ignorable (z : Zone) (junk : List UInt8) : Prop :=
  match z with
  | .utc _ => True
  | .offset _ _ _ => junk = [] ∨ ∃ b rest, junk = b :: rest ∧ (b = 0 ∨ b > 127)

/-! ### inversion of `readUntil` -/

/-- What the stop of `readUntil` says about the input. -/
def StopShape (isTerm : UInt8 → Bool) (inp s : List UInt8) (t : Term) (rest : List UInt8) : Prop :=
  match t with
  | .ch c => inp = s ++ c :: rest ∧ isTerm c = true ∧ AsciiNZ c
  | .eof => inp = s ∧ rest = []
  | .nonAscii => inp = s ++ rest ∧ ∃ b r, rest = b :: r ∧ (b == 0 || b > 127) = true

theorem readUntil_inv (isTerm : UInt8 → Bool) (inp s : List UInt8) (t : Term) (rest : List UInt8)
    (h : readUntil isTerm inp = (s, t, rest)) :
    (∀ b ∈ s, AsciiNZ b ∧ isTerm b = false) ∧ StopShape isTerm inp s t rest := by
  induction inp generalizing s t rest with
  | nil =>
    simp only [readUntil, Prod.mk.injEq] at h
    obtain ⟨rfl, rfl, rfl⟩ := h
    exact ⟨by simp, rfl, rfl⟩
  | cons b inp ih =>
    simp only [readUntil] at h
    by_cases hb : (b == 0 || b > 127) = true
    · rw [if_pos hb] at h
      simp only [Prod.mk.injEq] at h
      obtain ⟨rfl, rfl, rfl⟩ := h
      exact ⟨by simp, by simp, b, inp, rfl, hb⟩
    · rw [if_neg hb] at h
      have hb' : AsciiNZ b := by simpa using hb
      by_cases ht : isTerm b = true
      · rw [if_pos ht] at h
        simp only [Prod.mk.injEq] at h
        obtain ⟨rfl, rfl, rfl⟩ := h
        exact ⟨by simp, by simp, ht, hb'⟩
      · rw [if_neg ht] at h
        simp only [Prod.mk.injEq] at h
        obtain ⟨rfl, rfl, rfl⟩ := h
        have ht' : isTerm b = false := by simpa using ht
        obtain ⟨hall, hshape⟩ := ih _ _ _ rfl
        refine ⟨?_, ?_⟩
        · intro x hx
          rcases List.mem_cons.mp hx with rfl | hx
          · exact ⟨hb', ht'⟩
          · exact hall x hx
        · revert hshape
          generalize (readUntil isTerm inp).2.1 = t'
          cases t' with
          | eof => rintro ⟨h1, h2⟩; exact ⟨by rw [← h1], h2⟩
          | nonAscii => rintro ⟨h1, h2⟩; exact ⟨by rw [List.cons_append, ← h1], h2⟩
          | ch c => rintro ⟨h1, h2⟩; exact ⟨by rw [List.cons_append, ← h1], h2⟩

/-! ### inversion of `parsePositive`: fixed-width decimal representations are unique -/

theorem parsePositive_inv (s : List UInt8) (n : Nat) (h : parsePositive s = some n) :
    s ≠ [] ∧ s.all isDigit = true ∧ n = digitsVal s 0 := by
  unfold parsePositive at h
  split at h
  · cases h
  · rename_i hc
    simp only [Bool.or_eq_true, Bool.not_eq_true', not_or, Bool.not_eq_false,
      List.isEmpty_iff] at hc
    simp only [Option.some.injEq] at h
    exact ⟨hc.1, hc.2, h.symm⟩

theorem digit_ofNat_toNat (b : UInt8) (hb : isDigit b = true) :
    UInt8.ofNat (48 + (b.toNat - 48)) = b := by
  rw [isDigit_iff] at hb
  apply UInt8.toNat_inj.mp
  simp only [UInt8.toNat_ofNat']
  omega

/-- A list of `k` digit bytes is the `k`-digit rendering of its value. -/
theorem digits_repr (k : Nat) (s : List UInt8) (hlen : s.length = k) (hd : s.all isDigit = true) :
    digitsVal s 0 < 10 ^ k ∧ digitsN k (digitsVal s 0) = s := by
  induction k generalizing s with
  | zero =>
    have : s = [] := List.eq_nil_of_length_eq_zero hlen
    subst this; exact ⟨by simp [digitsVal], rfl⟩
  | succ k ih =>
    have hne : s ≠ [] := by intro e; rw [e] at hlen; simp at hlen
    have hs : s.dropLast ++ [s.getLast hne] = s := List.dropLast_concat_getLast hne
    have hl : s.dropLast.length = k := by rw [List.length_dropLast, hlen]; rfl
    rw [← hs] at hd
    simp only [List.all_append, List.all_cons, List.all_nil, Bool.and_true, Bool.and_eq_true] at hd
    obtain ⟨hv, hr⟩ := ih s.dropLast hl hd.1
    have hlast := hd.2
    have hlast' := (isDigit_iff _).mp hlast
    have hval : digitsVal s 0 = digitsVal s.dropLast 0 * 10 + ((s.getLast hne).toNat - 48) := by
      conv => lhs; rw [← hs]
      rw [digitsVal_append]; rfl
    refine ⟨?_, ?_⟩
    · rw [hval, Nat.pow_succ]; omega
    · rw [hval]
      simp only [digitsN]
      have e1 : (digitsVal s.dropLast 0 * 10 + ((s.getLast hne).toNat - 48)) / 10
          = digitsVal s.dropLast 0 := by omega
      have e2 : (digitsVal s.dropLast 0 * 10 + ((s.getLast hne).toNat - 48)) % 10
          = (s.getLast hne).toNat - 48 := by omega
      rw [e1, e2, hr, digit_ofNat_toNat _ hlast, hs]

/-- Inverse of `digitsVal_digitsN`. -/
theorem digits_eq_digitsN (s : List UInt8) (w n : Nat) (hlen : s.length = w)
    (hd : s.all isDigit = true) (hn : digitsVal s 0 = n) : s = digitsN w n := by
  subst hn; exact (digits_repr w s hlen hd).2.symm

/-! ### inversion of `numField` -/

/-- An accepted numeric field is `digitsN w n` for a width and a value within the bounds, followed
by the stop. -/
theorem numField_inv {isTerm : UInt8 → Bool} {eofOK : Bool} {minLen maxLen minV maxV : Nat}
    {inp : List UInt8} {n : Nat} {t : Term} {rest : List UInt8}
    (h : numField isTerm eofOK minLen maxLen minV maxV inp = some (n, t, rest)) :
    ∃ w, 0 < w ∧ minLen ≤ w ∧ w ≤ maxLen ∧ minV ≤ n ∧ n ≤ maxV ∧ n < 10 ^ w ∧
      (eofOK = false → t.isNeg = false) ∧ StopShape isTerm inp (digitsN w n) t rest := by
  unfold numField at h
  simp only [] at h
  split at h
  · cases h
  rename_i h1
  split at h
  · cases h
  rename_i h2
  split at h
  · cases h
  rename_i m hm
  split at h
  · cases h
  rename_i h3
  simp only [Option.some.injEq, Prod.mk.injEq] at h
  obtain ⟨rfl, rfl, rfl⟩ := h
  obtain ⟨hne, hdig, rfl⟩ := parsePositive_inv _ _ hm
  obtain ⟨_, hshape⟩ := readUntil_inv isTerm inp _ _ _ rfl
  obtain ⟨hlt, hrepr⟩ := digits_repr _ _ rfl hdig
  simp only [Bool.or_eq_true, Bool.and_eq_true, Bool.not_eq_true', not_or, not_and,
    decide_eq_true_eq, Nat.not_lt, Bool.not_eq_true] at h1 h2 h3
  refine ⟨(readUntil isTerm inp).1.length, ?_, h2.1, ?_, h3.1, ?_, hlt, ?_, ?_⟩
  · exact List.length_pos_iff.mpr hne
  · omega
  · omega
  · intro e; cases hh : (readUntil isTerm inp).2.1.isNeg
    · rfl
    · exact absurd (h1.2 e) (by simp [hh])
  · rw [hrepr]; exact hshape

/-- With `eofOK = false` the field ends at a terminator byte. -/
theorem numField_inv_ch {isTerm : UInt8 → Bool} {minLen maxLen minV maxV : Nat}
    {inp : List UInt8} {n : Nat} {t : Term} {rest : List UInt8}
    (h : numField isTerm false minLen maxLen minV maxV inp = some (n, t, rest)) :
    ∃ w b, t = .ch b ∧ isTerm b = true ∧ AsciiNZ b ∧ 0 < w ∧ minLen ≤ w ∧ w ≤ maxLen ∧
      minV ≤ n ∧ n ≤ maxV ∧ n < 10 ^ w ∧ inp = digitsN w n ++ b :: rest := by
  obtain ⟨w, h0, h1, h2, h3, h4, h5, hneg, hshape⟩ := numField_inv h
  have hneg := hneg rfl
  cases t with
  | eof => simp [Term.isNeg] at hneg
  | nonAscii => simp [Term.isNeg] at hneg
  | ch b =>
    obtain ⟨e, hb, ha⟩ := hshape
    exact ⟨w, b, rfl, hb, ha, h0, h1, h2, h3, h4, h5, e⟩

/-- An accepted fraction is 1–9 digits followed by a zone-designator byte. -/
theorem fraction_inv {inp : List UInt8} {n : Nat} {t : Term} {rest : List UInt8}
    (h : fraction inp = some (n, t, rest)) :
    ∃ ds z, ds ≠ [] ∧ ds.all isDigit = true ∧ ds.length ≤ 9 ∧ t = .ch z ∧
      isEndOfFraction z = true ∧ AsciiNZ z ∧ inp = ds ++ z :: rest ∧
      n = digitsVal ds 0 * 10 ^ (9 - ds.length) := by
  unfold fraction at h
  simp only [] at h
  split at h
  · cases h
  rename_i h1
  split at h
  · cases h
  rename_i m hm
  simp only [Option.some.injEq, Prod.mk.injEq] at h
  obtain ⟨rfl, rfl, rfl⟩ := h
  obtain ⟨hne, hdig, rfl⟩ := parsePositive_inv _ _ hm
  obtain ⟨_, hshape⟩ := readUntil_inv isEndOfFraction inp _ _ _ rfl
  simp only [Bool.or_eq_true, not_or, decide_eq_true_eq, Nat.not_lt, Bool.not_eq_true] at h1
  revert hshape h1
  generalize (readUntil isEndOfFraction inp).2.1 = t
  cases t with
  | eof => intro _ h1; simp [Term.isNeg] at h1
  | nonAscii => intro _ h1; simp [Term.isNeg] at h1
  | ch z =>
    rintro ⟨e, hz, ha⟩ h1
    exact ⟨_, z, hne, hdig, h1.2, rfl, hz, ha, e, rfl⟩

/-! ### terminator bytes -/

theorem isHyphen_inv {b : UInt8} (h : isHyphen b = true) : b = c '-' := by
  simpa [isHyphen] using h

theorem isColon_inv {b : UInt8} (h : isColon b = true) : b = c ':' := by
  simpa [isColon] using h

theorem isT_inv {b : UInt8} (h : isT b = true) : ∃ l : Bool, b = if l then c 't' else c 'T' := by
  simp only [isT, Bool.or_eq_true, beq_iff_eq] at h
  rcases h with h | h
  · exact ⟨true, by simp [h]⟩
  · exact ⟨false, by simp [h]⟩

theorem isEndOfFraction_inv {b : UInt8} (h : isEndOfFraction b = true) :
    b = c 'Z' ∨ b = c 'z' ∨ b = c '+' ∨ b = c '-' := by
  simp only [isEndOfFraction, Bool.or_eq_true, beq_iff_eq] at h
  rcases h with ((h | h) | h) | h <;> simp [h]

theorem isEndOfSeconds_inv {b : UInt8} (h : isEndOfSeconds b = true) :
    b = c '.' ∨ isEndOfFraction b = true := by
  simp only [isEndOfSeconds, Bool.or_eq_true, beq_iff_eq] at h
  simp only [isEndOfFraction, Bool.or_eq_true, beq_iff_eq]
  rcases h with (((h | h) | h) | h) | h <;> simp [h]

/-! ### inversion of `tzOffset` -/

theorem tzOffset_inv (z : UInt8) (hz : isEndOfFraction z = true) (r : List UInt8) (off : Int)
    (h : tzOffset (.ch z) r = some off) :
    ∃ (zone : Zone) (junk : List UInt8), zone.Valid ∧ zone.head = z ∧ r = zone.rest ++ junk ∧
      Ignorable zone junk ∧ off = - zone.offsetSeconds := by
  have hcases : (∃ l : Bool, z = (Zone.utc l).head) ∨ (∃ p : Bool, z = if p then c '+' else c '-') := by
    rcases isEndOfFraction_inv hz with rfl | rfl | rfl | rfl
    · exact Or.inl ⟨false, rfl⟩
    · exact Or.inl ⟨true, rfl⟩
    · exact Or.inr ⟨true, rfl⟩
    · exact Or.inr ⟨false, rfl⟩
  rcases hcases with ⟨l, rfl⟩ | ⟨p, rfl⟩
  · have hh : (Term.is (.ch (Zone.utc l).head) '+' || Term.is (.ch (Zone.utc l).head) '-')
        = false := by
      rw [Term.is_ch, Term.is_ch]
      cases l <;> simp only [Zone.head, ↓reduceIte, Bool.false_eq_true] <;> decide
    unfold tzOffset at h
    rw [hh] at h
    simp only [Bool.false_eq_true, if_false, Option.some.injEq] at h
    subst h
    exact ⟨.utc l, r, trivial, rfl, rfl, trivial, by simp [Zone.offsetSeconds]⟩
  · have hh : (Term.is (.ch (if p = true then c '+' else c '-')) '+'
        || Term.is (.ch (if p = true then c '+' else c '-')) '-') = true := by
      rw [Term.is_ch, Term.is_ch]; cases p <;> decide
    have hp : Term.is (.ch (if p = true then c '+' else c '-')) '+' = p := by
      rw [Term.is_ch]; cases p <;> decide
    unfold tzOffset at h
    rw [hh, hp] at h
    simp only [if_true] at h
    split at h
    · cases h
    rename_i oh t1 rest hoh
    split at h
    · cases h
    rename_i om t2 rest2 hom
    simp only [Option.some.injEq] at h
    obtain ⟨w1, b1, rfl, hb1, -, -, hw1a, hw1b, -, hoh99, -, rfl⟩ := numField_inv_ch hoh
    obtain rfl : w1 = 2 := by omega
    obtain rfl := isColon_inv hb1
    obtain ⟨w2, -, hw2a, hw2b, -, hom59, -, -, hshape⟩ := numField_inv hom
    obtain rfl : w2 = 2 := by omega
    have hoff : off = - (Zone.offset p oh om).offsetSeconds := by
      subst h; simp only [Zone.offsetSeconds]; cases p <;> simp <;> omega
    cases t2 with
    | ch b => exact absurd hshape.2.1 (by simp [noTerm])
    | eof =>
      obtain ⟨rfl, rfl⟩ := hshape
      exact ⟨.offset p oh om, [], ⟨hoh99, hom59⟩, rfl, by simp [Zone.rest], Or.inl rfl, hoff⟩
    | nonAscii =>
      obtain ⟨rfl, b, r', rfl, hb⟩ := hshape
      refine ⟨.offset p oh om, b :: r', ⟨hoh99, hom59⟩, rfl, by simp [Zone.rest],
        Or.inr ⟨b, r', rfl, ?_⟩, hoff⟩
      simpa using hb

/-! ### completeness -/

/-- **Completeness.** Whatever the parser accepts is the rendering of a valid stamp followed by
bytes it never looks at, and the result is the instant that stamp denotes. -/
theorem parse_complete (inp : List UInt8) (t : Int) (h : parseBytes inp = some t) :
    ∃ (s : Stamp) (junk : List UInt8),
      s.Valid ∧ inp = s.render ++ junk ∧ Ignorable s.zone junk ∧ t = s.denotes := by
  unfold parseBytes at h
  split at h
  · cases h
  rename_i year t1 r1 hy
  split at h
  · cases h
  rename_i month t2 r2 hmo
  split at h
  · cases h
  rename_i day t3 r3 hd
  split at h
  · cases h
  rename_i hour t4 r4 hh
  split at h
  · cases h
  rename_i minute t5 r5 hmi
  split at h
  · cases h
  rename_i second term r6 hs
  simp only [] at h
  split at h
  · cases h
  rename_i nanos term2 r7 hfr
  split at h
  · cases h
  rename_i off hoff
  simp only [Option.some.injEq] at h
  -- the six numeric fields
  obtain ⟨w1, b1, rfl, hb1, -, -, hw1a, hw1b, -, hy99, -, rfl⟩ := numField_inv_ch hy
  obtain rfl : w1 = 4 := by omega
  obtain rfl := isHyphen_inv hb1
  obtain ⟨w2, b2, rfl, hb2, -, -, hw2a, hw2b, hmo1, hmo12, -, rfl⟩ := numField_inv_ch hmo
  obtain rfl : w2 = 2 := by omega
  obtain rfl := isHyphen_inv hb2
  obtain ⟨w3, b3, rfl, hb3, -, -, hw3a, hw3b, hd1, hd31, -, rfl⟩ := numField_inv_ch hd
  obtain rfl : w3 = 2 := by omega
  obtain ⟨tl, rfl⟩ := isT_inv hb3
  obtain ⟨w4, b4, rfl, hb4, -, -, hw4a, hw4b, -, hh23, hhlt, rfl⟩ := numField_inv_ch hh
  obtain ⟨h1, rfl⟩ : ∃ h1 : Bool, w4 = if h1 then 1 else 2 := by
    rcases (by omega : w4 = 1 ∨ w4 = 2) with rfl | rfl
    · exact ⟨true, rfl⟩
    · exact ⟨false, rfl⟩
  obtain rfl := isColon_inv hb4
  obtain ⟨w5, b5, rfl, hb5, -, -, hw5a, hw5b, -, hmi59, -, rfl⟩ := numField_inv_ch hmi
  obtain rfl : w5 = 2 := by omega
  obtain rfl := isColon_inv hb5
  obtain ⟨w6, b6, rfl, hb6, hb6a, -, hw6a, hw6b, -, hs60, -, rfl⟩ := numField_inv_ch hs
  obtain rfl : w6 = 2 := by omega
  -- the optional fraction, and the first byte of the zone designator
  have hfrac : ∃ (frac : List UInt8) (z : UInt8), frac.length ≤ 9 ∧ frac.all isDigit = true ∧
      term2 = .ch z ∧ isEndOfFraction z = true ∧
      b6 :: r6 = (if frac = [] then [] else c '.' :: frac) ++ z :: r7 ∧
      nanos = digitsVal frac 0 * 10 ^ (9 - frac.length) := by
    rw [Term.is_ch] at hfr
    rcases isEndOfSeconds_inv hb6 with rfl | hz
    · rw [if_pos (by decide)] at hfr
      obtain ⟨ds, z, hne, hdig, hlen, rfl, hz, -, rfl, rfl⟩ := fraction_inv hfr
      exact ⟨ds, z, hlen, hdig, rfl, hz, by simp [hne], rfl⟩
    · have hnd : (b6 == c '.') = false := by
        rcases isEndOfFraction_inv hz with rfl | rfl | rfl | rfl <;> decide
      rw [hnd] at hfr
      simp only [Bool.false_eq_true, if_false, Option.some.injEq, Prod.mk.injEq] at hfr
      obtain ⟨rfl, rfl, rfl⟩ := hfr
      exact ⟨[], b6, by simp, rfl, rfl, hz, by simp, by simp [digitsVal]⟩
  obtain ⟨frac, z, hfl, hfd, rfl, hz, he, rfl⟩ := hfrac
  obtain ⟨zone, junk, hzv, rfl, rfl, hign, rfl⟩ := tzOffset_inv z hz r7 off hoff
  refine ⟨{ year := year, month := month, day := day, hour := hour, minute := minute,
            second := second, frac := frac, zone := zone, tLower := tl, hour1 := h1 },
          junk, ?_, ?_, hign, ?_⟩
  · refine ⟨hy99, ⟨hmo1, hmo12⟩, ⟨hd1, hd31⟩, hh23, hmi59, hs60, hfl, hfd, hzv, ?_⟩
    intro e; simp only at e; subst e; simpa using hhlt
  · simp only [Stamp.render, Stamp.tSep, Stamp.renderTail, Zone.render, he, List.append_assoc,
      List.cons_append]
  · subst h
    simp only [Stamp.denotes, Stamp.nanos, Int.neg_mul, Int.sub_eq_add_neg]

/-! ### soundness with trailing bytes -/

theorem readUntil_digits_nonAscii {isTerm : UInt8 → Bool} (hnd : NoDigit isTerm)
    (ds : List UInt8) (hds : ds.all isDigit = true) (b : UInt8) (rest : List UInt8)
    (hb : (b == 0 || b > 127) = true) :
    readUntil isTerm (ds ++ b :: rest) = (ds, .nonAscii, b :: rest) := by
  induction ds with
  | nil => simp only [List.nil_append, readUntil]; rw [hb]; simp
  | cons d ds ih =>
    simp only [List.all_cons, Bool.and_eq_true] at hds
    simp only [List.cons_append, readUntil]
    rw [digit_ascii hds.1, hnd d hds.1, ih hds.2]; simp

theorem numField_digitsN_nonAscii {isTerm : UInt8 → Bool} (hnd : NoDigit isTerm)
    (minLen maxLen minV maxV w n : Nat) (b : UInt8) (rest : List UInt8)
    (hw : 0 < w) (hn : n < 10 ^ w) (hmin : minLen ≤ w) (hmax : w ≤ maxLen)
    (hv : minV ≤ n) (hV : n ≤ maxV) (hb : (b == 0 || b > 127) = true) :
    numField isTerm true minLen maxLen minV maxV (digitsN w n ++ b :: rest)
      = some (n, .nonAscii, b :: rest) := by
  have hne : (digitsN w n).isEmpty = false := by
    rw [List.isEmpty_eq_false_iff]
    intro e; have := digitsN_length w n; rw [e] at this; simp at this; omega
  unfold numField
  simp only [readUntil_digits_nonAscii hnd _ (digitsN_all_digit w n) b rest hb, hne,
    digitsN_length, parsePositive_digitsN w n hw hn]
  have h1 : ¬ (w < minLen) := by omega
  have h2 : ¬ (w > maxLen) := by omega
  have h3 : ¬ (n < minV) := by omega
  have h4 : ¬ (n > maxV) := by omega
  simp [h1, h2, h3, h4]

/-- `tzOffset_zone` with ignorable trailing bytes. -/
theorem tzOffset_zone_trailing (z : Zone) (hz : z.Valid) (junk : List UInt8)
    (hj : Ignorable z junk) : tzOffset (.ch z.head) (z.rest ++ junk) = some (- z.offsetSeconds) := by
  cases z with
  | utc l =>
    have h : (Term.is (.ch (Zone.utc l).head) '+' || Term.is (.ch (Zone.utc l).head) '-')
        = false := by
      rw [Term.is_ch, Term.is_ch]
      cases l <;> simp only [Zone.head, ↓reduceIte, Bool.false_eq_true] <;> decide
    unfold tzOffset; rw [h]; simp [Zone.offsetSeconds]
  | offset p hh mm =>
    rcases hj with rfl | ⟨b, rest, rfl, hb⟩
    · rw [List.append_nil]; exact tzOffset_zone _ hz
    obtain ⟨hh99, mm59⟩ := hz
    have hb' : (b == 0 || b > 127) = true := by
      rcases hb with rfl | hb
      · simp
      · simp [hb]
    have h : (Term.is (.ch (Zone.offset p hh mm).head) '+'
        || Term.is (.ch (Zone.offset p hh mm).head) '-') = true := by
      rw [Term.is_ch, Term.is_ch]
      cases p <;> simp only [Zone.head, ↓reduceIte, Bool.false_eq_true] <;> decide
    have hp : Term.is (.ch (Zone.offset p hh mm).head) '+' = p := by
      rw [Term.is_ch]; cases p <;> simp only [Zone.head, ↓reduceIte, Bool.false_eq_true] <;> decide
    unfold tzOffset; rw [h, hp]
    simp only [Zone.rest, if_true, List.append_assoc, List.cons_append]
    rw [numField_digitsN noDigit_isColon false 2 2 0 99 2 hh (c ':') _ (by omega) (by omega)
      (by omega) (by omega) (by omega) hh99 isColon_colon asciiNZ_colon]
    simp only []
    rw [numField_digitsN_nonAscii noDigit_noTerm 2 2 0 59 2 mm b rest (by omega) (by omega)
      (by omega) (by omega) (by omega) mm59 hb']
    simp only [Zone.offsetSeconds]
    cases p <;> simp <;> omega

/-- **Soundness with trailing bytes**: a valid rendering followed by ignorable bytes parses to the
instant denoted (generalises `parse_render` and `parse_render_utc_trailing`). -/
theorem parse_render_trailing (s : Stamp) (h : s.Valid) (junk : List UInt8)
    (hj : Ignorable s.zone junk) : parseBytes (s.render ++ junk) = some s.denotes := by
  have e : s.render ++ junk = s.renderWith (s.zone.rest ++ junk) := by
    simp only [Stamp.render, Stamp.renderWith, Stamp.renderTail, Zone.render,
      List.append_assoc, List.cons_append]
  rw [e, parse_renderWith s h _ _ (tzOffset_zone_trailing _ h.2.2.2.2.2.2.2.2.1 junk hj)]
  simp only [Stamp.denotes, Int.neg_mul, Int.sub_eq_add_neg]

/-! ### the accepted language -/

/-- **Characterisation of the accepted language.** -/
theorem accepted_iff (inp : List UInt8) :
    (parseBytes inp).isSome ↔
      ∃ (s : Stamp) (junk : List UInt8), s.Valid ∧ inp = s.render ++ junk ∧ Ignorable s.zone junk := by
  constructor
  · intro h
    obtain ⟨t, ht⟩ := Option.isSome_iff_exists.mp h
    obtain ⟨s, junk, hv, e, hj, -⟩ := parse_complete inp t ht
    exact ⟨s, junk, hv, e, hj⟩
  · rintro ⟨s, junk, hv, rfl, hj⟩
    rw [parse_render_trailing s hv junk hj]; rfl

/-- The parser as a partial function, exactly: `parseBytes inp = some t` iff `inp` is a valid
rendering plus ignorable bytes and `t` the instant denoted. -/
theorem parse_eq_some_iff (inp : List UInt8) (t : Int) :
    parseBytes inp = some t ↔
      ∃ (s : Stamp) (junk : List UInt8),
        s.Valid ∧ inp = s.render ++ junk ∧ Ignorable s.zone junk ∧ t = s.denotes := by
  constructor
  · exact parse_complete inp t
  · rintro ⟨s, junk, hv, rfl, hj, rfl⟩
    exact parse_render_trailing s hv junk hj

/-- **C18 for all strings.** An input that is not a valid rendering followed by ignorable bytes —
any string missing or garbling a mandatory field — is rejected. -/
theorem garbled_never_parses (inp : List UInt8)
    (h : ¬ ∃ (s : Stamp) (junk : List UInt8),
      s.Valid ∧ inp = s.render ++ junk ∧ Ignorable s.zone junk) :
    parseBytes inp = none := by
  cases hp : parseBytes inp with
  | none => rfl
  | some t =>
    exact absurd ((accepted_iff inp).mp (by rw [hp]; rfl)) h

/-- No input shorter than 19 bytes (`YYYY-MM-DDTH:MM:SSZ`) is accepted. -/
theorem too_short (inp : List UInt8) (h : inp.length < 19) : parseBytes inp = none := by
  apply garbled_never_parses
  rintro ⟨s, junk, -, rfl, -⟩
  have h1 := minimalLength_le s
  have h2 : 19 ≤ minimalLength s := by unfold minimalLength; split <;> omega
  rw [List.length_append] at h
  omega

/-- The bound 19 is tight. -/
theorem too_short_tight : ∃ inp : List UInt8, inp.length = 19 ∧ (parseBytes inp).isSome := by
  let s : Stamp :=
    { year := 2020, month := 1, day := 2, hour := 3, minute := 4, second := 5, frac := [],
      zone := .utc false, tLower := false, hour1 := true }
  have hv : s.Valid := by decide
  refine ⟨s.render, ?_, ?_⟩
  · rw [Stamp.render_length]; rfl
  · rw [parse_render s hv]; rfl

/-- Every accepted input carries a zone designator: an input without `Z`, `z`, `+` and with at most
the two `-` of the date part is rejected, whatever else it contains. -/
theorem needs_zone (inp : List UInt8)
    (hno : ∀ b ∈ inp, b ≠ c 'Z' ∧ b ≠ c 'z' ∧ b ≠ c '+')
    (hhy : inp.count (c '-') ≤ 2) : parseBytes inp = none := by
  apply garbled_never_parses
  rintro ⟨s, junk, -, rfl, -⟩
  have hmem : s.zone.head ∈ s.render ++ junk := by
    simp [Stamp.render, Stamp.renderTail, Zone.render]
  obtain ⟨hZ, hz, hplus⟩ := hno _ hmem
  cases hzone : s.zone with
  | utc l =>
    rw [hzone] at hZ hz
    cases l
    · exact hZ rfl
    · exact hz rfl
  | offset p hh mm =>
    rw [hzone] at hplus
    cases p
    · have : 3 ≤ (s.render ++ junk).count (c '-') := by
        simp only [Stamp.render, Stamp.renderTail, Zone.render, hzone, Zone.head,
          List.count_append, List.count_cons, beq_self_eq_true, Bool.false_eq_true, if_false,
          if_true]
        omega
      omega
    · exact hplus rfl

/-- The numeric fields of every accepted input are in range (extracted from `Stamp.Valid`). -/
theorem accepted_fields_in_range (inp : List UInt8) (h : (parseBytes inp).isSome) :
    ∃ (s : Stamp) (junk : List UInt8), inp = s.render ++ junk ∧
      s.year ≤ 9999 ∧ (1 ≤ s.month ∧ s.month ≤ 12) ∧ (1 ≤ s.day ∧ s.day ≤ 31) ∧
      s.hour ≤ 23 ∧ s.minute ≤ 59 ∧ s.second ≤ 60 ∧
      (s.frac.length ≤ 9 ∧ s.frac.all isDigit = true) ∧
      (∀ p hh mm, s.zone = .offset p hh mm → hh ≤ 99 ∧ mm ≤ 59) := by
  obtain ⟨s, junk, hv, e, -⟩ := (accepted_iff inp).mp h
  obtain ⟨hy, hm, hd, hh, hmi, hs, hfl, hfd, hz, -⟩ := hv
  refine ⟨s, junk, e, hy, hm, hd, hh, hmi, hs, ⟨hfl, hfd⟩, ?_⟩
  intro p oh om hzone
  rw [hzone] at hz; exact hz

/-- Concretely, on the input itself: if `y-m-rest` with a 4-byte `y` and a 2-byte `m` is accepted
then `m` is two digits with value in 1..12 (and `y` is four digits). -/
theorem month_field_in_range (y m rest : List UInt8) (hy : y.length = 4) (hm : m.length = 2)
    (h : (parseBytes (y ++ c '-' :: (m ++ c '-' :: rest))).isSome) :
    y.all isDigit = true ∧ m.all isDigit = true ∧ 1 ≤ digitsVal m 0 ∧ digitsVal m 0 ≤ 12 := by
  obtain ⟨s, junk, hv, e, -⟩ := (accepted_iff _).mp h
  obtain ⟨-, ⟨hm1, hm12⟩, -⟩ := hv
  simp only [Stamp.render, List.append_assoc, List.cons_append] at e
  obtain ⟨e1, e2⟩ := List.append_inj e (by rw [hy, digitsN_length])
  simp only [List.cons.injEq, true_and] at e2
  obtain ⟨e3, -⟩ := List.append_inj e2 (by rw [hm, digitsN_length])
  subst e1 e3
  rw [digitsVal_digitsN 2 s.month (by omega)]
  exact ⟨digitsN_all_digit _ _, digitsN_all_digit _ _, hm1, hm12⟩

/-- Month 13 is rejected, whatever the (4-byte) year and whatever follows. -/
theorem month_13_rejected (y rest : List UInt8) (hy : y.length = 4) :
    parseBytes (y ++ c '-' :: c '1' :: c '3' :: c '-' :: rest) = none := by
  cases hp : parseBytes (y ++ c '-' :: c '1' :: c '3' :: c '-' :: rest) with
  | none => rfl
  | some t =>
    have := month_field_in_range y [c '1', c '3'] rest hy rfl (by
      simp only [List.cons_append, List.nil_append]; rw [hp]; rfl)
    have h13 : digitsVal [c '1', c '3'] 0 = 13 := by decide
    omega

/-- Month 00 is rejected likewise. -/
theorem month_00_rejected (y rest : List UInt8) (hy : y.length = 4) :
    parseBytes (y ++ c '-' :: c '0' :: c '0' :: c '-' :: rest) = none := by
  cases hp : parseBytes (y ++ c '-' :: c '0' :: c '0' :: c '-' :: rest) with
  | none => rfl
  | some t =>
    have := month_field_in_range y [c '0', c '0'] rest hy rfl (by
      simp only [List.cons_append, List.nil_append]; rw [hp]; rfl)
    have h0 : digitsVal [c '0', c '0'] 0 = 0 := by decide
    omega

/-! ### the instant is a function of the string -/

/-- Two readings of the same bytes as (valid rendering + ignorable bytes) denote the same instant. -/
theorem denotes_unique (s₁ s₂ : Stamp) (j₁ j₂ : List UInt8) (h₁ : s₁.Valid) (h₂ : s₂.Valid)
    (i₁ : Ignorable s₁.zone j₁) (i₂ : Ignorable s₂.zone j₂)
    (e : s₁.render ++ j₁ = s₂.render ++ j₂) : s₁.denotes = s₂.denotes := by
  have p₁ := parse_render_trailing s₁ h₁ j₁ i₁
  have p₂ := parse_render_trailing s₂ h₂ j₂ i₂
  rw [e, p₂] at p₁
  exact (Option.some.inj p₁).symm

#print axioms readUntil_inv
#print axioms digits_eq_digitsN
#print axioms numField_inv
#print axioms tzOffset_inv
#print axioms parse_complete
#print axioms parse_render_trailing
#print axioms accepted_iff
#print axioms parse_eq_some_iff
#print axioms garbled_never_parses
#print axioms too_short
#print axioms too_short_tight
#print axioms needs_zone
#print axioms accepted_fields_in_range
#print axioms month_field_in_range
#print axioms month_13_rejected
#print axioms month_00_rejected
#print axioms denotes_unique

end LD.Time

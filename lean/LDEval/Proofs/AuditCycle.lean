/-
  LDEval.Proofs.AuditCycle — helper file of the theorem audit for C10 (recursion safety).

  * the prerequisite reference graph and the segment reference graph of a store AS THE EVALUATOR SEES
    THEM: an edge is a listed lookup key together with the item `Store.findFlag` /
    `Store.findSegment` resolves it to; the cycle test of the evaluator compares OWN keys, so a
    "cycle" is a path that comes back to a key it has already passed;
  * inversion lemmas for the error results of the segment layer;
  * the invariant "the chain is a path of the graph from the root" and, from it, the global
    soundness of cycle detection for `evalFlag`.
-/
import LDEval.Proofs.Prereq
import LDEval.Proofs.StatusLog
import Mathlib.Logic.Relation

namespace LD

open Relation

/-! ## 1. The reference graphs -/

/-- `f` lists a prerequisite whose LOOKUP key the store resolves to the flag `g`
(`g`'s own key need not be the lookup key). -/
def PrereqEdge (s : Store) (f g : Flag) : Prop :=
  ∃ p ∈ f.prerequisites, s.findFlag p.key = some g

/-- `g` is `top` or is reached from `top` by following prerequisite references. -/
abbrev PrereqReach (s : Store) (top g : Flag) : Prop := ReflTransGen (PrereqEdge s) top g

/-- A prerequisite cycle through key `k` is reachable from `top`: a flag `g` reachable from `top`
leads, in at least one step, to a flag `h`, and both carry the own key `k` (for a store that files
every flag under its own key and a `top` taken from it, `g = h`: `prereqCycleAt_consistent`). -/
def PrereqCycleAt (s : Store) (top : Flag) (k : String) : Prop :=
  ∃ g h, PrereqReach s top g ∧ TransGen (PrereqEdge s) g h ∧ g.key = k ∧ h.key = k

/-- No prerequisite path from `top` ever comes back to a key it has passed. -/
def PrereqAcyclicFrom (s : Store) (top : Flag) : Prop := ∀ k, ¬ PrereqCycleAt s top k

/-- The exact shape of a detected re-entry: the flag `f` (own key `fk`), which lies on a path from
`top` below (or is) `g`, lists a prerequisite that resolves to `h`, and `h` carries the key `k` of
`g`. -/
def PrereqReentry (s : Store) (top : Flag) (fk k : String) : Prop :=
  ∃ g f h, PrereqReach s top g ∧ ReflTransGen (PrereqEdge s) g f ∧ PrereqEdge s f h ∧
    g.key = k ∧ h.key = k ∧ f.key = fk

theorem PrereqReentry.cycleAt {s : Store} {top : Flag} {fk k : String}
    (h : PrereqReentry s top fk k) : PrereqCycleAt s top k := by
  obtain ⟨g, f, h', hg, hgf, hfh, hk1, hk2, _⟩ := h
  exact ⟨g, h', hg, TransGen.tail' hgf hfh, hk1, hk2⟩

/-- The key graph the audit asked for: `a → b` iff a flag with own key `a` that is reachable from
`top` lists a prerequisite which the store resolves to a flag with own key `b`. -/
def PrereqKeyEdge (s : Store) (top : Flag) (a b : String) : Prop :=
  ∃ f g, PrereqReach s top f ∧ PrereqEdge s f g ∧ f.key = a ∧ g.key = b

theorem keyPath_of_transGen {s : Store} {top g h : Flag} (hg : PrereqReach s top g)
    (hgh : TransGen (PrereqEdge s) g h) : TransGen (PrereqKeyEdge s top) g.key h.key := by
  induction hgh with
  | single hb => exact .single ⟨g, _, hg, hb, rfl, rfl⟩
  | tail hab hbc ih =>
    exact .tail ih ⟨_, _, hg.trans hab.to_reflTransGen, hbc, rfl, rfl⟩

/-- A reachable cycle in the sense above is a cycle of the key graph. -/
theorem PrereqCycleAt.keyCycle {s : Store} {top : Flag} {k : String} (h : PrereqCycleAt s top k) :
    TransGen (PrereqKeyEdge s top) k k := by
  obtain ⟨g, h', hg, hgh, hk1, hk2⟩ := h
  have := keyPath_of_transGen hg hgh
  rwa [hk1, hk2] at this

/-- The same graph without the reachability side condition (edges out of `top` and out of every
stored flag): easier to check, and still an upper bound. -/
def PrereqKeyEdgeAll (s : Store) (top : Flag) (a b : String) : Prop :=
  ∃ f g, (f = top ∨ f ∈ s.flags.map (·.2)) ∧ PrereqEdge s f g ∧ f.key = a ∧ g.key = b

theorem prereqReach_top_or_stored {s : Store} {top g : Flag} (h : PrereqReach s top g) :
    g = top ∨ g ∈ s.flags.map (·.2) := by
  induction h with
  | refl => exact .inl rfl
  | tail _ hbc _ =>
    obtain ⟨p, _, hf⟩ := hbc
    exact .inr (findFlag_key hf).2

theorem PrereqKeyEdge.toAll {s : Store} {top : Flag} {a b : String} (h : PrereqKeyEdge s top a b) :
    PrereqKeyEdgeAll s top a b := by
  obtain ⟨f, g, hf, he, h1, h2⟩ := h
  exact ⟨f, g, prereqReach_top_or_stored hf, he, h1, h2⟩

/-- The clause list `cs` references (by lookup key, in a `segmentMatch` clause) the segment `b`. -/
def ClausesRef (s : Store) (cs : List Clause) (b : Segment) : Prop :=
  ∃ c ∈ cs, c.op = "segmentMatch" ∧ ∃ k, J.str k ∈ c.values ∧ s.findSegment k = some b

/-- A rule of segment `a` references a key that the store resolves to segment `b`. -/
def SegEdge (s : Store) (a b : Segment) : Prop := ∃ r ∈ a.rules, ClausesRef s r.clauses b

/-- A rule of flag `f` references a key that the store resolves to segment `b`. -/
def FlagSegEdge (s : Store) (f : Flag) (b : Segment) : Prop :=
  ∃ r ∈ f.rules, ClausesRef s r.clauses b

/-- From segment `a`, a path of segment references reaches a segment `g` and later a segment `h`
with the same own key `k`. -/
def SegCycleFrom (s : Store) (a : Segment) (k : String) : Prop :=
  ∃ g h, ReflTransGen (SegEdge s) a g ∧ TransGen (SegEdge s) g h ∧ g.key = k ∧ h.key = k

/-- A segment cycle through key `k` is reachable from `top`: some flag `f` reachable from `top`
through prerequisites has a rule that references a segment from which the cycle is reached. -/
def SegCycleAt (s : Store) (top : Flag) (k : String) : Prop :=
  ∃ f a, PrereqReach s top f ∧ FlagSegEdge s f a ∧ SegCycleFrom s a k

def SegAcyclicFrom (s : Store) (top : Flag) : Prop := ∀ k, ¬ SegCycleAt s top k

/-! ## 2. Errors -/

/-- The innermost error of a chain of malformed-segment wrappers. -/
def EvalErr.core : EvalErr → EvalErr
  | .malformedSegment _ e => e.core
  | .badVariation i => .badVariation i
  | .emptyAttr => .emptyAttr
  | .badAttrRef s => .badAttrRef s
  | .emptyRollout => .emptyRollout
  | .circularPrereq k => .circularPrereq k
  | .circularSegment k => .circularSegment k

/-- An error that has nothing to do with cycles. -/
def EvalErr.IsLeaf : EvalErr → Prop
  | .badVariation _ => True
  | .emptyAttr => True
  | .badAttrRef _ => True
  | .emptyRollout => True
  | _ => False

theorem EvalErr.IsLeaf.core_eq {e : EvalErr} (h : e.IsLeaf) : e.core = e := by
  cases e <;> first | rfl | exact h.elim

theorem clauseMatchNoSeg_err_leaf {rx ctx c} {e : EvalErr}
    (h : clauseMatchNoSeg rx ctx c = .error e) : e.IsLeaf := by
  unfold clauseMatchNoSeg at h
  split at h
  · cases h; trivial
  · split at h
    · cases h; trivial
    · split at h
      · cases h
      · split at h
        · cases h
        · split at h
          · cases h
          · cases h
          · split at h <;> cases h

theorem variationOrRollout_err_leaf {env : Env} {vr : VariationOrRollout} {key salt : String}
    {e : EvalErr} (h : variationOrRollout env vr key salt = .error e) : e.IsLeaf := by
  unfold variationOrRollout at h
  split at h
  · simp at h
  · split at h
    · cases h; trivial
    · simp only at h
      split at h
      · rename_i e' he; cases h; rw [computeBucket_err he]; trivial
      · split at h <;> simp at h

/-! ### Inversion of the error results of the segment layer -/

theorem segMatchValues_err_inv {rec : SegRec} {env negate chain} :
    ∀ {vs st e st'}, segMatchValues rec env negate chain vs st = (.err e, st') →
      ∃ k seg stA stB, J.str k ∈ vs ∧ env.store.findSegment k = some seg ∧
        rec seg chain stA = (.err e, stB) := by
  intro vs
  induction vs with
  | nil => intro st e st' h; simp [segMatchValues] at h
  | cons v vs ih =>
    intro st e st' h
    have lift : (∃ k seg stA stB, J.str k ∈ vs ∧ env.store.findSegment k = some seg ∧
        rec seg chain stA = (.err e, stB)) →
        ∃ k seg stA stB, J.str k ∈ v :: vs ∧ env.store.findSegment k = some seg ∧
          rec seg chain stA = (.err e, stB) := by
      rintro ⟨k, seg, stA, stB, hk, hf, hr⟩
      exact ⟨k, seg, stA, stB, List.mem_cons_of_mem _ hk, hf, hr⟩
    cases v with
    | str k =>
      unfold segMatchValues at h
      simp only at h
      split at h
      · exact lift (ih h)
      · rename_i seg hfind
        split at h
        · cases h
        · exact lift (ih h)
        · rename_i e1 st2 heq
          cases h
          exact ⟨k, seg, _, _, List.mem_cons_self, hfind, heq⟩
        · cases h
    | null => unfold segMatchValues at h; exact lift (ih h)
    | bool b => unfold segMatchValues at h; exact lift (ih h)
    | num q => unfold segMatchValues at h; exact lift (ih h)
    | arr xs => unfold segMatchValues at h; exact lift (ih h)
    | obj kvs => unfold segMatchValues at h; exact lift (ih h)
    | raw w => unfold segMatchValues at h; exact lift (ih h)

/-- An error of a clause list is a cycle-free leaf error, or the error some referenced segment
returned at this chain. -/
def ClauseErr (rec : SegRec) (env : Env) (chain : List String) (cs : List Clause) (e : EvalErr) :
    Prop :=
  e.IsLeaf ∨ ∃ seg stA stB, ClausesRef env.store cs seg ∧ rec seg chain stA = (.err e, stB)

theorem clauseMatch_err_inv {rec : SegRec} {env chain c st e st'}
    (h : clauseMatch rec env chain c st = (.err e, st')) : ClauseErr rec env chain [c] e := by
  unfold clauseMatch at h
  split at h
  · rename_i hop
    obtain ⟨k, seg, stA, stB, hk, hf, hr⟩ := segMatchValues_err_inv h
    exact .inr ⟨seg, stA, stB, ⟨c, List.mem_singleton.mpr rfl, eq_of_beq hop, k, hk, hf⟩, hr⟩
  · generalize hx : clauseMatchNoSeg env.rx env.ctx c = x at h
    cases x with
    | ok b => simp [Res.ofExcept] at h
    | error e' =>
      simp [Res.ofExcept] at h
      exact .inl (h.1 ▸ clauseMatchNoSeg_err_leaf hx)

theorem ClauseErr.mono {rec : SegRec} {env chain} {cs cs' : List Clause} {e}
    (hsub : ∀ c ∈ cs, c ∈ cs') (h : ClauseErr rec env chain cs e) : ClauseErr rec env chain cs' e := by
  rcases h with h | ⟨seg, stA, stB, ⟨c, hc, hrest⟩, hr⟩
  · exact .inl h
  · exact .inr ⟨seg, stA, stB, ⟨c, hsub c hc, hrest⟩, hr⟩

theorem clausesMatch_err_inv {rec : SegRec} {env chain} :
    ∀ {cs st e st'}, clausesMatch rec env chain cs st = (.err e, st') →
      ClauseErr rec env chain cs e := by
  intro cs
  induction cs with
  | nil => intro st e st' h; simp [clausesMatch] at h
  | cons c cs ih =>
    intro st e st' h
    unfold clausesMatch at h
    split at h
    · exact (ih h).mono fun x hx => List.mem_cons_of_mem _ hx
    · exact (clauseMatch_err_inv h).mono fun x hx => by
        rw [List.mem_singleton.mp hx]; exact List.mem_cons_self

theorem segRuleMatch_err_inv {rec : SegRec} {env chain key salt r st e st'}
    (h : segRuleMatch rec env chain key salt r st = (.err e, st')) :
    ClauseErr rec env chain r.clauses e := by
  unfold segRuleMatch at h
  split at h
  · split at h
    · cases h
    · split at h
      · rename_i e' he
        cases h
        rw [computeBucket_err he]
        exact .inl trivial
      · split at h <;> cases h
  · cases h
  · exact clausesMatch_err_inv h

theorem segRules_err_inv {rec : SegRec} {env chain s} : ∀ {rules st e st'},
    segRules rec env chain s rules st = (.err e, st') →
    ∃ r ∈ rules, ∃ e1, e = .malformedSegment s.key e1 ∧ ClauseErr rec env chain r.clauses e1 := by
  intro rules
  induction rules with
  | nil => intro st e st' h; simp [segRules] at h
  | cons r rs ih =>
    intro st e st' h
    unfold segRules at h
    split at h
    · cases h
    · obtain ⟨r', hr', rest⟩ := ih h
      exact ⟨r', List.mem_cons_of_mem _ hr', rest⟩
    · rename_i e1 st1 heq
      cases h
      exact ⟨r, List.mem_cons_self, e1, rfl, segRuleMatch_err_inv heq⟩
    · cases h

/-- An error leaves one level of `segmentContainsContext` either as the bare cycle error for the
segment itself, whose key is then on the chain, or — the key not being on the chain — wrapped once,
the wrapped error being a leaf error or the error a REFERENCED segment returned for the extended
chain. -/
theorem segBody_err_inv {rec : SegRec} {env s chain st e st'}
    (h : segBody rec env s chain st = (.err e, st')) :
    (e = .circularSegment s.key ∧ chain.contains s.key = true) ∨
    (chain.contains s.key = false ∧ ∃ e1, e = .malformedSegment s.key e1 ∧
      (e1.IsLeaf ∨ ∃ seg stA stB, SegEdge env.store s seg ∧
        rec seg (chain ++ [s.key]) stA = (.err e1, stB))) := by
  have fin : ∀ {st1 : St}, segRules rec env (chain ++ [s.key]) s s.rules st1 = (.err e, st') →
      ∃ e1, e = .malformedSegment s.key e1 ∧
      (e1.IsLeaf ∨ ∃ seg stA stB, SegEdge env.store s seg ∧
        rec seg (chain ++ [s.key]) stA = (.err e1, stB)) := by
    intro st1 h1
    obtain ⟨r, hr, e1, he, hce⟩ := segRules_err_inv h1
    refine ⟨e1, he, ?_⟩
    rcases hce with hl | ⟨seg, stA, stB, href, hrec⟩
    · exact .inl hl
    · exact .inr ⟨seg, stA, stB, ⟨r, hr, href⟩, hrec⟩
  unfold segBody at h
  split at h
  · rename_i hc
    cases h
    exact .inl ⟨rfl, hc⟩
  · rename_i hc
    right
    refine ⟨by simpa using hc, ?_⟩
    simp only at h
    split at h
    · split at h
      · cases h
      · split at h
        · cases h
        · split at h
          · exact fin h
          · split at h
            · cases h
            · exact fin h
    · split at h
      · cases h
      · exact fin h

/-! ## 3. The segment chain is a path of the segment graph -/

/-- `seg` is reached from `a`, and every key on the chain is the own key of a segment on a path
from `a` that leads on (in at least one step) to `seg`. -/
def SegOnPath (s : Store) (a : Segment) (chain : List String) (seg : Segment) : Prop :=
  ReflTransGen (SegEdge s) a seg ∧
  ∀ k ∈ chain, ∃ g, ReflTransGen (SegEdge s) a g ∧ TransGen (SegEdge s) g seg ∧ g.key = k

theorem SegOnPath.root (s : Store) (a : Segment) : SegOnPath s a [] a :=
  ⟨.refl, fun _ h => by cases h⟩

theorem SegOnPath.step {s : Store} {a seg seg' : Segment} {chain : List String}
    (h : SegOnPath s a chain seg) (he : SegEdge s seg seg') :
    SegOnPath s a (chain ++ [seg.key]) seg' := by
  refine ⟨h.1.tail he, ?_⟩
  intro k hk
  rcases List.mem_append.mp hk with hk | hk
  · obtain ⟨g, h1, h2, h3⟩ := h.2 k hk
    exact ⟨g, h1, h2.tail he, h3⟩
  · rw [List.mem_singleton] at hk
    exact ⟨seg, h.1, .single he, hk.symm⟩

/-- What an error that comes out of the segment layer can be: under its wrappers a leaf error, or
the cycle error for a key `k` through which the segment graph below `a` really has a cycle. -/
def SegErrGood (s : Store) (a : Segment) (e : EvalErr) : Prop :=
  e.core.IsLeaf ∨ ∃ k, e.core = .circularSegment k ∧ SegCycleFrom s a k

/-- Soundness of segment-cycle detection, all levels at once. -/
theorem segContains_err_good (env : Env) (a : Segment) :
    ∀ n seg chain st e st', SegOnPath env.store a chain seg →
      segContains n env seg chain st = (.err e, st') → SegErrGood env.store a e := by
  intro n
  induction n with
  | zero => intro seg chain st e st' _ h; simp [segContains] at h
  | succ n ih =>
    intro seg chain st e st' hp h
    rcases segBody_err_inv (rec := segContains n env) h with ⟨he, hc⟩ | ⟨_, e1, he, hrest⟩
    · subst he
      have hmem : seg.key ∈ chain := by simpa using hc
      obtain ⟨g, h1, h2, h3⟩ := hp.2 _ hmem
      exact .inr ⟨seg.key, rfl, g, seg, h1, h2, h3, rfl⟩
    · subst he
      rcases hrest with hl | ⟨seg', stA, stB, hedge, hrec⟩
      · exact .inl (by show e1.core.IsLeaf; rw [hl.core_eq]; exact hl)
      · exact ih seg' _ stA e1 stB (hp.step hedge) hrec

/-! ## 4. Log lines -/

/-- Every log line of `b` is a log line of `a` or satisfies `P`. -/
def NewLogs (P : LogLine → Prop) (a b : St) : Prop := ∀ l ∈ b.logs, l ∈ a.logs ∨ P l

theorem NewLogs.refl (P : LogLine → Prop) (a : St) : NewLogs P a a := fun _ h => .inl h

theorem NewLogs.of_eq {P : LogLine → Prop} {a b : St} (h : b.logs = a.logs) : NewLogs P a b :=
  fun _ hl => .inl (h ▸ hl)

theorem NewLogs.trans {P : LogLine → Prop} {a b c : St} (h1 : NewLogs P a b) (h2 : NewLogs P b c) :
    NewLogs P a c := by
  intro l hl
  rcases h2 l hl with h | h
  · exact h1 l h
  · exact .inr h

theorem NewLogs.mono {P Q : LogLine → Prop} {a b : St} (hPQ : ∀ l, P l → Q l)
    (h : NewLogs P a b) : NewLogs Q a b :=
  fun l hl => (h l hl).imp id (hPQ l)

theorem NewLogs.logErr {P : LogLine → Prop} (env : Env) {k : String} {e : EvalErr} (st : St)
    (h : P ⟨k, e⟩) : NewLogs P st (logErr env k e st) := by
  unfold LD.logErr
  split
  · intro l hl
    simp only [List.mem_append, List.mem_singleton] at hl
    rcases hl with hl | hl
    · exact .inl hl
    · exact .inr (hl ▸ h)
  · exact .refl _ _

/-- A line written under `f`'s key whose error has nothing to do with cycles. -/
def LeafAt (f : Flag) (l : LogLine) : Prop := l.flagKey = f.key ∧ l.err.core.IsLeaf

/-- A line whose error (under its wrappers) has nothing to do with cycles. -/
def LeafLine (l : LogLine) : Prop := l.err.core.IsLeaf

theorem leafAt_of_leaf (f : Flag) {e : EvalErr} (h : e.IsLeaf) : LeafAt f ⟨f.key, e⟩ :=
  ⟨rfl, by show e.core.IsLeaf; rw [h.core_eq]; exact h⟩

theorem getVariation_newLogs (env : Env) (f : Flag) (i : Int) (r : Reason) (st : St) :
    NewLogs (LeafAt f) st (getVariation env f i r st).2 := by
  unfold getVariation
  split
  · exact NewLogs.logErr env st (leafAt_of_leaf f trivial)
  · exact .refl _ _

theorem getOffValue_newLogs (env : Env) (f : Flag) (r : Reason) (st : St) :
    NewLogs (LeafAt f) st (getOffValue env f r st).2 := by
  unfold getOffValue
  split
  · exact .refl _ _
  · exact getVariation_newLogs env f _ _ st

theorem getValueForVR_newLogs (env : Env) (f : Flag) (vr : VariationOrRollout) (r : Reason)
    (st : St) : NewLogs (LeafAt f) st (getValueForVR env f vr r st).2 := by
  unfold getValueForVR
  split
  · rename_i e he
    exact NewLogs.logErr env st (leafAt_of_leaf f (variationOrRollout_err_leaf he))
  · exact getVariation_newLogs env f _ _ st

/-- What a log line of an evaluation started at `top` can be.  It is written under the own key of a
flag `f` reachable from `top`, and its error is, under the malformed-segment wrappers,
* a leaf error, or
* (unwrapped) the prerequisite-cycle error for a key `k`, and then `f` lists a prerequisite that the
  store resolves to a flag `h` with own key `k`, while `f` itself is, or lies below, a flag `g`
  reachable from `top` with the same own key `k`; or
* the segment-cycle error for a key `k`, and then a rule of `f` references a segment `a` below
  which the segment graph has a cycle through `k`. -/
def LogOK (s : Store) (top : Flag) (l : LogLine) : Prop :=
  ∃ f, PrereqReach s top f ∧ l.flagKey = f.key ∧
    (l.err.core.IsLeaf ∨
     (∃ k, l.err = .circularPrereq k ∧ ∃ g h, PrereqReach s top g ∧
        ReflTransGen (PrereqEdge s) g f ∧ PrereqEdge s f h ∧ g.key = k ∧ h.key = k) ∨
     (∃ k a, l.err.core = .circularSegment k ∧ FlagSegEdge s f a ∧ SegCycleFrom s a k))

theorem LeafAt.logOK {s : Store} {top f : Flag} (hf : PrereqReach s top f) {l : LogLine}
    (h : LeafAt f l) : LogOK s top l := ⟨f, hf, h.1, .inl h.2⟩

theorem LeafAt.leafLine {f : Flag} {l : LogLine} (h : LeafAt f l) : LeafLine l := h.2

/-- The log lines a (partial) evaluation added are all `LogOK`, and if it completed (`ok = true`)
they are all leaf lines: a cycle line is only ever written by an evaluation that aborts. -/
def LogsPost (s : Store) (top : Flag) (st : St) (out : FlagOut) (st' : St) : Prop :=
  NewLogs (LogOK s top) st st' ∧ (∀ d, out = .done d true → NewLogs LeafLine st st')

theorem LogsPost.of_leafAt {s : Store} {top f : Flag} (hf : PrereqReach s top f) {a b c : St}
    {out : FlagOut} (h1 : NewLogs (LogOK s top) a b) (h1' : NewLogs LeafLine a b)
    (h2 : NewLogs (LeafAt f) b c) : LogsPost s top a out c :=
  ⟨h1.trans (h2.mono fun _ h => h.logOK hf), fun _ _ => h1'.trans (h2.mono fun _ h => h.leafLine)⟩

/-- A clause error at flag level (empty segment chain) under a rule of the reachable flag `f`. -/
theorem logOK_of_clauseErr {env : Env} {top f : Flag} {sf : Nat} {r : FlagRule} {e : EvalErr}
    (hf : PrereqReach env.store top f) (hr : r ∈ f.rules)
    (h : ClauseErr (segContains sf env) env [] r.clauses e) : LogOK env.store top ⟨f.key, e⟩ := by
  refine ⟨f, hf, rfl, ?_⟩
  rcases h with hl | ⟨seg, stA, stB, href, hrec⟩
  · exact .inl (by show e.core.IsLeaf; rw [hl.core_eq]; exact hl)
  · rcases segContains_err_good env seg sf seg [] stA e stB (SegOnPath.root _ _) hrec with h1 | h1
    · exact .inl h1
    · obtain ⟨k, hk, hcyc⟩ := h1
      exact .inr (.inr ⟨k, seg, hk, ⟨r, hr, href⟩, hcyc⟩)

theorem clausesMatch_flag_logs (sf : Nat) (env : Env) (cs : List Clause) (st : St) :
    (clausesMatch (segContains sf env) env [] cs st).2.logs = st.logs :=
  (star_sprim_frame (clausesMatch_sreach (segContains_sreach sf env) [] cs st)).1

theorem rulesLoop_logsPost {sf : Nat} {env : Env} {top f : Flag}
    (hf : PrereqReach env.store top f) :
    ∀ {rules i st out st'}, (∀ r ∈ rules, r ∈ f.rules) →
      rulesLoop (segContains sf env) env f rules i st = (out, st') →
      LogsPost env.store top st out st' := by
  intro rules
  induction rules with
  | nil =>
    intro i st out st' _ h
    unfold rulesLoop at h
    have hs := getValueForVR_newLogs env f f.fallthrough .fallthrough st
    generalize getValueForVR env f f.fallthrough .fallthrough st = x at h hs
    obtain ⟨d1, st1⟩ := x
    simp only [Prod.mk.injEq] at h
    obtain ⟨_, rfl⟩ := h
    exact LogsPost.of_leafAt hf (.refl _ _) (.refl _ _) hs
  | cons r rs ih =>
    intro i st out st' hsub h
    unfold rulesLoop at h
    have hc := clausesMatch_flag_logs sf env r.clauses st
    split at h
    · rename_i e st1 heq
      rw [heq] at hc
      simp only [Prod.mk.injEq] at h
      obtain ⟨rfl, rfl⟩ := h
      have hok := logOK_of_clauseErr hf (hsub r List.mem_cons_self) (clausesMatch_err_inv heq)
      refine ⟨(NewLogs.of_eq hc).trans (NewLogs.logErr env st1 hok), ?_⟩
      intro d hd; cases hd
    · rename_i st1 heq
      rw [heq] at hc
      simp only [Prod.mk.injEq] at h
      obtain ⟨rfl, rfl⟩ := h
      exact ⟨.of_eq hc, fun d hd => by cases hd⟩
    · rename_i st1 heq
      rw [heq] at hc
      have hs := getValueForVR_newLogs env f r.vr (.ruleMatch i r.id) st1
      generalize getValueForVR env f r.vr (.ruleMatch i r.id) st1 = x at h hs
      obtain ⟨d1, st2⟩ := x
      simp only [Prod.mk.injEq] at h
      obtain ⟨_, rfl⟩ := h
      exact LogsPost.of_leafAt hf (.of_eq hc) (.of_eq hc) hs
    · rename_i st1 heq
      rw [heq] at hc
      obtain ⟨h1, h2⟩ := ih (fun r' hr' => hsub r' (List.mem_cons_of_mem _ hr')) h
      exact ⟨(NewLogs.of_eq hc).trans h1, fun d hd => (NewLogs.of_eq hc).trans (h2 d hd)⟩

/-! ## 5. The prerequisite chain is a path of the prerequisite graph -/

/-- Every key on the chain handed to the evaluation of `f` is the own key of a flag reachable from
`top` that leads on, in at least one step, to `f`. -/
def OnPath (s : Store) (top : Flag) (chain : List String) (f : Flag) : Prop :=
  ∀ k ∈ chain, ∃ g, PrereqReach s top g ∧ TransGen (PrereqEdge s) g f ∧ g.key = k

/-- The chain the prerequisite loop of `f` tests against (it includes `f`'s own key). -/
def OnPathSelf (s : Store) (top : Flag) (chain : List String) (f : Flag) : Prop :=
  ∀ k ∈ chain, ∃ g, PrereqReach s top g ∧ ReflTransGen (PrereqEdge s) g f ∧ g.key = k

theorem OnPath.nil (s : Store) (top f : Flag) : OnPath s top [] f := fun _ h => by cases h

theorem OnPath.self {s : Store} {top f : Flag} {chain : List String} (hf : PrereqReach s top f)
    (h : OnPath s top chain f) : OnPathSelf s top (chain ++ [f.key]) f := by
  intro k hk
  rcases List.mem_append.mp hk with hk | hk
  · obtain ⟨g, h1, h2, h3⟩ := h k hk
    exact ⟨g, h1, h2.to_reflTransGen, h3⟩
  · rw [List.mem_singleton] at hk
    exact ⟨f, hf, .refl, hk.symm⟩

theorem OnPathSelf.step {s : Store} {top f pf : Flag} {chain : List String}
    (h : OnPathSelf s top chain f) (he : PrereqEdge s f pf) : OnPath s top chain pf := by
  intro k hk
  obtain ⟨g, h1, h2, h3⟩ := h k hk
  exact ⟨g, h1, TransGen.tail' h2 he, h3⟩

/-- What the invariant proof assumes about the open recursion. -/
def FlagRecLogs (s : Store) (top f : Flag) (chain : List String) (rec : FlagRec) : Prop :=
  ∀ pf st out st', PrereqEdge s f pf → rec pf chain st = (out, st') → LogsPost s top st out st'

theorem prereqLoop_logsPost {rec : FlagRec} {env : Env} {top f : Flag} {chain : List String}
    (hf : PrereqReach env.store top f) (hchain : OnPathSelf env.store top chain f)
    (hrec : FlagRecLogs env.store top f chain rec) :
    ∀ ps st, (∀ p ∈ ps, p ∈ f.prerequisites) →
      NewLogs (LogOK env.store top) st (prereqLoop rec env f chain ps st).2 ∧
      ((prereqLoop rec env f chain ps st).1 = .ok ∨
         (∃ k, (prereqLoop rec env f chain ps st).1 = .failed k) →
        NewLogs LeafLine st (prereqLoop rec env f chain ps st).2) := by
  intro ps
  induction ps with
  | nil => intro st _; exact ⟨.refl _ _, fun _ => .refl _ _⟩
  | cons p ps ih =>
    intro st hps
    cases hfind : env.store.findFlag p.key with
    | none =>
      rw [prereqLoop_missing hfind]
      exact ⟨.of_eq rfl, fun _ => .of_eq rfl⟩
    | some pf =>
      have hedge : PrereqEdge env.store f pf := ⟨p, hps p List.mem_cons_self, hfind⟩
      cases hc : chain.contains pf.key with
      | true =>
        rw [prereqLoop_cycle hfind hc]
        have hmem : pf.key ∈ chain := by simpa using hc
        obtain ⟨g, h1, h2, h3⟩ := hchain _ hmem
        have hok : LogOK env.store top ⟨f.key, .circularPrereq pf.key⟩ :=
          ⟨f, hf, rfl, .inr (.inl ⟨pf.key, rfl, g, pf, h1, h2, hedge, h3, rfl⟩)⟩
        refine ⟨(NewLogs.of_eq (a := st) (b := lookedUp st p.key) rfl).trans
          (NewLogs.logErr env _ hok), ?_⟩
        rintro (h | ⟨k, h⟩) <;> cases h
      | false =>
        have h0 := hrec pf (lookedUp st p.key)
        generalize hr : rec pf chain (lookedUp st p.key) = r at h0
        obtain ⟨out, st2⟩ := r
        obtain ⟨h1, h2⟩ := h0 out st2 hedge rfl
        have h1' : NewLogs (LogOK env.store top) st st2 :=
          (NewLogs.of_eq (a := st) (b := lookedUp st p.key) rfl).trans h1
        cases out with
        | oof =>
          rw [prereqLoop_oof hfind hc hr]
          exact ⟨h1', by rintro (h | ⟨k, h⟩) <;> cases h⟩
        | done d ok =>
          cases ok with
          | false =>
            rw [prereqLoop_abort hfind hc hr]
            exact ⟨h1'.trans (.of_eq rfl), by rintro (h | ⟨k, h⟩) <;> cases h⟩
          | true =>
            have h2' : NewLogs LeafLine st st2 :=
              (NewLogs.of_eq (a := st) (b := lookedUp st p.key) rfl).trans (h2 d rfl)
            have hlogs : (afterPrereq env f pf st.status d st2).logs = st2.logs := by
              unfold afterPrereq; split <;> rfl
            rw [prereqLoop_done hfind hc hr]
            split
            · obtain ⟨i1, i2⟩ := ih (afterPrereq env f pf st.status d st2)
                (fun q hq => hps q (List.mem_cons_of_mem _ hq))
              exact ⟨(h1'.trans (.of_eq hlogs)).trans i1,
                fun hh => (h2'.trans (.of_eq hlogs)).trans (i2 hh)⟩
            · exact ⟨h1'.trans (.of_eq hlogs), fun _ => h2'.trans (.of_eq hlogs)⟩

theorem evalBody_logsPost {rec : FlagRec} {sf : Nat} {env : Env} {top f : Flag}
    {chain : List String} (hf : PrereqReach env.store top f)
    (hchain : OnPath env.store top chain f)
    (hrec : FlagRecLogs env.store top f (chain ++ [f.key]) rec) {st : St} {out : FlagOut} {st' : St}
    (h : evalBody rec (segContains sf env) env f chain st = (out, st')) :
    LogsPost env.store top st out st' := by
  unfold evalBody at h
  split at h
  · have hs := getOffValue_newLogs env f .off st
    generalize getOffValue env f .off st = x at h hs
    obtain ⟨d1, st1⟩ := x
    simp only [Prod.mk.injEq] at h
    obtain ⟨_, rfl⟩ := h
    exact LogsPost.of_leafAt hf (.refl _ _) (.refl _ _) hs
  · have hp : NewLogs (LogOK env.store top) st (checkPrereqs rec env f chain st).2 ∧
        ((checkPrereqs rec env f chain st).1 = .ok ∨
          (∃ k, (checkPrereqs rec env f chain st).1 = .failed k) →
          NewLogs LeafLine st (checkPrereqs rec env f chain st).2) := by
      unfold checkPrereqs
      split
      · exact ⟨.refl _ _, fun _ => .refl _ _⟩
      · exact prereqLoop_logsPost hf (hchain.self hf) hrec _ _ (fun _ h => h)
    generalize checkPrereqs rec env f chain st = r at h hp
    obtain ⟨pout, st1⟩ := r
    obtain ⟨hp1, hp2⟩ := hp
    simp only at hp1 hp2
    cases pout with
    | oof =>
      simp only [Prod.mk.injEq] at h
      obtain ⟨rfl, rfl⟩ := h
      exact ⟨hp1, fun d hd => by cases hd⟩
    | malformed =>
      simp only [Prod.mk.injEq] at h
      obtain ⟨rfl, rfl⟩ := h
      exact ⟨hp1, fun d hd => by cases hd⟩
    | failed k =>
      simp only at h
      have hs := getOffValue_newLogs env f (.prereqFailed k) st1
      generalize getOffValue env f (.prereqFailed k) st1 = x at h hs
      obtain ⟨d1, st2⟩ := x
      simp only [Prod.mk.injEq] at h
      obtain ⟨_, rfl⟩ := h
      exact LogsPost.of_leafAt hf hp1 (hp2 (.inr ⟨k, rfl⟩)) hs
    | ok =>
      simp only at h
      split at h
      · rename_i v _
        have hs := getVariation_newLogs env f v .targetMatch st1
        generalize getVariation env f v .targetMatch st1 = x at h hs
        obtain ⟨d1, st2⟩ := x
        simp only [Prod.mk.injEq] at h
        obtain ⟨_, rfl⟩ := h
        exact LogsPost.of_leafAt hf hp1 (hp2 (.inl rfl)) hs
      · obtain ⟨r1, r2⟩ := rulesLoop_logsPost hf (fun _ h => h) h
        exact ⟨hp1.trans r1, fun d hd => (hp2 (.inl rfl)).trans (r2 d hd)⟩

/-- The invariant for the whole recursion: started on a flag reachable from `top` with a chain that
is a path to it, the evaluation only adds `LogOK` lines, and only leaf lines if it completes. -/
theorem evalFlag_logsPost (sf : Nat) (env : Env) (top : Flag) :
    ∀ n f chain st out st', PrereqReach env.store top f → OnPath env.store top chain f →
      evalFlag sf n env f chain st = (out, st') → LogsPost env.store top st out st' := by
  intro n
  induction n with
  | zero =>
    intro f chain st out st' _ _ h
    simp only [evalFlag, Prod.mk.injEq] at h
    obtain ⟨rfl, rfl⟩ := h
    exact ⟨.refl _ _, fun d hd => by cases hd⟩
  | succ n ih =>
    intro f chain st out st' hf hchain h
    refine evalBody_logsPost hf hchain ?_ h
    intro pf st1 out1 st1' hedge h1
    exact ih pf _ st1 out1 st1' (hf.tail hedge) ((hchain.self hf).step hedge) h1

/-! ## 6. The chain plays no role below a flag none of whose descendants has a key on it -/

theorem prereqLoop_chain_congr {rec rec' : FlagRec} {env : Env} {f : Flag} {ch ch' : List String}
    (hcont : ∀ pf, PrereqEdge env.store f pf → ch.contains pf.key = ch'.contains pf.key)
    (hrec : ∀ pf st, PrereqEdge env.store f pf → rec pf ch st = rec' pf ch' st) :
    ∀ ps st, (∀ p ∈ ps, p ∈ f.prerequisites) →
      prereqLoop rec env f ch ps st = prereqLoop rec' env f ch' ps st := by
  intro ps
  induction ps with
  | nil => intro st _; rfl
  | cons p ps ih =>
    intro st hps
    have ih' := fun st => ih st (fun q hq => hps q (List.mem_cons_of_mem _ hq))
    simp only [prereqLoop]
    cases hfind : env.store.findFlag p.key with
    | none => rfl
    | some pf =>
      have hedge : PrereqEdge env.store f pf := ⟨p, hps p List.mem_cons_self, hfind⟩
      simp only [hcont pf hedge, hrec pf _ hedge, ih']

theorem evalBody_chain_congr {rec rec' : FlagRec} {seg : SegRec} {env : Env} {f : Flag}
    {ch ch' : List String}
    (hcont : ∀ pf, PrereqEdge env.store f pf →
      (ch ++ [f.key]).contains pf.key = (ch' ++ [f.key]).contains pf.key)
    (hrec : ∀ pf st, PrereqEdge env.store f pf →
      rec pf (ch ++ [f.key]) st = rec' pf (ch' ++ [f.key]) st) (st : St) :
    evalBody rec seg env f ch st = evalBody rec' seg env f ch' st := by
  have h : checkPrereqs rec env f ch st = checkPrereqs rec' env f ch' st := by
    unfold checkPrereqs
    split
    · rfl
    · exact prereqLoop_chain_congr hcont hrec _ _ (fun _ h => h)
  unfold evalBody
  rw [h]

/-- CHAIN IRRELEVANCE: if no flag below `f` has its own key in `c`, evaluating `f` with the chain
`c ++ path` is — result, abort flag and every side channel — the same as evaluating it with
`path` alone.  (The chain is only consulted for the keys of flags below `f`.) -/
theorem evalFlag_chain_irrelevant (sf : Nat) (env : Env) :
    ∀ n f (c path : List String) st,
      (∀ h, TransGen (PrereqEdge env.store) f h → h.key ∉ c) →
      evalFlag sf n env f (c ++ path) st = evalFlag sf n env f path st := by
  intro n
  induction n with
  | zero => intro f c path st _; rfl
  | succ n ih =>
    intro f c path st hc
    show evalBody (evalFlag sf n env) (segContains sf env) env f (c ++ path) st =
      evalBody (evalFlag sf n env) (segContains sf env) env f path st
    apply evalBody_chain_congr
    · intro pf hedge
      have : pf.key ∉ c := hc pf (.single hedge)
      simp only [List.append_assoc, List.contains_eq_mem, List.mem_append, this, false_or]
    · intro pf st1 hedge
      rw [List.append_assoc]
      exact ih pf c (path ++ [f.key]) st1 fun h hh => hc h (.head hedge hh)

/-- For an acyclic prerequisite graph the chain is irrelevant altogether: a flag met on a path from
`top` evaluates, under the chain of that path, exactly as it does standing alone. -/
theorem evalFlag_acyclic_standalone (sf : Nat) (env : Env) {top : Flag}
    (hac : PrereqAcyclicFrom env.store top) (n : Nat) {f : Flag} {chain : List String} (st : St)
    (hchain : OnPath env.store top chain f) :
    evalFlag sf n env f chain st = evalFlag sf n env f [] st := by
  have := evalFlag_chain_irrelevant sf env n f chain [] st (by
    intro h hfh hmem
    obtain ⟨g, hg, hgf, hk⟩ := hchain _ hmem
    exact hac h.key ⟨g, h, hg, hgf.trans hfh, hk, rfl⟩)
  rwa [List.append_nil] at this

/-! ## 7. The walk: which nested calls an evaluation makes -/

theorem evalBody_of_malformed {rec : FlagRec} {seg : SegRec} {env : Env} {f : Flag}
    {chain : List String} {st st1 : St} (hon : f.on = true)
    (h : checkPrereqs rec env f chain st = (.malformed, st1)) :
    evalBody rec seg env f chain st = (.done (Detail.forError .malformedFlag) false, st1) := by
  simp [evalBody, hon, h]

deriving instance DecidableEq for PrereqOut

/-- One call of `evaluationScope.evaluate`: the fuel, the flag, the chain and the state on entry. -/
structure Call where
  fuel : Nat
  flag : Flag
  chain : List String
  st : St

/-- The call `c` makes the nested call `c'`: `c`'s flag is on, the prerequisites listed before
`p` were all met (the loop over them returned `ok`, leaving the state `st1`), the store resolves
`p.key` to `pf`, `pf`'s key is not on the chain extended by `c`'s own key — and then `pf` is
evaluated with that extended chain, in the state after the lookup. -/
inductive Calls (sf : Nat) (env : Env) : Call → Call → Prop
  | mk {n : Nat} {f : Flag} {chain : List String} {st : St} {pre : List Prereq} {p : Prereq}
      {post : List Prereq} {pf : Flag} {st1 : St} :
      f.on = true → f.prerequisites = pre ++ p :: post →
      prereqLoop (evalFlag sf n env) env f (chain ++ [f.key]) pre st = (.ok, st1) →
      env.store.findFlag p.key = some pf →
      (chain ++ [f.key]).contains pf.key = false →
      Calls sf env ⟨n + 1, f, chain, st⟩ ⟨n, pf, chain ++ [f.key], lookedUp st1 p.key⟩

/-- The call `c` re-enters a key of its current path: as for `Calls`, but `pf`'s key IS on the
extended chain. -/
inductive Reenters (sf : Nat) (env : Env) : Call → Prereq → Flag → St → Prop
  | mk {n : Nat} {f : Flag} {chain : List String} {st : St} {pre : List Prereq} {p : Prereq}
      {post : List Prereq} {pf : Flag} {st1 : St} :
      f.on = true → f.prerequisites = pre ++ p :: post →
      prereqLoop (evalFlag sf n env) env f (chain ++ [f.key]) pre st = (.ok, st1) →
      env.store.findFlag p.key = some pf →
      (chain ++ [f.key]).contains pf.key = true →
      Reenters sf env ⟨n + 1, f, chain, st⟩ p pf st1

/-- What a call returns. -/
def Call.run (sf : Nat) (env : Env) (c : Call) : FlagOut × St :=
  evalFlag sf c.fuel env c.flag c.chain c.st

theorem prereqLoop_append_ok {rec : FlagRec} {env : Env} {f : Flag} {chain : List String}
    (rest : List Prereq) :
    ∀ (pre : List Prereq) (st st1 : St), prereqLoop rec env f chain pre st = (.ok, st1) →
      prereqLoop rec env f chain (pre ++ rest) st = prereqLoop rec env f chain rest st1 := by
  intro pre
  induction pre with
  | nil => intro st st1 h; cases h; rfl
  | cons p pre ih =>
    intro st st1 h
    rw [List.cons_append]
    cases hfind : env.store.findFlag p.key with
    | none => rw [prereqLoop_missing hfind] at h; cases h
    | some pf =>
      cases hc : chain.contains pf.key with
      | true => rw [prereqLoop_cycle hfind hc] at h; cases h
      | false =>
        generalize hr : rec pf chain (lookedUp st p.key) = r
        obtain ⟨out, st2⟩ := r
        cases out with
        | oof => rw [prereqLoop_oof hfind hc hr] at h; cases h
        | done d ok =>
          cases ok with
          | false => rw [prereqLoop_abort hfind hc hr] at h; cases h
          | true =>
            rw [prereqLoop_done hfind hc hr] at h ⊢
            split
            · rename_i hm; rw [if_pos hm] at h; exact ih _ _ h
            · rename_i hm; rw [if_neg hm] at h; cases h

/-- All side channels agree (the status, which the enclosing scope merges, and the cache may
differ). -/
def SameObs (a b : St) : Prop :=
  b.events = a.events ∧ b.logs = a.logs ∧ b.flagLookups = a.flagLookups ∧
  b.segLookups = a.segLookups ∧ b.bsQueries = a.bsQueries ∧ b.memChecks = a.memChecks

theorem SameObs.refl (a : St) : SameObs a a := ⟨rfl, rfl, rfl, rfl, rfl, rfl⟩

theorem SameObs.trans {a b c : St} (h1 : SameObs a b) (h2 : SameObs b c) : SameObs a c :=
  ⟨h2.1.trans h1.1, h2.2.1.trans h1.2.1, h2.2.2.1.trans h1.2.2.1, h2.2.2.2.1.trans h1.2.2.2.1,
    h2.2.2.2.2.1.trans h1.2.2.2.2.1, h2.2.2.2.2.2.trans h1.2.2.2.2.2⟩

theorem evalFlag_of_loop {sf n : Nat} {env : Env} {f : Flag} {chain : List String} {st st1 : St}
    {pre rest : List Prereq} (hon : f.on = true) (hps : f.prerequisites = pre ++ rest)
    (hne : rest ≠ [])
    (hpre : prereqLoop (evalFlag sf n env) env f (chain ++ [f.key]) pre st = (.ok, st1))
    {st3 : St}
    (hrest : prereqLoop (evalFlag sf n env) env f (chain ++ [f.key]) rest st1 = (.malformed, st3)) :
    evalFlag sf (n + 1) env f chain st = (.done (Detail.forError .malformedFlag) false, st3) := by
  show evalBody (evalFlag sf n env) (segContains sf env) env f chain st = _
  apply evalBody_of_malformed hon
  rw [checkPrereqs, hps]
  have : (pre ++ rest).isEmpty = false := by
    cases pre with
    | nil => cases rest with
      | nil => exact absurd rfl hne
      | cons _ _ => rfl
    | cons _ _ => rfl
  rw [this]
  simp only [Bool.false_eq_true, if_false]
  rw [prereqLoop_append_ok rest pre st st1 hpre, hrest]

/-- A re-entering call aborts on the spot: the lookup that found the flag already on the path is
the last thing it does (the flag is NOT evaluated again), the cycle line is written under the
key of the dependent flag, and no later prerequisite is looked at. -/
theorem Reenters.run_eq {sf : Nat} {env : Env} {c : Call} {p : Prereq} {pf : Flag} {st1 : St}
    (h : Reenters sf env c p pf st1) :
    c.run sf env = (.done (Detail.forError .malformedFlag) false,
      logErr env c.flag.key (.circularPrereq pf.key) (lookedUp st1 p.key)) := by
  cases h with
  | mk hon hps hpre hfind hc =>
    exact evalFlag_of_loop hon hps (by simp) hpre (prereqLoop_cycle hfind hc)

/-- If a nested call aborts, so does the call that made it; nothing but the status merge happens
in between (no event, no lookup, no log line, no later sibling). -/
theorem Calls.abort_up {sf : Nat} {env : Env} {c c' : Call} (h : Calls sf env c c') {d : Detail}
    {st2 : St} (hrun : c'.run sf env = (.done d false, st2)) :
    ∃ st3, c.run sf env = (.done (Detail.forError .malformedFlag) false, st3) ∧ SameObs st2 st3 := by
  cases h with
  | mk hon hps hpre hfind hc =>
    exact ⟨_, evalFlag_of_loop hon hps (by simp) hpre (prereqLoop_abort hfind hc hrun),
      rfl, rfl, rfl, rfl, rfl, rfl⟩

/-- … and so on up to any call from which the aborting call was reached. -/
theorem walk_abort_up {sf : Nat} {env : Env} {c0 c : Call}
    (hwalk : ReflTransGen (Calls sf env) c0 c) :
    ∀ {d : Detail} {st2 : St}, c.run sf env = (.done d false, st2) →
      ∃ d0 st3, c0.run sf env = (.done d0 false, st3) ∧ SameObs st2 st3 := by
  induction hwalk with
  | refl => intro d st2 h; exact ⟨d, st2, h, .refl _⟩
  | tail _ hbc ih =>
    intro d st2 h
    obtain ⟨st3, h3, hs3⟩ := hbc.abort_up h
    obtain ⟨d0, st4, h4, hs4⟩ := ih h3
    exact ⟨d0, st4, h4, hs3.trans hs4⟩

/-- Along the walk the chain is a path of the prerequisite graph from `top`, no key occurs on it
twice, and the depth is exactly the fuel used. -/
theorem walk_invariant {sf : Nat} {env : Env} {top : Flag} {n0 : Nat} {st0 : St} {c : Call}
    (hwalk : ReflTransGen (Calls sf env) ⟨n0, top, [], st0⟩ c) :
    PrereqReach env.store top c.flag ∧ OnPath env.store top c.chain c.flag ∧
    (c.chain ++ [c.flag.key]).Nodup ∧ c.fuel + c.chain.length = n0 := by
  induction hwalk with
  | refl => exact ⟨.refl, OnPath.nil _ _ _, by simp, by simp⟩
  | tail _ hbc ih =>
    obtain ⟨h1, h2, h3, h4⟩ := ih
    cases hbc with
    | @mk n f chain st pre p post pf st1 hon hps hpre hfind hc =>
      have hedge : PrereqEdge env.store f pf := ⟨p, by rw [hps]; simp, hfind⟩
      refine ⟨h1.tail hedge, (h2.self h1).step hedge, ?_, ?_⟩
      · have hnot : pf.key ∉ chain ++ [f.key] := by
          intro hm
          have : (chain ++ [f.key]).contains pf.key = true := by simpa using hm
          rw [hc] at this; cases this
        exact List.nodup_append.mpr ⟨h3, List.nodup_singleton _, by
          intro a ha b hb; simp at hb; subst hb; intro hab; subst hab; exact hnot ha⟩
      · simp only [List.length_append, List.length_cons, List.length_nil] at h4 ⊢
        omega

theorem Calls.chain_eq {sf : Nat} {env : Env} {c c' : Call} (h : Calls sf env c c') :
    c'.chain = c.chain ++ [c.flag.key] ∧ c'.fuel + 1 = c.fuel := by
  cases h; exact ⟨rfl, rfl⟩

/-! ## 8. Criteria for acyclicity -/

theorem transGen_imp {α : Type} {r p : α → α → Prop} (h : ∀ a b, r a b → p a b) {a b : α}
    (hab : TransGen r a b) : TransGen p a b := by
  induction hab with
  | single hb => exact .single (h _ _ hb)
  | tail _ hbc ih => exact .tail ih (h _ _ hbc)

/-- A rank on keys that strictly decreases along every prerequisite reference (out of `top` and
out of every stored flag) rules out reachable cycles. -/
theorem prereqAcyclic_of_rank {s : Store} {top : Flag} (rank : String → Nat)
    (h : ∀ f g, (f = top ∨ f ∈ s.flags.map (·.2)) → PrereqEdge s f g → rank g.key < rank f.key) :
    PrereqAcyclicFrom s top := by
  have key : ∀ g h', (g = top ∨ g ∈ s.flags.map (·.2)) → TransGen (PrereqEdge s) g h' →
      rank h'.key < rank g.key := by
    intro g h' hg hgh
    induction hgh with
    | single hb => exact h _ _ hg hb
    | tail hab hbc ih =>
      have := h _ _ (prereqReach_top_or_stored (top := g) hab.to_reflTransGen |>.elim
        (fun e => e ▸ hg) (fun e => .inr e)) hbc
      omega
  rintro k ⟨g, h', hg, hgh, h1, h2⟩
  have := key g h' (prereqReach_top_or_stored hg) hgh
  rw [h1, h2] at this
  omega

/-- In a store that files every flag under its own key, with `top` taken from it, a reachable cycle
in the sense of `PrereqCycleAt` is a flag that is its own descendant. -/
theorem prereqCycleAt_consistent {s : Store} {top : Flag} {k : String} (hs : StoreConsistent s)
    (htop : s.findFlag top.key = some top) (h : PrereqCycleAt s top k) :
    ∃ g, PrereqReach s top g ∧ TransGen (PrereqEdge s) g g ∧ g.key = k := by
  have stored : ∀ g, PrereqReach s top g → s.findFlag g.key = some g := by
    intro g hg
    induction hg with
    | refl => exact htop
    | tail _ hbc _ =>
      obtain ⟨p, _, hf⟩ := hbc
      rw [findFlag_key_consistent hs hf]; exact hf
  obtain ⟨g, h', hg, hgh, h1, h2⟩ := h
  have e1 := stored g hg
  have e2 := stored h' (hg.trans hgh.to_reflTransGen)
  rw [h1] at e1; rw [h2] at e2
  have : g = h' := by rw [e1] at e2; exact Option.some.inj e2
  subst this
  exact ⟨g, hg, hgh, h1⟩

theorem segEdge_stored {s : Store} {a b : Segment} (h : SegEdge s a b) :
    b ∈ s.segments.map (·.2) := by
  obtain ⟨r, _, c, _, _, k, _, hfind⟩ := h
  exact (findSegment_key hfind).2

theorem segReach_stored {s : Store} {a g : Segment} (ha : a ∈ s.segments.map (·.2))
    (h : ReflTransGen (SegEdge s) a g) : g ∈ s.segments.map (·.2) := by
  induction h with
  | refl => exact ha
  | tail _ hbc _ => exact segEdge_stored hbc

/-- The same for segments (whatever flag the evaluation starts from). -/
theorem segAcyclic_of_rank {s : Store} {top : Flag} (rank : String → Nat)
    (h : ∀ a b, a ∈ s.segments.map (·.2) → SegEdge s a b → rank b.key < rank a.key) :
    SegAcyclicFrom s top := by
  have key : ∀ g h', g ∈ s.segments.map (·.2) → TransGen (SegEdge s) g h' →
      rank h'.key < rank g.key := by
    intro g h' hg hgh
    induction hgh with
    | single hb => exact h _ _ hg hb
    | tail hab hbc ih =>
      have := h _ _ (segReach_stored hg hab.to_reflTransGen) hbc
      omega
  rintro k ⟨f, a, _, ⟨r, _, c, _, _, k', _, hfind⟩, g, h', hag, hgh, h1, h2⟩
  have := key g h' (segReach_stored (findSegment_key hfind).2 hag) hgh
  rw [h1, h2] at this
  omega

end LD

#print axioms LD.segContains_err_good
#print axioms LD.evalFlag_logsPost
#print axioms LD.evalFlag_chain_irrelevant
#print axioms LD.evalFlag_acyclic_standalone
#print axioms LD.walk_abort_up
#print axioms LD.walk_invariant
#print axioms LD.Reenters.run_eq
#print axioms LD.prereqAcyclic_of_rank
#print axioms LD.segAcyclic_of_rank
#print axioms LD.prereqCycleAt_consistent

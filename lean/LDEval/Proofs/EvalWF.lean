/-
  C01 (continued): errors that reach a flag's rule loop are never the bare segment-cycle error,
  and every Detail produced by `evalBody` is well-formed.
-/
import LDEval.Proofs.WellFormed

namespace LD

theorem clauseMatchNoSeg_err_kind {rx ctx c} {e : EvalErr}
    (h : clauseMatchNoSeg rx ctx c = .error e) : e.kind = .malformedFlag := by
  unfold clauseMatchNoSeg at h
  split at h
  · cases h; rfl
  · split at h
    · cases h; rfl
    · split at h
      · cases h
      · split at h
        · cases h
        · split at h
          · cases h
          · cases h
          · split at h <;> cases h

/-- Errors out of the segment rule loop are always wrapped. -/
theorem segRules_err {rec : SegRec} {env chain s} : ∀ {rules st e st'},
    segRules rec env chain s rules st = (.err e, st') → ∃ e', e = .malformedSegment s.key e' := by
  intro rules
  induction rules with
  | nil => intro st e st' h; simp [segRules] at h
  | cons r rs ih =>
    intro st e st' h
    unfold segRules at h
    split at h
    · cases h
    · exact ih h
    · rename_i e1 st1 _; cases h; exact ⟨e1, rfl⟩
    · cases h

theorem segBody_err {rec : SegRec} {env s chain st e st'}
    (h : segBody rec env s chain st = (.err e, st')) :
    e = .circularSegment s.key ∨ ∃ e', e = .malformedSegment s.key e' := by
  unfold segBody at h
  split at h
  · cases h; left; rfl
  · right
    simp only at h
    split at h
    · split at h
      · cases h
      · split at h
        · cases h
        · split at h
          · exact segRules_err h
          · split at h
            · cases h
            · exact segRules_err h
    · split at h
      · cases h
      · exact segRules_err h

theorem segBody_nil_err_kind {rec : SegRec} {env s st e st'}
    (h : segBody rec env s [] st = (.err e, st')) : e.kind = .malformedFlag := by
  have hb := segBody_err h
  rcases hb with hb | ⟨e', hb⟩
  · -- impossible: the chain is empty, so the cycle branch is not taken
    unfold segBody at h
    simp at h
    subst hb
    -- all remaining branches produce wrapped errors
    exfalso
    split at h
    · split at h
      · cases h
      · split at h
        · cases h
        · split at h
          · obtain ⟨e', he'⟩ := segRules_err h; cases he'
          · split at h
            · cases h
            · obtain ⟨e', he'⟩ := segRules_err h; cases he'
    · split at h
      · cases h
      · obtain ⟨e', he'⟩ := segRules_err h; cases he'
  · subst hb; rfl

theorem segContains_nil_err_kind {n env s st e st'}
    (h : segContains n env s [] st = (.err e, st')) : e.kind = .malformedFlag := by
  cases n with
  | zero => simp [segContains] at h
  | succ n => exact segBody_nil_err_kind h

/-- If every error the recursion can return at this chain satisfies `P`, so does every error of the
any-of loop. -/
theorem segMatchValues_err {rec : SegRec} {env negate chain} {P : EvalErr → Prop}
    (hrec : ∀ seg st e st', rec seg chain st = (.err e, st') → P e) :
    ∀ {vs st e st'}, segMatchValues rec env negate chain vs st = (.err e, st') → P e := by
  intro vs
  induction vs with
  | nil => intro st e st' h; simp [segMatchValues] at h
  | cons v vs ih =>
    intro st e st' h
    cases v with
    | str k =>
      unfold segMatchValues at h
      simp only at h
      split at h
      · exact ih h
      · split at h
        · cases h
        · exact ih h
        · rename_i e1 st2 heq; cases h; exact hrec _ _ _ _ heq
        · cases h
    | null => unfold segMatchValues at h; exact ih h
    | bool b => unfold segMatchValues at h; exact ih h
    | num q => unfold segMatchValues at h; exact ih h
    | arr xs => unfold segMatchValues at h; exact ih h
    | obj kvs => unfold segMatchValues at h; exact ih h
    | raw w => unfold segMatchValues at h; exact ih h

theorem clauseMatch_err {rec : SegRec} {env chain c st e st'} {P : EvalErr → Prop}
    (hrec : ∀ seg st e st', rec seg chain st = (.err e, st') → P e)
    (hP : ∀ e, e.kind = .malformedFlag → P e)
    (h : clauseMatch rec env chain c st = (.err e, st')) : P e := by
  unfold clauseMatch at h
  split at h
  · exact segMatchValues_err hrec h
  · generalize hx : clauseMatchNoSeg env.rx env.ctx c = x at h
    cases x with
    | ok b => simp [Res.ofExcept] at h
    | error e' =>
      simp [Res.ofExcept] at h
      exact hP _ (h.1 ▸ clauseMatchNoSeg_err_kind hx)

theorem clausesMatch_err {rec : SegRec} {env chain} {P : EvalErr → Prop}
    (hrec : ∀ seg st e st', rec seg chain st = (.err e, st') → P e)
    (hP : ∀ e, e.kind = .malformedFlag → P e) :
    ∀ {cs st e st'}, clausesMatch rec env chain cs st = (.err e, st') → P e := by
  intro cs
  induction cs with
  | nil => intro st e st' h; simp [clausesMatch] at h
  | cons c cs ih =>
    intro st e st' h
    unfold clausesMatch at h
    split at h
    · exact ih h
    · rename_i r hne
      exact clauseMatch_err hrec hP h

/-- C01 core: at flag level (empty segment chain) a rule-matching error is always MALFORMED_FLAG. -/
theorem flag_clauses_err_kind {n env cs st e st'}
    (h : clausesMatch (segContains n env) env [] cs st = (.err e, st')) : e.kind = .malformedFlag :=
  clausesMatch_err (P := fun e => e.kind = .malformedFlag)
    (fun _ _ _ _ h => segContains_nil_err_kind h) (fun _ h => h) h

end LD

/-
  LDEval.Proofs.Prereq — helper lemmas for C09 / C10: one-step unfoldings of the prerequisite
  loop, what each piece does to the `events` / `flagLookups` channels, and — at Spec level —
  monotonicity in the fuel and weakening of the chain.
-/
import LDEval.Proofs.Total
import LDEval.Proofs.Reach
import LDEval.Proofs.Refine

namespace LD

/-! ### The prerequisite loop, one step at a time -/

/-- The event recorded for prerequisite flag `pf` of flag `f` whose evaluation returned `d`. -/
def prereqEvent (f pf : Flag) (d : Detail) : Event :=
  { targetKey := f.key, prereqKey := pf.key, prereqVersion := pf.fmeta.version,
    result := ⟨d, isExperimentResult pf d.reason⟩,
    excludeFromSummaries := pf.excludeFromSummaries }

/-- The state after the lookup of prerequisite key `k`. -/
def lookedUp (st : St) (k : String) : St := { st with flagLookups := st.flagLookups ++ [k] }

/-- The state after the status merge that follows a nested evaluation which ended in `st2`
(`old` is the enclosing scope's status). -/
def mergedStatus (old : Option Status) (st2 : St) : St :=
  { st2 with status := updateStatus old st2.status }

/-- The state after a *completed* nested evaluation of `pf` that returned `d` and ended in `st2`:
status merge, then exactly one event iff the recorder is on. -/
def afterPrereq (env : Env) (f pf : Flag) (old : Option Status) (d : Detail) (st2 : St) : St :=
  if env.opts.recorder then
    { mergedStatus old st2 with events := (mergedStatus old st2).events ++ [prereqEvent f pf d] }
  else mergedStatus old st2

/-- Is the prerequisite met? -/
def prereqMet (pf : Flag) (p : Prereq) (d : Detail) : Bool :=
  pf.on && d.index.isSome && d.index == some p.variation

theorem prereqLoop_nil (rec : FlagRec) (env : Env) (f : Flag) (chain : List String) (st : St) :
    prereqLoop rec env f chain [] st = (.ok, st) := rfl

theorem prereqLoop_missing {rec : FlagRec} {env : Env} {f : Flag} {chain : List String}
    {p : Prereq} {ps : List Prereq} {st : St} (hfind : env.store.findFlag p.key = none) :
    prereqLoop rec env f chain (p :: ps) st = (.failed p.key, lookedUp st p.key) := by
  simp only [prereqLoop, hfind, lookedUp]

theorem prereqLoop_cycle {rec : FlagRec} {env : Env} {f : Flag} {chain : List String}
    {p : Prereq} {ps : List Prereq} {st : St} {pf : Flag}
    (hfind : env.store.findFlag p.key = some pf) (hc : chain.contains pf.key = true) :
    prereqLoop rec env f chain (p :: ps) st =
      (.malformed, logErr env f.key (.circularPrereq pf.key) (lookedUp st p.key)) := by
  simp only [prereqLoop, hfind, hc, if_true, lookedUp]

theorem prereqLoop_oof {rec : FlagRec} {env : Env} {f : Flag} {chain : List String}
    {p : Prereq} {ps : List Prereq} {st st2 : St} {pf : Flag}
    (hfind : env.store.findFlag p.key = some pf) (hc : chain.contains pf.key = false)
    (hrec : rec pf chain (lookedUp st p.key) = (.oof, st2)) :
    prereqLoop rec env f chain (p :: ps) st = (.oof, st2) := by
  unfold lookedUp at hrec
  simp only [prereqLoop, hfind, hc, hrec, Bool.false_eq_true, if_false]

theorem prereqLoop_abort {rec : FlagRec} {env : Env} {f : Flag} {chain : List String}
    {p : Prereq} {ps : List Prereq} {st st2 : St} {pf : Flag} {d : Detail}
    (hfind : env.store.findFlag p.key = some pf) (hc : chain.contains pf.key = false)
    (hrec : rec pf chain (lookedUp st p.key) = (.done d false, st2)) :
    prereqLoop rec env f chain (p :: ps) st = (.malformed, mergedStatus st.status st2) := by
  unfold lookedUp at hrec
  simp only [prereqLoop, hfind, hc, hrec, Bool.false_eq_true, if_false, Bool.not_false, if_true,
    mergedStatus]

theorem prereqLoop_done {rec : FlagRec} {env : Env} {f : Flag} {chain : List String}
    {p : Prereq} {ps : List Prereq} {st st2 : St} {pf : Flag} {d : Detail}
    (hfind : env.store.findFlag p.key = some pf) (hc : chain.contains pf.key = false)
    (hrec : rec pf chain (lookedUp st p.key) = (.done d true, st2)) :
    prereqLoop rec env f chain (p :: ps) st =
      if prereqMet pf p d then prereqLoop rec env f chain ps (afterPrereq env f pf st.status d st2)
      else (.failed p.key, afterPrereq env f pf st.status d st2) := by
  unfold lookedUp at hrec
  simp only [prereqLoop, hfind, hc, hrec, Bool.false_eq_true, if_false, Bool.not_true,
    afterPrereq, mergedStatus, prereqEvent, prereqMet]
  split
  · rename_i hm
    rw [Bool.not_eq_true'] at hm
    simp only [hm, Bool.false_eq_true, if_false]
  · rename_i hm
    rw [Bool.not_eq_true', Bool.not_eq_false] at hm
    simp only [hm, if_true]

/-! ### Side channels of the small pieces -/

theorem logErr_events (env : Env) (k : String) (e : EvalErr) (st : St) :
    (logErr env k e st).events = st.events := by
  unfold logErr; split <;> rfl

theorem logErr_flagLookups (env : Env) (k : String) (e : EvalErr) (st : St) :
    (logErr env k e st).flagLookups = st.flagLookups := by
  unfold logErr; split <;> rfl

theorem getVariation_events (env : Env) (f : Flag) (i : Int) (r : Reason) (st : St) :
    (getVariation env f i r st).2.events = st.events ∧
    (getVariation env f i r st).2.flagLookups = st.flagLookups := by
  unfold getVariation
  split
  · exact ⟨logErr_events .., logErr_flagLookups ..⟩
  · exact ⟨rfl, rfl⟩

theorem getOffValue_events (env : Env) (f : Flag) (r : Reason) (st : St) :
    (getOffValue env f r st).2.events = st.events ∧
    (getOffValue env f r st).2.flagLookups = st.flagLookups := by
  unfold getOffValue
  split
  · exact ⟨rfl, rfl⟩
  · exact getVariation_events ..

theorem afterPrereq_events_on {env : Env} (f pf : Flag) (old : Option Status) (d : Detail)
    (st2 : St) (h : env.opts.recorder = true) :
    (afterPrereq env f pf old d st2).events = st2.events ++ [prereqEvent f pf d] := by
  simp [afterPrereq, h, mergedStatus]

theorem afterPrereq_events_off {env : Env} (f pf : Flag) (old : Option Status) (d : Detail)
    (st2 : St) (h : env.opts.recorder = false) :
    (afterPrereq env f pf old d st2).events = st2.events := by
  simp [afterPrereq, h, mergedStatus]

theorem afterPrereq_flagLookups (env : Env) (f pf : Flag) (old : Option Status) (d : Detail)
    (st2 : St) : (afterPrereq env f pf old d st2).flagLookups = st2.flagLookups := by
  unfold afterPrereq; split <;> rfl

/-- Error details carry no index (for details produced by the evaluator). -/
theorem wf_error_index_none {f : Flag} {d : Detail} (hw : WellFormed f d)
    (he : d.reason.kind = .error) : d.index = none := by
  rcases hw with ⟨_, _, _, _, hk, _⟩ | ⟨hi, _⟩ | ⟨hi, _⟩
  · exact absurd he hk
  · exact hi
  · exact hi

/-! ### Spec level: more fuel never changes an answer that is not "out of fuel" -/

namespace Spec

/-- `rec'` agrees with `rec` wherever `rec` did not run out of fuel. -/
def SegRecLe (rec rec' : Spec.SegRec) : Prop :=
  ∀ s c, rec s c ≠ .oof → rec' s c = rec s c

theorem segMatchValues_mono {rec rec' : Spec.SegRec} {env : Env} {negate : Bool}
    {chain : List String} (h : SegRecLe rec rec') :
    ∀ vs, Spec.segMatchValues rec env negate chain vs ≠ .oof →
      Spec.segMatchValues rec' env negate chain vs = Spec.segMatchValues rec env negate chain vs := by
  intro vs
  induction vs with
  | nil => intro _; rfl
  | cons v vs ih =>
    intro hne
    cases v with
    | str k =>
      simp only [Spec.segMatchValues] at hne ⊢
      cases hf : env.store.findSegment k with
      | none => rw [hf] at hne; exact ih hne
      | some seg =>
        rw [hf] at hne
        simp only at hne ⊢
        cases hr : rec seg chain with
        | oof => rw [hr] at hne; exact absurd rfl hne
        | err e => rw [h seg chain (by rw [hr]; simp), hr]
        | ok b =>
          rw [hr] at hne
          rw [h seg chain (by rw [hr]; simp), hr]
          cases b with
          | true => rfl
          | false => exact ih hne
    | null => simp only [Spec.segMatchValues] at hne ⊢; exact ih hne
    | bool b => simp only [Spec.segMatchValues] at hne ⊢; exact ih hne
    | num q => simp only [Spec.segMatchValues] at hne ⊢; exact ih hne
    | arr xs => simp only [Spec.segMatchValues] at hne ⊢; exact ih hne
    | obj kvs => simp only [Spec.segMatchValues] at hne ⊢; exact ih hne
    | raw w => simp only [Spec.segMatchValues] at hne ⊢; exact ih hne

theorem clauseMatch_mono {rec rec' : Spec.SegRec} {env : Env} {chain : List String}
    (h : SegRecLe rec rec') (c : Clause) (hne : Spec.clauseMatch rec env chain c ≠ .oof) :
    Spec.clauseMatch rec' env chain c = Spec.clauseMatch rec env chain c := by
  unfold Spec.clauseMatch at hne ⊢
  split
  · rename_i hop; rw [if_pos hop] at hne; exact segMatchValues_mono h _ hne
  · rfl

theorem clausesMatch_mono {rec rec' : Spec.SegRec} {env : Env} {chain : List String}
    (h : SegRecLe rec rec') :
    ∀ cs, Spec.clausesMatch rec env chain cs ≠ .oof →
      Spec.clausesMatch rec' env chain cs = Spec.clausesMatch rec env chain cs := by
  intro cs
  induction cs with
  | nil => intro _; rfl
  | cons c cs ih =>
    intro hne
    simp only [Spec.clausesMatch] at hne ⊢
    cases hr : Spec.clauseMatch rec env chain c with
    | oof => rw [hr] at hne; exact absurd rfl hne
    | err e => rw [clauseMatch_mono h c (by rw [hr]; simp), hr]
    | ok b =>
      rw [hr] at hne
      rw [clauseMatch_mono h c (by rw [hr]; simp), hr]
      cases b with
      | true => exact ih hne
      | false => rfl

theorem segRuleMatch_mono {rec rec' : Spec.SegRec} {env : Env} {chain : List String}
    (h : SegRecLe rec rec') (key salt : String) (r : SegmentRule)
    (hne : Spec.segRuleMatch rec env chain key salt r ≠ .oof) :
    Spec.segRuleMatch rec' env chain key salt r = Spec.segRuleMatch rec env chain key salt r := by
  unfold Spec.segRuleMatch at hne ⊢
  cases hr : Spec.clausesMatch rec env chain r.clauses with
  | oof => rw [hr] at hne; exact absurd rfl hne
  | err e => rw [clausesMatch_mono h _ (by rw [hr]; simp), hr]
  | ok b => rw [clausesMatch_mono h _ (by rw [hr]; simp), hr]

theorem segRules_mono {rec rec' : Spec.SegRec} {env : Env} {chain : List String} {s : Segment}
    (h : SegRecLe rec rec') :
    ∀ rs, Spec.segRules rec env chain s rs ≠ .oof →
      Spec.segRules rec' env chain s rs = Spec.segRules rec env chain s rs := by
  intro rs
  induction rs with
  | nil => intro _; rfl
  | cons r rs ih =>
    intro hne
    simp only [Spec.segRules] at hne ⊢
    cases hr : Spec.segRuleMatch rec env chain s.key s.salt r with
    | oof => rw [hr] at hne; exact absurd rfl hne
    | err e => rw [segRuleMatch_mono h _ _ _ (by rw [hr]; simp), hr]
    | ok b =>
      rw [hr] at hne
      rw [segRuleMatch_mono h _ _ _ (by rw [hr]; simp), hr]
      cases b with
      | true => rfl
      | false => exact ih hne

theorem segBody_mono {rec rec' : Spec.SegRec} {env : Env} (h : SegRecLe rec rec') (s : Segment)
    (chain : List String) (hne : Spec.segBody rec env s chain ≠ .oof) :
    Spec.segBody rec' env s chain = Spec.segBody rec env s chain := by
  unfold Spec.segBody at hne ⊢
  split
  · rfl
  · rename_i hc
    rw [if_neg hc] at hne
    simp only at hne ⊢
    split
    · rename_i hu
      rw [if_pos hu] at hne
      split
      · rfl
      · split
        · rfl
        · split
          · rename_i hm; simp only [*] at hne; exact segRules_mono h _ hne
          · split
            · rfl
            · rename_i hm; simp only [*] at hne; exact segRules_mono h _ hne
    · rename_i hu
      rw [if_neg hu] at hne
      split
      · rfl
      · rename_i hl; simp only [hl] at hne; exact segRules_mono h _ hne

/-- One more unit of segment fuel never changes an answer other than "out of fuel". -/
theorem segContains_succ (env : Env) :
    ∀ n, SegRecLe (Spec.segContains n env) (Spec.segContains (n + 1) env) := by
  intro n
  induction n with
  | zero => intro s c hne; exact absurd rfl hne
  | succ n ih => intro s c hne; exact segBody_mono ih s c hne

theorem segContains_le (env : Env) {n m : Nat} (hnm : n ≤ m) :
    SegRecLe (Spec.segContains n env) (Spec.segContains m env) := by
  induction hnm with
  | refl => intro s c _; rfl
  | step _ ih =>
    intro s c hne
    have h1 := ih s c hne
    rw [← h1]
    exact segContains_succ env _ s c (by rw [h1]; exact hne)

/-! #### Flags -/

/-- `rec'` agrees with `rec` wherever `rec` did not run out of fuel. -/
def FlagRecLe (rec rec' : Spec.FlagRec) : Prop :=
  ∀ f c r, rec f c = some r → rec' f c = some r

theorem prereqLoop_mono {rec rec' : Spec.FlagRec} {env : Env} {chain : List String}
    (h : FlagRecLe rec rec') :
    ∀ ps, Spec.prereqLoop rec env chain ps ≠ .oof →
      Spec.prereqLoop rec' env chain ps = Spec.prereqLoop rec env chain ps := by
  intro ps
  induction ps with
  | nil => intro _; rfl
  | cons p ps ih =>
    intro hne
    simp only [Spec.prereqLoop] at hne ⊢
    cases hf : env.store.findFlag p.key with
    | none => rfl
    | some pf =>
      rw [hf] at hne
      simp only at hne ⊢
      split
      · rfl
      · rename_i hc
        rw [if_neg hc] at hne
        cases hr : rec pf chain with
        | none => rw [hr] at hne; exact absurd rfl hne
        | some r =>
          obtain ⟨d, ok⟩ := r
          rw [hr] at hne
          rw [h pf chain _ hr]
          simp only at hne ⊢
          split
          · rfl
          · rename_i hok
            rw [if_neg hok] at hne
            split
            · rename_i hm; rw [if_pos hm] at hne; exact ih hne
            · rfl

theorem checkPrereqs_mono {rec rec' : Spec.FlagRec} {env : Env} (h : FlagRecLe rec rec')
    (f : Flag) (chain : List String) (hne : Spec.checkPrereqs rec env f chain ≠ .oof) :
    Spec.checkPrereqs rec' env f chain = Spec.checkPrereqs rec env f chain := by
  unfold Spec.checkPrereqs at hne ⊢
  split
  · rfl
  · rename_i he; rw [if_neg he] at hne; exact prereqLoop_mono h _ hne

theorem evalBody_mono {rec rec' : Spec.FlagRec} {seg : Spec.SegRec} {env : Env}
    (h : FlagRecLe rec rec') (f : Flag) (chain : List String) (r : Detail × Bool)
    (hr : Spec.evalBody rec seg env f chain = some r) :
    Spec.evalBody rec' seg env f chain = some r := by
  unfold Spec.evalBody at hr ⊢
  split
  · rename_i hon; rw [if_pos hon] at hr; exact hr
  · rename_i hon
    rw [if_neg hon] at hr
    have hne : Spec.checkPrereqs rec env f chain ≠ .oof := by
      intro h0; rw [h0] at hr; cases hr
    rw [checkPrereqs_mono h f chain hne]
    exact hr

/-- One more unit of flag fuel never changes an answer. -/
theorem evalFlag_succ (sf : Nat) (env : Env) :
    ∀ n, FlagRecLe (Spec.evalFlag sf n env) (Spec.evalFlag sf (n + 1) env) := by
  intro n
  induction n with
  | zero => intro f c r hr; cases hr
  | succ n ih => intro f c r hr; exact evalBody_mono ih f c r hr

theorem evalFlag_le (sf : Nat) (env : Env) {n m : Nat} (hnm : n ≤ m) :
    FlagRecLe (Spec.evalFlag sf n env) (Spec.evalFlag sf m env) := by
  induction hnm with
  | refl => intro f c r hr; exact hr
  | step _ ih => intro f c r hr; exact evalFlag_succ sf env _ f c r (ih f c r hr)

/-! ### Spec level: a completed evaluation never looked at the chain -/

/-- `c'` is a sub-chain of `c`. -/
def SubChain (c' c : List String) : Prop := ∀ k, c'.contains k = true → c.contains k = true

theorem SubChain.nil (c : List String) : SubChain [] c := by
  intro k hk; simp at hk

theorem SubChain.refl (c : List String) : SubChain c c := fun _ h => h

theorem SubChain.snoc {c' c : List String} (h : SubChain c' c) (k : String) :
    SubChain (c' ++ [k]) (c ++ [k]) := by
  intro x hx
  simp only [List.contains_eq_mem, List.mem_append, List.mem_singleton, decide_eq_true_eq] at hx ⊢
  rcases hx with hx | hx
  · left; have := h x (by simpa using hx); simpa using this
  · right; exact hx

/-- The loop outcome is "completed": all met, or the first unmet one. -/
def PrereqOut.Completed : Spec.PrereqOut → Prop
  | .ok => True
  | .failed _ => True
  | _ => False

theorem prereqLoop_weaken {rec rec' : Spec.FlagRec} {env : Env} {c c' : List String}
    (hsub : SubChain c' c)
    (h : ∀ pf d, rec pf c = some (d, true) → rec' pf c' = some (d, true)) :
    ∀ ps, (Spec.prereqLoop rec env c ps).Completed →
      Spec.prereqLoop rec' env c' ps = Spec.prereqLoop rec env c ps := by
  intro ps
  induction ps with
  | nil => intro _; rfl
  | cons p ps ih =>
    intro hcomp
    simp only [Spec.prereqLoop] at hcomp ⊢
    cases hf : env.store.findFlag p.key with
    | none => rfl
    | some pf =>
      rw [hf] at hcomp
      simp only at hcomp ⊢
      cases hc : c.contains pf.key with
      | true => rw [hc] at hcomp; simp [PrereqOut.Completed] at hcomp
      | false =>
        have hc' : c'.contains pf.key = false := by
          cases hx : c'.contains pf.key with
          | false => rfl
          | true => rw [hsub _ hx] at hc; cases hc
        rw [hc] at hcomp
        rw [hc']
        simp only [Bool.false_eq_true, if_false] at hcomp ⊢
        cases hr : rec pf c with
        | none => rw [hr] at hcomp; simp [PrereqOut.Completed] at hcomp
        | some r =>
          obtain ⟨d, ok⟩ := r
          rw [hr] at hcomp
          cases ok with
          | false => simp [PrereqOut.Completed] at hcomp
          | true =>
            rw [h pf d hr]
            simp only [Bool.not_true, Bool.false_eq_true, if_false] at hcomp ⊢
            split
            · rename_i hm; rw [if_pos hm] at hcomp; exact ih hcomp
            · rfl

theorem evalBody_weaken {rec rec' : Spec.FlagRec} {seg : Spec.SegRec} {env : Env} {f : Flag}
    {c c' : List String} (hsub : SubChain c' c)
    (h : ∀ pf d, rec pf (c ++ [f.key]) = some (d, true) → rec' pf (c' ++ [f.key]) = some (d, true))
    {d : Detail} (hr : Spec.evalBody rec seg env f c = some (d, true)) :
    Spec.evalBody rec' seg env f c' = some (d, true) := by
  unfold Spec.evalBody at hr ⊢
  split
  · rename_i hon; rw [if_pos hon] at hr; exact hr
  · rename_i hon
    rw [if_neg hon] at hr
    have hcp : Spec.checkPrereqs rec' env f c' = Spec.checkPrereqs rec env f c := by
      unfold Spec.checkPrereqs at hr ⊢
      split
      · rfl
      · rename_i he
        rw [if_neg he] at hr
        apply prereqLoop_weaken (hsub.snoc f.key) h
        generalize Spec.prereqLoop rec env (c ++ [f.key]) f.prerequisites = out at hr
        cases out with
        | ok => trivial
        | failed k => trivial
        | malformed => simp at hr
        | oof => simp at hr
    rw [hcp]
    exact hr

/-- CHAIN WEAKENING: an evaluation that completed without abort gives the same result under any
sub-chain (in particular the empty one): the chain is only ever used for cycle tests, and a
completed evaluation never failed one. -/
theorem evalFlag_weaken (sf : Nat) (env : Env) :
    ∀ n f c c' d, SubChain c' c → Spec.evalFlag sf n env f c = some (d, true) →
      Spec.evalFlag sf n env f c' = some (d, true) := by
  intro n
  induction n with
  | zero => intro f c c' d _ hr; cases hr
  | succ n ih =>
    intro f c c' d hsub hr
    exact evalBody_weaken hsub (fun pf d' h' => ih pf _ _ d' (hsub.snoc f.key) h') hr

/-- Chain weakening and more fuel together. -/
theorem evalFlag_weaken_le (sf : Nat) (env : Env) {n m : Nat} (hnm : n ≤ m) {f : Flag}
    {c c' : List String} {d : Detail} (hsub : SubChain c' c)
    (hr : Spec.evalFlag sf n env f c = some (d, true)) :
    Spec.evalFlag sf m env f c' = some (d, true) :=
  evalFlag_le sf env hnm f c' _ (evalFlag_weaken sf env n f c c' d hsub hr)

end Spec

end LD

namespace LD

/-! ### The segment layer and the rule loop record nothing and look no flag up -/

/-- `b` has the same events and the same flag lookups as `a`. -/
def SameEv (a b : St) : Prop := b.events = a.events ∧ b.flagLookups = a.flagLookups

theorem SameEv.refl (a : St) : SameEv a a := ⟨rfl, rfl⟩

theorem SameEv.trans {a b c : St} (h1 : SameEv a b) (h2 : SameEv b c) : SameEv a c :=
  ⟨h2.1.trans h1.1, h2.2.trans h1.2⟩

abbrev SegRecSameEv (rec : SegRec) : Prop := ∀ seg chain st, SameEv st (rec seg chain st).2

theorem segMatchValues_sameEv {rec : SegRec} {env : Env} (hrec : SegRecSameEv rec)
    (negate : Bool) (chain : List String) :
    ∀ vs st, SameEv st (segMatchValues rec env negate chain vs st).2 := by
  intro vs
  induction vs with
  | nil => intro st; exact .refl _
  | cons v vs ih =>
    intro st
    cases v with
    | str k =>
      unfold segMatchValues
      simp only
      have h1 : SameEv st { st with segLookups := st.segLookups ++ [k] } := ⟨rfl, rfl⟩
      split
      · exact h1.trans (ih _)
      · rename_i seg _
        have h2 := hrec seg chain { st with segLookups := st.segLookups ++ [k] }
        split
        · rename_i st2 heq; rw [heq] at h2; exact h1.trans h2
        · rename_i st2 heq; rw [heq] at h2; exact (h1.trans h2).trans (ih _)
        · rename_i e st2 heq; rw [heq] at h2; exact h1.trans h2
        · rename_i st2 heq; rw [heq] at h2; exact h1.trans h2
    | null => unfold segMatchValues; exact ih st
    | bool b => unfold segMatchValues; exact ih st
    | num q => unfold segMatchValues; exact ih st
    | arr xs => unfold segMatchValues; exact ih st
    | obj kvs => unfold segMatchValues; exact ih st
    | raw w => unfold segMatchValues; exact ih st

theorem clauseMatch_sameEv {rec : SegRec} {env : Env} (hrec : SegRecSameEv rec)
    (chain : List String) (c : Clause) (st : St) :
    SameEv st (clauseMatch rec env chain c st).2 := by
  unfold clauseMatch
  split
  · exact segMatchValues_sameEv hrec _ _ _ _
  · exact .refl _

theorem clausesMatch_sameEv {rec : SegRec} {env : Env} (hrec : SegRecSameEv rec)
    (chain : List String) : ∀ cs st, SameEv st (clausesMatch rec env chain cs st).2 := by
  intro cs
  induction cs with
  | nil => intro st; exact .refl _
  | cons c cs ih =>
    intro st
    unfold clausesMatch
    have h1 := clauseMatch_sameEv (env := env) hrec chain c st
    split
    · rename_i st1 heq; rw [heq] at h1; exact h1.trans (ih _)
    · exact h1

theorem segRuleMatch_sameEv {rec : SegRec} {env : Env} (hrec : SegRecSameEv rec)
    (chain : List String) (key salt : String) (r : SegmentRule) (st : St) :
    SameEv st (segRuleMatch rec env chain key salt r st).2 := by
  unfold segRuleMatch
  have h1 := clausesMatch_sameEv (env := env) hrec chain r.clauses st
  split
  · rename_i st1 heq
    rw [heq] at h1
    split
    · exact h1
    · split
      · exact h1
      · split <;> exact h1
  · rename_i st1 heq; rw [heq] at h1; exact h1
  · exact h1

theorem segRules_sameEv {rec : SegRec} {env : Env} (hrec : SegRecSameEv rec)
    (chain : List String) (s : Segment) :
    ∀ rules st, SameEv st (segRules rec env chain s rules st).2 := by
  intro rules
  induction rules with
  | nil => intro st; exact .refl _
  | cons r rs ih =>
    intro st
    unfold segRules
    have h1 := segRuleMatch_sameEv (env := env) hrec chain s.key s.salt r st
    split
    · rename_i st1 heq; rw [heq] at h1; exact h1
    · rename_i st1 heq; rw [heq] at h1; exact h1.trans (ih _)
    · rename_i e st1 heq; rw [heq] at h1; exact h1
    · rename_i st1 heq; rw [heq] at h1; exact h1

theorem bigSegMembership_sameEv (env : Env) (key : String) (st : St) :
    SameEv st (bigSegMembership env key st).2 := by
  unfold bigSegMembership
  split
  · exact .refl _
  · split
    · exact ⟨rfl, rfl⟩
    · exact ⟨rfl, rfl⟩

theorem segBody_sameEv {rec : SegRec} {env : Env} (hrec : SegRecSameEv rec)
    (s : Segment) (chain : List String) (st : St) :
    SameEv st (segBody rec env s chain st).2 := by
  unfold segBody
  split
  · exact .refl _
  · simp only
    split
    · split
      · exact ⟨rfl, rfl⟩
      · split
        · exact .refl _
        · rename_i key _
          have h1 := bigSegMembership_sameEv env key st
          generalize bigSegMembership env key st = r at h1
          obtain ⟨m, st1⟩ := r
          simp only at h1 ⊢
          split
          · exact h1.trans (segRules_sameEv hrec _ _ _ _)
          · have h2 : SameEv st
                { st1 with memChecks := st1.memChecks ++ [(key, bigSegmentRef s)] } :=
              h1.trans ⟨rfl, rfl⟩
            split
            · exact h2
            · exact h2.trans (segRules_sameEv hrec _ _ _ _)
    · split
      · exact .refl _
      · exact segRules_sameEv hrec _ _ _ _

theorem segContains_sameEv (n : Nat) (env : Env) : SegRecSameEv (segContains n env) := by
  induction n with
  | zero => intro s chain st; exact .refl _
  | succ n ih =>
    intro s chain st
    show SameEv st (segBody (segContains n env) env s chain st).2
    exact segBody_sameEv ih s chain st

theorem logErr_sameEv (env : Env) (k : String) (e : EvalErr) (st : St) :
    SameEv st (logErr env k e st) := ⟨logErr_events .., logErr_flagLookups ..⟩

theorem getVariation_sameEv (env : Env) (f : Flag) (i : Int) (r : Reason) (st : St) :
    SameEv st (getVariation env f i r st).2 := getVariation_events env f i r st

theorem getOffValue_sameEv (env : Env) (f : Flag) (r : Reason) (st : St) :
    SameEv st (getOffValue env f r st).2 := getOffValue_events env f r st

theorem getValueForVR_sameEv (env : Env) (f : Flag) (vr : VariationOrRollout) (r : Reason)
    (st : St) : SameEv st (getValueForVR env f vr r st).2 := by
  unfold getValueForVR
  split
  · exact logErr_sameEv ..
  · exact getVariation_sameEv ..

/-- The rule loop (rule matching, segment membership, variation selection) records no event and
looks no flag up. -/
theorem rulesLoop_sameEv {seg : SegRec} {env : Env} (hseg : SegRecSameEv seg) (f : Flag) :
    ∀ rules i st, SameEv st (rulesLoop seg env f rules i st).2 := by
  intro rules
  induction rules with
  | nil =>
    intro i st
    unfold rulesLoop
    exact getValueForVR_sameEv ..
  | cons r rs ih =>
    intro i st
    unfold rulesLoop
    have h1 := clausesMatch_sameEv (env := env) hseg [] r.clauses st
    split
    · rename_i e st1 heq; rw [heq] at h1; exact h1.trans (logErr_sameEv ..)
    · rename_i st1 heq; rw [heq] at h1; exact h1
    · rename_i st1 heq; rw [heq] at h1
      exact h1.trans (getValueForVR_sameEv ..)
    · rename_i st1 heq; rw [heq] at h1; exact h1.trans (ih _ _)

/-! ### Every recorded event is a completed standalone evaluation -/

/-- `e` is the event of a listed prerequisite `p` of a flag `f` (the root flag or a flag of the
store), for the flag `pf` the store returns for the lookup key `p.key` (whose own key `pf.key`,
which the event carries, need not be `p.key`), and its detail `d` is what `pf` evaluates to on
its own (empty chain, full fuel), which is a COMPLETED evaluation (`ok = true`). -/
def EventOK (env : Env) (root : Flag) (e : Event) : Prop :=
  ∃ (f pf : Flag) (p : Prereq) (d : Detail),
    (f = root ∨ f ∈ env.store.flags.map (·.2)) ∧ p ∈ f.prerequisites ∧
    env.store.findFlag p.key = some pf ∧ e = prereqEvent f pf d ∧
    Spec.evalFlag (segFuel env.store) (flagFuel env.store) env pf [] = some (d, true)

def EvsOK (env : Env) (root : Flag) (st : St) : Prop := ∀ e ∈ st.events, EventOK env root e

theorem EvsOK.of_events_eq {env : Env} {root : Flag} {a b : St} (h : EvsOK env root a)
    (he : b.events = a.events) : EvsOK env root b := by
  intro e hm; rw [he] at hm; exact h e hm

/-- What the invariant proof assumes about the open recursion. -/
def FlagRecEv (env : Env) (root : Flag) (rec : FlagRec) : Prop :=
  ∀ pf c st, pf ∈ env.store.flags.map (·.2) → Consistent env st → EvsOK env root st →
    Consistent env (rec pf c st).2 ∧ EvsOK env root (rec pf c st).2 ∧
    ∀ d st2, rec pf c st = (.done d true, st2) →
      Spec.evalFlag (segFuel env.store) (flagFuel env.store) env pf [] = some (d, true)

theorem prereqLoop_evsOK {rec : FlagRec} {env : Env} {root f : Flag} {chain : List String}
    (hrec : FlagRecEv env root rec) (hf : f = root ∨ f ∈ env.store.flags.map (·.2)) :
    ∀ ps st, (∀ p ∈ ps, p ∈ f.prerequisites) → Consistent env st → EvsOK env root st →
      Consistent env (prereqLoop rec env f chain ps st).2 ∧
      EvsOK env root (prereqLoop rec env f chain ps st).2 := by
  intro ps
  induction ps with
  | nil => intro st _ hc he; exact ⟨hc, he⟩
  | cons p ps ih =>
    intro st hps hcons hev
    have hcons1 : Consistent env (lookedUp st p.key) := hcons.of_cache_eq rfl
    have hev1 : EvsOK env root (lookedUp st p.key) := hev.of_events_eq rfl
    cases hfind : env.store.findFlag p.key with
    | none => rw [prereqLoop_missing hfind]; exact ⟨hcons1, hev1⟩
    | some pf =>
      cases hc : chain.contains pf.key with
      | true =>
        rw [prereqLoop_cycle hfind hc]
        exact ⟨hcons1.of_cache_eq (logErr_cache ..), hev1.of_events_eq (logErr_events ..)⟩
      | false =>
        obtain ⟨h1, h2, h3⟩ := hrec pf chain (lookedUp st p.key) (findFlag_key hfind).2 hcons1 hev1
        generalize hr : rec pf chain (lookedUp st p.key) = r at h1 h2 h3
        obtain ⟨out, st2⟩ := r
        simp only at h1 h2
        cases out with
        | oof => rw [prereqLoop_oof hfind hc hr]; exact ⟨h1, h2⟩
        | done d ok =>
          cases ok with
          | false =>
            rw [prereqLoop_abort hfind hc hr]
            exact ⟨h1.of_cache_eq rfl, h2.of_events_eq rfl⟩
          | true =>
            have hs := h3 d st2 rfl
            have hcons4 : Consistent env (afterPrereq env f pf st.status d st2) := by
              apply h1.of_cache_eq
              unfold afterPrereq; split <;> rfl
            have hev4 : EvsOK env root (afterPrereq env f pf st.status d st2) := by
              cases hrc : env.opts.recorder with
              | false => exact h2.of_events_eq (afterPrereq_events_off _ _ _ _ _ hrc)
              | true =>
                intro e hm
                rw [afterPrereq_events_on _ _ _ _ _ hrc, List.mem_append, List.mem_singleton] at hm
                rcases hm with hm | hm
                · exact h2 e hm
                · exact ⟨f, pf, p, d, hf, hps p (List.mem_cons_self ..), hfind, hm, hs⟩
            rw [prereqLoop_done hfind hc hr]
            split
            · exact ih _ (fun q hq => hps q (List.mem_cons_of_mem _ hq)) hcons4 hev4
            · exact ⟨hcons4, hev4⟩

theorem evalBody_evsOK {rec : FlagRec} {seg : SegRec} {env : Env} {root f : Flag}
    {chain : List String} (hrec : FlagRecEv env root rec) (hseg : SegRecSameEv seg)
    (hf : f = root ∨ f ∈ env.store.flags.map (·.2)) (st : St) (hcons : Consistent env st)
    (hev : EvsOK env root st) : EvsOK env root (evalBody rec seg env f chain st).2 := by
  unfold evalBody
  split
  · have h := getOffValue_sameEv env f .off st
    generalize getOffValue env f .off st = x at h
    obtain ⟨d, st1⟩ := x
    exact hev.of_events_eq h.1
  · have h1 : EvsOK env root (checkPrereqs rec env f chain st).2 := by
      unfold checkPrereqs
      split
      · exact hev
      · exact (prereqLoop_evsOK hrec hf _ _ (fun _ h => h) hcons hev).2
    generalize checkPrereqs rec env f chain st = r at h1
    obtain ⟨out, st1⟩ := r
    simp only at h1
    cases out with
    | oof => exact h1
    | malformed => exact h1
    | failed k =>
      simp only
      have h := getOffValue_sameEv env f (.prereqFailed k) st1
      generalize getOffValue env f (.prereqFailed k) st1 = x at h
      obtain ⟨d, st2⟩ := x
      exact h1.of_events_eq h.1
    | ok =>
      simp only
      split
      · rename_i v _
        have h := getVariation_sameEv env f v .targetMatch st1
        generalize getVariation env f v .targetMatch st1 = x at h
        obtain ⟨d, st2⟩ := x
        exact h1.of_events_eq h.1
      · exact h1.of_events_eq (rulesLoop_sameEv hseg f _ _ _).1

/-- The invariant, for every fuel up to the one `evaluate` hands out. -/
theorem evalFlag_evsOK (env : Env) (root : Flag) :
    ∀ n, n ≤ flagFuel env.store → ∀ f chain st, (f = root ∨ f ∈ env.store.flags.map (·.2)) →
      Consistent env st → EvsOK env root st →
      EvsOK env root (evalFlag (segFuel env.store) n env f chain st).2 := by
  intro n
  induction n with
  | zero => intro _ f chain st _ _ hev; exact hev
  | succ n ih =>
    intro hn f chain st hf hcons hev
    show EvsOK env root (evalBody (evalFlag (segFuel env.store) n env)
      (segContains (segFuel env.store) env) env f chain st).2
    apply evalBody_evsOK _ (segContains_sameEv _ env) hf st hcons hev
    intro pf c st1 hpf hcons1 hev1
    obtain ⟨hr1, hr2⟩ := evalFlag_refines (segFuel env.store) n env pf c st1 hcons1
    refine ⟨hr2, ih (Nat.le_of_succ_le hn) pf c st1 (.inr hpf) hcons1 hev1, ?_⟩
    intro d st2 heq
    rw [heq] at hr1
    exact Spec.evalFlag_weaken_le _ env (Nat.le_of_succ_le hn) (Spec.SubChain.nil c) hr1.symm

/-- Every event `evaluate env root` records is `EventOK`. -/
theorem evaluate_events_ok (env : Env) (root : Flag) :
    ∀ e ∈ (evaluate env root).events, EventOK env root e := by
  unfold evaluate
  split
  · intro e he; cases he
  · have h := evalFlag_evsOK env root (flagFuel env.store) (Nat.le_refl _) root [] {} (.inl rfl)
      (Consistent.empty env) (by intro e he; cases he)
    generalize evalFlag (segFuel env.store) (flagFuel env.store) env root [] {} = r at h
    obtain ⟨out, st⟩ := r
    exact h

end LD

#print axioms LD.Spec.evalFlag_weaken_le
#print axioms LD.evaluate_events_ok
#print axioms LD.Spec.segContains_le
#print axioms LD.prereqLoop_done

/-
  LDEval.Proofs.AuditSemVer — the converse of `parse_render`: the exact set of strings accepted by
  the model of go-semver's `ParseAs(_, ParseModeAllowMissingMinorAndPatch)` (the parser behind the
  LaunchDarkly `semVerEqual` / `semVerLessThan` / `semVerGreaterThan` operators), and the value
  each of them denotes.

  `parse_render` says that every well-formed version string parses. Here: ONLY the strings of the
  grammar `M[.m[.p]][-pre.ids][+build.ids]` parse (`parseBytes_eq_some_iff`). The grammar is the
  one of `Parts.render`, but without the size bounds of `Parts.Valid`: go-semver accumulates the
  digits in a Go `int` without an overflow check, so arbitrarily long digit strings are accepted
  and their value wraps modulo 2^64 (`Parts.value`).
-/
import LDEval.Proofs.SemVer

namespace LD.SemVerM
open LD.Scan

/-! ### The grammar without size bounds, and the value stored -/

/-- The grammar alone (no size bounds): patch only if minor is present; identifiers well-formed. -/
def Parts.Syntax (p : Parts) : Prop :=
  (p.patch.isSome = true → p.minor.isSome = true) ∧
  (∀ s ∈ p.pre, IdentOK true s) ∧ (∀ s ∈ p.build, IdentOK false s)

instance (p : Parts) : Decidable p.Syntax := by unfold Parts.Syntax; infer_instance

/-- What the engine stores for a syntactically correct version: Go `int` arithmetic wraps. -/
def Parts.value (p : Parts) : SemVer :=
  { major := wrapI64 p.major,
    minor := wrapI64 ((p.minor.getD 0 : Nat) : Int),
    patch := wrapI64 ((p.patch.getD 0 : Nat) : Int),
    prerelease := str (joinDots p.pre), build := str (joinDots p.build) }

/-- A version that is `Valid` (grammar plus "every number fits a Go `int`") is in particular in
the grammar go-semver accepts. -/
theorem Parts.Valid.syntax {p : Parts} (h : p.Valid) : p.Syntax :=
  ⟨h.1, h.2.2.2.2.1, h.2.2.2.2.2⟩

/-- For a `Valid` version nothing wraps: go-semver stores exactly the numbers written in the
string (omitted minor / patch as 0). -/
theorem Parts.value_of_valid {p : Parts} (h : p.Valid) :
    p.value = { major := p.major, minor := p.minor.getD 0, patch := p.patch.getD 0,
                prerelease := str (joinDots p.pre), build := str (joinDots p.build) } := by
  obtain ⟨_, hM, hm, hq, _, _⟩ := h
  have e1 : wrapI64 (p.major : Int) = p.major := wrapI64_id (by omega) (by omega)
  have e2 : wrapI64 ((p.minor.getD 0 : Nat) : Int) = ((p.minor.getD 0 : Nat) : Int) := by
    cases hmin : p.minor with
    | none => exact wrapI64_id (by simp) (by simp)
    | some m => have := hm m hmin; exact wrapI64_id (by simp) (by simp; omega)
  have e3 : wrapI64 ((p.patch.getD 0 : Nat) : Int) = ((p.patch.getD 0 : Nat) : Int) := by
    cases hpat : p.patch with
    | none => exact wrapI64_id (by simp) (by simp)
    | some m => have := hq m hpat; exact wrapI64_id (by simp) (by simp; omega)
  simp only [Parts.value, e1, e2, e3]

/-! ### Numbers: `parsePositiveNumericString` without the size bound -/

/-- Zero is zero as a Go `int` (the accumulator's initial value, and the omitted minor / patch). -/
theorem wrapI64_zero : wrapI64 0 = 0 := by decide

/-- One step of Go's `n = n*10 + int(ch-'0')` on an already wrapped accumulator. -/
theorem wrapI64_step (a d : Int) : wrapI64 (wrapI64 a * 10 + d) = wrapI64 (a * 10 + d) := by
  unfold wrapI64; omega

/-- go-semver's digit loop on an all-digit string of any length: the result is the mathematical
value of the digits reduced to a Go `int` (two's complement, 64 bits); it never fails. -/
theorem numLoop_wrap (ds : List UInt8) (hds : ds.all isDigit = true) (acc : Nat) :
    numLoop ds (wrapI64 (acc : Int)) = some (wrapI64 ((digitsVal ds acc : Nat) : Int)) := by
  induction ds generalizing acc with
  | nil => rfl
  | cons d ds ih =>
    simp only [List.all_cons, Bool.and_eq_true] at hds
    simp only [numLoop, hds.1, Bool.not_true, Bool.false_eq_true, ↓reduceIte, digitsVal]
    have hcast : (acc : Int) * 10 + ((d.toNat - 48 : Nat) : Int) =
        ((acc * 10 + (d.toNat - 48) : Nat) : Int) := by
      simp [Int.natCast_add, Int.natCast_mul]
    rw [wrapI64_step, hcast]
    exact ih hds.2 _

/-- A digit string without a leading zero (or just `"0"`), of any length, is accepted by
`parsePositiveNumericString`, with its value wrapped to a Go `int`. -/
theorem parseNum_digits_wrap (ds : List UInt8) (hne : ds ≠ []) (hds : ds.all isDigit = true)
    (hz : ds.length > 1 → ds.head? ≠ some 48) :
    parseNum ds = some (wrapI64 ((digitsVal ds 0 : Nat) : Int)) := by
  cases ds with
  | nil => exact absurd rfl hne
  | cons d rest =>
    have h1 : (d == 48 && !rest.isEmpty) = false := by
      cases rest with
      | nil => simp
      | cons e rest =>
        have := hz (by simp)
        simp only [List.head?_cons, ne_eq, Option.some.injEq] at this
        simp [this]
    simp only [parseNum, h1, Bool.false_eq_true, ↓reduceIte]
    have := numLoop_wrap (d :: rest) hds 0
    rwa [Int.natCast_zero, wrapI64_zero] at this

/-- The decimal rendering of any natural number, however large, is accepted as a numeric
component; Go stores it modulo 2^64. -/
theorem parseNum_numBytes_wrap (n : Nat) : parseNum (numBytes n) = some (wrapI64 (n : Int)) := by
  have := parseNum_digits_wrap (numBytes n) (numBytes_ne_nil n) (numBytes_all_digit n)
    (fun hl => numBytes_head n (numBytes_length n hl))
  rw [this, digitsVal_numBytes]

/-- An ASCII digit is `'0'` plus its value. -/
theorem digit_ofNat {d : UInt8} (hd : isDigit d = true) : UInt8.ofNat (48 + (d.toNat - 48)) = d := by
  rw [isDigit_iff] at hd
  have : 48 + (d.toNat - 48) = d.toNat := by omega
  rw [this, UInt8.ofNat_toNat]

/-- Appending digits to a positive number appends them to its decimal rendering. -/
theorem numBytes_digitsVal_pos (ds : List UInt8) (hds : ds.all isDigit = true) (acc : Nat)
    (hacc : 0 < acc) : numBytes (digitsVal ds acc) = numBytes acc ++ ds := by
  induction ds generalizing acc with
  | nil => simp [digitsVal]
  | cons d ds ih =>
    simp only [List.all_cons, Bool.and_eq_true] at hds
    have hd := (isDigit_iff d).mp hds.1
    simp only [digitsVal]
    rw [ih hds.2 _ (by omega)]
    have hstep : numBytes (acc * 10 + (d.toNat - 48)) = numBytes acc ++ [d] := by
      rw [numBytes, if_neg (by omega)]
      have e1 : (acc * 10 + (d.toNat - 48)) / 10 = acc := by omega
      have e2 : (acc * 10 + (d.toNat - 48)) % 10 = d.toNat - 48 := by omega
      rw [e1, e2, digit_ofNat hds.1]
    rw [hstep, List.append_assoc]; rfl

/-- A canonical digit string (non-empty, all digits, no leading zero unless it is `"0"`) is the
decimal rendering of its value: numeric components have exactly one spelling. -/
theorem numBytes_digitsVal (ds : List UInt8) (hne : ds ≠ []) (hds : ds.all isDigit = true)
    (hz : ds.length > 1 → ds.head? ≠ some 48) : numBytes (digitsVal ds 0) = ds := by
  cases ds with
  | nil => exact absurd rfl hne
  | cons d rest =>
    have hds' := hds
    simp only [List.all_cons, Bool.and_eq_true] at hds'
    have hd := (isDigit_iff d).mp hds'.1
    simp only [digitsVal, Nat.zero_mul, Nat.zero_add]
    by_cases h48 : d.toNat = 48
    · have hrest : rest = [] := by
        cases rest with
        | nil => rfl
        | cons e rest =>
          have := hz (by simp)
          simp only [List.head?_cons, ne_eq, Option.some.injEq] at this
          exact absurd (UInt8.toNat_inj.mp (by simpa using h48)) this
      subst hrest
      simp only [digitsVal]
      rw [numBytes, if_pos (by omega), digit_ofNat hds'.1]
    · rw [numBytes_digitsVal_pos rest hds'.2 _ (by omega)]
      rw [numBytes, if_pos (by omega), digit_ofNat hds'.1]; rfl

/-- Inversion of `parsePositiveNumericString`: whatever it accepts is the decimal rendering of a
natural number `k`, and the result is `k` wrapped to a Go `int`. -/
theorem parseNum_inv (ds : List UInt8) (n : Int) (h : parseNum ds = some n) :
    ∃ k : Nat, ds = numBytes k ∧ n = wrapI64 (k : Int) := by
  cases ds with
  | nil => simp [parseNum] at h
  | cons d rest =>
    have hall : (d :: rest).all isDigit = true := by
      cases hd : (d :: rest).all isDigit with
      | true => rfl
      | false => rw [parseNum_nondigit _ hd] at h; cases h
    have hz : (d :: rest).length > 1 → (d :: rest).head? ≠ some 48 := by
      intro hl
      simp only [List.head?_cons, ne_eq, Option.some.injEq]
      rintro rfl
      cases rest with
      | nil => simp at hl
      | cons e rest => simp [parseNum] at h
    have := parseNum_digits_wrap (d :: rest) (by simp) hall hz
    rw [this] at h
    refine ⟨digitsVal (d :: rest) 0, (numBytes_digitsVal _ (by simp) hall hz).symm, ?_⟩
    exact (Option.some.inj h).symm

/-! ### Components -/

/-- `T` is empty or starts with a terminator of `q`: what is left of the input after a numeric
component. -/
def TermHead (q : UInt8 → Bool) (T : List UInt8) : Prop :=
  T = [] ∨ ∃ b r, T = b :: r ∧ q b = true

/-- A numeric component of any size, followed by the end of the input or a terminator. -/
theorem component_numBytes_wrap {p : UInt8 → Bool} (hnd : ∀ b, isDigit b = true → p b = false)
    (n : Nat) (T : List UInt8) (hT : StartsWithTerm p T) :
    component p (numBytes n ++ T) = some (wrapI64 (n : Int), (splitTerm T).1, (splitTerm T).2) := by
  have hd := numBytes_all_digit n
  have hp : ∀ b ∈ numBytes n, p b = false := fun b hb => hnd b (List.all_eq_true.mp hd b hb)
  rcases hT with rfl | ⟨t, r, rfl, ht, hta⟩
  · simp only [component, List.append_nil, readUntil_eof _ (digits_ascii hd) hp,
      parseNum_numBytes_wrap n, splitTerm]
    rfl
  · simp only [component, readUntil_term _ (digits_ascii hd) hp t r ht hta,
      parseNum_numBytes_wrap n, splitTerm]
    rfl

/-- Inversion of `requirePositiveIntegerComponent`: when it succeeds the input is the decimal
rendering of some `k` followed by nothing or by a terminator character and the rest; the scanner
reports exactly that terminator and rest, and the component's value is `k` as a Go `int`. -/
theorem component_inv (q : UInt8 → Bool) (inp : List UInt8) (n : Int) (t : Term)
    (rest : List UInt8) (h : component q inp = some (n, t, rest)) :
    ∃ (k : Nat) (T : List UInt8), n = wrapI64 (k : Int) ∧ inp = numBytes k ++ T ∧
      (t, rest) = splitTerm T ∧ TermHead q T := by
  have sh := (readUntil_shape q inp).2.2
  simp only [component] at h
  split at h
  · cases h
  · rename_i hna
    split at h
    · rename_i m hm
      obtain ⟨k, hk, hn⟩ := parseNum_inv _ _ hm
      simp only [Option.some.injEq, Prod.mk.injEq] at h
      obtain ⟨rfl, ht, hr⟩ := h
      cases hterm : (readUntil q inp).2.1 with
      | eof =>
        rw [hterm] at sh ht; simp only at sh
        refine ⟨k, [], hn, ?_, ?_, Or.inl rfl⟩
        · rw [List.append_nil, ← hk]; exact sh.2
        · rw [← ht, ← hr, sh.1]; rfl
      | nonAscii => rw [hterm] at hna; simp at hna
      | ch b =>
        rw [hterm] at sh ht; simp only at sh
        refine ⟨k, b :: rest, hn, ?_, ?_, Or.inr ⟨b, rest, rfl, sh.2.1⟩⟩
        · rw [← hk, ← hr]; exact sh.1
        · rw [← ht]; rfl
    · cases h

/-! ### Identifier sections -/

/-- Inversion of `validatePrerelease` / `validateBuildMetadata`: whatever the validation loop
accepts is a non-empty list of well-formed identifiers joined with dots. -/
theorem validateLoop_inv (nr : Bool) (fuel : Nat) (s : List UInt8)
    (h : validateLoop nr fuel s = true) :
    ∃ l : List (List UInt8), l ≠ [] ∧ (∀ x ∈ l, IdentOK nr x) ∧ s = joinDots l := by
  induction fuel generalizing s with
  | zero => simp [validateLoop] at h
  | succ fuel ih =>
    have sh := readUntil_shape isDot s
    simp only [validateLoop] at h
    split at h
    · cases h
    · rename_i hna
      split at h
      · cases h
      · rename_i hal
        have hal' : ∀ b ∈ (readUntil isDot s).1, isAlnumOrHyphen b = true := by
          simpa using hal
        have hne : (readUntil isDot s).1 ≠ [] := by
          intro e; rw [e] at hna; simp at hna
        split at h
        · cases h
        · rename_i hnum
          have hok : IdentOK nr (readUntil isDot s).1 := by
            refine ⟨hne, hal', ?_⟩
            intro h1 h2 h3 h4
            apply hnum
            simp [h1, h2, h3, h4]
          split at h
          · rename_i heof
            have heof' : (readUntil isDot s).2.1 = .eof := by simpa using heof
            have h3 := sh.2.2; rw [heof'] at h3
            exact ⟨[(readUntil isDot s).1], by simp, by simpa using hok, h3.2⟩
          · rename_i hneof
            obtain ⟨l, hl, hlok, hs⟩ := ih _ h
            cases ht : (readUntil isDot s).2.1 with
            | eof => rw [ht] at hneof; simp at hneof
            | nonAscii => rw [ht] at hna; simp at hna
            | ch t =>
              have h3 := sh.2.2; rw [ht] at h3
              obtain ⟨e, hdot, _⟩ := h3
              have ht46 : t = 46 := by simpa [isDot, c_dot] using hdot
              refine ⟨(readUntil isDot s).1 :: l, by simp, ?_, ?_⟩
              · intro x hx
                rcases List.mem_cons.mp hx with rfl | hx
                · exact hok
                · exact hlok x hx
              · cases l with
                | nil => exact absurd rfl hl
                | cons y l =>
                  rw [joinDots_cons_cons, ← hs, ← ht46]; exact e

/-! ### The tail: `[-prerelease][+build]` -/

/-- The build-metadata stage of `parseTail`, on its own. -/
def buildStage (v : SemVer) (term : Term) (rest : List UInt8) : Option SemVer :=
  if term.is '+' then
    if (readUntil noTerm rest).1.isEmpty || (readUntil noTerm rest).2.1 == .nonAscii ||
        !validateBuild (readUntil noTerm rest).1 then none
    else some { v with build := str (readUntil noTerm rest).1 }
  else some v

/-- `parseTail` is the prerelease stage followed by the build-metadata stage. -/
theorem parseTail_eq (v : SemVer) (term : Term) (rest : List UInt8) :
    parseTail v term rest =
      if term.is '-' then
        if (readUntil isPlus rest).1.isEmpty || (readUntil isPlus rest).2.1 == .nonAscii ||
            !validatePrerelease (readUntil isPlus rest).1 then none
        else buildStage { v with prerelease := str (readUntil isPlus rest).1 }
          (readUntil isPlus rest).2.1 (readUntil isPlus rest).2.2
      else buildStage v term rest := by
  by_cases h1 : term.is '-' = true
  · by_cases h2 : ((readUntil isPlus rest).1.isEmpty || (readUntil isPlus rest).2.1 == .nonAscii ||
        !validatePrerelease (readUntil isPlus rest).1) = true
    · simp only [parseTail, h1, h2, ↓reduceIte]
    · simp only [parseTail, buildStage, h1, h2, ↓reduceIte, Bool.false_eq_true]
  · simp only [parseTail, buildStage, h1, ↓reduceIte, Bool.false_eq_true]

/-- Inversion of the build-metadata stage after a `+`: the rest of the input is a non-empty
dot-joined list of well-formed build identifiers, stored verbatim. -/
theorem buildStage_plus_inv (v1 v : SemVer) (r : List UInt8)
    (h : buildStage v1 (.ch 43) r = some v) :
    ∃ build : List (List UInt8), build ≠ [] ∧ (∀ s ∈ build, IdentOK false s) ∧
      r = joinDots build ∧ v = { v1 with build := str (joinDots build) } := by
  have sh := (readUntil_shape noTerm r).2.2
  simp only [buildStage, is_43_plus, ↓reduceIte] at h
  split at h
  · cases h
  · rename_i hc
    simp only [Bool.or_eq_true, not_or, Bool.not_eq_true, Bool.not_eq_eq_eq_not,
      Bool.not_true] at hc
    obtain ⟨⟨_, hna⟩, hv⟩ := hc
    have hv' : validateLoop false ((readUntil noTerm r).1.length + 1) (readUntil noTerm r).1 = true := by
      simpa [validateBuild] using hv
    obtain ⟨l, hl, hlok, hs⟩ := validateLoop_inv _ _ _ hv'
    have hr : r = (readUntil noTerm r).1 := by
      cases ht : (readUntil noTerm r).2.1 with
      | eof => rw [ht] at sh; exact sh.2
      | nonAscii => rw [ht] at hna; simp at hna
      | ch b => rw [ht] at sh; have := sh.2.1; simp [noTerm] at this
    refine ⟨l, hl, hlok, by rw [← hs]; exact hr, ?_⟩
    rw [← hs]; exact (Option.some.inj h).symm

/-- `T` is empty or starts with `-` or `+`. -/
def TailHead (T : List UInt8) : Prop := T = [] ∨ ∃ b r, T = b :: r ∧ (b = 45 ∨ b = 43)

/-- A version without prerelease / build parts is unchanged by storing empty ones (go-semver leaves
the fields at `""` when the sections are absent). -/
theorem semver_eta (v0 : SemVer) (hp : v0.prerelease = "") (hb : v0.build = "") :
    v0 = { v0 with prerelease := str (joinDots []), build := str (joinDots []) } := by
  cases v0; simp only [joinDots, str_nil] at *; subst hp; subst hb; rfl

/-- Inversion of the prerelease / build part of the parser: if what follows the numeric components
is empty or starts with `-` or `+`, and it is accepted, then it is `[-pre.ids][+build.ids]` with
well-formed identifiers, stored verbatim (dot-joined) in the version. -/
theorem parseTail_inv (v0 v : SemVer) (hp0 : v0.prerelease = "") (hb0 : v0.build = "")
    (T : List UInt8) (hT : TailHead T)
    (h : parseTail v0 (splitTerm T).1 (splitTerm T).2 = some v) :
    ∃ pre build : List (List UInt8), (∀ s ∈ pre, IdentOK true s) ∧ (∀ s ∈ build, IdentOK false s) ∧
      T = optSection 45 pre ++ optSection 43 build ∧
      v = { v0 with prerelease := str (joinDots pre), build := str (joinDots build) } := by
  rcases hT with rfl | ⟨b, r, rfl, rfl | rfl⟩
  · -- end of input
    change parseTail v0 .eof [] = some v at h
    rw [parseTail_eq] at h
    simp only [ is_eof, Bool.false_eq_true, ↓reduceIte, buildStage] at h
    refine ⟨[], [], by simp, by simp, rfl, ?_⟩
    rw [← Option.some.inj h]; exact semver_eta v0 hp0 hb0
  · -- '-'
    have sh := (readUntil_shape isPlus r).2.2
    change parseTail v0 (.ch 45) r = some v at h
    rw [parseTail_eq] at h
    simp only [is_45_hyphen, ↓reduceIte] at h
    by_cases hc : ((readUntil isPlus r).1.isEmpty || (readUntil isPlus r).2.1 == .nonAscii ||
        !validatePrerelease (readUntil isPlus r).1) = true
    · rw [if_pos hc] at h; cases h
    · rw [if_neg hc] at h
      simp only [Bool.or_eq_true, not_or, Bool.not_eq_true, Bool.not_eq_eq_eq_not,
        Bool.not_true] at hc
      obtain ⟨⟨_, hna⟩, hv⟩ := hc
      have hv' : validateLoop true ((readUntil isPlus r).1.length + 1) (readUntil isPlus r).1 = true := by
        simpa [validatePrerelease] using hv
      obtain ⟨pre, hpre, hpreok, hs⟩ := validateLoop_inv _ _ _ hv'
      have hpe : pre.isEmpty = false := isEmpty_false hpre
      cases ht : (readUntil isPlus r).2.1 with
      | nonAscii => rw [ht] at hna; simp at hna
      | eof =>
        rw [ht] at sh h; simp only at sh
        simp only [buildStage, is_eof, Bool.false_eq_true, ↓reduceIte] at h
        refine ⟨pre, [], hpreok, by simp, ?_, ?_⟩
        · simp only [optSection, hpe, Bool.false_eq_true, ↓reduceIte, List.isEmpty_nil,
            List.append_nil]
          rw [← hs, ← sh.2]
        · rw [← Option.some.inj h, hs]
          cases v0; simp only [joinDots, str_nil] at *; subst hb0; rfl
      | ch b =>
        rw [ht] at sh h; simp only at sh
        have hb43 : b = 43 := by simpa [isPlus, c_plus] using sh.2.1
        subst hb43
        obtain ⟨build, hbuild, hbuildok, hr, hvv⟩ := buildStage_plus_inv _ _ _ h
        have hbe : build.isEmpty = false := isEmpty_false hbuild
        refine ⟨pre, build, hpreok, hbuildok, ?_, ?_⟩
        · simp only [optSection, hpe, hbe, Bool.false_eq_true, ↓reduceIte, List.cons_append]
          rw [← hs, ← hr, ← sh.1]
        · rw [hvv, hs]
  · -- '+'
    change parseTail v0 (.ch 43) r = some v at h
    rw [parseTail_eq] at h
    simp only [is_43_hyphen, Bool.false_eq_true, ↓reduceIte] at h
    obtain ⟨build, hbuild, hbuildok, hr, hvv⟩ := buildStage_plus_inv _ _ _ h
    have hbe : build.isEmpty = false := isEmpty_false hbuild
    refine ⟨[], build, by simp, hbuildok, ?_, ?_⟩
    · simp only [optSection, hbe, List.isEmpty_nil, ↓reduceIte, Bool.false_eq_true, List.nil_append]
      rw [← hr]
    · rw [hvv]
      cases v0; simp only [joinDots, str_nil] at *; subst hp0; rfl

/-! ### The parser as an exact partial function -/

/-- Every string of the grammar `M[.m[.p]][-pre.ids][+build.ids]` is accepted, whatever the size of
its numbers, and denotes `Parts.value` (numbers reduced to a Go `int`). This is `parse_render`
without the size bounds. -/
theorem parse_render_syntax (p : Parts) (h : p.Syntax) : parseBytes p.render = some p.value := by
  obtain ⟨hpm, hpre, hbuild⟩ := h
  have hT1 := tail_startsWith_dhp p.pre p.build
  have hT2 := tail_startsWith_hp p.pre p.build
  cases hmin : p.minor with
  | none =>
    have hpat : p.patch = none := by
      cases hpp : p.patch with
      | none => rfl
      | some q => rw [hpp, hmin] at hpm; exact absurd (hpm rfl) (by simp)
    simp only [Parts.render, Parts.value, hmin, hpat, dotNum, List.append_nil, List.append_assoc,
      parseBytes, component_numBytes_wrap (fun b => digit_not_dhp) p.major _ hT1, tail_not_dot,
      Bool.false_eq_true, ↓reduceIte, Option.getD_none, Int.natCast_zero, wrapI64_zero]
    exact parseTail_render _ 0 0 _ _ hpre hbuild
  | some m =>
    have hS1 : ∀ X : List UInt8, StartsWithTerm isDotOrHyphenOrPlus (46 :: X) :=
      fun X => Or.inr ⟨46, X, rfl, by decide, by decide⟩
    cases hpat : p.patch with
    | none =>
      simp only [Parts.render, Parts.value, hmin, hpat, dotNum, List.append_nil, List.append_assoc,
        List.cons_append, parseBytes,
        component_numBytes_wrap (fun b => digit_not_dhp) p.major _ (hS1 _), splitTerm_cons,
        is_46_dot, component_numBytes_wrap (fun b => digit_not_dhp) m _ hT1, tail_not_dot,
        Option.getD_none, Option.getD_some, ↓reduceIte, Bool.false_eq_true, Int.natCast_zero,
        wrapI64_zero]
      exact parseTail_render _ _ 0 _ _ hpre hbuild
    | some q =>
      simp only [Parts.render, Parts.value, hmin, hpat, dotNum, List.append_assoc,
        List.cons_append, parseBytes,
        component_numBytes_wrap (fun b => digit_not_dhp) p.major _ (hS1 _), splitTerm_cons,
        is_46_dot, component_numBytes_wrap (fun b => digit_not_dhp) m _ (hS1 _),
        component_numBytes_wrap (fun b => digit_not_hp) q _ hT2,
        Option.getD_some, ↓reduceIte]
      exact parseTail_render _ _ _ _ _ hpre hbuild

/-- If the scanner stopped at a `.`, what followed the component was `.` and the rest. -/
theorem splitTerm_is_dot {t : Term} {r T : List UInt8} (hs : (t, r) = splitTerm T)
    (hd : t.is '.' = true) : T = 46 :: r := by
  cases T with
  | nil =>
    simp only [splitTerm, Prod.mk.injEq] at hs
    rw [hs.1, is_eof] at hd; cases hd
  | cons b T =>
    simp only [splitTerm, Prod.mk.injEq] at hs
    obtain ⟨rfl, rfl⟩ := hs
    rw [is_ch, c_dot] at hd
    have : b = 46 := by simpa using hd
    rw [this]

/-- After the major or minor component the scanner stops at `.`, `-`, `+` or the end; if it was not
a `.`, the remainder is empty or starts with `-` / `+`. -/
theorem tailHead_of_dhp {t : Term} {r T : List UInt8} (hs : (t, r) = splitTerm T)
    (hT : TermHead isDotOrHyphenOrPlus T) (hd : ¬ t.is '.' = true) : TailHead T := by
  rcases hT with rfl | ⟨b, r', rfl, hb⟩
  · exact Or.inl rfl
  · right; refine ⟨b, r', rfl, ?_⟩
    simp only [splitTerm, Prod.mk.injEq] at hs
    rw [hs.1, is_ch] at hd
    simp only [isDotOrHyphenOrPlus, c_dot, c_hyphen, c_plus, Bool.or_eq_true, beq_iff_eq] at hb hd
    rcases hb with (hb | hb) | hb
    · exact absurd hb hd
    · exact Or.inl hb
    · exact Or.inr hb

/-- After the patch component the scanner stops only at `-`, `+` or the end (a further `.` is not
a terminator there, which is why `1.2.3.4` fails as a non-numeric patch). -/
theorem tailHead_of_hp {T : List UInt8} (hT : TermHead isHyphenOrPlus T) : TailHead T := by
  rcases hT with rfl | ⟨b, r', rfl, hb⟩
  · exact Or.inl rfl
  · right; refine ⟨b, r', rfl, ?_⟩
    simpa [isHyphenOrPlus, c_hyphen, c_plus] using hb

/-- Inversion of the whole parser: an accepted string is a string of the grammar, and the result
is the value of that string. (A string such as `"v1.0.0"`, `"01.0.0"`, `"1.0.0-"`, `"1.2.3.4"` or
`"1.0 "` is therefore rejected: it is not a rendering.) -/
theorem parseBytes_inv (inp : List UInt8) (v : SemVer) (h : parseBytes inp = some v) :
    ∃ p : Parts, p.Syntax ∧ inp = p.render ∧ v = p.value := by
  unfold parseBytes at h
  split at h
  · cases h
  · rename_i major t1 r1 hc1
    obtain ⟨k1, T1, hn1, hi1, hs1, hT1⟩ := component_inv _ _ _ _ _ hc1
    have hn1' := hn1.symm
    subst hi1 hn1'
    split at h
    · rename_i hdot1
      have e1 := splitTerm_is_dot hs1 hdot1
      subst e1
      split at h
      · cases h
      · rename_i minor t2 r2 hc2
        obtain ⟨k2, T2, hn2, hi2, hs2, hT2⟩ := component_inv _ _ _ _ _ hc2
        have hn2' := hn2.symm
        subst hi2 hn2'
        split at h
        · rename_i hdot2
          have e2 := splitTerm_is_dot hs2 hdot2
          subst e2
          split at h
          · cases h
          · rename_i patch t3 r3 hc3
            obtain ⟨k3, T3, hn3, hi3, hs3, hT3⟩ := component_inv _ _ _ _ _ hc3
            have hn3' := hn3.symm
            subst hi3 hn3'
            have e31 : t3 = (splitTerm T3).1 := congrArg Prod.fst hs3
            have e32 : r3 = (splitTerm T3).2 := congrArg Prod.snd hs3
            subst e31 e32
            obtain ⟨pre, build, hpre, hbuild, rfl, rfl⟩ :=
              parseTail_inv _ _ rfl rfl T3 (tailHead_of_hp hT3) h
            refine ⟨{ major := k1, minor := some k2, patch := some k3, pre := pre, build := build },
              ⟨fun _ => rfl, hpre, hbuild⟩, ?_, rfl⟩
            simp only [Parts.render, dotNum, List.append_assoc, List.cons_append]
        · rename_i hdot2
          have e21 : t2 = (splitTerm T2).1 := congrArg Prod.fst hs2
          have e22 : r2 = (splitTerm T2).2 := congrArg Prod.snd hs2
          have hTH := tailHead_of_dhp hs2 hT2 hdot2
          subst e21 e22
          obtain ⟨pre, build, hpre, hbuild, rfl, rfl⟩ := parseTail_inv _ _ rfl rfl T2 hTH h
          refine ⟨{ major := k1, minor := some k2, patch := none, pre := pre, build := build },
            ⟨fun hh => (by cases hh), hpre, hbuild⟩, ?_, ?_⟩
          · simp only [Parts.render, dotNum, List.append_assoc, List.cons_append, List.append_nil]
          · simp only [Parts.value, Option.getD_none, Option.getD_some, Int.natCast_zero,
              wrapI64_zero]
    · rename_i hdot1
      have e11 : t1 = (splitTerm T1).1 := congrArg Prod.fst hs1
      have e12 : r1 = (splitTerm T1).2 := congrArg Prod.snd hs1
      have hTH := tailHead_of_dhp hs1 hT1 hdot1
      subst e11 e12
      obtain ⟨pre, build, hpre, hbuild, rfl, rfl⟩ := parseTail_inv _ _ rfl rfl T1 hTH h
      refine ⟨{ major := k1, minor := none, patch := none, pre := pre, build := build },
        ⟨fun hh => (by cases hh), hpre, hbuild⟩, ?_, ?_⟩
      · simp only [Parts.render, dotNum, List.append_assoc, List.append_nil]
      · simp only [Parts.value, Option.getD_none, Int.natCast_zero, wrapI64_zero]

/-- **The parser as an exact partial function.** go-semver's
`ParseAs(s, ParseModeAllowMissingMinorAndPatch)` (as the LaunchDarkly semVer operators call it)
returns `v` exactly when `s` is `M[.m[.p]][-pre.ids][+build.ids]` with canonical decimal numbers
of any length and well-formed identifiers, and then `v` holds the numbers reduced to a Go `int`
(omitted minor / patch as 0) and the prerelease / build strings verbatim. Nothing else parses. -/
theorem parseBytes_eq_some_iff (inp : List UInt8) (v : SemVer) :
    parseBytes inp = some v ↔ ∃ p : Parts, p.Syntax ∧ inp = p.render ∧ v = p.value := by
  constructor
  · exact parseBytes_inv inp v
  · rintro ⟨p, hp, rfl, rfl⟩; exact parse_render_syntax p hp

/-- The set of accepted strings, declaratively: the renderings of the grammar. -/
def Accepted (inp : List UInt8) : Prop := ∃ p : Parts, p.Syntax ∧ inp = p.render

/-- A string is in the grammar exactly when go-semver's parser returns a version for it. -/
theorem accepted_iff (inp : List UInt8) : Accepted inp ↔ (parseBytes inp).isSome = true := by
  constructor
  · rintro ⟨p, hp, rfl⟩; rw [parse_render_syntax p hp]; rfl
  · intro h
    obtain ⟨v, hv⟩ := Option.isSome_iff_exists.mp h
    obtain ⟨p, hp, e, _⟩ := parseBytes_inv inp v hv
    exact ⟨p, hp, e⟩

instance (inp : List UInt8) : Decidable (Accepted inp) :=
  decidable_of_iff _ (accepted_iff inp).symm

/-- A string outside the grammar is rejected by go-semver (the semVer operators then do not
match). -/
theorem not_accepted_rejected (inp : List UInt8) (h : ¬ Accepted inp) : parseBytes inp = none := by
  cases hp : parseBytes inp with
  | none => rfl
  | some v => exact absurd ((accepted_iff inp).mpr (by rw [hp]; rfl)) h

/-! ### Short strings: nothing wraps -/

/-- A number is below 10 to the number of its decimal digits. -/
theorem numBytes_lt_pow (n : Nat) : n < 10 ^ (numBytes n).length := by
  induction n using Nat.strongRecOn with
  | _ n ih =>
    rw [numBytes]; split
    · simp only [List.length_cons, List.length_nil]; omega
    · have := ih (n / 10) (by omega)
      simp only [List.length_append, List.length_cons, List.length_nil, Nat.pow_succ]
      omega

/-- A number written with at most 18 digits fits a Go `int`. -/
theorem numBytes_short (n : Nat) (h : (numBytes n).length ≤ 18) : n < 2 ^ 63 := by
  have h1 := numBytes_lt_pow n
  have h2 : 10 ^ (numBytes n).length ≤ 10 ^ 18 := Nat.pow_le_pow_right (by omega) h
  have h3 : 10 ^ 18 < 2 ^ 63 := by decide
  omega

/-- For strings of at most 18 bytes no numeric component can overflow a Go `int`, so the accepted
strings are exactly the renderings of `Valid` versions and the parser stores the numbers as
written: on short strings go-semver agrees with Semantic Versioning 2.0.0 (plus the optional
minor / patch) without any caveat about wrap-around. -/
theorem parseBytes_eq_some_iff_valid (inp : List UInt8) (v : SemVer) (hlen : inp.length ≤ 18) :
    parseBytes inp = some v ↔
      ∃ p : Parts, p.Valid ∧ inp = p.render ∧
        v = { major := p.major, minor := p.minor.getD 0, patch := p.patch.getD 0,
              prerelease := str (joinDots p.pre), build := str (joinDots p.build) } := by
  constructor
  · intro h
    obtain ⟨p, hp, hi, hv⟩ := parseBytes_inv inp v h
    subst hi
    have hM : (numBytes p.major).length ≤ 18 := by
      simp only [Parts.render, List.length_append] at hlen; omega
    have hm : ∀ n, p.minor = some n → (numBytes n).length ≤ 18 := by
      intro n hn
      simp only [Parts.render, hn, dotNum, List.length_append, List.length_cons] at hlen; omega
    have hq : ∀ n, p.patch = some n → (numBytes n).length ≤ 18 := by
      intro n hn
      simp only [Parts.render, hn, dotNum, List.length_append, List.length_cons] at hlen; omega
    have hvalid : p.Valid :=
      ⟨hp.1, numBytes_short _ hM, fun n hn => numBytes_short _ (hm n hn),
        fun n hn => numBytes_short _ (hq n hn), hp.2.1, hp.2.2⟩
    exact ⟨p, hvalid, rfl, by rw [hv, Parts.value_of_valid hvalid]⟩
  · rintro ⟨p, hp, rfl, rfl⟩; exact parse_render p hp

/-! ### Non-vacuity -/

namespace Examples

example : ¬ Accepted (b "v1.0.0") := by decide +kernel
example : ¬ Accepted (b "01.0.0") := by decide +kernel
example : ¬ Accepted (b "1.0.0-") := by decide +kernel
example : ¬ Accepted (b "1.2.3.4") := by decide +kernel
example : ¬ Accepted (b "1.0.0 ") := by decide +kernel
example : ¬ Accepted (b "") := by decide +kernel
example : Accepted (b "1.2-rc.1+x") := by decide +kernel
example : Accepted (b "1.2.3") := by decide +kernel

/-- The grammar witness of an accepted string, explicitly. -/
example : b "1.2-rc.1+x" =
    Parts.render { major := 1, minor := some 2, pre := [b "rc", b "1"], build := [b "x"] } ∧
    Parts.Syntax { major := 1, minor := some 2, pre := [b "rc", b "1"], build := [b "x"] } := by
  have h1 : numBytes 1 = [49] := by rw [numBytes]; rfl
  have h2 : numBytes 2 = [50] := by rw [numBytes]; rfl
  refine ⟨?_, by decide⟩
  simp only [Parts.render, dotNum, h1, h2]
  decide +kernel

/-- The bounded statement ("accepted ⇒ rendering of a `Valid` version") is false: 2^64 parses, to
major 0 — Go's `int` accumulator wraps silently. -/
theorem two_pow_64_parses : parseBytes (b "18446744073709551616") = some { major := 0 } := by
  decide +kernel

/-- … and 2^64 is not the rendering of any `Valid` version: a `Valid` rendering parses to its own
major, here 0, whose rendering starts with `0`, not `1`. -/
theorem two_pow_64_not_valid : ¬ ∃ p : Parts, p.Valid ∧ b "18446744073709551616" = p.render := by
  rintro ⟨p, hp, e⟩
  have h1 := parse_render p hp
  rw [← e, two_pow_64_parses] at h1
  have h2 : (0 : Int) = (p.major : Int) := congrArg SemVer.major (Option.some.inj h1)
  have h3 : p.major = 0 := by omega
  have hnb : numBytes 0 = [48] := by rw [numBytes]; rfl
  have h4 := congrArg List.head? e
  have h5 : (b "18446744073709551616").head? = some 49 := by decide
  rw [h5, Parts.render, h3, hnb] at h4
  simp at h4

/-- The same string through the exact characterisation: it is in the grammar, with major 2^64,
whose stored value is 0. -/
example : Accepted (b "18446744073709551616") := by decide +kernel
example : (Parts.value { major := 18446744073709551616 }).major = 0 := by decide

end Examples

end LD.SemVerM

#print axioms LD.SemVerM.parseBytes_eq_some_iff
#print axioms LD.SemVerM.parse_render_syntax
#print axioms LD.SemVerM.parseBytes_inv
#print axioms LD.SemVerM.accepted_iff
#print axioms LD.SemVerM.not_accepted_rejected
#print axioms LD.SemVerM.parseBytes_eq_some_iff_valid
#print axioms LD.SemVerM.Parts.value_of_valid
#print axioms LD.SemVerM.Examples.two_pow_64_parses
#print axioms LD.SemVerM.Examples.two_pow_64_not_valid

/-
  LDEval.Proofs.AuditClean — theorem audit, C01 #3: clean data never yields an error.

  `C01.error_kinds` only says which error kinds can occur.  Here: if the flag and the store are
  CLEAN — every variation index in range, no empty rollout, every attribute reference well-formed, and
  the prerequisite / segment reference graphs descend along a rank function (acyclicity) — then for a
  valid context `evaluate` does not return an ERROR reason at all, nested evaluations are never
  aborted, and no recorded prerequisite event carries an ERROR reason.

  Proved on the stateless specification and transported with `evaluate_detail_spec` /
  `evaluate_events_ok`.  Missing prerequisite flags and missing segments are NOT errors in the Go code
  (PREREQUISITE_FAILED / the segment is skipped), so "valid references" is not needed as a hypothesis.
-/
import LDEval.Proofs.AuditGuard

namespace LD

/-! ### Clean data -/

/-- A variation index that `getVariation` accepts (evaluator.go:248). -/
def InRange (f : Flag) (v : Int) : Prop := 0 ≤ v ∧ v < f.variations.length

/-- A bucket-by reference that `computeBucketValue` cannot reject: it is not consulted (experiment, or
undefined ⇒ bucket by key) or it is a valid reference. -/
def CleanBucketBy (isExp : Bool) (attr : Ref) : Prop :=
  isExp = true ∨ attr.isDefined = false ∨ attr.errOf = none

/-- A clause whose attribute reference cannot raise an error: a segment-match clause (its attribute
is not read) or a defined, valid reference. -/
def CleanClause (c : Clause) : Prop :=
  (c.op == "segmentMatch") = true ∨ (c.attr.isDefined = true ∧ c.attr.errOf = none)

/-- A fixed variation in range, or a non-empty rollout all of whose buckets are in range and whose
bucket-by reference is usable. -/
def CleanVR (f : Flag) (vr : VariationOrRollout) : Prop :=
  match vr.variation with
  | some v => InRange f v
  | none =>
    vr.rollout.variations ≠ [] ∧ (∀ wv ∈ vr.rollout.variations, InRange f wv.variation) ∧
      CleanBucketBy vr.rollout.isExperiment vr.rollout.bucketBy

/-- Everything in the flag itself that can produce MALFORMED_FLAG is in order. -/
structure CleanFlag (f : Flag) : Prop where
  off : ∀ v, f.offVariation = some v → InRange f v
  targets : ∀ t ∈ f.targets, InRange f t.variation
  contextTargets : ∀ t ∈ f.contextTargets, InRange f t.variation
  rules : ∀ r ∈ f.rules, CleanVR f r.vr ∧ ∀ c ∈ r.clauses, CleanClause c
  fallthrough : CleanVR f f.fallthrough

structure CleanSegment (s : Segment) : Prop where
  rules : ∀ r ∈ s.rules, (∀ c ∈ r.clauses, CleanClause c) ∧
    (r.weight.isSome = true → CleanBucketBy false r.bucketBy)

/-- Acyclicity of the prerequisite graph below `f`, as a rank that strictly decreases along every
prerequisite edge that the store resolves (ranks are attached to the flags' OWN keys, which is what the
cycle check compares). -/
def PrereqsDescend (s : Store) (rank : String → Nat) (f : Flag) : Prop :=
  ∀ p ∈ f.prerequisites, ∀ pf, s.findFlag p.key = some pf → rank pf.key < rank f.key

/-- Acyclicity of the segment graph below `sg`: the rank strictly decreases along every
segment-match reference that the store resolves. -/
def SegRefsDescend (s : Store) (rank : String → Nat) (sg : Segment) : Prop :=
  ∀ r ∈ sg.rules, ∀ c ∈ r.clauses, (c.op == "segmentMatch") = true →
    ∀ k, J.str k ∈ c.values → ∀ sg', s.findSegment k = some sg' → rank sg'.key < rank sg.key

/-- Every stored flag and segment is clean and both reference graphs are acyclic. -/
structure CleanStore (s : Store) (frank srank : String → Nat) : Prop where
  flags : ∀ pf ∈ s.flags.map (·.2), CleanFlag pf ∧ PrereqsDescend s frank pf
  segments : ∀ sg ∈ s.segments.map (·.2), CleanSegment sg ∧ SegRefsDescend s srank sg

/-! ### Bucketing and clauses -/

theorem bucketInput_err_cond {sec ctx isExp seed ck key attr salt} {e : EvalErr}
    (h : bucketInput sec ctx isExp seed ck key attr salt = .error e) :
    (!(isExp || !attr.isDefined) && attr.errOf.isSome) = true := by
  unfold bucketInput at h
  simp only at h
  split at h
  · rename_i hc; exact hc
  · split at h
    · cases h
    · split at h
      · cases h
      · split at h
        · split at h <;> cases h
        · cases h

theorem computeBucket_clean {sec ctx isExp seed ck key attr salt} (hc : CleanBucketBy isExp attr)
    (e : EvalErr) : computeBucket sec ctx isExp seed ck key attr salt ≠ .error e := by
  intro h
  unfold computeBucket at h
  split at h
  · rename_i e' he
    have hcond := bucketInput_err_cond he
    rcases hc with hc | hc | hc <;> simp [hc] at hcond
  · cases h
  · cases h

theorem clauseMatchNoSeg_clean {rx ctx c} (hc : c.attr.isDefined = true ∧ c.attr.errOf = none)
    (e : EvalErr) : clauseMatchNoSeg rx ctx c ≠ .error e := by
  intro h
  unfold clauseMatchNoSeg at h
  simp only [hc.1, hc.2, Bool.not_true, Bool.false_eq_true, if_false, Option.isSome_none] at h
  split at h
  · cases h
  · split at h
    · cases h
    · split at h
      · cases h
      · cases h
      · split at h <;> cases h

/-! ### Segments -/

/-- Clause `c` cannot raise an error at this chain: its reference is clean and the nested evaluation
of every segment it resolves does not raise one. -/
def ClauseOK (rec : Spec.SegRec) (env : Env) (chain : List String) (c : Clause) : Prop :=
  CleanClause c ∧ ((c.op == "segmentMatch") = true → ∀ k, J.str k ∈ c.values →
    ∀ sg, env.store.findSegment k = some sg → ∀ e, rec sg chain ≠ .err e)

theorem spec_segMatchValues_noerr {rec : Spec.SegRec} {env : Env} {negate : Bool}
    {chain : List String} :
    ∀ vs : List J, (∀ k, J.str k ∈ vs → ∀ sg, env.store.findSegment k = some sg →
        ∀ e, rec sg chain ≠ .err e) →
      ∀ e, Spec.segMatchValues rec env negate chain vs ≠ .err e := by
  intro vs
  induction vs with
  | nil => intro _ e h; simp [Spec.segMatchValues] at h
  | cons v vs ih =>
    intro hrec e h
    have ih' := ih (fun k hk => hrec k (List.mem_cons_of_mem _ hk))
    cases v with
    | str k =>
      unfold Spec.segMatchValues at h
      split at h
      · exact ih' e h
      · rename_i sg hfind
        have hsg := hrec k List.mem_cons_self sg hfind
        split at h
        · cases h
        · exact ih' e h
        · rename_i e1 heq; exact hsg e1 heq
        · cases h
    | null => unfold Spec.segMatchValues at h; exact ih' e h
    | bool b => unfold Spec.segMatchValues at h; exact ih' e h
    | num q => unfold Spec.segMatchValues at h; exact ih' e h
    | arr xs => unfold Spec.segMatchValues at h; exact ih' e h
    | obj kvs => unfold Spec.segMatchValues at h; exact ih' e h
    | raw w => unfold Spec.segMatchValues at h; exact ih' e h

theorem spec_clauseMatch_noerr {rec : Spec.SegRec} {env : Env} {chain : List String} {c : Clause}
    (hc : ClauseOK rec env chain c) (e : EvalErr) : Spec.clauseMatch rec env chain c ≠ .err e := by
  intro h
  unfold Spec.clauseMatch at h
  split at h
  · rename_i hop
    exact spec_segMatchValues_noerr c.values (hc.2 hop) e h
  · rename_i hop
    rcases hc.1 with hs | hattr
    · exact hop hs
    · cases hx : clauseMatchNoSeg env.rx env.ctx c with
      | ok b => rw [hx] at h; simp [Res.ofExcept] at h
      | error e' => exact clauseMatchNoSeg_clean hattr e' hx

theorem spec_clausesMatch_noerr {rec : Spec.SegRec} {env : Env} {chain : List String} :
    ∀ cs : List Clause, (∀ c ∈ cs, ClauseOK rec env chain c) →
      ∀ e, Spec.clausesMatch rec env chain cs ≠ .err e := by
  intro cs
  induction cs with
  | nil => intro _ e h; simp [Spec.clausesMatch] at h
  | cons c cs ih =>
    intro hcs e h
    unfold Spec.clausesMatch at h
    split at h
    · exact ih (fun c' hc' => hcs c' (List.mem_cons_of_mem _ hc')) e h
    · exact spec_clauseMatch_noerr (hcs c List.mem_cons_self) e h

theorem spec_segRuleMatch_noerr {rec : Spec.SegRec} {env : Env} {chain : List String}
    {key salt : String} {r : SegmentRule} (hcs : ∀ c ∈ r.clauses, ClauseOK rec env chain c)
    (hb : r.weight.isSome = true → CleanBucketBy false r.bucketBy) (e : EvalErr) :
    Spec.segRuleMatch rec env chain key salt r ≠ .err e := by
  intro h
  unfold Spec.segRuleMatch at h
  split at h
  · split at h
    · cases h
    · rename_i w hw
      split at h
      · rename_i e' he
        exact computeBucket_clean (hb (by rw [hw]; rfl)) e' he
      · split at h <;> cases h
  · cases h
  · exact spec_clausesMatch_noerr r.clauses hcs e h

theorem spec_segRules_noerr {rec : Spec.SegRec} {env : Env} {chain : List String} {s : Segment} :
    ∀ rs : List SegmentRule,
      (∀ r ∈ rs, (∀ c ∈ r.clauses, ClauseOK rec env chain c) ∧
        (r.weight.isSome = true → CleanBucketBy false r.bucketBy)) →
      ∀ e, Spec.segRules rec env chain s rs ≠ .err e := by
  intro rs
  induction rs with
  | nil => intro _ e h; simp [Spec.segRules] at h
  | cons r rs ih =>
    intro hrs e h
    unfold Spec.segRules at h
    split at h
    · cases h
    · exact ih (fun r' hr' => hrs r' (List.mem_cons_of_mem _ hr')) e h
    · rename_i e1 heq
      exact spec_segRuleMatch_noerr (hrs r List.mem_cons_self).1 (hrs r List.mem_cons_self).2 e1 heq
    · cases h

theorem spec_segBody_noerr {rec : Spec.SegRec} {env : Env} {s : Segment} {chain : List String}
    (hnotin : s.key ∉ chain)
    (hrules : ∀ r ∈ s.rules, (∀ c ∈ r.clauses, ClauseOK rec env (chain ++ [s.key]) c) ∧
      (r.weight.isSome = true → CleanBucketBy false r.bucketBy)) (e : EvalErr) :
    Spec.segBody rec env s chain ≠ .err e := by
  intro h
  unfold Spec.segBody at h
  split at h
  · rename_i hc; exact hnotin (by simpa using hc)
  · simp only at h
    split at h
    · split at h
      · cases h
      · split at h
        · cases h
        · split at h
          · exact spec_segRules_noerr s.rules hrules e h
          · split at h
            · cases h
            · exact spec_segRules_noerr s.rules hrules e h
    · split at h
      · cases h
      · exact spec_segRules_noerr s.rules hrules e h

/-- A stored segment of a clean store never raises an error (in particular no cycle error),
whatever the fuel, at every chain whose keys all rank above it. -/
theorem spec_segContains_clean {env : Env} {srank : String → Nat}
    (hst : ∀ sg ∈ env.store.segments.map (·.2), CleanSegment sg ∧ SegRefsDescend env.store srank sg) :
    ∀ (n : Nat) (s : Segment) (chain : List String), s ∈ env.store.segments.map (·.2) →
      (∀ k ∈ chain, srank s.key < srank k) → ∀ e, Spec.segContains n env s chain ≠ .err e := by
  intro n
  induction n with
  | zero => intro s chain _ _ e h; simp [Spec.segContains] at h
  | succ n ih =>
    intro s chain hs hchain e
    show Spec.segBody (Spec.segContains n env) env s chain ≠ .err e
    obtain ⟨hclean, hdesc⟩ := hst s hs
    apply spec_segBody_noerr
    · intro hin; exact Nat.lt_irrefl _ (hchain _ hin)
    · intro r hr
      refine ⟨fun c hc => ⟨(hclean.rules r hr).1 c hc, ?_⟩, (hclean.rules r hr).2⟩
      intro hop k hk sg' hfind
      apply ih sg' _ (findSegment_key hfind).2
      intro k' hk'
      have hlt := hdesc r hr c hc hop k hk sg' hfind
      rcases List.mem_append.mp hk' with h' | h'
      · exact Nat.lt_trans hlt (hchain _ h')
      · simp only [List.mem_singleton] at h'; rw [h']; exact hlt

/-- At flag level (empty segment chain) every clean clause is fine. -/
theorem clauseOK_flag_level {env : Env} {srank : String → Nat}
    (hst : ∀ sg ∈ env.store.segments.map (·.2), CleanSegment sg ∧ SegRefsDescend env.store srank sg)
    (n : Nat) {c : Clause} (hc : CleanClause c) : ClauseOK (Spec.segContains n env) env [] c :=
  ⟨hc, fun _ _ _ sg hfind =>
    spec_segContains_clean hst n sg [] (findSegment_key hfind).2 (by simp)⟩

/-! ### Flags -/

theorem spec_getVariation_inRange {f : Flag} {i : Int} (h : InRange f i) (r : Reason) :
    (Spec.getVariation f i r).reason = r ∧ (Spec.getVariation f i r).index = some i := by
  unfold Spec.getVariation
  have : ¬ (i < 0 ∨ i ≥ f.variations.length) := by
    have h1 := h.1; have h2 := h.2; omega
  rw [if_neg this]
  exact ⟨rfl, rfl⟩

theorem spec_getOffValue_clean {f : Flag} (hoff : ∀ v, f.offVariation = some v → InRange f v)
    (r : Reason) : (Spec.getOffValue f r).reason = r := by
  unfold Spec.getOffValue
  split
  · rfl
  · rename_i i hi
    exact (spec_getVariation_inRange (hoff i hi) r).1

theorem toExperiment_kind (r : Reason) : r.toExperiment.kind = r.kind := by
  unfold Reason.toExperiment
  split <;> rfl

theorem variationOrRollout_clean {env : Env} {f : Flag} {vr : VariationOrRollout} {key salt : String}
    (hvr : CleanVR f vr) :
    ∃ i x, variationOrRollout env vr key salt = .ok (i, x) ∧ InRange f i := by
  cases hres : variationOrRollout env vr key salt with
  | error e =>
    exfalso
    unfold CleanVR at hvr
    unfold variationOrRollout at hres
    split at hres
    · cases hres
    · rename_i hv
      rw [hv] at hvr
      obtain ⟨hne, _, hbb⟩ := hvr
      split at hres
      · rename_i hl; exact hne (List.getLast?_eq_none_iff.mp hl)
      · simp only at hres
        split at hres
        · rename_i e' he; exact computeBucket_clean hbb e' he
        · split at hres <;> cases hres
  | ok p =>
    obtain ⟨i, x⟩ := p
    refine ⟨i, x, rfl, ?_⟩
    unfold CleanVR at hvr
    rcases variationOrRollout_ok hres with ⟨hv, _⟩ | ⟨hv, wv, hwv, hi⟩
    · rw [hv] at hvr; exact hvr
    · rw [hv] at hvr; rw [← hi]; exact hvr.2.1 wv hwv

theorem spec_getValueForVR_clean (env : Env) {f : Flag} {vr : VariationOrRollout}
    (hvr : CleanVR f vr) (r : Reason) :
    (Spec.getValueForVR env f vr r).reason.kind = r.kind := by
  obtain ⟨i, x, hres, hin⟩ := variationOrRollout_clean (env := env) (key := f.key) (salt := f.salt) hvr
  unfold Spec.getValueForVR
  rw [hres]
  simp only
  rw [(spec_getVariation_inRange hin _).1]
  split
  · exact toExperiment_kind r
  · rfl

theorem targetMatch_variation {ctx : Ctx} {t : Target} {v : Int} (h : targetMatch ctx t = some v) :
    v = t.variation := by
  unfold targetMatch at h
  split at h
  · split at h
    · simp only [Option.some.injEq] at h; exact h.symm
    · cases h
  · cases h

/-- A target match returns the variation of a listed target (user targets or context targets). -/
theorem anyTargetMatch_mem_clean {ctx : Ctx} {f : Flag} {v : Int} (h : anyTargetMatch ctx f = some v) :
    (∃ t ∈ f.targets, t.variation = v) ∨ (∃ t ∈ f.contextTargets, t.variation = v) := by
  unfold anyTargetMatch at h
  split at h
  · obtain ⟨t, ht, htm⟩ := List.exists_of_findSome?_eq_some h
    exact Or.inl ⟨t, ht, (targetMatch_variation htm).symm⟩
  · obtain ⟨t, ht, htm⟩ := List.exists_of_findSome?_eq_some h
    split at htm
    · split at htm
      · rename_i t1 hfind
        exact Or.inl ⟨t1, List.mem_of_find?_eq_some hfind, (targetMatch_variation htm).symm⟩
      · cases htm
    · exact Or.inr ⟨t, ht, (targetMatch_variation htm).symm⟩

/-- The recursion never aborts (`ok = false`) on the flags the loop can reach. -/
theorem spec_prereqLoop_clean {rec : Spec.FlagRec} {env : Env} {chain : List String} :
    ∀ ps : List Prereq,
      (∀ p ∈ ps, ∀ pf, env.store.findFlag p.key = some pf →
        pf.key ∉ chain ∧ ∀ d ok, rec pf chain = some (d, ok) → ok = true) →
      Spec.prereqLoop rec env chain ps ≠ .malformed := by
  intro ps
  induction ps with
  | nil => intro _ h; simp [Spec.prereqLoop] at h
  | cons p ps ih =>
    intro hps h
    unfold Spec.prereqLoop at h
    split at h
    · cases h
    · rename_i pf hfind
      obtain ⟨hnotin, hok⟩ := hps p List.mem_cons_self pf hfind
      split at h
      · rename_i hc; exact hnotin (by simpa using hc)
      · split at h
        · cases h
        · rename_i d ok heq
          have := hok d ok heq
          subst this
          simp only [Bool.not_true, Bool.false_eq_true, if_false] at h
          split at h
          · exact ih (fun p' hp' => hps p' (List.mem_cons_of_mem _ hp')) h
          · cases h

theorem spec_rulesLoop_clean {seg : Spec.SegRec} {env : Env} {f : Flag} (hfall : CleanVR f f.fallthrough) :
    ∀ (rs : List FlagRule) (i : Nat),
      (∀ r ∈ rs, CleanVR f r.vr ∧ ∀ c ∈ r.clauses, ClauseOK seg env [] c) →
      ∀ {d ok}, Spec.rulesLoop seg env f rs i = some (d, ok) →
        ok = true ∧ d.reason.kind ≠ .error := by
  intro rs
  induction rs with
  | nil =>
    intro i _ d ok h
    simp only [Spec.rulesLoop, Option.some.injEq, Prod.mk.injEq] at h
    refine ⟨h.2.symm, ?_⟩
    rw [← h.1, spec_getValueForVR_clean env hfall]
    simp [Reason.fallthrough]
  | cons r rs ih =>
    intro i hrs d ok h
    have hr := hrs r List.mem_cons_self
    unfold Spec.rulesLoop at h
    split at h
    · rename_i e heq
      exact absurd heq (spec_clausesMatch_noerr r.clauses hr.2 e)
    · cases h
    · simp only [Option.some.injEq, Prod.mk.injEq] at h
      refine ⟨h.2.symm, ?_⟩
      rw [← h.1, spec_getValueForVR_clean env hr.1]
      simp [Reason.ruleMatch]
    · exact ih (i + 1) (fun r' hr' => hrs r' (List.mem_cons_of_mem _ hr')) h

theorem spec_evalBody_clean {rec : Spec.FlagRec} {env : Env} {srank : String → Nat} {f : Flag}
    {chain : List String} (n : Nat)
    (hseg : ∀ sg ∈ env.store.segments.map (·.2), CleanSegment sg ∧ SegRefsDescend env.store srank sg)
    (hf : CleanFlag f)
    (hrec : ∀ p ∈ f.prerequisites, ∀ pf, env.store.findFlag p.key = some pf →
      pf.key ∉ chain ++ [f.key] ∧ ∀ d ok, rec pf (chain ++ [f.key]) = some (d, ok) → ok = true)
    {d : Detail} {ok : Bool}
    (h : Spec.evalBody rec (Spec.segContains n env) env f chain = some (d, ok)) :
    ok = true ∧ d.reason.kind ≠ .error := by
  unfold Spec.evalBody at h
  split at h
  · simp only [Option.some.injEq, Prod.mk.injEq] at h
    refine ⟨h.2.symm, ?_⟩
    rw [← h.1, spec_getOffValue_clean hf.off]; simp [Reason.off]
  · split at h
    · cases h
    · rename_i hm
      exfalso
      unfold Spec.checkPrereqs at hm
      split at hm
      · cases hm
      · exact spec_prereqLoop_clean f.prerequisites hrec hm
    · simp only [Option.some.injEq, Prod.mk.injEq] at h
      refine ⟨h.2.symm, ?_⟩
      rw [← h.1, spec_getOffValue_clean hf.off]; simp [Reason.prereqFailed]
    · split at h
      · rename_i v hv
        simp only [Option.some.injEq, Prod.mk.injEq] at h
        refine ⟨h.2.symm, ?_⟩
        have hin : InRange f v := by
          rcases anyTargetMatch_mem_clean hv with ⟨t, ht, rfl⟩ | ⟨t, ht, rfl⟩
          · exact hf.targets t ht
          · exact hf.contextTargets t ht
        rw [← h.1, (spec_getVariation_inRange hin _).1]; simp [Reason.targetMatch]
      · refine spec_rulesLoop_clean hf.fallthrough f.rules 0 ?_ h
        intro r hr
        exact ⟨(hf.rules r hr).1, fun c hc => clauseOK_flag_level hseg n ((hf.rules r hr).2 c hc)⟩

/-- Clean flag, clean store, acyclic graphs: the specification never aborts and never returns an
ERROR reason — at every nesting depth, for every fuel. -/
theorem spec_evalFlag_clean {env : Env} {frank srank : String → Nat}
    (hst : CleanStore env.store frank srank) (sf : Nat) :
    ∀ (n : Nat) (f : Flag) (chain : List String), CleanFlag f → PrereqsDescend env.store frank f →
      (∀ k ∈ chain, frank f.key < frank k) →
      ∀ d ok, Spec.evalFlag sf n env f chain = some (d, ok) → ok = true ∧ d.reason.kind ≠ .error := by
  intro n
  induction n with
  | zero => intro f chain _ _ _ d ok h; simp [Spec.evalFlag] at h
  | succ n ih =>
    intro f chain hf hdesc hchain d ok h
    refine spec_evalBody_clean sf hst.segments hf ?_ h
    intro p hp pf hfind
    have hlt := hdesc p hp pf hfind
    have hpf := hst.flags pf (findFlag_key hfind).2
    have hchain' : ∀ k ∈ chain ++ [f.key], frank pf.key < frank k := by
      intro k hk
      rcases List.mem_append.mp hk with h' | h'
      · exact Nat.lt_trans hlt (hchain _ h')
      · simp only [List.mem_singleton] at h'; rw [h']; exact hlt
    refine ⟨fun hin => Nat.lt_irrefl _ (hchain' _ hin), fun d' ok' h' => ?_⟩
    exact (ih pf (chain ++ [f.key]) hpf.1 hpf.2 hchain' d' ok' h').1

/-! ### `evaluate` -/

/-- C01 #3 for the entry point. -/
theorem evaluate_clean_no_error (env : Env) (f : Flag) (frank srank : String → Nat)
    (hctx : env.ctx ≠ .invalid) (hst : CleanStore env.store frank srank) (hf : CleanFlag f)
    (hdesc : PrereqsDescend env.store frank f) :
    (evaluate env f).result.detail.reason.kind ≠ .error ∧
    (evaluate env f).result.detail.reason.errorKind = none := by
  obtain ⟨d, ok, hs⟩ := evaluate_spec_exists env f hctx
  obtain ⟨-, -, -, h1, -, -, -, h5, -⟩ := evaluate_detail_spec env f hctx d ok hs
  have hk := (spec_evalFlag_clean hst _ _ f [] hf hdesc (by simp) d ok hs).2
  have hcoh := evaluate_reason_coherent env f
  have hne : (evaluate env f).result.detail.reason.kind ≠ .error := by rw [h1]; exact hk
  refine ⟨hne, ?_⟩
  cases he : (evaluate env f).result.detail.reason.errorKind with
  | none => rfl
  | some k => exact absurd (hcoh.error.mpr (by rw [he]; rfl)) hne

/-- … and no prerequisite event of such an evaluation carries an ERROR result either. -/
theorem evaluate_clean_events_no_error (env : Env) (f : Flag) (frank srank : String → Nat)
    (hst : CleanStore env.store frank srank) :
    ∀ e ∈ (evaluate env f).events, e.result.detail.reason.kind ≠ .error := by
  intro e he
  obtain ⟨f', pf, p, d, -, -, hfind, rfl, hs⟩ := evaluate_events_ok env f e he
  have hpf := hst.flags pf (findFlag_key hfind).2
  exact (spec_evalFlag_clean hst _ _ pf [] hpf.1 hpf.2 (by simp) d true hs).2

end LD

#print axioms LD.evaluate_clean_no_error
#print axioms LD.evaluate_clean_events_no_error

/-
  The logger option is observationally irrelevant (C19): two environments that agree on everything
  except `opts.logger` produce, from states that agree on everything except `logs`, the same
  outcome and states that again agree on everything except `logs`.

  This is a relational ("simulation") pass over every function of `Model/Eval.lean`, in the same
  shape as `Proofs/Refine.lean`.
-/
import LDEval.Proofs.StatusLog
import LDEval.Proofs.Refine

namespace LD

/-- `a` is `b` with some other log. -/
def Sim (a b : St) : Prop := ∃ L, a = { b with logs := L }

theorem Sim.refl (a : St) : Sim a a := ⟨a.logs, rfl⟩

theorem Sim.noLogs {a b : St} (h : Sim a b) : a.noLogs = b.noLogs := by
  obtain ⟨L, rfl⟩ := h; rfl

section
variable {e₁ e₂ : Env} (h : EnvAgree e₁ e₂)
include h

/-! ### Segments -/

def SegSim (rec₁ rec₂ : SegRec) : Prop :=
  ∀ seg chain a b, Sim a b →
    (rec₁ seg chain a).1 = (rec₂ seg chain b).1 ∧ Sim (rec₁ seg chain a).2 (rec₂ seg chain b).2

omit h in
theorem sim_segLookup {a b : St} (hs : Sim a b) (k : String) :
    Sim { a with segLookups := a.segLookups ++ [k] } { b with segLookups := b.segLookups ++ [k] } := by
  obtain ⟨L, rfl⟩ := hs; exact ⟨L, rfl⟩

theorem segMatchValues_sim {rec₁ rec₂ : SegRec} (hrec : SegSim rec₁ rec₂) (negate : Bool)
    (chain : List String) :
    ∀ vs a b, Sim a b →
      (segMatchValues rec₁ e₁ negate chain vs a).1 = (segMatchValues rec₂ e₂ negate chain vs b).1 ∧
      Sim (segMatchValues rec₁ e₁ negate chain vs a).2 (segMatchValues rec₂ e₂ negate chain vs b).2 := by
  intro vs
  induction vs with
  | nil => intro a b hs; exact ⟨rfl, hs⟩
  | cons v vs ih =>
    intro a b hs
    cases v with
    | str k =>
      simp only [segMatchValues, h.store]
      have hs1 := sim_segLookup hs k
      cases hf : e₂.store.findSegment k with
      | none => exact ih _ _ hs1
      | some seg =>
        simp only []
        have hr := hrec seg chain _ _ hs1
        revert hr
        generalize rec₁ seg chain _ = r1
        generalize rec₂ seg chain _ = r2
        obtain ⟨res1, a2⟩ := r1
        obtain ⟨res2, b2⟩ := r2
        rintro ⟨hr1, hr2⟩
        simp only at hr1 hr2
        subst hr1
        cases res1 with
        | ok bb => cases bb with
          | true => exact ⟨rfl, hr2⟩
          | false => exact ih _ _ hr2
        | err e => exact ⟨rfl, hr2⟩
        | oof => exact ⟨rfl, hr2⟩
    | null => simp only [segMatchValues]; exact ih a b hs
    | bool x => simp only [segMatchValues]; exact ih a b hs
    | num q => simp only [segMatchValues]; exact ih a b hs
    | arr xs => simp only [segMatchValues]; exact ih a b hs
    | obj kvs => simp only [segMatchValues]; exact ih a b hs
    | raw w => simp only [segMatchValues]; exact ih a b hs

theorem clauseMatch_sim {rec₁ rec₂ : SegRec} (hrec : SegSim rec₁ rec₂) (chain : List String)
    (c : Clause) (a b : St) (hs : Sim a b) :
    (clauseMatch rec₁ e₁ chain c a).1 = (clauseMatch rec₂ e₂ chain c b).1 ∧
      Sim (clauseMatch rec₁ e₁ chain c a).2 (clauseMatch rec₂ e₂ chain c b).2 := by
  unfold clauseMatch
  cases hop : c.op == "segmentMatch" with
  | true =>
    simp only [↓reduceIte]
    exact segMatchValues_sim h hrec _ _ _ _ _ hs
  | false =>
    simp only [Bool.false_eq_true, ↓reduceIte, h.rx, h.ctx]
    exact ⟨trivial, hs⟩

theorem clausesMatch_sim {rec₁ rec₂ : SegRec} (hrec : SegSim rec₁ rec₂) (chain : List String) :
    ∀ cs a b, Sim a b →
      (clausesMatch rec₁ e₁ chain cs a).1 = (clausesMatch rec₂ e₂ chain cs b).1 ∧
      Sim (clausesMatch rec₁ e₁ chain cs a).2 (clausesMatch rec₂ e₂ chain cs b).2 := by
  intro cs
  induction cs with
  | nil => intro a b hs; exact ⟨rfl, hs⟩
  | cons c cs ih =>
    intro a b hs
    simp only [clausesMatch]
    have hr := clauseMatch_sim h hrec chain c a b hs
    revert hr
    generalize clauseMatch rec₁ e₁ chain c a = r1
    generalize clauseMatch rec₂ e₂ chain c b = r2
    obtain ⟨res1, a2⟩ := r1
    obtain ⟨res2, b2⟩ := r2
    rintro ⟨hr1, hr2⟩
    simp only at hr1 hr2
    subst hr1
    cases res1 with
    | ok bb => cases bb with
      | true => exact ih _ _ hr2
      | false => exact ⟨rfl, hr2⟩
    | err e => exact ⟨rfl, hr2⟩
    | oof => exact ⟨rfl, hr2⟩

theorem segRuleMatch_sim {rec₁ rec₂ : SegRec} (hrec : SegSim rec₁ rec₂) (chain : List String)
    (key salt : String) (r : SegmentRule) (a b : St) (hs : Sim a b) :
    (segRuleMatch rec₁ e₁ chain key salt r a).1 = (segRuleMatch rec₂ e₂ chain key salt r b).1 ∧
      Sim (segRuleMatch rec₁ e₁ chain key salt r a).2 (segRuleMatch rec₂ e₂ chain key salt r b).2 := by
  unfold segRuleMatch
  have hr := clausesMatch_sim h hrec chain r.clauses a b hs
  revert hr
  generalize clausesMatch rec₁ e₁ chain r.clauses a = r1
  generalize clausesMatch rec₂ e₂ chain r.clauses b = r2
  obtain ⟨res1, a2⟩ := r1
  obtain ⟨res2, b2⟩ := r2
  rintro ⟨hr1, hr2⟩
  simp only at hr1 hr2
  subst hr1
  cases res1 with
  | ok bb => cases bb with
    | true =>
      simp only [h.secondaryKey, h.ctx]
      cases r.weight with
      | none => exact ⟨rfl, hr2⟩
      | some w =>
        simp only []
        generalize computeBucket e₂.opts.secondaryKey e₂.ctx false none r.rolloutContextKind key
          r.bucketBy salt = cb
        cases cb with
        | error e => exact ⟨rfl, hr2⟩
        | ok bf =>
          obtain ⟨bucket, fail⟩ := bf
          simp only []
          split <;> exact ⟨rfl, hr2⟩
    | false => exact ⟨rfl, hr2⟩
  | err e => exact ⟨rfl, hr2⟩
  | oof => exact ⟨rfl, hr2⟩

theorem segRules_sim {rec₁ rec₂ : SegRec} (hrec : SegSim rec₁ rec₂) (chain : List String)
    (s : Segment) :
    ∀ rs a b, Sim a b →
      (segRules rec₁ e₁ chain s rs a).1 = (segRules rec₂ e₂ chain s rs b).1 ∧
      Sim (segRules rec₁ e₁ chain s rs a).2 (segRules rec₂ e₂ chain s rs b).2 := by
  intro rs
  induction rs with
  | nil => intro a b hs; exact ⟨rfl, hs⟩
  | cons r rs ih =>
    intro a b hs
    simp only [segRules]
    have hr := segRuleMatch_sim h hrec chain s.key s.salt r a b hs
    revert hr
    generalize segRuleMatch rec₁ e₁ chain s.key s.salt r a = r1
    generalize segRuleMatch rec₂ e₂ chain s.key s.salt r b = r2
    obtain ⟨res1, a2⟩ := r1
    obtain ⟨res2, b2⟩ := r2
    rintro ⟨hr1, hr2⟩
    simp only at hr1 hr2
    subst hr1
    cases res1 with
    | ok bb => cases bb with
      | true => exact ⟨rfl, hr2⟩
      | false => exact ih _ _ hr2
    | err e => exact ⟨rfl, hr2⟩
    | oof => exact ⟨rfl, hr2⟩

theorem bigSegMembership_sim (key : String) (a b : St) (hs : Sim a b) :
    (bigSegMembership e₁ key a).1 = (bigSegMembership e₂ key b).1 ∧
      Sim (bigSegMembership e₁ key a).2 (bigSegMembership e₂ key b).2 := by
  obtain ⟨L, rfl⟩ := hs
  unfold bigSegMembership
  simp only [h.bs]
  cases b.cache.lookup key with
  | some m => exact ⟨rfl, L, rfl⟩
  | none =>
    simp only []
    cases e₂.bs with
    | none => exact ⟨rfl, L, rfl⟩
    | some p => exact ⟨rfl, L, rfl⟩

theorem segBody_sim {rec₁ rec₂ : SegRec} (hrec : SegSim rec₁ rec₂) (s : Segment)
    (chain : List String) (a b : St) (hs : Sim a b) :
    (segBody rec₁ e₁ s chain a).1 = (segBody rec₂ e₂ s chain b).1 ∧
      Sim (segBody rec₁ e₁ s chain a).2 (segBody rec₂ e₂ s chain b).2 := by
  unfold segBody
  simp only [h.ctx]
  split
  · exact ⟨rfl, hs⟩
  · split
    · cases s.generation with
      | none =>
        refine ⟨rfl, ?_⟩
        obtain ⟨L, rfl⟩ := hs; exact ⟨L, rfl⟩
      | some g =>
        simp only []
        cases e₂.ctx.keyByKind s.unboundedContextKind with
        | none => exact ⟨rfl, hs⟩
        | some key =>
          simp only []
          have hr := bigSegMembership_sim h key a b hs
          revert hr
          generalize bigSegMembership e₁ key a = r1
          generalize bigSegMembership e₂ key b = r2
          obtain ⟨m1, a1⟩ := r1
          obtain ⟨m2, b1⟩ := r2
          rintro ⟨hr1, hr2⟩
          simp only at hr1 hr2
          subst hr1
          cases m1 with
          | none => exact segRules_sim h hrec _ s _ _ _ hr2
          | some tbl =>
            simp only []
            have hr3 : Sim { a1 with memChecks := a1.memChecks ++ [(key, bigSegmentRef s)] }
                { b1 with memChecks := b1.memChecks ++ [(key, bigSegmentRef s)] } := by
              obtain ⟨L, rfl⟩ := hr2; exact ⟨L, rfl⟩
            cases tbl.lookup (bigSegmentRef s) with
            | some x => exact ⟨rfl, hr3⟩
            | none => exact segRules_sim h hrec _ s _ _ _ hr3
    · cases segLists e₂.ctx s with
      | some x => exact ⟨rfl, hs⟩
      | none => exact segRules_sim h hrec _ s _ _ _ hs

theorem segContains_sim (n : Nat) : SegSim (segContains n e₁) (segContains n e₂) := by
  induction n with
  | zero => intro s chain a b hs; exact ⟨rfl, hs⟩
  | succ n ih => intro s chain a b hs; exact segBody_sim h ih s chain a b hs

/-! ### Flags -/

omit h in
theorem logErr_sim (k : String) (e : EvalErr) {a b : St} (hs : Sim a b) :
    Sim (logErr e₁ k e a) (logErr e₂ k e b) := by
  obtain ⟨L, rfl⟩ := hs
  unfold logErr
  split <;> split <;> exact ⟨_, rfl⟩

omit h in
theorem getVariation_sim (f : Flag) (i : Int) (r : Reason) {a b : St} (hs : Sim a b) :
    (getVariation e₁ f i r a).1 = (getVariation e₂ f i r b).1 ∧
      Sim (getVariation e₁ f i r a).2 (getVariation e₂ f i r b).2 := by
  unfold getVariation
  split
  · exact ⟨rfl, logErr_sim _ _ hs⟩
  · exact ⟨rfl, hs⟩

omit h in
theorem getOffValue_sim (f : Flag) (r : Reason) {a b : St} (hs : Sim a b) :
    (getOffValue e₁ f r a).1 = (getOffValue e₂ f r b).1 ∧
      Sim (getOffValue e₁ f r a).2 (getOffValue e₂ f r b).2 := by
  unfold getOffValue
  cases f.offVariation with
  | none => exact ⟨rfl, hs⟩
  | some i => exact getVariation_sim f i r hs

theorem getValueForVR_sim (f : Flag) (vr : VariationOrRollout) (r : Reason) {a b : St}
    (hs : Sim a b) :
    (getValueForVR e₁ f vr r a).1 = (getValueForVR e₂ f vr r b).1 ∧
      Sim (getValueForVR e₁ f vr r a).2 (getValueForVR e₂ f vr r b).2 := by
  unfold getValueForVR
  rw [variationOrRollout_congr h]
  cases variationOrRollout e₂ vr f.key f.salt with
  | error e => exact ⟨rfl, logErr_sim _ _ hs⟩
  | ok ie => obtain ⟨i, inExp⟩ := ie; exact getVariation_sim f i _ hs

def FlagSim (rec₁ rec₂ : FlagRec) : Prop :=
  ∀ f chain a b, Sim a b →
    (rec₁ f chain a).1 = (rec₂ f chain b).1 ∧ Sim (rec₁ f chain a).2 (rec₂ f chain b).2

theorem prereqLoop_sim (hrc : e₁.opts.recorder = e₂.opts.recorder) {rec₁ rec₂ : FlagRec}
    (hrec : FlagSim rec₁ rec₂) (f : Flag) (chain : List String) :
    ∀ ps a b, Sim a b →
      (prereqLoop rec₁ e₁ f chain ps a).1 = (prereqLoop rec₂ e₂ f chain ps b).1 ∧
      Sim (prereqLoop rec₁ e₁ f chain ps a).2 (prereqLoop rec₂ e₂ f chain ps b).2 := by
  intro ps
  induction ps with
  | nil => intro a b hs; exact ⟨rfl, hs⟩
  | cons p ps ih =>
    intro a b hs
    simp only [prereqLoop, h.store, hrc]
    have hs1 : Sim { a with flagLookups := a.flagLookups ++ [p.key] }
        { b with flagLookups := b.flagLookups ++ [p.key] } := by
      obtain ⟨L, rfl⟩ := hs; exact ⟨L, rfl⟩
    have hst : a.status = b.status := by obtain ⟨L, rfl⟩ := hs; rfl
    cases e₂.store.findFlag p.key with
    | none => exact ⟨rfl, hs1⟩
    | some pf =>
      simp only []
      cases chain.contains pf.key with
      | true => exact ⟨rfl, logErr_sim _ _ hs1⟩
      | false =>
        simp only [Bool.false_eq_true, ↓reduceIte]
        have hr := hrec pf chain _ _ hs1
        revert hr
        generalize rec₁ pf chain _ = r1
        generalize rec₂ pf chain _ = r2
        obtain ⟨res1, a2⟩ := r1
        obtain ⟨res2, b2⟩ := r2
        rintro ⟨hr1, hr2⟩
        simp only at hr1 hr2
        subst hr1
        obtain ⟨L2, rfl⟩ := hr2
        cases res1 with
        | oof => exact ⟨rfl, L2, rfl⟩
        | done d ok =>
          simp only [hst]
          cases ok with
          | false => exact ⟨rfl, L2, rfl⟩
          | true =>
            generalize (pf.on && d.index.isSome && d.index == some p.variation) = pok
            cases e₂.opts.recorder <;> cases pok <;>
              simp only [Bool.not_true, Bool.not_false, Bool.false_eq_true, ↓reduceIte] <;>
              first
                | exact ⟨rfl, L2, rfl⟩
                | exact ⟨trivial, L2, rfl⟩
                | exact ih _ _ ⟨L2, rfl⟩

theorem checkPrereqs_sim (hrc : e₁.opts.recorder = e₂.opts.recorder) {rec₁ rec₂ : FlagRec}
    (hrec : FlagSim rec₁ rec₂) (f : Flag) (chain : List String) (a b : St) (hs : Sim a b) :
    (checkPrereqs rec₁ e₁ f chain a).1 = (checkPrereqs rec₂ e₂ f chain b).1 ∧
      Sim (checkPrereqs rec₁ e₁ f chain a).2 (checkPrereqs rec₂ e₂ f chain b).2 := by
  unfold checkPrereqs
  cases f.prerequisites.isEmpty with
  | true => exact ⟨rfl, hs⟩
  | false => exact prereqLoop_sim h hrc hrec f _ _ a b hs

theorem rulesLoop_sim {seg₁ seg₂ : SegRec} (hseg : SegSim seg₁ seg₂) (f : Flag) :
    ∀ rs i a b, Sim a b →
      (rulesLoop seg₁ e₁ f rs i a).1 = (rulesLoop seg₂ e₂ f rs i b).1 ∧
      Sim (rulesLoop seg₁ e₁ f rs i a).2 (rulesLoop seg₂ e₂ f rs i b).2 := by
  intro rs
  induction rs with
  | nil =>
    intro i a b hs
    simp only [rulesLoop]
    obtain ⟨g1, g2⟩ := getValueForVR_sim h f f.fallthrough .fallthrough hs
    exact ⟨by rw [g1], g2⟩
  | cons r rs ih =>
    intro i a b hs
    simp only [rulesLoop]
    have hr := clausesMatch_sim h hseg [] r.clauses a b hs
    revert hr
    generalize clausesMatch seg₁ e₁ [] r.clauses a = r1
    generalize clausesMatch seg₂ e₂ [] r.clauses b = r2
    obtain ⟨res1, a2⟩ := r1
    obtain ⟨res2, b2⟩ := r2
    rintro ⟨hr1, hr2⟩
    simp only at hr1 hr2
    subst hr1
    cases res1 with
    | ok bb => cases bb with
      | true =>
        simp only []
        obtain ⟨g1, g2⟩ := getValueForVR_sim h f r.vr (.ruleMatch i r.id) hr2
        exact ⟨by rw [g1], g2⟩
      | false => exact ih _ _ _ hr2
    | err e => exact ⟨rfl, logErr_sim _ _ hr2⟩
    | oof => exact ⟨rfl, hr2⟩

theorem evalBody_sim (hrc : e₁.opts.recorder = e₂.opts.recorder) {rec₁ rec₂ : FlagRec}
    {seg₁ seg₂ : SegRec} (hrec : FlagSim rec₁ rec₂) (hseg : SegSim seg₁ seg₂)
    (f : Flag) (chain : List String) (a b : St) (hs : Sim a b) :
    (evalBody rec₁ seg₁ e₁ f chain a).1 = (evalBody rec₂ seg₂ e₂ f chain b).1 ∧
      Sim (evalBody rec₁ seg₁ e₁ f chain a).2 (evalBody rec₂ seg₂ e₂ f chain b).2 := by
  unfold evalBody
  simp only [h.ctx]
  cases f.on with
  | false =>
    simp only [Bool.not_false, ↓reduceIte]
    obtain ⟨g1, g2⟩ := getOffValue_sim (e₁ := e₁) (e₂ := e₂) f .off hs
    exact ⟨by rw [g1], g2⟩
  | true =>
    simp only [Bool.not_true, Bool.false_eq_true, ↓reduceIte]
    have hr := checkPrereqs_sim h hrc hrec f chain a b hs
    revert hr
    generalize checkPrereqs rec₁ e₁ f chain a = r1
    generalize checkPrereqs rec₂ e₂ f chain b = r2
    obtain ⟨res1, a2⟩ := r1
    obtain ⟨res2, b2⟩ := r2
    rintro ⟨hr1, hr2⟩
    simp only at hr1 hr2
    subst hr1
    cases res1 with
    | oof => exact ⟨rfl, hr2⟩
    | malformed => exact ⟨rfl, hr2⟩
    | failed k =>
      simp only []
      obtain ⟨g1, g2⟩ := getOffValue_sim (e₁ := e₁) (e₂ := e₂) f (.prereqFailed k) hr2
      exact ⟨by rw [g1], g2⟩
    | ok =>
      simp only []
      cases anyTargetMatch e₂.ctx f with
      | some v =>
        simp only []
        obtain ⟨g1, g2⟩ := getVariation_sim (e₁ := e₁) (e₂ := e₂) f v .targetMatch hr2
        exact ⟨by rw [g1], g2⟩
      | none => exact rulesLoop_sim h hseg f _ _ _ _ hr2

theorem evalFlag_sim (hrc : e₁.opts.recorder = e₂.opts.recorder) (sf n : Nat) :
    FlagSim (evalFlag sf n e₁) (evalFlag sf n e₂) := by
  induction n with
  | zero => intro f chain a b hs; exact ⟨rfl, hs⟩
  | succ n ih =>
    intro f chain a b hs
    exact evalBody_sim h hrc ih (segContains_sim h sf) f chain a b hs

/-- Two environments that differ at most in the logger option give the same observation, except
for the log. -/
theorem evaluate_sim (hrc : e₁.opts.recorder = e₂.opts.recorder) (f : Flag) :
    (evaluate e₁ f).outcome = (evaluate e₂ f).outcome ∧
    (evaluate e₁ f).result = (evaluate e₂ f).result ∧
    (evaluate e₁ f).events = (evaluate e₂ f).events ∧
    (evaluate e₁ f).flagLookups = (evaluate e₂ f).flagLookups ∧
    (evaluate e₁ f).segLookups = (evaluate e₂ f).segLookups ∧
    (evaluate e₁ f).bsQueries = (evaluate e₂ f).bsQueries ∧
    (evaluate e₁ f).memChecks = (evaluate e₂ f).memChecks := by
  by_cases hctx : e₂.ctx = .invalid
  · have hctx1 : e₁.ctx = .invalid := h.ctx.trans hctx
    simp only [evaluate, hctx, hctx1, and_self]
  · have hctx1 : e₁.ctx ≠ .invalid := fun hc => hctx (h.ctx.symm.trans hc)
    rw [evaluate_eq_finish e₁ f hctx1, evaluate_eq_finish e₂ f hctx, h.store]
    obtain ⟨h1, h2⟩ := evalFlag_sim h hrc (segFuel e₂.store) (flagFuel e₂.store) f [] {} {}
      (Sim.refl _)
    rw [h1]
    exact finish_congr f _ h2.noLogs

end

end LD

#print axioms LD.evalFlag_sim
#print axioms LD.evaluate_sim

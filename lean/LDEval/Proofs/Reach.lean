/-
  Frame / invariant framework for the evaluator's explicit state.

  Every state change the evaluator makes is a finite sequence of a few primitive updates (`Prim`);
  `Reach` is the reflexive-transitive closure.  Every function of `Model/Eval.lean` is shown to
  relate its input state to its output state by `Reach`, so any invariant preserved by the
  primitives is preserved by a whole evaluation (`Reach.invariant`).
-/
import LDEval.Model.Eval

namespace LD

/-- One primitive state update of the evaluator. -/
inductive Prim (env : Env) : St → St → Prop
  | segLookup (st : St) (k : String) :
      Prim env st { st with segLookups := st.segLookups ++ [k] }
  | flagLookup (st : St) (k : String) :
      Prim env st { st with flagLookups := st.flagLookups ++ [k] }
  /-- the NOT_CONFIGURED assignment (no provider / no generation) -/
  | setNotConfigured (st : St) :
      Prim env st { st with status := some .notConfigured }
  /-- the status merge after a prerequisite: `old` is the status of the enclosing scope -/
  | mergeStatus (st : St) (old : Option Status) :
      Prim env st { st with status := updateStatus old st.status }
  | query (st : St) (key : String) (p : BSProvider) :
      env.bs = some p → st.cache.lookup key = none →
      Prim env st { st with
        bsQueries := st.bsQueries ++ [key]
        cache := st.cache ++ [(key, (p.get key).membership)]
        status := updateStatus st.status (p.get key).status }
  | memCheck (st : St) (key ref : String) :
      Prim env st { st with memChecks := st.memChecks ++ [(key, ref)] }
  | log (st : St) (l : LogLine) : env.opts.logger = true →
      Prim env st { st with logs := st.logs ++ [l] }
  | event (st : St) (e : Event) : env.opts.recorder = true →
      Prim env st { st with events := st.events ++ [e] }

/-- Reflexive-transitive closure of `Prim`. -/
inductive Reach (env : Env) : St → St → Prop
  | refl (st : St) : Reach env st st
  | step {a b c : St} : Reach env a b → Prim env b c → Reach env a c

theorem Reach.single {env : Env} {a b : St} (h : Prim env a b) : Reach env a b :=
  .step (.refl a) h

theorem Reach.trans {env : Env} {a b c : St} (h1 : Reach env a b) (h2 : Reach env b c) :
    Reach env a c := by
  induction h2 with
  | refl => exact h1
  | step _ hp ih => exact .step ih hp

theorem Reach.head {env : Env} {a b c : St} (h1 : Prim env a b) (h2 : Reach env b c) :
    Reach env a c :=
  (Reach.single h1).trans h2

/-- Generic invariant principle. -/
theorem Reach.invariant {env : Env} {I : St → Prop} (hI : ∀ a b, Prim env a b → I a → I b)
    {a b : St} (h : Reach env a b) (ha : I a) : I b := by
  induction h with
  | refl => exact ha
  | step _ hp ih => exact hI _ _ hp ih

/-- Relational form of the invariant principle. -/
theorem Reach.invariant₂ {env : Env} {R : St → St → Prop} (hrefl : ∀ a, R a a)
    (hstep : ∀ a b c, R a b → Prim env b c → R a c) {a b : St} (h : Reach env a b) : R a b := by
  induction h with
  | refl => exact hrefl _
  | step _ hp ih => exact hstep _ _ _ ih hp

/-! ### evaluator_segment.go only makes primitive updates -/

/-- What the parametric lemmas assume about the open recursion. -/
abbrev SegRecReach (env : Env) (rec : SegRec) : Prop :=
  ∀ seg chain st, Reach env st (rec seg chain st).2

theorem segMatchValues_reach {rec : SegRec} {env : Env} (hrec : SegRecReach env rec)
    (negate : Bool) (chain : List String) :
    ∀ vs st, Reach env st (segMatchValues rec env negate chain vs st).2 := by
  intro vs
  induction vs with
  | nil => intro st; exact .refl _
  | cons v vs ih =>
    intro st
    cases v with
    | str k =>
      unfold segMatchValues
      simp only
      have h1 : Reach env st { st with segLookups := st.segLookups ++ [k] } :=
        .single (.segLookup st k)
      split
      · exact h1.trans (ih _)
      · rename_i seg _
        have h2 := hrec seg chain { st with segLookups := st.segLookups ++ [k] }
        split
        · rename_i st2 heq; rw [heq] at h2; exact h1.trans h2
        · rename_i st2 heq; rw [heq] at h2; exact (h1.trans h2).trans (ih _)
        · rename_i e st2 heq; rw [heq] at h2; exact h1.trans h2
        · rename_i st2 heq; rw [heq] at h2; exact h1.trans h2
    | null => unfold segMatchValues; exact ih st
    | bool b => unfold segMatchValues; exact ih st
    | num q => unfold segMatchValues; exact ih st
    | arr xs => unfold segMatchValues; exact ih st
    | obj kvs => unfold segMatchValues; exact ih st
    | raw w => unfold segMatchValues; exact ih st

theorem clauseMatch_reach {rec : SegRec} {env : Env} (hrec : SegRecReach env rec)
    (chain : List String) (c : Clause) (st : St) :
    Reach env st (clauseMatch rec env chain c st).2 := by
  unfold clauseMatch
  split
  · exact segMatchValues_reach hrec _ _ _ _
  · exact .refl _

theorem clausesMatch_reach {rec : SegRec} {env : Env} (hrec : SegRecReach env rec)
    (chain : List String) : ∀ cs st, Reach env st (clausesMatch rec env chain cs st).2 := by
  intro cs
  induction cs with
  | nil => intro st; exact .refl _
  | cons c cs ih =>
    intro st
    unfold clausesMatch
    have h1 := clauseMatch_reach hrec chain c st
    split
    · rename_i st1 heq; rw [heq] at h1; exact h1.trans (ih _)
    · exact h1

theorem segRuleMatch_reach {rec : SegRec} {env : Env} (hrec : SegRecReach env rec)
    (chain : List String) (key salt : String) (r : SegmentRule) (st : St) :
    Reach env st (segRuleMatch rec env chain key salt r st).2 := by
  unfold segRuleMatch
  have h1 := clausesMatch_reach hrec chain r.clauses st
  split
  · rename_i st1 heq
    rw [heq] at h1
    split
    · exact h1
    · split
      · exact h1
      · split <;> exact h1
  · rename_i st1 heq; rw [heq] at h1; exact h1
  · exact h1

theorem segRules_reach {rec : SegRec} {env : Env} (hrec : SegRecReach env rec)
    (chain : List String) (s : Segment) :
    ∀ rules st, Reach env st (segRules rec env chain s rules st).2 := by
  intro rules
  induction rules with
  | nil => intro st; exact .refl _
  | cons r rs ih =>
    intro st
    unfold segRules
    have h1 := segRuleMatch_reach hrec chain s.key s.salt r st
    split
    · rename_i st1 heq; rw [heq] at h1; exact h1
    · rename_i st1 heq; rw [heq] at h1; exact h1.trans (ih _)
    · rename_i e st1 heq; rw [heq] at h1; exact h1
    · rename_i st1 heq; rw [heq] at h1; exact h1

theorem bigSegMembership_reach (env : Env) (key : String) (st : St) :
    Reach env st (bigSegMembership env key st).2 := by
  unfold bigSegMembership
  split
  · exact .refl _
  · rename_i hnone
    split
    · exact .single (.setNotConfigured st)
    · rename_i p hp
      exact .single (.query st key p hp hnone)

theorem segBody_reach {rec : SegRec} {env : Env} (hrec : SegRecReach env rec)
    (s : Segment) (chain : List String) (st : St) :
    Reach env st (segBody rec env s chain st).2 := by
  unfold segBody
  split
  · exact .refl _
  · simp only
    split
    · split
      · exact .single (.setNotConfigured st)
      · split
        · exact .refl _
        · rename_i key _
          have h1 := bigSegMembership_reach env key st
          generalize bigSegMembership env key st = r at h1
          obtain ⟨m, st1⟩ := r
          simp only at h1 ⊢
          split
          · exact h1.trans (segRules_reach hrec _ _ _ _)
          · have h2 : Reach env st
                { st1 with memChecks := st1.memChecks ++ [(key, bigSegmentRef s)] } :=
              .step h1 (.memCheck st1 key (bigSegmentRef s))
            split
            · exact h2
            · exact h2.trans (segRules_reach hrec _ _ _ _)
    · split
      · exact .refl _
      · exact segRules_reach hrec _ _ _ _

theorem segContains_reach (n : Nat) (env : Env) :
    ∀ s chain st, Reach env st (segContains n env s chain st).2 := by
  induction n with
  | zero => intro s chain st; exact .refl _
  | succ n ih =>
    intro s chain st
    show Reach env st (segBody (segContains n env) env s chain st).2
    exact segBody_reach ih s chain st

/-! ### evaluator.go only makes primitive updates -/

theorem logErr_reach (env : Env) (flagKey : String) (e : EvalErr) (st : St) :
    Reach env st (logErr env flagKey e st) := by
  unfold logErr
  split
  · rename_i h; exact .single (.log st _ h)
  · exact .refl _

theorem getVariation_reach (env : Env) (f : Flag) (index : Int) (reason : Reason) (st : St) :
    Reach env st (getVariation env f index reason st).2 := by
  unfold getVariation
  split
  · exact logErr_reach _ _ _ _
  · exact .refl _

theorem getOffValue_reach (env : Env) (f : Flag) (reason : Reason) (st : St) :
    Reach env st (getOffValue env f reason st).2 := by
  unfold getOffValue
  split
  · exact .refl _
  · exact getVariation_reach _ _ _ _ _

theorem getValueForVR_reach (env : Env) (f : Flag) (vr : VariationOrRollout) (reason : Reason)
    (st : St) : Reach env st (getValueForVR env f vr reason st).2 := by
  unfold getValueForVR
  split
  · exact logErr_reach _ _ _ _
  · exact getVariation_reach _ _ _ _ _

/-- What the parametric lemmas assume about the open prerequisite recursion. -/
abbrev FlagRecReach (env : Env) (rec : FlagRec) : Prop :=
  ∀ f chain st, Reach env st (rec f chain st).2

theorem prereqLoop_reach {rec : FlagRec} {env : Env} (hrec : FlagRecReach env rec)
    (f : Flag) (chain : List String) :
    ∀ ps st, Reach env st (prereqLoop rec env f chain ps st).2 := by
  intro ps
  induction ps with
  | nil => intro st; exact .refl _
  | cons p ps ih =>
    intro st
    unfold prereqLoop
    simp only
    have h1 : Reach env st { st with flagLookups := st.flagLookups ++ [p.key] } :=
      .single (.flagLookup st p.key)
    split
    · exact h1
    · rename_i pf _
      split
      · exact h1.trans (logErr_reach _ _ _ _)
      · have h2 := hrec pf chain { st with flagLookups := st.flagLookups ++ [p.key] }
        split
        · rename_i st2 heq; rw [heq] at h2; exact h1.trans h2
        · rename_i d ok st2 heq
          rw [heq] at h2
          have h3 : Reach env st
              { st2 with status := updateStatus st.status st2.status } :=
            .step (h1.trans h2) (.mergeStatus st2 st.status)
          split
          · exact h3
          · split
            · split
              · rename_i hr
                exact .step h3 (.event _ _ hr)
              · exact h3
            · split
              · rename_i hr
                exact (Reach.step h3 (.event _ _ hr)).trans (ih _)
              · exact h3.trans (ih _)

theorem checkPrereqs_reach {rec : FlagRec} {env : Env} (hrec : FlagRecReach env rec)
    (f : Flag) (chain : List String) (st : St) :
    Reach env st (checkPrereqs rec env f chain st).2 := by
  unfold checkPrereqs
  split
  · exact .refl _
  · exact prereqLoop_reach hrec _ _ _ _

theorem rulesLoop_reach {seg : SegRec} {env : Env} (hseg : SegRecReach env seg) (f : Flag) :
    ∀ rules i st, Reach env st (rulesLoop seg env f rules i st).2 := by
  intro rules
  induction rules with
  | nil =>
    intro i st
    unfold rulesLoop
    exact getValueForVR_reach _ _ _ _ _
  | cons r rs ih =>
    intro i st
    unfold rulesLoop
    have h1 := clausesMatch_reach hseg [] r.clauses st
    split
    · rename_i e st1 heq; rw [heq] at h1; exact h1.trans (logErr_reach _ _ _ _)
    · rename_i st1 heq; rw [heq] at h1; exact h1
    · rename_i st1 heq; rw [heq] at h1
      exact h1.trans (getValueForVR_reach _ _ _ _ _)
    · rename_i st1 heq; rw [heq] at h1; exact h1.trans (ih _ _)

theorem evalBody_reach {rec : FlagRec} {seg : SegRec} {env : Env} (hrec : FlagRecReach env rec)
    (hseg : SegRecReach env seg) (f : Flag) (chain : List String) (st : St) :
    Reach env st (evalBody rec seg env f chain st).2 := by
  unfold evalBody
  split
  · exact getOffValue_reach _ _ _ _
  · have h1 := checkPrereqs_reach hrec f chain st
    split
    · rename_i st1 heq; rw [heq] at h1; exact h1
    · rename_i st1 heq; rw [heq] at h1; exact h1
    · rename_i k st1 heq; rw [heq] at h1
      exact h1.trans (getOffValue_reach _ _ _ _)
    · rename_i st1 heq; rw [heq] at h1
      split
      · exact h1.trans (getVariation_reach _ _ _ _ _)
      · exact h1.trans (rulesLoop_reach hseg _ _ _ _)

theorem evalFlag_reach (sf n : Nat) (env : Env) :
    ∀ f chain st, Reach env st (evalFlag sf n env f chain st).2 := by
  induction n with
  | zero => intro f chain st; exact .refl _
  | succ n ih =>
    intro f chain st
    show Reach env st (evalBody (evalFlag sf n env) (segContains sf env) env f chain st).2
    exact evalBody_reach ih (segContains_reach sf env) f chain st

/-- Bridge to `evaluate`: every side channel of the observation is the corresponding field of a
state reachable from the empty state. -/
theorem evaluate_reach (env : Env) (f : Flag) :
    ∃ st, Reach env {} st ∧ (evaluate env f).events = st.events ∧
      (evaluate env f).logs = st.logs ∧ (evaluate env f).flagLookups = st.flagLookups ∧
      (evaluate env f).segLookups = st.segLookups ∧ (evaluate env f).bsQueries = st.bsQueries ∧
      (evaluate env f).memChecks = st.memChecks := by
  unfold evaluate
  split
  · exact ⟨{}, .refl _, rfl, rfl, rfl, rfl, rfl, rfl⟩
  · have h := evalFlag_reach (segFuel env.store) (flagFuel env.store) env f [] {}
    generalize evalFlag (segFuel env.store) (flagFuel env.store) env f [] {} = r at h
    obtain ⟨out, st⟩ := r
    exact ⟨st, h, rfl, rfl, rfl, rfl, rfl, rfl⟩

/-! ### Monotone side channels -/

/-- Every side channel of `b` extends the one of `a`. -/
structure Extends (a b : St) : Prop where
  events : a.events <+: b.events
  logs : a.logs <+: b.logs
  flagLookups : a.flagLookups <+: b.flagLookups
  segLookups : a.segLookups <+: b.segLookups
  bsQueries : a.bsQueries <+: b.bsQueries
  memChecks : a.memChecks <+: b.memChecks
  cache : a.cache <+: b.cache

theorem Extends.refl (a : St) : Extends a a :=
  ⟨List.prefix_rfl, List.prefix_rfl, List.prefix_rfl, List.prefix_rfl, List.prefix_rfl,
    List.prefix_rfl, List.prefix_rfl⟩

theorem Extends.trans {a b c : St} (h1 : Extends a b) (h2 : Extends b c) : Extends a c :=
  ⟨h1.events.trans h2.events, h1.logs.trans h2.logs, h1.flagLookups.trans h2.flagLookups,
    h1.segLookups.trans h2.segLookups, h1.bsQueries.trans h2.bsQueries,
    h1.memChecks.trans h2.memChecks, h1.cache.trans h2.cache⟩

theorem Prim.extends {env : Env} {a b : St} (h : Prim env a b) : Extends a b := by
  cases h <;> constructor <;>
    first
    | exact List.prefix_rfl
    | exact List.prefix_append _ _

theorem Reach.extends {env : Env} {a b : St} (h : Reach env a b) : Extends a b :=
  Reach.invariant₂ (R := Extends) Extends.refl (fun _ _ _ h1 hp => h1.trans hp.extends) h

theorem reach_logs_prefix {env : Env} {a b : St} (h : Reach env a b) : a.logs <+: b.logs :=
  h.extends.logs
theorem reach_events_prefix {env : Env} {a b : St} (h : Reach env a b) : a.events <+: b.events :=
  h.extends.events
theorem reach_flagLookups_prefix {env : Env} {a b : St} (h : Reach env a b) :
    a.flagLookups <+: b.flagLookups := h.extends.flagLookups
theorem reach_segLookups_prefix {env : Env} {a b : St} (h : Reach env a b) :
    a.segLookups <+: b.segLookups := h.extends.segLookups
theorem reach_bsQueries_prefix {env : Env} {a b : St} (h : Reach env a b) :
    a.bsQueries <+: b.bsQueries := h.extends.bsQueries
theorem reach_memChecks_prefix {env : Env} {a b : St} (h : Reach env a b) :
    a.memChecks <+: b.memChecks := h.extends.memChecks
/-- The membership cache only grows (entries are never dropped or overwritten). -/
theorem reach_cache_prefix {env : Env} {a b : St} (h : Reach env a b) : a.cache <+: b.cache :=
  h.extends.cache

/-! ### Disabled logger / recorder -/

theorem reach_no_logger {env : Env} {a b : St} (h : env.opts.logger = false)
    (hr : Reach env a b) : b.logs = a.logs := by
  refine Reach.invariant (I := fun st => st.logs = a.logs) ?_ hr rfl
  intro x y hp hx
  cases hp with
  | log l hl => rw [h] at hl; cases hl
  | _ => exact hx

theorem reach_no_recorder {env : Env} {a b : St} (h : env.opts.recorder = false)
    (hr : Reach env a b) : b.events = a.events := by
  refine Reach.invariant (I := fun st => st.events = a.events) ?_ hr rfl
  intro x y hp hx
  cases hp with
  | event e he => rw [h] at he; cases he
  | _ => exact hx

theorem evaluate_no_logger {env : Env} (h : env.opts.logger = false) (f : Flag) :
    (evaluate env f).logs = [] := by
  obtain ⟨st, hr, _, hl, _⟩ := evaluate_reach env f
  rw [hl]; exact reach_no_logger h hr

theorem evaluate_no_recorder {env : Env} (h : env.opts.recorder = false) (f : Flag) :
    (evaluate env f).events = [] := by
  obtain ⟨st, hr, he, _⟩ := evaluate_reach env f
  rw [he]; exact reach_no_recorder h hr

/-! ### Query economy: the provider is queried at most once per context key -/

/-- The queries are exactly the keys of the cache, and those are pairwise distinct. -/
def QInv (st : St) : Prop :=
  st.bsQueries = st.cache.map (·.1) ∧ (st.cache.map (·.1)).Nodup

theorem lookup_none_not_mem_keys {β : Type} {key : String} :
    ∀ {l : List (String × β)}, l.lookup key = none → key ∉ l.map (·.1) := by
  intro l h hmem
  rw [List.lookup_eq_none_iff] at h
  obtain ⟨p, hp, hk⟩ := List.mem_map.1 hmem
  have := h p hp
  simp [hk] at this

theorem Prim.qinv {env : Env} {a b : St} (hp : Prim env a b) (ha : QInv a) : QInv b := by
  cases hp with
  | query key p hbs hnone =>
    obtain ⟨h1, h2⟩ := ha
    have hnot := lookup_none_not_mem_keys hnone
    refine ⟨?_, ?_⟩
    · show a.bsQueries ++ [key] = (a.cache ++ [(key, (p.get key).membership)]).map (·.1)
      rw [List.map_append, h1]; rfl
    · show ((a.cache ++ [(key, (p.get key).membership)]).map (·.1)).Nodup
      rw [List.map_append, List.nodup_append]
      refine ⟨h2, List.pairwise_singleton _ _, ?_⟩
      intro x hx y hy hxy
      simp only [List.map_cons, List.map_nil, List.mem_singleton] at hy
      subst hy; subst hxy
      exact hnot hx
  | _ => exact ha

theorem QInv.empty : QInv {} := ⟨rfl, List.nodup_nil⟩

theorem Reach.qinv {env : Env} {a b : St} (h : Reach env a b) (ha : QInv a) : QInv b :=
  Reach.invariant (I := QInv) (fun _ _ hp => hp.qinv) h ha

theorem QInv.bsQueries_nodup {st : St} (h : QInv st) : st.bsQueries.Nodup := by
  rw [h.1]; exact h.2

theorem evalFlag_qinv (sf n : Nat) (env : Env) (f : Flag) (chain : List String) {st : St}
    (h : QInv st) : QInv (evalFlag sf n env f chain st).2 :=
  (evalFlag_reach sf n env f chain st).qinv h

theorem evalFlag_bsQueries_nodup (sf n : Nat) (env : Env) (f : Flag) (chain : List String) :
    (evalFlag sf n env f chain {}).2.bsQueries.Nodup :=
  (evalFlag_qinv sf n env f chain QInv.empty).bsQueries_nodup

/-- Within one evaluation the big-segment provider is queried at most once per context key. -/
theorem evaluate_bsQueries_nodup (env : Env) (f : Flag) : (evaluate env f).bsQueries.Nodup := by
  obtain ⟨st, hr, _, _, _, _, hq, _⟩ := evaluate_reach env f
  rw [hq]; exact (hr.qinv QInv.empty).bsQueries_nodup

/-! ### Cache consistency: a cached membership is what the provider answers -/

def PConsistent (env : Env) (st : St) : Prop :=
  ∀ key m, st.cache.lookup key = some m → ∃ p, env.bs = some p ∧ m = (p.get key).membership

theorem PConsistent.empty (env : Env) : PConsistent env {} := by
  intro key m h; cases h

theorem Prim.pconsistent {env : Env} {a b : St} (hp : Prim env a b) (ha : PConsistent env a) :
    PConsistent env b := by
  cases hp with
  | query key p hbs hnone =>
    intro k m hk
    change List.lookup k (a.cache ++ [(key, (p.get key).membership)]) = some m at hk
    rw [List.lookup_append] at hk
    cases hl : List.lookup k a.cache with
    | some x =>
      rw [hl] at hk
      exact ha k m (by rw [hl]; exact hk)
    | none =>
      rw [hl, Option.none_or, List.lookup_cons] at hk
      split at hk
      · rename_i heq
        have : k = key := by simpa using heq
        subst this
        exact ⟨p, hbs, by cases hk; rfl⟩
      · cases hk
  | _ => exact ha

theorem Reach.pconsistent {env : Env} {a b : St} (h : Reach env a b) (ha : PConsistent env a) :
    PConsistent env b :=
  Reach.invariant (I := PConsistent env) (fun _ _ hp => hp.pconsistent) h ha

theorem evalFlag_pconsistent (sf n : Nat) (env : Env) (f : Flag) (chain : List String) {st : St}
    (h : PConsistent env st) : PConsistent env (evalFlag sf n env f chain st).2 :=
  (evalFlag_reach sf n env f chain st).pconsistent h

/-! ### No provider ⇒ no query -/

theorem reach_no_provider {env : Env} {a b : St} (h : env.bs = none) (hr : Reach env a b) :
    b.bsQueries = a.bsQueries ∧ b.cache = a.cache := by
  refine Reach.invariant (I := fun st => st.bsQueries = a.bsQueries ∧ st.cache = a.cache)
    ?_ hr ⟨rfl, rfl⟩
  intro x y hp hx
  cases hp with
  | query key p hbs _ => rw [h] at hbs; cases hbs
  | _ => exact hx

theorem evaluate_no_provider {env : Env} (h : env.bs = none) (f : Flag) :
    (evaluate env f).bsQueries = [] := by
  obtain ⟨st, hr, _, _, _, _, hq, _⟩ := evaluate_reach env f
  rw [hq]; exact (reach_no_provider h hr).1

/-! ### Status: its priority never decreases, NOT_CONFIGURED is absorbing

A provider may return any string, `""` included (`BSAnswer.status = none`).  What survives is stated
in terms of `statusPriority` (`getBigSegmentsStatusPriority`, 0 for `""`).  "Once set it stays set"
is true only when the provider never answers `""` (`AnswersNonEmpty`), which holds in particular
when every answer carries one of the four constants (`AnswersFourConstants`). -/

theorem Status.priority_le_three (s : Status) : s.priority ≤ 3 := by
  cases s <;> simp [Status.priority]

theorem statusPriority_le_three (s : Option Status) : statusPriority s ≤ 3 := by
  cases s with
  | none => exact Nat.zero_le _
  | some s => exact s.priority_le_three

theorem Status.eq_notConfigured_of_priority {s : Status} (h : 3 ≤ s.priority) :
    s = .notConfigured := by
  cases s <;> simp [Status.priority] at h ⊢

theorem eq_notConfigured_of_statusPriority {s : Option Status} (h : 3 ≤ statusPriority s) :
    s = some .notConfigured := by
  cases s with
  | none => simp [statusPriority] at h
  | some s => rw [Status.eq_notConfigured_of_priority h]

/-- The merged status has the larger of the two priorities. -/
theorem statusPriority_updateStatus (old new : Option Status) :
    statusPriority (updateStatus old new) = max (statusPriority old) (statusPriority new) := by
  rw [updateStatus_eq]
  split <;> omega

theorem statusPriority_updateStatus_right (old new : Option Status) :
    statusPriority new ≤ statusPriority (updateStatus old new) := by
  rw [statusPriority_updateStatus]; omega

theorem statusPriority_updateStatus_left (old new : Option Status) :
    statusPriority old ≤ statusPriority (updateStatus old new) := by
  rw [statusPriority_updateStatus]; omega

/-- The merge returns `new` unless `old` has a strictly higher priority. -/
theorem updateStatus_of_priority_le {old new : Option Status}
    (h : statusPriority old ≤ statusPriority new) : updateStatus old new = new := by
  rw [updateStatus_eq, if_neg (by omega)]

theorem updateStatus_of_priority_gt {old new : Option Status}
    (h : statusPriority new < statusPriority old) : updateStatus old new = old := by
  rw [updateStatus_eq, if_pos h]

theorem updateStatus_notConfigured_right (old : Option Status) :
    updateStatus old (some .notConfigured) = some .notConfigured :=
  updateStatus_of_priority_le (statusPriority_le_three old)

theorem updateStatus_notConfigured_left (new : Option Status) :
    updateStatus (some .notConfigured) new = some .notConfigured := by
  rw [updateStatus_eq]
  split
  · rfl
  · rename_i h
    exact eq_notConfigured_of_statusPriority (by simpa [statusPriority, Status.priority] using h)

theorem Prim.status_priority {env : Env} {a b : St} (hp : Prim env a b) :
    statusPriority a.status ≤ statusPriority b.status := by
  cases hp with
  | setNotConfigured => exact statusPriority_le_three _
  | mergeStatus old => exact statusPriority_updateStatus_right _ _
  | query key p _ _ => exact statusPriority_updateStatus_left _ _
  | _ => exact Nat.le_refl _

/-- The priority of the status never decreases during an evaluation. -/
theorem reach_status_priority {env : Env} {a b : St} (h : Reach env a b) :
    statusPriority a.status ≤ statusPriority b.status :=
  Reach.invariant₂ (R := fun a b => statusPriority a.status ≤ statusPriority b.status)
    (fun _ => Nat.le_refl _) (fun _ _ _ h1 hp => Nat.le_trans h1 hp.status_priority) h

/-- A status of positive priority (STALE, STORE_ERROR, NOT_CONFIGURED) never disappears again. -/
theorem reach_status_some_of_priority {env : Env} {a b : St} (h : Reach env a b)
    (ha : 0 < statusPriority a.status) : b.status.isSome := by
  have hb := Nat.lt_of_lt_of_le ha (reach_status_priority h)
  cases hs : b.status with
  | none => rw [hs] at hb; simp [statusPriority] at hb
  | some _ => rfl

theorem Prim.notConfigured {env : Env} {a b : St} (hp : Prim env a b)
    (ha : a.status = some .notConfigured) : b.status = some .notConfigured := by
  cases hp with
  | setNotConfigured => rfl
  | mergeStatus old =>
    show updateStatus old a.status = _
    rw [ha]; exact updateStatus_notConfigured_right _
  | query key p _ _ =>
    show updateStatus a.status _ = _
    rw [ha]; exact updateStatus_notConfigured_left _
  | _ => exact ha

/-- NOT_CONFIGURED is absorbing. -/
theorem reach_notConfigured {env : Env} {a b : St} (h : Reach env a b)
    (ha : a.status = some .notConfigured) : b.status = some .notConfigured :=
  Reach.invariant (I := fun st => st.status = some .notConfigured) (fun _ _ hp => hp.notConfigured)
    h ha

/-! #### Providers that never answer `""` -/

/-- Every provider answer carries a non-empty status. -/
def AnswersNonEmpty (env : Env) : Prop :=
  ∀ p, env.bs = some p → ∀ k, (p.get k).status.isSome

/-- Every provider answer carries one of the four constants HEALTHY, STALE, STORE_ERROR,
NOT_CONFIGURED (the situation the SDK's own provider wrapper produces). -/
def AnswersFourConstants (env : Env) : Prop :=
  ∀ p, env.bs = some p → ∀ k, ∃ s, (p.get k).status = some s ∧ s.isConstant = true

theorem AnswersFourConstants.nonEmpty {env : Env} (h : AnswersFourConstants env) :
    AnswersNonEmpty env := by
  intro p hp k
  obtain ⟨s, hs, _⟩ := h p hp k
  rw [hs]; rfl

/-- Without a provider there are no answers. -/
theorem AnswersFourConstants.of_no_provider {env : Env} (h : env.bs = none) :
    AnswersFourConstants env := by
  intro p hp; rw [h] at hp; cases hp

/-- `none` below every status, then by `Status.priority`. -/
def statusRank : Option Status → Nat
  | none => 0
  | some s => s.priority + 1

theorem statusRank_updateStatus_right (old new : Option Status) :
    statusRank new ≤ statusRank (updateStatus old new) := by
  unfold updateStatus
  split
  · split
    · simp only [statusRank]; omega
    · exact Nat.le_refl _
  · exact Nat.zero_le _
  · exact Nat.le_refl _

theorem statusRank_updateStatus_left (old : Option Status) (s : Status) :
    statusRank old ≤ statusRank (updateStatus old (some s)) := by
  unfold updateStatus
  split
  · split
    · exact Nat.le_refl _
    · rename_i o n hle
      simp only [statusRank]; omega
  · rename_i heq; cases heq
  · exact Nat.zero_le _

theorem statusRank_le_notConfigured (s : Option Status) :
    statusRank s ≤ statusRank (some .notConfigured) := by
  cases s with
  | none => exact Nat.zero_le _
  | some s =>
    have := s.priority_le_three
    show s.priority + 1 ≤ 3 + 1
    omega

theorem Prim.status_rank {env : Env} (hne : AnswersNonEmpty env) {a b : St} (hp : Prim env a b) :
    statusRank a.status ≤ statusRank b.status := by
  cases hp with
  | setNotConfigured => exact statusRank_le_notConfigured _
  | mergeStatus old => exact statusRank_updateStatus_right _ _
  | query key p hbs _ =>
    show statusRank a.status ≤ statusRank (updateStatus a.status (p.get key).status)
    have := hne p hbs key
    cases hs : (p.get key).status with
    | none => rw [hs] at this; cases this
    | some s => exact statusRank_updateStatus_left _ _
  | _ => exact Nat.le_refl _

theorem reach_status_rank {env : Env} (hne : AnswersNonEmpty env) {a b : St}
    (h : Reach env a b) : statusRank a.status ≤ statusRank b.status :=
  Reach.invariant₂ (R := fun a b => statusRank a.status ≤ statusRank b.status)
    (fun _ => Nat.le_refl _) (fun _ _ _ h1 hp => Nat.le_trans h1 (hp.status_rank hne)) h

theorem statusRank_pos_iff (s : Option Status) : 0 < statusRank s ↔ s.isSome := by
  cases s <;> simp [statusRank]

/-- With a provider that never answers `""`, a status once set stays set. -/
theorem reach_status_some {env : Env} (hne : AnswersNonEmpty env) {a b : St} (h : Reach env a b)
    (ha : a.status.isSome) : b.status.isSome := by
  rw [← statusRank_pos_iff] at ha ⊢
  exact Nat.lt_of_lt_of_le ha (reach_status_rank hne h)

end LD

#print axioms LD.evalFlag_reach
#print axioms LD.evaluate_bsQueries_nodup
#print axioms LD.Reach.pconsistent
#print axioms LD.reach_status_some
#print axioms LD.reach_status_priority
#print axioms LD.reach_notConfigured

/-
  LDEval.Proofs.AuditLocality — (theorem audit, C20 #69)

  Model-level (stateful) counterparts of the Spec-level locality lemmas, so that the perturbation
  invariances of C20 can be stated about the WHOLE observation of `evaluate` (result with
  big-segments status, `isExperiment`, prerequisite events, log lines, store lookups, big-segment
  queries and membership checks), not only about the Spec's detail.

  A. a congruence of the code-shaped model in the evaluation context (cf. `CtxCongr.lean`);
  B. the evaluated flag's rule list: generic replacement lemma, appended rules, equivalent rules;
  C. the part of `evaluate`'s result the Spec determines (everything but the status annotation).
-/
import LDEval.Proofs.CtxCongr
import LDEval.Proofs.StatusLog
import LDEval.Proofs.Refine
import LDEval.Proofs.Total
import LDEval.Proofs.AuditOrigin

namespace LD.C20

/-! ## A. The model is a congruence in the evaluation context -/

section MCongr
variable {env : Env} {ctx' : Ctx}

theorem withCtx_store : (withCtx env ctx').store = env.store := rfl
theorem withCtx_opts : (withCtx env ctx').opts = env.opts := rfl
theorem withCtx_bs : (withCtx env ctx').bs = env.bs := rfl
theorem withCtx_rx : (withCtx env ctx').rx = env.rx := rfl
theorem withCtx_ctx : (withCtx env ctx').ctx = ctx' := rfl

/-- Two segment recursions agree on every stored segment, from every state. -/
def SegRecEq (env : Env) (rec' rec : LD.SegRec) : Prop :=
  ∀ s ∈ env.store.segments.map (·.2), ∀ chain st, rec' s chain st = rec s chain st

theorem m_segMatchValues_ctx {rec rec' : LD.SegRec} (hrec : SegRecEq env rec' rec)
    (negate : Bool) (chain : List String) :
    ∀ vs st, LD.segMatchValues rec' (withCtx env ctx') negate chain vs st =
      LD.segMatchValues rec env negate chain vs st := by
  intro vs
  induction vs with
  | nil => intro st; rfl
  | cons v vs ih =>
    intro st
    cases v with
    | str k =>
      simp only [LD.segMatchValues, withCtx_store]
      cases hf : env.store.findSegment k with
      | none => exact ih _
      | some seg => simp only [hrec seg (Store.findSegment_mem hf), ih]
    | null => simp only [LD.segMatchValues]; exact ih st
    | bool b => simp only [LD.segMatchValues]; exact ih st
    | num q => simp only [LD.segMatchValues]; exact ih st
    | arr xs => simp only [LD.segMatchValues]; exact ih st
    | obj kvs => simp only [LD.segMatchValues]; exact ih st
    | raw w => simp only [LD.segMatchValues]; exact ih st

theorem m_clauseMatch_ctx {rec rec' : LD.SegRec} (hrec : SegRecEq env rec' rec)
    (chain : List String) (c : Clause) (hc : ClauseOK env ctx' c) (st : St) :
    LD.clauseMatch rec' (withCtx env ctx') chain c st = LD.clauseMatch rec env chain c st := by
  unfold LD.clauseMatch
  by_cases hs : c.op = "segmentMatch"
  · simp only [hs, beq_self_eq_true, if_true]
    exact m_segMatchValues_ctx hrec _ _ _ _
  · have hs' : (c.op == "segmentMatch") = false := by simpa using hs
    simp only [hs', Bool.false_eq_true, if_false, withCtx_rx, withCtx_ctx]
    rcases hc with hc | hc
    · exact absurd hc hs
    · rw [hc]

theorem m_clausesMatch_ctx {rec rec' : LD.SegRec} (hrec : SegRecEq env rec' rec)
    (chain : List String) :
    ∀ cs, (∀ c ∈ cs, ClauseOK env ctx' c) → ∀ st,
      LD.clausesMatch rec' (withCtx env ctx') chain cs st = LD.clausesMatch rec env chain cs st := by
  intro cs
  induction cs with
  | nil => intro _ st; rfl
  | cons c cs ih =>
    intro h st
    simp only [LD.clausesMatch, m_clauseMatch_ctx hrec chain c (h c (List.mem_cons_self ..)),
      ih (fun c' hc' => h c' (List.mem_cons_of_mem _ hc'))]

theorem m_segRuleMatch_ctx {rec rec' : LD.SegRec} (hrec : SegRecEq env rec' rec)
    (chain : List String) (key salt : String) (r : SegmentRule)
    (hc : ∀ c ∈ r.clauses, ClauseOK env ctx' c)
    (hb : r.weight = none ∨ BucketOK env ctx' false r.rolloutContextKind r.bucketBy) (st : St) :
    LD.segRuleMatch rec' (withCtx env ctx') chain key salt r st =
      LD.segRuleMatch rec env chain key salt r st := by
  unfold LD.segRuleMatch
  rw [m_clausesMatch_ctx hrec chain _ hc]
  rcases hb with hb | hb
  · simp only [hb]
  · simp only [withCtx_opts, withCtx_ctx, hb none key salt]

theorem m_segRules_ctx {rec rec' : LD.SegRec} (hrec : SegRecEq env rec' rec)
    (chain : List String) (s : Segment) :
    ∀ rs, (∀ r ∈ rs, (∀ c ∈ r.clauses, ClauseOK env ctx' c) ∧
        (r.weight = none ∨ BucketOK env ctx' false r.rolloutContextKind r.bucketBy)) → ∀ st,
      LD.segRules rec' (withCtx env ctx') chain s rs st = LD.segRules rec env chain s rs st := by
  intro rs
  induction rs with
  | nil => intro _ st; rfl
  | cons r rs ih =>
    intro h st
    have hr := h r (List.mem_cons_self ..)
    simp only [LD.segRules, m_segRuleMatch_ctx hrec chain s.key s.salt r hr.1 hr.2,
      ih (fun r' hr' => h r' (List.mem_cons_of_mem _ hr'))]

theorem m_bigSegMembership_ctx (key : String) (st : St) :
    bigSegMembership (withCtx env ctx') key st = bigSegMembership env key st := rfl

theorem m_segBody_ctx {rec rec' : LD.SegRec} (hrec : SegRecEq env rec' rec)
    (s : Segment) (hs : SegOK env ctx' s) (chain : List String) (st : St) :
    LD.segBody rec' (withCtx env ctx') s chain st = LD.segBody rec env s chain st := by
  obtain ⟨h1, h2, h3⟩ := hs
  unfold LD.segBody
  simp only [m_segRules_ctx hrec _ s s.rules h3, withCtx_ctx, h1, h2, m_bigSegMembership_ctx]

theorem m_segContains_ctx (hS : ∀ s ∈ env.store.segments.map (·.2), SegOK env ctx' s) (n : Nat) :
    SegRecEq env (LD.segContains n (withCtx env ctx')) (LD.segContains n env) := by
  induction n with
  | zero => intro s _ chain st; rfl
  | succ n ih =>
    intro s hs chain st
    exact m_segBody_ctx ih s (hS s hs) chain st

theorem m_getVariation_ctx (f : Flag) (i : Int) (r : Reason) (st : St) :
    LD.getVariation (withCtx env ctx') f i r st = LD.getVariation env f i r st := rfl

theorem m_getOffValue_ctx (f : Flag) (r : Reason) (st : St) :
    LD.getOffValue (withCtx env ctx') f r st = LD.getOffValue env f r st := rfl

theorem m_getValueForVR_ctx (f : Flag) (vr : VariationOrRollout) (h : VROK env ctx' vr)
    (r : Reason) (st : St) :
    LD.getValueForVR (withCtx env ctx') f vr r st = LD.getValueForVR env f vr r st := by
  unfold LD.getValueForVR
  rw [variationOrRollout_ctx vr h]
  rfl

theorem m_rulesLoop_ctx {seg seg' : LD.SegRec} (hseg : SegRecEq env seg' seg)
    (f : Flag) (hft : VROK env ctx' f.fallthrough) :
    ∀ rs i, (∀ r ∈ rs, (∀ c ∈ r.clauses, ClauseOK env ctx' c) ∧ VROK env ctx' r.vr) → ∀ st,
      LD.rulesLoop seg' (withCtx env ctx') f rs i st = LD.rulesLoop seg env f rs i st := by
  intro rs
  induction rs with
  | nil => intro i _ st; simp only [LD.rulesLoop, m_getValueForVR_ctx f _ hft]
  | cons r rs ih =>
    intro i h st
    have hr := h r (List.mem_cons_self ..)
    simp only [LD.rulesLoop, m_clausesMatch_ctx hseg [] _ hr.1, m_getValueForVR_ctx f _ hr.2,
      ih (i + 1) (fun r' hr' => h r' (List.mem_cons_of_mem _ hr'))]
    rfl

/-- Two flag recursions agree on every stored flag, from every state. -/
def FlagRecEq (env : Env) (rec' rec : LD.FlagRec) : Prop :=
  ∀ pf ∈ env.store.flags.map (·.2), ∀ chain st, rec' pf chain st = rec pf chain st

theorem m_prereqLoop_ctx {rec rec' : LD.FlagRec} (hrec : FlagRecEq env rec' rec) (f : Flag)
    (chain : List String) :
    ∀ ps st, LD.prereqLoop rec' (withCtx env ctx') f chain ps st =
      LD.prereqLoop rec env f chain ps st := by
  intro ps
  induction ps with
  | nil => intro st; rfl
  | cons p ps ih =>
    intro st
    simp only [LD.prereqLoop, withCtx_store]
    cases hf : env.store.findFlag p.key with
    | none => rfl
    | some pf =>
      simp only [hrec pf (Store.findFlag_mem hf), ih]
      rfl

theorem m_checkPrereqs_ctx {rec rec' : LD.FlagRec} (hrec : FlagRecEq env rec' rec) (f : Flag)
    (chain : List String) (st : St) :
    LD.checkPrereqs rec' (withCtx env ctx') f chain st = LD.checkPrereqs rec env f chain st := by
  unfold LD.checkPrereqs
  rw [m_prereqLoop_ctx hrec]

theorem m_evalBody_ctx {rec rec' : LD.FlagRec} {seg seg' : LD.SegRec}
    (hrec : FlagRecEq env rec' rec) (hseg : SegRecEq env seg' seg)
    (f : Flag) (hf : FlagOK env ctx' f) (chain : List String) (st : St) :
    LD.evalBody rec' seg' (withCtx env ctx') f chain st = LD.evalBody rec seg env f chain st := by
  obtain ⟨h1, h2, h3⟩ := hf
  unfold LD.evalBody
  simp only [m_checkPrereqs_ctx hrec, m_rulesLoop_ctx hseg f h3 f.rules 0 h2, withCtx_ctx, h1,
    m_getOffValue_ctx, m_getVariation_ctx]

/-- **The context congruence of the model.**  Under the hypotheses of `evalFlag_ctx`, the
code-shaped evaluator run on `ctx'` returns the same outcome AND the same final state (cache,
status, events, logs, lookups, queries, membership checks) from every initial state. -/
theorem m_evalFlag_ctx (hF : ∀ fl ∈ env.store.flags.map (·.2), FlagOK env ctx' fl)
    (hS : ∀ s ∈ env.store.segments.map (·.2), SegOK env ctx' s) (sf n : Nat) :
    ∀ f, FlagOK env ctx' f → ∀ chain st,
      LD.evalFlag sf n (withCtx env ctx') f chain st = LD.evalFlag sf n env f chain st := by
  induction n with
  | zero => intro f _ chain st; rfl
  | succ n ih =>
    intro f hf chain st
    exact m_evalBody_ctx (fun pf hpf chain st => ih pf (hF pf hpf) chain st)
      (m_segContains_ctx hS sf) f hf chain st

/-- **Entry point.**  If every flag of the store, the evaluated flag and every segment of the store
read the same from `ctx'` as from the environment's context, then everything observable about
`Evaluator.Evaluate` on `ctx'` is the same — provided `ctx'` is invalid exactly when the original
is (an invalid context is answered before anything is read). -/
theorem evaluate_ctx (hF : ∀ fl ∈ env.store.flags.map (·.2), FlagOK env ctx' fl)
    (hS : ∀ s ∈ env.store.segments.map (·.2), SegOK env ctx' s)
    (f : Flag) (hf : FlagOK env ctx' f) (hinv : ctx' = .invalid ↔ env.ctx = .invalid) :
    evaluate (withCtx env ctx') f = evaluate env f := by
  by_cases hc : env.ctx = .invalid
  · have hc' : ctx' = .invalid := hinv.mpr hc
    unfold evaluate
    simp only [withCtx_ctx, hc, hc']
  · have hc' : (withCtx env ctx').ctx ≠ .invalid := fun h => hc (hinv.mp h)
    rw [evaluate_eq_finish _ f hc', evaluate_eq_finish env f hc]
    simp only [withCtx_store]
    rw [m_evalFlag_ctx hF hS _ _ f hf]

end MCongr

/-! ## B. The evaluated flag's rule list -/

section Rules

/-- `rulesLoop` reads the flag only for value selection, not for its rule list. -/
theorem m_rulesLoop_rules_irrelevant (seg : LD.SegRec) (env : Env) (f : Flag)
    (rules' : List FlagRule) :
    ∀ rs i st, LD.rulesLoop seg env { f with rules := rules' } rs i st =
      LD.rulesLoop seg env f rs i st := by
  intro rs
  induction rs with
  | nil => intro i st; rfl
  | cons r rs ih =>
    intro i st
    simp only [LD.rulesLoop, ih]
    rfl

theorem m_prereqLoop_rules_irrelevant (rec : LD.FlagRec) (env : Env) (f : Flag)
    (rules' : List FlagRule) (chain : List String) :
    ∀ ps st, LD.prereqLoop rec env { f with rules := rules' } chain ps st =
      LD.prereqLoop rec env f chain ps st := by
  intro ps
  induction ps with
  | nil => intro st; rfl
  | cons p ps ih =>
    intro st
    simp only [LD.prereqLoop, ih]

theorem m_checkPrereqs_rules_irrelevant (rec : LD.FlagRec) (env : Env) (f : Flag)
    (rules' : List FlagRule) (chain : List String) (st : St) :
    LD.checkPrereqs rec env { f with rules := rules' } chain st =
      LD.checkPrereqs rec env f chain st := by
  unfold LD.checkPrereqs
  rw [m_prereqLoop_rules_irrelevant]

theorem getVariation_kind_ne_ruleMatch (f : Flag) (i : Int) (r : Reason)
    (h : r.kind ≠ .ruleMatch) : (Spec.getVariation f i r).reason.kind ≠ .ruleMatch := by
  unfold Spec.getVariation
  split
  · intro h'; cases h'
  · exact h

theorem getOffValue_kind_ne_ruleMatch (f : Flag) (r : Reason)
    (h : r.kind ≠ .ruleMatch) : (Spec.getOffValue f r).reason.kind ≠ .ruleMatch := by
  unfold Spec.getOffValue
  split
  · exact h
  · exact getVariation_kind_ne_ruleMatch f _ r h

/-- **Generic replacement of the rule list.**  Evaluating `f` with another rule list is related (by
any relation `R` that is reflexive on outcomes whose reason is not RULE_MATCH) to evaluating `f`, as
soon as the two rule loops are related from the state in which the rule stage is entered — which is
only required when it IS entered (flag on, prerequisites met, no target match). -/
theorem m_evalBody_rules {R : FlagOut × St → FlagOut × St → Prop}
    (hrefl : ∀ x : FlagOut × St, (∀ d ok, x.1 = .done d ok → d.reason.kind ≠ .ruleMatch) → R x x)
    (rec : LD.FlagRec) (seg : LD.SegRec) (env : Env) (f : Flag) (rules' : List FlagRule)
    (chain : List String) (st : St)
    (h : f.on = true → (LD.checkPrereqs rec env f chain st).1.toSpec = .ok →
      anyTargetMatch env.ctx f = none →
      R (LD.rulesLoop seg env f rules' 0 (LD.checkPrereqs rec env f chain st).2)
        (LD.rulesLoop seg env f f.rules 0 (LD.checkPrereqs rec env f chain st).2)) :
    R (LD.evalBody rec seg env { f with rules := rules' } chain st)
      (LD.evalBody rec seg env f chain st) := by
  unfold LD.evalBody
  simp only [m_checkPrereqs_rules_irrelevant, m_rulesLoop_rules_irrelevant]
  show R (if !f.on then _ else _) _
  cases hon : f.on with
  | false =>
    apply hrefl
    intro d ok hd
    simp only [Bool.not_false, if_true, FlagOut.done.injEq] at hd
    rw [← hd.1]
    show (LD.getOffValue env f .off st).1.reason.kind ≠ .ruleMatch
    rw [(getOffValue_spec env f .off st).1]
    exact getOffValue_kind_ne_ruleMatch f _ (by decide)
  | true =>
    simp only [Bool.not_true, Bool.false_eq_true, if_false]
    have h' := h hon
    revert h'
    generalize LD.checkPrereqs rec env f chain st = q
    obtain ⟨res, st1⟩ := q
    intro h'
    cases res with
    | oof => exact hrefl _ (by intro d ok hd; cases hd)
    | malformed =>
      apply hrefl
      intro d ok hd
      simp only [FlagOut.done.injEq] at hd
      rw [← hd.1]; decide
    | failed k =>
      apply hrefl
      intro d ok hd
      simp only [FlagOut.done.injEq] at hd
      rw [← hd.1]
      show (LD.getOffValue env f (.prereqFailed k) st1).1.reason.kind ≠ .ruleMatch
      rw [(getOffValue_spec env f (.prereqFailed k) st1).1]
      exact getOffValue_kind_ne_ruleMatch f _ (by simp [Reason.prereqFailed])
    | ok =>
      show R (match anyTargetMatch env.ctx f with | some v => _ | none => _) _
      cases ht : anyTargetMatch env.ctx f with
      | some v =>
        apply hrefl
        intro d ok hd
        simp only [FlagOut.done.injEq] at hd
        rw [← hd.1]
        show (LD.getVariation env f v .targetMatch st1).1.reason.kind ≠ .ruleMatch
        rw [(getVariation_spec env f v .targetMatch st1).1]
        exact getVariation_kind_ne_ruleMatch f _ _ (by decide)
      | none => exact h' rfl ht

/-- When the rule stage is entered, `evalBody` IS the rule loop run from the state the
prerequisite check leaves. -/
theorem m_evalBody_at_rules (rec : LD.FlagRec) (seg : LD.SegRec) (env : Env) (f : Flag)
    (chain : List String) (st : St) (hon : f.on = true)
    (hp : (LD.checkPrereqs rec env f chain st).1.toSpec = .ok)
    (ht : anyTargetMatch env.ctx f = none) :
    LD.evalBody rec seg env f chain st =
      LD.rulesLoop seg env f f.rules 0 (LD.checkPrereqs rec env f chain st).2 := by
  unfold LD.evalBody
  simp only [hon, Bool.not_true, Bool.false_eq_true, if_false]
  revert hp
  generalize LD.checkPrereqs rec env f chain st = q
  obtain ⟨res, st1⟩ := q
  intro hp
  cases res with
  | oof => cases hp
  | malformed => cases hp
  | failed k => cases hp
  | ok => simp only [ht]

/-! ### Appended rules -/

/-- The rule loop reaches the fallthrough: every rule evaluates to "no match". -/
def FallsThrough (seg : LD.SegRec) (env : Env) : List FlagRule → St → Prop
  | [], _ => True
  | r :: rs, st => ∃ st1, LD.clausesMatch seg env [] r.clauses st = (.ok false, st1) ∧
      FallsThrough seg env rs st1

/-- Unless the loop reaches the fallthrough, rules appended at the end are never looked at. -/
theorem m_rulesLoop_append (seg : LD.SegRec) (env : Env) (f : Flag) (extra : List FlagRule) :
    ∀ rs i st, ¬ FallsThrough seg env rs st →
      LD.rulesLoop seg env f (rs ++ extra) i st = LD.rulesLoop seg env f rs i st := by
  intro rs
  induction rs with
  | nil => intro i st h; exact absurd trivial h
  | cons r rs ih =>
    intro i st h
    simp only [List.cons_append, LD.rulesLoop]
    generalize hq : LD.clausesMatch seg env [] r.clauses st = q at h ⊢
    obtain ⟨res, st1⟩ := q
    cases res with
    | err e => rfl
    | oof => rfl
    | ok b =>
      cases b with
      | true => rfl
      | false =>
        simp only []
        apply ih
        intro hft
        exact h ⟨st1, hq, hft⟩

/-- A loop that reaches the fallthrough returns what the fallthrough variation-or-rollout gives. -/
theorem fallsThrough_result (seg : LD.SegRec) (env : Env) (f : Flag) :
    ∀ rs i st, FallsThrough seg env rs st →
      ∃ st', LD.rulesLoop seg env f rs i st =
        (.done (LD.getValueForVR env f f.fallthrough .fallthrough st').1 true,
          (LD.getValueForVR env f f.fallthrough .fallthrough st').2) := by
  intro rs
  induction rs with
  | nil => intro i st _; exact ⟨st, rfl⟩
  | cons r rs ih =>
    intro i st h
    obtain ⟨st1, h1, h2⟩ := h
    obtain ⟨st', hst'⟩ := ih (i + 1) st1 h2
    refine ⟨st', ?_⟩
    simp only [LD.rulesLoop, h1]
    exact hst'

/-- … so its reason kind is FALLTHROUGH or ERROR. -/
theorem fallsThrough_kind (seg : LD.SegRec) (env : Env) (f : Flag) (rs : List FlagRule) (i : Nat)
    (st : St) (h : FallsThrough seg env rs st) :
    ∃ d st', LD.rulesLoop seg env f rs i st = (.done d true, st') ∧
      (d.reason.kind = .fallthrough ∨ d.reason.kind = .error) := by
  obtain ⟨st', hst'⟩ := fallsThrough_result seg env f rs i st h
  refine ⟨_, _, hst', ?_⟩
  rw [(getValueForVR_spec env f f.fallthrough .fallthrough st').1]
  rcases AuditC08.getValueForVR_cases env f f.fallthrough .fallthrough with
    ⟨k, hd⟩ | ⟨v, e, -, -, -, hr, -, -⟩
  · right; rw [hd]; rfl
  · left; rw [hr]; cases e <;> rfl

/-- If the loop reaches the fallthrough from a state with a consistent cache, the Spec says "no
match" for every rule. -/
theorem fallsThrough_spec {env : Env} {seg : LD.SegRec} {segS : Spec.SegRec}
    (hseg : SegRefines env seg segS) :
    ∀ rs st, Consistent env st → FallsThrough seg env rs st →
      ∀ r ∈ rs, Spec.clausesMatch segS env [] r.clauses = .ok false := by
  intro rs
  induction rs with
  | nil => intro st _ _ r hr; cases hr
  | cons q rs ih =>
    intro st hc h r hr
    obtain ⟨st1, h1, h2⟩ := h
    obtain ⟨g1, g2⟩ := clausesMatch_refines hseg [] q.clauses st hc
    rw [h1] at g1 g2
    rcases List.mem_cons.1 hr with rfl | hr'
    · exact g1.symm
    · exact ih st1 g2 h2 r hr'

/-! ### Pointwise equivalent rules -/

/-- `r'` is observationally the same rule as `r` for this evaluation: same variation-or-rollout, id
and track-events bit, and its clauses evaluate to the same answer with the same effect on the
per-call state, from every state. -/
def RuleEquiv (seg : LD.SegRec) (env : Env) (r r' : FlagRule) : Prop :=
  r'.vr = r.vr ∧ r'.id = r.id ∧ r'.trackEvents = r.trackEvents ∧
  ∀ st, LD.clausesMatch seg env [] r'.clauses st = LD.clausesMatch seg env [] r.clauses st

theorem RuleEquiv.refl (seg : LD.SegRec) (env : Env) (r : FlagRule) : RuleEquiv seg env r r :=
  ⟨rfl, rfl, rfl, fun _ => rfl⟩

theorem m_rulesLoop_equiv (seg : LD.SegRec) (env : Env) (f : Flag) {rs rs' : List FlagRule}
    (h : List.Forall₂ (RuleEquiv seg env) rs rs') :
    ∀ i st, LD.rulesLoop seg env f rs' i st = LD.rulesLoop seg env f rs i st := by
  induction h with
  | nil => intro i st; rfl
  | cons hr _ ih =>
    intro i st
    obtain ⟨h1, h2, _, h4⟩ := hr
    simp only [LD.rulesLoop, h1, h2, h4, ih]

theorem forall₂_getElem?_trackEvents {seg : LD.SegRec} {env : Env} {rs rs' : List FlagRule}
    (h : List.Forall₂ (RuleEquiv seg env) rs rs') (i : Nat) :
    (rs'[i]?).map (·.trackEvents) = (rs[i]?).map (·.trackEvents) := by
  induction h generalizing i with
  | nil => rfl
  | cons hr _ ih =>
    cases i with
    | zero => simp [hr.2.2.1]
    | succ i => simpa using ih i

/-- `isExperiment` reads the rule list only through the track-events bit at the reported index. -/
theorem isExperimentResult_rules (f : Flag) (rules' : List FlagRule) (r : Reason)
    (h : r.kind = .ruleMatch → 0 ≤ r.ruleIndex →
      (rules'[r.ruleIndex.toNat]?).map (·.trackEvents) =
        (f.rules[r.ruleIndex.toNat]?).map (·.trackEvents)) :
    isExperimentResult { f with rules := rules' } r = isExperimentResult f r := by
  unfold isExperimentResult
  split
  · rfl
  · cases hk : r.kind <;> simp only []
    split
    · rename_i h0
      have := h hk h0
      show (match rules'[r.ruleIndex.toNat]? with | some rule => rule.trackEvents | none => false) = _
      cases h1 : rules'[r.ruleIndex.toNat]? <;> cases h2 : f.rules[r.ruleIndex.toNat]? <;>
        simp [h1, h2] at this ⊢
      exact this
    · rfl

end Rules

/-! ## C. What the Spec determines of `evaluate`'s result -/

/-- The reason without its big-segments status annotation. -/
def noStatusR (r : Reason) : Reason := { r with bigSegmentsStatus := none }

/-- The detail without the big-segments status annotation of its reason. -/
def noStatus (d : Detail) : Detail := { d with reason := noStatusR d.reason }

theorem isExperimentResult_noStatusR (f : Flag) (r : Reason) :
    isExperimentResult f (noStatusR r) = isExperimentResult f r := rfl

theorem noStatus_withStatus (d : Detail) (s : Option Status) :
    noStatus (withStatus d s) = noStatus d := by
  cases s <;> rfl

/-- `finish` when the two flags give the same experiment bit. -/
theorem finish_flag_congr (f f' : Flag) (out : FlagOut) (st : St)
    (h : ∀ d ok, out = .done d ok → ∀ s,
      isExperimentResult f' { d.reason with bigSegmentsStatus := s } =
        isExperimentResult f { d.reason with bigSegmentsStatus := s }) :
    finish f' out st = finish f out st := by
  unfold finish
  cases out with
  | oof => cases st.status <;> rfl
  | done d ok =>
    have := h d ok rfl
    cases hs : st.status with
    | none =>
      simp only []
      have h1 := this d.reason.bigSegmentsStatus
      simp only [] at h1
      rw [show ({ d.reason with bigSegmentsStatus := d.reason.bigSegmentsStatus } : Reason) = d.reason
        from rfl] at h1
      rw [h1]
    | some s =>
      simp only []
      rw [this (some s)]

/-- The outcome of the model's top-level run is the Spec's (valid contexts, the fuel suffices). -/
theorem evalFlag_top_done (env : Env) (f : Flag) :
    ∃ d ok st, evalFlag (segFuel env.store) (flagFuel env.store) env f [] {} = (.done d ok, st) ∧
      Spec.evalFlag (segFuel env.store) (flagFuel env.store) env f [] = some (d, ok) := by
  obtain ⟨h1, -⟩ := evalFlag_refines (segFuel env.store) (flagFuel env.store) env f [] {}
    (Consistent.empty env)
  generalize hq : evalFlag (segFuel env.store) (flagFuel env.store) env f [] {} = q at h1
  obtain ⟨out, st⟩ := q
  cases out with
  | done d ok => exact ⟨d, ok, st, rfl, h1.symm⟩
  | oof =>
    exfalso
    have hno := evalFlag_no_oof env f.key (flagFuel env.store) f [] {} List.nodup_nil (by simp)
      (by simp) (by unfold flagFuel; simp)
    rw [hq] at hno
    exact hno rfl

/-- A RULE_MATCH reason of the model's top-level run names an existing rule of the flag. -/
theorem top_ruleMatch_rule (env : Env) (f : Flag) (d : Detail) (ok : Bool) (st : St)
    (h : evalFlag (segFuel env.store) (flagFuel env.store) env f [] {} = (.done d ok, st))
    (hk : d.reason.kind = .ruleMatch) :
    ∃ rule, 0 ≤ d.reason.ruleIndex ∧ f.rules[d.reason.ruleIndex.toNat]? = some rule := by
  obtain ⟨h1, -⟩ := evalFlag_refines (segFuel env.store) (flagFuel env.store) env f [] {}
    (Consistent.empty env)
  rw [h] at h1
  obtain ⟨rule, h0, hr, -, -⟩ :=
    (AuditC08.origin_evalFlag _ _ env f [] d ok h1.symm).ruleMatch_rule hk
  exact ⟨rule, h0, hr⟩

/-- **Template for perturbations of the evaluated flag's rule list.**  The whole observation of
`Evaluate` is the same for `f` and for `f` with rule list `rules'` if (a) from the (cache-consistent)
state in which the rule stage of `f` is entered, both rule loops do the same, and (b) every rule of
`f` keeps its track-events bit at its index. -/
theorem evaluate_rules_eq (env : Env) (f : Flag) (rules' : List FlagRule)
    (hloop : ∀ st1, Consistent env st1 →
      evalFlag (segFuel env.store) (flagFuel env.store) env f [] {} =
        rulesLoop (segContains (segFuel env.store) env) env f f.rules 0 st1 →
      rulesLoop (segContains (segFuel env.store) env) env f rules' 0 st1 =
        rulesLoop (segContains (segFuel env.store) env) env f f.rules 0 st1)
    (htrack : ∀ (i : Nat) (rule : FlagRule), f.rules[i]? = some rule →
      (rules'[i]?).map (·.trackEvents) = some rule.trackEvents) :
    evaluate env { f with rules := rules' } = evaluate env f := by
  by_cases hc : env.ctx = .invalid
  · unfold evaluate
    simp only [hc]
  · rw [evaluate_eq_finish env _ hc, evaluate_eq_finish env f hc]
    have hE : evalFlag (segFuel env.store) (flagFuel env.store) env { f with rules := rules' } [] {} =
        evalFlag (segFuel env.store) (flagFuel env.store) env f [] {} := by
      show LD.evalBody (evalFlag (segFuel env.store) _ env) (segContains (segFuel env.store) env) env
          { f with rules := rules' } [] {} =
        LD.evalBody (evalFlag (segFuel env.store) _ env) (segContains (segFuel env.store) env) env
          f [] {}
      apply m_evalBody_rules (R := Eq) (fun _ _ => rfl)
      intro hon hp ht
      apply hloop
      · exact (checkPrereqs_refines (evalFlag_refines _ _ env) f [] {} (Consistent.empty env)).2
      · exact m_evalBody_at_rules _ _ env f [] {} hon hp ht
    rw [hE]
    apply finish_flag_congr
    intro d ok hout s
    apply isExperimentResult_rules
    intro hk h0
    obtain ⟨rule, -, hr⟩ := top_ruleMatch_rule env f d ok _ (Prod.ext hout rfl) hk
    show (rules'[d.reason.ruleIndex.toNat]?).map _ = (f.rules[d.reason.ruleIndex.toNat]?).map _
    rw [htrack _ rule hr, hr]
    rfl

/-- The part of `evaluate`'s result that the Spec determines: everything but the big-segments
status annotation.  Two evaluations (of possibly different flags) whose Spec results agree return
the same value, variation index and reason up to that annotation. -/
theorem evaluate_noStatus_of_spec (env : Env) (f f' : Flag) (T : Detail → Detail)
    (hT : ∀ d s, noStatus (T (withStatus d s)) = noStatus (T d))
    (hTe : T (Detail.forError .userNotSpecified) = Detail.forError .userNotSpecified)
    (hs : ∀ d ok, Spec.evalFlag (segFuel env.store) (flagFuel env.store) env f [] = some (d, ok) →
      Spec.evalFlag (segFuel env.store) (flagFuel env.store) env f' [] = some (T d, ok)) :
    noStatus (evaluate env f').result.detail = noStatus (T (evaluate env f).result.detail) := by
  by_cases hc : env.ctx = .invalid
  · rw [(evaluate_invalid f hc).2, (evaluate_invalid f' hc).2, hTe]
  · obtain ⟨d, ok, st, he, hsp⟩ := evalFlag_top_done env f
    obtain ⟨d', ok', st', he', hsp'⟩ := evalFlag_top_done env f'
    rw [hs d ok hsp] at hsp'
    simp only [Option.some.injEq, Prod.mk.injEq] at hsp'
    rcases evaluate_valid f hc he with ⟨d1, ok1, h1, -, hd⟩ | ⟨h1, -⟩
    · rcases evaluate_valid f' hc he' with ⟨d2, ok2, h2, -, hd'⟩ | ⟨h2, -⟩
      · cases h1; cases h2
        rw [hd, hd', noStatus_withStatus, hT, ← hsp'.1]
      · cases h2
    · cases h1

end LD.C20

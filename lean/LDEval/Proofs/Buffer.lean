/-
  LDEval.Proofs.Buffer — the growable buffer refines list concatenation; the hex parser is exact
  on hex-digit input; SHA-1 digests are 20 bytes, so bucketing never falls back to its default.
-/
import LDEval.Model.Bucket

namespace LD

/-! ## A. Buffer refines concatenation -/

theorem LocalBuffer.grow_fst_data (b : LocalBuffer) (n : Nat) :
    (b.grow n).1.data = b.data ++ List.replicate n 0 := by
  unfold LocalBuffer.grow
  simp only []
  split <;> rfl

theorem LocalBuffer.grow_snd (b : LocalBuffer) (n : Nat) :
    (b.grow n).2 = b.data.length := by
  unfold LocalBuffer.grow
  simp only []
  split <;> rfl

theorem LocalBuffer.copyAt_append_replicate (d bs : List UInt8) :
    LocalBuffer.copyAt (d ++ List.replicate bs.length 0) d.length bs = d ++ bs := by
  simp [LocalBuffer.copyAt]

theorem LocalBuffer.append_data (b : LocalBuffer) (bs : List UInt8) :
    (b.append bs).data = b.data ++ bs := by
  have h : (b.append bs).data
      = LocalBuffer.copyAt (b.grow bs.length).1.data (b.grow bs.length).2 bs := rfl
  rw [h, LocalBuffer.grow_fst_data, LocalBuffer.grow_snd, LocalBuffer.copyAt_append_replicate]

theorem LocalBuffer.append_cap (b : LocalBuffer) (bs : List UInt8) :
    (b.append bs).cap = (b.grow bs.length).1.cap := rfl

theorem LocalBuffer.appendByte_data (b : LocalBuffer) (ch : UInt8) :
    (b.appendByte ch).data = b.data ++ [ch] := by
  simp [LocalBuffer.appendByte, LocalBuffer.append_data]

theorem LocalBuffer.appendString_data (b : LocalBuffer) (s : String) :
    (b.appendString s).data = b.data ++ s.toUTF8.toList := by
  simp [LocalBuffer.appendString, LocalBuffer.append_data]

theorem LocalBuffer.appendInt_data (b : LocalBuffer) (n : Int) :
    (b.appendInt n).data = b.data ++ decimal n := by
  simp [LocalBuffer.appendInt, LocalBuffer.append_data]

theorem LocalBuffer.grow_cap_ge (b : LocalBuffer) (n : Nat) :
    b.data.length + n ≤ (b.grow n).1.cap := by
  unfold LocalBuffer.grow
  simp only []
  split
  · simp; omega
  · simp only []
    split <;> omega

theorem LocalBuffer.cap_ge_length (b : LocalBuffer) (bs : List UInt8)
    (h : b.data.length ≤ b.cap) :
    (b.append bs).data.length ≤ (b.append bs).cap := by
  have _ := h
  rw [LocalBuffer.append_data, LocalBuffer.append_cap, List.length_append]
  exact LocalBuffer.grow_cap_ge b bs.length

theorem hashPrefix_data (cap : Nat) (seed : Option Int) (key salt : String) :
    (hashPrefix (LocalBuffer.new cap) seed key salt).data =
      match seed with
      | some s => decimal s ++ [46]
      | none => key.toUTF8.toList ++ [46] ++ salt.toUTF8.toList ++ [46] := by
  cases seed <;>
    simp [hashPrefix, LocalBuffer.new, LocalBuffer.appendByte_data, LocalBuffer.appendString_data,
      LocalBuffer.appendInt_data]

/-! ## B. The hex parser on hex-digit input -/

/-- Value of a hex-digit byte (0 for a non-digit). -/
def hexDigitVal (c : UInt8) : Nat :=
  if 48 ≤ c ∧ c ≤ 57 then c.toNat - 48
  else if 97 ≤ c ∧ c ≤ 102 then c.toNat - 87
  else if 65 ≤ c ∧ c ≤ 70 then c.toNat - 55
  else 0

def isLowerHex (c : UInt8) : Bool := (48 ≤ c && c ≤ 57) || (97 ≤ c && c ≤ 102)

/-- Big-endian base-16 value of a list of hex-digit bytes. -/
def hexValue (bs : List UInt8) : Nat := bs.foldl (fun acc c => acc * 16 + hexDigitVal c) 0

theorem hexDigitVal_lt (c : UInt8) : hexDigitVal c < 16 := by
  unfold hexDigitVal
  simp only [UInt8.le_iff_toNat_le]
  have := c.toNat_lt
  split
  · simp at *; omega
  · split
    · simp at *; omega
    · split
      · simp at *; omega
      · omega

theorem hexVal_of_isLowerHex (c : UInt8) (h : isLowerHex c = true) :
    ∃ d, hexVal c = some d ∧ d.toNat = hexDigitVal c := by
  unfold hexVal hexDigitVal
  simp only [isLowerHex, Bool.or_eq_true, Bool.and_eq_true, decide_eq_true_eq] at h
  by_cases h1 : 48 ≤ c ∧ c ≤ 57
  · rw [if_pos h1, if_pos h1]
    refine ⟨_, rfl, ?_⟩
    rw [UInt8.toNat_toUInt64, UInt8.toNat_sub_of_le _ _ h1.1]
    rfl
  · rw [if_neg h1, if_neg h1]
    have h2 : 97 ≤ c ∧ c ≤ 102 := by
      rcases h with h | h
      · exact absurd h h1
      · exact h
    rw [if_pos h2, if_pos h2]
    refine ⟨_, rfl, ?_⟩
    have h97 : (c - 97).toNat = c.toNat - 97 := UInt8.toNat_sub_of_le _ _ h2.1
    have hle : c.toNat ≤ 102 := by
      have := UInt8.le_iff_toNat_le.mp h2.2
      simpa using this
    have hge : 97 ≤ c.toNat := by
      have := UInt8.le_iff_toNat_le.mp h2.1
      simpa using this
    rw [UInt8.toNat_toUInt64, UInt8.toNat_add, h97]
    simp
    omega

theorem parseHexLoop_hex (bs : List UInt8) :
    ∀ (acc : UInt64) (k : Nat), acc.toNat < 2 ^ (4 * k) → k + bs.length ≤ 16 →
      (∀ c ∈ bs, isLowerHex c = true) →
      ∃ v, parseHexLoop bs acc = some v ∧
        v.toNat = bs.foldl (fun a c => a * 16 + hexDigitVal c) acc.toNat ∧
        v.toNat < 2 ^ (4 * (k + bs.length)) := by
  induction bs with
  | nil =>
    intro acc k hacc _ _
    exact ⟨acc, rfl, rfl, by simpa using hacc⟩
  | cons c rest ih =>
    intro acc k hacc hk hhex
    obtain ⟨d, hd, hdv⟩ := hexVal_of_isLowerHex c (hhex c (by simp))
    have hdlt : d.toNat < 16 := hdv ▸ hexDigitVal_lt c
    have hlen : (c :: rest).length = rest.length + 1 := rfl
    have hk' : k + 1 ≤ 16 := by omega
    have hpow : 2 ^ (4 * (k + 1)) = 2 ^ (4 * k) * 16 := by
      rw [Nat.mul_add, Nat.pow_add]
    have hmono : 2 ^ (4 * (k + 1)) ≤ 2 ^ 64 :=
      Nat.pow_le_pow_right (by omega) (by omega)
    have hstep : ((acc <<< 4) + d).toNat = acc.toNat * 16 + d.toNat := by
      rw [UInt64.toNat_add, UInt64.toNat_shiftLeft]
      have : acc.toNat <<< (UInt64.toNat 4 % 64) = acc.toNat * 16 := by
        simp [Nat.shiftLeft_eq]
      rw [this]
      have hb : acc.toNat * 16 + d.toNat < 2 ^ 64 := by omega
      rw [Nat.mod_eq_of_lt (a := acc.toNat * 16) (by omega), Nat.mod_eq_of_lt hb]
    have hacc' : ((acc <<< 4) + d).toNat < 2 ^ (4 * (k + 1)) := by omega
    obtain ⟨v, hv, hval, hlt⟩ := ih ((acc <<< 4) + d) (k + 1) hacc' (by omega)
      (fun x hx => hhex x (List.mem_cons_of_mem _ hx))
    refine ⟨v, ?_, ?_, ?_⟩
    · simp only [parseHexLoop, hd]; exact hv
    · rw [hval, hstep, hdv]; rfl
    · rw [hlen]
      have : k + (rest.length + 1) = k + 1 + rest.length := by omega
      rw [this]; exact hlt

/-- Exactness for up to 16 digits (the full width of a `uint64`). -/
theorem parseHexU64_hex16 (bs : List UInt8) (hne : bs ≠ []) (hlen : bs.length ≤ 16)
    (hhex : ∀ c ∈ bs, isLowerHex c = true) :
    ∃ v, parseHexU64 bs = some v ∧ v.toNat = hexValue bs ∧ v.toNat < 2 ^ (4 * bs.length) := by
  obtain ⟨v, hv, hval, hlt⟩ := parseHexLoop_hex bs 0 0 (by simp) (by omega) hhex
  refine ⟨v, ?_, ?_, ?_⟩
  · unfold parseHexU64
    have : bs.isEmpty = false := by cases bs <;> simp_all
    rw [this]; exact hv
  · rw [hval]; rfl
  · simpa using hlt

theorem parseHexU64_hex (bs : List UInt8) (hne : bs ≠ []) (hlen : bs.length ≤ 15)
    (hhex : ∀ c ∈ bs, isLowerHex c = true) :
    ∃ v, parseHexU64 bs = some v ∧ v.toNat = hexValue bs ∧ v.toNat < 2 ^ (4 * bs.length) :=
  parseHexU64_hex16 bs hne (by omega) hhex

theorem hexDigit_isLowerHex (n : UInt8) (h : n.toNat < 16) :
    isLowerHex (Sha1.hexDigit n) = true := by
  unfold Sha1.hexDigit isLowerHex
  simp only [Bool.or_eq_true, Bool.and_eq_true, decide_eq_true_eq, UInt8.le_iff_toNat_le,
    UInt8.lt_iff_toNat_lt]
  split
  · rename_i h10
    have h10' : n.toNat < 10 := by simpa using h10
    left
    rw [UInt8.toNat_add]
    simp
    omega
  · rename_i h10
    have h10' : ¬ n.toNat < 10 := by simpa using h10
    right
    rw [UInt8.toNat_add]
    simp
    omega

theorem shr4_lt (b : UInt8) : (b >>> 4).toNat < 16 := by
  rw [UInt8.toNat_shiftRight]
  have := b.toNat_lt
  simp [Nat.shiftRight_eq_div_pow]
  omega

theorem and15_lt (b : UInt8) : (b &&& 15).toNat < 16 := by
  rw [UInt8.toNat_and]
  have : b.toNat &&& (15 : UInt8).toNat ≤ (15 : UInt8).toNat := Nat.and_le_right
  simp at this
  simp
  omega

theorem hexEncode_isLowerHex (bs : List UInt8) :
    ∀ c ∈ Sha1.hexEncode bs, isLowerHex c = true := by
  intro c hc
  simp only [Sha1.hexEncode, List.mem_flatMap] at hc
  obtain ⟨b, _, hb⟩ := hc
  simp only [List.mem_cons, List.not_mem_nil, or_false] at hb
  rcases hb with rfl | rfl
  · exact hexDigit_isLowerHex _ (shr4_lt b)
  · exact hexDigit_isLowerHex _ (and15_lt b)

theorem hexEncode_length (bs : List UInt8) : (Sha1.hexEncode bs).length = 2 * bs.length := by
  induction bs with
  | nil => rfl
  | cons b rest ih =>
    have : Sha1.hexEncode (b :: rest)
        = [Sha1.hexDigit (b >>> 4), Sha1.hexDigit (b &&& 15)] ++ Sha1.hexEncode rest := by
      simp [Sha1.hexEncode]
    rw [this, List.length_append, ih]
    simp
    omega

theorem sha1_sum_length (msg : List UInt8) : (Sha1.sum msg).length = 20 := by
  simp [Sha1.sum, Sha1.u32bytes]

theorem bucket_hex_ok (input : List UInt8) :
    ∃ v : UInt64, parseHexU64 ((Sha1.hexEncode (Sha1.sum input)).take 15) = some v ∧
      v.toNat < 2 ^ 60 := by
  have hlen : ((Sha1.hexEncode (Sha1.sum input)).take 15).length = 15 := by
    rw [List.length_take, hexEncode_length, sha1_sum_length]; rfl
  have hne : (Sha1.hexEncode (Sha1.sum input)).take 15 ≠ [] := by
    intro h; rw [h] at hlen; simp at hlen
  obtain ⟨v, hv, _, hlt⟩ := parseHexU64_hex _ hne (by omega)
    (fun c hc => hexEncode_isLowerHex _ c (List.mem_of_mem_take hc))
  rw [hlen] at hlt
  exact ⟨v, hv, hlt⟩

/-- The `.getD 0` in `bucketOfInput` never uses its default. -/
theorem bucketOfInput_eq (input : List UInt8) :
    ∃ v : UInt64, parseHexU64 ((Sha1.hexEncode (Sha1.sum input)).take 15) = some v ∧
      v.toNat < 2 ^ 60 ∧
      bucketOfInput input = SoftF32.div (SoftF32.ofInt v.toNat) longScale := by
  obtain ⟨v, hv, hlt⟩ := bucket_hex_ok input
  exact ⟨v, hv, hlt, by simp [bucketOfInput, hv]⟩

/-! ## C. Decimal rendering -/

theorem natDigits_digits (n : Nat) : ∀ c ∈ natDigits n, 48 ≤ c ∧ c ≤ 57 := by
  intro c hc
  simp only [natDigits, List.mem_map] at hc
  obtain ⟨ch, hch, rfl⟩ := hc
  have hd := Nat.isDigit_of_mem_toDigits (by omega) (by omega) hch
  simp only [Char.isDigit, Bool.and_eq_true, decide_eq_true_eq, UInt32.le_iff_toNat_le] at hd
  have h1 : 48 ≤ ch.toNat := by simpa using hd.1
  have h2 : ch.toNat ≤ 57 := by simpa using hd.2
  simp only [UInt8.le_iff_toNat_le, UInt8.toNat_ofNat']
  simp
  omega

theorem decimal_nonneg_digits (n : Int) (h : 0 ≤ n) : ∀ c ∈ decimal n, 48 ≤ c ∧ c ≤ 57 := by
  have : ¬ n < 0 := by omega
  simp only [decimal, this, if_false]
  exact natDigits_digits _

end LD

#print axioms LD.LocalBuffer.append_data
#print axioms LD.LocalBuffer.appendByte_data
#print axioms LD.LocalBuffer.appendString_data
#print axioms LD.LocalBuffer.appendInt_data
#print axioms LD.LocalBuffer.cap_ge_length
#print axioms LD.hashPrefix_data
#print axioms LD.parseHexU64_hex
#print axioms LD.hexEncode_isLowerHex
#print axioms LD.hexEncode_length
#print axioms LD.sha1_sum_length
#print axioms LD.bucket_hex_ok
#print axioms LD.bucketOfInput_eq
#print axioms LD.decimal_nonneg_digits

/-
  LDEval.Proofs.CtxCongr — a congruence of the whole stateless Spec in the evaluation context,
  used by property C20 (locality).  If every flag and segment in scope reads the same from two
  contexts — target lists, clause by clause, rollout by rollout, segment list by segment list —
  then evaluation gives the same result on both.  Core Lean only.
-/
import LDEval.Spec.EvalSpec

namespace LD.C20

/-! ### A congruence of the whole Spec in the evaluation context -/

/-- The environment with another evaluation context. -/
def withCtx (env : Env) (ctx' : Ctx) : Env := { env with ctx := ctx' }

/-- The clause gives the same answer on both contexts (segment-match clauses do not read the
context directly). -/
def ClauseOK (env : Env) (ctx' : Ctx) (c : Clause) : Prop :=
  c.op = "segmentMatch" ∨ clauseMatchNoSeg env.rx ctx' c = clauseMatchNoSeg env.rx env.ctx c

def BucketOK (env : Env) (ctx' : Ctx) (isExp : Bool) (kind : String) (attr : Ref) : Prop :=
  ∀ seed key salt,
    computeBucket env.opts.secondaryKey ctx' isExp seed kind key attr salt =
      computeBucket env.opts.secondaryKey env.ctx isExp seed kind key attr salt

def VROK (env : Env) (ctx' : Ctx) (vr : VariationOrRollout) : Prop :=
  vr.variation.isSome ∨
    BucketOK env ctx' vr.rollout.isExperiment vr.rollout.contextKind vr.rollout.bucketBy

def FlagOK (env : Env) (ctx' : Ctx) (f : Flag) : Prop :=
  anyTargetMatch ctx' f = anyTargetMatch env.ctx f ∧
  (∀ r ∈ f.rules, (∀ c ∈ r.clauses, ClauseOK env ctx' c) ∧ VROK env ctx' r.vr) ∧
  VROK env ctx' f.fallthrough

def SegOK (env : Env) (ctx' : Ctx) (s : Segment) : Prop :=
  segLists ctx' s = segLists env.ctx s ∧
  ctx'.keyByKind s.unboundedContextKind = env.ctx.keyByKind s.unboundedContextKind ∧
  ∀ r ∈ s.rules, (∀ c ∈ r.clauses, ClauseOK env ctx' c) ∧
    (r.weight = none ∨ BucketOK env ctx' false r.rolloutContextKind r.bucketBy)

section Congr
variable {env : Env} {ctx' : Ctx}

theorem segMatchValues_ctx {rec rec' : Spec.SegRec}
    (hrec : ∀ s ∈ env.store.segments.map (·.2), ∀ chain, rec' s chain = rec s chain)
    (negate : Bool) (chain : List String) :
    ∀ vs, Spec.segMatchValues rec' (withCtx env ctx') negate chain vs =
      Spec.segMatchValues rec env negate chain vs := by
  intro vs
  induction vs with
  | nil => rfl
  | cons v vs ih =>
    cases v with
    | str k =>
      simp only [Spec.segMatchValues]
      show (match env.store.findSegment k with | none => _ | some seg => _) = _
      cases hf : env.store.findSegment k with
      | none => exact ih
      | some seg =>
        have hmem : seg ∈ env.store.segments.map (·.2) := Store.findSegment_mem hf
        simp only [hrec seg hmem, ih]
    | null => simp only [Spec.segMatchValues]; exact ih
    | bool b => simp only [Spec.segMatchValues]; exact ih
    | num q => simp only [Spec.segMatchValues]; exact ih
    | arr xs => simp only [Spec.segMatchValues]; exact ih
    | obj kvs => simp only [Spec.segMatchValues]; exact ih
    | raw w => simp only [Spec.segMatchValues]; exact ih

theorem clauseMatch_ctx {rec rec' : Spec.SegRec}
    (hrec : ∀ s ∈ env.store.segments.map (·.2), ∀ chain, rec' s chain = rec s chain)
    (chain : List String) (c : Clause) (hc : ClauseOK env ctx' c) :
    Spec.clauseMatch rec' (withCtx env ctx') chain c = Spec.clauseMatch rec env chain c := by
  unfold Spec.clauseMatch
  by_cases hs : c.op = "segmentMatch"
  · simp only [hs, beq_self_eq_true, if_true]
    exact segMatchValues_ctx hrec _ _ _
  · have hs' : (c.op == "segmentMatch") = false := by simpa using hs
    simp only [hs', Bool.false_eq_true, if_false]
    rcases hc with hc | hc
    · exact absurd hc hs
    · show Res.ofExcept (clauseMatchNoSeg env.rx ctx' c) = _
      rw [hc]

theorem clausesMatch_ctx {rec rec' : Spec.SegRec}
    (hrec : ∀ s ∈ env.store.segments.map (·.2), ∀ chain, rec' s chain = rec s chain)
    (chain : List String) :
    ∀ cs, (∀ c ∈ cs, ClauseOK env ctx' c) →
      Spec.clausesMatch rec' (withCtx env ctx') chain cs = Spec.clausesMatch rec env chain cs := by
  intro cs
  induction cs with
  | nil => intro _; rfl
  | cons c cs ih =>
    intro h
    simp only [Spec.clausesMatch, clauseMatch_ctx hrec chain c (h c (List.mem_cons_self ..)),
      ih (fun c' hc' => h c' (List.mem_cons_of_mem _ hc'))]

theorem segRuleMatch_ctx {rec rec' : Spec.SegRec}
    (hrec : ∀ s ∈ env.store.segments.map (·.2), ∀ chain, rec' s chain = rec s chain)
    (chain : List String) (key salt : String) (r : SegmentRule)
    (hc : ∀ c ∈ r.clauses, ClauseOK env ctx' c)
    (hb : r.weight = none ∨ BucketOK env ctx' false r.rolloutContextKind r.bucketBy) :
    Spec.segRuleMatch rec' (withCtx env ctx') chain key salt r =
      Spec.segRuleMatch rec env chain key salt r := by
  unfold Spec.segRuleMatch
  rw [clausesMatch_ctx hrec chain _ hc]
  rcases hb with hb | hb
  · simp only [hb]
  · have := hb none key salt
    show (match Spec.clausesMatch rec env chain r.clauses with
      | .ok true => (match r.weight with
        | none => _
        | some w => (match computeBucket env.opts.secondaryKey ctx' false none r.rolloutContextKind key
              r.bucketBy salt with | .error e => _ | .ok (bucket, fail) => _))
      | .ok false => _ | r => r) = _
    rw [this]; rfl

theorem segRules_ctx {rec rec' : Spec.SegRec}
    (hrec : ∀ s ∈ env.store.segments.map (·.2), ∀ chain, rec' s chain = rec s chain)
    (chain : List String) (s : Segment) :
    ∀ rs, (∀ r ∈ rs, (∀ c ∈ r.clauses, ClauseOK env ctx' c) ∧
        (r.weight = none ∨ BucketOK env ctx' false r.rolloutContextKind r.bucketBy)) →
      Spec.segRules rec' (withCtx env ctx') chain s rs = Spec.segRules rec env chain s rs := by
  intro rs
  induction rs with
  | nil => intro _; rfl
  | cons r rs ih =>
    intro h
    have hr := h r (List.mem_cons_self ..)
    simp only [Spec.segRules, segRuleMatch_ctx hrec chain s.key s.salt r hr.1 hr.2,
      ih (fun r' hr' => h r' (List.mem_cons_of_mem _ hr'))]

theorem segBody_ctx {rec rec' : Spec.SegRec}
    (hrec : ∀ s ∈ env.store.segments.map (·.2), ∀ chain, rec' s chain = rec s chain)
    (s : Segment) (hs : SegOK env ctx' s) (chain : List String) :
    Spec.segBody rec' (withCtx env ctx') s chain = Spec.segBody rec env s chain := by
  obtain ⟨h1, h2, h3⟩ := hs
  unfold Spec.segBody
  simp only [segRules_ctx hrec _ s s.rules h3]
  show (if chain.contains s.key then _ else
    if s.unbounded then (match s.generation with
      | none => _
      | some _ => (match ctx'.keyByKind s.unboundedContextKind with
        | none => _
        | some key => (match Spec.membershipOf env key with | none => _ | some tbl => _)))
    else (match segLists ctx' s with | some b => _ | none => _)) = _
  rw [h1, h2]; rfl

theorem segContains_ctx (hS : ∀ s ∈ env.store.segments.map (·.2), SegOK env ctx' s) (n : Nat) :
    ∀ s ∈ env.store.segments.map (·.2), ∀ chain,
      Spec.segContains n (withCtx env ctx') s chain = Spec.segContains n env s chain := by
  induction n with
  | zero => intro s _ chain; rfl
  | succ n ih =>
    intro s hs chain
    exact segBody_ctx ih s (hS s hs) chain

theorem variationOrRollout_ctx (vr : VariationOrRollout) (h : VROK env ctx' vr) (key salt : String) :
    variationOrRollout (withCtx env ctx') vr key salt = variationOrRollout env vr key salt := by
  unfold variationOrRollout
  rcases h with h | h
  · cases hv : vr.variation with
    | none => rw [hv] at h; cases h
    | some v => rfl
  · cases vr.variation with
    | some v => rfl
    | none =>
      simp only []
      cases vr.rollout.variations.getLast? with
      | none => rfl
      | some last =>
        simp only []
        have := h vr.rollout.seed key salt
        show (match computeBucket env.opts.secondaryKey ctx' vr.rollout.isExperiment vr.rollout.seed
            vr.rollout.contextKind key vr.rollout.bucketBy salt with
          | .error e => _ | .ok (bucket, fail) => _) = _
        rw [this]; rfl

theorem getValueForVR_ctx (f : Flag) (vr : VariationOrRollout) (h : VROK env ctx' vr) (r : Reason) :
    Spec.getValueForVR (withCtx env ctx') f vr r = Spec.getValueForVR env f vr r := by
  unfold Spec.getValueForVR
  rw [variationOrRollout_ctx vr h]

theorem rulesLoop_ctx {seg seg' : Spec.SegRec}
    (hseg : ∀ s ∈ env.store.segments.map (·.2), ∀ chain, seg' s chain = seg s chain)
    (f : Flag) (hft : VROK env ctx' f.fallthrough) :
    ∀ rs i, (∀ r ∈ rs, (∀ c ∈ r.clauses, ClauseOK env ctx' c) ∧ VROK env ctx' r.vr) →
      Spec.rulesLoop seg' (withCtx env ctx') f rs i = Spec.rulesLoop seg env f rs i := by
  intro rs
  induction rs with
  | nil => intro i _; simp only [Spec.rulesLoop, getValueForVR_ctx f _ hft]
  | cons r rs ih =>
    intro i h
    have hr := h r (List.mem_cons_self ..)
    simp only [Spec.rulesLoop, clausesMatch_ctx hseg [] _ hr.1, getValueForVR_ctx f _ hr.2,
      ih (i + 1) (fun r' hr' => h r' (List.mem_cons_of_mem _ hr'))]

theorem prereqLoop_ctx {rec rec' : Spec.FlagRec}
    (hrec : ∀ pf ∈ env.store.flags.map (·.2), ∀ chain, rec' pf chain = rec pf chain) (chain : List String) :
    ∀ ps, Spec.prereqLoop rec' (withCtx env ctx') chain ps = Spec.prereqLoop rec env chain ps := by
  intro ps
  induction ps with
  | nil => rfl
  | cons p ps ih =>
    simp only [Spec.prereqLoop]
    show (match env.store.findFlag p.key with | none => _ | some pf => _) = _
    cases hf : env.store.findFlag p.key with
    | none => rfl
    | some pf =>
      have hmem : pf ∈ env.store.flags.map (·.2) := Store.findFlag_mem hf
      simp only [hrec pf hmem, ih]

theorem evalBody_ctx {rec rec' : Spec.FlagRec} {seg seg' : Spec.SegRec}
    (hrec : ∀ pf ∈ env.store.flags.map (·.2), ∀ chain, rec' pf chain = rec pf chain)
    (hseg : ∀ s ∈ env.store.segments.map (·.2), ∀ chain, seg' s chain = seg s chain)
    (f : Flag) (hf : FlagOK env ctx' f) (chain : List String) :
    Spec.evalBody rec' seg' (withCtx env ctx') f chain = Spec.evalBody rec seg env f chain := by
  obtain ⟨h1, h2, h3⟩ := hf
  unfold Spec.evalBody Spec.checkPrereqs
  simp only [prereqLoop_ctx hrec, rulesLoop_ctx hseg f h3 f.rules 0 h2]
  show (if !f.on then _ else
    match (if f.prerequisites.isEmpty then Spec.PrereqOut.ok
      else Spec.prereqLoop rec env (chain ++ [f.key]) f.prerequisites) with
    | .oof => _ | .malformed => _ | .failed k => _
    | .ok => (match anyTargetMatch ctx' f with | some v => _ | none => _)) = _
  rw [h1]; rfl

/-- **The context congruence.**  If every flag of the store and the evaluated flag, and every
segment of the store, read the same from `ctx'` as from the environment's context — targets,
clause by clause, rollout by rollout, segment list by segment list — then evaluation on `ctx'`
gives the same result. -/
theorem evalFlag_ctx (hF : ∀ fl ∈ env.store.flags.map (·.2), FlagOK env ctx' fl)
    (hS : ∀ s ∈ env.store.segments.map (·.2), SegOK env ctx' s) (sf n : Nat) :
    ∀ f, FlagOK env ctx' f → ∀ chain,
      Spec.evalFlag sf n (withCtx env ctx') f chain = Spec.evalFlag sf n env f chain := by
  induction n with
  | zero => intro f _ chain; rfl
  | succ n ih =>
    intro f hf chain
    exact evalBody_ctx (fun pf hpf chain => ih pf (hF pf hpf) chain) (segContains_ctx hS sf) f hf chain

end Congr
end LD.C20

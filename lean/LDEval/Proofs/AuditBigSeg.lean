/-
  Theorem audit, C11 (findings #38, #40, #41): a GUARDED step relation for the big-segment side
  channels.

  `Prim` / `SPrim` (Proofs/Reach.lean, Proofs/StatusLog.lean) allow the NOT_CONFIGURED assignment,
  a provider query and a membership check from ANY state.  `GPrim` records WHY the evaluator makes
  each of them: which segment (returned by the store for a key that is already in `segLookups`)
  caused it, that the segment is unbounded, whether it has a generation, which context key was
  used, and (for a membership check) what the membership cache holds for that key.  Every function
  of `Model/Eval.lean` is shown to make `GPrim` steps only, so every invariant of the guarded
  primitives holds of `evaluate` (`evaluate_greach`).
-/
import LDEval.Proofs.StatusLog

namespace LD

/-- The store returned `s` for one of the segment keys looked up so far. -/
def LookedUp (env : Env) (st : St) (s : Segment) : Prop :=
  ∃ k ∈ st.segLookups, env.store.findSegment k = some s

theorem LookedUp.mono {env : Env} {a b : St} {s : Segment} (h : a.segLookups <+: b.segLookups)
    (hl : LookedUp env a s) : LookedUp env b s := by
  obtain ⟨k, hk, hf⟩ := hl
  exact ⟨k, h.subset hk, hf⟩

/-- The guarded primitive updates. -/
inductive GPrim (env : Env) : St → St → Prop
  | segLookup (st : St) (k : String) :
      GPrim env st { st with segLookups := st.segLookups ++ [k] }
  /-- NOT_CONFIGURED because a looked-up unbounded segment has no generation -/
  | noGeneration (st : St) (s : Segment) :
      LookedUp env st s → s.unbounded = true → s.generation = none →
      GPrim env st { st with status := some .notConfigured }
  /-- NOT_CONFIGURED because there is no provider to ask about a looked-up unbounded segment with a
  generation, for a context that has the segment's kind and no cached membership -/
  | noProvider (st : St) (s : Segment) (key : String) :
      LookedUp env st s → s.unbounded = true → s.generation.isSome = true →
      env.ctx.keyByKind s.unboundedContextKind = some key → env.bs = none →
      st.cache.lookup key = none →
      GPrim env st { st with status := some .notConfigured }
  /-- a provider query: for the context's key of the kind of a looked-up unbounded segment with a
  generation, not yet cached -/
  | query (st : St) (s : Segment) (key : String) (p : BSProvider) :
      LookedUp env st s → s.unbounded = true → s.generation.isSome = true →
      env.ctx.keyByKind s.unboundedContextKind = some key →
      env.bs = some p → st.cache.lookup key = none →
      GPrim env st { st with
        bsQueries := st.bsQueries ++ [key]
        cache := st.cache ++ [(key, (p.get key).membership)]
        status := updateStatus st.status (p.get key).status }
  /-- a membership check: under the reference of a looked-up unbounded segment with a generation,
  against the non-nil membership cached for the context's key of the segment's kind -/
  | memCheck (st : St) (s : Segment) (key : String) (tbl : List (String × Bool)) :
      LookedUp env st s → s.unbounded = true → s.generation.isSome = true →
      env.ctx.keyByKind s.unboundedContextKind = some key →
      st.cache.lookup key = some (some tbl) →
      GPrim env st { st with memChecks := st.memChecks ++ [(key, bigSegmentRef s)] }
  | flag {a b : St} : FPrim env a b → GPrim env a b

theorem GPrim.toPrim0 {env : Env} {a b : St} (h : GPrim env a b) : Prim0 env a b := by
  cases h with
  | segLookup k => exact .seg (.segLookup _ k)
  | noGeneration s _ _ _ => exact .seg (.setNotConfigured _)
  | noProvider s key _ _ _ _ _ _ => exact .seg (.setNotConfigured _)
  | query s key p _ _ _ _ h1 h2 => exact .seg (.query _ key p h1 h2)
  | memCheck s key tbl _ _ _ _ _ => exact .seg (.memCheck _ key _)
  | flag hf => exact .flag hf

theorem Star.toPrim0 {env : Env} {a b : St} (h : Star (GPrim env) a b) : Star (Prim0 env) a b :=
  h.mono (fun _ _ hp => hp.toPrim0)

theorem Star.gReach {env : Env} {a b : St} (h : Star (GPrim env) a b) : Reach env a b :=
  h.toPrim0.toReach

theorem Star.segLookups_prefix {env : Env} {a b : St} (h : Star (GPrim env) a b) :
    a.segLookups <+: b.segLookups :=
  reach_segLookups_prefix h.gReach

/-! ### evaluator_segment.go makes guarded updates only -/

/-- What the parametric lemmas assume about the open recursion: called on a segment the store
returned for a looked-up key, it makes guarded steps. -/
abbrev SegRecG (env : Env) (rec : SegRec) : Prop :=
  ∀ seg chain st, LookedUp env st seg → Star (GPrim env) st (rec seg chain st).2

theorem segMatchValues_greach {rec : SegRec} {env : Env} (hrec : SegRecG env rec)
    (negate : Bool) (chain : List String) :
    ∀ vs st, Star (GPrim env) st (segMatchValues rec env negate chain vs st).2 := by
  intro vs
  induction vs with
  | nil => intro st; exact .refl _
  | cons v vs ih =>
    intro st
    cases v with
    | str k =>
      unfold segMatchValues
      simp only
      have h1 : Star (GPrim env) st { st with segLookups := st.segLookups ++ [k] } :=
        .single (.segLookup st k)
      split
      · exact h1.trans (ih _)
      · rename_i seg hfind
        have h2 := hrec seg chain { st with segLookups := st.segLookups ++ [k] }
          ⟨k, List.mem_append_right _ (List.mem_singleton.2 rfl), hfind⟩
        split
        · rename_i st2 heq; rw [heq] at h2; exact h1.trans h2
        · rename_i st2 heq; rw [heq] at h2; exact (h1.trans h2).trans (ih _)
        · rename_i e st2 heq; rw [heq] at h2; exact h1.trans h2
        · rename_i st2 heq; rw [heq] at h2; exact h1.trans h2
    | null => unfold segMatchValues; exact ih st
    | bool b => unfold segMatchValues; exact ih st
    | num q => unfold segMatchValues; exact ih st
    | arr xs => unfold segMatchValues; exact ih st
    | obj kvs => unfold segMatchValues; exact ih st
    | raw w => unfold segMatchValues; exact ih st

theorem clauseMatch_greach {rec : SegRec} {env : Env} (hrec : SegRecG env rec)
    (chain : List String) (c : Clause) (st : St) :
    Star (GPrim env) st (clauseMatch rec env chain c st).2 := by
  unfold clauseMatch
  split
  · exact segMatchValues_greach hrec _ _ _ _
  · exact .refl _

theorem clausesMatch_greach {rec : SegRec} {env : Env} (hrec : SegRecG env rec)
    (chain : List String) : ∀ cs st, Star (GPrim env) st (clausesMatch rec env chain cs st).2 := by
  intro cs
  induction cs with
  | nil => intro st; exact .refl _
  | cons c cs ih =>
    intro st
    unfold clausesMatch
    have h1 := clauseMatch_greach hrec chain c st
    split
    · rename_i st1 heq; rw [heq] at h1; exact h1.trans (ih _)
    · exact h1

theorem segRuleMatch_greach {rec : SegRec} {env : Env} (hrec : SegRecG env rec)
    (chain : List String) (key salt : String) (r : SegmentRule) (st : St) :
    Star (GPrim env) st (segRuleMatch rec env chain key salt r st).2 := by
  unfold segRuleMatch
  have h1 := clausesMatch_greach hrec chain r.clauses st
  split
  · rename_i st1 heq
    rw [heq] at h1
    split
    · exact h1
    · split
      · exact h1
      · split <;> exact h1
  · rename_i st1 heq; rw [heq] at h1; exact h1
  · exact h1

theorem segRules_greach {rec : SegRec} {env : Env} (hrec : SegRecG env rec)
    (chain : List String) (s : Segment) :
    ∀ rules st, Star (GPrim env) st (segRules rec env chain s rules st).2 := by
  intro rules
  induction rules with
  | nil => intro st; exact .refl _
  | cons r rs ih =>
    intro st
    unfold segRules
    have h1 := segRuleMatch_greach hrec chain s.key s.salt r st
    split
    · rename_i st1 heq; rw [heq] at h1; exact h1
    · rename_i st1 heq; rw [heq] at h1; exact h1.trans (ih _)
    · rename_i e st1 heq; rw [heq] at h1; exact h1
    · rename_i st1 heq; rw [heq] at h1; exact h1

/-- The membership lookup, guarded: it is made for a looked-up unbounded segment with a generation
and the context's key of its kind. -/
theorem bigSegMembership_greach (env : Env) (s : Segment) (key : String) (st : St)
    (hl : LookedUp env st s) (hu : s.unbounded = true) (hg : s.generation.isSome = true)
    (hk : env.ctx.keyByKind s.unboundedContextKind = some key) :
    Star (GPrim env) st (bigSegMembership env key st).2 := by
  unfold bigSegMembership
  split
  · exact .refl _
  · rename_i hnone
    split
    · rename_i hbs
      exact .single (.noProvider st s key hl hu hg hk hbs hnone)
    · rename_i p hp
      exact .single (.query st s key p hl hu hg hk hp hnone)

/-- A non-nil membership returned by the lookup is what the cache holds afterwards. -/
theorem bigSegMembership_cached (env : Env) (key : String) (st : St) (tbl : List (String × Bool))
    (h : (bigSegMembership env key st).1 = some tbl) :
    (bigSegMembership env key st).2.cache.lookup key = some (some tbl) := by
  unfold bigSegMembership at h ⊢
  split
  · rename_i m hm
    rw [hm] at h
    simp only at h
    rw [h] at hm
    exact hm
  · rename_i hnone
    rw [hnone] at h
    split
    · rename_i hbs
      rw [hbs] at h
      cases h
    · rename_i p hp
      rw [hp] at h
      simp only at h
      show List.lookup key (st.cache ++ [(key, (p.get key).membership)]) = some (some tbl)
      rw [List.lookup_append, hnone, Option.none_or, List.lookup_cons]
      simp [h]

theorem segBody_greach {rec : SegRec} {env : Env} (hrec : SegRecG env rec)
    (s : Segment) (chain : List String) (st : St) (hl : LookedUp env st s) :
    Star (GPrim env) st (segBody rec env s chain st).2 := by
  unfold segBody
  split
  · exact .refl _
  · simp only
    split
    · rename_i hu
      split
      · rename_i hg
        exact .single (.noGeneration st s hl hu hg)
      · rename_i g hg
        have hg' : s.generation.isSome = true := by rw [hg]; rfl
        split
        · exact .refl _
        · rename_i key hk
          have h1 := bigSegMembership_greach env s key st hl hu hg' hk
          have hc := bigSegMembership_cached env key st
          generalize bigSegMembership env key st = r at h1 hc
          obtain ⟨m, st1⟩ := r
          simp only at h1 hc ⊢
          split
          · exact h1.trans (segRules_greach hrec _ _ _ _)
          · rename_i tbl
            have hl1 : LookedUp env st1 s := hl.mono h1.segLookups_prefix
            have h2 : Star (GPrim env) st
                { st1 with memChecks := st1.memChecks ++ [(key, bigSegmentRef s)] } :=
              .step h1 (.memCheck st1 s key tbl hl1 hu hg' hk (hc tbl rfl))
            split
            · exact h2
            · exact h2.trans (segRules_greach hrec _ _ _ _)
    · split
      · exact .refl _
      · exact segRules_greach hrec _ _ _ _

theorem segContains_greach (n : Nat) (env : Env) : SegRecG env (segContains n env) := by
  induction n with
  | zero => intro s chain st _; exact .refl _
  | succ n ih =>
    intro s chain st hl
    show Star (GPrim env) st (segBody (segContains n env) env s chain st).2
    exact segBody_greach ih s chain st hl

/-! ### evaluator.go makes guarded updates only (the status merge is the identity) -/

theorem logErr_greach (env : Env) (flagKey : String) (e : EvalErr) (st : St) :
    Star (GPrim env) st (logErr env flagKey e st) := by
  unfold logErr
  split
  · rename_i h; exact .single (.flag (.log st _ h))
  · exact .refl _

theorem getVariation_greach (env : Env) (f : Flag) (index : Int) (reason : Reason) (st : St) :
    Star (GPrim env) st (getVariation env f index reason st).2 := by
  unfold getVariation
  split
  · exact logErr_greach _ _ _ _
  · exact .refl _

theorem getOffValue_greach (env : Env) (f : Flag) (reason : Reason) (st : St) :
    Star (GPrim env) st (getOffValue env f reason st).2 := by
  unfold getOffValue
  split
  · exact .refl _
  · exact getVariation_greach _ _ _ _ _

theorem getValueForVR_greach (env : Env) (f : Flag) (vr : VariationOrRollout) (reason : Reason)
    (st : St) : Star (GPrim env) st (getValueForVR env f vr reason st).2 := by
  unfold getValueForVR
  split
  · exact logErr_greach _ _ _ _
  · exact getVariation_greach _ _ _ _ _

abbrev FlagRecG (env : Env) (rec : FlagRec) : Prop :=
  ∀ f chain st, Star (GPrim env) st (rec f chain st).2

theorem prereqLoop_greach {rec : FlagRec} {env : Env} (hrec : FlagRecG env rec)
    (f : Flag) (chain : List String) :
    ∀ ps st, Star (GPrim env) st (prereqLoop rec env f chain ps st).2 := by
  intro ps
  induction ps with
  | nil => intro st; exact .refl _
  | cons p ps ih =>
    intro st
    unfold prereqLoop
    simp only
    have h1 : Star (GPrim env) st { st with flagLookups := st.flagLookups ++ [p.key] } :=
      .single (.flag (.flagLookup st p.key))
    split
    · exact h1
    · rename_i pf _
      split
      · exact h1.trans (logErr_greach _ _ _ _)
      · have h2 := hrec pf chain { st with flagLookups := st.flagLookups ++ [p.key] }
        split
        · rename_i st2 heq; rw [heq] at h2; exact h1.trans h2
        · rename_i d ok st2 heq
          rw [heq] at h2
          have h3 : Star (GPrim env) st
              { st2 with status := updateStatus st.status st2.status } := by
            have hprio : statusPriority st.status ≤ statusPriority st2.status :=
              reach_status_priority (h1.trans h2).gReach
            rw [updateStatus_of_priority_le hprio]
            exact h1.trans h2
          split
          · exact h3
          · split
            · split
              · rename_i hr
                exact .step h3 (.flag (.event _ _ hr))
              · exact h3
            · split
              · rename_i hr
                exact (Star.step h3 (.flag (.event _ _ hr))).trans (ih _)
              · exact h3.trans (ih _)

theorem checkPrereqs_greach {rec : FlagRec} {env : Env} (hrec : FlagRecG env rec)
    (f : Flag) (chain : List String) (st : St) :
    Star (GPrim env) st (checkPrereqs rec env f chain st).2 := by
  unfold checkPrereqs
  split
  · exact .refl _
  · exact prereqLoop_greach hrec _ _ _ _

theorem rulesLoop_greach {seg : SegRec} {env : Env} (hseg : SegRecG env seg) (f : Flag) :
    ∀ rules i st, Star (GPrim env) st (rulesLoop seg env f rules i st).2 := by
  intro rules
  induction rules with
  | nil =>
    intro i st
    unfold rulesLoop
    exact getValueForVR_greach _ _ _ _ _
  | cons r rs ih =>
    intro i st
    unfold rulesLoop
    have h1 := clausesMatch_greach hseg [] r.clauses st
    split
    · rename_i e st1 heq; rw [heq] at h1; exact h1.trans (logErr_greach _ _ _ _)
    · rename_i st1 heq; rw [heq] at h1; exact h1
    · rename_i st1 heq; rw [heq] at h1
      exact h1.trans (getValueForVR_greach _ _ _ _ _)
    · rename_i st1 heq; rw [heq] at h1; exact h1.trans (ih _ _)

theorem evalBody_greach {rec : FlagRec} {seg : SegRec} {env : Env} (hrec : FlagRecG env rec)
    (hseg : SegRecG env seg) (f : Flag) (chain : List String) (st : St) :
    Star (GPrim env) st (evalBody rec seg env f chain st).2 := by
  unfold evalBody
  split
  · exact getOffValue_greach _ _ _ _
  · have h1 := checkPrereqs_greach hrec f chain st
    split
    · rename_i st1 heq; rw [heq] at h1; exact h1
    · rename_i st1 heq; rw [heq] at h1; exact h1
    · rename_i k st1 heq; rw [heq] at h1
      exact h1.trans (getOffValue_greach _ _ _ _)
    · rename_i st1 heq; rw [heq] at h1
      split
      · exact h1.trans (getVariation_greach _ _ _ _ _)
      · exact h1.trans (rulesLoop_greach hseg _ _ _ _)

theorem evalFlag_greach (sf n : Nat) (env : Env) : FlagRecG env (evalFlag sf n env) := by
  induction n with
  | zero => intro f chain st; exact .refl _
  | succ n ih =>
    intro f chain st
    show Star (GPrim env) st (evalBody (evalFlag sf n env) (segContains sf env) env f chain st).2
    exact evalBody_greach ih (segContains_greach sf env) f chain st

/-- Bridge to `evaluate`: the side channels and the reported status are those of a state reached
from the empty state by GUARDED steps. -/
theorem evaluate_greach (env : Env) (f : Flag) :
    ∃ st, Star (GPrim env) {} st ∧ (evaluate env f).events = st.events ∧
      (evaluate env f).logs = st.logs ∧ (evaluate env f).flagLookups = st.flagLookups ∧
      (evaluate env f).segLookups = st.segLookups ∧ (evaluate env f).bsQueries = st.bsQueries ∧
      (evaluate env f).memChecks = st.memChecks ∧
      (evaluate env f).result.detail.reason.bigSegmentsStatus = st.status := by
  unfold evaluate
  split
  · exact ⟨{}, .refl _, rfl, rfl, rfl, rfl, rfl, rfl, rfl⟩
  · have h := evalFlag_greach (segFuel env.store) (flagFuel env.store) env f [] {}
    have hs : ∀ d ok st', evalFlag (segFuel env.store) (flagFuel env.store) env f [] {} =
        (.done d ok, st') → d.reason.bigSegmentsStatus = none := fun _ _ _ h => evalFlag_status h
    generalize evalFlag (segFuel env.store) (flagFuel env.store) env f [] {} = r at h hs
    obtain ⟨out, st⟩ := r
    refine ⟨st, h, rfl, rfl, rfl, rfl, rfl, rfl, ?_⟩
    simp only
    cases hst : st.status with
    | some s => rfl
    | none =>
      simp only
      cases out with
      | oof => rfl
      | done d ok => exact hs d ok st rfl

/-! ### Invariants of the guarded relation -/

/-- NOT_CONFIGURED has a LOCAL cause: the store returned, for one of the segment keys looked up, an
unbounded segment that has no generation, or there is no provider and the context has the kind of
such a segment. -/
def LocalNC (env : Env) (lookups : List String) : Prop :=
  ∃ k ∈ lookups, ∃ s, env.store.findSegment k = some s ∧ s.unbounded = true ∧
    (s.generation = none ∨
      (env.bs = none ∧ (env.ctx.keyByKind s.unboundedContextKind).isSome = true))

theorem LocalNC.mono {env : Env} {l l' : List String} (h : l <+: l') (hl : LocalNC env l) :
    LocalNC env l' := by
  obtain ⟨k, hk, rest⟩ := hl
  exact ⟨k, h.subset hk, rest⟩

theorem LocalNC.of_noGeneration {env : Env} {st : St} {s : Segment} (hl : LookedUp env st s)
    (hu : s.unbounded = true) (hg : s.generation = none) : LocalNC env st.segLookups := by
  obtain ⟨k, hk, hf⟩ := hl
  exact ⟨k, hk, s, hf, hu, .inl hg⟩

theorem LocalNC.of_noProvider {env : Env} {st : St} {s : Segment} {key : String}
    (hl : LookedUp env st s) (hu : s.unbounded = true)
    (hk : env.ctx.keyByKind s.unboundedContextKind = some key) (hbs : env.bs = none) :
    LocalNC env st.segLookups := by
  obtain ⟨k, hkm, hf⟩ := hl
  exact ⟨k, hkm, s, hf, hu, .inr ⟨hbs, by rw [hk]; rfl⟩⟩

/-- `StatusSeen` with the NOT_CONFIGURED alternative constrained: NOT_CONFIGURED that is not the
answer of the provider for a queried key (third alternative) has a local cause. -/
def StatusSeenG (env : Env) (status : Option Status) (queries lookups : List String) : Prop :=
  (status = none ∧ queries = []) ∨ (status = some .notConfigured ∧ LocalNC env lookups) ∨
    ∃ p pre k post, env.bs = some p ∧ queries = pre ++ k :: post ∧ status = (p.get k).status ∧
      (∀ k' ∈ pre, statusPriority (p.get k').status ≤ statusPriority status) ∧
      (∀ k' ∈ post, statusPriority (p.get k').status < statusPriority status)

theorem StatusSeenG.lookups_mono {env : Env} {status : Option Status} {queries l l' : List String}
    (h : l <+: l') (hs : StatusSeenG env status queries l) : StatusSeenG env status queries l' := by
  rcases hs with h1 | ⟨h1, h2⟩ | h3
  · exact .inl h1
  · exact .inr (.inl ⟨h1, h2.mono h⟩)
  · exact .inr (.inr h3)

theorem StatusSeenG.toStatusSeen {env : Env} {status : Option Status} {queries l : List String}
    (hs : StatusSeenG env status queries l) : StatusSeen env status queries := by
  rcases hs with h1 | ⟨h1, _⟩ | h3
  · exact .inl h1
  · exact .inr (.inl h1)
  · exact .inr (.inr h3)

theorem gstar_status_seen {env : Env} {st : St} (h : Star (GPrim env) {} st) :
    StatusSeenG env st.status st.bsQueries st.segLookups := by
  refine (Star.invariant
    (I := fun st => Reach env {} st ∧ StatusSeenG env st.status st.bsQueries st.segLookups) ?_ h
    ⟨.refl _, .inl ⟨rfl, rfl⟩⟩).2
  intro a b hp ⟨hreach, ha⟩
  refine ⟨.step hreach hp.toPrim0.toPrim, ?_⟩
  cases hp with
  | flag hf => cases hf <;> exact ha
  | segLookup k => exact ha.lookups_mono (List.prefix_append _ _)
  | memCheck => exact ha
  | noGeneration s hl hu hg => exact .inr (.inl ⟨rfl, .of_noGeneration hl hu hg⟩)
  | noProvider s key hl hu hg hk hbs _ => exact .inr (.inl ⟨rfl, .of_noProvider hl hu hk hbs⟩)
  | query s key p _ _ _ _ hbs _ =>
    show StatusSeenG env (updateStatus a.status (p.get key).status) (a.bsQueries ++ [key])
      a.segLookups
    by_cases hgt : statusPriority (p.get key).status < statusPriority a.status
    · rw [updateStatus_of_priority_gt hgt]
      rcases ha with ⟨hn, _⟩ | ha | ⟨q, pre, k, post, hq, hsplit, hs, hpre, hpost⟩
      · rw [hn] at hgt; exact absurd hgt (Nat.not_lt_zero _)
      · exact .inr (.inl ha)
      · have hqp : q = p := by rw [hq] at hbs; exact Option.some.inj hbs
        subst hqp
        refine .inr (.inr ⟨q, pre, k, post ++ [key], hq, ?_, hs, hpre, ?_⟩)
        · rw [hsplit, List.append_assoc]; rfl
        · intro k' hk'
          rcases List.mem_append.1 hk' with hk' | hk'
          · exact hpost k' hk'
          · rw [List.mem_singleton] at hk'; subst hk'; exact hgt
    · have hle : statusPriority a.status ≤ statusPriority (p.get key).status := Nat.le_of_not_lt hgt
      rw [updateStatus_of_priority_le hle]
      refine .inr (.inr ⟨p, a.bsQueries, key, [], hbs, rfl, rfl, ?_, ?_⟩)
      · intro k' hk'
        obtain ⟨q, hq, hle'⟩ := reach_status_ge_queried hreach k' hk'
        have hqp : q = p := by rw [hq] at hbs; exact Option.some.inj hbs
        subst hqp
        exact Nat.le_trans hle' hle
      · intro k' hk'; cases hk'

/-- The exact value, with the NOT_CONFIGURED alternative constrained. -/
theorem gstar_status_fold {env : Env} {st : St} (h : Star (GPrim env) {} st) :
    (st.status = some .notConfigured ∧ LocalNC env st.segLookups) ∨
      st.status = foldStatus (st.bsQueries.map (answerOf env)) := by
  refine Star.invariant (I := fun st =>
      (st.status = some .notConfigured ∧ LocalNC env st.segLookups) ∨
      st.status = foldStatus (st.bsQueries.map (answerOf env))) ?_ h (.inr rfl)
  intro a b hp ha
  cases hp with
  | flag hf => cases hf <;> exact ha
  | segLookup k =>
    rcases ha with ⟨h1, h2⟩ | ha
    · exact .inl ⟨h1, h2.mono (List.prefix_append _ _)⟩
    · exact .inr ha
  | memCheck => exact ha
  | noGeneration s hl hu hg => exact .inl ⟨rfl, .of_noGeneration hl hu hg⟩
  | noProvider s key hl hu hg hk hbs _ => exact .inl ⟨rfl, .of_noProvider hl hu hk hbs⟩
  | query s key p _ _ _ _ hbs _ =>
    show (updateStatus a.status (p.get key).status = _ ∧ LocalNC env a.segLookups) ∨
      updateStatus a.status (p.get key).status =
        foldStatus ((a.bsQueries ++ [key]).map (answerOf env))
    rcases ha with ⟨ha, hl⟩ | ha
    · rw [ha]; exact .inl ⟨updateStatus_notConfigured_left _, hl⟩
    · right
      rw [ha]
      simp [foldStatus, List.foldl_append, answerOf, hbs]

/-- Every queried key is the context's key for the kind of a looked-up unbounded segment that has
a generation. -/
theorem gstar_queries {env : Env} {st : St} (h : Star (GPrim env) {} st) :
    ∀ key ∈ st.bsQueries, ∃ s, LookedUp env st s ∧ s.unbounded = true ∧
      s.generation.isSome = true ∧ env.ctx.keyByKind s.unboundedContextKind = some key := by
  refine Star.invariant (I := fun st => ∀ key ∈ st.bsQueries, ∃ s, LookedUp env st s ∧
      s.unbounded = true ∧ s.generation.isSome = true ∧
      env.ctx.keyByKind s.unboundedContextKind = some key) ?_ h ?_
  · intro a b hp ha
    have hpre : a.segLookups <+: b.segLookups := (Star.single hp).segLookups_prefix
    cases hp with
    | query s key p hl hu hg hk hbs _ =>
      intro k hkm
      change k ∈ a.bsQueries ++ [key] at hkm
      rcases List.mem_append.1 hkm with hkm | hkm
      · exact ha k hkm
      · rw [List.mem_singleton] at hkm; subst hkm
        exact ⟨s, hl, hu, hg, hk⟩
    | flag hf =>
      intro k hkm
      have hq : b.bsQueries = a.bsQueries := by cases hf <;> rfl
      rw [hq] at hkm
      obtain ⟨s, hl, rest⟩ := ha k hkm
      exact ⟨s, hl.mono hpre, rest⟩
    | _ =>
      intro k hkm
      obtain ⟨s, hl, rest⟩ := ha k hkm
      exact ⟨s, hl.mono hpre, rest⟩
  · intro k hk; cases hk

theorem lookup_append_of_some {β : Type} {key : String} {l l' : List (String × β)} {x : β}
    (h : l.lookup key = some x) : (l ++ l').lookup key = some x := by
  rw [List.lookup_append, h]; rfl

/-- Every membership check uses the reference of a looked-up unbounded segment with a generation and
the context's key of its kind, and the membership cache holds a non-nil membership for that key. -/
theorem gstar_memChecks {env : Env} {st : St} (h : Star (GPrim env) {} st) :
    ∀ c ∈ st.memChecks, ∃ s tbl, LookedUp env st s ∧ s.unbounded = true ∧
      s.generation.isSome = true ∧ env.ctx.keyByKind s.unboundedContextKind = some c.1 ∧
      c.2 = bigSegmentRef s ∧ st.cache.lookup c.1 = some (some tbl) := by
  refine Star.invariant (I := fun st => ∀ c ∈ st.memChecks, ∃ s tbl, LookedUp env st s ∧
      s.unbounded = true ∧ s.generation.isSome = true ∧
      env.ctx.keyByKind s.unboundedContextKind = some c.1 ∧
      c.2 = bigSegmentRef s ∧ st.cache.lookup c.1 = some (some tbl)) ?_ h ?_
  · intro a b hp ha
    have hpre : a.segLookups <+: b.segLookups := (Star.single hp).segLookups_prefix
    cases hp with
    | memCheck s key tbl hl hu hg hk hc =>
      intro c hcm
      change c ∈ a.memChecks ++ [(key, bigSegmentRef s)] at hcm
      rcases List.mem_append.1 hcm with hcm | hcm
      · exact ha c hcm
      · rw [List.mem_singleton] at hcm; subst hcm
        exact ⟨s, tbl, hl, hu, hg, hk, rfl, hc⟩
    | query s key p _ _ _ _ _ _ =>
      intro c hcm
      obtain ⟨s', tbl, hl, hu, hg, hk, hr, hc⟩ := ha c hcm
      exact ⟨s', tbl, hl, hu, hg, hk, hr, lookup_append_of_some hc⟩
    | flag hf =>
      intro c hcm
      have hq : b.memChecks = a.memChecks ∧ b.cache = a.cache := by cases hf <;> exact ⟨rfl, rfl⟩
      rw [hq.1] at hcm
      obtain ⟨s, tbl, hl, rest⟩ := ha c hcm
      rw [hq.2]
      exact ⟨s, tbl, hl.mono hpre, rest⟩
    | _ =>
      intro c hcm
      obtain ⟨s, tbl, hl, rest⟩ := ha c hcm
      exact ⟨s, tbl, hl.mono hpre, rest⟩
  · intro c hc; cases hc

/-- A cached membership belongs to a queried key and is the provider's answer for it. -/
theorem reach_cached {env : Env} {st : St} (h : Reach env {} st) {key : String} {m : Membership}
    (hc : st.cache.lookup key = some m) :
    ∃ p, env.bs = some p ∧ key ∈ st.bsQueries ∧ (p.get key).membership = m := by
  obtain ⟨p, hp, hm⟩ := (h.pconsistent (PConsistent.empty env)) key m hc
  refine ⟨p, hp, ?_, hm.symm⟩
  rw [(h.qinv QInv.empty).1]
  obtain ⟨l₁, l₂, hsplit, _⟩ := List.lookup_eq_some_iff.1 hc
  rw [hsplit]; simp

end LD
